(** Bytes, fixed-width big/little-endian words and lexicographic order.
    Bytes are [N] values below 256; words are [N] values below [2^(8*n)]. *)
From Coq Require Import List NArith ZArith Lia Bool.
From Coq Require Import ZifyBool ZifyN ZifyNat.
Import ListNotations.
Open Scope N_scope.

Ltac Zify.zify_post_hook ::= Z.div_mod_to_equations.

Definition is_byte (b : N) : bool := b <? 256.
Definition bytes_ok (l : list N) : bool := forallb is_byte l.

(** Lexicographic comparison of byte strings, as Go's [bytes.Compare] and
    string [<]: a proper prefix is smaller. *)
Fixpoint lex_cmp (a b : list N) : comparison :=
  match a, b with
  | [], [] => Eq
  | [], _ :: _ => Lt
  | _ :: _, [] => Gt
  | x :: a', y :: b' =>
      match x ?= y with
      | Eq => lex_cmp a' b'
      | c => c
      end
  end.

(** [n]-byte big-endian encoding of [a mod 256^n]. *)
Fixpoint be (n : nat) (a : N) : list N :=
  match n with
  | O => []
  | S n' => be n' (a / 256) ++ [a mod 256]
  end.

(** [n]-byte little-endian encoding of [a mod 256^n]. *)
Fixpoint le (n : nat) (a : N) : list N :=
  match n with
  | O => []
  | S n' => (a mod 256) :: le n' (a / 256)
  end.

Fixpoint be_dec (l : list N) (acc : N) : N :=
  match l with
  | [] => acc
  | x :: l' => be_dec l' (acc * 256 + x)
  end.

Fixpoint le_dec (l : list N) : N :=
  match l with
  | [] => 0
  | x :: l' => x + 256 * le_dec l'
  end.

Fixpoint zeros (n : nat) : list N :=
  match n with O => [] | S n' => 0 :: zeros n' end.
