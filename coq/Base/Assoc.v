(** Association lists keyed by [N] — the executable stand-in for Go maps. *)
From Coq Require Import List NArith Bool.
Import ListNotations.
Open Scope N_scope.

Section Assoc.
  Context {A : Type}.

  Fixpoint aget (m : list (N * A)) (k : N) : option A :=
    match m with
    | [] => None
    | (k', v) :: m' => if k' =? k then Some v else aget m' k
    end.

  Fixpoint aset (m : list (N * A)) (k : N) (v : A) : list (N * A) :=
    match m with
    | [] => [(k, v)]
    | (k', v') :: m' => if k' =? k then (k, v) :: m' else (k', v') :: aset m' k v
    end.

  Fixpoint adel (m : list (N * A)) (k : N) : list (N * A) :=
    match m with
    | [] => []
    | (k', v') :: m' => if k' =? k then adel m' k else (k', v') :: adel m' k
    end.
End Assoc.

(** Lookup of a list-valued map with default []. *)
Definition agetl {A} (m : list (N * list A)) (k : N) : list A :=
  match aget m k with Some l => l | None => [] end.

Fixpoint memN (x : N) (l : list N) : bool :=
  match l with [] => false | y :: l' => (y =? x) || memN x l' end.

(** Remove the first occurrence (Go: removeTxnID / removeRID). *)
Fixpoint remove1 (x : N) (l : list N) : list N :=
  match l with
  | [] => []
  | y :: l' => if y =? x then l' else y :: remove1 x l'
  end.
