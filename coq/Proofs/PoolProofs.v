(** Proofs about the buffer pool model (Model/Pool.v) run in lock step with the
    client contract / specification (Model/PoolClient.v), used by Props/C13.v.
    Axiom-free; standard library only. *)
From Coq Require Import List NArith ZArith Bool PeanoNat Lia ZifyBool ZifyN ZifyNat.
From SDB Require Import Base.Assoc Model.Pool Model.PoolClient Proofs.LockProofs Proofs.PoolLemmas.
Import ListNotations.
Open Scope N_scope.

(* ------------------------------------------------------------------ *)
(** * The invariant *)

(** Pool-only part.  [h] is a "hole": a frame index that is empty but has been
    taken off the free list (the state between getFrameID and the refill). *)
Record SInv (n : nat) (b : pool) (h : option N) : Prop := {
  s_len : length (frames b) = n;
  s_lock : locked b = false;
  s_pt : forall p f, aget (ptable b) p = Some f <->
                     exists fr, fat (frames b) f = Some fr /\ f_pid fr = p;
  s_free : forall f, In f (freel b) <->
                     (f < N.of_nat n /\ fat (frames b) f = None /\ h <> Some f);
  s_free_nd : NoDup (freel b);
  s_repl : forall f, In f (repl b) <-> exists fr, fat (frames b) f = Some fr /\ f_pin fr = 0%Z;
  s_repl_nd : NoDup (repl b);
  s_reus : forall p, In p (reusable b) -> aget (ptable b) p = None;
  s_reus_nd : NoDup (reusable b);
  s_dsize : dsize b <= next_pid b;
  s_next_res : forall f fr, fat (frames b) f = Some fr -> f_pid fr < next_pid b;
  s_next_reus : forall p, In p (reusable b) -> p < next_pid b
}.

(** Part relating the pool to the client / specification. *)
Record RInv (b : pool) (c : client) : Prop := {
  r_pin : forall f fr, fat (frames b) f = Some fr -> f_pin fr = Z.of_N (pins_of c (f_pid fr));
  r_pinres : forall p, 0 < pins_of c p -> exists f, aget (ptable b) p = Some f;
  r_val : forall p v f fr, aget (c_spec c) p = Some v -> fat (frames b) f = Some fr ->
                           f_pid fr = p -> f_val fr = v;
  r_clean : forall p v f fr, aget (c_spec c) p = Some v -> fat (frames b) f = Some fr ->
                             f_pid fr = p -> f_dirty fr = false -> ~ In p (c_wrote c) ->
                             dread (disk b) (dsize b) p = Some v;
  r_disk : forall p v, aget (c_spec c) p = Some v -> aget (ptable b) p = None ->
                       dread (disk b) (dsize b) p = Some v;
  r_wrote : forall p, In p (c_wrote c) -> 0 < pins_of c p;
  r_wrote_nd : NoDup (c_wrote c);
  r_reus_spec : forall p, In p (reusable b) -> aget (c_spec c) p = None;
  r_reus_dead : forall p, In p (reusable b) -> In p (c_dead c);
  r_dflag : forall f fr, fat (frames b) f = Some fr -> f_dealloc fr = true -> In (f_pid fr) (c_dead c);
  r_dead : forall p, In p (c_dead c) -> pins_of c p = 0 -> aget (c_spec c) p = None;
  r_next_spec : forall p v, aget (c_spec c) p = Some v -> p < next_pid b
}.

Definition PInv (n : nat) (b : pool) (c : client) : Prop := SInv n b None /\ RInv b c.

Ltac proj := cbn [frames ptable freel repl reusable disk dsize next_pid locked
                  c_pins c_wrote c_spec c_dead].

(* ------------------------------------------------------------------ *)
(** * Derived facts *)

Lemma res_unique : forall n b h f g fr fr', SInv n b h ->
  fat (frames b) f = Some fr -> fat (frames b) g = Some fr' -> f_pid fr = f_pid fr' -> f = g.
Proof.
  intros n b h f g fr fr' S Hf Hg E.
  assert (A : aget (ptable b) (f_pid fr) = Some f) by (apply (s_pt _ _ _ S); eauto).
  assert (B : aget (ptable b) (f_pid fr) = Some g) by (apply (s_pt _ _ _ S); eauto).
  congruence.
Qed.

Lemma pins_nonres : forall b c p, RInv b c -> aget (ptable b) p = None -> pins_of c p = 0.
Proof.
  intros b c p R H. destruct (N.eq_dec (pins_of c p) 0) as [E|E]; [assumption|].
  destruct (r_pinres _ _ R p) as [f Hf]; [lia|congruence].
Qed.

Lemma res_lt : forall n b h f fr, SInv n b h -> fat (frames b) f = Some fr ->
  (N.to_nat f < length (frames b))%nat.
Proof. intros. eapply fat_lt. eassumption. Qed.

Lemma pins_of_aset_same : forall c p k ws sp dd, pins_of (mkC (aset (c_pins c) p k) ws sp dd) p = k.
Proof. intros. unfold pins_of. proj. rewrite aget_aset_same. reflexivity. Qed.

Lemma pins_of_aset_other : forall c p q k ws sp dd, p <> q ->
  pins_of (mkC (aset (c_pins c) p k) ws sp dd) q = pins_of c q.
Proof. intros. unfold pins_of. proj. rewrite aget_aset_other by assumption. reflexivity. Qed.

Lemma pins_of_same : forall c ws sp dd, forall q, pins_of (mkC (c_pins c) ws sp dd) q = pins_of c q.
Proof. reflexivity. Qed.

(* ------------------------------------------------------------------ *)
(** * Initial state *)

Lemma PInv_init : forall n, PInv n (binit n) cinit.
Proof.
  intros n. split.
  - constructor; unfold binit; proj.
    + apply length_mk_frames.
    + reflexivity.
    + intros p f. rewrite fat_mk_frames. cbn [aget]. split; [discriminate|].
      intros [fr [H _]]. discriminate.
    + intros f. rewrite In_iota. rewrite fat_mk_frames. split.
      * intros [_ H]. repeat split; [lia|discriminate].
      * intros [H _]. lia.
    + apply NoDup_iota.
    + intros f. rewrite fat_mk_frames. split; [contradiction|].
      intros [fr [H _]]. discriminate.
    + constructor.
    + contradiction.
    + constructor.
    + lia.
    + intros f fr. rewrite fat_mk_frames. discriminate.
    + contradiction.
  - constructor; unfold binit, cinit; proj; try (intros; contradiction); try (intros; discriminate).
    all: try (intros f fr; rewrite fat_mk_frames; discriminate).
    all: try (intros p H; unfold pins_of in H; cbn [c_pins aget] in H; lia).
    all: try constructor.
Qed.

(* ------------------------------------------------------------------ *)
(** * Updating a resident frame without changing its page id *)

Lemma SInv_upd : forall n b h f fr fr' rp dk ds,
  SInv n b h -> fat (frames b) f = Some fr -> f_pid fr' = f_pid fr ->
  NoDup rp -> (forall g, In g rp <-> (if g =? f then f_pin fr' = 0%Z else In g (repl b))) ->
  ds <= next_pid b ->
  SInv n (mkB (set_fr (frames b) (N.to_nat f) (Some fr')) (ptable b) (freel b) rp
              (reusable b) dk ds (next_pid b) (locked b)) h.
Proof.
  intros n b h f fr fr' rp dk ds S Hf Hpid Hnd Hrp Hds.
  pose proof (fat_lt _ _ _ Hf) as Hlt.
  constructor; proj.
  - rewrite length_set_fr. apply (s_len _ _ _ S).
  - apply (s_lock _ _ _ S).
  - intros p g. rewrite fat_set by assumption. destruct (N.eqb_spec g f) as [E|E].
    + subst g. rewrite (s_pt _ _ _ S). split.
      * intros [fr0 [H1 H2]]. exists fr'. split; [reflexivity|]. congruence.
      * intros [fr0 [H1 H2]]. exists fr. split; [assumption|]. congruence.
    + apply (s_pt _ _ _ S).
  - intros g. rewrite fat_set by assumption. destruct (N.eqb_spec g f) as [E|E].
    + subst g. rewrite (s_free _ _ _ S). rewrite Hf. split; intros [_ [H _]]; discriminate.
    + apply (s_free _ _ _ S).
  - apply (s_free_nd _ _ _ S).
  - intros g. rewrite Hrp. rewrite fat_set by assumption. destruct (N.eqb_spec g f) as [E|E].
    + split.
      * intros H. exists fr'. split; [reflexivity|assumption].
      * intros [fr0 [H1 H2]]. congruence.
    + apply (s_repl _ _ _ S).
  - assumption.
  - apply (s_reus _ _ _ S).
  - apply (s_reus_nd _ _ _ S).
  - assumption.
  - intros g fr0. rewrite fat_set by assumption. destruct (N.eqb_spec g f) as [E|E].
    + intros H. inversion H; subst fr0. rewrite Hpid. eapply (s_next_res _ _ _ S). eassumption.
    + apply (s_next_res _ _ _ S).
  - apply (s_next_reus _ _ _ S).
Qed.

(** The replacer list is unchanged when the pin count stays non-zero / zero. *)
Lemma repl_same : forall n b h f fr fr', SInv n b h -> fat (frames b) f = Some fr ->
  f_pin fr' = f_pin fr ->
  forall g, In g (repl b) <-> (if g =? f then f_pin fr' = 0%Z else In g (repl b)).
Proof.
  intros n b h f fr fr' S Hf Hpin g. destruct (N.eqb_spec g f) as [E|E]; [|tauto].
  subst g. rewrite (s_repl _ _ _ S). rewrite Hpin. split.
  - intros [fr0 [H1 H2]]. congruence.
  - intros H. eauto.
Qed.

(* ------------------------------------------------------------------ *)
(** * Eviction *)

Lemma evict_inv : forall n b c vic cur reus dk ds,
  SInv n b None -> RInv b c -> freel b = [] ->
  fat (frames b) vic = Some cur -> f_pin cur = 0%Z ->
  (reus = reusable b /\ f_dealloc cur = false \/
   reus = reusable b ++ [f_pid cur] /\ f_dealloc cur = true) ->
  (dk = disk b /\ ds = dsize b /\ (f_dealloc cur = true \/ f_dirty cur = false) \/
   dk = aset (disk b) (f_pid cur) (f_val cur) /\
   ds = (if dsize b <=? f_pid cur then f_pid cur + 1 else dsize b) /\ f_dealloc cur = false) ->
  SInv n (mkB (set_fr (frames b) (N.to_nat vic) None) (adel (ptable b) (f_pid cur)) []
              (remove1 vic (repl b)) reus dk ds (next_pid b) (locked b)) (Some vic) /\
  RInv (mkB (set_fr (frames b) (N.to_nat vic) None) (adel (ptable b) (f_pid cur)) []
              (remove1 vic (repl b)) reus dk ds (next_pid b) (locked b)) c.
Proof.
  intros n b c vic cur reus dk ds S R Hfl Hcur Hpin Hreus Hdk.
  pose proof (fat_lt _ _ _ Hcur) as Hlt.
  set (q := f_pid cur) in *.
  assert (Hq : aget (ptable b) q = Some vic) by (apply (s_pt _ _ _ S); eauto).
  assert (Hpq : pins_of c q = 0).
  { pose proof (r_pin _ _ R _ _ Hcur) as H. fold q in H. lia. }
  assert (Hqn : q < next_pid b) by (eapply (s_next_res _ _ _ S); eassumption).
  assert (Hother : forall g fr, g <> vic -> fat (frames b) g = Some fr -> f_pid fr <> q).
  { intros g fr Hg Hfr E. apply Hg. eapply res_unique; eauto. }
  assert (Hmono : forall p w, p <> q -> dread (disk b) (dsize b) p = Some w -> dread dk ds p = Some w).
  { intros p w Hp H. destruct Hdk as [[E1 [E2 _]]|[E1 [E2 _]]]; subst dk ds; [assumption|].
    apply dread_write_other; assumption. }
  assert (Hds : ds <= next_pid b).
  { pose proof (s_dsize _ _ _ S) as H.
    destruct Hdk as [[E1 [E2 _]]|[E1 [E2 _]]]; subst ds; [assumption|].
    destruct (N.leb_spec (dsize b) q); lia. }
  assert (Hreus_in : forall p, In p reus -> In p (reusable b) \/ (p = q /\ f_dealloc cur = true)).
  { intros p Hp. destruct Hreus as [[E1 E2]|[E1 E2]]; subst reus; [left; assumption|].
    apply in_app_or in Hp. destruct Hp as [Hp|[Hp|[]]]; [left; assumption|right].
    split; [symmetry; assumption|assumption]. }
  assert (Hqdead : f_dealloc cur = true -> aget (c_spec c) q = None).
  { intros Hd. apply (r_dead _ _ R); [|assumption]. apply (r_dflag _ _ R _ _ Hcur Hd). }
  split.
  - constructor; proj.
    + rewrite length_set_fr. apply (s_len _ _ _ S).
    + apply (s_lock _ _ _ S).
    + intros p g. rewrite fat_set by assumption.
      destruct (N.eq_dec p q) as [Ep|Ep].
      * subst p. rewrite aget_adel_same. split; [discriminate|].
        intros [fr [H1 H2]]. destruct (N.eqb_spec g vic) as [E|E]; [discriminate|].
        exfalso. eapply Hother; eauto.
      * rewrite aget_adel_other by congruence.
        destruct (N.eqb_spec g vic) as [E|E].
        -- subst g. split.
           ++ intros H. apply (s_pt _ _ _ S) in H. destruct H as [fr [H1 H2]].
              exfalso. apply Ep. rewrite Hcur in H1. inversion H1; subst fr. symmetry; assumption.
           ++ intros [fr [H1 _]]. discriminate.
        -- apply (s_pt _ _ _ S).
    + intros g. rewrite fat_set by assumption. split; [contradiction|].
      intros [H1 [H2 H3]]. destruct (N.eqb_spec g vic) as [E|E]; [congruence|].
      rewrite <- Hfl. apply (s_free _ _ _ S). repeat split; [assumption|assumption|discriminate].
    + constructor.
    + intros g. rewrite fat_set by assumption. destruct (N.eqb_spec g vic) as [E|E].
      * subst g. split.
        -- intros H. exfalso. revert H. apply remove1_NoDup_notin. apply (s_repl_nd _ _ _ S).
        -- intros [fr [H1 _]]. discriminate.
      * rewrite <- (s_repl _ _ _ S). split.
        -- apply In_remove1.
        -- apply In_remove1_neq. assumption.
    + apply NoDup_remove1. apply (s_repl_nd _ _ _ S).
    + intros p Hp. destruct (N.eq_dec p q) as [Ep|Ep].
      * subst p. apply aget_adel_same.
      * rewrite aget_adel_other by congruence. apply (s_reus _ _ _ S).
        destruct (Hreus_in p Hp) as [H|[H _]]; [assumption|contradiction].
    + destruct Hreus as [[E1 E2]|[E1 E2]]; subst reus.
      * apply (s_reus_nd _ _ _ S).
      * apply NoDup_snoc; [apply (s_reus_nd _ _ _ S)|].
        intros H. apply (s_reus _ _ _ S) in H. fold q in H. congruence.
    + assumption.
    + intros g fr. rewrite fat_set by assumption. destruct (N.eqb_spec g vic) as [E|E]; [discriminate|].
      apply (s_next_res _ _ _ S).
    + intros p Hp. destruct (Hreus_in p Hp) as [H|[H _]].
      * apply (s_next_reus _ _ _ S). assumption.
      * subst p. assumption.
  - constructor; proj.
    + intros g fr. rewrite fat_set by assumption. destruct (N.eqb_spec g vic) as [E|E]; [discriminate|].
      apply (r_pin _ _ R).
    + intros p Hp. destruct (N.eq_dec p q) as [Ep|Ep]; [subst p; lia|].
      rewrite aget_adel_other by congruence. apply (r_pinres _ _ R). assumption.
    + intros p v g fr Hs. rewrite fat_set by assumption.
      destruct (N.eqb_spec g vic) as [E|E]; [discriminate|]. apply (r_val _ _ R). assumption.
    + intros p v g fr Hs. rewrite fat_set by assumption.
      destruct (N.eqb_spec g vic) as [E|E]; [discriminate|].
      intros H1 H2 H3 H4. apply Hmono.
      * subst p. eapply Hother; eassumption.
      * eapply (r_clean _ _ R); eassumption.
    + intros p v Hs Hp. destruct (N.eq_dec p q) as [Ep|Ep].
      * subst p. destruct (f_dealloc cur) eqn:Hd.
        { rewrite Hqdead in Hs by reflexivity. discriminate. }
        assert (Hv : f_val cur = v) by (eapply (r_val _ _ R); eauto).
        destruct Hdk as [[E1 [E2 E3]]|[E1 [E2 E3]]]; subst dk ds.
        -- destruct E3 as [E3|E3]; [discriminate|].
           eapply (r_clean _ _ R); eauto.
           intros Hw. apply (r_wrote _ _ R) in Hw. lia.
        -- rewrite Hv. apply dread_write_same.
      * rewrite aget_adel_other in Hp by congruence.
        apply Hmono; [assumption|]. apply (r_disk _ _ R); assumption.
    + apply (r_wrote _ _ R).
    + apply (r_wrote_nd _ _ R).
    + intros p Hp. destruct (Hreus_in p Hp) as [H|[H1 H2]].
      * apply (r_reus_spec _ _ R). assumption.
      * subst p. apply Hqdead. assumption.
    + intros p Hp. destruct (Hreus_in p Hp) as [H|[H1 H2]].
      * apply (r_reus_dead _ _ R). assumption.
      * subst p. apply (r_dflag _ _ R _ _ Hcur H2).
    + intros g fr. rewrite fat_set by assumption. destruct (N.eqb_spec g vic) as [E|E]; [discriminate|].
      apply (r_dflag _ _ R).
    + apply (r_dead _ _ R).
    + apply (r_next_spec _ _ R).
Qed.

Definition evicted_flagged (b : pool) (vic p : N) : Prop :=
  freel b = [] /\ aget (ptable b) p = Some vic /\
  exists fr, fat (frames b) vic = Some fr /\ f_pin fr = 0%Z /\ f_dealloc fr = true.

Lemma evict_extra : forall n b vic cur reus,
  SInv n b None -> freel b = [] ->
  fat (frames b) vic = Some cur -> f_pin cur = 0%Z ->
  (reus = reusable b /\ f_dealloc cur = false \/
   reus = reusable b ++ [f_pid cur] /\ f_dealloc cur = true) ->
  fat (set_fr (frames b) (N.to_nat vic) None) vic = None /\ vic < N.of_nat n /\
  (forall p, aget (ptable b) p = None -> aget (adel (ptable b) (f_pid cur)) p = None) /\
  (forall p, In p reus -> aget (ptable b) p = None \/ evicted_flagged b vic p).
Proof.
  intros n b vic cur reus S Hfl Hcur Hpin Hreus.
  pose proof (fat_lt _ _ _ Hcur) as Hlt.
  split; [apply fat_set_same; assumption|].
  split; [rewrite (s_len _ _ _ S) in Hlt; lia|].
  split.
  - intros p Hp. destruct (N.eq_dec p (f_pid cur)) as [E|E].
    + subst p. apply aget_adel_same.
    + rewrite aget_adel_other by congruence. assumption.
  - intros p Hp. destruct Hreus as [[E1 E2]|[E1 E2]]; subst reus.
    + left. apply (s_reus _ _ _ S). assumption.
    + apply in_app_or in Hp. destruct Hp as [Hp|[Hp|[]]].
      * left. apply (s_reus _ _ _ S). assumption.
      * right. subst p. split; [assumption|]. split.
        -- apply (s_pt _ _ _ S). eauto.
        -- eauto.
Qed.

(* ------------------------------------------------------------------ *)
(** * take_frame *)

Definition TF (n : nat) (b : pool) (c : client) (vic f : N) (b1 : pool) : Prop :=
  SInv n b1 (Some f) /\ RInv b1 c /\ fat (frames b1) f = None /\ f < N.of_nat n /\
  next_pid b1 = next_pid b /\
  (forall p, aget (ptable b) p = None -> aget (ptable b1) p = None) /\
  (forall p, In p (reusable b1) -> aget (ptable b) p = None \/ evicted_flagged b vic p).

Lemma take_frame_ok : forall n b c vic f b1,
  SInv n b None -> RInv b c -> take_frame b vic = inl (Some (f, b1)) -> TF n b c vic f b1.
Proof.
  intros n b c vic f b1 S R H. unfold take_frame in H.
  destruct (freel b) as [|f0 rest] eqn:Hfl.
  - destruct (repl b) as [|r0 rr] eqn:Hrp; [discriminate|]. rewrite <- Hrp in H.
    destruct (memN vic (repl b)) eqn:Hm; cbn [negb] in H; [|discriminate].
    apply memN_In in Hm. destruct (proj1 (s_repl _ _ _ S vic) Hm) as [cur [Hcur Hpin]].
    rewrite fr_at_fat, Hcur, Hpin in H. cbn [Z.eqb negb] in H.
    unfold TF.
    destruct (f_dealloc cur) eqn:Hd; destruct (f_dirty cur) eqn:Hdi;
      cbn [negb andb] in H; unfold disk_write in H; inversion H; subst f b1; clear H; proj.
    + destruct (evict_inv n b c vic cur (reusable b ++ [f_pid cur]) (disk b) (dsize b) S R Hfl Hcur Hpin) as [S1 R1];
        [right; split; [reflexivity|assumption]|left; repeat split; left; assumption|].
      destruct (evict_extra n b vic cur (reusable b ++ [f_pid cur]) S Hfl Hcur Hpin) as [X1 [X2 [X3 X4]]];
        [right; split; [reflexivity|assumption]|].
      exact (conj S1 (conj R1 (conj X1 (conj X2 (conj eq_refl (conj X3 X4)))))).
    + destruct (evict_inv n b c vic cur (reusable b ++ [f_pid cur]) (disk b) (dsize b) S R Hfl Hcur Hpin) as [S1 R1];
        [right; split; [reflexivity|assumption]|left; repeat split; left; assumption|].
      destruct (evict_extra n b vic cur (reusable b ++ [f_pid cur]) S Hfl Hcur Hpin) as [X1 [X2 [X3 X4]]];
        [right; split; [reflexivity|assumption]|].
      exact (conj S1 (conj R1 (conj X1 (conj X2 (conj eq_refl (conj X3 X4)))))).
    + destruct (evict_inv n b c vic cur (reusable b) (aset (disk b) (f_pid cur) (f_val cur))
                  (if dsize b <=? f_pid cur then f_pid cur + 1 else dsize b) S R Hfl Hcur Hpin) as [S1 R1];
        [left; split; [reflexivity|assumption]|right; repeat split; assumption|].
      destruct (evict_extra n b vic cur (reusable b) S Hfl Hcur Hpin) as [X1 [X2 [X3 X4]]];
        [left; split; [reflexivity|assumption]|].
      exact (conj S1 (conj R1 (conj X1 (conj X2 (conj eq_refl (conj X3 X4)))))).
    + destruct (evict_inv n b c vic cur (reusable b) (disk b) (dsize b) S R Hfl Hcur Hpin) as [S1 R1];
        [left; split; [reflexivity|assumption]|left; repeat split; right; assumption|].
      destruct (evict_extra n b vic cur (reusable b) S Hfl Hcur Hpin) as [X1 [X2 [X3 X4]]];
        [left; split; [reflexivity|assumption]|].
      exact (conj S1 (conj R1 (conj X1 (conj X2 (conj eq_refl (conj X3 X4)))))).
  - inversion H; subst f b1; clear H. unfold TF; proj.
    assert (Hin : In f0 (freel b)) by (rewrite Hfl; left; reflexivity).
    apply (s_free _ _ _ S) in Hin. destruct Hin as [Hlt [Hnone _]].
    pose proof (s_free_nd _ _ _ S) as Hnd. rewrite Hfl in Hnd.
    inversion Hnd as [|x l Hnotin Hnd']; subst x l.
    assert (S1 : SInv n (mkB (frames b) (ptable b) rest (repl b) (reusable b) (disk b) (dsize b)
                             (next_pid b) (locked b)) (Some f0)).
    { constructor; proj; try (apply S).
      - intros g. pose proof (s_free _ _ _ S g) as Hg. rewrite Hfl in Hg. cbn [In] in Hg. split.
        + intros Hi. destruct (proj1 Hg (or_intror Hi)) as [A [B _]].
          repeat split; [assumption|assumption|]. intros E. inversion E; subst g. contradiction.
        + intros [A [B C]].
          destruct (proj2 Hg) as [E|E]; [repeat split; [assumption|assumption|discriminate]| |assumption].
          subst g. exfalso. apply C. reflexivity.
      - assumption. }
    assert (R1 : RInv (mkB (frames b) (ptable b) rest (repl b) (reusable b) (disk b) (dsize b)
                           (next_pid b) (locked b)) c).
    { constructor; proj; apply R. }
    refine (conj S1 (conj R1 (conj Hnone (conj Hlt (conj eq_refl (conj (fun p H => H) _)))))).
    intros p Hp. left. apply (s_reus _ _ _ S). assumption.
Qed.

Lemma take_frame_nopanic : forall n b c vic,
  SInv n b None -> RInv b c -> (npinned c < n)%nat -> take_frame b vic <> inl None.
Proof.
  intros n b c vic S R Hnp. unfold take_frame.
  destruct (freel b) as [|f0 rest] eqn:Hfl; [|discriminate].
  destruct (repl b) as [|r0 rr] eqn:Hrp.
  - exfalso.
    assert (Hle : (length (frames b) <= npinned c)%nat).
    { apply pigeon.
      - intros i fr Hi. pose proof (r_pin _ _ R _ _ Hi) as Hp.
        destruct (N.eq_dec (pins_of c (f_pid fr)) 0) as [E|E]; [|lia].
        exfalso. assert (Hin : In i (repl b)).
        { apply (s_repl _ _ _ S). exists fr. split; [assumption|]. lia. }
        rewrite Hrp in Hin. exact Hin.
      - intros i Hi Hnone. assert (Hin : In i (freel b)).
        { apply (s_free _ _ _ S). rewrite (s_len _ _ _ S) in Hi.
          repeat split; [lia|assumption|discriminate]. }
        rewrite Hfl in Hin. exact Hin.
      - intros i j fr fr'. apply (res_unique _ _ _ _ _ _ _ S). }
    rewrite (s_len _ _ _ S) in Hle. lia.
  - rewrite <- Hrp.
    destruct (memN vic (repl b)) eqn:Hm; cbn [negb]; [|discriminate].
    apply memN_In in Hm. destruct (proj1 (s_repl _ _ _ S vic) Hm) as [cur [Hcur Hpin]].
    rewrite fr_at_fat, Hcur, Hpin. cbn [Z.eqb negb].
    destruct (negb (f_dealloc cur) && f_dirty cur); unfold disk_write; discriminate.
Qed.

(* ------------------------------------------------------------------ *)
(** * Filling the hole with a freshly loaded / allocated page *)

Lemma fill_S : forall n b1 f pid v reus nxt,
  SInv n b1 (Some f) -> fat (frames b1) f = None -> f < N.of_nat n ->
  aget (ptable b1) pid = None -> pid < nxt -> next_pid b1 <= nxt ->
  NoDup reus -> (forall p, In p reus -> In p (reusable b1) /\ p <> pid) ->
  SInv n (mkB (set_fr (frames b1) (N.to_nat f) (Some (mkF pid 1 false false v)))
              (aset (ptable b1) pid f) (freel b1) (repl b1) reus (disk b1) (dsize b1) nxt
              (locked b1)) None.
Proof.
  intros n b1 f pid v reus nxt S Hnone Hf Hpid Hlt Hnx Hnd Hreus.
  assert (Hlen : (N.to_nat f < length (frames b1))%nat) by (rewrite (s_len _ _ _ S); lia).
  assert (Hoth : forall g fr, fat (frames b1) g = Some fr -> f_pid fr <> pid).
  { intros g fr Hg E. assert (A : aget (ptable b1) pid = Some g) by (apply (s_pt _ _ _ S); eauto).
    congruence. }
  constructor; proj.
  - rewrite length_set_fr. apply (s_len _ _ _ S).
  - apply (s_lock _ _ _ S).
  - intros p g. rewrite fat_set by assumption.
    destruct (N.eq_dec p pid) as [Ep|Ep].
    + subst p. rewrite aget_aset_same. destruct (N.eqb_spec g f) as [E|E].
      * subst g. split; [|reflexivity]. intros _. eexists. split; reflexivity.
      * split; [congruence|]. intros [fr [H1 H2]]. exfalso. eapply Hoth; eauto.
    + rewrite aget_aset_other by congruence. destruct (N.eqb_spec g f) as [E|E].
      * subst g. split.
        -- intros H. apply (s_pt _ _ _ S) in H. destruct H as [fr [H1 _]]. congruence.
        -- intros [fr [H1 H2]]. inversion H1; subst fr. cbn [f_pid] in H2. congruence.
      * apply (s_pt _ _ _ S).
  - intros g. rewrite fat_set by assumption. rewrite (s_free _ _ _ S).
    destruct (N.eqb_spec g f) as [E|E].
    + subst g. split.
      * intros [_ [_ H]]. exfalso. apply H. reflexivity.
      * intros [_ [H _]]. discriminate.
    + split; intros [A [B _]]; repeat split; try assumption; try discriminate. congruence.
  - apply (s_free_nd _ _ _ S).
  - intros g. rewrite fat_set by assumption. rewrite (s_repl _ _ _ S).
    destruct (N.eqb_spec g f) as [E|E]; [|tauto].
    subst g. split.
    + intros [fr [H1 _]]. congruence.
    + intros [fr [H1 H2]]. inversion H1; subst fr. cbn [f_pin] in H2. discriminate.
  - apply (s_repl_nd _ _ _ S).
  - intros p Hp. destruct (Hreus p Hp) as [A B]. rewrite aget_aset_other by congruence.
    apply (s_reus _ _ _ S). assumption.
  - assumption.
  - pose proof (s_dsize _ _ _ S). lia.
  - intros g fr. rewrite fat_set by assumption. destruct (N.eqb_spec g f) as [E|E].
    + intros H. inversion H; subst fr. cbn [f_pid]. assumption.
    + intros H. apply (s_next_res _ _ _ S) in H. lia.
  - intros p Hp. destruct (Hreus p Hp) as [A B]. apply (s_next_reus _ _ _ S) in A. lia.
Qed.

Lemma fill_R_new : forall n b1 c f pid reus nxt,
  SInv n b1 (Some f) -> RInv b1 c -> fat (frames b1) f = None -> f < N.of_nat n ->
  aget (ptable b1) pid = None -> next_pid b1 <= nxt ->
  (forall p, In p reus -> In p (reusable b1) /\ p <> pid) ->
  RInv (mkB (set_fr (frames b1) (N.to_nat f) (Some (mkF pid 1 false false 0)))
            (aset (ptable b1) pid f) (freel b1) (repl b1) reus (disk b1) (dsize b1) nxt
            (locked b1))
       (mkC (aset (c_pins c) pid 1) (remove1 pid (c_wrote c)) (adel (c_spec c) pid)
            (remove1 pid (c_dead c))).
Proof.
  intros n b1 c f pid reus nxt S R Hnone Hf Hpid Hnx Hreus.
  assert (Hlen : (N.to_nat f < length (frames b1))%nat) by (rewrite (s_len _ _ _ S); lia).
  assert (Hoth : forall g fr, fat (frames b1) g = Some fr -> f_pid fr <> pid).
  { intros g fr Hg E. assert (A : aget (ptable b1) pid = Some g) by (apply (s_pt _ _ _ S); eauto).
    congruence. }
  assert (Hp0 : pins_of c pid = 0) by (eapply pins_nonres; eassumption).
  constructor; proj.
  - intros g fr. rewrite fat_set by assumption. destruct (N.eqb_spec g f) as [E|E].
    + intros H. inversion H; subst fr. cbn [f_pin f_pid]. rewrite pins_of_aset_same. reflexivity.
    + intros H. rewrite pins_of_aset_other by (apply not_eq_sym; eapply Hoth; eassumption).
      apply (r_pin _ _ R _ _ H).
  - intros p Hp. destruct (N.eq_dec p pid) as [Ep|Ep].
    + subst p. rewrite aget_aset_same. eauto.
    + rewrite pins_of_aset_other in Hp by congruence. rewrite aget_aset_other by congruence.
      apply (r_pinres _ _ R). assumption.
  - intros p v g fr Hs. destruct (N.eq_dec p pid) as [Ep|Ep];
      [subst p; rewrite aget_adel_same in Hs; discriminate|].
    rewrite aget_adel_other in Hs by congruence.
    rewrite fat_set by assumption. destruct (N.eqb_spec g f) as [E|E].
    + intros H1 H2. inversion H1; subst fr. cbn [f_pid] in H2. congruence.
    + apply (r_val _ _ R). assumption.
  - intros p v g fr Hs. destruct (N.eq_dec p pid) as [Ep|Ep];
      [subst p; rewrite aget_adel_same in Hs; discriminate|].
    rewrite aget_adel_other in Hs by congruence.
    rewrite fat_set by assumption. destruct (N.eqb_spec g f) as [E|E].
    + intros H1 H2. inversion H1; subst fr. cbn [f_pid] in H2. congruence.
    + intros H1 H2 H3 H4. eapply (r_clean _ _ R); try eassumption.
      intros Hw. apply H4. apply In_remove1_neq; assumption.
  - intros p v Hs. destruct (N.eq_dec p pid) as [Ep|Ep];
      [subst p; rewrite aget_adel_same in Hs; discriminate|].
    rewrite aget_adel_other in Hs by congruence. rewrite aget_aset_other by congruence.
    apply (r_disk _ _ R). assumption.
  - intros p Hp. apply In_remove1 in Hp. apply (r_wrote _ _ R) in Hp.
    destruct (N.eq_dec p pid) as [Ep|Ep]; [subst p; lia|].
    rewrite pins_of_aset_other by congruence. assumption.
  - apply NoDup_remove1. apply (r_wrote_nd _ _ R).
  - intros p Hp. destruct (Hreus p Hp) as [A B]. rewrite aget_adel_other by congruence.
    apply (r_reus_spec _ _ R). assumption.
  - intros p Hp. destruct (Hreus p Hp) as [A B]. apply In_remove1_neq; [assumption|].
    apply (r_reus_dead _ _ R). assumption.
  - intros g fr. rewrite fat_set by assumption. destruct (N.eqb_spec g f) as [E|E].
    + intros H1 H2. inversion H1; subst fr. cbn [f_dealloc] in H2. discriminate.
    + intros H1 H2. apply In_remove1_neq; [eapply Hoth; eassumption|].
      apply (r_dflag _ _ R _ _ H1 H2).
  - intros p Hp Hz. destruct (N.eq_dec p pid) as [Ep|Ep]; [subst p; apply aget_adel_same|].
    rewrite aget_adel_other by congruence. rewrite pins_of_aset_other in Hz by congruence.
    apply (r_dead _ _ R); [|assumption]. eapply In_remove1. eassumption.
  - intros p v Hs. destruct (N.eq_dec p pid) as [Ep|Ep];
      [subst p; rewrite aget_adel_same in Hs; discriminate|].
    rewrite aget_adel_other in Hs by congruence. apply (r_next_spec _ _ R) in Hs. lia.
Qed.

Lemma fill_R_fetch : forall n b1 c f p v,
  SInv n b1 (Some f) -> RInv b1 c -> fat (frames b1) f = None -> f < N.of_nat n ->
  aget (ptable b1) p = None -> dread (disk b1) (dsize b1) p = Some v ->
  RInv (mkB (set_fr (frames b1) (N.to_nat f) (Some (mkF p 1 false false v)))
            (aset (ptable b1) p f) (freel b1) (repl b1) (reusable b1) (disk b1) (dsize b1)
            (next_pid b1) (locked b1))
       (mkC (aset (c_pins c) p (pins_of c p + 1)) (c_wrote c) (c_spec c) (c_dead c)).
Proof.
  intros n b1 c f p v S R Hnone Hf Hpid Hrd.
  assert (Hlen : (N.to_nat f < length (frames b1))%nat) by (rewrite (s_len _ _ _ S); lia).
  assert (Hoth : forall g fr, fat (frames b1) g = Some fr -> f_pid fr <> p).
  { intros g fr Hg E. assert (A : aget (ptable b1) p = Some g) by (apply (s_pt _ _ _ S); eauto).
    congruence. }
  assert (Hp0 : pins_of c p = 0) by (eapply pins_nonres; eassumption).
  constructor; proj.
  - intros g fr. rewrite fat_set by assumption. destruct (N.eqb_spec g f) as [E|E].
    + intros H. inversion H; subst fr. cbn [f_pin f_pid]. rewrite pins_of_aset_same. lia.
    + intros H. rewrite pins_of_aset_other by (apply not_eq_sym; eapply Hoth; eassumption).
      apply (r_pin _ _ R _ _ H).
  - intros q Hq. destruct (N.eq_dec q p) as [Ep|Ep].
    + subst q. rewrite aget_aset_same. eauto.
    + rewrite pins_of_aset_other in Hq by congruence. rewrite aget_aset_other by congruence.
      apply (r_pinres _ _ R). assumption.
  - intros q w g fr Hs. rewrite fat_set by assumption. destruct (N.eqb_spec g f) as [E|E].
    + intros H1 H2. inversion H1; subst fr. cbn [f_pid f_val] in *. subst q.
      pose proof (r_disk _ _ R _ _ Hs Hpid) as Hd. congruence.
    + apply (r_val _ _ R). assumption.
  - intros q w g fr Hs. rewrite fat_set by assumption. destruct (N.eqb_spec g f) as [E|E].
    + intros H1 H2 _ _. inversion H1; subst fr. cbn [f_pid] in H2. subst q.
      apply (r_disk _ _ R _ _ Hs Hpid).
    + apply (r_clean _ _ R). assumption.
  - intros q w Hs. destruct (N.eq_dec q p) as [Ep|Ep].
    + subst q. rewrite aget_aset_same. discriminate.
    + rewrite aget_aset_other by congruence. apply (r_disk _ _ R). assumption.
  - intros q Hq. destruct (N.eq_dec q p) as [Ep|Ep].
    + subst q. rewrite pins_of_aset_same. lia.
    + rewrite pins_of_aset_other by congruence. apply (r_wrote _ _ R). assumption.
  - apply (r_wrote_nd _ _ R).
  - apply (r_reus_spec _ _ R).
  - apply (r_reus_dead _ _ R).
  - intros g fr. rewrite fat_set by assumption. destruct (N.eqb_spec g f) as [E|E].
    + intros H1 H2. inversion H1; subst fr. cbn [f_dealloc] in H2. discriminate.
    + apply (r_dflag _ _ R).
  - intros q Hq Hz. destruct (N.eq_dec q p) as [Ep|Ep].
    + subst q. rewrite pins_of_aset_same in Hz. lia.
    + rewrite pins_of_aset_other in Hz by congruence. apply (r_dead _ _ R); assumption.
  - apply (r_next_spec _ _ R).
Qed.

Lemma pt_none_ge : forall n b h p, SInv n b h -> next_pid b <= p -> aget (ptable b) p = None.
Proof.
  intros n b h p S Hp. destruct (aget (ptable b) p) as [g|] eqn:E; [|reflexivity].
  apply (s_pt _ _ _ S) in E. destruct E as [fr [H1 H2]].
  apply (s_next_res _ _ _ S) in H1. lia.
Qed.

Lemma unfill_S : forall n b1 f,
  SInv n b1 (Some f) -> fat (frames b1) f = None -> f < N.of_nat n ->
  SInv n (mkB (frames b1) (ptable b1) (freel b1 ++ [f]) (repl b1) (reusable b1) (disk b1)
              (dsize b1) (next_pid b1) (locked b1)) None.
Proof.
  intros n b1 f S Hnone Hf.
  assert (Hnin : ~ In f (freel b1)).
  { intros H. apply (s_free _ _ _ S) in H. destruct H as [_ [_ H]]. apply H. reflexivity. }
  constructor; proj; try (apply S).
  - intros g. destruct (N.eq_dec g f) as [E|E].
    + subst g. split.
      * intros _. repeat split; [assumption|assumption|discriminate].
      * intros _. apply In_snoc_same.
    + rewrite In_snoc_neq by assumption. rewrite (s_free _ _ _ S). split.
      * intros [A [B _]]. repeat split; [assumption|assumption|discriminate].
      * intros [A [B _]]. repeat split; [assumption|assumption|congruence].
  - apply NoDup_snoc; [apply (s_free_nd _ _ _ S)|assumption].
Qed.

(* ------------------------------------------------------------------ *)
(** * NewPage *)

Definition c_new (c : client) (p : N) : client :=
  mkC (aset (c_pins c) p 1) (remove1 p (c_wrote c)) (adel (c_spec c) p) (remove1 p (c_dead c)).

Lemma new_ok : forall n b c vic b' out,
  PInv n b c -> (npinned c < n)%nat -> b_new b vic = (b', out) -> out <> BOBad ->
  exists p, out = BONew p /\ PInv n b' (c_new c p) /\
            pins_of c p = 0 /\ aget (c_spec c) p = None /\
            (aget (ptable b) p = None \/ evicted_flagged b vic p).
Proof.
  intros n b c vic b' out [S R] Hnp H Hbad. unfold b_new in H.
  destruct (take_frame b vic) as [[[f b1]|]|[]] eqn:Htf.
  - destruct (take_frame_ok _ _ _ _ _ _ S R Htf) as [S1 [R1 [Hnone [Hf [Hnx [Hpt Hru]]]]]].
    destruct (reusable b1) as [|p0 rest] eqn:Hreus.
    + inversion H; subst b' out; clear H. exists (next_pid b1).
      assert (Hpn : aget (ptable b1) (next_pid b1) = None) by (eapply pt_none_ge; [eassumption|lia]).
      split; [reflexivity|]. split; [split|].
      * apply fill_S; try assumption; try lia; [constructor|contradiction].
      * eapply fill_R_new; try eassumption; try lia. contradiction.
      * split; [eapply pins_nonres; eassumption|]. split.
        -- destruct (aget (c_spec c) (next_pid b1)) as [v|] eqn:E; [|reflexivity].
           apply (r_next_spec _ _ R1) in E. lia.
        -- left. rewrite Hnx. eapply pt_none_ge; [eassumption|lia].
    + inversion H; subst b' out; clear H. exists p0.
      assert (Hin : In p0 (reusable b1)) by (rewrite Hreus; left; reflexivity).
      assert (Hpn : aget (ptable b1) p0 = None) by (apply (s_reus _ _ _ S1); assumption).
      pose proof (s_reus_nd _ _ _ S1) as Hnd. rewrite Hreus in Hnd.
      inversion Hnd as [|x l Hnotin Hnd']; subst x l.
      assert (Hrest : forall p, In p rest -> In p (reusable b1) /\ p <> p0).
      { intros p Hp. rewrite Hreus. split; [right; assumption|]. intros E. subst p. contradiction. }
      split; [reflexivity|]. split; [split|].
      * apply fill_S; try assumption; try lia.
        apply (s_next_reus _ _ _ S1). assumption.
      * eapply fill_R_new; try eassumption; try lia.
      * split; [eapply pins_nonres; eassumption|]. split.
        -- apply (r_reus_spec _ _ R1). assumption.
        -- apply Hru; first [assumption | left; reflexivity].
  - exfalso. eapply take_frame_nopanic; eassumption.
  - inversion H; subst out. exfalso. apply Hbad. reflexivity.
Qed.

(* ------------------------------------------------------------------ *)
(** * Generic preservation for operations that update one resident frame *)

Lemma RInv_upd : forall n b h c c' f fr fr' rp dk ds,
  SInv n b h -> RInv b c -> fat (frames b) f = Some fr -> f_pid fr' = f_pid fr ->
  f_pin fr' = Z.of_N (pins_of c' (f_pid fr)) ->
  (forall q, q <> f_pid fr -> pins_of c' q = pins_of c q) ->
  (forall q, q <> f_pid fr -> aget (c_spec c') q = aget (c_spec c) q) ->
  (forall v, aget (c_spec c') (f_pid fr) = Some v -> f_val fr' = v) ->
  (forall v, aget (c_spec c') (f_pid fr) = Some v -> f_dirty fr' = false ->
             ~ In (f_pid fr) (c_wrote c') -> dread dk ds (f_pid fr) = Some v) ->
  (forall q w, q <> f_pid fr -> dread (disk b) (dsize b) q = Some w -> dread dk ds q = Some w) ->
  (forall q, In q (c_wrote c') -> 0 < pins_of c' q) -> NoDup (c_wrote c') ->
  (forall q, q <> f_pid fr -> In q (c_wrote c) -> In q (c_wrote c')) ->
  (forall q, In q (c_dead c) -> In q (c_dead c')) ->
  (forall q, q <> f_pid fr -> In q (c_dead c') -> In q (c_dead c)) ->
  (f_dealloc fr' = true -> In (f_pid fr) (c_dead c')) ->
  (In (f_pid fr) (c_dead c') -> pins_of c' (f_pid fr) = 0 -> aget (c_spec c') (f_pid fr) = None) ->
  RInv (mkB (set_fr (frames b) (N.to_nat f) (Some fr')) (ptable b) (freel b) rp (reusable b)
            dk ds (next_pid b) (locked b)) c'.
Proof.
  intros n b h c c' f fr fr' rp dk ds S R Hf Hpid Hpin Hpins Hspec Hval Hclean Hmono
         Hwr Hwnd Hwsup Hdsup Hdsub Hdfl Hdd.
  pose proof (fat_lt _ _ _ Hf) as Hlt.
  set (p := f_pid fr) in *.
  assert (Hp : aget (ptable b) p = Some f) by (apply (s_pt _ _ _ S); eauto).
  assert (Hoth : forall g fr0, g <> f -> fat (frames b) g = Some fr0 -> f_pid fr0 <> p).
  { intros g fr0 Hg H0 E. apply Hg. eapply res_unique; eauto. }
  constructor; proj.
  - intros g fr0. rewrite fat_set by assumption. destruct (N.eqb_spec g f) as [E|E].
    + intros H. inversion H; subst fr0. rewrite Hpid. assumption.
    + intros H. rewrite Hpins by (eapply Hoth; eassumption). apply (r_pin _ _ R _ _ H).
  - intros q Hq. destruct (N.eq_dec q p) as [E|E]; [subst q; eauto|].
    rewrite Hpins in Hq by assumption. apply (r_pinres _ _ R). assumption.
  - intros q v g fr0 Hs. rewrite fat_set by assumption. destruct (N.eqb_spec g f) as [E|E].
    + intros H1 H2. inversion H1; subst fr0. rewrite Hpid in H2. subst q. apply Hval. assumption.
    + intros H1 H2. assert (Hq : q <> p) by (subst q; eapply Hoth; eassumption).
      rewrite Hspec in Hs by assumption. eapply (r_val _ _ R); eassumption.
  - intros q v g fr0 Hs. rewrite fat_set by assumption. destruct (N.eqb_spec g f) as [E|E].
    + intros H1 H2 H3 H4. inversion H1; subst fr0. rewrite Hpid in H2. subst q.
      apply Hclean; assumption.
    + intros H1 H2 H3 H4. assert (Hq : q <> p) by (subst q; eapply Hoth; eassumption).
      rewrite Hspec in Hs by assumption. apply Hmono; [assumption|].
      eapply (r_clean _ _ R); try eassumption.
      intros Hw. apply H4. apply Hwsup; assumption.
  - intros q v Hs Hq. assert (Hqp : q <> p) by congruence.
    rewrite Hspec in Hs by assumption. apply Hmono; [assumption|].
    apply (r_disk _ _ R); assumption.
  - assumption.
  - assumption.
  - intros q Hq. assert (Hqp : q <> p).
    { apply (s_reus _ _ _ S) in Hq. congruence. }
    rewrite Hspec by assumption. apply (r_reus_spec _ _ R). assumption.
  - intros q Hq. apply Hdsup. apply (r_reus_dead _ _ R). assumption.
  - intros g fr0. rewrite fat_set by assumption. destruct (N.eqb_spec g f) as [E|E].
    + intros H1 H2. inversion H1; subst fr0. rewrite Hpid. apply Hdfl. assumption.
    + intros H1 H2. apply Hdsup. apply (r_dflag _ _ R _ _ H1 H2).
  - intros q Hq Hz. destruct (N.eq_dec q p) as [E|E]; [subst q; apply Hdd; assumption|].
    rewrite Hspec by assumption. rewrite Hpins in Hz by assumption.
    apply (r_dead _ _ R); [|assumption]. apply Hdsub; assumption.
  - intros q v Hs. destruct (N.eq_dec q p) as [E|E].
    + subst q. eapply (s_next_res _ _ _ S). eassumption.
    + rewrite Hspec in Hs by assumption. eapply (r_next_spec _ _ R). eassumption.
Qed.

Ltac fproj := cbn [f_pid f_pin f_dirty f_dealloc f_val].

(* ------------------------------------------------------------------ *)
(** * FetchPage, page resident *)

Definition c_fetch (c : client) (p : N) : client :=
  mkC (aset (c_pins c) p (pins_of c p + 1)) (c_wrote c) (c_spec c) (c_dead c).

Lemma fetch_hit_inv : forall n b c f fr,
  PInv n b c -> fat (frames b) f = Some fr ->
  PInv n (mkB (set_fr (frames b) (N.to_nat f)
                 (Some (mkF (f_pid fr) (f_pin fr + 1) (f_dirty fr) (f_dealloc fr) (f_val fr))))
              (ptable b) (freel b) (remove1 f (repl b)) (reusable b) (disk b) (dsize b)
              (next_pid b) (locked b)) (c_fetch c (f_pid fr)).
Proof.
  intros n b c f fr [S R] Hf.
  pose proof (r_pin _ _ R _ _ Hf) as Hpin.
  split.
  - eapply SInv_upd; try eassumption; fproj.
    + reflexivity.
    + apply NoDup_remove1. apply (s_repl_nd _ _ _ S).
    + intros g. destruct (N.eqb_spec g f) as [E|E].
      * subst g. split; [|lia]. intros H. exfalso. revert H.
        apply remove1_NoDup_notin. apply (s_repl_nd _ _ _ S).
      * split; [apply In_remove1|apply In_remove1_neq; assumption].
    + apply (s_dsize _ _ _ S).
  - unfold c_fetch. eapply RInv_upd; try eassumption; fproj; proj.
    + reflexivity.
    + rewrite pins_of_aset_same. lia.
    + intros q Hq. apply pins_of_aset_other. congruence.
    + reflexivity.
    + intros v Hs. eapply (r_val _ _ R); eauto.
    + intros v Hs Hd Hw. eapply (r_clean _ _ R); eauto.
    + auto.
    + intros q Hq. destruct (N.eq_dec q (f_pid fr)) as [E|E].
      * subst q. rewrite pins_of_aset_same. lia.
      * rewrite pins_of_aset_other by congruence. apply (r_wrote _ _ R). assumption.
    + apply (r_wrote_nd _ _ R).
    + auto.
    + auto.
    + auto.
    + intros Hd. apply (r_dflag _ _ R _ _ Hf Hd).
    + intros _ Hz. rewrite pins_of_aset_same in Hz. lia.
Qed.

Lemma dread_lt : forall dk ds p v, dread dk ds p = Some v -> p < ds.
Proof.
  intros dk ds p v H. unfold dread in H. destruct (N.ltb_spec p ds); [assumption|discriminate].
Qed.

Lemma fetch_ok : forall n b c p vic b' out,
  PInv n b c -> b_fetch b p vic = (b', out) -> out <> BOBad ->
  memN p (c_dead c) && (pins_of c p =? 0) = false ->
  (pins_of c p =? 0) && negb (Nat.ltb (npinned c) n) = false ->
  (out = BONil \/ exists v, out = BOFetched v) /\
  (forall v, aget (c_spec c) p = Some v -> out = BOFetched v) /\
  PInv n b' (match out with BOFetched _ => c_fetch c p | _ => c end).
Proof.
  intros n b c p vic b' out [S R] H Hbad Hc1 Hc2. unfold b_fetch in H.
  destruct (aget (ptable b) p) as [f|] eqn:Hp.
  - destruct (proj1 (s_pt _ _ _ S p f) Hp) as [fr [Hf Hpid]].
    rewrite fr_at_fat, Hf in H. inversion H; subst b' out; clear H. subst p.
    split; [right; eauto|]. split.
    + intros v Hs. f_equal. eapply (r_val _ _ R); eauto.
    + apply fetch_hit_inv; [split; assumption|assumption].
  - assert (Hp0 : pins_of c p = 0) by (eapply pins_nonres; eassumption).
    rewrite Hp0 in Hc1, Hc2. cbn [N.eqb] in Hc1, Hc2.
    rewrite andb_true_r in Hc1. cbn [andb] in Hc2.
    apply memN_false in Hc1.
    assert (Hnp : (npinned c < n)%nat).
    { destruct (Nat.ltb_spec (npinned c) n); [assumption|discriminate]. }
    destruct (take_frame b vic) as [[[f b1]|]|[]] eqn:Htf.
    + destruct (take_frame_ok _ _ _ _ _ _ S R Htf) as [S1 [R1 [Hnone [Hf [Hnx [Hpt Hru]]]]]].
      pose proof (Hpt _ Hp) as Hp1.
      change (disk_read b1 p) with (dread (disk b1) (dsize b1) p) in H.
      destruct (dread (disk b1) (dsize b1) p) as [v|] eqn:Hrd.
      * inversion H; subst b' out; clear H. split; [right; eauto|]. split.
        -- intros w Hs. pose proof (r_disk _ _ R1 _ _ Hs Hp1). congruence.
        -- split.
           ++ apply fill_S; try assumption; try lia.
              ** apply dread_lt in Hrd. pose proof (s_dsize _ _ _ S1). lia.
              ** apply (s_reus_nd _ _ _ S1).
              ** intros q Hq. split; [assumption|]. intros E. subst q.
                 apply Hc1. apply (r_reus_dead _ _ R1). assumption.
           ++ eapply fill_R_fetch; eassumption.
      * inversion H; subst b' out; clear H. split; [left; reflexivity|]. split.
        -- intros w Hs. pose proof (r_disk _ _ R1 _ _ Hs Hp1). congruence.
        -- split; [apply unfill_S; assumption|]. constructor; proj; apply R1.
    + exfalso. eapply take_frame_nopanic; eassumption.
    + inversion H; subst out. exfalso. apply Hbad. reflexivity.
Qed.

(* ------------------------------------------------------------------ *)
(** * Write by a pin holder *)

Lemma In_addN : forall p q l, In q (if memN p l then l else p :: l) <-> q = p \/ In q l.
Proof.
  intros p q l. destruct (memN p l) eqn:E.
  - apply memN_In in E. split; [auto|]. intros [H|H]; [subst q|]; assumption.
  - cbn [In]. split; intros [H|H]; auto.
Qed.

Lemma NoDup_addN : forall p l, NoDup l -> NoDup (if memN p l then l else p :: l).
Proof.
  intros p l H. destruct (memN p l) eqn:E; [assumption|].
  constructor; [apply memN_false; assumption|assumption].
Qed.

Lemma write_inv : forall n b c f fr v,
  PInv n b c -> fat (frames b) f = Some fr -> pins_of c (f_pid fr) <> 0 ->
  PInv n (upd_frame b f (mkF (f_pid fr) (f_pin fr) (f_dirty fr) (f_dealloc fr) v) (repl b))
         (mkC (c_pins c) (if memN (f_pid fr) (c_wrote c) then c_wrote c else f_pid fr :: c_wrote c)
              (aset (c_spec c) (f_pid fr) v) (c_dead c)).
Proof.
  intros n b c f fr v [S R] Hf Hnz. unfold upd_frame.
  split.
  - eapply SInv_upd; try eassumption; fproj.
    + reflexivity.
    + apply (s_repl_nd _ _ _ S).
    + eapply repl_same; try eassumption. reflexivity.
    + apply (s_dsize _ _ _ S).
  - eapply RInv_upd; try eassumption; fproj; proj.
    + reflexivity.
    + exact (r_pin _ _ R _ _ Hf).
    + reflexivity.
    + intros q Hq. apply aget_aset_other. congruence.
    + intros w Hs. rewrite aget_aset_same in Hs. congruence.
    + intros w _ _ Hw. exfalso. apply Hw. apply In_addN. left. reflexivity.
    + auto.
    + intros q Hq. apply In_addN in Hq. destruct Hq as [Hq|Hq].
      * subst q. change (0 < pins_of c (f_pid fr)). lia.
      * exact (r_wrote _ _ R _ Hq).
    + apply NoDup_addN. apply (r_wrote_nd _ _ R).
    + intros q _ Hq. apply In_addN. right. assumption.
    + auto.
    + auto.
    + intros Hd. apply (r_dflag _ _ R _ _ Hf Hd).
    + intros _ Hz. exfalso. apply Hnz. exact Hz.
Qed.

(* ------------------------------------------------------------------ *)
(** * UnpinPage *)

Lemma unpin_inv : forall n b c f fr d,
  PInv n b c -> fat (frames b) f = Some fr -> pins_of c (f_pid fr) <> 0 ->
  memN (f_pid fr) (c_wrote c) && negb d = false ->
  PInv n (upd_frame b f (mkF (f_pid fr) (f_pin fr - 1) (f_dirty fr || d) (f_dealloc fr) (f_val fr))
            (if (f_pin fr - 1 <=? 0)%Z then (if memN f (repl b) then repl b else repl b ++ [f])
             else repl b))
         (mkC (aset (c_pins c) (f_pid fr) (pins_of c (f_pid fr) - 1))
              (remove1 (f_pid fr) (c_wrote c))
              (if (pins_of c (f_pid fr) - 1 =? 0) && memN (f_pid fr) (c_dead c)
               then adel (c_spec c) (f_pid fr) else c_spec c)
              (c_dead c)).
Proof.
  intros n b c f fr d [S R] Hf Hnz Hcw. unfold upd_frame.
  pose proof (r_pin _ _ R _ _ Hf) as Hpin.
  set (p := f_pid fr) in *.
  assert (Hspec_p : forall v,
    aget (if (pins_of c p - 1 =? 0) && memN p (c_dead c) then adel (c_spec c) p else c_spec c) p = Some v ->
    aget (c_spec c) p = Some v).
  { intros v H. destruct ((pins_of c p - 1 =? 0) && memN p (c_dead c)); [|assumption].
    rewrite aget_adel_same in H. discriminate. }
  split.
  - eapply SInv_upd; try eassumption; fproj.
    + reflexivity.
    + destruct (Z.leb_spec (f_pin fr - 1) 0) as [L|L]; [|apply (s_repl_nd _ _ _ S)].
      destruct (memN f (repl b)) eqn:Hm; [apply (s_repl_nd _ _ _ S)|].
      apply NoDup_snoc; [apply (s_repl_nd _ _ _ S)|apply memN_false; assumption].
    + intros g. destruct (Z.leb_spec (f_pin fr - 1) 0) as [L|L].
      * destruct (memN f (repl b)) eqn:Hm.
        -- destruct (N.eqb_spec g f) as [E|E]; [|tauto]. subst g.
           apply memN_In in Hm. split; [lia|auto].
        -- destruct (N.eqb_spec g f) as [E|E].
           ++ subst g. split; [lia|]. intros _. apply In_snoc_same.
           ++ apply In_snoc_neq. assumption.
      * destruct (N.eqb_spec g f) as [E|E]; [|tauto]. subst g. split; [|lia].
        intros H. apply (s_repl _ _ _ S) in H. destruct H as [fr0 [H1 H2]].
        rewrite Hf in H1. inversion H1; subst fr0. lia.
    + apply (s_dsize _ _ _ S).
  - eapply RInv_upd; try eassumption; fproj; proj; fold p.
    + reflexivity.
    + rewrite pins_of_aset_same. lia.
    + intros q Hq. apply pins_of_aset_other. congruence.
    + intros q Hq. destruct ((pins_of c p - 1 =? 0) && memN p (c_dead c)); [|reflexivity].
      apply aget_adel_other. congruence.
    + intros v Hs. apply Hspec_p in Hs. eapply (r_val _ _ R); eauto.
    + intros v Hs Hd Hw. apply Hspec_p in Hs.
      apply orb_false_iff in Hd. destruct Hd as [Hd1 Hd2]. subst d.
      cbn [negb] in Hcw. rewrite andb_true_r in Hcw. apply memN_false in Hcw.
      eapply (r_clean _ _ R); eauto.
    + auto.
    + intros q Hq. assert (Hqp : q <> p).
      { intros E. subst q. revert Hq. apply remove1_NoDup_notin. apply (r_wrote_nd _ _ R). }
      rewrite pins_of_aset_other by congruence. apply (r_wrote _ _ R).
      eapply In_remove1. eassumption.
    + apply NoDup_remove1. apply (r_wrote_nd _ _ R).
    + intros q Hq Hw. apply In_remove1_neq; assumption.
    + auto.
    + auto.
    + intros Hd. apply (r_dflag _ _ R _ _ Hf Hd).
    + intros Hd Hz. rewrite pins_of_aset_same in Hz. rewrite Hz. cbn [N.eqb].
      apply memN_In in Hd. rewrite Hd. cbn [andb]. apply aget_adel_same.
Qed.

(* ------------------------------------------------------------------ *)
(** * FlushPage / FlushAllPages *)

Lemma flush_inv : forall n b c p, PInv n b c -> PInv n (fst (b_flush b p)) c.
Proof.
  intros n b c p [S R]. unfold b_flush.
  destruct (aget (ptable b) p) as [f|] eqn:Hp; [|split; assumption].
  destruct (proj1 (s_pt _ _ _ S p f) Hp) as [fr [Hf Hpid]].
  rewrite fr_at_fat, Hf. unfold disk_write. cbn [fst]. subst p.
  split.
  - eapply SInv_upd; try eassumption; fproj.
    + reflexivity.
    + apply (s_repl_nd _ _ _ S).
    + eapply repl_same; try eassumption. reflexivity.
    + pose proof (s_dsize _ _ _ S). pose proof (s_next_res _ _ _ S _ _ Hf).
      destruct (N.leb_spec (dsize b) (f_pid fr)); lia.
  - eapply RInv_upd; try eassumption; fproj; proj.
    + reflexivity.
    + exact (r_pin _ _ R _ _ Hf).
    + reflexivity.
    + reflexivity.
    + intros v Hs. eapply (r_val _ _ R); eauto.
    + intros v Hs _ _. assert (Hv : f_val fr = v) by (eapply (r_val _ _ R); eauto).
      rewrite Hv. apply dread_write_same.
    + intros q w Hq H. apply dread_write_other; assumption.
    + apply (r_wrote _ _ R).
    + apply (r_wrote_nd _ _ R).
    + auto.
    + auto.
    + auto.
    + intros Hd. apply (r_dflag _ _ R _ _ Hf Hd).
    + apply (r_dead _ _ R).
Qed.

Lemma flush_fold_inv : forall n c l b, PInv n b c ->
  PInv n (fold_left (fun b p => fst (b_flush b p)) l b) c.
Proof.
  intros n c l; induction l as [|p l IH]; intros b H; cbn [fold_left].
  - assumption.
  - apply IH. apply flush_inv. assumption.
Qed.

(* ------------------------------------------------------------------ *)
(** * Deallocation *)

Lemma adel_Some : forall {A} (m : list (N * A)) p q v,
  aget (adel m p) q = Some v -> q <> p /\ aget m q = Some v.
Proof.
  intros A m p q v H. destruct (N.eq_dec q p) as [E|E].
  - subst q. rewrite aget_adel_same in H. discriminate.
  - rewrite aget_adel_other in H by congruence. split; assumption.
Qed.

Lemma adel_None : forall {A} (m : list (N * A)) p q,
  aget m q = None -> aget (adel m p) q = None.
Proof.
  intros A m p q H. destruct (N.eq_dec q p) as [E|E].
  - subst q. apply aget_adel_same.
  - rewrite aget_adel_other by congruence. assumption.
Qed.

Lemma flag_inv : forall n b c f fr,
  PInv n b c -> fat (frames b) f = Some fr -> pins_of c (f_pid fr) <> 0 ->
  PInv n (upd_frame b f (mkF (f_pid fr) (f_pin fr) (f_dirty fr) true (f_val fr)) (repl b))
         (mkC (c_pins c) (c_wrote c) (c_spec c)
              (if memN (f_pid fr) (c_dead c) then c_dead c else f_pid fr :: c_dead c)).
Proof.
  intros n b c f fr [S R] Hf Hnz. unfold upd_frame.
  split.
  - eapply SInv_upd; try eassumption; fproj.
    + reflexivity.
    + apply (s_repl_nd _ _ _ S).
    + eapply repl_same; try eassumption. reflexivity.
    + apply (s_dsize _ _ _ S).
  - eapply RInv_upd; try eassumption; fproj; proj.
    + reflexivity.
    + exact (r_pin _ _ R _ _ Hf).
    + reflexivity.
    + reflexivity.
    + intros w Hs. eapply (r_val _ _ R); eauto.
    + intros w Hs Hd Hw. eapply (r_clean _ _ R); eauto.
    + auto.
    + exact (r_wrote _ _ R).
    + apply (r_wrote_nd _ _ R).
    + auto.
    + intros q Hq. apply In_addN. right. assumption.
    + intros q Hq H. apply In_addN in H. destruct H as [H|H]; [contradiction|assumption].
    + intros _. apply In_addN. left. reflexivity.
    + intros _ Hz. exfalso. apply Hnz. exact Hz.
Qed.

Lemma dealloc_nonres_inv : forall n b c p,
  PInv n b c -> aget (ptable b) p = None ->
  PInv n b (mkC (c_pins c) (c_wrote c) (adel (c_spec c) p)
                (if memN p (c_dead c) then c_dead c else p :: c_dead c)).
Proof.
  intros n b c p [S R] Hp. split; [assumption|].
  constructor; proj.
  - exact (r_pin _ _ R).
  - exact (r_pinres _ _ R).
  - intros q v g fr Hs. apply adel_Some in Hs. destruct Hs as [_ Hs]. apply (r_val _ _ R). assumption.
  - intros q v g fr Hs. apply adel_Some in Hs. destruct Hs as [_ Hs]. apply (r_clean _ _ R). assumption.
  - intros q v Hs. apply adel_Some in Hs. destruct Hs as [_ Hs]. apply (r_disk _ _ R). assumption.
  - exact (r_wrote _ _ R).
  - exact (r_wrote_nd _ _ R).
  - intros q Hq. apply adel_None. apply (r_reus_spec _ _ R). assumption.
  - intros q Hq. apply In_addN. right. apply (r_reus_dead _ _ R). assumption.
  - intros g fr H1 H2. apply In_addN. right. apply (r_dflag _ _ R _ _ H1 H2).
  - intros q Hq Hz. apply In_addN in Hq. destruct Hq as [Hq|Hq].
    + subst q. apply aget_adel_same.
    + apply adel_None. apply (r_dead _ _ R); assumption.
  - intros q v Hs. apply adel_Some in Hs. destruct Hs as [_ Hs]. eapply (r_next_spec _ _ R). eassumption.
Qed.

Lemma dealloc_res_inv : forall n b c f fr,
  PInv n b c -> fat (frames b) f = Some fr -> f_pin fr = 0%Z ->
  PInv n (mkB (set_fr (frames b) (N.to_nat f) None) (adel (ptable b) (f_pid fr)) (freel b ++ [f])
              (remove1 f (repl b)) (reusable b ++ [f_pid fr]) (disk b) (dsize b) (next_pid b)
              (locked b))
         (mkC (c_pins c) (c_wrote c) (adel (c_spec c) (f_pid fr))
              (if memN (f_pid fr) (c_dead c) then c_dead c else f_pid fr :: c_dead c)).
Proof.
  intros n b c f fr [S R] Hf Hpin.
  pose proof (fat_lt _ _ _ Hf) as Hlt.
  set (p := f_pid fr) in *.
  assert (Hp : aget (ptable b) p = Some f) by (apply (s_pt _ _ _ S); eauto).
  assert (Hp0 : pins_of c p = 0).
  { pose proof (r_pin _ _ R _ _ Hf) as H. fold p in H. lia. }
  assert (Hoth : forall g fr0, g <> f -> fat (frames b) g = Some fr0 -> f_pid fr0 <> p).
  { intros g fr0 Hg H0 E. apply Hg. eapply res_unique; eauto. }
  assert (Hfn : f < N.of_nat n) by (rewrite (s_len _ _ _ S) in Hlt; lia).
  split.
  - constructor; proj.
    + rewrite length_set_fr. apply (s_len _ _ _ S).
    + apply (s_lock _ _ _ S).
    + intros q g. rewrite fat_set by assumption.
      destruct (N.eq_dec q p) as [Eq|Eq].
      * subst q. rewrite aget_adel_same. split; [discriminate|].
        intros [fr0 [H1 H2]]. destruct (N.eqb_spec g f) as [E|E]; [discriminate|].
        exfalso. eapply Hoth; eauto.
      * rewrite aget_adel_other by congruence.
        destruct (N.eqb_spec g f) as [E|E].
        -- subst g. split.
           ++ intros H. apply (s_pt _ _ _ S) in H. destruct H as [fr0 [H1 H2]].
              exfalso. apply Eq. rewrite Hf in H1. inversion H1; subst fr0. symmetry; assumption.
           ++ intros [fr0 [H1 _]]. discriminate.
        -- apply (s_pt _ _ _ S).
    + intros g. rewrite fat_set by assumption. destruct (N.eqb_spec g f) as [E|E].
      * subst g. split.
        -- intros _. repeat split; [assumption|discriminate].
        -- intros _. apply In_snoc_same.
      * rewrite In_snoc_neq by assumption. apply (s_free _ _ _ S).
    + apply NoDup_snoc; [apply (s_free_nd _ _ _ S)|].
      intros H. apply (s_free _ _ _ S) in H. destruct H as [_ [H _]]. congruence.
    + intros g. rewrite fat_set by assumption. destruct (N.eqb_spec g f) as [E|E].
      * subst g. split.
        -- intros H. exfalso. revert H. apply remove1_NoDup_notin. apply (s_repl_nd _ _ _ S).
        -- intros [fr0 [H1 _]]. discriminate.
      * rewrite <- (s_repl _ _ _ S). split.
        -- apply In_remove1.
        -- apply In_remove1_neq. assumption.
    + apply NoDup_remove1. apply (s_repl_nd _ _ _ S).
    + intros q Hq. apply in_app_or in Hq. destruct Hq as [Hq|[Hq|[]]].
      * apply adel_None. apply (s_reus _ _ _ S). assumption.
      * subst q. apply aget_adel_same.
    + apply NoDup_snoc; [apply (s_reus_nd _ _ _ S)|].
      intros H. apply (s_reus _ _ _ S) in H. congruence.
    + apply (s_dsize _ _ _ S).
    + intros g fr0. rewrite fat_set by assumption. destruct (N.eqb_spec g f) as [E|E]; [discriminate|].
      apply (s_next_res _ _ _ S).
    + intros q Hq. apply in_app_or in Hq. destruct Hq as [Hq|[Hq|[]]].
      * apply (s_next_reus _ _ _ S). assumption.
      * subst q. eapply (s_next_res _ _ _ S). eassumption.
  - constructor; proj.
    + intros g fr0. rewrite fat_set by assumption. destruct (N.eqb_spec g f) as [E|E]; [discriminate|].
      exact (r_pin _ _ R g fr0).
    + intros q Hq. assert (Hqp : q <> p).
      { intros E. subst q. change (0 < pins_of c p) in Hq. lia. }
      rewrite aget_adel_other by congruence. exact (r_pinres _ _ R q Hq).
    + intros q v g fr0 Hs. apply adel_Some in Hs. destruct Hs as [_ Hs].
      rewrite fat_set by assumption. destruct (N.eqb_spec g f) as [E|E]; [discriminate|].
      apply (r_val _ _ R). assumption.
    + intros q v g fr0 Hs. apply adel_Some in Hs. destruct Hs as [_ Hs].
      rewrite fat_set by assumption. destruct (N.eqb_spec g f) as [E|E]; [discriminate|].
      apply (r_clean _ _ R). assumption.
    + intros q v Hs Hq. apply adel_Some in Hs. destruct Hs as [Hqp Hs].
      rewrite aget_adel_other in Hq by congruence. apply (r_disk _ _ R); assumption.
    + exact (r_wrote _ _ R).
    + exact (r_wrote_nd _ _ R).
    + intros q Hq. apply in_app_or in Hq. destruct Hq as [Hq|[Hq|[]]].
      * apply adel_None. apply (r_reus_spec _ _ R). assumption.
      * subst q. apply aget_adel_same.
    + intros q Hq. apply In_addN. apply in_app_or in Hq. destruct Hq as [Hq|[Hq|[]]].
      * right. apply (r_reus_dead _ _ R). assumption.
      * left. symmetry. assumption.
    + intros g fr0. rewrite fat_set by assumption. destruct (N.eqb_spec g f) as [E|E]; [discriminate|].
      intros H1 H2. apply In_addN. right. apply (r_dflag _ _ R _ _ H1 H2).
    + intros q Hq Hz. apply In_addN in Hq. destruct Hq as [Hq|Hq].
      * subst q. apply aget_adel_same.
      * apply adel_None. apply (r_dead _ _ R); assumption.
    + intros q v Hs. apply adel_Some in Hs. destruct Hs as [_ Hs].
      eapply (r_next_spec _ _ R). eassumption.
Qed.

(* ------------------------------------------------------------------ *)
(** * One step *)

Ltac fin_out := split; [discriminate | split; [discriminate | intros ? HfinE; discriminate HfinE]].

Lemma step_ok : forall n b c o b' c' out,
  PInv n b c -> cstep n (b, c) o = Some (b', c', out) ->
  PInv n b' c' /\ out <> BOPanic /\ out <> BOHang /\
  (forall v, o = BNew v -> exists p, out = BONew p).
Proof.
  intros n b c o b' c' out HI H. pose proof HI as [S R].
  unfold cstep, bstep in H. rewrite (s_lock _ _ _ S) in H.
  destruct o as [vic|p vic|p v|p d|p| |p nw|p].
  - (* BNew *)
    destruct (b_new b vic) as [b2 out2] eqn:Hn.
    assert (Hbad : out2 <> BOBad) by (intros E; subst out2; discriminate).
    destruct (Nat.ltb (npinned c) n) eqn:Hlt; [|destruct out2; discriminate].
    apply Nat.ltb_lt in Hlt.
    destruct (new_ok _ _ _ _ _ _ HI Hlt Hn Hbad) as [p [E [HI' _]]]. subst out2.
    cbv beta iota zeta in H. inversion H; subst b' c' out; clear H.
    split; [exact HI'|]. split; [discriminate|]. split; [discriminate|].
    intros _ _. eauto.
  - (* BFetch *)
    destruct (b_fetch b p vic) as [b2 out2] eqn:Hn.
    assert (Hbad : out2 <> BOBad) by (intros E; subst out2; discriminate).
    destruct (memN p (c_dead c) && (pins_of c p =? 0)) eqn:Hc1; [destruct out2; discriminate|].
    destruct ((pins_of c p =? 0) && negb (Nat.ltb (npinned c) n)) eqn:Hc2; [destruct out2; discriminate|].
    destruct (fetch_ok _ _ _ _ _ _ _ HI Hn Hbad Hc1 Hc2) as [Hnp [_ HI']].
    destruct Hnp as [E|[w E]]; subst out2;
      cbv beta iota zeta in H; inversion H; subst b' c' out; clear H;
      (split; [exact HI'|fin_out]).
  - (* BWrite *)
    destruct (b_write b p v) as [b2 out2] eqn:Hw. unfold b_write in Hw.
    destruct (aget (ptable b) p) as [f|] eqn:Hp; [|inversion Hw; subst out2; discriminate].
    destruct (proj1 (s_pt _ _ _ S p f) Hp) as [fr [Hf Hpid]].
    rewrite fr_at_fat, Hf in Hw. inversion Hw; subst b2 out2; clear Hw.
    cbv beta iota zeta in H.
    destruct (N.eqb_spec (pins_of c p) 0) as [E|E]; [discriminate|].
    inversion H; subst b' c' out; clear H. subst p.
    split; [apply write_inv; assumption|fin_out].
  - (* BUnpin *)
    destruct (b_unpin b p d) as [b2 out2] eqn:Hw. unfold b_unpin in Hw.
    destruct (aget (ptable b) p) as [f|] eqn:Hp.
    + destruct (proj1 (s_pt _ _ _ S p f) Hp) as [fr [Hf Hpid]].
      rewrite fr_at_fat, Hf in Hw. cbv zeta in Hw.
      pose proof (r_pin _ _ R _ _ Hf) as Hpin. rewrite Hpid in Hpin.
      destruct (Z.ltb_spec (f_pin fr - 1) 0) as [L|L].
      * inversion Hw; subst b2 out2; clear Hw. cbv beta iota zeta in H.
        destruct (N.eqb_spec (pins_of c p) 0) as [E|E]; [discriminate|]. lia.
      * inversion Hw; subst b2 out2; clear Hw. cbv beta iota zeta in H.
        destruct (N.eqb_spec (pins_of c p) 0) as [E|E]; [discriminate|].
        destruct (memN p (c_wrote c) && negb d) eqn:Hcw; [discriminate|].
        inversion H; subst b' c' out; clear H. subst p.
        split; [apply unpin_inv; assumption|fin_out].
    + inversion Hw; subst b2 out2; clear Hw. cbv beta iota zeta in H.
      rewrite (pins_nonres _ _ _ R Hp) in H. cbn [N.eqb] in H. discriminate.
  - (* BFlush *)
    pose proof (flush_inv n b c p HI) as HI'.
    destruct (b_flush b p) as [b2 out2] eqn:Hw. cbn [fst] in HI'.
    assert (Ho : out2 = BOOk \/ out2 = BOFalse \/ out2 = BOBad).
    { unfold b_flush in Hw. destruct (aget (ptable b) p) as [f0|]; [destruct (fr_at b f0)|];
        unfold disk_write in Hw; cbv beta iota zeta in Hw; inversion Hw; auto. }
    destruct Ho as [Ho|[Ho|Ho]]; subst out2; cbv beta iota zeta in H; [| |discriminate];
      inversion H; subst b' c' out; clear H; (split; [exact HI'|fin_out]).
  - (* BFlushAll *)
    unfold b_flush_all in H. cbv beta iota zeta in H.
    inversion H; subst b' c' out; clear H.
    split; [apply flush_fold_inv; assumption|fin_out].
  - (* BDealloc *)
    destruct (b_dealloc b p nw) as [b2 out2] eqn:Hw. unfold b_dealloc in Hw.
    destruct nw; cbn [negb] in Hw, H.
    + destruct (aget (ptable b) p) as [f|] eqn:Hp.
      * destruct (proj1 (s_pt _ _ _ S p f) Hp) as [fr [Hf Hpid]].
        rewrite fr_at_fat, Hf in Hw.
        pose proof (r_pin _ _ R _ _ Hf) as Hpin. rewrite Hpid in Hpin.
        destruct (Z.eqb_spec (f_pin fr) 0) as [Z0|Z0].
        -- inversion Hw; subst b2 out2; clear Hw. cbv beta iota zeta in H.
           destruct (N.eqb_spec (pins_of c p) 0) as [E|E]; [|lia].
           inversion H; subst b' c' out; clear H. subst p.
           split; [apply dealloc_res_inv; assumption|fin_out].
        -- inversion Hw; subst b2 out2; clear Hw. cbv beta iota zeta in H.
           destruct (N.eqb_spec (pins_of c p) 0) as [E|E]; [lia|].
           inversion H; subst b' c' out; clear H. subst p.
           split; [apply flag_inv; assumption|fin_out].
      * inversion Hw; subst b2 out2; clear Hw. cbv beta iota zeta in H.
        rewrite (pins_nonres _ _ _ R Hp) in H. cbn [N.eqb] in H.
        inversion H; subst b' c' out; clear H.
        split; [apply dealloc_nonres_inv; assumption|fin_out].
    + inversion Hw; subst b2 out2; clear Hw. cbv beta iota zeta in H.
      inversion H; subst b' c' out; clear H.
      split; [assumption|fin_out].
  - (* BMarkDealloc *)
    destruct (b_mark_dealloc b p) as [b2 out2] eqn:Hw. unfold b_mark_dealloc in Hw.
    destruct (aget (ptable b) p) as [f|] eqn:Hp; [|inversion Hw; subst out2; discriminate].
    destruct (proj1 (s_pt _ _ _ S p f) Hp) as [fr [Hf Hpid]].
    rewrite fr_at_fat, Hf in Hw. inversion Hw; subst b2 out2; clear Hw.
    cbv beta iota zeta in H.
    destruct (N.eqb_spec (pins_of c p) 0) as [E|E]; [discriminate|].
    inversion H; subst b' c' out; clear H. subst p.
    split; [apply flag_inv; assumption|fin_out].
Qed.

(* ------------------------------------------------------------------ *)
(** * Whole histories *)

Lemma run_inv : forall n ops b c b' c' outs,
  PInv n b c -> crun n (b, c) ops = Some (b', c', outs) -> PInv n b' c'.
Proof.
  intros n ops; induction ops as [|o rest IH]; intros b c b' c' outs HI H; cbn [crun] in H.
  - cbn [fst snd] in H. inversion H; subst; assumption.
  - destruct (cstep n (b, c) o) as [[[b1 c1] out]|] eqn:Hs; [|discriminate].
    destruct (crun n (b1, c1) rest) as [[[b2 c2] outs2]|] eqn:Hr; [|discriminate].
    inversion H; subst b2 c2 outs; clear H.
    eapply IH; [|eassumption].
    eapply step_ok; eassumption.
Qed.

Lemma reach_inv : forall n b c,
  (exists ops outs, crun n (binit n, cinit) ops = Some (b, c, outs)) -> PInv n b c.
Proof.
  intros n b c [ops [outs H]]. eapply run_inv; [apply PInv_init|eassumption].
Qed.

(* ------------------------------------------------------------------ *)
(** * The results used by Props/C13.v *)

Lemma fetch_latest : forall n b c p vic v, (0 < n)%nat ->
  (exists ops outs, crun n (binit n, cinit) ops = Some (b, c, outs)) ->
  aget (c_spec c) p = Some v ->
  forall b' c' out, cstep n (b, c) (BFetch p vic) = Some (b', c', out) -> out = BOFetched v.
Proof.
  intros n b c p vic v _ Hreach Hs b' c' out H.
  pose proof (reach_inv _ _ _ Hreach) as HI. pose proof HI as [S R].
  unfold cstep, bstep in H. rewrite (s_lock _ _ _ S) in H.
  destruct (b_fetch b p vic) as [b2 out2] eqn:Hn.
  assert (Hbad : out2 <> BOBad) by (intros E; subst out2; discriminate).
  destruct (memN p (c_dead c) && (pins_of c p =? 0)) eqn:Hc1; [destruct out2; discriminate|].
  destruct ((pins_of c p =? 0) && negb (Nat.ltb (npinned c) n)) eqn:Hc2; [destruct out2; discriminate|].
  destruct (fetch_ok _ _ _ _ _ _ _ HI Hn Hbad Hc1 Hc2) as [_ [Hv _]].
  pose proof (Hv _ Hs) as E. subst out2. cbv beta iota zeta in H.
  inversion H; reflexivity.
Qed.

Lemma no_panic : forall n b c o b' c' out, (0 < n)%nat ->
  (exists ops outs, crun n (binit n, cinit) ops = Some (b, c, outs)) ->
  cstep n (b, c) o = Some (b', c', out) ->
  out <> BOPanic /\ out <> BOHang /\
  (forall v, o = BNew v -> exists p, out = BONew p).
Proof.
  intros n b c o b' c' out _ Hreach H.
  pose proof (reach_inv _ _ _ Hreach) as HI.
  destruct (step_ok _ _ _ _ _ _ _ HI H) as [_ Hrest]. exact Hrest.
Qed.

Lemma pinned_resident : forall n b c p, (0 < n)%nat ->
  (exists ops outs, crun n (binit n, cinit) ops = Some (b, c, outs)) ->
  0 < pins_of c p ->
  exists f fr, aget (ptable b) p = Some f /\ fr_at b f = Some fr /\ f_pid fr = p /\
               f_pin fr = Z.of_N (pins_of c p) /\
               (forall v, aget (c_spec c) p = Some v -> f_val fr = v) /\
               (forall g fr', fr_at b g = Some fr' -> f_pid fr' = p -> g = f).
Proof.
  intros n b c p _ Hreach Hp.
  pose proof (reach_inv _ _ _ Hreach) as [S R].
  destruct (r_pinres _ _ R p Hp) as [f Hf].
  destruct (proj1 (s_pt _ _ _ S p f) Hf) as [fr [Hfr Hpid]].
  exists f, fr.
  split; [assumption|]. split; [exact Hfr|]. split; [assumption|]. split.
  - rewrite <- Hpid. apply (r_pin _ _ R _ _ Hfr).
  - split.
    + intros v Hs. eapply (r_val _ _ R); eauto.
    + intros g fr' Hg Hpid'. eapply res_unique; [exact S|exact Hg|exact Hfr|congruence].
Qed.

Lemma frames_unique : forall n b c, (0 < n)%nat ->
  (exists ops outs, crun n (binit n, cinit) ops = Some (b, c, outs)) ->
  (forall f g fr fr', fr_at b f = Some fr -> fr_at b g = Some fr' -> f_pid fr = f_pid fr' -> f = g) /\
  (forall f, In f (repl b) -> exists fr, fr_at b f = Some fr /\ f_pin fr = 0%Z) /\
  locked b = false.
Proof.
  intros n b c _ Hreach.
  pose proof (reach_inv _ _ _ Hreach) as [S R].
  split; [|split].
  - intros f g fr fr' Hf Hg E. eapply res_unique; [exact S|exact Hf|exact Hg|exact E].
  - intros f Hf. apply (s_repl _ _ _ S) in Hf. exact Hf.
  - apply (s_lock _ _ _ S).
Qed.

(** [new_fresh] as stated in Props/C13.v (third conjunct [aget (ptable b) p = None])
    does NOT hold for the model: when the free list is empty and the victim frame
    holds an unpinned page flagged deallocated, take_frame appends that page id to
    the reusable list and NewPage may hand it out immediately, while it is still in
    the page table of the pre-state.  What holds is the following. *)
Lemma new_fresh_partial : forall n b c vic b' c' p, (0 < n)%nat ->
  (exists ops outs, crun n (binit n, cinit) ops = Some (b, c, outs)) ->
  cstep n (b, c) (BNew vic) = Some (b', c', BONew p) ->
  pins_of c p = 0 /\ aget (c_spec c) p = None /\
  (aget (ptable b) p = None \/
   (freel b = [] /\ aget (ptable b) p = Some vic /\
    exists fr, fr_at b vic = Some fr /\ f_pin fr = 0%Z /\ f_dealloc fr = true)).
Proof.
  intros n b c vic b' c' p _ Hreach H.
  pose proof (reach_inv _ _ _ Hreach) as HI. pose proof HI as [S R].
  unfold cstep, bstep in H. rewrite (s_lock _ _ _ S) in H.
  destruct (b_new b vic) as [b2 out2] eqn:Hn.
  assert (Hbad : out2 <> BOBad) by (intros E; subst out2; discriminate).
  destruct (Nat.ltb (npinned c) n) eqn:Hlt; [|destruct out2; discriminate].
  apply Nat.ltb_lt in Hlt.
  destruct (new_ok _ _ _ _ _ _ HI Hlt Hn Hbad) as [q [E [_ [H1 [H2 H3]]]]]. subst out2.
  cbv beta iota zeta in H. inversion H; subst. 
  split; [assumption|]. split; [assumption|]. exact H3.
Qed.

Lemma new_fresh_refuted :
  exists n b c vic b' c' p, (0 < n)%nat /\
    (exists ops outs, crun n (binit n, cinit) ops = Some (b, c, outs)) /\
    cstep n (b, c) (BNew vic) = Some (b', c', BONew p) /\
    aget (ptable b) p <> None.
Proof.
  destruct (crun 1 (binit 1, cinit) [BNew 0; BMarkDealloc 0; BUnpin 0 false])
    as [[[b c] outs]|] eqn:E; [|vm_compute in E; discriminate].
  destruct (cstep 1 (b, c) (BNew 0)) as [[[b' c'] out]|] eqn:E2.
  2:{ vm_compute in E. inversion E; subst. vm_compute in E2. discriminate. }
  exists 1%nat, b, c, 0, b', c', 0.
  split; [constructor|]. split; [eauto|].
  vm_compute in E. inversion E; subst b c outs; clear E.
  vm_compute in E2. inversion E2; subst b' c' out; clear E2.
  split; [vm_compute; reflexivity|]. vm_compute. discriminate.
Qed.
