(** Basic facts used by Proofs/PoolProofs.v: frame lists, disk, counting. *)
From Coq Require Import List NArith ZArith Bool PeanoNat Lia ZifyBool ZifyN ZifyNat.
From SDB Require Import Base.Assoc Model.Pool Model.PoolClient Proofs.LockProofs.
Import ListNotations.
Open Scope N_scope.

(* ------------------------------------------------------------------ *)
(** * Frames *)

Definition fat (fs : list (option frame)) (i : N) : option frame :=
  match nth_error fs (N.to_nat i) with Some (Some f) => Some f | _ => None end.

Lemma fr_at_fat : forall b i, fr_at b i = fat (frames b) i.
Proof. reflexivity. Qed.

Lemma length_set_fr : forall l k x, length (set_fr l k x) = length l.
Proof.
  induction l as [|y l IH]; intros k x; cbn [set_fr].
  - reflexivity.
  - destruct k; cbn [length]; [reflexivity|]. rewrite IH. reflexivity.
Qed.

Lemma nth_set_fr_same : forall l k x, (k < length l)%nat -> nth_error (set_fr l k x) k = Some x.
Proof.
  induction l as [|y l IH]; intros k x H; cbn [length] in H.
  - lia.
  - destruct k; cbn [set_fr nth_error]; [reflexivity|]. apply IH. lia.
Qed.

Lemma nth_set_fr_other : forall l k j x, k <> j -> nth_error (set_fr l k x) j = nth_error l j.
Proof.
  induction l as [|y l IH]; intros k j x H; cbn [set_fr].
  - reflexivity.
  - destruct k; destruct j; cbn [nth_error]; try reflexivity; try congruence.
    apply IH. congruence.
Qed.

Lemma fat_lt : forall fs i fr, fat fs i = Some fr -> (N.to_nat i < length fs)%nat.
Proof.
  intros fs i fr H. unfold fat in H.
  destruct (nth_error fs (N.to_nat i)) eqn:E; [|discriminate].
  apply nth_error_Some. congruence.
Qed.

Lemma fat_set_same : forall fs f x, (N.to_nat f < length fs)%nat ->
  fat (set_fr fs (N.to_nat f) x) f = x.
Proof.
  intros fs f x H. unfold fat. rewrite nth_set_fr_same by assumption.
  destruct x; reflexivity.
Qed.

Lemma fat_set_other : forall fs f g x, g <> f ->
  fat (set_fr fs (N.to_nat f) x) g = fat fs g.
Proof.
  intros fs f g x H. unfold fat. rewrite nth_set_fr_other; [reflexivity|].
  intros E. apply H. apply N2Nat.inj. symmetry. assumption.
Qed.

Lemma fat_set : forall fs f g x, (N.to_nat f < length fs)%nat ->
  fat (set_fr fs (N.to_nat f) x) g = if g =? f then x else fat fs g.
Proof.
  intros fs f g x H. destruct (N.eqb_spec g f) as [E|E].
  - subst g. apply fat_set_same. assumption.
  - apply fat_set_other. assumption.
Qed.

Lemma fat_mk_frames : forall n i, fat (mk_frames n) i = None.
Proof.
  intros n i. unfold fat.
  generalize (N.to_nat i) as k. induction n as [|n IH]; intros k; cbn [mk_frames].
  - destruct k; reflexivity.
  - destruct k; cbn [nth_error]; [reflexivity|]. apply IH.
Qed.

Lemma length_mk_frames : forall n, length (mk_frames n) = n.
Proof. induction n as [|n IH]; cbn [mk_frames length]; [reflexivity|]. rewrite IH. reflexivity. Qed.

Lemma In_iota : forall n k f, In f (iota k n) <-> (k <= f /\ f < k + N.of_nat n).
Proof.
  induction n as [|n IH]; intros k f; cbn [iota In].
  - split; [contradiction|]. lia.
  - rewrite IH. lia.
Qed.

Lemma NoDup_iota : forall n k, NoDup (iota k n).
Proof.
  induction n as [|n IH]; intros k; cbn [iota]; constructor.
  - rewrite In_iota. lia.
  - apply IH.
Qed.

(* ------------------------------------------------------------------ *)
(** * Disk *)

Lemma disk_read_eq : forall b p,
  disk_read b p = if p <? dsize b then Some (match aget (disk b) p with Some v => v | None => 0 end) else None.
Proof. reflexivity. Qed.

Definition dread (dk : list (N * N)) (ds : N) (p : N) : option N :=
  if p <? ds then Some (match aget dk p with Some v => v | None => 0 end) else None.

Lemma dread_write_same : forall dk ds p v,
  dread (aset dk p v) (if ds <=? p then p + 1 else ds) p = Some v.
Proof.
  intros dk ds p v. unfold dread. rewrite aget_aset_same.
  destruct (N.leb_spec ds p) as [H|H].
  - destruct (N.ltb_spec p (p + 1)) as [H1|H1]; [reflexivity|lia].
  - destruct (N.ltb_spec p ds) as [H1|H1]; [reflexivity|lia].
Qed.

Lemma dread_write_other : forall dk ds p q v w, q <> p ->
  dread dk ds q = Some w ->
  dread (aset dk p v) (if ds <=? p then p + 1 else ds) q = Some w.
Proof.
  intros dk ds p q v w Hne H. unfold dread in *.
  rewrite aget_aset_other by congruence.
  destruct (N.ltb_spec q ds) as [H0|H0]; [|discriminate].
  destruct (N.leb_spec ds p) as [H1|H1].
  - destruct (N.ltb_spec q (p + 1)) as [H2|H2]; [assumption|lia].
  - destruct (N.ltb_spec q ds) as [H2|H2]; [assumption|lia].
Qed.

(* ------------------------------------------------------------------ *)
(** * Counting pinned pages *)

Lemma aget_In : forall {A} (m : list (N * A)) k v, aget m k = Some v -> In (k, v) m.
Proof.
  intros A m; induction m as [|[k0 v0] m IH]; intros k v H; cbn [aget] in H.
  - discriminate.
  - destruct (N.eqb_spec k0 k) as [E|E].
    + left. congruence.
    + right. apply IH. assumption.
Qed.

Lemma aget_None_notin : forall {A} (m : list (N * A)) k, aget m k = None -> ~ In k (map fst m).
Proof.
  intros A m; induction m as [|[k0 v0] m IH]; intros k H; cbn [aget map fst In] in *.
  - intros F; exact F.
  - destruct (N.eqb_spec k0 k) as [E|E]; [discriminate|].
    intros [F|F]; [contradiction|]. revert F. apply IH. assumption.
Qed.

Lemma pinned_counted : forall c p, 0 < pins_of c p ->
  In p (map fst (filter (fun e => 0 <? snd e) (c_pins c))).
Proof.
  intros c p H. unfold pins_of in H.
  destruct (aget (c_pins c) p) as [k|] eqn:E; [|lia].
  apply aget_In in E.
  apply in_map_iff. exists (p, k). split; [reflexivity|].
  apply filter_In. split; [assumption|]. cbn [snd].
  destruct (N.ltb_spec 0 k); [reflexivity|lia].
Qed.

Lemma npinned_ge : forall c (l : list N), NoDup l -> (forall p, In p l -> 0 < pins_of c p) ->
  (length l <= npinned c)%nat.
Proof.
  intros c l Hnd H. unfold npinned.
  rewrite <- (map_length fst (filter (fun e => 0 <? snd e) (c_pins c))).
  apply NoDup_incl_length; [assumption|].
  intros p Hp. apply pinned_counted. apply H. assumption.
Qed.

Definition pid_or0 (o : option frame) : N := match o with Some fr => f_pid fr | None => 0 end.

Lemma pigeon : forall c (fs : list (option frame)),
  (forall i fr, fat fs i = Some fr -> 0 < pins_of c (f_pid fr)) ->
  (forall i, (N.to_nat i < length fs)%nat -> fat fs i <> None) ->
  (forall i j fr fr', fat fs i = Some fr -> fat fs j = Some fr' -> f_pid fr = f_pid fr' -> i = j) ->
  (length fs <= npinned c)%nat.
Proof.
  intros c fs Hpin Hfull Huniq.
  rewrite <- (map_length pid_or0 fs).
  apply npinned_ge.
  - apply NoDup_nth_error. intros i j Hi E.
    rewrite map_length in Hi.
    assert (Hj : (j < length fs)%nat).
    { destruct (Nat.lt_ge_cases j (length fs)) as [L|L]; [assumption|].
      exfalso.
      assert (Hn : nth_error (map pid_or0 fs) j = None)
        by (apply nth_error_None; rewrite map_length; assumption).
      rewrite Hn in E.
      apply nth_error_None in E. rewrite map_length in E. lia. }
    destruct (nth_error fs i) as [oi|] eqn:Ei; [|apply nth_error_None in Ei; lia].
    destruct (nth_error fs j) as [oj|] eqn:Ej; [|apply nth_error_None in Ej; lia].
    rewrite (map_nth_error pid_or0 _ _ Ei) in E.
    rewrite (map_nth_error pid_or0 _ _ Ej) in E.
    assert (Fi : fat fs (N.of_nat i) = oi).
    { unfold fat. rewrite Nat2N.id. rewrite Ei. destruct oi; reflexivity. }
    assert (Fj : fat fs (N.of_nat j) = oj).
    { unfold fat. rewrite Nat2N.id. rewrite Ej. destruct oj; reflexivity. }
    destruct oi as [fi|].
    2:{ exfalso. apply (Hfull (N.of_nat i)); [rewrite Nat2N.id; assumption|assumption]. }
    destruct oj as [fj|].
    2:{ exfalso. apply (Hfull (N.of_nat j)); [rewrite Nat2N.id; assumption|assumption]. }
    cbn [pid_or0] in E.
    assert (EE : N.of_nat i = N.of_nat j).
    { apply (Huniq _ _ _ _ Fi Fj). congruence. }
    apply Nat2N.inj. assumption.
  - intros p Hp. apply in_map_iff in Hp. destruct Hp as [o [Ho Hin]].
    apply In_nth_error in Hin. destruct Hin as [i Hi].
    assert (Li : (i < length fs)%nat) by (apply nth_error_Some; congruence).
    assert (Fi : fat fs (N.of_nat i) = o).
    { unfold fat. rewrite Nat2N.id. rewrite Hi. destruct o; reflexivity. }
    destruct o as [fr|].
    2:{ exfalso. apply (Hfull (N.of_nat i)); [rewrite Nat2N.id; assumption|assumption]. }
    cbn [pid_or0] in Ho. subst p. eapply Hpin. eassumption.
Qed.
