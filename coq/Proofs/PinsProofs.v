From Coq Require Import List ZArith NArith Bool Lia.
From SDB Require Import Model.Pins.
Import ListNotations.
Open Scope Z_scope.

Lemma apply_trace_net tr : forall v q, apply_trace v tr q = v q + net tr q.
Proof.
  induction tr as [|e tr IH]; intros v q; cbn [apply_trace fold_left net].
  - lia.
  - fold (apply_trace (apply_ev v e) tr). rewrite IH.
    destruct e as [p|p]; cbn [apply_ev net]; destruct (N.eqb q p); lia.
Qed.

Lemma balanced_preserves tr v : balanced tr -> forall q, apply_trace v tr q = v q.
Proof. intros H q. rewrite apply_trace_net, H. lia. Qed.

Lemma net_app a b q : net (a ++ b) q = net a q + net b q.
Proof.
  induction a as [|e a IH]; cbn [app net]; [lia|].
  destruct e; rewrite IH; lia.
Qed.

Lemma balanced_concat (stmts : list (list pev)) :
  Forall balanced stmts -> balanced (concat stmts).
Proof.
  induction 1 as [|tr rest Htr _ IH]; intros q; cbn [concat net]; [reflexivity|].
  rewrite net_app, Htr, IH. reflexivity.
Qed.

(** A workload of ANY length made of balanced statements leaves every pin count
    where it was. *)
Lemma workload_preserves (stmts : list (list pev)) v :
  Forall balanced stmts -> forall q, apply_trace v (concat stmts) q = v q.
Proof. intros H. apply balanced_preserves. now apply balanced_concat. Qed.

Lemma net_not_in tr q : ~ In q (pages_of tr) -> net tr q = 0.
Proof.
  induction tr as [|e tr IH]; cbn [pages_of map net In]; intros H; [reflexivity|].
  destruct e as [p|p]; (destruct (N.eqb_spec q p) as [->|Hne]; [exfalso; apply H; now left|]);
    rewrite IH by (intros Hin; apply H; now right); reflexivity.
Qed.

Lemma balancedb_sound tr : balancedb tr = true -> balanced tr.
Proof.
  unfold balancedb. rewrite forallb_forall. intros H q.
  destruct (in_dec N.eq_dec q (pages_of tr)) as [Hin|Hnin].
  - apply H in Hin. now apply Z.eqb_eq in Hin.
  - now apply net_not_in.
Qed.

(** The number of simultaneously held extra pins never exceeds the statement's
    own peak, whatever came before: with [base] pins held permanently and a
    pool of at least [base + peak] frames, no prefix of any workload of
    balanced statements needs more frames than the pool has. *)
Lemma peak_from_ge cur best tr : best <= peak_from cur best tr.
Proof.
  revert cur best; induction tr as [|e tr IH]; intros cur best; cbn [peak_from]; [lia|].
  destruct e; [specialize (IH (cur + 1) (Z.max best (cur + 1))) | specialize (IH (cur - 1) best)]; lia.
Qed.

Fixpoint held (tr : list pev) : Z :=
  match tr with [] => 0 | Pin _ :: r => 1 + held r | Unpin _ :: r => -1 + held r end.

Lemma held_app a b : held (a ++ b) = held a + held b.
Proof. induction a as [|e a IH]; cbn [app held]; [lia|]. destruct e; lia. Qed.

Lemma peak_from_bound tr : forall cur best pre suf, tr = pre ++ suf ->
  cur + held pre <= peak_from cur (Z.max best cur) tr.
Proof.
  induction tr as [|e tr IH]; intros cur best pre suf E.
  - destruct pre; [|discriminate]. cbn [held peak_from]. lia.
  - destruct pre as [|e' pre].
    + cbn [held]. pose proof (peak_from_ge cur (Z.max best cur) (e :: tr)). lia.
    + cbn [app] in E. injection E as <- E.
      destruct e as [p|p]; cbn [held peak_from].
      * specialize (IH (cur + 1) (Z.max best cur) pre suf E).
        replace (Z.max (Z.max best cur) (cur + 1)) with (Z.max (Z.max best cur) (cur + 1)) by reflexivity.
        assert (Z.max (Z.max best cur) (cur + 1) = Z.max (Z.max best cur) (cur + 1)) by reflexivity.
        replace (Z.max (Z.max best cur) (cur + 1)) with (Z.max (Z.max best cur) (cur + 1)) in IH by reflexivity.
        lia.
      * specialize (IH (cur - 1) (Z.max best cur) pre suf E).
        pose proof (peak_from_ge (cur - 1) (Z.max best cur) tr).
        assert (Hm : peak_from (cur - 1) (Z.max (Z.max best cur) (cur - 1)) tr = peak_from (cur - 1) (Z.max best cur) tr).
        { f_equal. lia. }
        rewrite Hm in IH. lia.
Qed.

Lemma prefix_within_peak tr pre suf : tr = pre ++ suf -> held pre <= peak tr.
Proof.
  intros E. unfold peak. pose proof (peak_from_bound tr 0 0 pre suf E) as H.
  cbn in H. exact H.
Qed.

Lemma held_concat_zero (stmts : list (list pev)) :
  Forall (fun s => held s = 0) stmts -> held (concat stmts) = 0.
Proof.
  induction 1 as [|s rest Hs _ IH]; cbn [concat held]; [reflexivity|].
  rewrite held_app, Hs, IH. reflexivity.
Qed.

(** Any prefix of a workload of any length splits into whole statements and a
    prefix of one statement, so it never holds more extra pins than the largest
    single-statement peak. *)
Lemma workload_prefix_bound (stmts : list (list pev)) (bound : Z) : 0 <= bound ->
  Forall (fun s => held s = 0 /\ peak s <= bound) stmts ->
  forall pre suf, concat stmts = pre ++ suf -> held pre <= bound.
Proof.
  intros Hb H. induction H as [|s rest [Hs Hp] _ IH]; intros pre suf E.
  - cbn in E. destruct pre; [cbn; lia|discriminate].
  - cbn [concat] in E.
    (* either pre is inside s, or it covers s and continues in rest *)
    destruct (Nat.le_gt_cases (length pre) (length s)) as [Hle|Hgt].
    + assert (Hpre : s = pre ++ skipn (length pre) s).
      { rewrite <- (firstn_skipn (length pre) s) at 1. f_equal.
        apply (f_equal (firstn (length pre))) in E.
        rewrite firstn_app, firstn_app in E.
        replace (length pre - length s)%nat with 0%nat in E by lia.
        rewrite Nat.sub_diag in E. cbn [firstn] in E. rewrite !app_nil_r in E.
        rewrite firstn_all in E. exact E. }
      pose proof (prefix_within_peak s pre _ Hpre). lia.
    + assert (Hpre : pre = s ++ skipn (length s) pre).
      { rewrite <- (firstn_skipn (length s) pre) at 1. f_equal.
        apply (f_equal (firstn (length s))) in E.
        rewrite firstn_app, firstn_app in E.
        rewrite Nat.sub_diag in E. cbn [firstn] in E. rewrite app_nil_r in E.
        rewrite firstn_all in E.
        replace (length s - length pre)%nat with 0%nat in E by lia.
        cbn [firstn] in E. rewrite app_nil_r in E. symmetry. exact E. }
      rewrite Hpre in E. rewrite <- app_assoc in E. apply app_inv_head in E.
      rewrite Hpre, held_app, Hs. specialize (IH _ _ E). lia.
Qed.

(** What the harness observes (pin vector after = pin vector before) is exactly balance. *)
Lemma observed_balance tr v : (forall q, apply_trace v tr q = v q) <-> balanced tr.
Proof.
  split.
  - intros H q. specialize (H q). rewrite apply_trace_net in H. lia.
  - intros H q. now apply balanced_preserves.
Qed.
