(** Proofs about the row-level engine model (Model/Engine.v), used by
    Props/C03.v, Props/C07.v and Props/C04.v.  Axiom-free; standard library only.

    Structure
      1. value / entry equality, entry counting ([cnt]) and its algebra
      2. heap maps: [aget] of [rput]; effect of do / undo / commit on one rid
      3. the history predicate [GoodR] (the state is consistent with the write
         set read backwards through [undo_rows]) and its consequences
      4. the global invariant [GInv] and its preservation by every step
      5. C03: abort restores rows and indexes; others untouched
      6. C07: index = table when no transaction is in progress
      7. C04: dirty rows are X-locked; a read never sees foreign dirty data *)
From Coq Require Import List NArith ZArith Bool PeanoNat Permutation.
From Coq Require Import Lia ZifyBool ZifyN ZifyNat.
From SDB Require Import Base.Assoc Model.Lock Model.SqlRef Model.Engine Proofs.LockProofs.
Import ListNotations.
Open Scope N_scope.

(* ------------------------------------------------------------------ *)
(** * 1. Equality on values and entries, counting *)

Lemma lneqb_spec : forall a b, lneqb a b = true <-> a = b.
Proof.
  induction a as [|x a IH]; intros [|y b]; cbn [lneqb].
  - split; reflexivity.
  - split; discriminate.
  - split; discriminate.
  - rewrite andb_true_iff, N.eqb_eq, IH. split.
    + intros [H1 H2]. subst. reflexivity.
    + intros H. inversion H. split; reflexivity.
Qed.

Lemma veqb_spec : forall a b, veqb a b = true <-> a = b.
Proof.
  intros [|x|u|s] [|y|v|t]; cbn [veqb]; try (split; [discriminate|discriminate]).
  - split; reflexivity.
  - rewrite Z.eqb_eq. split; intros H; [subst; reflexivity|inversion H; reflexivity].
  - rewrite N.eqb_eq. split; intros H; [subst; reflexivity|inversion H; reflexivity].
  - rewrite lneqb_spec. split; intros H; [subst; reflexivity|inversion H; reflexivity].
Qed.

Lemma veqb_refl : forall a, veqb a a = true.
Proof. intros a. apply veqb_spec. reflexivity. Qed.

Lemma veqb_false : forall a b, veqb a b = false <-> a <> b.
Proof.
  intros a b. split.
  - intros H E. apply veqb_spec in E. rewrite E in H. discriminate.
  - intros H. destruct (veqb a b) eqn:E; [|reflexivity].
    apply veqb_spec in E. contradiction.
Qed.

Lemma eeqb_spec : forall a b, eeqb a b = true <-> a = b.
Proof.
  intros [k r] [k' r']. unfold eeqb. cbn [fst snd].
  rewrite andb_true_iff, veqb_spec, N.eqb_eq. split.
  - intros [H1 H2]. subst. reflexivity.
  - intros H. inversion H. split; reflexivity.
Qed.

Lemma eeqb_pair : forall k r k' r', eeqb (k, r) (k', r') = veqb k k' && (r =? r').
Proof. reflexivity. Qed.

Definition entry_eq_dec : forall a b : ientry, {a = b} + {a <> b}.
Proof.
  intros a b. destruct (eeqb a b) eqn:E.
  - left. apply eeqb_spec. exact E.
  - right. intros H. apply eeqb_spec in H. rewrite H in E. discriminate.
Defined.

(** Number of occurrences of entry [x]. *)
Definition cnt (x : ientry) (l : list ientry) : nat := count_occ entry_eq_dec l x.

Definition ind (b : bool) : nat := if b then 1%nat else 0%nat.

Lemma cnt_nil : forall x, cnt x [] = 0%nat.
Proof. reflexivity. Qed.

Lemma cnt_cons : forall x y l, cnt x (y :: l) = (ind (eeqb y x) + cnt x l)%nat.
Proof.
  intros x y l. unfold cnt. cbn [count_occ].
  destruct (entry_eq_dec y x) as [E|E].
  - apply eeqb_spec in E. rewrite E. reflexivity.
  - destruct (eeqb y x) eqn:E'.
    + apply eeqb_spec in E'. contradiction.
    + reflexivity.
Qed.

Lemma cnt_add : forall x y l, cnt x (l ++ [y]) = (cnt x l + ind (eeqb y x))%nat.
Proof.
  intros x y l. induction l as [|z l IH].
  - cbn [app]. rewrite cnt_cons, cnt_nil. lia.
  - cbn [app]. rewrite !cnt_cons, IH. lia.
Qed.

Lemma cnt_rem : forall x y l, cnt x (rem1e y l) = (cnt x l - ind (eeqb y x))%nat.
Proof.
  intros x y l. induction l as [|z l IH].
  - reflexivity.
  - cbn [rem1e]. destruct (eeqb z y) eqn:Ezy.
    + apply eeqb_spec in Ezy. subst z. rewrite cnt_cons. lia.
    + rewrite !cnt_cons, IH.
      destruct (eeqb y x) eqn:Eyx; cbn [ind]; [|lia].
      apply eeqb_spec in Eyx. subst y. rewrite Ezy. cbn [ind]. lia.
Qed.

Lemma cnt_perm : forall l l', (forall x, cnt x l = cnt x l') -> Permutation l l'.
Proof.
  intros l l' H. apply (Permutation_count_occ entry_eq_dec). exact H.
Qed.

Lemma perm_cnt : forall l l', Permutation l l' -> forall x, cnt x l = cnt x l'.
Proof.
  intros l l' H x. apply (Permutation_count_occ entry_eq_dec). exact H.
Qed.

Lemma cnt_pos_In : forall x l, (cnt x l > 0)%nat <-> In x l.
Proof.
  intros x l. unfold cnt. symmetry. apply count_occ_In.
Qed.

(* ------------------------------------------------------------------ *)
(** * 2. Heap maps *)

Lemma aget_rput : forall (m : list (N * (row * bool))) r v r',
  aget (rput m r v) r' = if r =? r' then v else aget m r'.
Proof.
  intros m r v r'. unfold rput. destruct (N.eqb_spec r r') as [E|E].
  - subst r'. destruct v as [x|].
    + apply aget_aset_same.
    + apply aget_adel_same.
  - destruct v as [x|].
    + apply aget_aset_other. exact E.
    + apply aget_adel_other. exact E.
Qed.

(** Rids mentioned by a write record / a write set. *)
Definition wrids (w : wrec) : list N :=
  match w with
  | WIns r _ => [r]
  | WDel r _ => [r]
  | WUpd r1 r2 _ _ => [r1; r2]
  end.

Definition rids_of (ws : list wrec) : list N := flat_map wrids ws.

Lemma rids_of_app : forall a b, rids_of (a ++ b) = rids_of a ++ rids_of b.
Proof. intros a b. unfold rids_of. apply flat_map_app. Qed.

Lemma rids_of_rev : forall ws r, In r (rids_of (rev ws)) <-> In r (rids_of ws).
Proof.
  intros ws r. unfold rids_of. rewrite !in_flat_map. split.
  - intros [w [H1 H2]]. exists w. split; [apply in_rev; exact H1|exact H2].
  - intros [w [H1 H2]]. exists w. split; [apply in_rev in H1; exact H1|exact H2].
Qed.

Lemma rids_of_In : forall ws w r, In w ws -> In r (wrids w) -> In r (rids_of ws).
Proof.
  intros ws w r H1 H2. unfold rids_of. apply in_flat_map. exists w. split; assumption.
Qed.

(** State of the rids of [w] before / after its execution. *)
Definition pre (w : wrec) (m : list (N * (row * bool))) : Prop :=
  match w with
  | WIns r _ => aget m r = None
  | WDel r tp => aget m r = Some (tp, false)
  | WUpd r1 r2 old _ =>
      aget m r1 = Some (old, false) /\ (r1 <> r2 -> aget m r2 = None)
  end.

Definition post (w : wrec) (m : list (N * (row * bool))) : Prop :=
  match w with
  | WIns r tp => aget m r = Some (tp, false)
  | WDel r tp => aget m r = Some (tp, true)
  | WUpd r1 r2 old new =>
      if r1 =? r2 then aget m r1 = Some (new, false)
      else aget m r1 = Some (old, true) /\ aget m r2 = Some (new, false)
  end.

Ltac eqb_cases :=
  repeat match goal with
  | |- context [N.eqb ?a ?b] => destruct (N.eqb_spec a b); try subst; try contradiction
  | H : context [N.eqb ?a ?b] |- _ => destruct (N.eqb_spec a b); try subst; try contradiction
  end.

Lemma do_rows_frame : forall w m r, ~ In r (wrids w) -> aget (do_rows m w) r = aget m r.
Proof.
  intros [r0 tp|r0 tp|r1 r2 old new] m r Hn; cbn [wrids In] in Hn; cbn [do_rows].
  - rewrite aget_rput. destruct (N.eqb_spec r0 r) as [E|E]; [tauto|reflexivity].
  - rewrite aget_rput. destruct (N.eqb_spec r0 r) as [E|E]; [tauto|reflexivity].
  - destruct (N.eqb_spec r1 r2) as [E12|E12]; rewrite ?aget_rput.
    + destruct (N.eqb_spec r1 r) as [E|E]; [tauto|reflexivity].
    + destruct (N.eqb_spec r2 r) as [E|E]; [tauto|].
      destruct (N.eqb_spec r1 r) as [E'|E']; [tauto|reflexivity].
Qed.

Lemma undo_rows_frame : forall w m r, ~ In r (wrids w) -> aget (undo_rows m w) r = aget m r.
Proof.
  intros [r0 tp|r0 tp|r1 r2 old new] m r Hn; cbn [wrids In] in Hn; cbn [undo_rows].
  - rewrite aget_rput. destruct (N.eqb_spec r0 r) as [E|E]; [tauto|reflexivity].
  - rewrite aget_rput. destruct (N.eqb_spec r0 r) as [E|E]; [tauto|reflexivity].
  - destruct (N.eqb_spec r1 r2) as [E12|E12]; cbv zeta; rewrite ?aget_rput.
    + destruct (N.eqb_spec r1 r) as [E|E]; [tauto|reflexivity].
    + destruct (N.eqb_spec r1 r) as [E'|E']; [tauto|].
      destruct (N.eqb_spec r2 r) as [E|E]; [tauto|reflexivity].
Qed.

(** [undo_rows] only reads the rids of its record. *)
Lemma undo_rows_agree : forall w m m' (S : N -> Prop),
  (forall r, In r (wrids w) -> S r) ->
  (forall r, S r -> aget m r = aget m' r) ->
  forall r, S r -> aget (undo_rows m w) r = aget (undo_rows m' w) r.
Proof.
  intros [r0 tp|r0 tp|r1 r2 old new] m m' S HS HA r Hr; cbn [wrids In] in HS; cbn [undo_rows].
  - rewrite !aget_rput. rewrite (HA r Hr). reflexivity.
  - rewrite !aget_rput. rewrite (HA r0) by (apply HS; tauto). rewrite (HA r Hr). reflexivity.
  - destruct (N.eqb_spec r1 r2) as [E12|E12]; cbv zeta; rewrite !aget_rput.
    + rewrite (HA r1) by (apply HS; tauto). rewrite (HA r Hr). reflexivity.
    + rewrite (HA r1) by (apply HS; tauto). rewrite (HA r Hr). reflexivity.
Qed.

Lemma post_agree : forall w m m',
  (forall r, In r (wrids w) -> aget m r = aget m' r) -> post w m -> post w m'.
Proof.
  intros [r0 tp|r0 tp|r1 r2 old new] m m' HA; cbn [wrids In] in HA; cbn [post].
  - rewrite <- (HA r0) by tauto. tauto.
  - rewrite <- (HA r0) by tauto. tauto.
  - rewrite <- (HA r1) by tauto. rewrite <- (HA r2) by tauto. tauto.
Qed.

Lemma post_do : forall w m, pre w m -> post w (do_rows m w).
Proof.
  intros [r0 tp|r0 tp|r1 r2 old new] m Hp; cbn [pre] in Hp; cbn [post do_rows].
  - rewrite aget_rput, N.eqb_refl. reflexivity.
  - rewrite aget_rput, N.eqb_refl, Hp. reflexivity.
  - destruct Hp as [H1 H2]. destruct (N.eqb_spec r1 r2) as [E12|E12]; rewrite !aget_rput.
    + rewrite N.eqb_refl. reflexivity.
    + rewrite !N.eqb_refl. destruct (N.eqb_spec r2 r1) as [E|E]; [congruence|].
      rewrite H1. split; reflexivity.
Qed.

(** Undo after do gives the map back. *)
Lemma undo_do : forall w m, pre w m -> forall r, aget (undo_rows (do_rows m w) w) r = aget m r.
Proof.
  intros [r0 tp|r0 tp|r1 r2 old new] m Hp r; cbn [pre] in Hp; cbn [undo_rows do_rows].
  - rewrite !aget_rput. destruct (N.eqb_spec r0 r) as [E|E]; [subst; symmetry; exact Hp|reflexivity].
  - rewrite !aget_rput, N.eqb_refl, Hp. cbn [omark].
    destruct (N.eqb_spec r0 r) as [E|E]; [subst; symmetry; exact Hp|reflexivity].
  - destruct Hp as [H1 H2]. destruct (N.eqb_spec r1 r2) as [E12|E12]; cbv zeta; rewrite !aget_rput.
    + rewrite N.eqb_refl. cbn [oset].
      destruct (N.eqb_spec r1 r) as [E|E]; [subst; symmetry; exact H1|reflexivity].
    + rewrite ?N.eqb_refl. destruct (N.eqb_spec r2 r1) as [E|E]; [congruence|].
      rewrite ?N.eqb_refl, H1. cbn [omark].
      destruct (N.eqb_spec r1 r) as [E1|E1]; [subst; symmetry; exact H1|].
      destruct (N.eqb_spec r2 r) as [E2|E2]; [subst; symmetry; apply H2; exact E12|reflexivity].
Qed.

(** After undoing a record none of its rids is delete-marked any more, hence a
    rid that is still marked after the undo was not touched by the record. *)
Lemma undo_marked : forall w m r x, post w m ->
  aget (undo_rows m w) r = Some (x, true) ->
  aget m r = Some (x, true) /\ ~ In r (wrids w).
Proof.
  intros [r0 tp|r0 tp|r1 r2 old new] m r x Hp; cbn [post] in Hp; cbn [undo_rows wrids In].
  - rewrite aget_rput. destruct (N.eqb_spec r0 r) as [E|E]; [discriminate|].
    intros H. split; [exact H|tauto].
  - rewrite aget_rput. destruct (N.eqb_spec r0 r) as [E|E].
    + rewrite Hp. cbn [omark]. discriminate.
    + intros H. split; [exact H|tauto].
  - destruct (N.eqb_spec r1 r2) as [E12|E12]; cbv zeta; rewrite !aget_rput.
    + destruct (N.eqb_spec r1 r) as [E|E].
      * rewrite Hp. cbn [oset]. discriminate.
      * intros H. split; [exact H|]. subst r2. tauto.
    + destruct Hp as [H1 H2].
      destruct (N.eqb_spec r2 r1) as [E|E]; [congruence|].
      destruct (N.eqb_spec r1 r) as [E1|E1].
      * rewrite H1. cbn [omark]. discriminate.
      * destruct (N.eqb_spec r2 r) as [E2|E2]; [discriminate|].
        intros H. split; [exact H|tauto].
Qed.

(* ------------------------------------------------------------------ *)
(** * 3. History consistency of a write set *)

(** [GoodR rws m]: [rws] is a write set read BACKWARDS (newest first); the map
    shows the after-image of the newest record, and after undoing it the map is
    consistent with the rest. *)
Fixpoint GoodR (rws : list wrec) (m : list (N * (row * bool))) : Prop :=
  match rws with
  | [] => True
  | w :: rest => post w m /\ GoodR rest (undo_rows m w)
  end.

Lemma GoodR_agree : forall rws m m',
  (forall r, In r (rids_of rws) -> aget m r = aget m' r) ->
  GoodR rws m -> GoodR rws m'.
Proof.
  induction rws as [|w rest IH]; intros m m' HA HG; cbn [GoodR] in *.
  - exact I.
  - destruct HG as [Hp HG]. split.
    + apply (post_agree w m m'); [|exact Hp].
      intros r Hr. apply HA. cbn [rids_of flat_map]. apply in_or_app. left. exact Hr.
    + apply (IH (undo_rows m w) (undo_rows m' w)); [|exact HG].
      intros r Hr.
      apply (undo_rows_agree w m m' (fun r => In r (rids_of (w :: rest)))).
      * intros r' Hr'. cbn [rids_of flat_map]. apply in_or_app. left. exact Hr'.
      * exact HA.
      * cbn [rids_of flat_map]. apply in_or_app. right. exact Hr.
Qed.

(** A rid deleted / moved away by a record of the write set is still
    delete-marked, with the row the record remembers. *)
Lemma GoodR_del_marked : forall rws m r tp,
  GoodR rws m -> In (WDel r tp) rws -> aget m r = Some (tp, true).
Proof.
  induction rws as [|w rest IH]; intros m r tp HG HI; cbn [GoodR] in HG.
  - destruct HI.
  - destruct HG as [Hp HG]. destruct HI as [HI|HI].
    + subst w. exact Hp.
    + pose proof (IH _ _ _ HG HI) as H. apply (undo_marked w m r tp Hp) in H. tauto.
Qed.

Lemma GoodR_mov_marked : forall rws m r r2 old new,
  GoodR rws m -> In (WUpd r r2 old new) rws -> r <> r2 -> aget m r = Some (old, true).
Proof.
  induction rws as [|w rest IH]; intros m r r2 old new HG HI Hne; cbn [GoodR] in HG.
  - destruct HI.
  - destruct HG as [Hp HG]. destruct HI as [HI|HI].
    + subst w. cbn [post] in Hp. destruct (N.eqb_spec r r2) as [E|E]; [contradiction|tauto].
    + pose proof (IH _ _ _ _ _ HG HI Hne) as H. apply (undo_marked w m r old Hp) in H. tauto.
Qed.

(* ------------------------------------------------------------------ *)
(** * 4. The global invariant *)

(** Write sets as a function of the transaction id. *)
Definition wsf := N -> list wrec.

Definition wupd (W : wsf) (t : N) (v : list wrec) : wsf :=
  fun t' => if t =? t' then v else W t'.

(** [r] is the old location of a pending relocating update. *)
Definition MovedW (W : wsf) (r : N) : Prop :=
  exists t r2 old new, In (WUpd r r2 old new) (W t) /\ r <> r2.

(** Entries a present row contributes to the index on column [c]. *)
Definition base (m : list (N * (row * bool))) (c : nat) (k : value) (r : N) : nat :=
  match aget m r with
  | Some (tp, _) => ind (veqb (ecol c tp) k)
  | None => 0%nat
  end.

(** C07 invariant: every index holds exactly one entry (column value, rid) for
    every row of the heap - delete-marked rows included, their entries go at
    commit - except for the old location of a pending relocating update, whose
    entry was already moved to the new location. *)
Definition IdxInvW (m : list (N * (row * bool))) (ix : list (nat * list ientry)) (W : wsf) : Prop :=
  forall c es, In (c, es) ix -> forall k r,
    (MovedW W r -> cnt (k, r) es = 0%nat) /\
    (~ MovedW W r -> cnt (k, r) es = base m c k r).

Definition GI (m : list (N * (row * bool))) (ix : list (nat * list ientry)) (W : wsf) (l : lstate) : Prop :=
  LInv l /\
  (forall t r, In r (rids_of (W t)) -> aget (ex l) r = Some t) /\
  (forall t, GoodR (rev (W t)) m) /\
  IdxInvW m ix W.

Definition GInv (s : estate) : Prop :=
  GI (rows s) (idx s) (agetl (wsets s)) (lk s).

Lemma MovedW_ext : forall W W' r, (forall t, W t = W' t) -> MovedW W r -> MovedW W' r.
Proof.
  intros W W' r HE [t [r2 [old [new [H1 H2]]]]]. exists t, r2, old, new.
  rewrite <- HE. split; assumption.
Qed.

Lemma GI_ext : forall m ix W W' l, (forall t, W t = W' t) -> GI m ix W l -> GI m ix W' l.
Proof.
  intros m ix W W' l HE [H1 [H2 [H3 H4]]]. split; [exact H1|]. split; [|split].
  - intros t r Hr. rewrite <- HE in Hr. apply H2. exact Hr.
  - intros t. rewrite <- HE. apply H3.
  - intros c es Hin k r. destruct (H4 c es Hin k r) as [Ha Hb]. split.
    + intros HM. apply Ha. apply (MovedW_ext W' W); [|exact HM]. intros t. symmetry. apply HE.
    + intros HM. apply Hb. intros HM'. apply HM. apply (MovedW_ext W W'); assumption.
Qed.

Lemma wupd_same : forall W t v, wupd W t v t = v.
Proof. intros W t v. unfold wupd. rewrite N.eqb_refl. reflexivity. Qed.

Lemma wupd_other : forall W t v t', t <> t' -> wupd W t v t' = W t'.
Proof.
  intros W t v t' Hne. unfold wupd. destruct (N.eqb_spec t t') as [E|E]; [contradiction|reflexivity].
Qed.

(** A moved-away rid is delete-marked in the heap. *)
Lemma Moved_marked : forall m W r, (forall t, GoodR (rev (W t)) m) -> MovedW W r ->
  exists x, aget m r = Some (x, true).
Proof.
  intros m W r HG [t [r2 [old [new [H1 H2]]]]]. exists old.
  apply (GoodR_mov_marked (rev (W t)) m r r2 old new); [apply HG| |exact H2].
  apply in_rev in H1. exact H1.
Qed.

Lemma not_moved_unmarked : forall m W r x, (forall t, GoodR (rev (W t)) m) ->
  aget m r = Some (x, false) -> ~ MovedW W r.
Proof.
  intros m W r x HG Hr HM. destruct (Moved_marked m W r HG HM) as [y Hy]. congruence.
Qed.

Lemma not_moved_absent : forall m W r, (forall t, GoodR (rev (W t)) m) ->
  aget m r = None -> ~ MovedW W r.
Proof.
  intros m W r HG Hr HM. destruct (Moved_marked m W r HG HM) as [y Hy]. congruence.
Qed.

(** Two transactions cannot both have [r] in their write sets. *)
Lemma owner_unique : forall (W : wsf) l t t' r,
  (forall t r, In r (rids_of (W t)) -> aget (ex l) r = Some t) ->
  In r (rids_of (W t)) -> In r (rids_of (W t')) -> t = t'.
Proof.
  intros W l t t' r H2 Ha Hb. apply H2 in Ha. apply H2 in Hb. congruence.
Qed.

(* ------------------------------------------------------------------ *)
(** ** Index maintenance seen per entry list *)

Lemma In_imap : forall f ix c es',
  In (c, es') (imap f ix) -> exists es, In (c, es) ix /\ es' = f c es.
Proof.
  intros f ix c es' H. unfold imap in H. apply in_map_iff in H.
  destruct H as [[c0 es0] [E HI]]. cbn [fst snd] in E. inversion E. subst.
  exists es0. split; [exact HI|reflexivity].
Qed.

Lemma imap_fst : forall f ix, map fst (imap f ix) = map fst ix.
Proof.
  intros f ix. unfold imap. rewrite map_map. apply map_ext. intros a. reflexivity.
Qed.

Definition mv_f (c : nat) (old : row) (r1 : N) (new : row) (r2 : N) (es : list ientry) :=
  if negb (veqb (ecol c old) (ecol c new)) || negb (r1 =? r2)
  then rem1e (ecol c old, r1) es ++ [(ecol c new, r2)] else es.

Definition do_f (w : wrec) (c : nat) (es : list ientry) : list ientry :=
  match w with
  | WIns r tp => es ++ [(ecol c tp, r)]
  | WDel _ _ => es
  | WUpd r1 r2 old new => mv_f c old r1 new r2 es
  end.

Definition undo_f (w : wrec) (c : nat) (es : list ientry) : list ientry :=
  match w with
  | WIns r tp => rem1e (ecol c tp, r) es
  | WDel _ _ => es
  | WUpd r1 r2 old new => mv_f c new r2 old r1 es
  end.

Definition commit_f (w : wrec) (c : nat) (es : list ientry) : list ientry :=
  match w with
  | WDel r tp => rem1e (ecol c tp, r) es
  | _ => es
  end.

Lemma In_do_idx : forall w ix c es',
  In (c, es') (do_idx ix w) -> exists es, In (c, es) ix /\ es' = do_f w c es.
Proof.
  intros [r0 tp|r0 tp|r1 r2 old new] ix c es' H; cbn [do_idx] in H.
  - apply In_imap in H. exact H.
  - exists es'. split; [exact H|reflexivity].
  - apply In_imap in H. exact H.
Qed.

Lemma In_undo_idx : forall w ix c es',
  In (c, es') (undo_idx ix w) -> exists es, In (c, es) ix /\ es' = undo_f w c es.
Proof.
  intros [r0 tp|r0 tp|r1 r2 old new] ix c es' H; cbn [undo_idx] in H.
  - apply In_imap in H. exact H.
  - exists es'. split; [exact H|reflexivity].
  - apply In_imap in H. exact H.
Qed.

Lemma In_commit_idx : forall w ix c es',
  In (c, es') (commit_idx ix w) -> exists es, In (c, es) ix /\ es' = commit_f w c es.
Proof.
  intros [r0 tp|r0 tp|r1 r2 old new] ix c es' H; cbn [commit_idx] in H.
  - exists es'. split; [exact H|reflexivity].
  - apply In_imap in H. exact H.
  - exists es'. split; [exact H|reflexivity].
Qed.

Lemma cnt_mv_f : forall c old r1 new r2 es k r,
  cnt (k, r) (mv_f c old r1 new r2 es) =
  if negb (veqb (ecol c old) (ecol c new)) || negb (r1 =? r2)
  then (cnt (k, r) es - ind (veqb (ecol c old) k && (r1 =? r)%N)
        + ind (veqb (ecol c new) k && (r2 =? r)%N))%nat
  else cnt (k, r) es.
Proof.
  intros c old r1 new r2 es k r. unfold mv_f.
  destruct (negb (veqb (ecol c old) (ecol c new)) || negb (r1 =? r2)).
  - rewrite cnt_add, cnt_rem, !eeqb_pair. reflexivity.
  - reflexivity.
Qed.

(* ------------------------------------------------------------------ *)
(** ** Moved-away rids when a write set grows / shrinks *)

Definition is_move_from (w : wrec) (r : N) : Prop :=
  exists r2 old new, w = WUpd r r2 old new /\ r <> r2.

Lemma Moved_push_inv : forall W t w r,
  MovedW (wupd W t (W t ++ [w])) r -> MovedW W r \/ is_move_from w r.
Proof.
  intros W t w r [t' [r2 [old [new [H1 H2]]]]].
  destruct (N.eqb_spec t t') as [E|E].
  - subst t'. rewrite wupd_same in H1. apply in_app_or in H1. destruct H1 as [H1|H1].
    + left. exists t, r2, old, new. split; assumption.
    + right. destruct H1 as [H1|[]]. exists r2, old, new. split; [exact H1|exact H2].
  - rewrite wupd_other in H1 by exact E. left. exists t', r2, old, new. split; assumption.
Qed.

Lemma Moved_push_old : forall W t w r,
  MovedW W r -> MovedW (wupd W t (W t ++ [w])) r.
Proof.
  intros W t w r [t' [r2 [old [new [H1 H2]]]]]. exists t', r2, old, new. split; [|exact H2].
  destruct (N.eqb_spec t t') as [E|E].
  - subst t'. rewrite wupd_same. apply in_or_app. left. exact H1.
  - rewrite wupd_other by exact E. exact H1.
Qed.

Lemma Moved_push_new : forall W t r r2 old new, r <> r2 ->
  MovedW (wupd W t (W t ++ [WUpd r r2 old new])) r.
Proof.
  intros W t r r2 old new Hne. exists t, r2, old, new. split; [|exact Hne].
  rewrite wupd_same. apply in_or_app. right. left. reflexivity.
Qed.

(** Dropping the newest record [w] of [t]. *)
Lemma Moved_pop_sub : forall W t p w r, W t = p ++ [w] ->
  MovedW (wupd W t p) r -> MovedW W r.
Proof.
  intros W t p w r HW [t' [r2 [old [new [H1 H2]]]]]. exists t', r2, old, new. split; [|exact H2].
  destruct (N.eqb_spec t t') as [E|E].
  - subst t'. rewrite wupd_same in H1. rewrite HW. apply in_or_app. left. exact H1.
  - rewrite wupd_other in H1 by exact E. exact H1.
Qed.

Lemma Moved_pop_inv : forall W t p w r, W t = p ++ [w] ->
  MovedW W r -> MovedW (wupd W t p) r \/ is_move_from w r.
Proof.
  intros W t p w r HW [t' [r2 [old [new [H1 H2]]]]].
  destruct (N.eqb_spec t t') as [E|E].
  - subst t'. rewrite HW in H1. apply in_app_or in H1. destruct H1 as [H1|H1].
    + left. exists t, r2, old, new. split; [rewrite wupd_same; exact H1|exact H2].
    + right. destruct H1 as [H1|[]]. exists r2, old, new. split; [exact H1|exact H2].
  - left. exists t', r2, old, new. split; [rewrite wupd_other by exact E; exact H1|exact H2].
Qed.

Lemma base_eq : forall m m' c k r, aget m' r = aget m r -> base m' c k r = base m c k r.
Proof. intros m m' c k r H. unfold base. rewrite H. reflexivity. Qed.

Lemma base_mark : forall m m' c k r b, aget m' r = omark b (aget m r) -> base m' c k r = base m c k r.
Proof.
  intros m m' c k r b H. unfold base. rewrite H.
  destruct (aget m r) as [[tp mk]|]; reflexivity.
Qed.

(* ------------------------------------------------------------------ *)
(** ** A successful data operation preserves the invariant *)

Lemma GI_exec : forall m ix W l l' t w,
  GI m ix W l -> LInv l' ->
  (forall r u, aget (ex l) r = Some u -> aget (ex l') r = Some u) ->
  (forall r, In r (wrids w) -> aget (ex l') r = Some t) ->
  pre w m ->
  GI (do_rows m w) (do_idx ix w) (wupd W t (W t ++ [w])) l'.
Proof.
  intros m ix W l l' t w [H1 [H2 [H3 H4]]] HL Hmono Hx Hpre.
  assert (H2' : forall t' r, In r (rids_of (wupd W t (W t ++ [w]) t')) -> aget (ex l') r = Some t').
  { intros t' r Hr. destruct (N.eqb_spec t t') as [E|E].
    - subst t'. rewrite wupd_same, rids_of_app in Hr. apply in_app_or in Hr.
      destruct Hr as [Hr|Hr].
      + apply Hmono. apply H2. exact Hr.
      + apply Hx. cbn [rids_of flat_map] in Hr. rewrite app_nil_r in Hr. exact Hr.
    - rewrite wupd_other in Hr by exact E. apply Hmono. apply H2. exact Hr. }
  split; [exact HL|]. split; [exact H2'|]. split.
  - (* history *)
    intros t'. destruct (N.eqb_spec t t') as [E|E].
    + subst t'. rewrite wupd_same, rev_app_distr. cbn [rev app GoodR]. split.
      * apply post_do. exact Hpre.
      * apply (GoodR_agree (rev (W t)) m); [|apply H3].
        intros r _. symmetry. apply undo_do. exact Hpre.
    + rewrite wupd_other by exact E.
      apply (GoodR_agree (rev (W t')) m); [|apply H3].
      intros r Hr. symmetry. apply do_rows_frame. intros Hin.
      apply (proj1 (rids_of_rev _ _)) in Hr. apply H2 in Hr. apply Hmono in Hr.
      apply Hx in Hin. congruence.
  - (* indexes *)
    intros c es' Hin k r. apply In_do_idx in Hin. destruct Hin as [es [Hes ->]].
    destruct (H4 c es Hes k r) as [Ha Hb].
    destruct w as [r0 tp|r0 tp|r1 r2 old new]; cbn [pre] in Hpre; cbn [do_f].
    + (* insert *)
      rewrite cnt_add, eeqb_pair.
      destruct (N.eqb_spec r0 r) as [E|E].
      * subst r0. rewrite andb_true_r.
        assert (HnM : ~ MovedW W r) by (apply (not_moved_absent m W r H3 Hpre)).
        specialize (Hb HnM). unfold base in Hb. rewrite Hpre in Hb.
        split.
        -- intros HM. apply Moved_push_inv in HM. destruct HM as [HM|[r2 [o [n [HM _]]]]];
             [contradiction|discriminate].
        -- intros _. unfold base. cbn [do_rows]. rewrite aget_rput, N.eqb_refl. lia.
      * rewrite andb_false_r. cbn [ind]. rewrite Nat.add_0_r.
        rewrite (base_eq m (do_rows m (WIns r0 tp))) by (apply do_rows_frame; cbn [wrids In]; tauto).
        split.
        -- intros HM. apply Moved_push_inv in HM. destruct HM as [HM|[r2 [o [n [HM _]]]]];
             [apply Ha; exact HM|discriminate].
        -- intros HM. apply Hb. intros HM'. apply HM. apply Moved_push_old. exact HM'.
    + (* delete: only the mark *)
      assert (Hbase : base (do_rows m (WDel r0 tp)) c k r = base m c k r).
      { cbn [do_rows]. destruct (N.eqb_spec r0 r) as [E|E].
        - subst r0. apply (base_mark _ _ _ _ _ true). rewrite aget_rput, N.eqb_refl. reflexivity.
        - apply base_eq. rewrite aget_rput.
          destruct (N.eqb_spec r0 r) as [E'|E']; [contradiction|reflexivity]. }
      rewrite Hbase. split.
      * intros HM. apply Moved_push_inv in HM. destruct HM as [HM|[r2 [o [n [HM _]]]]];
          [apply Ha; exact HM|discriminate].
      * intros HM. apply Hb. intros HM'. apply HM. apply Moved_push_old. exact HM'.
    + (* update *)
      destruct Hpre as [Hp1 Hp2]. rewrite cnt_mv_f.
      assert (HnM1 : ~ MovedW W r1) by (apply (not_moved_unmarked m W r1 old H3 Hp1)).
      destruct (N.eqb_spec r1 r2) as [E12|E12].
      * (* in place *)
        subst r2. cbn [negb]. rewrite orb_false_r.
        assert (HMeq : MovedW (wupd W t (W t ++ [WUpd r1 r1 old new])) r -> MovedW W r).
        { intros HM. apply Moved_push_inv in HM. destruct HM as [HM|[r2 [o [n [HM Hne]]]]];
            [exact HM|]. inversion HM. subst. contradiction. }
        destruct (N.eqb_spec r1 r) as [E|E].
        -- subst r1. rewrite !andb_true_r.
           specialize (Hb HnM1). unfold base in Hb. rewrite Hp1 in Hb.
           split; [intros HM; apply HMeq in HM; contradiction|]. intros _.
           unfold base. cbn [do_rows]. rewrite N.eqb_refl, aget_rput, N.eqb_refl.
           destruct (veqb (ecol c old) (ecol c new)) eqn:Eon; cbn [negb].
           ++ apply veqb_spec in Eon. rewrite <- Eon. exact Hb.
           ++ rewrite Hb. destruct (veqb (ecol c old) k); cbn [ind]; lia.
        -- rewrite !andb_false_r. cbn [ind].
           assert (Hcnt : (if negb (veqb (ecol c old) (ecol c new))
                           then (cnt (k, r) es - 0 + 0)%nat else cnt (k, r) es) = cnt (k, r) es).
           { destruct (negb (veqb (ecol c old) (ecol c new))); lia. }
           rewrite Hcnt.
           rewrite (base_eq m (do_rows m (WUpd r1 r1 old new))) by (apply do_rows_frame; cbn [wrids In]; tauto).
           split.
           ++ intros HM. apply Ha. apply HMeq. exact HM.
           ++ intros HM. apply Hb. intros HM'. apply HM. apply Moved_push_old. exact HM'.
      * (* relocation *)
        specialize (Hp2 E12).
        cbn [negb]. rewrite orb_true_r.
        destruct (N.eqb_spec r1 r) as [E1|E1].
        -- subst r1. destruct (N.eqb_spec r2 r) as [E2|E2]; [congruence|].
           rewrite andb_true_r, andb_false_r. cbn [ind].
           specialize (Hb HnM1). unfold base in Hb. rewrite Hp1 in Hb.
           split; [intros _; lia|].
           intros HM. exfalso. apply HM. apply Moved_push_new. exact E12.
        -- rewrite andb_false_r. cbn [ind].
           destruct (N.eqb_spec r2 r) as [E2|E2].
           ++ subst r2. rewrite andb_true_r.
              assert (HnM2 : ~ MovedW W r) by (apply (not_moved_absent m W r H3 Hp2)).
              specialize (Hb HnM2). unfold base in Hb. rewrite Hp2 in Hb.
              split.
              ** intros HM. apply Moved_push_inv in HM. destruct HM as [HM|[r2 [o [n [HM Hne]]]]];
                   [contradiction|]. inversion HM. subst. contradiction.
              ** intros _. unfold base. cbn [do_rows].
                 destruct (N.eqb_spec r1 r) as [E'|E']; [contradiction|].
                 rewrite aget_rput, N.eqb_refl. lia.
           ++ rewrite andb_false_r. cbn [ind].
              rewrite (base_eq m (do_rows m (WUpd r1 r2 old new))) by (apply do_rows_frame; cbn [wrids In]; tauto).
              split.
              ** intros HM. apply Moved_push_inv in HM. destruct HM as [HM|[r2' [o [n [HM Hne]]]]].
                 --- rewrite (Ha HM). lia.
                 --- inversion HM. subst. contradiction.
              ** intros HM. rewrite Hb; [lia|]. intros HM'. apply HM. apply Moved_push_old. exact HM'.
Qed.

(* ------------------------------------------------------------------ *)
(** ** Abort: undoing the newest record preserves the invariant *)

Lemma GI_abort_step : forall m ix W l t p w,
  GI m ix W l -> W t = p ++ [w] ->
  GI (undo_rows m w) (undo_idx ix w) (wupd W t p) l.
Proof.
  intros m ix W l t p w [H1 [H2 [H3 H4]]] HW.
  pose proof (H3 t) as HGt. rewrite HW, rev_app_distr in HGt. cbn [rev app GoodR] in HGt.
  destruct HGt as [Hpost HGp].
  assert (Hown : forall r, In r (wrids w) -> aget (ex l) r = Some t).
  { intros r Hr. apply H2. rewrite HW, rids_of_app. apply in_or_app. right.
    cbn [rids_of flat_map]. rewrite app_nil_r. exact Hr. }
  assert (HMsub : forall r, MovedW (wupd W t p) r -> MovedW W r).
  { intros r. apply (Moved_pop_sub W t p w r HW). }
  assert (HMinv : forall r, ~ is_move_from w r -> MovedW W r -> MovedW (wupd W t p) r).
  { intros r Hn HM. destruct (Moved_pop_inv W t p w r HW HM) as [H|H]; [exact H|contradiction]. }
  split; [exact H1|]. split; [|split].
  - intros t' r Hr. destruct (N.eqb_spec t t') as [E|E].
    + subst t'. rewrite wupd_same in Hr. apply H2. rewrite HW, rids_of_app.
      apply in_or_app. left. exact Hr.
    + rewrite wupd_other in Hr by exact E. apply H2. exact Hr.
  - intros t'. destruct (N.eqb_spec t t') as [E|E].
    + subst t'. rewrite wupd_same. exact HGp.
    + rewrite wupd_other by exact E.
      apply (GoodR_agree (rev (W t')) m); [|apply H3].
      intros r Hr. symmetry. apply undo_rows_frame. intros Hin.
      apply (proj1 (rids_of_rev _ _)) in Hr. apply H2 in Hr. apply Hown in Hin. congruence.
  - intros c es' Hin k r. apply In_undo_idx in Hin. destruct Hin as [es [Hes ->]].
    destruct (H4 c es Hes k r) as [Ha Hb].
    destruct w as [r0 tp|r0 tp|r1 r2 old new]; cbn [post] in Hpost; cbn [undo_f].
    + (* undo insert *)
      rewrite cnt_rem, eeqb_pair.
      destruct (N.eqb_spec r0 r) as [E|E].
      * subst r0. rewrite andb_true_r.
        assert (HnM : ~ MovedW W r) by (apply (not_moved_unmarked m W r tp H3 Hpost)).
        specialize (Hb HnM). unfold base in Hb. rewrite Hpost in Hb.
        split; [intros _; lia|]. intros _. unfold base. cbn [undo_rows].
        rewrite aget_rput, N.eqb_refl. lia.
      * rewrite andb_false_r. cbn [ind]. rewrite Nat.sub_0_r.
        rewrite (base_eq m (undo_rows m (WIns r0 tp))) by (apply undo_rows_frame; cbn [wrids In]; tauto).
        split.
        -- intros HM. apply Ha. apply HMsub. exact HM.
        -- intros HM. apply Hb. intros HM'. apply HM. apply HMinv; [|exact HM'].
           intros [r2 [o [n [Hw _]]]]. discriminate.
    + (* undo delete *)
      assert (Hbase : base (undo_rows m (WDel r0 tp)) c k r = base m c k r).
      { cbn [undo_rows]. destruct (N.eqb_spec r0 r) as [E|E].
        - subst r0. apply (base_mark _ _ _ _ _ false). rewrite aget_rput, N.eqb_refl. reflexivity.
        - apply base_eq. rewrite aget_rput.
          destruct (N.eqb_spec r0 r) as [E'|E']; [contradiction|reflexivity]. }
      rewrite Hbase. split.
      * intros HM. apply Ha. apply HMsub. exact HM.
      * intros HM. apply Hb. intros HM'. apply HM. apply HMinv; [|exact HM'].
        intros [r2 [o [n [Hw _]]]]. discriminate.
    + (* undo update *)
      rewrite cnt_mv_f.
      destruct (N.eqb_spec r1 r2) as [E12|E12].
      * (* in place *)
        subst r2. rewrite N.eqb_refl. cbn [negb]. rewrite orb_false_r.
        assert (HnMv : ~ is_move_from (WUpd r1 r1 old new) r).
        { intros [r2 [o [n [Hw Hne]]]]. inversion Hw. subst. contradiction. }
        destruct (N.eqb_spec r1 r) as [E|E].
        -- subst r1. rewrite !andb_true_r.
           assert (HnM : ~ MovedW W r) by (apply (not_moved_unmarked m W r new H3 Hpost)).
           specialize (Hb HnM). unfold base in Hb. rewrite Hpost in Hb.
           split; [intros HM; apply HMsub in HM; contradiction|]. intros _.
           unfold base. cbn [undo_rows]. rewrite N.eqb_refl, aget_rput, N.eqb_refl, Hpost.
           cbn [oset].
           destruct (veqb (ecol c new) (ecol c old)) eqn:Eon; cbn [negb].
           ++ apply veqb_spec in Eon. rewrite <- Eon. exact Hb.
           ++ rewrite Hb. destruct (veqb (ecol c new) k); cbn [ind]; lia.
        -- rewrite !andb_false_r. cbn [ind].
           assert (Hcnt : (if negb (veqb (ecol c new) (ecol c old))
                           then (cnt (k, r) es - 0 + 0)%nat else cnt (k, r) es) = cnt (k, r) es).
           { destruct (negb (veqb (ecol c new) (ecol c old))); lia. }
           rewrite Hcnt.
           rewrite (base_eq m (undo_rows m (WUpd r1 r1 old new))) by (apply undo_rows_frame; cbn [wrids In]; tauto).
           split.
           ++ intros HM. apply Ha. apply HMsub. exact HM.
           ++ intros HM. apply Hb. intros HM'. apply HM. apply HMinv; assumption.
      * (* relocation *)
        destruct Hpost as [Hp1 Hp2].
        destruct (N.eqb_spec r2 r1) as [E21|E21]; [congruence|].
        cbn [negb]. rewrite orb_true_r.
        assert (Hu1 : aget (undo_rows m (WUpd r1 r2 old new)) r1 = Some (old, false)).
        { cbn [undo_rows]. destruct (N.eqb_spec r1 r2) as [E'|E']; [contradiction|].
          cbv zeta. rewrite !aget_rput, N.eqb_refl.
          destruct (N.eqb_spec r2 r1) as [E''|E'']; [contradiction|]. rewrite Hp1. reflexivity. }
        assert (Hu2 : aget (undo_rows m (WUpd r1 r2 old new)) r2 = None).
        { cbn [undo_rows]. destruct (N.eqb_spec r1 r2) as [E'|E']; [contradiction|].
          cbv zeta. rewrite !aget_rput, N.eqb_refl.
          destruct (N.eqb_spec r1 r2) as [E''|E'']; [contradiction|]. reflexivity. }
        destruct (N.eqb_spec r1 r) as [E1|E1].
        -- subst r1. destruct (N.eqb_spec r2 r) as [E2|E2]; [contradiction|].
           rewrite andb_true_r, andb_false_r. cbn [ind].
           assert (HM : MovedW W r).
           { exists t, r2, old, new. split; [|exact E12]. rewrite HW. apply in_or_app.
             right. left. reflexivity. }
           rewrite (Ha HM).
           split.
           ++ intros [t' [r2' [o [n [Hi Hne]]]]]. exfalso.
              destruct (N.eqb_spec t t') as [E|E].
              ** subst t'. rewrite wupd_same in Hi.
                 pose proof (GoodR_mov_marked (rev p) _ r r2' o n HGp) as Hmk.
                 rewrite Hu1 in Hmk. apply in_rev in Hi. specialize (Hmk Hi Hne). discriminate.
              ** rewrite wupd_other in Hi by exact E.
                 assert (Hr : In r (rids_of (W t'))).
                 { apply (rids_of_In _ (WUpd r r2' o n)); [exact Hi|cbn [wrids In]; tauto]. }
                 apply H2 in Hr. rewrite (Hown r) in Hr by (cbn [wrids In]; tauto). congruence.
           ++ intros _. unfold base. rewrite Hu1. lia.
        -- rewrite (andb_false_r (veqb (ecol c old) k)). cbn [ind].
           destruct (N.eqb_spec r2 r) as [E2|E2].
           ++ subst r2. rewrite andb_true_r.
              assert (HnM : ~ MovedW W r) by (apply (not_moved_unmarked m W r new H3 Hp2)).
              specialize (Hb HnM). unfold base in Hb. rewrite Hp2 in Hb.
              split; [intros _; lia|]. intros _. unfold base. rewrite Hu2. lia.
           ++ rewrite andb_false_r. cbn [ind].
              rewrite (base_eq m (undo_rows m (WUpd r1 r2 old new))) by (apply undo_rows_frame; cbn [wrids In]; tauto).
              split.
              ** intros HM. rewrite (Ha (HMsub _ HM)). lia.
              ** intros HM. rewrite Hb; [lia|]. intros HM'. apply HM. apply HMinv; [|exact HM'].
                 intros [r2' [o [n [Hw Hne]]]]. inversion Hw. subst. contradiction.
Qed.

Lemma GI_abort_all : forall p m ix W l t,
  GI m ix W l -> W t = p ->
  GI (fold_left undo_rows (rev p) m) (fold_left undo_idx (rev p) ix) (wupd W t []) l.
Proof.
  induction p as [|w p IH] using rev_ind; intros m ix W l t HG HW.
  - cbn [rev fold_left]. apply (GI_ext m ix W); [|exact HG].
    intros t'. unfold wupd. destruct (N.eqb_spec t t') as [E|E]; [subst; exact HW|reflexivity].
  - rewrite rev_app_distr. cbn [rev app fold_left].
    pose proof (GI_abort_step m ix W l t p w HG HW) as HG'.
    pose proof (IH _ _ _ l t HG' (wupd_same W t p)) as HG''.
    apply (GI_ext _ _ (wupd (wupd W t p) t [])); [|exact HG''].
    intros t'. unfold wupd. destruct (N.eqb_spec t t') as [E|E]; reflexivity.
Qed.

(** Releasing the locks of a transaction whose write set is empty. *)
Lemma GI_unlock : forall m ix W l t,
  GI m ix W l -> W t = [] -> GI m ix W (unlock_all l t).
Proof.
  intros m ix W l t [H1 [H2 [H3 H4]]] HW. split; [apply LInv_unlock_all; exact H1|].
  split; [|split; [exact H3|exact H4]].
  intros t' r Hr. assert (Hne : t' <> t).
  { intros E. subst t'. rewrite HW in Hr. destruct Hr. }
  apply H2 in Hr. rewrite unlock_all_eq. cbn [ex]. apply ut_ex_keep; assumption.
Qed.

(** Acquiring locks. *)
Lemma GI_lock : forall m ix W l l',
  GI m ix W l -> LInv l' ->
  (forall r u, aget (ex l) r = Some u -> aget (ex l') r = Some u) ->
  GI m ix W l'.
Proof.
  intros m ix W l l' [H1 [H2 [H3 H4]]] HL Hmono. split; [exact HL|].
  split; [|split; [exact H3|exact H4]].
  intros t r Hr. apply Hmono. apply H2. exact Hr.
Qed.

(* ------------------------------------------------------------------ *)
(** ** Commit *)

Definition applied (w : wrec) : list N :=
  match w with
  | WDel r _ => [r]
  | WIns _ _ => []
  | WUpd r1 r2 _ _ => if r1 =? r2 then [] else [r1]
  end.

Lemma applied_wrids : forall w r, In r (applied w) -> In r (wrids w).
Proof.
  intros [r0 tp|r0 tp|r1 r2 old new] r H; cbn [applied wrids] in *.
  - destruct H.
  - exact H.
  - destruct (r1 =? r2); [destruct H|]. destruct H as [H|[]]. left. exact H.
Qed.

Lemma commit_rows_frame : forall w m r, ~ In r (applied w) -> aget (commit_rows m w) r = aget m r.
Proof.
  intros [r0 tp|r0 tp|r1 r2 old new] m r Hn; cbn [applied] in Hn; cbn [commit_rows].
  - reflexivity.
  - rewrite aget_rput. destruct (N.eqb_spec r0 r) as [E|E]; [|reflexivity].
    exfalso. apply Hn. left. exact E.
  - destruct (r1 =? r2); [reflexivity|]. rewrite aget_rput.
    destruct (N.eqb_spec r1 r) as [E|E]; [|reflexivity]. exfalso. apply Hn. left. exact E.
Qed.

Lemma commit_rows_hit : forall w m r, In r (applied w) -> aget (commit_rows m w) r = None.
Proof.
  intros [r0 tp|r0 tp|r1 r2 old new] m r Hi; cbn [applied] in Hi; cbn [commit_rows].
  - destruct Hi.
  - destruct Hi as [Hi|[]]. subst r0. rewrite aget_rput, N.eqb_refl. reflexivity.
  - destruct (r1 =? r2); [destruct Hi|]. destruct Hi as [Hi|[]]. subst r1.
    rewrite aget_rput, N.eqb_refl. reflexivity.
Qed.

Lemma commit_fold_notin : forall l m r, ~ In r (flat_map applied l) ->
  aget (fold_left commit_rows l m) r = aget m r.
Proof.
  induction l as [|w l IH]; intros m r Hn; cbn [fold_left flat_map] in *.
  - reflexivity.
  - rewrite IH by (intros H; apply Hn; apply in_or_app; right; exact H).
    apply commit_rows_frame. intros H. apply Hn. apply in_or_app. left. exact H.
Qed.

Lemma commit_fold_in : forall l m r, In r (flat_map applied l) ->
  aget (fold_left commit_rows l m) r = None.
Proof.
  induction l as [|w l IH]; intros m r Hi; cbn [fold_left flat_map] in *.
  - destruct Hi.
  - destruct (in_dec N.eq_dec r (flat_map applied l)) as [Hl|Hl].
    + apply IH. exact Hl.
    + rewrite commit_fold_notin by exact Hl. apply commit_rows_hit.
      apply in_app_or in Hi. destruct Hi as [Hi|Hi]; [exact Hi|contradiction].
Qed.

Lemma In_commit_fold : forall l ix c es',
  In (c, es') (fold_left commit_idx l ix) ->
  exists es, In (c, es) ix /\ es' = fold_left (fun es w => commit_f w c es) l es.
Proof.
  induction l as [|w l IH]; intros ix c es' H; cbn [fold_left] in *.
  - exists es'. split; [exact H|reflexivity].
  - apply IH in H. destruct H as [es1 [H1 ->]]. apply In_commit_idx in H1.
    destruct H1 as [es [H1 ->]]. exists es. split; [exact H1|reflexivity].
Qed.

Fixpoint ndel (c : nat) (k : value) (r : N) (l : list wrec) : nat :=
  match l with
  | [] => 0%nat
  | w :: l' =>
      (match w with
       | WDel r0 tp => ind (veqb (ecol c tp) k && (r0 =? r)%N)
       | _ => 0%nat
       end + ndel c k r l')%nat
  end.

Lemma cnt_commit_fold : forall c k r l es,
  cnt (k, r) (fold_left (fun es w => commit_f w c es) l es) = (cnt (k, r) es - ndel c k r l)%nat.
Proof.
  intros c k r. induction l as [|w l IH]; intros es; cbn [fold_left ndel].
  - lia.
  - rewrite IH. destruct w as [r0 tp|r0 tp|r1 r2 old new]; cbn [commit_f].
    + lia.
    + rewrite cnt_rem, eeqb_pair. lia.
    + lia.
Qed.

Lemma ndel_zero : forall c k r l, (forall tp, ~ In (WDel r tp) l) -> ndel c k r l = 0%nat.
Proof.
  intros c k r. induction l as [|w l IH]; intros Hn; cbn [ndel].
  - reflexivity.
  - rewrite IH by (intros tp H; apply (Hn tp); right; exact H).
    destruct w as [r0 tp|r0 tp|r1 r2 old new]; try reflexivity.
    destruct (N.eqb_spec r0 r) as [E|E].
    + subst r0. exfalso. apply (Hn tp). left. reflexivity.
    + rewrite andb_false_r. reflexivity.
Qed.

Lemma ndel_pos : forall c k r l tp, In (WDel r tp) l -> veqb (ecol c tp) k = true ->
  (ndel c k r l >= 1)%nat.
Proof.
  intros c k r. induction l as [|w l IH]; intros tp Hi Hk; cbn [ndel].
  - destruct Hi.
  - destruct Hi as [Hi|Hi].
    + subst w. rewrite Hk, N.eqb_refl. cbn [andb ind]. lia.
    + specialize (IH tp Hi Hk). lia.
Qed.

Definition delrids (l : list wrec) : list N :=
  flat_map (fun w => match w with WDel r _ => [r] | _ => [] end) l.

Definition movrids (l : list wrec) : list N :=
  flat_map (fun w => match w with
                     | WUpd r1 r2 _ _ => if r1 =? r2 then [] else [r1]
                     | _ => [] end) l.

Lemma delrids_In : forall l r, In r (delrids l) <-> exists tp, In (WDel r tp) l.
Proof.
  intros l r. unfold delrids. rewrite in_flat_map. split.
  - intros [w [H1 H2]]. destruct w as [r0 tp|r0 tp|r1 r2 old new]; cbn [In] in H2; try contradiction.
    destruct H2 as [H2|[]]. subst r0. exists tp. exact H1.
  - intros [tp H]. exists (WDel r tp). split; [exact H|left; reflexivity].
Qed.

Lemma movrids_In : forall l r, In r (movrids l) <->
  exists r2 old new, In (WUpd r r2 old new) l /\ r <> r2.
Proof.
  intros l r. unfold movrids. rewrite in_flat_map. split.
  - intros [w [H1 H2]]. destruct w as [r0 tp|r0 tp|r1 r2 old new]; cbn [In] in H2; try contradiction.
    destruct (N.eqb_spec r1 r2) as [E|E]; [destruct H2|]. destruct H2 as [H2|[]]. subst r1.
    exists r2, old, new. split; assumption.
  - intros [r2 [old [new [H Hne]]]]. exists (WUpd r r2 old new). split; [exact H|].
    destruct (N.eqb_spec r r2) as [E|E]; [contradiction|]. left. reflexivity.
Qed.

Lemma applied_In : forall l r, In r (flat_map applied l) <-> In r (delrids l) \/ In r (movrids l).
Proof.
  intros l r. induction l as [|w l IH].
  - cbn. tauto.
  - unfold delrids, movrids in *. cbn [flat_map]. rewrite !in_app_iff, IH.
    destruct w as [r0 tp|r0 tp|r1 r2 old new]; cbn [applied In]; tauto.
Qed.

Lemma cnt_le_base : forall m ix W c es k r, IdxInvW m ix W -> In (c, es) ix ->
  (cnt (k, r) es <= base m c k r)%nat.
Proof.
  intros m ix W c es k r H4 Hin. destruct (H4 c es Hin k r) as [Ha Hb].
  destruct (Nat.eq_dec (cnt (k, r) es) 0) as [E|E]; [lia|].
  rewrite Hb; [lia|]. intros HM. apply E. apply Ha. exact HM.
Qed.

Lemma GI_commit : forall m ix W l t,
  GI m ix W l ->
  GI (fold_left commit_rows (rev (W t)) m) (fold_left commit_idx (rev (W t)) ix)
     (wupd W t []) l.
Proof.
  intros m ix W l t HG. pose proof HG as [H1 [H2 [H3 H4]]].
  assert (Happ : forall r, In r (flat_map applied (rev (W t))) -> aget (ex l) r = Some t).
  { intros r Hr. apply in_flat_map in Hr. destruct Hr as [w [Hw Hr]].
    apply H2. apply in_rev in Hw. apply (rids_of_In _ w); [exact Hw|].
    apply applied_wrids. exact Hr. }
  split; [exact H1|]. split; [|split].
  - intros t' r Hr. destruct (N.eqb_spec t t') as [E|E].
    + subst t'. rewrite wupd_same in Hr. destruct Hr.
    + rewrite wupd_other in Hr by exact E. apply H2. exact Hr.
  - intros t'. destruct (N.eqb_spec t t') as [E|E].
    + subst t'. rewrite wupd_same. exact I.
    + rewrite wupd_other by exact E.
      apply (GoodR_agree (rev (W t')) m); [|apply H3].
      intros r Hr. symmetry. apply commit_fold_notin. intros Hin.
      apply (proj1 (rids_of_rev _ _)) in Hr. apply H2 in Hr. apply Happ in Hin. congruence.
  - intros c es' Hin k r. apply In_commit_fold in Hin. destruct Hin as [es [Hes ->]].
    rewrite cnt_commit_fold.
    pose proof (cnt_le_base m ix W c es k r H4 Hes) as Hle.
    destruct (H4 c es Hes k r) as [Ha Hb].
    destruct (in_dec N.eq_dec r (delrids (rev (W t)))) as [Hd|Hd].
    + (* deleted by t: row and entries go *)
      assert (Hd' := Hd). apply delrids_In in Hd'. destruct Hd' as [tp Htp].
      pose proof (GoodR_del_marked _ _ _ _ (H3 t) Htp) as Hmk.
      assert (Hnone : aget (fold_left commit_rows (rev (W t)) m) r = None).
      { apply commit_fold_in. apply applied_In. left. exact Hd. }
      assert (Hz : (cnt (k, r) es - ndel c k r (rev (W t)) = 0)%nat).
      { unfold base in Hle. rewrite Hmk in Hle.
        destruct (veqb (ecol c tp) k) eqn:Ek; cbn [ind] in Hle.
        - pose proof (ndel_pos c k r _ tp Htp Ek). lia.
        - lia. }
      rewrite Hz. split; [reflexivity|]. intros _. unfold base. rewrite Hnone. reflexivity.
    + assert (Hnd : ndel c k r (rev (W t)) = 0%nat).
      { apply ndel_zero. intros tp Hi. apply Hd. apply delrids_In. exists tp. exact Hi. }
      rewrite Hnd, Nat.sub_0_r.
      destruct (in_dec N.eq_dec r (movrids (rev (W t)))) as [Hm|Hm].
      * (* old location of a relocation by t: freed, entry already moved *)
        assert (HM : MovedW W r).
        { apply movrids_In in Hm. destruct Hm as [r2 [o [n [Hi Hne]]]].
          exists t, r2, o, n. split; [apply in_rev; exact Hi|exact Hne]. }
        rewrite (Ha HM). split; [reflexivity|]. intros _. unfold base.
        rewrite commit_fold_in; [reflexivity|]. apply applied_In. right. exact Hm.
      * rewrite (base_eq m (fold_left commit_rows (rev (W t)) m)).
        2:{ apply commit_fold_notin. intros Hi. apply applied_In in Hi. tauto. }
        split.
        -- intros [t' [r2 [o [n [Hi Hne]]]]]. apply Ha.
           destruct (N.eqb_spec t t') as [E|E].
           ++ subst t'. rewrite wupd_same in Hi. destruct Hi.
           ++ rewrite wupd_other in Hi by exact E. exists t', r2, o, n. split; assumption.
        -- intros HM. apply Hb. intros [t' [r2 [o [n [Hi Hne]]]]].
           destruct (N.eqb_spec t t') as [E|E].
           ++ subst t'. apply Hm. apply movrids_In. exists r2, o, n.
              split; [apply in_rev in Hi; exact Hi|exact Hne].
           ++ apply HM. exists t', r2, o, n. split; [rewrite wupd_other by exact E; exact Hi|exact Hne].
Qed.

(* ------------------------------------------------------------------ *)
(** ** Lock acquisition facts *)

Definition ex_mono (l l' : lstate) : Prop :=
  forall r u, aget (ex l) r = Some u -> aget (ex l') r = Some u.

Lemma ex_mono_refl : forall l, ex_mono l l.
Proof. intros l r u H. exact H. Qed.

Lemma ex_mono_trans : forall a b c, ex_mono a b -> ex_mono b c -> ex_mono a c.
Proof. intros a b c H1 H2 r u H. apply H2. apply H1. exact H. Qed.

Lemma grantX_mono : forall l t r, aget (ex l) r = None -> ex_mono l (grantX l t r).
Proof.
  intros l t r Hn r' u H. unfold grantX. cbn [ex].
  rewrite aget_aset_other; [exact H|]. intros E. subst r'. congruence.
Qed.

Lemma lockS_mono : forall l t r, ex_mono l (fst (lstep l (LockS t r))).
Proof.
  intros l t r. cbn [lstep]. unfold lock_shared.
  destruct (aget (ex l) r) as [o|] eqn:Ex.
  - destruct (o =? t); apply ex_mono_refl.
  - destruct (memN t (agetl (sh l) r)); cbn [fst]; [apply ex_mono_refl|].
    intros r' u H. exact H.
Qed.

Lemma lockX_mono : forall l t r, ex_mono l (fst (lstep l (LockX t r))).
Proof.
  intros l t r. cbn [lstep]. unfold lock_exclusive.
  destruct (aget (ex l) r) as [o|] eqn:Ex.
  - destruct (o =? t); apply ex_mono_refl.
  - destruct (only_me (agetl (sh l) r) t); cbn [fst]; [|apply ex_mono_refl].
    apply grantX_mono. exact Ex.
Qed.

Lemma upgrade_mono : forall l t r, ex_mono l (fst (lstep l (Upgrade t r))).
Proof.
  intros l t r. cbn [lstep]. unfold lock_upgrade.
  destruct (memN r (agetl (sset l) t)); [|apply ex_mono_refl].
  destruct (aget (ex l) r) as [o|] eqn:Ex.
  - destruct (o =? t); apply ex_mono_refl.
  - destruct (Nat.eqb (length (agetl (sh l) r)) 1); cbn [fst]; [|apply ex_mono_refl].
    apply grantX_mono. exact Ex.
Qed.

Lemma lockX_held : forall l t r, snd (lstep l (LockX t r)) = Granted ->
  aget (ex (fst (lstep l (LockX t r)))) r = Some t.
Proof.
  intros l t r. cbn [lstep]. unfold lock_exclusive.
  destruct (aget (ex l) r) as [o|] eqn:Ex.
  - destruct (N.eqb_spec o t) as [E|E]; cbn [fst snd]; [|discriminate].
    intros _. subst o. exact Ex.
  - destruct (only_me (agetl (sh l) r) t); cbn [fst snd]; [|discriminate].
    intros _. unfold grantX. cbn [ex]. apply aget_aset_same.
Qed.

Lemma upgrade_held : forall l t r, snd (lstep l (Upgrade t r)) = Granted ->
  aget (ex (fst (lstep l (Upgrade t r)))) r = Some t.
Proof.
  intros l t r. cbn [lstep]. unfold lock_upgrade.
  destruct (memN r (agetl (sset l) t)); cbn [fst snd]; [|discriminate].
  destruct (aget (ex l) r) as [o|] eqn:Ex.
  - destruct (N.eqb_spec o t) as [E|E]; cbn [fst snd]; [|discriminate].
    intros _. subst o. exact Ex.
  - destruct (Nat.eqb (length (agetl (sh l) r)) 1); cbn [fst snd]; [|discriminate].
    intros _. unfold grantX. cbn [ex]. apply aget_aset_same.
Qed.

Lemma lgranted_true : forall g, lgranted g = true -> g = Granted.
Proof. intros [| | |] H; try discriminate. reflexivity. Qed.

Lemma wlock_spec : forall l t r l' g, wlock l t r = (l', g) -> LInv l ->
  LInv l' /\ ex_mono l l' /\ (lgranted g = true -> aget (ex l') r = Some t).
Proof.
  intros l t r l' g Hw HL. unfold wlock in Hw.
  destruct (memN r (agetl (sset l) t)) eqn:Es.
  - pose proof (LInv_step l (Upgrade t r) HL) as HL'.
    pose proof (upgrade_mono l t r) as Hm. pose proof (upgrade_held l t r) as Hh.
    rewrite Hw in HL', Hm, Hh. cbn [fst snd] in *.
    split; [exact HL'|]. split; [exact Hm|]. intros Hg. apply Hh. apply lgranted_true. exact Hg.
  - destruct (memN r (agetl (xset l) t)) eqn:Ext.
    + inversion Hw. subst l' g. split; [exact HL|]. split; [apply ex_mono_refl|].
      intros _. destruct HL as [_ [_ [_ H4]]]. apply H4. apply memN_In. exact Ext.
    + pose proof (LInv_step l (LockX t r) HL) as HL'.
      pose proof (lockX_mono l t r) as Hm. pose proof (lockX_held l t r) as Hh.
      rewrite Hw in HL', Hm, Hh. cbn [fst snd] in *.
      split; [exact HL'|]. split; [exact Hm|]. intros Hg. apply Hh. apply lgranted_true. exact Hg.
Qed.

(** A granted read lock excludes every other X holder. *)
Lemma rlock_spec : forall l t r l' g, rlock l t r = (l', g) -> LInv l ->
  LInv l' /\ ex_mono l l' /\
  (lgranted g = true -> forall u, aget (ex l') r = Some u -> u = t).
Proof.
  intros l t r l' g Hr HL. unfold rlock in Hr.
  destruct (memN r (agetl (sset l) t) || memN r (agetl (xset l) t)) eqn:Eh.
  - inversion Hr. subst l' g. split; [exact HL|]. split; [apply ex_mono_refl|].
    intros _ u Hu. destruct HL as [H1 [_ [H3 H4]]].
    apply orb_true_iff in Eh. destruct Eh as [Eh|Eh]; apply memN_In in Eh.
    + apply H3 in Eh. symmetry. apply (H1 r u t Hu Eh).
    + apply H4 in Eh. congruence.
  - pose proof (LInv_step l (LockS t r) HL) as HL'.
    pose proof (lockS_mono l t r) as Hm. rewrite Hr in HL', Hm. cbn [fst] in *.
    split; [exact HL'|]. split; [exact Hm|].
    intros Hg u Hu. apply lgranted_true in Hg. subst g.
    cbn [lstep] in Hr. unfold lock_shared in Hr.
    destruct (aget (ex l) r) as [o|] eqn:Ex.
    + destruct (N.eqb_spec o t) as [E|E]; inversion Hr. subst. congruence.
    + destruct (memN t (agetl (sh l) r)); inversion Hr; subst.
      * congruence.
      * unfold grantS in Hu. cbn [ex] in Hu. congruence.
Qed.

(* ------------------------------------------------------------------ *)
(** ** Every step preserves the invariant *)

Lemma agetl_wpush : forall s t w t',
  agetl (wpush s t w) t' = wupd (agetl (wsets s)) t (agetl (wsets s) t ++ [w]) t'.
Proof.
  intros s t w t'. unfold wpush, wupd. destruct (N.eqb_spec t t') as [E|E].
  - subst t'. apply agetl_aset_same.
  - apply agetl_aset_other. exact E.
Qed.

Lemma agetl_adel_w : forall (ws : list (N * list wrec)) t t',
  agetl (adel ws t) t' = wupd (agetl ws) t [] t'.
Proof.
  intros ws t t'. unfold wupd. destruct (N.eqb_spec t t') as [E|E].
  - subst t'. apply agetl_adel_same.
  - apply agetl_adel_other. exact E.
Qed.

Lemma GInv_init : forall ic, GInv (einit ic).
Proof.
  intros ic. unfold GInv, einit. cbn [rows idx wsets lk]. split; [apply LInv_init|].
  split; [|split].
  - intros t r H. cbn in H. destruct H.
  - intros t. exact I.
  - intros c es Hin k r. apply in_map_iff in Hin. destruct Hin as [c0 [E _]].
    inversion E. subst. split; intros _; reflexivity.
Qed.

Lemma GInv_exec : forall s t l w,
  GInv s -> LInv l -> ex_mono (lk s) l ->
  (forall r, In r (wrids w) -> aget (ex l) r = Some t) ->
  pre w (rows s) -> GInv (fst (eexec s t l w)).
Proof.
  intros s t l w HG HL Hm Hx Hp. unfold GInv, eexec. cbn [fst rows idx wsets lk].
  apply (GI_ext _ _ (wupd (agetl (wsets s)) t (agetl (wsets s) t ++ [w]))).
  - intros t'. symmetry. apply agetl_wpush.
  - apply (GI_exec _ _ _ (lk s)); assumption.
Qed.

Lemma GInv_abort : forall s t, GInv s -> GInv (eabort_txn s t).
Proof.
  intros s t HG. unfold GInv, eabort_txn. cbn [rows idx wsets lk].
  apply (GI_ext _ _ (wupd (agetl (wsets s)) t [])).
  - intros t'. symmetry. apply agetl_adel_w.
  - apply GI_unlock; [|apply wupd_same].
    apply GI_abort_all; [exact HG|reflexivity].
Qed.

Lemma GInv_commit : forall s t, GInv s -> GInv (ecommit_txn s t).
Proof.
  intros s t HG. unfold GInv, ecommit_txn. cbn [rows idx wsets lk].
  apply (GI_ext _ _ (wupd (agetl (wsets s)) t [])).
  - intros t'. symmetry. apply agetl_adel_w.
  - apply GI_unlock; [|apply wupd_same]. apply GI_commit. exact HG.
Qed.

Lemma GInv_with_lk : forall s l, GInv s -> LInv l -> ex_mono (lk s) l -> GInv (with_lk s l).
Proof.
  intros s l HG HL Hm. unfold GInv, with_lk. cbn [rows idx wsets lk].
  apply (GI_lock _ _ _ (lk s)); assumption.
Qed.

Lemma GInv_fail : forall s l t, GInv s -> LInv l -> ex_mono (lk s) l -> GInv (fst (efail s l t)).
Proof.
  intros s l t HG HL Hm. unfold efail. cbn [fst]. apply GInv_abort.
  apply GInv_with_lk; assumption.
Qed.

Lemma GInv_LInv : forall s, GInv s -> LInv (lk s).
Proof. intros s [H _]. exact H. Qed.

Lemma GInv_step : forall s o, GInv s -> GInv (fst (estep s o)).
Proof.
  intros s o HG. pose proof (GInv_LInv s HG) as HL.
  destruct o as [t rid tp|t rid|t rid new|t rid nrid new|t rid|t|t]; cbn [estep].
  - (* insert *)
    destruct (aget (rows s) rid) as [x|] eqn:Er; [exact HG|].
    destruct (lstep (lk s) (LockX t rid)) as [l g] eqn:El.
    destruct (lgranted g) eqn:Eg; [|exact HG].
    apply lgranted_true in Eg. subst g.
    pose proof (LInv_step (lk s) (LockX t rid) HL) as HL'.
    pose proof (lockX_mono (lk s) t rid) as Hm. pose proof (lockX_held (lk s) t rid) as Hh.
    rewrite El in HL', Hm, Hh. cbn [fst snd] in *.
    apply GInv_exec; [exact HG|exact HL'|exact Hm| |exact Er].
    intros r [Hr|[]]. subst r. apply Hh. reflexivity.
  - (* delete *)
    destruct (wlock (lk s) t rid) as [l g] eqn:El.
    destruct (wlock_spec _ _ _ _ _ El HL) as [HL' [Hm Hh]].
    destruct (lgranted g) eqn:Eg; [|apply GInv_fail; assumption].
    destruct (aget (rows s) rid) as [[tp [|]]|] eqn:Er; try (apply GInv_fail; assumption).
    apply GInv_exec; [exact HG|exact HL'|exact Hm| |exact Er].
    intros r [Hr|[]]. subst r. apply Hh. reflexivity.
  - (* update in place *)
    destruct (wlock (lk s) t rid) as [l g] eqn:El.
    destruct (wlock_spec _ _ _ _ _ El HL) as [HL' [Hm Hh]].
    destruct (lgranted g) eqn:Eg; [|apply GInv_fail; assumption].
    destruct (aget (rows s) rid) as [[old [|]]|] eqn:Er; try (apply GInv_fail; assumption).
    apply GInv_exec; [exact HG|exact HL'|exact Hm| |].
    + intros r [Hr|[Hr|[]]]; subst r; apply Hh; reflexivity.
    + cbn [pre]. split; [exact Er|]. intros Hne. contradiction.
  - (* update with relocation *)
    destruct (wlock (lk s) t rid) as [l g] eqn:El.
    destruct (wlock_spec _ _ _ _ _ El HL) as [HL' [Hm Hh]].
    destruct (lgranted g) eqn:Eg; [|apply GInv_fail; assumption].
    destruct (aget (rows s) rid) as [[old [|]]|] eqn:Er; try (apply GInv_fail; assumption).
    destruct (aget (rows s) nrid) as [y|] eqn:Er2; [exact HG|].
    destruct (lstep l (LockX t nrid)) as [l2 g2] eqn:El2.
    destruct (lgranted g2) eqn:Eg2; [|exact HG].
    apply lgranted_true in Eg2. subst g2.
    pose proof (LInv_step l (LockX t nrid) HL') as HL2.
    pose proof (lockX_mono l t nrid) as Hm2. pose proof (lockX_held l t nrid) as Hh2.
    rewrite El2 in HL2, Hm2, Hh2. cbn [fst snd] in *.
    apply GInv_exec; [exact HG|exact HL2|exact (ex_mono_trans _ _ _ Hm Hm2)| |].
    + intros r [Hr|[Hr|[]]]; subst r.
      * apply Hm2. apply Hh. reflexivity.
      * apply Hh2. reflexivity.
    + cbn [pre]. split; [exact Er|]. intros _. exact Er2.
  - (* read *)
    destruct (rlock (lk s) t rid) as [l g] eqn:El.
    destruct (rlock_spec _ _ _ _ _ El HL) as [HL' [Hm Hh]].
    destruct (lgranted g) eqn:Eg; [|apply GInv_fail; assumption].
    destruct (aget (rows s) rid) as [[tp [|]]|] eqn:Er.
    + destruct (memN rid (agetl (xset l) t)); [apply GInv_with_lk|apply GInv_fail]; assumption.
    + apply GInv_with_lk; assumption.
    + destruct (memN rid (agetl (xset l) t)); [apply GInv_with_lk|apply GInv_fail]; assumption.
  - apply GInv_commit. exact HG.
  - apply GInv_abort. exact HG.
Qed.

Definition ereachable (s : estate) : Prop := exists ic ops, s = erun ops (einit ic).

Lemma GInv_run : forall ops s, GInv s -> GInv (erun ops s).
Proof.
  induction ops as [|o ops IH]; intros s HG; cbn [erun fold_left].
  - exact HG.
  - apply IH. apply GInv_step. exact HG.
Qed.

Lemma GInv_reach : forall s, ereachable s -> GInv s.
Proof.
  intros s [ic [ops ->]]. apply GInv_run. apply GInv_init.
Qed.

Lemma reach_step : forall s o, ereachable s -> ereachable (fst (estep s o)).
Proof.
  intros s o [ic [ops ->]]. exists ic, (ops ++ [o]).
  unfold erun. rewrite fold_left_app. reflexivity.
Qed.

Lemma erun_app : forall a b s, erun (a ++ b) s = erun b (erun a s).
Proof. intros a b s. unfold erun. apply fold_left_app. Qed.

Lemma reach_run : forall ops s, ereachable s -> ereachable (erun ops s).
Proof.
  intros ops s [ic [ops0 ->]]. exists ic, (ops0 ++ ops). rewrite erun_app. reflexivity.
Qed.

(* ------------------------------------------------------------------ *)
(** * 5. C03 - abort restores rows and indexes *)

(** Equality of heaps as finite maps; equality of index lists as multisets. *)
Definition req (m m' : list (N * (row * bool))) : Prop := forall r, aget m r = aget m' r.

Definition ieq (ix ix' : list (nat * list ientry)) : Prop :=
  Forall2 (fun a b => fst a = fst b /\ forall x, cnt x (snd a) = cnt x (snd b)) ix ix'.

Definition iperm (ix ix' : list (nat * list ientry)) : Prop :=
  Forall2 (fun a b => fst a = fst b /\ Permutation (snd a) (snd b)) ix ix'.

Lemma ieq_iperm : forall ix ix', ieq ix ix' -> iperm ix ix'.
Proof.
  intros ix ix' H. induction H as [|a b l l' [H1 H2] _ IH]; constructor.
  - split; [exact H1|]. apply cnt_perm. exact H2.
  - exact IH.
Qed.

Lemma ieq_refl : forall ix, ieq ix ix.
Proof.
  induction ix as [|a ix IH]; constructor; [|exact IH]. split; reflexivity.
Qed.

Lemma ieq_trans : forall a b c, ieq a b -> ieq b c -> ieq a c.
Proof.
  intros a b c H. revert c. induction H as [|x y l l' [H1 H2] _ IH]; intros c Hc.
  - exact Hc.
  - inversion Hc as [|y' z l1 l2 [H3 H4] Hr]. subst. constructor.
    + split; [congruence|]. intros e. rewrite H2. apply H4.
    + apply IH. exact Hr.
Qed.

Lemma imap_id : forall ix, imap (fun _ es => es) ix = ix.
Proof.
  induction ix as [|[c es] ix IH]; cbn [imap map fst snd].
  - reflexivity.
  - unfold imap in IH. rewrite IH. reflexivity.
Qed.

Lemma do_idx_imap : forall w ix, do_idx ix w = imap (do_f w) ix.
Proof.
  intros [r0 tp|r0 tp|r1 r2 old new] ix; cbn [do_idx].
  - reflexivity.
  - symmetry. apply imap_id.
  - reflexivity.
Qed.

Lemma undo_idx_imap : forall w ix, undo_idx ix w = imap (undo_f w) ix.
Proof.
  intros [r0 tp|r0 tp|r1 r2 old new] ix; cbn [undo_idx].
  - reflexivity.
  - symmetry. apply imap_id.
  - reflexivity.
Qed.

Lemma commit_idx_imap : forall w ix, commit_idx ix w = imap (commit_f w) ix.
Proof.
  intros [r0 tp|r0 tp|r1 r2 old new] ix; cbn [commit_idx].
  - symmetry. apply imap_id.
  - reflexivity.
  - symmetry. apply imap_id.
Qed.

(** [undo_f] only looks at multiplicities. *)
Lemma undo_f_cong : forall w c es es', (forall x, cnt x es = cnt x es') ->
  forall x, cnt x (undo_f w c es) = cnt x (undo_f w c es').
Proof.
  intros [r0 tp|r0 tp|r1 r2 old new] c es es' H [k r]; cbn [undo_f].
  - rewrite !cnt_rem, H. reflexivity.
  - apply H.
  - rewrite !cnt_mv_f, H. reflexivity.
Qed.

Lemma ieq_imap : forall f ix ix',
  (forall c es es', (forall x, cnt x es = cnt x es') -> forall x, cnt x (f c es) = cnt x (f c es')) ->
  ieq ix ix' -> ieq (imap f ix) (imap f ix').
Proof.
  intros f ix ix' Hf H. induction H as [|a b l l' [H1 H2] _ IH]; cbn [imap map].
  - constructor.
  - constructor; [|exact IH]. cbn [fst snd]. split; [exact H1|].
    rewrite H1. apply Hf. exact H2.
Qed.

Lemma ieq_undo_fold : forall l ix ix', ieq ix ix' ->
  ieq (fold_left undo_idx l ix) (fold_left undo_idx l ix').
Proof.
  induction l as [|w l IH]; intros ix ix' H; cbn [fold_left].
  - exact H.
  - apply IH. rewrite !undo_idx_imap. apply ieq_imap; [|exact H]. apply undo_f_cong.
Qed.

Lemma req_undo_fold : forall l m m', req m m' ->
  req (fold_left undo_rows l m) (fold_left undo_rows l m').
Proof.
  induction l as [|w l IH]; intros m m' H; cbn [fold_left].
  - exact H.
  - apply IH. intros r.
    apply (undo_rows_agree w m m' (fun _ => True)); [intros; exact I| |exact I].
    intros r' _. apply H.
Qed.

Lemma veqb_sym : forall a b, veqb a b = veqb b a.
Proof.
  intros a b. destruct (veqb a b) eqn:E.
  - apply veqb_spec in E. subst. symmetry. apply veqb_refl.
  - symmetry. apply veqb_false. intros H. subst. rewrite veqb_refl in E. discriminate.
Qed.

(** Undo after do on one entry list, given that the entry of the old row is there. *)
Lemma undo_do_f : forall w c es,
  (forall r1 r2 old new, w = WUpd r1 r2 old new -> (cnt (ecol c old, r1) es >= 1)%nat) ->
  forall x, cnt x (undo_f w c (do_f w c es)) = cnt x es.
Proof.
  intros [r0 tp|r0 tp|r1 r2 old new] c es Hpres [k r]; cbn [undo_f do_f].
  - rewrite cnt_rem, cnt_add. lia.
  - reflexivity.
  - specialize (Hpres r1 r2 old new eq_refl).
    rewrite cnt_mv_f, cnt_mv_f.
    rewrite (veqb_sym (ecol c new) (ecol c old)), (N.eqb_sym r2 r1).
    destruct (negb (veqb (ecol c old) (ecol c new)) || negb (r1 =? r2)); [|reflexivity].
    destruct (veqb (ecol c old) k && (r1 =? r)) eqn:E1; cbn [ind]; [|lia].
    apply andb_true_iff in E1. destruct E1 as [Ek Er]. apply veqb_spec in Ek.
    apply N.eqb_eq in Er. subst. lia.
Qed.

Lemma Forall2_map_self : forall {A} (R : A -> A -> Prop) (f : A -> A) l,
  (forall a, In a l -> R (f a) a) -> Forall2 R (map f l) l.
Proof.
  intros A R f l. induction l as [|a l IH]; intros H; cbn [map]; constructor.
  - apply H. left. reflexivity.
  - apply IH. intros b Hb. apply H. right. exact Hb.
Qed.

Lemma undo_do_idx : forall m ix W w,
  (forall t, GoodR (rev (W t)) m) -> IdxInvW m ix W -> pre w m ->
  ieq (undo_idx (do_idx ix w) w) ix.
Proof.
  intros m ix W w H3 H4 Hpre. rewrite do_idx_imap, undo_idx_imap.
  unfold imap. rewrite map_map. apply Forall2_map_self.
  intros [c es] Hin. cbn [fst snd]. split; [reflexivity|].
  apply undo_do_f. intros r1 r2 old new ->. cbn [pre] in Hpre. destruct Hpre as [Hp1 _].
  destruct (H4 c es Hin (ecol c old) r1) as [_ Hb].
  rewrite Hb by (apply (not_moved_unmarked m W r1 old H3 Hp1)).
  unfold base. rewrite Hp1, veqb_refl. cbn [ind]. lia.
Qed.

(** What an abort of [t] in state [s] would leave, compared with [s0]. *)
Definition Rel (s0 : estate) (t : N) (s : estate) : Prop :=
  req (fold_left undo_rows (rev (agetl (wsets s) t)) (rows s)) (rows s0) /\
  ieq (fold_left undo_idx (rev (agetl (wsets s) t)) (idx s)) (idx s0).

Lemma Rel_init : forall s t, agetl (wsets s) t = [] -> Rel s t s.
Proof.
  intros s t H. unfold Rel. rewrite H. cbn [rev fold_left]. split; [intros r; reflexivity|apply ieq_refl].
Qed.

Lemma Rel_with_lk : forall s0 t s l, Rel s0 t s -> Rel s0 t (with_lk s l).
Proof. intros s0 t s l H. exact H. Qed.

Lemma Rel_fail : forall s0 t s l, Rel s0 t s -> Rel s0 t (fst (efail s l t)).
Proof.
  intros s0 t s l [Hr Hi]. unfold Rel, efail, eabort_txn, with_lk. cbn [fst rows idx wsets lk].
  rewrite agetl_adel_same. cbn [rev fold_left]. split; assumption.
Qed.

Lemma Rel_exec : forall s0 t s l w, GInv s -> Rel s0 t s -> pre w (rows s) ->
  Rel s0 t (fst (eexec s t l w)).
Proof.
  intros s0 t s l w [_ [_ [H3 H4]]] [Hr Hi] Hpre. unfold Rel, eexec. cbn [fst rows idx wsets lk].
  rewrite agetl_wpush, wupd_same, rev_app_distr. cbn [rev app fold_left]. split.
  - intros r. rewrite <- Hr. apply req_undo_fold. intros r'. apply undo_do. exact Hpre.
  - apply (ieq_trans _ (fold_left undo_idx (rev (agetl (wsets s) t)) (idx s))); [|exact Hi].
    apply ieq_undo_fold. apply (undo_do_idx (rows s) (idx s) (agetl (wsets s))); assumption.
Qed.

Lemma Rel_step : forall s0 t s o, GInv s -> Rel s0 t s ->
  eop_txn o = t -> is_data_op o = true -> Rel s0 t (fst (estep s o)).
Proof.
  intros s0 t s o HG HR Ht Hd.
  destruct o as [t' rid tp|t' rid|t' rid new|t' rid nrid new|t' rid|t'|t'];
    cbn [eop_txn] in Ht; subst t'; cbn [is_data_op] in Hd; try discriminate; cbn [estep].
  - destruct (aget (rows s) rid) as [x|] eqn:Er; [exact HR|].
    destruct (lstep (lk s) (LockX t rid)) as [l g].
    destruct (lgranted g); [|exact HR]. apply Rel_exec; assumption.
  - destruct (wlock (lk s) t rid) as [l g].
    destruct (lgranted g); [|apply Rel_fail; exact HR].
    destruct (aget (rows s) rid) as [[tp [|]]|] eqn:Er; try (apply Rel_fail; exact HR).
    apply Rel_exec; assumption.
  - destruct (wlock (lk s) t rid) as [l g].
    destruct (lgranted g); [|apply Rel_fail; exact HR].
    destruct (aget (rows s) rid) as [[old [|]]|] eqn:Er; try (apply Rel_fail; exact HR).
    apply Rel_exec; [exact HG|exact HR|]. cbn [pre]. split; [exact Er|]. intros H. contradiction.
  - destruct (wlock (lk s) t rid) as [l g].
    destruct (lgranted g); [|apply Rel_fail; exact HR].
    destruct (aget (rows s) rid) as [[old [|]]|] eqn:Er; try (apply Rel_fail; exact HR).
    destruct (aget (rows s) nrid) as [y|] eqn:Er2; [exact HR|].
    destruct (lstep l (LockX t nrid)) as [l2 g2].
    destruct (lgranted g2); [|exact HR].
    apply Rel_exec; [exact HG|exact HR|]. cbn [pre]. split; [exact Er|]. intros _. exact Er2.
  - destruct (rlock (lk s) t rid) as [l g].
    destruct (lgranted g); [|apply Rel_fail; exact HR].
    destruct (aget (rows s) rid) as [[tp [|]]|] eqn:Er.
    + destruct (memN rid (agetl (xset l) t)); [exact HR|apply Rel_fail; exact HR].
    + exact HR.
    + destruct (memN rid (agetl (xset l) t)); [exact HR|apply Rel_fail; exact HR].
Qed.

(** Data operations of one transaction. *)
Definition tx_ops (t : N) (ops : list eop) : Prop :=
  Forall (fun o => eop_txn o = t /\ is_data_op o = true) ops.

Lemma Rel_run : forall ops s0 t s, GInv s -> Rel s0 t s -> tx_ops t ops ->
  Rel s0 t (erun ops s) /\ GInv (erun ops s).
Proof.
  induction ops as [|o ops IH]; intros s0 t s HG HR Hops; cbn [erun fold_left].
  - split; assumption.
  - inversion Hops as [|o' ops' [Ht Hd] Hrest]. subst.
    apply IH; [apply GInv_step; exact HG| |exact Hrest].
    apply Rel_step; [exact HG|exact HR|reflexivity|exact Hd].
Qed.

Lemma abort_restores : forall s t ops, ereachable s ->
  agetl (wsets s) t = [] -> tx_ops t ops ->
  req (rows (erun (ops ++ [OpAbort t]) s)) (rows s) /\
  iperm (idx (erun (ops ++ [OpAbort t]) s)) (idx s).
Proof.
  intros s t ops Hreach Hw Hops. rewrite erun_app.
  destruct (Rel_run ops s t s (GInv_reach s Hreach) (Rel_init s t Hw) Hops) as [[Hr Hi] _].
  cbn [erun fold_left estep fst]. unfold eabort_txn. cbn [rows idx].
  split; [exact Hr|apply ieq_iperm; exact Hi].
Qed.

Lemma abort_restores_rows_lemma : forall s t ops, ereachable s ->
  agetl (wsets s) t = [] -> tx_ops t ops ->
  forall r, aget (rows (erun (ops ++ [OpAbort t]) s)) r = aget (rows s) r.
Proof. intros s t ops H1 H2 H3. apply (abort_restores s t ops H1 H2 H3). Qed.

Lemma abort_restores_indexes_lemma : forall s t ops, ereachable s ->
  agetl (wsets s) t = [] -> tx_ops t ops ->
  Forall2 (fun a b => fst a = fst b /\ Permutation (snd a) (snd b))
          (idx (erun (ops ++ [OpAbort t]) s)) (idx s).
Proof. intros s t ops H1 H2 H3. apply (abort_restores s t ops H1 H2 H3). Qed.

(** An operation that reports [EAborted] has run the abort processing. *)
Lemma aborted_shape : forall s o, snd (estep s o) = EAborted ->
  exists l, fst (estep s o) = eabort_txn (with_lk s l) (eop_txn o).
Proof.
  intros s o. destruct o as [t rid tp|t rid|t rid new|t rid nrid new|t rid|t|t]; cbn [estep eop_txn].
  - destruct (aget (rows s) rid) as [x|]; [cbn; discriminate|].
    destruct (lstep (lk s) (LockX t rid)) as [l g].
    destruct (lgranted g); cbn; discriminate.
  - destruct (wlock (lk s) t rid) as [l g].
    destruct (lgranted g); [|intros _; exists l; reflexivity].
    destruct (aget (rows s) rid) as [[tp [|]]|]; try (intros _; exists l; reflexivity).
    cbn. discriminate.
  - destruct (wlock (lk s) t rid) as [l g].
    destruct (lgranted g); [|intros _; exists l; reflexivity].
    destruct (aget (rows s) rid) as [[tp [|]]|]; try (intros _; exists l; reflexivity).
    cbn. discriminate.
  - destruct (wlock (lk s) t rid) as [l g].
    destruct (lgranted g); [|intros _; exists l; reflexivity].
    destruct (aget (rows s) rid) as [[tp [|]]|]; try (intros _; exists l; reflexivity).
    destruct (aget (rows s) nrid) as [y|]; [cbn; discriminate|].
    destruct (lstep l (LockX t nrid)) as [l2 g2].
    destruct (lgranted g2); cbn; discriminate.
  - destruct (rlock (lk s) t rid) as [l g].
    destruct (lgranted g); [|intros _; exists l; reflexivity].
    destruct (aget (rows s) rid) as [[tp [|]]|].
    + destruct (memN rid (agetl (xset l) t)); [cbn; discriminate|intros _; exists l; reflexivity].
    + cbn. discriminate.
    + destruct (memN rid (agetl (xset l) t)); [cbn; discriminate|intros _; exists l; reflexivity].
  - cbn. discriminate.
  - cbn. discriminate.
Qed.

(** The abort caused by a lock conflict (or a vanished row) half-way restores
    the same state as the explicit abort. *)
Lemma conflict_abort_same_lemma : forall s t ops o, ereachable s ->
  agetl (wsets s) t = [] -> tx_ops t ops -> eop_txn o = t ->
  snd (estep (erun ops s) o) = EAborted ->
  (forall r, aget (rows (fst (estep (erun ops s) o))) r = aget (rows s) r) /\
  Forall2 (fun a b => fst a = fst b /\ Permutation (snd a) (snd b))
          (idx (fst (estep (erun ops s) o))) (idx s) /\
  agetl (wsets (fst (estep (erun ops s) o))) t = [].
Proof.
  intros s t ops o Hreach Hw Hops Ht Hab.
  destruct (Rel_run ops s t s (GInv_reach s Hreach) (Rel_init s t Hw) Hops) as [[Hr Hi] _].
  destruct (aborted_shape _ _ Hab) as [l Hs]. rewrite Hs, Ht.
  unfold eabort_txn, with_lk. cbn [rows idx wsets lk]. split; [exact Hr|].
  split; [apply ieq_iperm; exact Hi|apply agetl_adel_same].
Qed.

(* ------------------------------------------------------------------ *)
(** ** Rows and entries of rids the transaction has not X-locked are untouched *)

(** Same multiplicities of the entries of rid [r] in every index. *)
Definition ieq_at (r : N) (ix ix' : list (nat * list ientry)) : Prop :=
  Forall2 (fun a b => fst a = fst b /\ forall k, cnt (k, r) (snd a) = cnt (k, r) (snd b)) ix ix'.

Lemma ieq_at_refl : forall r ix, ieq_at r ix ix.
Proof.
  intros r. induction ix as [|a ix IH]; constructor; [|exact IH]. split; reflexivity.
Qed.

Lemma ieq_at_trans : forall r a b c, ieq_at r a b -> ieq_at r b c -> ieq_at r a c.
Proof.
  intros r a b c H. revert c. induction H as [|x y l l' [H1 H2] _ IH]; intros c Hc.
  - exact Hc.
  - inversion Hc as [|y' z l1 l2 [H3 H4] Hr]. subst. constructor.
    + split; [congruence|]. intros k. rewrite H2. apply H4.
    + apply IH. exact Hr.
Qed.

Lemma ieq_at_imap : forall r f ix,
  (forall c es k, cnt (k, r) (f c es) = cnt (k, r) es) -> ieq_at r (imap f ix) ix.
Proof.
  intros r f ix H. unfold ieq_at, imap. apply Forall2_map_self.
  intros [c es] _. cbn [fst snd]. split; [reflexivity|]. intros k. apply H.
Qed.

Lemma mv_f_other : forall c old r1 new r2 es k r, r <> r1 -> r <> r2 ->
  cnt (k, r) (mv_f c old r1 new r2 es) = cnt (k, r) es.
Proof.
  intros c old r1 new r2 es k r H1 H2. rewrite cnt_mv_f.
  destruct (N.eqb_spec r1 r) as [E1|E1]; [congruence|].
  destruct (N.eqb_spec r2 r) as [E2|E2]; [congruence|].
  rewrite !andb_false_r. cbn [ind].
  destruct (negb (veqb (ecol c old) (ecol c new)) || negb (r1 =? r2)); lia.
Qed.

Lemma do_f_other : forall w c es k r, ~ In r (wrids w) -> cnt (k, r) (do_f w c es) = cnt (k, r) es.
Proof.
  intros [r0 tp|r0 tp|r1 r2 old new] c es k r Hn; cbn [wrids In] in Hn; cbn [do_f].
  - rewrite cnt_add, eeqb_pair. destruct (N.eqb_spec r0 r) as [E|E]; [tauto|].
    rewrite andb_false_r. cbn [ind]. lia.
  - reflexivity.
  - apply mv_f_other; intros E; subst; tauto.
Qed.

Lemma undo_f_other : forall w c es k r, ~ In r (wrids w) -> cnt (k, r) (undo_f w c es) = cnt (k, r) es.
Proof.
  intros [r0 tp|r0 tp|r1 r2 old new] c es k r Hn; cbn [wrids In] in Hn; cbn [undo_f].
  - rewrite cnt_rem, eeqb_pair. destruct (N.eqb_spec r0 r) as [E|E]; [tauto|].
    rewrite andb_false_r. cbn [ind]. lia.
  - reflexivity.
  - apply mv_f_other; intros E; subst; tauto.
Qed.

Lemma commit_f_other : forall w c es k r, ~ In r (wrids w) -> cnt (k, r) (commit_f w c es) = cnt (k, r) es.
Proof.
  intros [r0 tp|r0 tp|r1 r2 old new] c es k r Hn; cbn [wrids In] in Hn; cbn [commit_f].
  - reflexivity.
  - rewrite cnt_rem, eeqb_pair. destruct (N.eqb_spec r0 r) as [E|E]; [tauto|].
    rewrite andb_false_r. cbn [ind]. lia.
  - reflexivity.
Qed.

Lemma undo_fold_other : forall l m ix r, ~ In r (rids_of l) ->
  aget (fold_left undo_rows l m) r = aget m r /\ ieq_at r (fold_left undo_idx l ix) ix.
Proof.
  induction l as [|w l IH]; intros m ix r Hn; cbn [fold_left].
  - split; [reflexivity|apply ieq_at_refl].
  - cbn [rids_of flat_map] in Hn.
    assert (Hw : ~ In r (wrids w)) by (intros H; apply Hn; apply in_or_app; left; exact H).
    assert (Hl : ~ In r (rids_of l)) by (intros H; apply Hn; apply in_or_app; right; exact H).
    destruct (IH (undo_rows m w) (undo_idx ix w) r Hl) as [Ha Hb]. split.
    + rewrite Ha. apply undo_rows_frame. exact Hw.
    + apply (ieq_at_trans r _ _ _ Hb). rewrite undo_idx_imap. apply ieq_at_imap.
      intros c es k. apply undo_f_other. exact Hw.
Qed.

Lemma commit_fold_other : forall l m ix r, ~ In r (rids_of l) ->
  aget (fold_left commit_rows l m) r = aget m r /\ ieq_at r (fold_left commit_idx l ix) ix.
Proof.
  induction l as [|w l IH]; intros m ix r Hn; cbn [fold_left].
  - split; [reflexivity|apply ieq_at_refl].
  - cbn [rids_of flat_map] in Hn.
    assert (Hw : ~ In r (wrids w)) by (intros H; apply Hn; apply in_or_app; left; exact H).
    assert (Hl : ~ In r (rids_of l)) by (intros H; apply Hn; apply in_or_app; right; exact H).
    destruct (IH (commit_rows m w) (commit_idx ix w) r Hl) as [Ha Hb]. split.
    + rewrite Ha. apply commit_rows_frame. intros H. apply Hw. apply applied_wrids. exact H.
    + apply (ieq_at_trans r _ _ _ Hb). rewrite commit_idx_imap. apply ieq_at_imap.
      intros c es k. apply commit_f_other. exact Hw.
Qed.

Definition untouched (r : N) (s s' : estate) : Prop :=
  aget (rows s') r = aget (rows s) r /\ ieq_at r (idx s') (idx s).

Lemma untouched_refl : forall r s, untouched r s s.
Proof. intros r s. split; [reflexivity|apply ieq_at_refl]. Qed.

Lemma untouched_with_lk : forall r s l, untouched r s (with_lk s l).
Proof. intros r s l. split; [reflexivity|apply ieq_at_refl]. Qed.

Lemma untouched_trans : forall r a b c, untouched r a b -> untouched r b c -> untouched r a c.
Proof.
  intros r a b c [H1 H2] [H3 H4]. split; [congruence|].
  apply (ieq_at_trans r _ _ _ H4 H2).
Qed.

Lemma untouched_abort : forall s l t r, GInv s -> aget (ex (lk s)) r <> Some t ->
  untouched r s (eabort_txn (with_lk s l) t).
Proof.
  intros s l t r [_ [H2 _]] Hn. unfold untouched, eabort_txn, with_lk. cbn [rows idx wsets lk].
  apply undo_fold_other. intros Hin. apply Hn. apply H2.
  apply (proj1 (rids_of_rev _ _)). exact Hin.
Qed.

Lemma untouched_exec : forall s t l w r, ~ In r (wrids w) -> untouched r s (fst (eexec s t l w)).
Proof.
  intros s t l w r Hn. unfold untouched, eexec. cbn [fst rows idx]. split.
  - apply do_rows_frame. exact Hn.
  - rewrite do_idx_imap. apply ieq_at_imap. intros c es k. apply do_f_other. exact Hn.
Qed.

(** One step of transaction [t]: a rid that [t] holds no X lock on, before and
    after the step, keeps its row and all its index entries. *)
Lemma step_leaves_others : forall s o r, GInv s ->
  aget (ex (lk s)) r <> Some (eop_txn o) ->
  aget (ex (lk (fst (estep s o)))) r <> Some (eop_txn o) ->
  untouched r s (fst (estep s o)).
Proof.
  intros s o r HG Hb Ha. pose proof (GInv_LInv s HG) as HL.
  destruct o as [t rid tp|t rid|t rid new|t rid nrid new|t rid|t|t]; cbn [estep eop_txn] in *.
  - destruct (aget (rows s) rid) as [x|] eqn:Er; [apply untouched_refl|].
    destruct (lstep (lk s) (LockX t rid)) as [l g] eqn:El.
    destruct (lgranted g) eqn:Eg; [|apply untouched_refl].
    apply lgranted_true in Eg. subst g.
    pose proof (lockX_held (lk s) t rid) as Hh. rewrite El in Hh. cbn [fst snd] in Hh.
    apply untouched_exec. cbn [eexec fst lk] in Ha. intros [E|[]]. subst r.
    apply Ha. apply Hh. reflexivity.
  - destruct (wlock (lk s) t rid) as [l g] eqn:El.
    destruct (wlock_spec _ _ _ _ _ El HL) as [HL' [Hm Hh]].
    destruct (lgranted g) eqn:Eg; [|apply untouched_abort; assumption].
    destruct (aget (rows s) rid) as [[tp [|]]|] eqn:Er; try (apply untouched_abort; assumption).
    apply untouched_exec. cbn [eexec fst lk] in Ha. intros [E|[]]. subst r.
    apply Ha. apply Hh. reflexivity.
  - destruct (wlock (lk s) t rid) as [l g] eqn:El.
    destruct (wlock_spec _ _ _ _ _ El HL) as [HL' [Hm Hh]].
    destruct (lgranted g) eqn:Eg; [|apply untouched_abort; assumption].
    destruct (aget (rows s) rid) as [[tp [|]]|] eqn:Er; try (apply untouched_abort; assumption).
    apply untouched_exec. cbn [eexec fst lk] in Ha. intros [E|[E|[]]]; subst r;
      apply Ha; apply Hh; reflexivity.
  - destruct (wlock (lk s) t rid) as [l g] eqn:El.
    destruct (wlock_spec _ _ _ _ _ El HL) as [HL' [Hm Hh]].
    destruct (lgranted g) eqn:Eg; [|apply untouched_abort; assumption].
    destruct (aget (rows s) rid) as [[tp [|]]|] eqn:Er; try (apply untouched_abort; assumption).
    destruct (aget (rows s) nrid) as [y|] eqn:Er2; [apply untouched_refl|].
    destruct (lstep l (LockX t nrid)) as [l2 g2] eqn:El2.
    destruct (lgranted g2) eqn:Eg2; [|apply untouched_refl].
    apply lgranted_true in Eg2. subst g2.
    pose proof (lockX_mono l t nrid) as Hm2. pose proof (lockX_held l t nrid) as Hh2.
    rewrite El2 in Hm2, Hh2. cbn [fst snd] in *.
    apply untouched_exec. intros [E|[E|[]]]; subst r; apply Ha.
    + apply Hm2. apply Hh. reflexivity.
    + apply Hh2. reflexivity.
  - destruct (rlock (lk s) t rid) as [l g] eqn:El.
    destruct (lgranted g) eqn:Eg; [|apply untouched_abort; assumption].
    destruct (aget (rows s) rid) as [[tp [|]]|] eqn:Er.
    + destruct (memN rid (agetl (xset l) t)); [apply untouched_with_lk|apply untouched_abort; assumption].
    + apply untouched_with_lk.
    + destruct (memN rid (agetl (xset l) t)); [apply untouched_with_lk|apply untouched_abort; assumption].
  - destruct HG as [_ [H2 _]]. unfold untouched, ecommit_txn. cbn [rows idx].
    apply commit_fold_other. intros Hin. apply Hb. apply H2.
    apply (proj1 (rids_of_rev _ _)). exact Hin.
  - assert (Hs : eabort_txn s t = eabort_txn (with_lk s (lk s)) t) by reflexivity.
    rewrite Hs. apply untouched_abort; assumption.
Qed.

(** Any run of one transaction (data operations, commit, abort). *)
Lemma run_leaves_others : forall ops s t r, GInv s ->
  Forall (fun o => eop_txn o = t) ops ->
  (forall n, aget (ex (lk (erun (firstn n ops) s))) r <> Some t) ->
  untouched r s (erun ops s).
Proof.
  induction ops as [|o ops IH]; intros s t r HG Hops Hn; cbn [erun fold_left].
  - apply untouched_refl.
  - inversion Hops as [|o' ops' Ht Hrest]. subst.
    apply (untouched_trans r _ (fst (estep s o))).
    + apply step_leaves_others; [exact HG|exact (Hn 0%nat)|exact (Hn 1%nat)].
    + apply (IH _ (eop_txn o)); [apply GInv_step; exact HG|exact Hrest|].
      intros n. exact (Hn (S n)).
Qed.

Lemma abort_leaves_others_lemma : forall s t ops r, ereachable s ->
  Forall (fun o => eop_txn o = t) ops ->
  (forall n, ~ holdsX (lk (erun (firstn n ops) s)) t r) ->
  aget (rows (erun ops s)) r = aget (rows s) r /\
  Forall2 (fun a b => fst a = fst b /\ forall k, cnt (k, r) (snd a) = cnt (k, r) (snd b))
          (idx (erun ops s)) (idx s).
Proof.
  intros s t ops r Hreach Hops Hn.
  apply (run_leaves_others ops s t r (GInv_reach s Hreach) Hops). exact Hn.
Qed.

(* ------------------------------------------------------------------ *)
(** * 6. C07 - every index agrees with the table *)

Definition IdxInv (s : estate) : Prop := IdxInvW (rows s) (idx s) (agetl (wsets s)).

Lemma idx_inv_reachable_lemma : forall s, ereachable s -> IdxInv s.
Proof. intros s H. apply GInv_reach in H. destruct H as [_ [_ [_ H4]]]. exact H4. Qed.

(** ** The heap list has no duplicate rid *)

Lemma keys_aset : forall {A} (m : list (N * A)) r v k,
  In k (map fst (aset m r v)) -> k = r \/ In k (map fst m).
Proof.
  intros A. induction m as [|[k0 v0] m IH]; intros r v k H; cbn [aset] in H.
  - cbn in H. destruct H as [H|[]]. left. symmetry. exact H.
  - destruct (N.eqb_spec k0 r) as [E|E]; cbn [map fst In] in *.
    + destruct H as [H|H]; [left; symmetry; exact H|right; right; exact H].
    + destruct H as [H|H]; [right; left; exact H|].
      apply IH in H. destruct H as [H|H]; [left; exact H|right; right; exact H].
Qed.

Lemma nodup_aset : forall {A} (m : list (N * A)) r v,
  NoDup (map fst m) -> NoDup (map fst (aset m r v)).
Proof.
  intros A. induction m as [|[k0 v0] m IH]; intros r v H; cbn [aset].
  - cbn. constructor; [intros []|constructor].
  - cbn [map fst] in H. inversion H as [|x l Hni Hnd]. subst.
    destruct (N.eqb_spec k0 r) as [E|E]; cbn [map fst].
    + subst k0. constructor; assumption.
    + constructor; [|apply IH; exact Hnd]. intros Hin. apply keys_aset in Hin.
      destruct Hin as [Hin|Hin]; [contradiction|contradiction].
Qed.

Lemma keys_adel : forall {A} (m : list (N * A)) r k,
  In k (map fst (adel m r)) -> In k (map fst m).
Proof.
  intros A. induction m as [|[k0 v0] m IH]; intros r k H; cbn [adel] in H.
  - exact H.
  - destruct (k0 =? r); cbn [map fst In] in *.
    + right. apply (IH r). exact H.
    + destruct H as [H|H]; [left; exact H|right; apply (IH r); exact H].
Qed.

Lemma nodup_adel : forall {A} (m : list (N * A)) r,
  NoDup (map fst m) -> NoDup (map fst (adel m r)).
Proof.
  intros A. induction m as [|[k0 v0] m IH]; intros r H; cbn [adel].
  - exact H.
  - cbn [map fst] in H. inversion H as [|x l Hni Hnd]. subst.
    destruct (k0 =? r); [apply IH; exact Hnd|]. cbn [map fst]. constructor.
    + intros Hin. apply keys_adel in Hin. contradiction.
    + apply IH. exact Hnd.
Qed.

Lemma nodup_rput : forall m r v, NoDup (map fst m) -> NoDup (map fst (rput m r v)).
Proof.
  intros m r [x|] H; cbn [rput]; [apply nodup_aset|apply nodup_adel]; exact H.
Qed.

Lemma nodup_do : forall w m, NoDup (map fst m) -> NoDup (map fst (do_rows m w)).
Proof.
  intros [r0 tp|r0 tp|r1 r2 old new] m H; cbn [do_rows]; try (apply nodup_rput; exact H).
  destruct (r1 =? r2); repeat apply nodup_rput; exact H.
Qed.

Lemma nodup_undo : forall w m, NoDup (map fst m) -> NoDup (map fst (undo_rows m w)).
Proof.
  intros [r0 tp|r0 tp|r1 r2 old new] m H; cbn [undo_rows]; try (apply nodup_rput; exact H).
  destruct (r1 =? r2); cbv zeta; repeat apply nodup_rput; exact H.
Qed.

Lemma nodup_commit : forall w m, NoDup (map fst m) -> NoDup (map fst (commit_rows m w)).
Proof.
  intros [r0 tp|r0 tp|r1 r2 old new] m H; cbn [commit_rows]; try (apply nodup_rput; exact H).
  - exact H.
  - destruct (r1 =? r2); [exact H|apply nodup_rput; exact H].
Qed.

Lemma nodup_fold : forall (f : list (N * (row * bool)) -> wrec -> list (N * (row * bool))),
  (forall w m, NoDup (map fst m) -> NoDup (map fst (f m w))) ->
  forall l m, NoDup (map fst m) -> NoDup (map fst (fold_left f l m)).
Proof.
  intros f Hf. induction l as [|w l IH]; intros m H; cbn [fold_left].
  - exact H.
  - apply IH. apply Hf. exact H.
Qed.

(** The heap after one step is the old heap, one executed record, an undone
    write set or a committed write set. *)
Inductive rows_step (m : list (N * (row * bool))) : list (N * (row * bool)) -> Prop :=
| RS_same : rows_step m m
| RS_do : forall w, rows_step m (do_rows m w)
| RS_undo : forall l, rows_step m (fold_left undo_rows l m)
| RS_commit : forall l, rows_step m (fold_left commit_rows l m).

Lemma estep_rows : forall s o, rows_step (rows s) (rows (fst (estep s o))).
Proof.
  intros s o.
  destruct o as [t rid tp|t rid|t rid new|t rid nrid new|t rid|t|t]; cbn [estep].
  - destruct (aget (rows s) rid) as [x|]; [apply RS_same|].
    destruct (lstep (lk s) (LockX t rid)) as [l g].
    destruct (lgranted g); [apply RS_do|apply RS_same].
  - destruct (wlock (lk s) t rid) as [l g].
    destruct (lgranted g); [|apply RS_undo].
    destruct (aget (rows s) rid) as [[tp [|]]|]; try apply RS_undo. apply RS_do.
  - destruct (wlock (lk s) t rid) as [l g].
    destruct (lgranted g); [|apply RS_undo].
    destruct (aget (rows s) rid) as [[tp [|]]|]; try apply RS_undo. apply RS_do.
  - destruct (wlock (lk s) t rid) as [l g].
    destruct (lgranted g); [|apply RS_undo].
    destruct (aget (rows s) rid) as [[tp [|]]|]; try apply RS_undo.
    destruct (aget (rows s) nrid) as [y|]; [apply RS_same|].
    destruct (lstep l (LockX t nrid)) as [l2 g2].
    destruct (lgranted g2); [apply RS_do|apply RS_same].
  - destruct (rlock (lk s) t rid) as [l g].
    destruct (lgranted g); [|apply RS_undo].
    destruct (aget (rows s) rid) as [[tp [|]]|].
    + destruct (memN rid (agetl (xset l) t)); [apply RS_same|apply RS_undo].
    + apply RS_same.
    + destruct (memN rid (agetl (xset l) t)); [apply RS_same|apply RS_undo].
  - apply RS_commit.
  - apply RS_undo.
Qed.

Lemma rows_nodup_reach : forall s, ereachable s -> NoDup (map fst (rows s)).
Proof.
  intros s [ic [ops ->]]. 
  assert (H0 : NoDup (map fst (rows (einit ic)))) by (cbn; constructor).
  revert H0. generalize (einit ic). induction ops as [|o ops IH]; intros s H; cbn [erun fold_left].
  - exact H.
  - apply IH. destruct (estep_rows s o).
    + exact H.
    + apply nodup_do. exact H.
    + apply nodup_fold; [apply nodup_undo|exact H].
    + apply nodup_fold; [apply nodup_commit|exact H].
Qed.

(** ** Quiescent states *)

Definition quiescent (s : estate) : Prop := forall t, agetl (wsets s) t = [].

(** The entry every heap row contributes to the index on column [c]. *)
Definition row_entries (c : nat) (m : list (N * (row * bool))) : list ientry :=
  map (fun e => (ecol c (fst (snd e)), fst e)) m.

Lemma aget_notin : forall {A} (m : list (N * A)) r, ~ In r (map fst m) -> aget m r = None.
Proof.
  intros A. induction m as [|[k0 v0] m IH]; intros r H; cbn [aget].
  - reflexivity.
  - cbn [map fst In] in H. destruct (N.eqb_spec k0 r) as [E|E]; [tauto|]. apply IH. tauto.
Qed.

Lemma cnt_row_entries : forall c m k r, NoDup (map fst m) ->
  cnt (k, r) (row_entries c m) = base m c k r.
Proof.
  intros c. induction m as [|[r0 [tp mk]] m IH]; intros k r H.
  - reflexivity.
  - cbn [map fst] in H. inversion H as [|x l Hni Hnd]. subst.
    unfold row_entries in *. cbn [map fst snd]. rewrite cnt_cons, eeqb_pair, IH by exact Hnd.
    unfold base. cbn [aget]. destruct (N.eqb_spec r0 r) as [E|E].
    + subst r0. rewrite andb_true_r, (aget_notin m r Hni). lia.
    + rewrite andb_false_r. cbn [ind]. lia.
Qed.

Lemma quiescent_not_moved : forall s r, quiescent s -> ~ MovedW (agetl (wsets s)) r.
Proof.
  intros s r Hq [t [r2 [old [new [H _]]]]]. rewrite Hq in H. destruct H.
Qed.

Lemma index_agrees_when_quiescent_lemma : forall s, ereachable s -> quiescent s ->
  forall c es, In (c, es) (idx s) -> Permutation es (row_entries c (rows s)).
Proof.
  intros s Hreach Hq c es Hin. apply cnt_perm. intros [k r].
  rewrite cnt_row_entries by (apply rows_nodup_reach; exact Hreach).
  destruct (idx_inv_reachable_lemma s Hreach c es Hin k r) as [_ Hb].
  apply Hb. apply quiescent_not_moved. exact Hq.
Qed.

Lemma iget_In : forall ix c, In c (map fst ix) -> In (c, iget ix c) ix.
Proof.
  induction ix as [|[c0 es0] ix IH]; intros c H; cbn [map fst In] in H.
  - destruct H.
  - cbn [iget]. destruct (Nat.eqb_spec c0 c) as [E|E].
    + subst c0. left. reflexivity.
    + right. apply IH. destruct H as [H|H]; [contradiction|exact H].
Qed.

Lemma perm_lookup : forall (p : ientry -> bool) l l', Permutation l l' ->
  Permutation (map snd (filter p l)) (map snd (filter p l')).
Proof.
  intros p l l' H. induction H as [|x l l' H IH|x y l|l l' l'' H1 IH1 H2 IH2].
  - constructor.
  - cbn [filter]. destruct (p x); cbn [map]; [constructor|]; exact IH.
  - cbn [filter]. destruct (p x); destruct (p y); cbn [map]; try apply Permutation_refl.
    apply perm_swap.
  - apply (Permutation_trans IH1 IH2).
Qed.

Lemma lookup_row_entries : forall c k m,
  map snd (filter (fun e : ientry => veqb (fst e) k) (row_entries c m)) =
  map fst (filter (fun e : N * (row * bool) => veqb (ecol c (fst (snd e))) k) m).
Proof.
  intros c k. induction m as [|[r0 [tp mk]] m IH]; unfold row_entries in *; cbn [map filter fst snd].
  - reflexivity.
  - destruct (veqb (ecol c tp) k); cbn [map fst snd]; rewrite IH; reflexivity.
Qed.

(** Index lookup = heap scan, as multisets of rids. *)
Lemma quiescent_lookup_lemma : forall s c k, ereachable s -> quiescent s -> In c (icols s) ->
  Permutation (ilookup s c k) (heap_rids s c k).
Proof.
  intros s c k Hreach Hq Hc. unfold ilookup, heap_rids.
  rewrite <- lookup_row_entries. apply perm_lookup.
  apply (index_agrees_when_quiescent_lemma s Hreach Hq c). apply iget_In. exact Hc.
Qed.

Lemma In_heap_rids : forall s c k rid, NoDup (map fst (rows s)) ->
  (In rid (heap_rids s c k) <->
   exists tp mk, aget (rows s) rid = Some (tp, mk) /\ ecol c tp = k).
Proof.
  intros s c k rid. unfold heap_rids. generalize (rows s) as m.
  induction m as [|[r0 [tp mk]] m IH]; intros H.
  - cbn. split; [intros []|intros [tp [mk [H1 _]]]; discriminate].
  - cbn [map fst] in H. inversion H as [|x l Hni Hnd]. subst.
    cbn [filter fst snd aget]. destruct (N.eqb_spec r0 rid) as [E|E].
    + subst r0. destruct (veqb (ecol c tp) k) eqn:Ek.
      * split; [|intros _; left; reflexivity]. intros _. exists tp, mk.
        split; [reflexivity|apply veqb_spec; exact Ek].
      * split.
        -- intros Hin. exfalso. apply Hni. apply in_map_iff in Hin.
           destruct Hin as [e [He Hin]]. apply filter_In in Hin. destruct Hin as [Hin _].
           apply in_map_iff. exists e. split; assumption.
        -- intros [tp' [mk' [H1 H2]]]. inversion H1. subst. rewrite veqb_refl in Ek. discriminate.
    + destruct (veqb (ecol c tp) k); cbn [map fst In]; rewrite <- (IH Hnd); [|reflexivity].
      split; [intros [H1|H1]; [contradiction|exact H1]|intros H1; right; exact H1].
Qed.

Lemma quiescent_lookup_exact_lemma : forall s c k rid, ereachable s -> quiescent s -> In c (icols s) ->
  (In rid (ilookup s c k) <->
   exists tp mk, aget (rows s) rid = Some (tp, mk) /\ ecol c tp = k).
Proof.
  intros s c k rid Hreach Hq Hc.
  rewrite <- (In_heap_rids s c k rid (rows_nodup_reach s Hreach)).
  pose proof (quiescent_lookup_lemma s c k Hreach Hq Hc) as HP. split; intros H.
  - apply (Permutation_in _ HP). exact H.
  - apply (Permutation_in _ (Permutation_sym HP)). exact H.
Qed.

(* ------------------------------------------------------------------ *)
(** * 7. C04 - dirty rows are X-locked, reads never see foreign dirty data *)

Lemma dirty_rows_x_locked_lemma : forall s, ereachable s -> forall t r,
  In r (rids_of (agetl (wsets s) t)) -> holdsX (lk s) t r.
Proof.
  intros s H t r Hr. apply GInv_reach in H. destruct H as [_ [H2 _]]. apply H2. exact Hr.
Qed.

(** A read that returns a row returns the heap's current, unmarked content, and
    no OTHER transaction has written that rid. *)
Lemma read_sees_committed_or_own_lemma : forall s t rid tp, ereachable s ->
  snd (estep s (OpRead t rid)) = ERow tp ->
  aget (rows s) rid = Some (tp, false) /\
  forall u, u <> t -> ~ In rid (rids_of (agetl (wsets s) u)).
Proof.
  intros s t rid tp Hreach. apply GInv_reach in Hreach.
  pose proof (GInv_LInv s Hreach) as HL. destruct Hreach as [_ [H2 _]]. cbn [estep].
  destruct (rlock (lk s) t rid) as [l g] eqn:El.
  destruct (rlock_spec _ _ _ _ _ El HL) as [_ [Hm Hh]].
  destruct (lgranted g) eqn:Eg; [|cbn; discriminate].
  destruct (aget (rows s) rid) as [[tp' [|]]|] eqn:Er.
  - destruct (memN rid (agetl (xset l) t)); cbn; discriminate.
  - cbn [snd]. intros H. inversion H. subst tp'. split; [reflexivity|].
    intros u Hne Hin. apply Hne. apply (Hh eq_refl). apply Hm. apply H2. exact Hin.
  - destruct (memN rid (agetl (xset l) t)); cbn; discriminate.
Qed.

(** When another transaction has an uncommitted write on [rid], a read of
    [rid] aborts the reader. *)
Lemma foreign_dirty_read_aborts_lemma : forall s t u rid, ereachable s ->
  u <> t -> In rid (rids_of (agetl (wsets s) u)) ->
  snd (estep s (OpRead t rid)) = EAborted.
Proof.
  intros s t u rid Hreach Hne Hin. apply GInv_reach in Hreach.
  pose proof (GInv_LInv s Hreach) as HL. destruct Hreach as [_ [H2 _]].
  apply H2 in Hin. cbn [estep]. unfold rlock.
  destruct HL as [L1 [_ [L3 L4]]].
  assert (Es : memN rid (agetl (sset (lk s)) t) = false).
  { apply memN_false. intros H. apply L3 in H. apply Hne. symmetry. apply (L1 rid u t Hin H). }
  assert (Ext : memN rid (agetl (xset (lk s)) t) = false).
  { apply memN_false. intros H. apply L4 in H. congruence. }
  rewrite Es, Ext. cbn [orb lstep]. unfold lock_shared. rewrite Hin.
  destruct (N.eqb_spec u t) as [E|E]; [contradiction|]. reflexivity.
Qed.

(** Entry present => the lookup returns the rid. *)
Lemma In_ilookup : forall s c k rid, In (k, rid) (iget (idx s) c) -> In rid (ilookup s c k).
Proof.
  intros s c k rid H. unfold ilookup. apply in_map_iff. exists (k, rid). split; [reflexivity|].
  apply filter_In. split; [exact H|]. cbn [fst]. apply veqb_refl.
Qed.

(** The statement one would like to have (the index scan for the committed key
    of a row visits the row even while another transaction has an uncommitted
    in-place update on it) - FALSE for the engine (finding F-IDX-DIRTY). *)
Definition index_scan_visits_committed_row : Prop :=
  forall s, ereachable s -> forall u rid old new c,
    agetl (wsets s) u = [WUpd rid rid old new] -> In c (icols s) ->
    In rid (ilookup s c (ecol c old)).

Definition dirty_witness : estate :=
  erun [OpInsert 1 10 [VInt 5; VInt 1]; OpCommit 1; OpUpdate 2 10 [VInt 7; VInt 1]]
       (einit [0%nat; 1%nat]).

Lemma index_scan_misses_committed_row_refuted_lemma : ~ index_scan_visits_committed_row.
Proof.
  intros H.
  specialize (H dirty_witness (ex_intro _ [0%nat; 1%nat] (ex_intro _ _ eq_refl))
                2 10 [VInt 5; VInt 1] [VInt 7; VInt 1] 0%nat).
  vm_compute in H. destruct (H eq_refl (or_introl eq_refl)).
Qed.

(** What does hold: the scan visits the row when the pending update left the
    key of that column unchanged. *)
Lemma index_scan_visits_committed_row_partial_lemma :
  forall s, ereachable s -> forall u rid old new c,
    agetl (wsets s) u = [WUpd rid rid old new] -> In c (icols s) ->
    ecol c old = ecol c new ->
    In rid (ilookup s c (ecol c old)).
Proof.
  intros s Hreach u rid old new c Hw Hc Hk. apply GInv_reach in Hreach.
  destruct Hreach as [_ [_ [H3 H4]]]. pose proof (H3 u) as HG. rewrite Hw in HG.
  cbn [rev app GoodR post] in HG. rewrite N.eqb_refl in HG. destruct HG as [Hp _].
  apply In_ilookup. apply cnt_pos_In.
  destruct (H4 c _ (iget_In _ _ Hc) (ecol c old) rid) as [_ Hb].
  rewrite Hb by (apply (not_moved_unmarked _ _ _ new H3 Hp)).
  unfold base. rewrite Hp, Hk, veqb_refl. cbn [ind]. lia.
Qed.

(** A rid cannot be both deleted and moved away by pending records. *)
Lemma GoodR_del_not_moved : forall rws m r tp r2 o n,
  GoodR rws m -> In (WDel r tp) rws -> In (WUpd r r2 o n) rws -> r <> r2 -> False.
Proof.
  induction rws as [|w rest IH]; intros m r tp r2 o n HG Hd Hm Hne; cbn [GoodR] in HG.
  - destruct Hd.
  - destruct HG as [Hp HG]. destruct Hd as [Hd|Hd]; destruct Hm as [Hm|Hm].
    + subst w. discriminate.
    + subst w. pose proof (GoodR_mov_marked _ _ _ _ _ _ HG Hm Hne) as H.
      apply (undo_marked _ _ _ _ Hp) in H. destruct H as [_ H]. apply H. left. reflexivity.
    + subst w. pose proof (GoodR_del_marked _ _ _ _ HG Hd) as H.
      apply (undo_marked _ _ _ _ Hp) in H. destruct H as [_ H]. apply H. left. reflexivity.
    + apply (IH _ _ _ _ _ _ HG Hd Hm Hne).
Qed.

(** A row with a pending delete keeps its index entries (they go at commit), so
    an index scan for its key still visits it - and then runs into the X lock
    ([foreign_dirty_read_aborts_lemma]). *)
Lemma pending_delete_still_indexed_lemma : forall s u rid tp c, ereachable s ->
  In (WDel rid tp) (agetl (wsets s) u) -> In c (icols s) ->
  aget (rows s) rid = Some (tp, true) /\ In rid (ilookup s c (ecol c tp)).
Proof.
  intros s u rid tp c Hreach Hin Hc. apply GInv_reach in Hreach.
  destruct Hreach as [_ [H2 [H3 H4]]].
  assert (Hd : In (WDel rid tp) (rev (agetl (wsets s) u))) by (apply in_rev in Hin; exact Hin).
  pose proof (GoodR_del_marked _ _ _ _ (H3 u) Hd) as Hmk. split; [exact Hmk|].
  apply In_ilookup. apply cnt_pos_In.
  destruct (H4 c _ (iget_In _ _ Hc) (ecol c tp) rid) as [_ Hb]. rewrite Hb.
  - unfold base. rewrite Hmk, veqb_refl. cbn [ind]. lia.
  - intros [t' [r2 [o [n [Hi Hne]]]]].
    assert (E : u = t').
    { apply (owner_unique (agetl (wsets s)) (lk s) u t' rid H2).
      - apply (rids_of_In _ (WDel rid tp)); [exact Hin|left; reflexivity].
      - apply (rids_of_In _ (WUpd rid r2 o n)); [exact Hi|left; reflexivity]. }
    subst t'. apply in_rev in Hi.
    apply (GoodR_del_not_moved _ _ _ _ _ _ _ (H3 u) Hd Hi Hne).
Qed.
