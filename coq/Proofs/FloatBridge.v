(** Bridge from the bit-pattern model of float32 ([Model/Codec.v]: [f_cmp],
    [f_is_nan]) to the IEEE-754 binary32 semantics of the Flocq library.

    A float32 of the model is its 32-bit pattern [u < 2^32].  [to_b32 u] is the
    Flocq [binary32] value with that encoding ([b32_of_bits], whose inverse is
    [bits_of_b32]).  This file proves that

    - [f_is_nan u] holds exactly when [to_b32 u] is a NaN;
    - for non-NaN patterns [f_cmp u v] is Flocq's [Bcompare] of the two values,
      hence (for finite values) the comparison [Rcompare] of the real numbers
      they denote, with -inf below and +inf above every finite value;
    - consequently the order theorems on the index-key encoding
      ([enc_f32_order], [f32_key_adjacent], [f32_scankey_bracket]) are
      statements about the IEEE-754 order.

    Nothing is assumed here.  Flocq's [b32_of_bits] itself carries, through its
    opaque validity proof, the standard-library axioms of the classical reals
    ([ClassicalDedekindReals.sig_forall_dec], [sig_not_dec],
    [functional_extensionality_dep], [Classical_Prop.classic]), so every
    statement that mentions [to_b32] lists them; the core lemma
    [f_cmp_is_SFcompare], stated over [spec_float], is closed under the global
    context. *)
From Coq Require Import List NArith ZArith Lia Lra Bool Reals.
From Coq Require Import ZifyBool ZifyN.
From Coq Require Import SpecFloat.
From Flocq Require Import Core.Zaux Core.Raux Core.Defs IEEE754.Binary IEEE754.Bits.
From SDB Require Import Base.Bytes Params Model.Codec Proofs.BytesProofs Proofs.CodecProofs.
Import ListNotations.

Arguments N.div : simpl never.
Arguments N.modulo : simpl never.
Arguments Z.div : simpl never.
Arguments Z.modulo : simpl never.
Arguments Z.mul : simpl never.
Arguments Z.add : simpl never.

Open Scope Z_scope.

(** * The IEEE value of a bit pattern *)

Definition to_b32 (u : N) : binary32 := b32_of_bits (Z.of_N u).

(** [to_b32] is the inverse of the IEEE-754 interchange encoding: the pattern
    of [to_b32 u] is [u] (NaN payloads included). *)
Lemma bits_of_to_b32 u : (u < two32)%N -> bits_of_b32 (to_b32 u) = Z.of_N u.
Proof.
  intros Hu. unfold to_b32, bits_of_b32, b32_of_bits.
  apply bits_of_binary_float_of_bits.
  change (2 ^ (23 + 8 + 1)) with 4294967296. unfold two32 in Hu. lia.
Qed.

(** * Field decomposition *)

(** Flocq's decoder [binary_float_of_bits_aux 23 8] with its constants
    evaluated: a function of the sign bit, the 23-bit fraction field [m] and
    the 8-bit biased exponent field [e]. *)
Definition ff_of_fields (s : bool) (m e : Z) : full_float :=
  if Zeq_bool e 0 then
    match m with
    | Z0 => F754_zero s
    | Zpos p => F754_finite s p (-149)
    | Zneg _ => F754_nan false xH
    end
  else if Zeq_bool e 255 then
    match m with
    | Z0 => F754_infinity s
    | Zpos p => F754_nan s p
    | Zneg _ => F754_nan false xH
    end
  else
    match m + 8388608 with
    | Zpos p => F754_finite s p (e + -149 - 1)
    | _ => F754_nan false xH
    end.

Definition sign_field (x : Z) : bool := Zle_bool 2147483648 x.
Definition man_field (x : Z) : Z := x mod 8388608.
Definition exp_field (x : Z) : Z := (x / 8388608) mod 256.

Lemma aux_fields x :
  binary_float_of_bits_aux 23 8 x = ff_of_fields (sign_field x) (man_field x) (exp_field x).
Proof. reflexivity. Qed.

Lemma to_b32_B2FF u :
  B2FF 24 128 (to_b32 u) =
  ff_of_fields (sign_field (Z.of_N u)) (man_field (Z.of_N u)) (exp_field (Z.of_N u)).
Proof.
  unfold to_b32, b32_of_bits, binary_float_of_bits.
  rewrite B2FF_FF2B. apply aux_fields.
Qed.

(** [Bcompare] looks only at the [full_float] underneath a [binary_float]. *)
Lemma Bcompare_B2FF (a b : binary32) :
  Bcompare 24 128 a b = SFcompare (FF2SF (B2FF 24 128 a)) (FF2SF (B2FF 24 128 b)).
Proof. destruct a, b; reflexivity. Qed.

Definition fields_ok (m e : Z) : Prop := 0 <= m < 8388608 /\ 0 <= e < 256.
Definition fields_nan (m e : Z) : bool := (e =? 255) && (0 <? m).

(** Sign/magnitude key of a field triple; the magnitude is the low 31 bits. *)
Definition mag3 (m e : Z) : Z := e * 8388608 + m.
Definition key3 (s : bool) (m e : Z) : Z := if s then - mag3 m e else mag3 m e.

(** Classification of a decoded value against its magnitude key [M] (the low
    31 bits of the pattern).  A finite value [p * 2^ex] has magnitude key
    [(ex + 149) * 2^23 + p]: subnormals ([ex = -149], [p < 2^23]) and normals
    ([2^23 <= p < 2^24]) fall under the same formula. *)
Inductive ff_class (s : bool) (M : Z) : full_float -> Prop :=
| FC_zero : M = 0 -> ff_class s M (F754_zero s)
| FC_fin p ex :
    M = (ex + 149) * 8388608 + Zpos p ->
    -149 <= ex <= 104 -> Zpos p < 16777216 ->
    (-149 < ex -> 8388608 <= Zpos p) ->
    ff_class s M (F754_finite s p ex)
| FC_inf : M = 2139095040 -> ff_class s M (F754_infinity s).

Lemma ff_of_fields_class s m e :
  fields_ok m e -> fields_nan m e = false -> ff_class s (mag3 m e) (ff_of_fields s m e).
Proof.
  intros [Hm He] Hn. unfold ff_of_fields, fields_nan, mag3 in *.
  pose proof (Zeq_bool_if e 0) as H0. destruct (Zeq_bool e 0).
  - subst e. destruct m as [|p|p].
    + constructor. reflexivity.
    + constructor; lia.
    + lia.
  - pose proof (Zeq_bool_if e 255) as H1. destruct (Zeq_bool e 255).
    + subst e. destruct m as [|p|p].
      * constructor. reflexivity.
      * exfalso. lia.
      * lia.
    + destruct (m + 8388608) as [|p|p] eqn:E.
      * lia.
      * constructor; lia.
      * lia.
Qed.

Local Ltac cmp_solve :=
  f_equal; symmetry;
  first [ apply Z.compare_eq_iff | apply Z.compare_lt_iff | apply Z.compare_gt_iff ];
  lia.

(** The core of the bridge: IEEE comparison of two classified values is
    comparison of their sign/magnitude keys. *)
Lemma SFcompare_class s1 M1 f1 s2 M2 f2 :
  ff_class s1 M1 f1 -> ff_class s2 M2 f2 ->
  SFcompare (FF2SF f1) (FF2SF f2) =
  Some ((if s1 then - M1 else M1) ?= (if s2 then - M2 else M2)).
Proof.
  intros C1 C2.
  destruct C1 as [Z1|p1 x1 E1 B1 P1 N1|I1], C2 as [Z2|p2 x2 E2 B2 P2 N2|I2];
    destruct s1, s2; cbn [FF2SF SFcompare]; try cmp_solve.
  - (* both negative finite *)
    change (Pos.compare_cont Eq p1 p2) with (Pos.compare p1 p2).
    rewrite Pos2Z.inj_compare.
    destruct (Z.compare_spec x1 x2); [destruct (Z.compare_spec (Zpos p1) (Zpos p2))| |];
      cbn [CompOpp]; cmp_solve.
  - (* both positive finite *)
    change (Pos.compare_cont Eq p1 p2) with (Pos.compare p1 p2).
    rewrite Pos2Z.inj_compare.
    destruct (Z.compare_spec x1 x2); [destruct (Z.compare_spec (Zpos p1) (Zpos p2))| |];
      cmp_solve.
Qed.

Lemma SFcompare_fields s1 m1 e1 s2 m2 e2 :
  fields_ok m1 e1 -> fields_ok m2 e2 ->
  fields_nan m1 e1 = false -> fields_nan m2 e2 = false ->
  SFcompare (FF2SF (ff_of_fields s1 m1 e1)) (FF2SF (ff_of_fields s2 m2 e2)) =
  Some (key3 s1 m1 e1 ?= key3 s2 m2 e2).
Proof.
  intros Hk1 Hk2 Hn1 Hn2. unfold key3.
  apply SFcompare_class; now apply ff_of_fields_class.
Qed.

(** * From bit patterns to fields *)

Lemma fields_ok_of_N u : fields_ok (man_field (Z.of_N u)) (exp_field (Z.of_N u)).
Proof. unfold fields_ok, man_field, exp_field. lia. Qed.

Lemma f_is_nan_fields u :
  f_is_nan u = fields_nan (man_field (Z.of_N u)) (exp_field (Z.of_N u)).
Proof.
  unfold f_is_nan, f_exp, f_man, fields_nan, man_field, exp_field.
  rewrite <- (N2Z.id u) at 1 2.
  generalize (N2Z.is_nonneg u). generalize (Z.of_N u). intros x Hx.
  change 8388608%N with (Z.to_N 8388608). change 256%N with (Z.to_N 256).
  rewrite <- Z2N.inj_div, <- !Z2N.inj_mod by (try apply Z.div_pos; lia).
  f_equal.
  - apply eq_true_iff_eq. rewrite N.eqb_eq, Z.eqb_eq. lia.
  - apply eq_true_iff_eq. rewrite N.ltb_lt, Z.ltb_lt. lia.
Qed.

Lemma f_key_fields u : (u < two32)%N ->
  f_key u = key3 (sign_field (Z.of_N u)) (man_field (Z.of_N u)) (exp_field (Z.of_N u)).
Proof.
  unfold two32, f_key, key3, mag3, sign_field, man_field, exp_field, two31. intros Hu.
  destruct (N.ltb_spec u 2147483648), (Z.leb_spec 2147483648 (Z.of_N u)); lia.
Qed.

(** * NaN and finiteness *)

Lemma f_is_nan_spec u : f_is_nan u = is_nan 24 128 (to_b32 u).
Proof.
  rewrite <- is_nan_B2FF, to_b32_B2FF, f_is_nan_fields.
  destruct (fields_ok_of_N u) as [Hm He].
  generalize dependent (man_field (Z.of_N u)). generalize dependent (exp_field (Z.of_N u)).
  generalize (sign_field (Z.of_N u)). intros s e He m Hm.
  unfold ff_of_fields, fields_nan.
  pose proof (Zeq_bool_if e 0) as H0. destruct (Zeq_bool e 0).
  - subst e. now destruct m.
  - pose proof (Zeq_bool_if e 255) as H1. destruct (Zeq_bool e 255).
    + subst e. destruct m; try reflexivity. lia.
    + replace (e =? 255) with false by (symmetry; apply Z.eqb_neq; assumption).
      destruct (m + 8388608) eqn:E; try reflexivity; lia.
Qed.

(** A pattern denotes a finite value iff its exponent field is not all ones. *)
Definition f_is_finite (u : N) : bool := negb (f_exp u =? 255)%N.

Lemma f_is_finite_spec u : f_is_finite u = is_finite 24 128 (to_b32 u).
Proof.
  rewrite <- is_finite_B2FF, to_b32_B2FF.
  assert (f_is_finite u = negb (exp_field (Z.of_N u) =? 255)) as ->.
  { unfold f_is_finite, f_exp, exp_field. f_equal.
    apply eq_true_iff_eq. rewrite N.eqb_eq, Z.eqb_eq. lia. }
  destruct (fields_ok_of_N u) as [Hm He].
  generalize dependent (man_field (Z.of_N u)). generalize dependent (exp_field (Z.of_N u)).
  generalize (sign_field (Z.of_N u)). intros s e He m Hm.
  unfold ff_of_fields.
  pose proof (Zeq_bool_if e 0) as H0. destruct (Zeq_bool e 0).
  - subst e. destruct m; try reflexivity. lia.
  - pose proof (Zeq_bool_if e 255) as H1. destruct (Zeq_bool e 255).
    + subst e. now destruct m.
    + replace (e =? 255) with false by (symmetry; apply Z.eqb_neq; assumption).
      destruct (m + 8388608) eqn:E; try reflexivity; lia.
Qed.

(** * The main lemma: [f_cmp] is the IEEE-754 comparison *)

(** Axiom-free core.  [to_sf u] is Flocq's decoder followed by the forgetful
    map to Coq's [spec_float]; [SFcompare] is the IEEE-754 comparison of the
    standard library (the specification of primitive floats), and is what
    [Bcompare] is defined by.  No real number is involved. *)
Definition to_sf (u : N) : spec_float := FF2SF (binary_float_of_bits_aux 23 8 (Z.of_N u)).

Lemma to_sf_spec u : B2SF 24 128 (to_b32 u) = to_sf u.
Proof.
  unfold to_sf. rewrite aux_fields, <- to_b32_B2FF.
  now destruct (to_b32 u).
Qed.

Lemma f_cmp_is_SFcompare u v :
  (u < two32)%N -> (v < two32)%N -> f_is_nan u = false -> f_is_nan v = false ->
  SFcompare (to_sf u) (to_sf v) = Some (f_cmp u v).
Proof.
  intros Hu Hv Nu Nv. unfold to_sf. rewrite !aux_fields. unfold f_cmp.
  rewrite (f_key_fields u Hu), (f_key_fields v Hv).
  rewrite f_is_nan_fields in Nu, Nv.
  apply SFcompare_fields; auto using fields_ok_of_N.
Qed.

Lemma f_cmp_is_Bcompare u v :
  (u < two32)%N -> (v < two32)%N -> f_is_nan u = false -> f_is_nan v = false ->
  Bcompare 24 128 (to_b32 u) (to_b32 v) = Some (f_cmp u v).
Proof.
  intros Hu Hv Nu Nv.
  rewrite Bcompare_B2FF, !to_b32_B2FF, <- !aux_fields.
  now apply f_cmp_is_SFcompare.
Qed.

Lemma f_cmp_is_Bcompare_ok u v : f_ok u -> f_ok v ->
  Bcompare 24 128 (to_b32 u) (to_b32 v) = Some (f_cmp u v).
Proof. intros [Hu Nu] [Hv Nv]. now apply f_cmp_is_Bcompare. Qed.

Lemma f_cmp_is_SFcompare_ok u v : f_ok u -> f_ok v ->
  SFcompare (to_sf u) (to_sf v) = Some (f_cmp u v).
Proof. intros [Hu Nu] [Hv Nv]. now apply f_cmp_is_SFcompare. Qed.

(** NaN patterns are unordered, so the non-NaN hypotheses are necessary. *)
Lemma Bcompare_nan_l u v : f_is_nan u = true -> Bcompare 24 128 (to_b32 u) (to_b32 v) = None.
Proof.
  rewrite f_is_nan_spec. destruct (to_b32 u); try discriminate. reflexivity.
Qed.

Lemma Bcompare_nan_r u v : f_is_nan v = true -> Bcompare 24 128 (to_b32 u) (to_b32 v) = None.
Proof.
  rewrite f_is_nan_spec. destruct (to_b32 v); try discriminate. now destruct (to_b32 u).
Qed.

(** * Real-number reading *)

(** Finite values: [f_cmp] is the order of the real numbers denoted. *)
Lemma f_cmp_is_Rcompare u v :
  (u < two32)%N -> (v < two32)%N -> f_is_finite u = true -> f_is_finite v = true ->
  f_cmp u v = Rcompare (B2R 24 128 (to_b32 u)) (B2R 24 128 (to_b32 v)).
Proof.
  intros Hu Hv Fu Fv.
  assert (Nu : f_is_nan u = false).
  { unfold f_is_finite in Fu. unfold f_is_nan. destruct (f_exp u =? 255)%N; [discriminate|reflexivity]. }
  assert (Nv : f_is_nan v = false).
  { unfold f_is_finite in Fv. unfold f_is_nan. destruct (f_exp v =? 255)%N; [discriminate|reflexivity]. }
  pose proof (f_cmp_is_Bcompare u v Hu Hv Nu Nv) as H.
  rewrite f_is_finite_spec in Fu, Fv.
  rewrite (Bcompare_correct 24 128 _ _ Fu Fv) in H. now inversion H.
Qed.

(** The two infinities. *)
Definition pos_inf_bits : N := 2139095040.  (* 0x7F800000 *)
Definition neg_inf_bits : N := 4286578688.  (* 0xFF800000 *)

Lemma to_b32_pos_inf : to_b32 pos_inf_bits = B754_infinity 24 128 false.
Proof. vm_compute. reflexivity. Qed.
Lemma to_b32_neg_inf : to_b32 neg_inf_bits = B754_infinity 24 128 true.
Proof. vm_compute. reflexivity. Qed.

(** A non-NaN pattern is finite or one of the two infinity patterns. *)
Lemma f_ok_cases u : f_ok u ->
  f_is_finite u = true \/ u = pos_inf_bits \/ u = neg_inf_bits.
Proof.
  intros [Hu Nu]. unfold f_is_finite, f_is_nan, f_exp, f_man, two32, pos_inf_bits, neg_inf_bits in *.
  destruct (N.eqb_spec ((u / 8388608) mod 256) 255) as [E|E]; [right|left; reflexivity].
  rewrite andb_true_l in Nu. apply N.ltb_ge in Nu. lia.
Qed.

(** -inf is below, and +inf above, every other non-NaN value. *)
Lemma f_cmp_neg_inf v : f_ok v -> v <> neg_inf_bits -> f_cmp neg_inf_bits v = Lt.
Proof.
  intros [Hv Nv] Hne. apply f_nan_high in Nv; [|assumption].
  unfold f_cmp, f_key, two31, two32, neg_inf_bits in *.
  apply Z.compare_lt_iff.
  destruct (N.ltb_spec v 2147483648); change (4286578688 <? 2147483648)%N with false; cbv iota; lia.
Qed.

Lemma f_cmp_pos_inf u : f_ok u -> u <> pos_inf_bits -> f_cmp u pos_inf_bits = Lt.
Proof.
  intros [Hu Nu] Hne. apply f_nan_high in Nu; [|assumption].
  unfold f_cmp, f_key, two31, two32, pos_inf_bits in *.
  apply Z.compare_lt_iff.
  destruct (N.ltb_spec u 2147483648); change (2139095040 <? 2147483648)%N with true; cbv iota; lia.
Qed.

Lemma f_cmp_refl u : f_cmp u u = Eq.
Proof. apply Z.compare_refl. Qed.

(** The whole order in one statement, in terms of real numbers: [c] is the
    IEEE-754 comparison of [a] and [b] when neither is a NaN — the order of the
    reals they denote when both are finite, -inf below and +inf above every
    finite value, equal infinities equal. *)
Definition ieee_order_spec (a b : binary32) (c : comparison) : Prop :=
  match a, b with
  | B754_nan _ _ _ _ _, _ | _, B754_nan _ _ _ _ _ => False
  | B754_infinity _ _ s1, B754_infinity _ _ s2 =>
      c = match s1, s2 with
          | true, true | false, false => Eq
          | true, false => Lt
          | false, true => Gt
          end
  | B754_infinity _ _ s, _ => c = if s then Lt else Gt
  | _, B754_infinity _ _ s => c = if s then Gt else Lt
  | _, _ => c = Rcompare (B2R 24 128 a) (B2R 24 128 b)
  end.

Lemma Bcompare_order_spec (a b : binary32) c :
  Bcompare 24 128 a b = Some c -> ieee_order_spec a b c.
Proof.
  intros H.
  destruct a as [sa|sa|sa pa Ha|sa ma ea Ha], b as [sb|sb|sb pb Hb|sb mb eb Hb];
    try discriminate H;
    try (rewrite Bcompare_correct in H by reflexivity; injection H as <-; reflexivity);
    cbn in H; injection H as <-; cbn; reflexivity.
Qed.

Lemma f_cmp_order_spec u v : f_ok u -> f_ok v ->
  ieee_order_spec (to_b32 u) (to_b32 v) (f_cmp u v).
Proof. intros Hu Hv. apply Bcompare_order_spec. now apply f_cmp_is_Bcompare_ok. Qed.

(** * The key-order theorems, restated over IEEE-754 semantics *)

(** [enc_f32_order] : byte-wise comparison of two encoded non-NaN floats is
    the IEEE-754 comparison of the values. *)
Lemma enc_f32_order_ieee u v : f_ok u -> f_ok v ->
  Bcompare 24 128 (to_b32 u) (to_b32 v) = Some (lex_cmp (enc_f32 u) (enc_f32 v)).
Proof.
  intros Hu Hv. rewrite (enc_f32_order u v Hu Hv). now apply f_cmp_is_Bcompare_ok.
Qed.

(** The same without any axiom, over [spec_float]. *)
Lemma enc_f32_order_spec_float u v : f_ok u -> f_ok v ->
  SFcompare (to_sf u) (to_sf v) = Some (lex_cmp (enc_f32 u) (enc_f32 v)).
Proof.
  intros Hu Hv. rewrite (enc_f32_order u v Hu Hv). now apply f_cmp_is_SFcompare_ok.
Qed.

Lemma enc_f32_order_real u v : f_ok u -> f_ok v ->
  ieee_order_spec (to_b32 u) (to_b32 v) (lex_cmp (enc_f32 u) (enc_f32 v)).
Proof.
  intros Hu Hv. rewrite (enc_f32_order u v Hu Hv). now apply f_cmp_order_spec.
Qed.

Lemma enc_f32_order_Rcompare u v : f_ok u -> f_ok v ->
  is_finite 24 128 (to_b32 u) = true -> is_finite 24 128 (to_b32 v) = true ->
  lex_cmp (enc_f32 u) (enc_f32 v) = Rcompare (B2R 24 128 (to_b32 u)) (B2R 24 128 (to_b32 v)).
Proof.
  intros Hu Hv Fu Fv. rewrite (enc_f32_order u v Hu Hv).
  rewrite <- f_is_finite_spec in Fu, Fv.
  destruct Hu, Hv. now apply f_cmp_is_Rcompare.
Qed.

(** [f32_key_adjacent] : full index keys (value ++ row id) of IEEE-smaller
    values sort first, whatever the row ids. *)
Lemma f32_key_adjacent_ieee u v p s p' s' : f_ok u -> f_ok v ->
  Bcompare 24 128 (to_b32 u) (to_b32 v) = Some Lt ->
  lex_cmp (enc_f32_key u p s) (enc_f32_key v p' s') = Lt.
Proof.
  intros Hu Hv H. rewrite (f_cmp_is_Bcompare_ok u v Hu Hv) in H.
  injection H as H. now apply f32_key_adjacent.
Qed.

(** Full index keys order as the IEEE values whenever the values differ. *)
Lemma enc_f32_key_order_ieee u v p s p' s' : f_ok u -> f_ok v ->
  Bcompare 24 128 (to_b32 u) (to_b32 v) <> Some Eq ->
  Bcompare 24 128 (to_b32 u) (to_b32 v) =
  Some (lex_cmp (enc_f32_key u p s) (enc_f32_key v p' s')).
Proof.
  intros Hu Hv H. rewrite (f_cmp_is_Bcompare_ok u v Hu Hv) in *. f_equal.
  destruct (f_cmp u v) eqn:E.
  - congruence.
  - symmetry. now apply f32_key_adjacent.
  - assert (E' : f_cmp v u = Lt) by (rewrite f_cmp_antisym, E; reflexivity).
    pose proof (f32_key_adjacent v u p' s' p s Hv Hu E') as K.
    rewrite lex_cmp_antisym, K. reflexivity.
Qed.

(** [f32_scankey_bracket] : the ScanKey bracket of [u] holds exactly the keys
    whose value is IEEE-equal to [u] (so +0 and -0 share a bracket). *)
Lemma f32_scankey_bracket_ieee u v p s : f_ok u -> f_ok v -> rid_ok p s ->
  between (enc_f32_key u 0 0) (enc_f32_key v p s) (enc_f32_key u 2147483647 4294967295)
  <-> Bcompare 24 128 (to_b32 v) (to_b32 u) = Some Eq.
Proof.
  intros Hu Hv Hr. rewrite (f32_scankey_bracket u v p s Hu Hv Hr).
  rewrite (f_cmp_is_Bcompare_ok v u Hv Hu). split; [now intros ->|congruence].
Qed.

(** * Non-vacuity: concrete patterns *)

Definition bits_one : N := 1065353216.        (* 0x3F800000 =  1.0 *)
Definition bits_neg_one : N := 3212836864.    (* 0xBF800000 = -1.0 *)
Definition bits_two : N := 1073741824.        (* 0x40000000 =  2.0 *)
Definition bits_pos_zero : N := 0.
Definition bits_neg_zero : N := 2147483648.   (* 0x80000000 *)
Definition bits_min_sub : N := 1.             (* 2^-149 *)
Definition bits_neg_min_sub : N := 2147483649.
Definition bits_max_sub : N := 8388607.       (* 0x007FFFFF *)
Definition bits_min_normal : N := 8388608.    (* 0x00800000 = 2^-126 *)
Definition bits_max_float : N := 2139095039.  (* 0x7F7FFFFF *)
Definition bits_qnan : N := 2143289344.       (* 0x7FC00000 *)

Example decode_examples :
  B2FF 24 128 (to_b32 bits_one) = F754_finite false 8388608 (-23) /\
  B2FF 24 128 (to_b32 bits_neg_one) = F754_finite true 8388608 (-23) /\
  B2FF 24 128 (to_b32 bits_two) = F754_finite false 8388608 (-22) /\
  B2FF 24 128 (to_b32 bits_pos_zero) = F754_zero false /\
  B2FF 24 128 (to_b32 bits_neg_zero) = F754_zero true /\
  B2FF 24 128 (to_b32 bits_min_sub) = F754_finite false 1 (-149) /\
  B2FF 24 128 (to_b32 bits_max_sub) = F754_finite false 8388607 (-149) /\
  B2FF 24 128 (to_b32 bits_min_normal) = F754_finite false 8388608 (-149) /\
  B2FF 24 128 (to_b32 bits_max_float) = F754_finite false 16777215 104 /\
  B2FF 24 128 (to_b32 pos_inf_bits) = F754_infinity false /\
  B2FF 24 128 (to_b32 neg_inf_bits) = F754_infinity true /\
  B2FF 24 128 (to_b32 bits_qnan) = F754_nan false 4194304.
Proof. vm_compute. repeat split. Qed.

Example ieee_compare_examples :
  Bcompare 24 128 (to_b32 bits_neg_one) (to_b32 bits_one) = Some Lt /\
  Bcompare 24 128 (to_b32 bits_one) (to_b32 bits_two) = Some Lt /\
  Bcompare 24 128 (to_b32 bits_neg_zero) (to_b32 bits_pos_zero) = Some Eq /\
  Bcompare 24 128 (to_b32 bits_pos_zero) (to_b32 bits_min_sub) = Some Lt /\
  Bcompare 24 128 (to_b32 bits_neg_min_sub) (to_b32 bits_neg_zero) = Some Lt /\
  Bcompare 24 128 (to_b32 bits_max_sub) (to_b32 bits_min_normal) = Some Lt /\
  Bcompare 24 128 (to_b32 bits_max_float) (to_b32 pos_inf_bits) = Some Lt /\
  Bcompare 24 128 (to_b32 neg_inf_bits) (to_b32 bits_neg_one) = Some Lt /\
  Bcompare 24 128 (to_b32 neg_inf_bits) (to_b32 pos_inf_bits) = Some Lt /\
  Bcompare 24 128 (to_b32 pos_inf_bits) (to_b32 pos_inf_bits) = Some Eq /\
  Bcompare 24 128 (to_b32 bits_two) (to_b32 bits_one) = Some Gt /\
  Bcompare 24 128 (to_b32 bits_qnan) (to_b32 bits_one) = None.
Proof. vm_compute. repeat split. Qed.

(** The same comparisons through the model and through the key encoding. *)
Example model_compare_examples :
  f_cmp bits_neg_one bits_one = Lt /\ f_cmp bits_one bits_two = Lt /\
  f_cmp bits_neg_zero bits_pos_zero = Eq /\ f_cmp bits_pos_zero bits_min_sub = Lt /\
  f_cmp bits_neg_min_sub bits_neg_zero = Lt /\ f_cmp bits_max_sub bits_min_normal = Lt /\
  f_cmp bits_max_float pos_inf_bits = Lt /\ f_cmp neg_inf_bits bits_neg_one = Lt /\
  f_cmp neg_inf_bits pos_inf_bits = Lt /\ f_cmp bits_two bits_one = Gt /\
  lex_cmp (enc_f32 bits_neg_one) (enc_f32 bits_one) = Lt /\
  lex_cmp (enc_f32 bits_neg_zero) (enc_f32 bits_pos_zero) = Eq /\
  lex_cmp (enc_f32 neg_inf_bits) (enc_f32 bits_neg_min_sub) = Lt /\
  lex_cmp (enc_f32 bits_max_float) (enc_f32 pos_inf_bits) = Lt.
Proof. vm_compute. repeat split. Qed.

Example hypotheses_examples :
  f_ok bits_one /\ f_ok bits_neg_one /\ f_ok bits_neg_zero /\ f_ok bits_min_sub /\
  f_ok bits_max_float /\ f_ok pos_inf_bits /\ f_ok neg_inf_bits /\
  f_is_nan bits_qnan = true /\ is_nan 24 128 (to_b32 bits_qnan) = true /\
  f_is_finite bits_max_float = true /\ is_finite 24 128 (to_b32 bits_max_float) = true /\
  f_is_finite pos_inf_bits = false /\ is_finite 24 128 (to_b32 pos_inf_bits) = false.
Proof. vm_compute. repeat split. Qed.

(** Real values denoted (proved, not computed: the reals do not compute). *)
Example real_value_examples :
  B2R 24 128 (to_b32 bits_one) = 1%R /\
  B2R 24 128 (to_b32 bits_neg_one) = (-1)%R /\
  B2R 24 128 (to_b32 bits_two) = 2%R /\
  B2R 24 128 (to_b32 bits_pos_zero) = 0%R /\
  B2R 24 128 (to_b32 bits_neg_zero) = 0%R.
Proof.
  assert (E : forall a f, B2FF 24 128 a = f -> B2R 24 128 a = FF2R radix2 f)
    by (intros a f <-; symmetry; apply FF2R_B2FF).
  pose proof decode_examples as (H1 & H2 & H3 & H4 & H5 & _).
  rewrite (E _ _ H1), (E _ _ H2), (E _ _ H3), (E _ _ H4), (E _ _ H5).
  unfold FF2R, Defs.F2R, Fnum, Fexp, cond_Zopp, bpow. cbv [radix_val radix2 Z.opp].
  change (Z.pow_pos 2 23) with 8388608. change (Z.pow_pos 2 22) with 4194304.
  repeat split; lra.
Qed.
