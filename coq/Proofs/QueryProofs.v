(** Proofs for C06 (single-table query planning): the model of Model/Query.v
    against the reference semantics of Model/SqlRef.v. *)
From Coq Require Import List NArith ZArith Bool Lia Permutation.
From Coq Require Import ZifyBool ZifyN ZifyNat.
From SDB Require Import Base.Bytes Model.Codec Model.SqlRef Model.Query Proofs.BytesProofs.
Import ListNotations.

(** * 1. The sentinel logic of Compare* over an abstract order *)

Definition isE (c : comparison) : bool := match c with Eq => true | _ => false end.
Definition isL (c : comparison) : bool := match c with Lt => true | _ => false end.
Definition isG (c : comparison) : bool := match c with Gt => true | _ => false end.

Section Ord.
  Variable K : Type.
  Variable cmp : K -> K -> comparison.
  Variables M m : K.
  Hypothesis cmp_antisym : forall a b, cmp b a = CompOpp (cmp a b).
  Hypothesis cmp_eq_l : forall a b c, cmp a b = Eq -> cmp a c = cmp b c.

  Definition a_isM (v : K) : bool := isE (cmp v M).
  Definition a_ism (v : K) : bool := isE (cmp v m).

  (** The common shape of CompareGreaterThan(OrEqual) / CompareLessThan(OrEqual). *)
  Definition sent (b1 b2 b3 b4 b5 b6 raw : bool) (v r : K) : bool :=
    if a_isM v && a_isM r then b1
    else if a_isM v then b2
    else if a_isM r then b3
    else if a_ism v && a_ism r then b4
    else if a_ism v then b5
    else if a_ism r then b6
    else raw.

  Definition a_cv (o : cmpop) (v r : K) : bool :=
    let raw := cmp_holds o (cmp v r) in
    match o with
    | OEq => if a_isM v && a_isM r then true else raw
    | ONe => if a_isM v && a_isM r then false else if a_isM v || a_isM r then true else raw
    | OGt => sent false true false false false true raw v r
    | OGe => sent true true false true false true raw v r
    | OLt => sent false false true false true false raw v r
    | OLe => sent true false true true true false raw v r
    end.

  Definition a_bad (v r : K) : bool :=
    if a_isM v then negb (a_isM r) && isG (cmp r M)
    else if a_isM r then isG (cmp v M)
    else if a_ism v then negb (a_ism r) && isL (cmp r m)
    else if a_ism r then isL (cmp v m)
    else false.

  Lemma eq_left_cmp : forall v r s, isE (cmp v s) = true -> cmp v r = CompOpp (cmp r s).
  Proof.
    intros v r s H. destruct (cmp v s) eqn:E; try discriminate.
    rewrite (cmp_eq_l v s r E). apply cmp_antisym.
  Qed.

  Lemma eq_right_cmp : forall v r s, isE (cmp r s) = true -> cmp v r = cmp v s.
  Proof.
    intros v r s H. destruct (cmp r s) eqn:E; try discriminate.
    rewrite (cmp_antisym r v), (cmp_eq_l r s v E), (cmp_antisym v s). destruct (cmp v s); reflexivity.
  Qed.

  Lemma a_cv_eq_ne : forall o v r, ordered o = false -> a_cv o v r = cmp_holds o (cmp v r).
  Proof.
    intros o v r Ho. destruct o; try discriminate; unfold a_cv, a_isM.
    - destruct (isE (cmp v M)) eqn:A; cbn [andb]; [|reflexivity].
      destruct (isE (cmp r M)) eqn:B; [|reflexivity].
      rewrite (eq_left_cmp v r M A). destruct (cmp r M); try discriminate. reflexivity.
    - destruct (isE (cmp v M)) eqn:A; cbn [andb orb].
      + rewrite (eq_left_cmp v r M A). destruct (cmp r M); reflexivity.
      + destruct (isE (cmp r M)) eqn:B; [|reflexivity].
        rewrite (eq_right_cmp v r M B). destruct (cmp v M); try discriminate; reflexivity.
  Qed.

  Lemma a_cv_ord : forall o v r, ordered o = true ->
    (a_cv o v r = cmp_holds o (cmp v r) <-> a_bad v r = false).
  Proof.
    intros o v r Ho. unfold a_cv, a_bad, sent, a_isM, a_ism.
    destruct (isE (cmp v M)) eqn:A; cbn [andb].
    { rewrite (eq_left_cmp v r M A).
      destruct (cmp r M); destruct o; try discriminate Ho; cbn; split; intro; try reflexivity; discriminate. }
    destruct (isE (cmp r M)) eqn:B.
    { rewrite (eq_right_cmp v r M B).
      destruct (cmp v M); try discriminate A; destruct o; try discriminate Ho; cbn;
        split; intro; try reflexivity; discriminate. }
    destruct (isE (cmp v m)) eqn:C; cbn [andb].
    { rewrite (eq_left_cmp v r m C).
      destruct (cmp r m); destruct o; try discriminate Ho; cbn; split; intro; try reflexivity; discriminate. }
    destruct (isE (cmp r m)) eqn:D.
    { rewrite (eq_right_cmp v r m D).
      destruct (cmp v m); try discriminate C; destruct o; try discriminate Ho; cbn;
        split; intro; try reflexivity; discriminate. }
    destruct o; try discriminate Ho; split; reflexivity.
  Qed.
End Ord.

(** * 2. Compare* on values *)

Definition int_ok (z : Z) : Prop := (min_int32 <= z <= max_int32)%Z.

(** Values the engine can hold in a column of type [ty]: int32, non-NaN float32
    bit patterns, byte strings; or NULL. *)
Definition val_ok (ty : coltype) (v : value) : Prop :=
  match v with
  | VNull => True
  | VInt z => ty = TInt /\ int_ok z
  | VFloat u => ty = TFloat /\ f_is_nan u = false
  | VStr _ => ty = TStr
  end.

Lemma Zeqb_isE x y : (x =? y)%Z = isE (x ?= y)%Z.
Proof.
  destruct (Z.compare_spec x y) as [H|H|H]; cbn.
  - subst. apply Z.eqb_refl.
  - apply Z.eqb_neq. lia.
  - apply Z.eqb_neq. lia.
Qed.

Lemma Zcmp_eq_l (a b c : Z) : (a ?= b)%Z = Eq -> (a ?= c)%Z = (b ?= c)%Z.
Proof. intros H. apply Z.compare_eq in H. now subst. Qed.

Lemma fcmp_antisym a b : f_cmp b a = CompOpp (f_cmp a b).
Proof. unfold f_cmp. apply Z.compare_antisym. Qed.
Lemma fcmp_eq_l a b c : f_cmp a b = Eq -> f_cmp a c = f_cmp b c.
Proof. unfold f_cmp. intros H. apply Z.compare_eq in H. now rewrite H. Qed.

Lemma lex_eq_l (a b c : list N) : lex_cmp a b = Eq -> lex_cmp a c = lex_cmp b c.
Proof. intros H. apply lex_cmp_eq in H. now subst. Qed.

Lemma nan_max_f32 : f_is_nan max_f32 = false.
Proof. vm_compute. reflexivity. Qed.
Lemma nan_neg_max_f32 : f_is_nan neg_max_f32 = false.
Proof. vm_compute. reflexivity. Qed.

Lemma go_feq_isE u v : f_is_nan u = false -> f_is_nan v = false -> go_feq u v = isE (f_cmp u v).
Proof. intros Hu Hv. unfold go_feq, f_cmp. rewrite Hu, Hv. cbn [negb andb]. apply Zeqb_isE. Qed.

Lemma cv_int o x y :
  cv_cmp o (VInt x) (VInt y) = a_cv Z Z.compare max_int32 min_int32 o x y.
Proof.
  destruct o;
    unfold cv_cmp, cv_eq, cv_ne, cv_gt, cv_ge, cv_lt, cv_le, a_cv, sent, a_isM, a_ism;
    cbn [is_null payload andb orb cv_is_inf_max cv_is_inf_min raw_eq raw_ne raw_gt raw_ge raw_lt raw_le];
    rewrite !Zeqb_isE; unfold Z.gtb, Z.geb, Z.ltb, Z.leb; destruct (x ?= y)%Z; reflexivity.
Qed.

Lemma cv_float o u v : f_is_nan u = false -> f_is_nan v = false ->
  cv_cmp o (VFloat u) (VFloat v) = a_cv N f_cmp max_f32 neg_max_f32 o u v.
Proof.
  intros Hu Hv.
  destruct o;
    unfold cv_cmp, cv_eq, cv_ne, cv_gt, cv_ge, cv_lt, cv_le, a_cv, sent, a_isM, a_ism;
    cbn [is_null payload andb orb cv_is_inf_max cv_is_inf_min raw_eq raw_ne raw_gt raw_ge raw_lt raw_le];
    rewrite ?(go_feq_isE u max_f32 Hu nan_max_f32), ?(go_feq_isE v max_f32 Hv nan_max_f32),
            ?(go_feq_isE u neg_max_f32 Hu nan_neg_max_f32), ?(go_feq_isE v neg_max_f32 Hv nan_neg_max_f32),
            ?(go_feq_isE u v Hu Hv);
    unfold go_fgt, go_fge, go_flt, go_fle; rewrite ?Hu, ?Hv; cbn [negb andb];
    unfold f_cmp, Z.gtb, Z.geb, Z.ltb, Z.leb; destruct (f_key u ?= f_key v)%Z; reflexivity.
Qed.

Lemma cv_str o s t :
  cv_cmp o (VStr s) (VStr t) = a_cv (list N) lex_cmp inf_max_str inf_min_str o s t.
Proof.
  destruct o;
    unfold cv_cmp, cv_eq, cv_ne, cv_gt, cv_ge, cv_lt, cv_le, a_cv, sent, a_isM, a_ism;
    cbn [is_null payload andb orb cv_is_inf_max cv_is_inf_min raw_eq raw_ne raw_gt raw_ge raw_lt raw_le];
    unfold s_eq, s_gt, s_ge, s_lt, s_le, isE; destruct (lex_cmp s t); reflexivity.
Qed.

Lemma bad_int x y : cv_bad (VInt x) (VInt y) = a_bad Z Z.compare max_int32 min_int32 x y.
Proof.
  unfold cv_bad, a_bad, a_isM, a_ism, vgt, vlt.
  cbn [is_null orb cv_is_inf_max cv_is_inf_min max_like min_like vcmp].
  rewrite !Zeqb_isE. reflexivity.
Qed.

Lemma bad_float u v : f_is_nan u = false -> f_is_nan v = false ->
  cv_bad (VFloat u) (VFloat v) = a_bad N f_cmp max_f32 neg_max_f32 u v.
Proof.
  intros Hu Hv. unfold cv_bad, a_bad, a_isM, a_ism, vgt, vlt.
  cbn [is_null orb cv_is_inf_max cv_is_inf_min max_like min_like vcmp].
  rewrite (go_feq_isE u max_f32 Hu nan_max_f32), (go_feq_isE v max_f32 Hv nan_max_f32),
          (go_feq_isE u neg_max_f32 Hu nan_neg_max_f32), (go_feq_isE v neg_max_f32 Hv nan_neg_max_f32).
  reflexivity.
Qed.

Lemma bad_str s t : cv_bad (VStr s) (VStr t) = a_bad (list N) lex_cmp inf_max_str inf_min_str s t.
Proof. reflexivity. Qed.

Lemma cv_null_left o r : r <> VNull -> cv_cmp o VNull r = eval_cmp o VNull r.
Proof. intros H. destruct r; [congruence| | |]; destruct o; reflexivity. Qed.

(** compare_matches_reference: on a stored value (possibly NULL) and a non-NULL
    literal of the same type, [=] and [<>] always agree with the reference, and
    an ordered comparison agrees exactly when the pair is not in [cv_bad]. *)
Lemma compare_matches_reference_partial_lemma : forall ty o v r,
  val_ok ty v -> val_ok ty r -> r <> VNull ->
  (cv_cmp o v r = eval_cmp o v r <-> ordered o = false \/ cv_bad v r = false).
Proof.
  intros ty o v r Hv Hr Hn.
  destruct v as [|x|u|s].
  - split; intros _; [right; reflexivity | apply cv_null_left; assumption].
  - destruct r as [|y|w|t]; [congruence| | |]; cbn in Hv, Hr;
      try (exfalso; intuition congruence).
    rewrite cv_int, bad_int.
    change (eval_cmp o (VInt x) (VInt y)) with (cmp_holds o (x ?= y)%Z).
    destruct (ordered o) eqn:Ho.
    + rewrite (a_cv_ord Z Z.compare max_int32 min_int32 Z.compare_antisym Zcmp_eq_l o x y Ho).
      split; [intros H; right; exact H | intros [H|H]; [discriminate|exact H]].
    + split; [intros _; left; reflexivity|intros _].
      apply (a_cv_eq_ne Z Z.compare max_int32 min_int32 Z.compare_antisym Zcmp_eq_l o x y Ho).
  - destruct r as [|y|w|t]; [congruence| | |]; cbn in Hv, Hr;
      try (exfalso; intuition congruence).
    destruct Hv as [_ Hu]; destruct Hr as [_ Hw].
    rewrite (cv_float o u w Hu Hw), (bad_float u w Hu Hw).
    change (eval_cmp o (VFloat u) (VFloat w)) with (cmp_holds o (f_cmp u w)).
    destruct (ordered o) eqn:Ho.
    + rewrite (a_cv_ord N f_cmp max_f32 neg_max_f32 fcmp_antisym fcmp_eq_l o u w Ho).
      split; [intros H; right; exact H | intros [H|H]; [discriminate|exact H]].
    + split; [intros _; left; reflexivity|intros _].
      apply (a_cv_eq_ne N f_cmp max_f32 neg_max_f32 fcmp_antisym fcmp_eq_l o u w Ho).
  - destruct r as [|y|w|t]; [congruence| | |]; cbn in Hv, Hr;
      try (exfalso; intuition congruence).
    rewrite cv_str, bad_str.
    change (eval_cmp o (VStr s) (VStr t)) with (cmp_holds o (lex_cmp s t)).
    destruct (ordered o) eqn:Ho.
    + rewrite (a_cv_ord (list N) lex_cmp inf_max_str inf_min_str lex_cmp_antisym lex_eq_l o s t Ho).
      split; [intros H; right; exact H | intros [H|H]; [discriminate|exact H]].
    + split; [intros _; left; reflexivity|intros _].
      apply (a_cv_eq_ne (list N) lex_cmp inf_max_str inf_min_str lex_cmp_antisym lex_eq_l o s t Ho).
Qed.

Lemma bad_int_never x y : int_ok x -> int_ok y -> cv_bad (VInt x) (VInt y) = false.
Proof.
  unfold int_ok, min_int32, max_int32. intros Hx Hy.
  unfold cv_bad, vgt, vlt.
  cbn [is_null orb cv_is_inf_max cv_is_inf_min max_like min_like vcmp].
  unfold min_int32, max_int32.
  destruct (x =? 2147483647)%Z eqn:A.
  { destruct (y =? 2147483647)%Z eqn:B; [reflexivity|]. cbn [negb andb].
    destruct (Z.compare_spec y 2147483647) as [C|C|C]; try reflexivity. lia. }
  destruct (y =? 2147483647)%Z eqn:B.
  { destruct (Z.compare_spec x 2147483647) as [C|C|C]; try reflexivity. lia. }
  destruct (x =? -2147483648)%Z eqn:C.
  { destruct (y =? -2147483648)%Z eqn:D; [reflexivity|]. cbn [negb andb].
    destruct (Z.compare_spec y (-2147483648)) as [E|E|E]; try reflexivity. lia. }
  destruct (y =? -2147483648)%Z eqn:D; [|reflexivity].
  destruct (Z.compare_spec x (-2147483648)) as [E|E|E]; try reflexivity. lia.
Qed.

(** Integers: the sentinels are the true extremes of int32, Compare* is always right. *)
Lemma compare_matches_reference_int_lemma : forall o v r,
  val_ok TInt v -> val_ok TInt r -> r <> VNull -> cv_cmp o v r = eval_cmp o v r.
Proof.
  intros o v r Hv Hr Hn.
  apply (compare_matches_reference_partial_lemma TInt o v r Hv Hr Hn). right.
  destruct v as [|x|u|s]; [reflexivity| | |]; cbn in Hv; try (destruct Hv; discriminate); try discriminate.
  destruct r as [|y|w|t]; [congruence| | |]; cbn in Hr; try (destruct Hr; discriminate); try discriminate.
  apply bad_int_never; [apply Hv|apply Hr].
Qed.

(** Operands that are not sentinels compare correctly whatever their position. *)
Lemma bad_needs_sentinel : forall v r,
  cv_is_inf_max v = false -> cv_is_inf_min v = false ->
  cv_is_inf_max r = false -> cv_is_inf_min r = false -> cv_bad v r = false.
Proof.
  intros v r A B C D. unfold cv_bad. rewrite A, B, C, D.
  destruct (is_null v || is_null r); reflexivity.
Qed.

(** The unrestricted statement is false: strings and infinite floats. *)
Definition compare_matches_reference : Prop :=
  forall ty o v r, val_ok ty v -> val_ok ty r -> r <> VNull -> cv_cmp o v r = eval_cmp o v r.

Lemma compare_matches_reference_refuted_lemma : ~ compare_matches_reference.
Proof.
  intros H.
  (* 'T' < 'SamehadaDBInfMaxValue' : true in the engine, false bytewise *)
  specialize (H TStr OLt (VStr [84%N]) (VStr inf_max_str) eq_refl eq_refl).
  assert (VStr inf_max_str <> VNull) as Hn by discriminate.
  specialize (H Hn). vm_compute in H. discriminate.
Qed.

Lemma compare_float_inf_refuted_lemma :
  (* +Inf < MaxFloat32 : true in the engine *)
  val_ok TFloat (VFloat 2139095040%N) /\ val_ok TFloat (VFloat max_f32) /\
  cv_cmp OLt (VFloat 2139095040%N) (VFloat max_f32) = true /\
  eval_cmp OLt (VFloat 2139095040%N) (VFloat max_f32) = false.
Proof. vm_compute. repeat split; reflexivity. Qed.

(** * 3. Ranges *)

Lemma vcmp_antisym a b : vcmp b a = option_map CompOpp (vcmp a b).
Proof.
  destruct a, b; cbn; try reflexivity; f_equal.
  - apply Z.compare_antisym.
  - apply fcmp_antisym.
  - apply lex_cmp_antisym.
Qed.

Lemma eval_cmp_nonnull o v x : v <> VNull -> x <> VNull ->
  eval_cmp o v x = match vcmp v x with Some c => cmp_holds o c | None => false end.
Proof. intros Hv Hx. destruct v; [congruence| | |]; destruct x; try congruence; reflexivity. Qed.

Lemma eval_ge_vle o v x : v <> VNull -> x <> VNull -> (o = OGe \/ o = OGt \/ o = OEq) ->
  eval_cmp o v x = true -> vle x v = true.
Proof.
  intros Hv Hx Ho H. rewrite (eval_cmp_nonnull o v x Hv Hx) in H.
  unfold vle. rewrite (vcmp_antisym v x).
  destruct (vcmp v x) as [c|]; [|discriminate]. cbn.
  destruct Ho as [Ho|[Ho|Ho]]; subst o; destruct c; try discriminate; reflexivity.
Qed.

Lemma eval_le_vle o v x : v <> VNull -> x <> VNull -> (o = OLe \/ o = OLt \/ o = OEq) ->
  eval_cmp o v x = true -> vle v x = true.
Proof.
  intros Hv Hx Ho H. rewrite (eval_cmp_nonnull o v x Hv Hx) in H.
  unfold vle. destruct (vcmp v x) as [c|]; [|discriminate].
  destruct Ho as [Ho|[Ho|Ho]]; subst o; destruct c; try discriminate; reflexivity.
Qed.

Lemma inf_max_is ty : cv_is_inf_max (inf_max ty) = true.
Proof. destruct ty; vm_compute; reflexivity. Qed.
Lemma inf_min_is ty : cv_is_inf_min (inf_min ty) = true.
Proof. destruct ty; vm_compute; reflexivity. Qed.
Lemma new_range_empty ty : range_empty (new_range ty) = true.
Proof. unfold range_empty, new_range. cbn [rmin rmax]. now rewrite inf_max_is, inf_min_is. Qed.

(** The part of the walk that concerns one indexed column. *)
Definition cstep (c : nat) (r : range) (x : cmp3) : range :=
  if Nat.eqb c (c3col x) then range_update (c3op x) (c3lit x) DirRight r else r.
Definition istep (c : nat) (ni : nat * bool) (x : cmp3) : nat * bool :=
  if Nat.eqb c (c3col x)
  then (S (fst ni), if Nat.ltb 1 (S (fst ni)) || is_ne (c3op x) then true else snd ni)
  else ni.
Definition on_col (c : nat) (ops : list cmp3) : list cmp3 :=
  filter (fun x => Nat.eqb c (c3col x)) ops.

Lemma visit_col sch c st x : col_indexed sch c = true ->
  ws_rng (visit sch st x) c = cstep c (ws_rng st c) x /\
  (ws_cnt (visit sch st x) c, ws_inexact (visit sch st x) c) = istep c (ws_cnt st c, ws_inexact st c) x /\
  ws_related (visit sch st x) = ws_related st ++ [x].
Proof.
  intros Hc. unfold visit, cstep, istep.
  destruct (col_indexed sch (c3col x)) eqn:Hx; cbn [ws_rng ws_cnt ws_inexact ws_related fst snd]; unfold upd_fn.
  - destruct (Nat.eqb c (c3col x)) eqn:E.
    + apply Nat.eqb_eq in E. subst c. repeat split; reflexivity.
    + repeat split; reflexivity.
  - destruct (Nat.eqb c (c3col x)) eqn:E.
    + apply Nat.eqb_eq in E. subst c. congruence.
    + repeat split; reflexivity.
Qed.

Lemma fold_visit_col sch c : col_indexed sch c = true -> forall ops st,
  let st' := fold_left (visit sch) ops st in
  ws_rng st' c = fold_left (cstep c) ops (ws_rng st c) /\
  (ws_cnt st' c, ws_inexact st' c) = fold_left (istep c) ops (ws_cnt st c, ws_inexact st c) /\
  ws_related st' = ws_related st ++ ops.
Proof.
  intros Hc ops. induction ops as [|x ops IH]; intros st; cbn.
  - repeat split. now rewrite app_nil_r.
  - destruct (visit_col sch c st x Hc) as (A & B & C).
    destruct (IH (visit sch st x)) as (A' & B' & C'). cbn in A', B', C'.
    rewrite A', B', C', A, B, C. repeat split. now rewrite <- app_assoc.
Qed.

Lemma fold_visit_related sch : forall ops st,
  ws_related (fold_left (visit sch) ops st) = ws_related st ++ ops.
Proof.
  induction ops as [|x ops IH]; intros st; cbn; [now rewrite app_nil_r|].
  rewrite IH. unfold visit. destruct (col_indexed sch (c3col x)); cbn [ws_related]; now rewrite <- app_assoc.
Qed.

Lemma cstep_off c : forall ops r, on_col c ops = [] -> fold_left (cstep c) ops r = r.
Proof.
  induction ops as [|x ops IH]; intros r H; cbn; [reflexivity|].
  unfold on_col in H. cbn in H. unfold cstep at 2.
  destruct (Nat.eqb c (c3col x)); [discriminate|]. now apply IH.
Qed.

Lemma istep_sticky c : forall ops n, snd (fold_left (istep c) ops (n, true)) = true.
Proof.
  induction ops as [|x ops IH]; intros n; cbn; [reflexivity|].
  unfold istep at 2. destruct (Nat.eqb c (c3col x)); cbn [fst snd]; [|apply IH].
  destruct (Nat.ltb 1 (S n) || is_ne (c3op x)); apply IH.
Qed.

Lemma istep_inv c : forall ops n b, (n <= 1)%nat ->
  snd (fold_left (istep c) ops (n, b)) = false ->
  b = false /\ (n + length (on_col c ops) <= 1)%nat /\
  Forall (fun x => is_ne (c3op x) = false) (on_col c ops).
Proof.
  induction ops as [|x ops IH]; intros n b Hn H; cbn in *.
  - repeat split; [assumption|lia|constructor].
  - unfold istep at 2 in H. unfold on_col. cbn [filter]. fold (on_col c ops).
    destruct (Nat.eqb c (c3col x)) eqn:E; cbn [fst snd] in H.
    + destruct (Nat.ltb 1 (S n)) eqn:L.
      * cbn [orb] in H. rewrite istep_sticky in H. discriminate.
      * apply Nat.ltb_ge in L. cbn [orb] in H. apply IH in H; [|lia]. destruct H as (H1 & H2 & H3).
        destruct (is_ne (c3op x)) eqn:Ne; [discriminate|].
        cbn [length]. repeat split; [assumption|lia|constructor; assumption].
    + apply IH in H; [exact H|exact Hn].
Qed.

(** ** Superset *)

Definition lo_ok (r : range) (v : value) : Prop := vle (rmin r) v = true \/ cv_is_inf_min (rmin r) = true.
Definition hi_ok (r : range) (v : value) : Prop := vle v (rmax r) = true \/ cv_is_inf_max (rmax r) = true.

Lemma update_sup o l r v : v <> VNull -> l <> VNull -> eval_cmp o v l = true ->
  lo_ok r v -> hi_ok r v ->
  lo_ok (range_update o l DirRight r) v /\ hi_ok (range_update o l DirRight r) v.
Proof.
  intros Hv Hl He Hlo Hhi. unfold range_update. cbn [is_right negb andb orb].
  destruct o.
  - (* = *) unfold lo_ok, hi_ok; cbn [rmin rmax]. split; left.
    + apply (eval_ge_vle OEq v l); auto.
    + apply (eval_le_vle OEq v l); auto.
  - split; assumption.
  - (* < *)
    destruct (cv_is_inf_max (rmax r) || negb (cv_is_inf_max (rmax r)) && cv_lt l (rmax r)); [|split; assumption].
    split; [exact Hlo|]. unfold hi_ok, set_max; cbn [rmax]. left. apply (eval_le_vle OLt v l); auto.
  - (* <= *)
    destruct (cv_is_inf_max (rmax r) || negb (cv_is_inf_max (rmax r)) && cv_le l (rmax r)); [|split; assumption].
    split; [exact Hlo|]. unfold hi_ok, set_max; cbn [rmax]. left. apply (eval_le_vle OLe v l); auto.
  - (* > *)
    destruct (cv_is_inf_min (rmin r) || negb (cv_is_inf_min (rmin r)) && cv_lt (rmin r) l); [|split; assumption].
    split; [|exact Hhi]. unfold lo_ok, set_min; cbn [rmin]. left. apply (eval_ge_vle OGt v l); auto.
  - (* >= *)
    split; [|exact Hhi]. unfold lo_ok, set_min; cbn [rmin]. left. apply (eval_ge_vle OGe v l); auto.
Qed.

Lemma fold_sup c v : v <> VNull -> forall ops r,
  (forall x, In x ops -> c3col x = c -> c3lit x <> VNull /\ eval_cmp (c3op x) v (c3lit x) = true) ->
  lo_ok r v -> hi_ok r v ->
  lo_ok (fold_left (cstep c) ops r) v /\ hi_ok (fold_left (cstep c) ops r) v.
Proof.
  intros Hv. induction ops as [|x ops IH]; intros r H Hlo Hhi; cbn; [split; assumption|].
  assert (lo_ok (cstep c r x) v /\ hi_ok (cstep c r x) v) as [A B].
  { unfold cstep. destruct (Nat.eqb c (c3col x)) eqn:E; [|split; assumption].
    apply Nat.eqb_eq in E. destruct (H x (or_introl eq_refl) (eq_sym E)) as [Hl He].
    apply update_sup; assumption. }
  apply IH; [|assumption|assumption].
  intros y Hy. apply H. right. exact Hy.
Qed.

(** * 4. The conjunct walk *)

Fixpoint stk_size (stk : list pred) : nat :=
  match stk with [] => O | e :: s => (pred_size e + stk_size s)%nat end.

Lemma pred_size_pos p : (1 <= pred_size p)%nat.
Proof. destruct p; cbn; lia. Qed.

(** The stack machine visits the comparisons in the order [cmps]: right operand
    of every AND first. *)
Lemma walk_stk_spec sch : forall fuel stk st,
  forallb (fun e => negb (has_or e)) stk = true -> (stk_size stk <= fuel)%nat ->
  walk_stk sch fuel stk st = Some (fold_left (visit sch) (flat_map cmps stk) st).
Proof.
  induction fuel as [|f IH]; intros stk st Hor Hsz.
  - destruct stk as [|e s]; [reflexivity|]. cbn in Hsz. pose proof (pred_size_pos e). lia.
  - destruct stk as [|e s]; [reflexivity|].
    cbn [forallb] in Hor. apply andb_true_iff in Hor. destruct Hor as [He Hs].
    cbn [stk_size] in Hsz.
    destruct e as [|c o l|a b|a b]; cbn [walk_stk].
    + cbn [pred_size] in Hsz. rewrite IH; [reflexivity|assumption|lia].
    + cbn [pred_size] in Hsz. rewrite IH; [reflexivity|assumption|lia].
    + cbn [has_or] in He. apply negb_true_iff, orb_false_iff in He. destruct He as [Ha Hb].
      cbn [pred_size] in Hsz. rewrite IH.
      * cbn [flat_map cmps]. now rewrite <- !app_assoc.
      * cbn [forallb]. rewrite Ha, Hb, Hs. reflexivity.
      * cbn [stk_size]. lia.
    + cbn in He. discriminate.
Qed.

Definition final_state (sch : schema) (p : pred) : wstate := fold_left (visit sch) (cmps p) (winit sch).

Lemma walk_spec sch p : has_or p = false -> walk sch p = Some (final_state sch p).
Proof.
  intros H. unfold walk, final_state. rewrite walk_stk_spec.
  - cbn [flat_map]. now rewrite app_nil_r.
  - cbn. now rewrite H.
  - cbn. lia.
Qed.

Lemma walk_or_panics sch : forall fuel stk st,
  existsb has_or stk = true -> walk_stk sch fuel stk st = None.
Proof.
  induction fuel as [|f IH]; intros stk st H.
  - destruct stk; [discriminate|reflexivity].
  - destruct stk as [|e s]; [discriminate|]. cbn [existsb] in H.
    destruct e as [|c o l|a b|a b]; cbn [walk_stk]; cbn [has_or] in H.
    + apply IH. exact H.
    + apply IH. exact H.
    + apply IH. cbn [existsb]. rewrite orb_assoc, (orb_comm (has_or b)). exact H.
    + reflexivity.
Qed.

Lemma walk_none_iff sch p : walk sch p = None <-> has_or p = true.
Proof.
  split; intros H.
  - destruct (has_or p) eqn:E; [reflexivity|]. rewrite (walk_spec sch p E) in H. discriminate.
  - unfold walk. apply walk_or_panics. cbn. now rewrite H.
Qed.

Lemma final_related sch p : ws_related (final_state sch p) = cmps p.
Proof. unfold final_state. now rewrite fold_visit_related. Qed.

Lemma final_range sch p c : col_indexed sch c = true ->
  ws_rng (final_state sch p) c = fold_left (cstep c) (cmps p) (new_range (col_type sch c)).
Proof. intros H. unfold final_state. now destruct (fold_visit_col sch c H (cmps p) (winit sch)) as (A & _). Qed.

Lemma final_info sch p c : col_indexed sch c = true ->
  (ws_cnt (final_state sch p) c, ws_inexact (final_state sch p) c) = fold_left (istep c) (cmps p) (O, false).
Proof. intros H. unfold final_state. now destruct (fold_visit_col sch c H (cmps p) (winit sch)) as (_ & B & _). Qed.

(** * 5. Predicate evaluation *)

Definition ref3 (r : row) (x : cmp3) : bool := eval_cmp (c3op x) (nth (c3col x) r VNull) (c3lit x).
Definition eng3 (r : row) (x : cmp3) : bool := cv_cmp (c3op x) (nth (c3col x) r VNull) (c3lit x).

Lemma eval_pred_cmps r : forall p, has_or p = false -> eval_pred r p = forallb (ref3 r) (cmps p).
Proof.
  induction p as [|c o l|a IHa b IHb|a IHa b IHb]; intros H; cbn in *.
  - reflexivity.
  - unfold ref3. cbn. now rewrite andb_true_r.
  - apply orb_false_iff in H. destruct H as [Ha Hb].
    rewrite forallb_app, IHa, IHb by assumption. apply andb_comm.
  - discriminate.
Qed.

Lemma eng_fold r : forall l e,
  eng_eval r (fold_left (fun acc y => PAnd acc (pcmp3 y)) l e) = eng_eval r e && forallb (eng3 r) l.
Proof.
  induction l as [|x l IH]; intros e; cbn [fold_left forallb]; [now rewrite andb_true_r|].
  rewrite IH. cbn [eng_eval pcmp3]. unfold eng3 at 2. now rewrite andb_assoc.
Qed.

Lemma eng_scan_exp r ops e : scan_exp ops = Some e -> eng_eval r e = forallb (eng3 r) ops.
Proof.
  destruct ops as [|x l]; cbn; [discriminate|]. intros H. injection H as <-.
  rewrite eng_fold. reflexivity.
Qed.

Lemma forallb_ext_in {A} (f g : A -> bool) : forall l, (forall x, In x l -> f x = g x) -> forallb f l = forallb g l.
Proof.
  induction l as [|x l IH]; intros H; cbn; [reflexivity|].
  rewrite (H x (or_introl eq_refl)), IH; [reflexivity|]. intros y Hy. apply H. now right.
Qed.

(** Hypotheses of the main theorems. *)
Definition lits_ok (sch : schema) (p : pred) : Prop :=
  forall x, In x (cmps p) -> c3lit x <> VNull /\ val_ok (col_type sch (c3col x)) (c3lit x).
Definition row_ok (sch : schema) (r : row) : Prop :=
  forall c, val_ok (col_type sch c) (nth c r VNull).
Definition table_ok (sch : schema) (t : table) : Prop := forall r, In r t -> row_ok sch r.

(** No (stored value, literal) pair of the statement falls into [cv_bad]. *)
Definition pair_safe (r : row) (x : cmp3) : Prop :=
  ordered (c3op x) = false \/ cv_bad (nth (c3col x) r VNull) (c3lit x) = false.
Definition sel_safe (p : pred) (t : table) : Prop :=
  forall r, In r t -> forall x, In x (cmps p) -> pair_safe r x.

Lemma eng3_ref3 sch p r x : lits_ok sch p -> row_ok sch r -> In x (cmps p) -> pair_safe r x ->
  eng3 r x = ref3 r x.
Proof.
  intros Hl Hr Hx Hs. destruct (Hl x Hx) as [Hn Hv]. unfold eng3, ref3.
  apply (compare_matches_reference_partial_lemma (col_type sch (c3col x))); auto.
Qed.

Lemma eng_eval_ref sch r : row_ok sch r -> forall p,
  lits_ok sch p -> (forall x, In x (cmps p) -> pair_safe r x) -> eng_eval r p = eval_pred r p.
Proof.
  intros Hr. induction p as [|c o l|a IHa b IHb|a IHa b IHb]; intros Hl Hs; cbn [eng_eval eval_pred].
  - reflexivity.
  - apply (eng3_ref3 sch (PCmp c o l) r (c, o, l) Hl Hr); [left; reflexivity|apply Hs; left; reflexivity].
  - rewrite IHa, IHb; [reflexivity| | | |].
    + intros x Hx. apply Hl. cbn. apply in_or_app. now left.
    + intros x Hx. apply Hs. cbn. apply in_or_app. now left.
    + intros x Hx. apply Hl. cbn. apply in_or_app. now right.
    + intros x Hx. apply Hs. cbn. apply in_or_app. now right.
  - rewrite IHa, IHb; [reflexivity| | | |].
    + intros x Hx. apply Hl. cbn. apply in_or_app. now left.
    + intros x Hx. apply Hs. cbn. apply in_or_app. now left.
    + intros x Hx. apply Hl. cbn. apply in_or_app. now right.
    + intros x Hx. apply Hs. cbn. apply in_or_app. now right.
Qed.

(** * 6. Sorting, permutations *)

Lemma insert_perm c ty x : forall l, Permutation (insert_row c ty x l) (x :: l).
Proof.
  induction l as [|y l IH]; cbn; [apply Permutation_refl|].
  destruct (vlt _ _); [|apply Permutation_refl].
  eapply Permutation_trans; [apply perm_skip, IH|apply perm_swap].
Qed.

Lemma sort_perm c ty : forall l, Permutation (sort_rows c ty l) l.
Proof.
  induction l as [|x l IH]; cbn; [constructor|].
  eapply Permutation_trans; [apply insert_perm|]. now apply perm_skip.
Qed.

Lemma perm_filter {A} (f : A -> bool) : forall l l', Permutation l l' -> Permutation (filter f l) (filter f l').
Proof.
  induction 1 as [|x l l' _ IH|x y l|l l' l'' _ IH1 _ IH2]; cbn.
  - constructor.
  - destruct (f x); [now apply perm_skip|assumption].
  - destruct (f x), (f y); try apply Permutation_refl. apply perm_swap.
  - eapply Permutation_trans; eassumption.
Qed.

Lemma filter_absorb {A} (f g : A -> bool) : forall l,
  (forall x, In x l -> f x = true -> g x = true) -> filter f (filter g l) = filter f l.
Proof.
  induction l as [|x l IH]; intros H; cbn; [reflexivity|].
  assert (filter f (filter g l) = filter f l) as IH' by (apply IH; intros y Hy; apply H; now right).
  destruct (g x) eqn:G; cbn.
  - now rewrite IH'.
  - destruct (f x) eqn:F; [|assumption]. rewrite (H x (or_introl eq_refl) F) in G. discriminate.
Qed.

Lemma existsb_false_in {A} (f : A -> bool) : forall l, (forall x, In x l -> f x = false) -> existsb f l = false.
Proof.
  induction l as [|x l IH]; intros H; cbn; [reflexivity|].
  rewrite (H x (or_introl eq_refl)), IH; [reflexivity|]. intros y Hy. apply H. now right.
Qed.

Lemma index_key_nonnull ty v : v <> VNull -> index_key ty v = v.
Proof. destruct v; [congruence| | |]; reflexivity. Qed.

(** The index range scan on a column without NULLs. *)
Lemma idx_scan_nonnull c ty lo hi t :
  (forall r, In r t -> nth c r VNull <> VNull) ->
  exists out, idx_scan c ty lo hi t = Some out /\
              Permutation out (filter (fun r => scan_in lo hi (nth c r VNull)) t).
Proof.
  intros Hn. unfold idx_scan.
  assert (filter (fun r => scan_in lo hi (index_key ty (nth c r VNull))) t
          = filter (fun r => scan_in lo hi (nth c r VNull)) t) as E.
  { apply filter_ext_in. intros r Hr. now rewrite index_key_nonnull by (apply Hn; exact Hr). }
  rewrite E. rewrite existsb_false_in.
  - eexists. split; [reflexivity|apply sort_perm].
  - intros r Hr. apply filter_In in Hr. destruct Hr as [Hr _].
    specialize (Hn r Hr). destruct (nth c r VNull); [congruence| | |]; reflexivity.
Qed.

Lemma existsb_filter {A} (f g : A -> bool) : forall l,
  existsb f (filter g l) = existsb (fun x => f x && g x) l.
Proof.
  induction l as [|x l IH]; cbn; [reflexivity|].
  destruct (g x); cbn; rewrite IH; [now rewrite andb_true_r|now rewrite andb_false_r].
Qed.

Lemma existsb_ext {A} (f g : A -> bool) : (forall x, f x = g x) -> forall l, existsb f l = existsb g l.
Proof. intros H. induction l as [|x l IH]; cbn; [reflexivity|]. now rewrite H, IH. Qed.

(** A plan aborts exactly when its index scan meets a NULL entry. *)
Lemma run_plan_none_iff : forall pl t, run_plan pl t = None <-> plan_hits_null pl t = true.
Proof.
  induction pl as [| e out | c ty lo hi | ch IH e | ch IH cols]; intros t; cbn [run_plan plan_hits_null].
  - split; discriminate.
  - split; discriminate.
  - unfold idx_scan. rewrite existsb_filter.
    rewrite (existsb_ext (fun r => is_null (nth c r VNull) && scan_in lo hi (index_key ty (nth c r VNull)))
                         (fun r => is_null (nth c r VNull) && scan_in lo hi (zero_of ty))).
    + match goal with |- context [existsb ?f t] => destruct (existsb f t) end;
        split; intros H; try reflexivity; discriminate.
    + intros r. destruct (nth c r VNull); reflexivity.
  - rewrite <- IH. destruct (run_plan ch t); split; intros H; try reflexivity; discriminate.
  - rewrite <- IH. destruct (run_plan ch t); split; intros H; try reflexivity; discriminate.
Qed.

(** * 7. Ranges derived by the walk *)

(** [v] satisfies every comparison of the statement on column [c] (reference semantics). *)
Definition conj_on (c : nat) (p : pred) (v : value) : Prop :=
  forall x, In x (cmps p) -> c3col x = c -> eval_cmp (c3op x) v (c3lit x) = true.

(** Every value satisfying the comparisons on an indexed column is covered by
    the scan of the derived range (a bound that is a sentinel is no bound). *)
Lemma range_superset_lemma : forall sch p st c v,
  has_or p = false -> lits_ok sch p -> walk sch p = Some st -> col_indexed sch c = true ->
  v <> VNull -> conj_on c p v ->
  scan_in (rmin (ws_rng st c)) (rmax (ws_rng st c)) v = true.
Proof.
  intros sch p st c v Hor Hl Hw Hc Hv Hconj.
  rewrite (walk_spec sch p Hor) in Hw. injection Hw as <-.
  rewrite (final_range sch p c Hc) in *.
  destruct (fold_sup c v Hv (cmps p) (new_range (col_type sch c))) as [A B].
  - intros x Hx Hcx. split; [apply (Hl x Hx)|apply Hconj; assumption].
  - right. cbn [new_range rmin]. apply inf_min_is.
  - right. cbn [new_range rmax]. apply inf_max_is.
  - unfold scan_in. apply andb_true_iff. split; apply orb_true_iff.
    + destruct A as [A|A]; [right; exact A|left; exact A].
    + destruct B as [B|B]; [right; exact B|left; exact B].
Qed.

(** ** Exactness when no Selection is attached *)

Lemma touch_fold c : forall l e,
  touch_only (fold_left (fun acc y => PAnd acc (pcmp3 y)) l e) c
  = touch_only e c && forallb (fun y => Nat.eqb (c3col y) c) l.
Proof.
  induction l as [|x l IH]; intros e; cbn [fold_left forallb]; [now rewrite andb_true_r|].
  rewrite IH. cbn [touch_only pcmp3]. now rewrite andb_assoc.
Qed.

Lemma touch_scan_exp c ops e : scan_exp ops = Some e -> touch_only e c = true ->
  forall x, In x ops -> c3col x = c.
Proof.
  destruct ops as [|x0 l]; cbn [scan_exp]; [discriminate|]. intros H. injection H as <-.
  rewrite touch_fold. cbn [touch_only pcmp3]. intros H x Hx.
  apply andb_true_iff in H. destruct H as [H0 Hl].
  destruct Hx as [<-|Hx]; [now apply Nat.eqb_eq|].
  rewrite forallb_forall in Hl. apply Nat.eqb_eq. now apply Hl.
Qed.

Lemma on_col_all c : forall ops, (forall x, In x ops -> c3col x = c) -> on_col c ops = ops.
Proof.
  induction ops as [|x ops IH]; intros H; cbn; [reflexivity|].
  rewrite (H x (or_introl eq_refl)), Nat.eqb_refl. f_equal. apply IH. intros y Hy. apply H. now right.
Qed.

Lemma single_update_both_inc ty o l :
  is_ne o = false ->
  rmin_inc (range_update o l DirRight (new_range ty)) = true ->
  rmax_inc (range_update o l DirRight (new_range ty)) = true -> o = OEq.
Proof.
  intros Hne H1 H2. destruct o; try reflexivity; try discriminate Hne; exfalso;
    unfold range_update in H1, H2; cbn [is_right negb andb orb new_range rmin rmax] in H1, H2;
    rewrite ?inf_max_is, ?inf_min_is in H1, H2; cbn [orb set_max set_min rmin_inc rmax_inc] in H1, H2;
    discriminate.
Qed.

Lemma exact_core sch p c :
  has_or p = false -> lits_ok sch p -> col_indexed sch c = true ->
  range_empty (ws_rng (final_state sch p) c) = false ->
  ws_inexact (final_state sch p) c = false ->
  rmin_inc (ws_rng (final_state sch p) c) = true ->
  rmax_inc (ws_rng (final_state sch p) c) = true ->
  (forall x, In x (cmps p) -> c3col x = c) ->
  exists l, cmps p = [(c, OEq, l)] /\ l <> VNull /\
            ws_rng (final_state sch p) c = {| rmin := l; rmax := l; rmin_inc := true; rmax_inc := true |}.
Proof.
  intros Hor Hl Hc Hem Hin Hi1 Hi2 Hall.
  pose proof (final_info sch p c Hc) as Hinfo.
  rewrite (final_range sch p c Hc) in *.
  pose proof (on_col_all c (cmps p) Hall) as Hon.
  assert (snd (fold_left (istep c) (cmps p) (O, false)) = false) as Hs by (now rewrite <- Hinfo).
  apply istep_inv in Hs; [|lia]. destruct Hs as (_ & Hlen & Hne). rewrite Hon in Hlen, Hne.
  destruct (cmps p) as [|x [|y rest]] eqn:E.
  - cbn in Hem. now rewrite new_range_empty in Hem.
  - destruct x as [[c' o] l]. assert (c' = c) as -> by (apply (Hall (c', o, l)); now left).
    cbn [fold_left] in *. unfold cstep in *. cbn [c3col c3op c3lit fst snd] in *.
    rewrite Nat.eqb_refl in *.
    inversion Hne as [|? ? Hne1 _]; subst. cbn [c3op fst snd] in Hne1.
    pose proof (single_update_both_inc _ o l Hne1 Hi1 Hi2) as ->.
    exists l. repeat split. apply (Hl (c, OEq, l)). rewrite E. now left.
  - cbn in Hlen. lia.
Qed.

Lemma in_range_point v l : v <> VNull -> l <> VNull -> in_range l l v = eval_cmp OEq v l.
Proof.
  intros Hv Hl. rewrite (eval_cmp_nonnull OEq v l Hv Hl). unfold in_range, vle.
  rewrite (vcmp_antisym v l). destruct (vcmp v l) as [[]|]; reflexivity.
Qed.

Lemma range_exact_lemma : forall sch p st c e,
  has_or p = false -> lits_ok sch p -> walk sch p = Some st -> col_indexed sch c = true ->
  range_empty (ws_rng st c) = false ->
  cv_is_inf_min (rmin (ws_rng st c)) && rmin_inc (ws_rng st c) = false ->
  cv_is_inf_max (rmax (ws_rng st c)) && rmax_inc (ws_rng st c) = false ->
  ws_inexact st c = false -> rmin_inc (ws_rng st c) = true -> rmax_inc (ws_rng st c) = true ->
  scan_exp (ws_related st) = Some e -> touch_only e c = true ->
  forall r, nth c r VNull <> VNull ->
    scan_in (rmin (ws_rng st c)) (rmax (ws_rng st c)) (nth c r VNull) = eval_pred r p.
Proof.
  intros sch p st c e Hor Hl Hw Hc Hem Hs1 Hs2 Hin Hi1 Hi2 Hse Hto r Hv.
  rewrite Hi1, andb_true_r in Hs1. rewrite Hi2, andb_true_r in Hs2.
  unfold scan_in. rewrite Hs1, Hs2. cbn [orb]. fold (in_range (rmin (ws_rng st c)) (rmax (ws_rng st c)) (nth c r VNull)).
  rewrite (walk_spec sch p Hor) in Hw. injection Hw as <-.
  rewrite final_related in Hse.
  destruct (exact_core sch p c Hor Hl Hc Hem Hin Hi1 Hi2 (touch_scan_exp c (cmps p) e Hse Hto))
    as (l & Hcm & Hln & HR).
  rewrite HR. cbn [rmin rmax]. rewrite (eval_pred_cmps r p Hor), Hcm. cbn [forallb].
  unfold ref3. cbn [c3col c3op c3lit fst snd]. rewrite andb_true_r. now apply in_range_point.
Qed.

(** * 8. Candidate plans *)

(** What an index range scan on column [c] needs from the table: no NULL in the
    column (a NULL entry met by the scan aborts the statement). *)
Definition idx_side_ok (c : nat) (t : table) : Prop :=
  forall r, In r t -> nth c r VNull <> VNull.

Fixpoint plan_ok (pl : plan) (t : table) : Prop :=
  match pl with
  | PIndexRange c _ _ _ => idx_side_ok c t
  | PSelection ch _ | PProjection ch _ => plan_ok ch t
  | _ => True
  end.

Lemma eng_ref_on_table sch p t e :
  has_or p = false -> lits_ok sch p -> table_ok sch t -> sel_safe p t ->
  scan_exp (cmps p) = Some e ->
  forall r, In r t -> eng_eval r e = eval_pred r p.
Proof.
  intros Hor Hl Ht Hs He r Hr.
  rewrite (eng_scan_exp r (cmps p) e He), (eval_pred_cmps r p Hor).
  apply forallb_ext_in. intros x Hx.
  apply (eng3_ref3 sch p r x Hl (Ht r Hr) Hx (Hs r Hr x Hx)).
Qed.

Lemma scan_exp_none ops : scan_exp ops = None -> ops = [].
Proof. destruct ops; [reflexivity|discriminate]. Qed.

(** The sequential candidate returns the reference answer, in table order. *)
Lemma seq_candidate_equiv sch p cols t :
  has_or p = false -> lits_ok sch p -> table_ok sch t -> sel_safe p t ->
  run_plan (seq_candidate (final_state sch p) cols) t = Some (sel cols p t).
Proof.
  intros Hor Hl Ht Hs. unfold seq_candidate. rewrite final_related.
  destruct (scan_exp (cmps p)) as [e|] eqn:He; cbn [run_plan]; unfold sel; f_equal; f_equal.
  - apply filter_ext_in. intros r Hr. apply (eng_ref_on_table sch p t e Hor Hl Ht Hs He r Hr).
  - apply scan_exp_none in He.
    transitivity (filter (fun _ : row => true) t).
    + clear. induction t as [|r t IH]; cbn; [reflexivity|now f_equal].
    + apply filter_ext_in. intros r _. rewrite (eval_pred_cmps r p Hor), He. reflexivity.
Qed.

Lemma eval_pred_conj_on p r c : has_or p = false -> eval_pred r p = true -> conj_on c p (nth c r VNull).
Proof.
  intros Hor H x Hx Hc. rewrite (eval_pred_cmps r p Hor) in H.
  rewrite forallb_forall in H. specialize (H x Hx). unfold ref3 in H. now rewrite Hc in H.
Qed.

(** Every index candidate returns the reference answer up to order. *)
Lemma index_candidate_equiv sch p cols t c pl :
  has_or p = false -> lits_ok sch p -> table_ok sch t -> sel_safe p t ->
  col_indexed sch c = true ->
  index_candidate sch (final_state sch p) cols c = Some pl ->
  idx_side_ok c t ->
  exists out, run_plan pl t = Some out /\ Permutation out (sel cols p t).
Proof.
  intros Hor Hl Ht Hs Hc Hpl Hside.
  unfold index_candidate in Hpl.
  set (st := final_state sch p) in *. set (R := ws_rng st c) in *.
  destruct (range_empty R) eqn:Hem; [discriminate|].
  assert (Hw : walk sch p = Some st) by (apply walk_spec; exact Hor).
  destruct (idx_scan_nonnull c (col_type sch c) (rmin R) (rmax R) t Hside)
    as (rows & Hscan & Hperm).
  unfold st in Hpl at 1. rewrite final_related in Hpl.
  destruct (scan_exp (cmps p)) as [e|] eqn:He.
  - destruct (negb (touch_only e c)
              || (cv_is_inf_min (rmin R) && rmin_inc R || cv_is_inf_max (rmax R) && rmax_inc R
                  || (negb (rmin_inc R) || negb (rmax_inc R) || ws_inexact st c))) eqn:Chk;
      injection Hpl as <-; cbn [run_plan]; rewrite Hscan; eexists; (split; [reflexivity|]);
      unfold sel; apply Permutation_map.
    + (* Selection on top of the scan *)
      eapply Permutation_trans; [apply perm_filter, Hperm|].
      rewrite filter_absorb.
      * rewrite (filter_ext_in _ (fun r => eval_pred r p)); [apply Permutation_refl|].
        intros r Hr. apply (eng_ref_on_table sch p t e Hor Hl Ht Hs He r Hr).
      * intros r Hr Hev.
        rewrite (eng_ref_on_table sch p t e Hor Hl Ht Hs He r Hr) in Hev.
        apply (range_superset_lemma sch p st c (nth c r VNull) Hor Hl Hw Hc (Hside r Hr)).
        now apply eval_pred_conj_on.
    + (* bare scan: the range is exact *)
      apply orb_false_iff in Chk. destruct Chk as [Cto Chk].
      apply orb_false_iff in Chk. destruct Chk as [Csent Chk].
      apply orb_false_iff in Csent. destruct Csent as [Cs1 Cs2].
      apply orb_false_iff in Chk. destruct Chk as [Chk Cin].
      apply orb_false_iff in Chk. destruct Chk as [Ci1 Ci2].
      apply negb_false_iff in Cto, Ci1, Ci2.
      eapply Permutation_trans; [exact Hperm|].
      rewrite (filter_ext_in _ (fun r => eval_pred r p)); [apply Permutation_refl|].
      intros r Hr.
      apply (range_exact_lemma sch p st c e Hor Hl Hw Hc Hem Cs1 Cs2 Cin Ci1 Ci2); auto.
      unfold st. now rewrite final_related.
  - apply scan_exp_none in He. exfalso.
    unfold R, st in Hem. rewrite (final_range sch p c Hc), He in Hem. cbn in Hem.
    now rewrite new_range_empty in Hem.
Qed.

Lemma opt_list_in {A} (x : A) : forall l, In x (opt_list l) -> In (Some x) l.
Proof.
  induction l as [|[y|] l IH]; cbn; intros H; [contradiction| |].
  - destruct H as [->|H]; [now left|right; now apply IH].
  - right. now apply IH.
Qed.

Lemma candidates_inv sch p cols l pl :
  has_or p = false -> candidates sch p cols = Some l -> In pl l ->
  pl = seq_candidate (final_state sch p) cols \/
  exists c, col_indexed sch c = true /\ index_candidate sch (final_state sch p) cols c = Some pl.
Proof.
  intros Hor Hc Hin. unfold candidates in Hc. rewrite (walk_spec sch p Hor) in Hc. injection Hc as <-.
  apply in_app_or in Hin. destruct Hin as [Hin|[<-|[]]]; [right|now left].
  apply opt_list_in, in_map_iff in Hin. destruct Hin as (c & Hc & Hin).
  exists c. split; [|exact Hc]. unfold indexed_cols in Hin. apply filter_In in Hin. apply Hin.
Qed.

Lemma candidates_some sch p cols : has_or p = false ->
  exists l, candidates sch p cols = Some l /\ In (seq_candidate (final_state sch p) cols) l.
Proof.
  intros Hor. unfold candidates. rewrite (walk_spec sch p Hor). eexists. split; [reflexivity|].
  apply in_or_app. right. now left.
Qed.

Lemma plan_ok_index sch st cols c pl t : index_candidate sch st cols c = Some pl ->
  (plan_ok pl t <-> idx_side_ok c t).
Proof.
  unfold index_candidate. destruct (range_empty _); [discriminate|].
  destruct (scan_exp _) as [e|]; [destruct (_ || _)|]; intros H; injection H as <-; cbn; reflexivity.
Qed.

(** scan_plan_equiv, as it holds for the faithful model. *)
Lemma scan_plan_equiv_partial_lemma : forall sch p cols t l pl,
  has_or p = false -> lits_ok sch p -> table_ok sch t -> sel_safe p t ->
  candidates sch p cols = Some l -> In pl l -> plan_ok pl t ->
  exists out, run_plan pl t = Some out /\ Permutation out (sel cols p t).
Proof.
  intros sch p cols t l pl Hor Hl Ht Hs Hc Hin Hok.
  destruct (candidates_inv sch p cols l pl Hor Hc Hin) as [->|(c & Hci & Hpl)].
  - eexists. split; [apply seq_candidate_equiv; assumption|apply Permutation_refl].
  - apply (index_candidate_equiv sch p cols t c pl); auto.
    apply (plan_ok_index sch _ cols c pl t Hpl). exact Hok.
Qed.

Lemma chosen_plan_equiv_lemma : forall sch p cols t k pl,
  has_or p = false -> lits_ok sch p -> table_ok sch t -> sel_safe p t ->
  chosen sch p cols k = Some pl -> plan_ok pl t ->
  exists out, run_plan pl t = Some out /\ Permutation out (sel cols p t).
Proof.
  intros sch p cols t k pl Hor Hl Ht Hs Hch Hok. unfold chosen in Hch.
  destruct (candidates sch p cols) as [l|] eqn:Hc; [|discriminate].
  apply nth_error_In in Hch.
  apply (scan_plan_equiv_partial_lemma sch p cols t l pl); assumption.
Qed.

(** The sequential plan used for predicates containing OR. *)
Lemma or_plan_equiv_lemma : forall sch p cols t,
  lits_ok sch p -> table_ok sch t -> sel_safe p t ->
  run_plan (or_plan p cols) t = Some (sel cols p t).
Proof.
  intros sch p cols t Hl Ht Hs. unfold or_plan. cbn [run_plan]. unfold sel. f_equal. f_equal.
  apply filter_ext_in. intros r Hr. apply (eng_eval_ref sch r (Ht r Hr) p Hl (Hs r Hr)).
Qed.

(** ** Side conditions stated on the table *)

Definition all_int (sch : schema) : Prop := forall c, col_type sch c = TInt.
Definition indexed_nonnull (sch : schema) (t : table) : Prop :=
  forall c, col_indexed sch c = true -> forall r, In r t -> nth c r VNull <> VNull.

Lemma plan_ok_of_nonnull : forall sch p cols t l pl,
  has_or p = false -> indexed_nonnull sch t ->
  candidates sch p cols = Some l -> In pl l -> plan_ok pl t.
Proof.
  intros sch p cols t l pl Hor Hnn Hc Hin.
  destruct (candidates_inv sch p cols l pl Hor Hc Hin) as [->|(c & Hci & Hpl)].
  - unfold seq_candidate. destruct (scan_exp _); exact I.
  - apply (plan_ok_index sch _ cols c pl t Hpl). exact (Hnn c Hci).
Qed.

Lemma scan_plan_equiv_nonnull_lemma : forall sch p cols t l pl,
  has_or p = false -> lits_ok sch p -> table_ok sch t -> sel_safe p t -> indexed_nonnull sch t ->
  candidates sch p cols = Some l -> In pl l ->
  exists out, run_plan pl t = Some out /\ Permutation out (sel cols p t).
Proof.
  intros sch p cols t l pl Hor Hl Ht Hs Hnn Hc Hin.
  apply (scan_plan_equiv_partial_lemma sch p cols t l pl); auto.
  apply (plan_ok_of_nonnull sch p cols t l pl); auto.
Qed.

Lemma sel_safe_int sch p t : all_int sch -> lits_ok sch p -> table_ok sch t -> sel_safe p t.
Proof.
  intros Hi Hl Ht r Hr x Hx. right.
  destruct (Hl x Hx) as [Hn Hv]. specialize (Ht r Hr (c3col x)). rewrite Hi in Hv, Ht.
  destruct (nth (c3col x) r VNull) as [|a|u|s]; [reflexivity| | |]; cbn in Ht;
    try (destruct Ht; discriminate); try discriminate.
  destruct (c3lit x) as [|b|u|s]; [congruence| | |]; cbn in Hv;
    try (destruct Hv; discriminate); try discriminate.
  apply bad_int_never; [apply Ht|apply Hv].
Qed.

(** Integer-only schemas: Compare* has no defect, only the NULL condition is left. *)
Lemma scan_plan_equiv_int_lemma : forall sch p cols t l pl,
  all_int sch -> has_or p = false -> lits_ok sch p -> table_ok sch t -> indexed_nonnull sch t ->
  candidates sch p cols = Some l -> In pl l ->
  exists out, run_plan pl t = Some out /\ Permutation out (sel cols p t).
Proof.
  intros sch p cols t l pl Hi Hor Hl Ht Hnn Hc Hin.
  apply (scan_plan_equiv_nonnull_lemma sch p cols t l pl); auto.
  apply (sel_safe_int sch p t Hi Hl Ht).
Qed.

(** The NULL signature is sound: when it does not fire, no indexed column holds NULL. *)
Lemma has_null_false sch t : has_null_in_indexed_col sch t = false -> indexed_nonnull sch t.
Proof.
  unfold has_null_in_indexed_col. intros H c Hc r Hr Hnull.
  assert (In c (indexed_cols sch)) as Hin.
  { unfold indexed_cols. apply filter_In. split; [|exact Hc]. apply in_seq. split; [lia|]. cbn.
    destruct (Nat.lt_ge_cases c (length sch)) as [Hlt|Hge]; [exact Hlt|].
    unfold col_indexed in Hc. rewrite nth_overflow in Hc by exact Hge. discriminate. }
  assert (existsb (fun r => existsb (fun c => is_null (nth c r VNull)) (indexed_cols sch)) t = true) as E.
  { apply existsb_exists. exists r. split; [exact Hr|]. apply existsb_exists. exists c. split; [exact Hin|].
    rewrite Hnull. reflexivity. }
  rewrite H in E. discriminate.
Qed.

(** * 9. What fails without the side conditions *)

(** scan_plan_equiv without [sel_safe] and [plan_ok]. *)
Definition scan_plan_equiv : Prop := forall sch p cols t l pl,
  has_or p = false -> lits_ok sch p -> table_ok sch t ->
  candidates sch p cols = Some l -> In pl l ->
  exists out, run_plan pl t = Some out /\ Permutation out (sel cols p t).

Ltac one_col_table :=
  let r := fresh "r" in let c := fresh "c" in
  intros r [<-|[]] c; destruct c as [|c]; [|destruct c]; cbn; auto.

Definition str_T : list N := [84%N].

(** (a) A literal equal to a sentinel string: [s < 'SamehadaDBInfMaxValue'] keeps 'T'.
    Every hypothesis of the partial theorem holds except [sel_safe]. *)
Lemma sentinel_literal_refuted_lemma :
  let sch := [(TStr, true)] : schema in
  let p := PCmp 0 OLt (VStr inf_max_str) in
  let t := [[VStr str_T]] : table in
  let pl := PProjection (PSelection PSeqScan p) [O] in
  has_or p = false /\ lits_ok sch p /\ table_ok sch t /\
  candidates sch p [O] = Some [pl] /\ plan_ok pl t /\
  stmt_hits_bad p t = true /\
  run_plan pl t = Some [[VStr str_T]] /\ sel [O] p t = [].
Proof.
  cbv zeta.
  split; [reflexivity|].
  split; [intros x [<-|[]]; split; [discriminate|reflexivity]|].
  split; [one_col_table|].
  split; [vm_compute; reflexivity|].
  split; [exact I|].
  split; [vm_compute; reflexivity|].
  split; vm_compute; reflexivity.
Qed.

Lemma scan_plan_equiv_refuted_lemma : ~ scan_plan_equiv.
Proof.
  intros H.
  destruct sentinel_literal_refuted_lemma as (Hor & Hl & Ht & Hc & _ & _ & Hrun & Hsel).
  destruct (H _ _ _ _ _ _ Hor Hl Ht Hc (or_introl eq_refl)) as (out & Ho & Hp).
  rewrite Hrun in Ho. injection Ho as <-. rewrite Hsel in Hp.
  apply Permutation_sym, Permutation_nil in Hp. discriminate.
Qed.

(** (c) NULL in an indexed column: it sits in the index under key 0, the scan for
    [a = 0] meets it and the statement aborts.  Integers only, so [sel_safe] and
    the sentinel side conditions hold. *)
Lemma null_in_index_refuted_lemma :
  let sch := [(TInt, true)] : schema in
  let p := PCmp 0 OEq (VInt 0) in
  let t := [[VNull]; [VInt 0]] : table in
  let pl := PProjection (PIndexRange 0 TInt (VInt 0) (VInt 0)) [O] in
  all_int sch /\ has_or p = false /\ lits_ok sch p /\ table_ok sch t /\
  (exists l, candidates sch p [O] = Some l /\ In pl l) /\
  run_plan pl t = None /\ sel [O] p t = [[VInt 0]] /\
  has_null_in_indexed_col sch t = true /\ plan_hits_null pl t = true.
Proof.
  cbv zeta.
  split; [intros c; destruct c as [|c]; [|destruct c]; reflexivity|].
  split; [reflexivity|].
  split.
  { intros x [<-|[]]. split; [discriminate|]. cbn. split; [reflexivity|].
    unfold int_ok, min_int32, max_int32. lia. }
  split.
  { intros r [<-|[<-|[]]] c; destruct c as [|c]; try (destruct c); cbn; auto.
    split; [reflexivity|]. unfold int_ok, min_int32, max_int32. lia. }
  split; [eexists; split; [vm_compute; reflexivity|left; reflexivity]|].
  repeat split; vm_compute; reflexivity.
Qed.

(** The defect signature is sound: when it does not fire, [sel_safe] holds. *)
Lemma stmt_hits_bad_false p t : stmt_hits_bad p t = false -> sel_safe p t.
Proof.
  unfold stmt_hits_bad. intros H r Hr x Hx.
  assert (existsb (fun x => ordered (c3op x) && cv_bad (nth (c3col x) r VNull) (c3lit x)) (cmps p) = false) as H1.
  { destruct (existsb _ (cmps p)) eqn:E; [|reflexivity].
    assert (existsb (fun r => existsb (fun x => ordered (c3op x) && cv_bad (nth (c3col x) r VNull) (c3lit x)) (cmps p)) t = true) as H2
      by (apply existsb_exists; exists r; split; assumption).
    rewrite H in H2. discriminate. }
  assert (ordered (c3op x) && cv_bad (nth (c3col x) r VNull) (c3lit x) = false) as H3.
  { destruct (ordered (c3op x) && cv_bad (nth (c3col x) r VNull) (c3lit x)) eqn:E; [|reflexivity].
    assert (existsb (fun x => ordered (c3op x) && cv_bad (nth (c3col x) r VNull) (c3lit x)) (cmps p) = true) as H2
      by (apply existsb_exists; exists x; split; assumption).
    rewrite H1 in H2. discriminate. }
  apply andb_false_iff in H3. exact H3.
Qed.

(** The sequential candidate, stated on the walk's result. *)
Lemma seq_plan_equiv_lemma : forall sch p cols t st,
  has_or p = false -> lits_ok sch p -> table_ok sch t -> sel_safe p t ->
  walk sch p = Some st ->
  run_plan (seq_candidate st cols) t = Some (sel cols p t).
Proof.
  intros sch p cols t st Hor Hl Ht Hs Hw. rewrite (walk_spec sch p Hor) in Hw. injection Hw as <-.
  now apply seq_candidate_equiv.
Qed.

Lemma candidates_exist_lemma : forall sch p cols, has_or p = false ->
  exists st l, walk sch p = Some st /\ candidates sch p cols = Some l /\ In (seq_candidate st cols) l.
Proof.
  intros sch p cols Hor. destruct (candidates_some sch p cols Hor) as (l & Hc & Hin).
  exists (final_state sch p), l. split; [now apply walk_spec|]. split; assumption.
Qed.

(** The visiting order, on the walk's result: relatedOps is [cmps p] (for
    [a AND b] the comparisons of [b] first). *)
Lemma walk_order_lemma : forall sch p st, walk sch p = Some st ->
  has_or p = false /\ ws_related st = cmps p /\ st = fold_left (visit sch) (cmps p) (winit sch).
Proof.
  intros sch p st Hw. destruct (has_or p) eqn:Hor.
  - apply (proj2 (walk_none_iff sch p)) in Hor. rewrite Hor in Hw. discriminate.
  - rewrite (walk_spec sch p Hor) in Hw. injection Hw as <-.
    split; [reflexivity|]. split; [apply final_related|reflexivity].
Qed.

(** * 10. A concrete instance (non-vacuity, used by Props/C06.v) *)

Definition ex_sch : schema := [(TInt, true); (TInt, false)].
Definition ex_row (a b : Z) : row := [VInt a; VInt b].
Definition ex_t : table :=
  [ex_row 7 70; ex_row 3 30; ex_row 5 50; ex_row 12 120; ex_row 4 40;
   ex_row 10 100; ex_row 1 10; ex_row 5 51; ex_row 9 90].
Definition ex_a (o : cmpop) (z : Z) : pred := PCmp 0 o (VInt z).
(** a>=3 AND a>=5 AND a<=10 ;  a=5 AND a=7 ;  a>=1 AND a<=5 AND a<>3 ;  a=5 *)
Definition ex_p1 : pred := PAnd (PAnd (ex_a OGe 3) (ex_a OGe 5)) (ex_a OLe 10).
Definition ex_p2 : pred := PAnd (ex_a OEq 5) (ex_a OEq 7).
Definition ex_p3 : pred := PAnd (PAnd (ex_a OGe 1) (ex_a OLe 5)) (ex_a ONe 3).
Definition ex_p4 : pred := ex_a OEq 5.


Lemma ex_hyps_lemma :
  all_int ex_sch /\ table_ok ex_sch ex_t /\ indexed_nonnull ex_sch ex_t /\
  lits_ok ex_sch ex_p1 /\ lits_ok ex_sch ex_p2 /\ lits_ok ex_sch ex_p3 /\ lits_ok ex_sch ex_p4 /\
  has_or ex_p1 = false /\ has_or ex_p2 = false /\ has_or ex_p3 = false /\ has_or ex_p4 = false.
Proof.
  assert (forall z, (-100 <= z <= 1000)%Z -> val_ok TInt (VInt z)) as Hz.
  { intros z Hz. cbn. split; [reflexivity|]. unfold int_ok, min_int32, max_int32. lia. }
  assert (forall c, col_type ex_sch c = TInt) as Hty.
  { intros c. destruct c as [|[|c]]; [reflexivity|reflexivity|]. unfold col_type, ex_sch. cbn. destruct c; reflexivity. }
  split; [exact Hty|].
  split.
  { intros r Hr c. rewrite Hty.
    cbn in Hr. repeat (destruct Hr as [<-|Hr]; [destruct c as [|[|[|c]]]; cbn; try exact I; apply Hz; lia|]).
    contradiction. }
  split.
  { intros c Hc r Hr. destruct c as [|[|c]]; [| discriminate Hc |].
    - cbn in Hr. repeat (destruct Hr as [<-|Hr]; [discriminate|]). contradiction.
    - unfold col_indexed, ex_sch in Hc. cbn in Hc. destruct c; discriminate Hc. }
  assert (forall p, (forall x, In x (cmps p) -> exists c o z, x = (c, o, VInt z) /\ (-100 <= z <= 1000)%Z) ->
                    lits_ok ex_sch p) as Hlit.
  { intros p H x Hx. destruct (H x Hx) as (c & o & z & -> & Hr). cbn [c3lit c3col fst snd].
    split; [discriminate|]. rewrite Hty. apply Hz. exact Hr. }
  repeat (split; [apply Hlit; intros x Hx; cbn in Hx;
                  repeat (destruct Hx as [<-|Hx]; [do 3 eexists; split; [reflexivity|lia]|]); contradiction|]).
  repeat split; reflexivity.
Qed.
