(** Proofs for the join planning model (property C11): every plan of
    [join_candidates] returns the reference answer [join_sel] up to order.

    Method.  A *global row* is a row of the full width of the combined row in which
    the columns of the tables a plan does not cover hold a blank (VNull).
    [gcomb M] is the list of global rows over the tables selected by the mask [M],
    in table order; [spec M] are those that satisfy the part of WHERE that only
    mentions tables of [M].  [good M p]: plan [p] emits, up to order, the
    projections of [spec M] on its output columns.  Leaves are good by C06
    (scan_plan_equiv_nonnull), every candidate of findBestJoinInner over two good
    plans of disjoint table sets is good ([inner_good]), and for the full mask
    [spec] is the reference. *)
From Coq Require Import List NArith ZArith Bool Arith Lia Permutation ZifyBool ZifyN ZifyNat.
From SDB Require Import Base.Bytes Model.Codec Model.SqlRef Model.Query Model.Join
  Proofs.BytesProofs Proofs.QueryProofs.
Import ListNotations.
Local Open Scope nat_scope.

(** * 1. Lists *)

Lemma flat_map_nil_body {A B} (l : list A) : flat_map (fun _ => @nil B) l = [].
Proof. induction l; cbn; auto. Qed.

Lemma flat_map_map' {A B C} (f : B -> list C) (g : A -> B) (l : list A) :
  flat_map f (map g l) = flat_map (fun x => f (g x)) l.
Proof. induction l; cbn; [reflexivity|now rewrite IHl]. Qed.

Lemma map_flat_map' {A B C} (g : B -> C) (f : A -> list B) (l : list A) :
  map g (flat_map f l) = flat_map (fun x => map g (f x)) l.
Proof. induction l; cbn; [reflexivity|now rewrite map_app, IHl]. Qed.

Lemma filter_flat_map' {A B} (p : B -> bool) (f : A -> list B) (l : list A) :
  filter p (flat_map f l) = flat_map (fun x => filter p (f x)) l.
Proof. induction l; cbn; [reflexivity|now rewrite filter_app, IHl]. Qed.

Lemma filter_map' {A B} (p : B -> bool) (f : A -> B) (l : list A) :
  filter p (map f l) = map f (filter (fun x => p (f x)) l).
Proof. induction l; cbn; [reflexivity|]. destruct (p (f a)); cbn; now rewrite IHl. Qed.

Lemma filter_filter' {A} (p q : A -> bool) (l : list A) :
  filter p (filter q l) = filter (fun x => q x && p x) l.
Proof. induction l; cbn; [reflexivity|]. destruct (q a); cbn; [destruct (p a)|]; now rewrite IHl. Qed.

Lemma map_filter_flat {A B} (p : A -> bool) (f : A -> B) (l : list A) :
  map f (filter p l) = flat_map (fun x => if p x then [f x] else []) l.
Proof. induction l; cbn; [reflexivity|]. destruct (p a); cbn; now rewrite IHl. Qed.

Lemma flat_map_ext_in' {A B} (f g : A -> list B) (l : list A) :
  (forall x, In x l -> f x = g x) -> flat_map f l = flat_map g l.
Proof.
  induction l; cbn; intros H; [reflexivity|].
  rewrite (H a (or_introl eq_refl)), IHl; [reflexivity|]. intros x Hx. apply H. now right.
Qed.

Lemma flat_map_perm_ext {A B} (f g : A -> list B) (l : list A) :
  (forall x, In x l -> Permutation (f x) (g x)) -> Permutation (flat_map f l) (flat_map g l).
Proof.
  induction l; cbn; intros H; [constructor|].
  apply Permutation_app; [apply H; now left|apply IHl; intros x Hx; apply H; now right].
Qed.

Lemma flat_map_app_perm {A B} (f g : A -> list B) (l : list A) :
  Permutation (flat_map (fun x => f x ++ g x) l) (flat_map f l ++ flat_map g l).
Proof.
  induction l; cbn; [constructor|].
  rewrite <- !app_assoc. apply Permutation_app_head.
  eapply Permutation_trans; [apply Permutation_app_head; exact IHl|].
  rewrite !app_assoc. apply Permutation_app_tail. apply Permutation_app_comm.
Qed.

Lemma flat_map_swap {A B C} (f : A -> B -> list C) (la : list A) (lb : list B) :
  Permutation (flat_map (fun a => flat_map (fun b => f a b) lb) la)
              (flat_map (fun b => flat_map (fun a => f a b) la) lb).
Proof.
  induction la as [|a la IH]; cbn.
  - rewrite flat_map_nil_body. constructor.
  - eapply Permutation_trans; [apply Permutation_app_head; exact IH|].
    apply Permutation_sym. apply (flat_map_app_perm (fun b => f a b) (fun b => flat_map (fun a0 => f a0 b) la)).
Qed.

Lemma if_flat_map {A B} (c : bool) (f : A -> list B) (l : list A) :
  (if c then [] else flat_map f l) = flat_map (fun x => if c then [] else f x) l.
Proof. destruct c; [now rewrite flat_map_nil_body|reflexivity]. Qed.

(** the comprehension normal form of "project the merged pairs that pass a test" *)
Lemma comp_form {A B C D} (m : A -> B -> C) (p : C -> bool) (f : C -> D) (la : list A) (lb : list B) :
  map f (filter p (flat_map (fun a => map (m a) lb) la)) =
  flat_map (fun a => flat_map (fun b => if p (m a b) then [f (m a b)] else []) lb) la.
Proof.
  rewrite filter_flat_map', map_flat_map'. apply flat_map_ext_in'. intros a _.
  rewrite filter_map', map_map, map_filter_flat. reflexivity.
Qed.

Lemma merged_filter {A B C} (m : A -> B -> C) (p : A -> bool) (q : B -> bool) (pq : C -> bool)
    (la : list A) (lb : list B) :
  (forall a b, In a la -> In b lb -> pq (m a b) = p a && q b) ->
  flat_map (fun a => map (m a) (filter q lb)) (filter p la) =
  filter pq (flat_map (fun a => map (m a) lb) la).
Proof.
  intros H. induction la as [|a la IH]; cbn; [reflexivity|].
  rewrite filter_app, <- IH by (intros; apply H; [now right|assumption]).
  assert (filter pq (map (m a) lb) = if p a then map (m a) (filter q lb) else []) as E.
  { assert (forall b, In b lb -> pq (m a b) = p a && q b) as Ha by (intros; apply H; [now left|assumption]).
    clear -Ha. induction lb as [|b lb IHb]; cbn; [now destruct (p a)|].
    rewrite (Ha b (or_introl eq_refl)), IHb by (intros; apply Ha; now right).
    destruct (p a), (q b); reflexivity. }
  rewrite E. destruct (p a); reflexivity.
Qed.

Lemma filter_all {A} (p : A -> bool) (l : list A) : (forall x, In x l -> p x = true) -> filter p l = l.
Proof.
  induction l; cbn; intros H; [reflexivity|].
  rewrite (H a (or_introl eq_refl)), IHl; [reflexivity|]. intros; apply H; now right.
Qed.

Lemma map_nth_seq {A} (d : A) (r : list A) : map (fun c => nth c r d) (seq 0 (length r)) = r.
Proof.
  induction r as [|x r IH]; cbn; [reflexivity|]. f_equal.
  rewrite <- seq_shift, map_map. exact IH.
Qed.

Lemma has_col_In cols c : has_col cols c = true <-> In c cols.
Proof.
  unfold has_col. rewrite existsb_exists. split.
  - intros (x & Hx & E). apply Nat.eqb_eq in E. now subst.
  - intros H. exists c. split; [assumption|apply Nat.eqb_refl].
Qed.

(** * 2. Cross products *)

Lemma cross_cons a t1 t2 : cross (a :: t1) t2 = map (fun r2 => a ++ r2) t2 ++ cross t1 t2.
Proof. reflexivity. Qed.

Lemma cross_app t1 t1' t2 : cross (t1 ++ t1') t2 = cross t1 t2 ++ cross t1' t2.
Proof. unfold cross. apply flat_map_app. Qed.

Lemma cross_map_l a t2 t3 : cross (map (fun r => a ++ r) t2) t3 = map (fun r => a ++ r) (cross t2 t3).
Proof.
  induction t2 as [|b t2 IH]; cbn; [reflexivity|].
  rewrite map_app, map_map. fold (cross (map (fun r => a ++ r) t2) t3). rewrite IH. f_equal.
  apply map_ext. intros r. now rewrite app_assoc.
Qed.

Lemma cross_assoc t1 t2 t3 : cross (cross t1 t2) t3 = cross t1 (cross t2 t3).
Proof.
  induction t1 as [|a t1 IH]; [reflexivity|].
  rewrite !cross_cons, cross_app, IH, cross_map_l. reflexivity.
Qed.

Lemma cross_unit_l t : cross [[]] t = t.
Proof. cbn. rewrite app_nil_r. apply map_id. Qed.

Lemma cross_unit_r t : cross t [[]] = t.
Proof. induction t as [|a t IH]; [reflexivity|]. rewrite cross_cons, IH. cbn. now rewrite app_nil_r. Qed.

Lemma cross_single_r t b : cross t [b] = map (fun r => r ++ b) t.
Proof. induction t as [|a t IH]; [reflexivity|]. rewrite cross_cons, IH. reflexivity. Qed.

Lemma fold_cross ts : forall acc, fold_left cross ts acc = cross acc (fold_right cross [[]] ts).
Proof.
  induction ts as [|t ts IH]; intros acc; cbn.
  - now rewrite cross_unit_r.
  - now rewrite IH, cross_assoc.
Qed.

Lemma cross_perm_r t1 : forall t2 t2', Permutation t2 t2' -> Permutation (cross t1 t2) (cross t1 t2').
Proof.
  intros t2 t2' H. unfold cross. apply flat_map_perm_ext. intros r _. now apply Permutation_map.
Qed.

(** * 3. Global columns *)

Lemma offs_table_of_le ws : forall c, offs ws (table_of ws c) <= c.
Proof.
  induction ws as [|w ws IH]; intros c; cbn [table_of offs]; [lia|].
  destruct (c <? w) eqn:E; cbn [offs]; [lia|]. specialize (IH (c - w)). lia.
Qed.

Lemma table_of_lt ws : forall c, c < total ws -> table_of ws c < length ws.
Proof.
  induction ws as [|w ws IH]; intros c H; cbn [table_of total fold_right length] in *; [lia|].
  destruct (c <? w) eqn:E; [lia|]. specialize (IH (c - w)). fold (total ws) in H. lia.
Qed.

Lemma local_of_lt ws : forall c, c < total ws -> local_of ws c < nth (table_of ws c) ws 0.
Proof.
  unfold local_of. induction ws as [|w ws IH]; intros c H; cbn [table_of total fold_right] in *; [lia|].
  fold (total ws) in H.
  destruct (c <? w) eqn:E; cbn [offs nth]; [lia|]. specialize (IH (c - w)). lia.
Qed.

Lemma table_of_offs ws : forall i k, k < nth i ws 0 -> table_of ws (offs ws i + k) = i.
Proof.
  induction ws as [|w ws IH]; intros i k H.
  - destruct i; cbn in H; lia.
  - destruct i; cbn [nth offs table_of] in *.
    + destruct (0 + k <? w) eqn:E; [reflexivity|lia].
    + destruct (w + offs ws i + k <? w) eqn:E; [lia|].
      f_equal. replace (w + offs ws i + k - w) with (offs ws i + k) by lia. now apply IH.
Qed.

Lemma col_split ws c : c = offs ws (table_of ws c) + local_of ws c.
Proof. unfold local_of. pose proof (offs_table_of_le ws c). lia. Qed.

Lemma offs_lt_total ws : forall i k, k < nth i ws 0 -> offs ws i + k < total ws.
Proof.
  induction ws as [|w ws IH]; intros i k H.
  - destruct i; cbn in H; lia.
  - destruct i; cbn [nth offs total fold_right] in *; fold (total ws); [lia|]. specialize (IH i k H). lia.
Qed.

Lemma widths_nth schs i : nth i (widths schs) 0 = length (nth i schs []).
Proof. unfold widths. change 0 with (length (@nil (coltype * bool))). apply map_nth. Qed.

Lemma widths_length schs : length (widths schs) = length schs.
Proof. apply map_length. Qed.

(** * 4. Lookup in aligned rows *)

Lemma lookup_project cols g c : In c cols -> lookup cols (project cols g) c = nth c g VNull.
Proof.
  unfold lookup, project. induction cols as [|x cols IH]; intros H; [destruct H|].
  cbn. destruct (Nat.eqb x c) eqn:E.
  - apply Nat.eqb_eq in E. now subst.
  - destruct H as [->|H]; [now rewrite Nat.eqb_refl in E|]. now apply IH.
Qed.

Lemma project_app a b g : project (a ++ b) g = project a g ++ project b g.
Proof. apply map_app. Qed.

Lemma project_ext cols g g' : (forall c, In c cols -> nth c g VNull = nth c g' VNull) -> project cols g = project cols g'.
Proof. intros H. apply map_ext_in. exact H. Qed.

Lemma jproject_project cols out g : (forall c, In c out -> In c cols) ->
  jproject cols out (project cols g) = project out g.
Proof. intros H. apply map_ext_in. intros c Hc. apply lookup_project. now apply H. Qed.

(** * 5. Merging global rows *)

Definition vmerge (x y : value) : value := match x with VNull => y | _ => x end.
Definition gmerge (a b : row) : row := map (fun xy => vmerge (fst xy) (snd xy)) (combine a b).

Lemma gmerge_app x1 : forall x2 a b, length x1 = length x2 ->
  gmerge (x1 ++ a) (x2 ++ b) = gmerge x1 x2 ++ gmerge a b.
Proof.
  unfold gmerge. induction x1 as [|v x1 IH]; intros [|u x2] a b H; cbn in *; try discriminate; [reflexivity|].
  f_equal. apply IH. lia.
Qed.

Lemma gmerge_blank_r r : gmerge r (repeat VNull (length r)) = r.
Proof. unfold gmerge. induction r as [|v r IH]; cbn; [reflexivity|]. rewrite IH. now destruct v. Qed.

Lemma gmerge_blank_l r : gmerge (repeat VNull (length r)) r = r.
Proof. unfold gmerge. induction r as [|v r IH]; cbn; [reflexivity|]. now rewrite IH. Qed.

Lemma gmerge_nil : gmerge [] [] = [].
Proof. reflexivity. Qed.

Lemma nth_gmerge a : forall b c, length a = length b ->
  nth c (gmerge a b) VNull = vmerge (nth c a VNull) (nth c b VNull).
Proof.
  unfold gmerge. induction a as [|v a IH]; intros [|u b] c H; cbn in *; try discriminate.
  - now destruct c.
  - destruct c; [reflexivity|]. apply IH. lia.
Qed.

(** * 6. Global rows over a set of tables *)

Fixpoint gcomb (M : nat -> bool) (ws : list nat) (ts : list table) : list row :=
  match ws with
  | [] => [[]]
  | wd :: ws' => cross (if M 0 then hd [] ts else [repeat VNull wd]) (gcomb (fun i => M (S i)) ws' (tl ts))
  end.

Definition rows_wf (ws : list nat) (ts : list table) : Prop :=
  forall i r, In r (nth i ts []) -> length r = nth i ws 0.

Lemma nth_tl {A} (l : list A) i d : nth i (tl l) d = nth (S i) l d.
Proof. destruct l; [now destruct i|reflexivity]. Qed.

Lemma hd_nth0 {A} (l : list A) d : hd d l = nth 0 l d.
Proof. now destruct l. Qed.

Lemma rows_wf_tl wd ws ts : rows_wf (wd :: ws) ts -> rows_wf ws (tl ts).
Proof. intros H i r Hr. rewrite nth_tl in Hr. exact (H (S i) r Hr). Qed.

Lemma in_cross g t1 t2 : In g (cross t1 t2) <-> exists x y, In x t1 /\ In y t2 /\ g = x ++ y.
Proof.
  unfold cross. rewrite in_flat_map. split.
  - intros (x & Hx & Hg). apply in_map_iff in Hg. destruct Hg as (y & <- & Hy). now exists x, y.
  - intros (x & y & Hx & Hy & ->). exists x. split; [assumption|]. apply in_map_iff. now exists y.
Qed.

(** the first [wd] columns of a global row: a row of the first table or a blank *)
Lemma gcomb_head M wd ws ts g : rows_wf (wd :: ws) ts -> In g (gcomb M (wd :: ws) ts) ->
  exists x g', g = x ++ g' /\ length x = wd /\ In g' (gcomb (fun i => M (S i)) ws (tl ts)) /\
               (if M 0 then In x (nth 0 ts []) else x = repeat VNull wd).
Proof.
  intros Hwf Hg. cbn in Hg. apply in_cross in Hg. destruct Hg as (x & g' & Hx & Hg' & ->).
  exists x, g'. split; [reflexivity|]. destruct (M 0).
  - rewrite hd_nth0 in Hx. repeat split; try assumption. exact (Hwf 0 x Hx).
  - destruct Hx as [<-|[]]. repeat split; try assumption. apply repeat_length.
Qed.

Lemma gcomb_length ws : forall M ts g, rows_wf ws ts -> In g (gcomb M ws ts) -> length g = total ws.
Proof.
  induction ws as [|wd ws IH]; intros M ts g Hwf Hg.
  - destruct Hg as [<-|[]]. reflexivity.
  - destruct (gcomb_head M wd ws ts g Hwf Hg) as (x & g' & -> & Hx & Hg' & _).
    rewrite app_length, Hx. cbn. f_equal. apply (IH _ _ _ (rows_wf_tl _ _ _ Hwf) Hg').
Qed.

(** columns of tables outside the mask are blank *)
Lemma gcomb_blank ws : forall M ts g c, rows_wf ws ts -> In g (gcomb M ws ts) ->
  M (table_of ws c) = false -> nth c g VNull = VNull.
Proof.
  induction ws as [|wd ws IH]; intros M ts g c Hwf Hg HM.
  - destruct Hg as [<-|[]]. now destruct c.
  - destruct (gcomb_head M wd ws ts g Hwf Hg) as (x & g' & -> & Hx & Hg' & Hh).
    cbn [table_of] in HM. destruct (c <? wd) eqn:E.
    + rewrite HM in Hh. subst x. rewrite app_nth1 by (rewrite repeat_length; lia).
      apply nth_repeat.
    + rewrite app_nth2 by lia. rewrite Hx.
      apply (IH (fun i => M (S i)) (tl ts) g' (c - wd) (rows_wf_tl _ _ _ Hwf) Hg' HM).
Qed.

(** the columns of a table inside the mask are a row of that table *)
Lemma gcomb_row ws : forall M ts g i, rows_wf ws ts -> In g (gcomb M ws ts) ->
  M i = true -> i < length ws ->
  exists r, In r (nth i ts []) /\ forall k, k < nth i ws 0 -> nth (offs ws i + k) g VNull = nth k r VNull.
Proof.
  induction ws as [|wd ws IH]; intros M ts g i Hwf Hg HM Hi; [cbn in Hi; lia|].
  destruct (gcomb_head M wd ws ts g Hwf Hg) as (x & g' & -> & Hx & Hg' & Hh).
  destruct i as [|i].
  - rewrite HM in Hh. exists x. split; [assumption|]. intros k Hk. cbn in *. now rewrite app_nth1 by lia.
  - cbn in Hi. destruct (IH (fun j => M (S j)) (tl ts) g' i (rows_wf_tl _ _ _ Hwf) Hg' HM ltac:(lia)) as (r & Hr & Hk).
    rewrite nth_tl in Hr. exists r. split; [assumption|]. intros k Hlt. cbn in *.
    rewrite app_nth2 by lia. replace (wd + offs ws i + k - length x) with (offs ws i + k) by lia. now apply Hk.
Qed.

Lemma gcomb_ext ws : forall M M' ts, (forall i, M i = M' i) -> gcomb M ws ts = gcomb M' ws ts.
Proof.
  induction ws as [|wd ws IH]; intros M M' ts H; cbn; [reflexivity|].
  rewrite (H 0). f_equal. apply IH. intros i. apply H.
Qed.

Lemma gcomb_none ws : forall M ts, (forall i, M i = false) -> gcomb M ws ts = [repeat VNull (total ws)].
Proof.
  induction ws as [|wd ws IH]; intros M ts H; cbn; [reflexivity|].
  rewrite (H 0), (IH _ _ (fun i => H (S i))). cbn. now rewrite repeat_app.
Qed.

Lemma gcomb_full ws : forall M ts, (forall i, i < length ws -> M i = true) -> length ts = length ws ->
  gcomb M ws ts = fold_right cross [[]] ts.
Proof.
  induction ws as [|wd ws IH]; intros M [|t ts] H Hl; cbn in *; try discriminate; [reflexivity|].
  rewrite (H 0) by lia. f_equal. apply IH; [intros i Hi; apply H; lia|lia].
Qed.

(** a single table: its rows, embedded *)
Definition embed (ws : list nat) (i : nat) (r : row) : row :=
  repeat VNull (offs ws i) ++ r ++ repeat VNull (total ws - offs ws i - nth i ws 0).

Lemma gcomb_single ws : forall i ts, i < length ws ->
  gcomb (fun j => Nat.eqb j i) ws ts = map (embed ws i) (nth i ts []).
Proof.
  induction ws as [|wd ws IH]; intros i ts Hi; [cbn in Hi; lia|].
  destruct i as [|i]; cbn [gcomb].
  - rewrite Nat.eqb_refl, (gcomb_none ws (fun j => Nat.eqb (S j) 0)) by reflexivity.
    rewrite hd_nth0, cross_single_r. apply map_ext. intros r.
    unfold embed. cbn [offs nth repeat app total fold_right]. fold (total ws). do 2 f_equal. lia.
  - change (0 =? S i) with false. cbn in Hi.
    rewrite (gcomb_ext ws (fun j => S j =? S i) (fun j => j =? i)) by reflexivity.
    rewrite (IH i (tl ts)) by lia. rewrite nth_tl. cbn. rewrite app_nil_r, map_map.
    apply map_ext. intros r. unfold embed. cbn [offs nth total fold_right].
    rewrite repeat_app, <- app_assoc. f_equal. f_equal. f_equal. fold (total ws). f_equal. lia.
Qed.

Lemma nth_embed ws i r k : nth (offs ws i + k) (embed ws i r) VNull = nth k r VNull.
Proof.
  unfold embed. rewrite app_nth2 by (rewrite repeat_length; lia).
  rewrite repeat_length. replace (offs ws i + k - offs ws i) with k by lia.
  destruct (Nat.lt_ge_cases k (length r)).
  - now rewrite app_nth1.
  - rewrite app_nth2 by assumption. rewrite (nth_overflow r) by assumption. apply nth_repeat.
Qed.

(** merging the global rows of two disjoint table sets gives the global rows of the union *)
Definition merged (A B : list row) : list row := flat_map (fun a => map (gmerge a) B) A.

Lemma merged_unfold A B : merged A B = flat_map (fun a => map (gmerge a) B) A.
Proof. reflexivity. Qed.

Lemma merged_app A A' B : merged (A ++ A') B = merged A B ++ merged A' B.
Proof. apply flat_map_app. Qed.

Lemma cross_blank bl G : cross [bl] G = map (fun g => bl ++ g) G.
Proof. rewrite cross_cons. cbn. apply app_nil_r. Qed.

Lemma merged_map_map (x1 x2 : row) G1 G2 : length x1 = length x2 ->
  merged (map (fun g => x1 ++ g) G1) (map (fun g => x2 ++ g) G2) =
  map (fun g => gmerge x1 x2 ++ g) (merged G1 G2).
Proof.
  intros H. rewrite !merged_unfold, flat_map_map', map_flat_map'. apply flat_map_ext_in'. intros a _.
  rewrite !map_map. apply map_ext. intros b. now apply gmerge_app.
Qed.

Lemma merged_cross_l T bl G1 G2 : (forall r, In r T -> length r = length bl) ->
  (forall r, In r T -> gmerge r bl = r) ->
  merged (cross T G1) (cross [bl] G2) = cross T (merged G1 G2).
Proof.
  intros Hl Hm. rewrite cross_blank. induction T as [|r T IH]; [reflexivity|].
  rewrite !cross_cons, merged_app, IH by (intros; (apply Hl || apply Hm); now right). f_equal.
  rewrite merged_map_map by (apply Hl; now left). now rewrite Hm by now left.
Qed.

Lemma merged_cross_r T bl G1 G2 : (forall r, In r T -> length bl = length r) ->
  (forall r, In r T -> gmerge bl r = r) ->
  Permutation (merged (cross [bl] G1) (cross T G2)) (cross T (merged G1 G2)).
Proof.
  intros Hl Hm. rewrite cross_blank.
  assert (merged (map (fun g => bl ++ g) G1) (cross T G2) =
          flat_map (fun a => flat_map (fun r => map (fun b => r ++ gmerge a b) G2) T) G1) as E1.
  { rewrite merged_unfold, flat_map_map'. apply flat_map_ext_in'. intros a _.
    unfold cross. rewrite map_flat_map'. apply flat_map_ext_in'. intros r Hr.
    rewrite map_map. apply map_ext. intros b. rewrite gmerge_app by now apply Hl. now rewrite Hm. }
  assert (cross T (merged G1 G2) =
          flat_map (fun r => flat_map (fun a => map (fun b => r ++ gmerge a b) G2) G1) T) as E2.
  { unfold cross. apply flat_map_ext_in'. intros r _.
    rewrite merged_unfold, map_flat_map'. apply flat_map_ext_in'. intros a _. now rewrite map_map. }
  rewrite E1, E2. apply flat_map_swap.
Qed.

Lemma merged_cross_n bl G1 G2 : gmerge bl bl = bl ->
  merged (cross [bl] G1) (cross [bl] G2) = cross [bl] (merged G1 G2).
Proof. intros H. rewrite !cross_blank, merged_map_map by reflexivity. now rewrite H. Qed.

Lemma gcomb_merge ws : forall M1 M2 ts, rows_wf ws ts -> (forall i, M1 i && M2 i = false) ->
  Permutation (gcomb (fun i => M1 i || M2 i) ws ts) (merged (gcomb M1 ws ts) (gcomb M2 ws ts)).
Proof.
  induction ws as [|wd ws IH]; intros M1 M2 ts Hwf Hd; [apply Permutation_refl|].
  specialize (IH (fun i => M1 (S i)) (fun i => M2 (S i)) (tl ts) (rows_wf_tl _ _ _ Hwf) (fun i => Hd (S i))).
  cbn [gcomb]. cbv beta in IH.
  assert (forall r, In r (hd [] ts) -> length r = wd) as Hlen by (intros r Hr; rewrite hd_nth0 in Hr; exact (Hwf 0 r Hr)).
  set (bl := repeat VNull wd). assert (length bl = wd) as Hbl by apply repeat_length.
  specialize (Hd 0). destruct (M1 0) eqn:E1, (M2 0) eqn:E2; cbn [orb]; try discriminate.
  - rewrite merged_cross_l.
    + now apply cross_perm_r.
    + intros r Hr. rewrite Hbl. now apply Hlen.
    + intros r Hr. unfold bl. rewrite <- (Hlen r Hr). apply gmerge_blank_r.
  - eapply Permutation_trans; [|apply Permutation_sym, merged_cross_r].
    + now apply cross_perm_r.
    + intros r Hr. rewrite Hbl. symmetry. now apply Hlen.
    + intros r Hr. unfold bl. rewrite <- (Hlen r Hr). apply gmerge_blank_l.
  - rewrite merged_cross_n.
    + now apply cross_perm_r.
    + unfold bl. rewrite <- (repeat_length VNull wd) at 2. apply gmerge_blank_r.
Qed.

(** * 7. Hypotheses of the main theorems *)

(** One table per schema, rows of the schema's width holding values of the column types. *)
Definition tables_wf (schs : list schema) (ts : list table) : Prop :=
  length ts = length schs /\ rows_wf (widths schs) ts /\
  forall i, i < length schs -> table_ok (nth i schs []) (nth i ts []).

(** Column references of WHERE and of the select list are columns of the combined row. *)
Definition query_scoped (schs : list schema) (w : jpred) (sl : list nat) : Prop :=
  (forall c, In c (jpred_cols w) -> c < total (widths schs)) /\
  (forall c, In c sl -> c < total (widths schs)).

(** Every equality [column = column] (between two tables or inside one) compares columns of one type. *)
Definition conds_ok (schs : list schema) (w : jpred) : Prop :=
  forall c1 c2, In (c1, c2) (jeqs w) -> gcol_type schs c1 = gcol_type schs c2.

(** The filters [column op literal]: the C06 side conditions, table by table. *)
Definition filters_ok (schs : list schema) (ts : list table) (w : jpred) : Prop :=
  forall i, i < length schs ->
    lits_ok (nth i schs []) (table_pred (widths schs) i w) /\
    sel_safe (table_pred (widths schs) i w) (nth i ts []).

Definition indexed_cols_nonnull (schs : list schema) (ts : list table) : Prop :=
  forall i, i < length schs -> indexed_nonnull (nth i schs []) (nth i ts []).

Definition key_col_vals (schs : list schema) (ts : list table) (w : jpred) (P : value -> Prop) : Prop :=
  forall c, In c (key_cols w) ->
    forall r, In r (nth (table_of (widths schs) c) ts []) -> P (nth (local_of (widths schs) c) r VNull).

Definition no_null_keys schs ts w : Prop := key_col_vals schs ts w (fun v => v <> VNull).
Definition no_neg_zero_keys schs ts w : Prop := key_col_vals schs ts w (fun v => v <> VFloat two31).

(** * 8. Equality of join keys: engine vs. reference *)

Lemma cv_eq_ref ty a b : val_ok ty a -> val_ok ty b -> b <> VNull -> cv_eq a b = eval_cmp OEq a b.
Proof.
  intros Ha Hb Hn. apply (compare_matches_reference_partial_lemma ty OEq a b Ha Hb Hn). now left.
Qed.

Lemma eval_cmp_eq_sym a b : eval_cmp OEq a b = eval_cmp OEq b a.
Proof.
  unfold eval_cmp. rewrite (orb_comm (is_null b)), (andb_comm (is_null b)).
  destruct (is_null a || is_null b); [reflexivity|].
  rewrite (vcmp_antisym a b). destruct (vcmp a b) as [[]|]; reflexivity.
Qed.

Lemma go_feq_key u v : go_feq u v = true -> f_key u = f_key v.
Proof.
  unfold go_feq. intros H. apply andb_true_iff in H. destruct H as [_ H]. now apply Z.eqb_eq in H.
Qed.

Lemma s_eq_eq s t : s_eq s t = true -> s = t.
Proof. unfold s_eq. destruct (lex_cmp s t) eqn:E; try discriminate. intros _. now apply lex_cmp_eq. Qed.

Lemma f_key_canon u v : f_key u = f_key v ->
  (if N.eqb u two31 then 0%N else u) = (if N.eqb v two31 then 0%N else v).
Proof.
  unfold f_key, two31. intros H.
  destruct (u =? 2147483648)%N eqn:Eu, (v =? 2147483648)%N eqn:Ev,
           (u <? 2147483648)%N eqn:Lu, (v <? 2147483648)%N eqn:Lv; lia.
Qed.

(** keys that CompareEquals calls equal hash alike (with the zero fix) *)
Lemma cv_eq_canon ty a b : val_ok ty a -> val_ok ty b -> a <> VNull -> b <> VNull ->
  cv_eq a b = true -> canon_key true a = canon_key true b.
Proof.
  intros Ha Hb Na Nb. unfold cv_eq.
  destruct a as [|x|u|s]; [congruence| | |]; destruct b as [|y|v|t]; try congruence;
    cbn [is_null andb orb val_ok] in *;
    try solve [repeat match goal with H : _ /\ _ |- _ => destruct H end; congruence].
  - cbn [cv_is_inf_max raw_eq canon_key]. destruct ((x =? max_int32)%Z) eqn:E1, ((y =? max_int32)%Z) eqn:E2; cbn [andb];
      intros H; try (apply Z.eqb_eq in H; now subst).
    apply Z.eqb_eq in E1, E2. now subst.
  - assert (f_key u = f_key v -> canon_key true (VFloat u) = canon_key true (VFloat v)) as K.
    { intros K. cbn [canon_key andb]. pose proof (f_key_canon u v K) as E.
      destruct (u =? two31)%N, (v =? two31)%N; congruence. }
    cbn [cv_is_inf_max raw_eq]. destruct (go_feq u max_f32) eqn:E1, (go_feq v max_f32) eqn:E2; cbn [andb]; intros H;
      try (apply go_feq_key in H; now apply K).
    apply go_feq_key in E1, E2. apply K. congruence.
  - cbn [cv_is_inf_max raw_eq canon_key]. destruct (s_eq s inf_max_str) eqn:E1, (s_eq t inf_max_str) eqn:E2; cbn [andb]; intros H;
      try (apply s_eq_eq in H; now subst).
    apply s_eq_eq in E1, E2. now subst.
Qed.

(** the three tests of the hash join on admissible keys are the reference equality *)
Lemma hash_test_ref (h : value -> N) ty a b : val_ok ty a -> val_ok ty b -> a <> VNull -> b <> VNull ->
  negb (is_null a) && N.eqb (h (canon_key true a)) (h (canon_key true b)) && cv_eq a b = eval_cmp OEq a b.
Proof.
  intros Ha Hb Na Nb. rewrite <- (cv_eq_ref ty a b Ha Hb Nb).
  destruct (cv_eq a b) eqn:E; [|apply andb_false_r].
  rewrite (cv_eq_canon ty a b Ha Hb Na Nb E), N.eqb_refl. destruct a; [congruence| | |]; reflexivity.
Qed.

Lemma eval_coleq g c1 c2 : nth c1 g VNull <> VNull -> nth c2 g VNull <> VNull ->
  eval_jpred g (JColEq c1 c2) = eval_cmp OEq (nth c1 g VNull) (nth c2 g VNull).
Proof.
  intros H1 H2. cbn [eval_jpred]. destruct (nth c1 g VNull), (nth c2 g VNull); try congruence; reflexivity.
Qed.

Lemma eval_coleq_sym g c1 c2 : eval_jpred g (JColEq c1 c2) = eval_jpred g (JColEq c2 c1).
Proof.
  cbn [eval_jpred]. rewrite (eval_cmp_eq_sym (nth c1 g VNull)).
  destruct (is_null (nth c1 g VNull)), (is_null (nth c2 g VNull)); reflexivity.
Qed.

(** * 9. Structure of the WHERE tree *)

Lemma eval_agree g g' e : (forall c, In c (jpred_cols e) -> nth c g VNull = nth c g' VNull) ->
  eval_jpred g e = eval_jpred g' e.
Proof.
  induction e as [|c1 c2|c o l|a IHa b IHb]; intros H; cbn [eval_jpred jpred_cols] in *.
  - reflexivity.
  - rewrite (H c1), (H c2) by (cbn; auto). reflexivity.
  - rewrite (H c) by (cbn; auto). reflexivity.
  - rewrite IHa, IHb; [reflexivity| |]; intros c Hc; apply H, in_or_app; auto.
Qed.

Lemma jeqs_key_cols e c1 c2 : In (c1, c2) (jeqs e) -> In c1 (key_cols e) /\ In c2 (key_cols e).
Proof.
  unfold key_cols. intros H. split; apply in_flat_map; exists (c1, c2); cbn; auto.
Qed.

Lemma key_cols_sub e c : In c (key_cols e) -> In c (jpred_cols e).
Proof.
  unfold key_cols. induction e as [|c1 c2|c' o l|a IHa b IHb]; cbn [jeqs jpred_cols flat_map]; intros H.
  - destruct H.
  - cbn in H. exact H.
  - destruct H.
  - rewrite flat_map_app in H. apply in_app_or in H. apply in_or_app. destruct H; [right|left]; auto.
Qed.

Lemma jeqs_sub_and_l a b x : In x (jeqs a) -> In x (jeqs (JAnd a b)).
Proof. intros H. cbn. apply in_or_app. now right. Qed.
Lemma jeqs_sub_and_r a b x : In x (jeqs b) -> In x (jeqs (JAnd a b)).
Proof. intros H. cbn. apply in_or_app. now left. Qed.

Lemma fold_and_sem (f : jpred -> bool) : (forall a b, f (JAnd a b) = f a && f b) ->
  forall l e, f (fold_left JAnd l e) = f e && forallb f l.
Proof.
  intros Hf. induction l as [|q l IH]; intros e; cbn [fold_left forallb]; [now rewrite andb_true_r|].
  rewrite IH, Hf. now rewrite andb_assoc.
Qed.

Lemma scan_conj_sem (f : jpred -> bool) l e : (forall a b, f (JAnd a b) = f a && f b) ->
  scan_conj l = Some e -> f e = forallb f l.
Proof.
  intros Hf H. destruct l as [|x rest]; [discriminate|]. injection H as <-. now rewrite (fold_and_sem f Hf).
Qed.

Lemma table_pred_no_or ws i e : has_or (table_pred ws i e) = false.
Proof.
  induction e as [|c1 c2|c o l|a IHa b IHb]; cbn; try reflexivity.
  - destruct (table_of ws c =? i); reflexivity.
  - now rewrite IHa, IHb.
Qed.

(** * 10. The invariant of the dynamic programme *)

Section Env.
Variable h : value -> N.
Variable schs : list schema.
Variable ts : list table.
Variable w : jpred.
Variable sl : list nat.
Local Notation ws := (widths schs).

Hypothesis Hwf : tables_wf schs ts.
Hypothesis Hscope : query_scoped schs w sl.
Hypothesis Hconds : conds_ok schs w.
Hypothesis Hfilters : filters_ok schs ts w.
Hypothesis Hidx : indexed_cols_nonnull schs ts.
Hypothesis Hnonnull : no_null_keys schs ts w.

Let Hrows : rows_wf ws ts.
Proof. apply Hwf. Qed.

(** WHERE restricted to the tables of a mask: the other conjuncts are dropped *)
Fixpoint restr (M : nat -> bool) (e : jpred) : jpred :=
  match e with
  | JAnd a b => JAnd (restr M a) (restr M b)
  | JColEq c1 c2 => if M (table_of ws c1) && M (table_of ws c2) then e else JTrue
  | JCmp c _ _ => if M (table_of ws c) then e else JTrue
  | JTrue => JTrue
  end.

Definition spec (M : nat -> bool) : list row :=
  filter (fun g => eval_jpred g (restr M w)) (gcomb M ws ts).

Lemma restr_cols M e c : In c (jpred_cols (restr M e)) -> M (table_of ws c) = true.
Proof.
  induction e as [|c1 c2|c' o l|a IHa b IHb]; cbn [restr jpred_cols].
  - intros [].
  - destruct (M (table_of ws c1)) eqn:E1, (M (table_of ws c2)) eqn:E2; cbn; intros H; try tauto.
    destruct H as [<-|[<-|[]]]; assumption.
  - destruct (M (table_of ws c')) eqn:E; cbn; intros H; try tauto. destruct H as [<-|[]]. assumption.
  - intros H. apply in_app_or in H. destruct H; auto.
Qed.

Lemma restr_ext M M' e : (forall i, M i = M' i) -> restr M e = restr M' e.
Proof.
  intros H. induction e as [|c1 c2|c' o l|a IHa b IHb]; cbn [restr]; try reflexivity.
  - now rewrite !H.
  - now rewrite H.
  - now rewrite IHa, IHb.
Qed.

Lemma restr_full M e : (forall c, In c (jpred_cols e) -> M (table_of ws c) = true) -> restr M e = e.
Proof.
  induction e as [|c1 c2|c' o l|a IHa b IHb]; cbn [restr jpred_cols]; intros H; try reflexivity.
  - rewrite (H c1), (H c2) by (cbn; auto). reflexivity.
  - rewrite (H c') by (cbn; auto). reflexivity.
  - rewrite IHa, IHb; [reflexivity| |]; intros c Hc; apply H, in_or_app; auto.
Qed.

Lemma spec_in M g : In g (spec M) -> In g (gcomb M ws ts).
Proof. unfold spec. intros H. apply filter_In in H. apply H. Qed.

(** ** Join-key values inside global rows *)

Definition kv_ok (c : nat) (v : value) : Prop :=
  v <> VNull /\ val_ok (gcol_type schs c) v.

Lemma key_fact M g c : In g (gcomb M ws ts) -> In c (key_cols w) -> M (table_of ws c) = true ->
  kv_ok c (nth c g VNull).
Proof.
  intros Hg Hc HM.
  assert (c < total ws) as Hlt by (apply (proj1 Hscope), key_cols_sub, Hc).
  pose proof (table_of_lt ws c Hlt) as Hi. pose proof (local_of_lt ws c Hlt) as Hk.
  destruct (gcomb_row ws M ts g (table_of ws c) Hrows Hg HM Hi) as (r & Hr & Hv).
  replace (nth c g VNull) with (nth (local_of ws c) r VNull)
    by (rewrite <- (Hv _ Hk), <- col_split; reflexivity).
  split; [exact (Hnonnull c Hc r Hr)|].
  unfold gcol_type. destruct Hwf as (_ & _ & Htok). rewrite widths_length in Hi.
  exact (Htok _ Hi r Hr (local_of ws c)).
Qed.

(** ** Merged rows *)

Section Merge.
Variables Mx My : nat -> bool.
Hypothesis Hdisj : forall i, Mx i && My i = false.
Variables a b : row.
Hypothesis Ha : In a (gcomb Mx ws ts).
Hypothesis Hb : In b (gcomb My ws ts).

Lemma merge_len : length a = length b.
Proof. now rewrite (gcomb_length ws Mx ts a Hrows Ha), (gcomb_length ws My ts b Hrows Hb). Qed.

Lemma merge_l c : Mx (table_of ws c) = true -> nth c (gmerge a b) VNull = nth c a VNull.
Proof.
  intros H. rewrite (nth_gmerge a b c merge_len).
  rewrite (gcomb_blank ws My ts b c Hrows Hb).
  - now destruct (nth c a VNull).
  - specialize (Hdisj (table_of ws c)). rewrite H in Hdisj. exact Hdisj.
Qed.

Lemma merge_r c : My (table_of ws c) = true -> nth c (gmerge a b) VNull = nth c b VNull.
Proof.
  intros H. rewrite (nth_gmerge a b c merge_len).
  rewrite (gcomb_blank ws Mx ts a c Hrows Ha); [reflexivity|].
  specialize (Hdisj (table_of ws c)). rewrite H, andb_true_r in Hdisj. exact Hdisj.
Qed.

Lemma project_merge_l cols : (forall c, In c cols -> Mx (table_of ws c) = true) ->
  project cols (gmerge a b) = project cols a.
Proof. intros H. apply project_ext. intros c Hc. apply merge_l. now apply H. Qed.

Lemma project_merge_r cols : (forall c, In c cols -> My (table_of ws c) = true) ->
  project cols (gmerge a b) = project cols b.
Proof. intros H. apply project_ext. intros c Hc. apply merge_r. now apply H. Qed.

Lemma eval_merge_l : eval_jpred (gmerge a b) (restr Mx w) = eval_jpred a (restr Mx w).
Proof. apply eval_agree. intros c Hc. apply merge_l. now apply (restr_cols Mx w). Qed.

Lemma eval_merge_r : eval_jpred (gmerge a b) (restr My w) = eval_jpred b (restr My w).
Proof. apply eval_agree. intros c Hc. apply merge_r. now apply (restr_cols My w). Qed.

Lemma key_merge c : In c (key_cols w) -> Mx (table_of ws c) || My (table_of ws c) = true ->
  kv_ok c (nth c (gmerge a b) VNull).
Proof.
  intros Hc H. destruct (Mx (table_of ws c)) eqn:E.
  - rewrite (merge_l c E). now apply (key_fact Mx).
  - cbn in H. rewrite (merge_r c H). now apply (key_fact My).
Qed.
End Merge.

(** merging the specified rows of two disjoint sets: what is left to check are the linking equalities *)
Lemma merged_spec Mx My : (forall i, Mx i && My i = false) ->
  merged (spec Mx) (spec My) =
  filter (fun g => eval_jpred g (restr Mx w) && eval_jpred g (restr My w))
         (merged (gcomb Mx ws ts) (gcomb My ws ts)).
Proof.
  intros Hd. unfold spec. rewrite !merged_unfold. apply merged_filter.
  intros a b Ha Hb. now rewrite (eval_merge_l Mx My Hd a b Ha Hb), (eval_merge_r Mx My Hd a b Ha Hb).
Qed.

Lemma merged_in Mx My g : In g (merged (spec Mx) (spec My)) ->
  exists a b, In a (gcomb Mx ws ts) /\ In b (gcomb My ws ts) /\ g = gmerge a b.
Proof.
  rewrite merged_unfold. intros H. apply in_flat_map in H. destruct H as (a & Ha & H).
  apply in_map_iff in H. destruct H as (b & <- & Hb). exists a, b. repeat split; now apply spec_in.
Qed.

(** ** [good] *)

Definition cols_ok (M : nat -> bool) (cols : list nat) : Prop :=
  (forall c, In c cols -> M (table_of ws c) = true) /\
  (forall c, touched w sl c = true -> M (table_of ws c) = true -> In c cols).

Definition good (M : nat -> bool) (p : jplan) : Prop :=
  cols_ok M (jcols ws p) /\
  (forall i, whole_scan p = Some i ->
     i < length schs /\ (forall j, M j = Nat.eqb j i) /\
     cmps (table_pred ws i w) = [] /\ table_eqs ws i w = []) /\
  exists out, run_join_gen true h schs ts p = Some out /\
              Permutation out (map (project (jcols ws p)) (spec M)).

Lemma spec_ext M M' : (forall i, M i = M' i) -> spec M = spec M'.
Proof. intros H. unfold spec. now rewrite (restr_ext M M' w H), (gcomb_ext ws M M' ts H). Qed.

Lemma good_ext M M' p : (forall i, M i = M' i) -> good M p -> good M' p.
Proof.
  intros H ((C1 & C2) & Hw & out & Hr & Hp). split; [split|split].
  - intros c Hc. rewrite <- H. now apply C1.
  - intros c Ht Hc. rewrite <- H in Hc. now apply C2.
  - intros i Hi. destruct (Hw i Hi) as (A & B & C & D). repeat split; try assumption. intros j. now rewrite <- H.
  - exists out. split; [assumption|]. now rewrite <- (spec_ext M M' H).
Qed.

(** ** Leaves *)

Lemma touched_key c : In c (jpred_cols w) -> touched w sl c = true.
Proof. intros H. unfold touched. apply has_col_In. apply in_or_app. now left. Qed.

Lemma touched_sel c : In c sl -> touched w sl c = true.
Proof. intros H. unfold touched. apply has_col_In. apply in_or_app. now right. Qed.

Lemma touched_lt c : touched w sl c = true -> c < total ws.
Proof.
  unfold touched. intros H. apply has_col_In in H. apply in_app_or in H.
  destruct H; [now apply (proj1 Hscope)|now apply (proj2 Hscope)].
Qed.

(** the same-table equalities of table [i] on a global row *)
Definition mk_eq (e : nat * nat) : jpred := JColEq (fst e) (snd e).
Definition eqs_hold (g : row) (l : list (nat * nat)) : bool := forallb (eval_jpred g) (map mk_eq l).

Lemma table_eqs_and i a b : table_eqs ws i (JAnd a b) = table_eqs ws i b ++ table_eqs ws i a.
Proof. unfold table_eqs. cbn [jeqs]. apply filter_app. Qed.

Lemma table_eqs_in i e x : In x (table_eqs ws i e) ->
  In x (jeqs e) /\ table_of ws (fst x) = i /\ table_of ws (snd x) = i.
Proof.
  unfold table_eqs. intros H. apply filter_In in H. destruct H as [H1 H2].
  apply andb_true_iff in H2. destruct H2 as [A B]. apply Nat.eqb_eq in A, B. auto.
Qed.

(** on an embedded row of table [i] the restricted WHERE is the table's own predicate
    and its same-table equalities *)
Lemma eval_embed i r e : (forall c, In c (jpred_cols e) -> c < total ws) ->
  eval_jpred (embed ws i r) (restr (fun j => Nat.eqb j i) e) =
  eval_pred r (table_pred ws i e) && eqs_hold (embed ws i r) (table_eqs ws i e).
Proof.
  induction e as [|c1 c2|c o l|a IHa b IHb]; intros Hs.
  - reflexivity.
  - cbn [restr table_pred eval_pred]. unfold eqs_hold, table_eqs. cbn [jeqs filter fst snd].
    destruct ((table_of ws c1 =? i) && (table_of ws c2 =? i)); cbn [map forallb mk_eq fst snd andb].
    + now rewrite andb_true_r.
    + reflexivity.
  - cbn [restr table_pred]. unfold eqs_hold, table_eqs. cbn [jeqs filter map forallb]. rewrite andb_true_r.
    destruct (table_of ws c =? i) eqn:E; [|reflexivity]. apply Nat.eqb_eq in E.
    cbn [eval_jpred eval_pred]. rewrite (col_split ws c) at 1. rewrite E, nth_embed. reflexivity.
  - cbn [restr table_pred eval_pred eval_jpred]. rewrite table_eqs_and. unfold eqs_hold in *.
    rewrite map_app, forallb_app, IHa, IHb by (intros c H; apply Hs; cbn; apply in_or_app; auto).
    destruct (eval_pred r (table_pred ws i a)), (eval_pred r (table_pred ws i b)); cbn [andb];
      rewrite ?andb_false_r; try reflexivity. apply andb_comm.
Qed.

Lemma project_embed i cols r : project (map (Nat.add (offs ws i)) cols) (embed ws i r) = project cols r.
Proof. unfold project. rewrite map_map. apply map_ext. intros c. apply nth_embed. Qed.

Lemma spec_single i : i < length schs ->
  spec (fun j => Nat.eqb j i) =
  map (embed ws i)
      (filter (fun r => eval_pred r (table_pred ws i w) && eqs_hold (embed ws i r) (table_eqs ws i w)) (nth i ts [])).
Proof.
  intros Hi. unfold spec. rewrite gcomb_single by now rewrite widths_length.
  rewrite filter_map'. f_equal. apply filter_ext. intros r. apply eval_embed. apply (proj1 Hscope).
Qed.

Lemma is_whole_candidate sch p cols l pl : has_or p = false ->
  candidates sch p cols = Some l -> In pl l -> is_whole pl = true -> cmps p = [].
Proof.
  intros Hor Hc Hin Hw. destruct (candidates_inv sch p cols l pl Hor Hc Hin) as [->|(c & _ & Hpl)].
  - unfold seq_candidate in Hw. rewrite final_related in Hw.
    destruct (scan_exp (cmps p)) eqn:E; [discriminate|]. now apply scan_exp_none.
  - unfold index_candidate in Hpl. destruct (range_empty _); [discriminate|].
    destruct (scan_exp _); [destruct (_ || _)|]; injection Hpl as <-; discriminate.
Qed.

Lemma candidate_cols sch p cols l pl n : has_or p = false ->
  candidates sch p cols = Some l -> In pl l -> plan_cols n pl = cols.
Proof.
  intros Hor Hc Hin. destruct (candidates_inv sch p cols l pl Hor Hc Hin) as [->|(c & _ & Hpl)].
  - reflexivity.
  - unfold index_candidate in Hpl. destruct (range_empty _); [discriminate|].
    destruct (scan_exp _); [destruct (_ || _)|]; injection Hpl as <-; reflexivity.
Qed.

Lemma leaf_good i l pl : i < length schs -> scan_candidates schs w sl i = Some l -> In pl l ->
  good (fun j => Nat.eqb j i) (leaf_select ws i w (JScan i pl)).
Proof.
  intros Hi Hc Hin. unfold scan_candidates in Hc.
  pose proof (table_pred_no_or ws i w) as Hor.
  assert (jcols ws (JScan i pl) = map (Nat.add (offs ws i)) (touched_local ws w sl i)) as Ecols.
  { cbn [jcols]. f_equal. exact (candidate_cols _ _ _ l pl _ Hor Hc Hin). }
  assert (cols_ok (fun j => Nat.eqb j i) (jcols ws (JScan i pl))) as Cok.
  { split.
    - rewrite Ecols. intros c Hc'. apply in_map_iff in Hc'. destruct Hc' as (k & <- & Hk).
      unfold touched_local in Hk. apply filter_In in Hk. destruct Hk as [Hk _]. apply in_seq in Hk.
      rewrite table_of_offs by lia. apply Nat.eqb_refl.
    - rewrite Ecols. intros c Ht HM. apply Nat.eqb_eq in HM. apply in_map_iff.
      exists (local_of ws c). split; [rewrite <- HM; symmetry; apply col_split|].
      unfold touched_local. apply filter_In. split.
      + apply in_seq. pose proof (local_of_lt ws c (touched_lt c Ht)). rewrite HM in H. lia.
      + rewrite <- HM, <- col_split. exact Ht. }
  destruct Hwf as (_ & _ & Htok). destruct (Hfilters i Hi) as (Hl & Hs).
  destruct (scan_plan_equiv_nonnull_lemma _ _ _ (nth i ts []) l pl Hor Hl (Htok i Hi) Hs (Hidx i Hi) Hc Hin)
    as (out & Hrun & Hperm).
  unfold sel in Hperm. unfold leaf_select.
  destruct (table_eqs ws i w) as [|x rest] eqn:Eeq.
  - (* no same-table equality *)
    cbn [map scan_conj]. split; [exact Cok|split].
    + cbn [whole_scan]. intros i' H. destruct (is_whole pl) eqn:Ew; [|discriminate]. injection H as <-.
      repeat split; [assumption| |assumption]. exact (is_whole_candidate _ _ _ l pl Hor Hc Hin Ew).
    + exists out. split; [exact Hrun|]. rewrite Ecols, (spec_single i Hi), map_map, Eeq.
      erewrite map_ext by (intros r; apply project_embed).
      erewrite (filter_ext _ (fun r => eval_pred r (table_pred ws i w))); [exact Hperm|].
      intros r. apply andb_true_r.
  - (* the leaf's Selection on them *)
    destruct (scan_conj (map (fun e => JColEq (fst e) (snd e)) (x :: rest))) as [e|] eqn:Esc; [|discriminate].
    split; [exact Cok|split; [intros i' H; discriminate|]].
    cbn [run_join_gen]. rewrite Hrun. eexists. split; [reflexivity|].
    change (jcols ws (JSelect (JScan i pl) e)) with (jcols ws (JScan i pl)).
    assert (forall r, project (jcols ws (JScan i pl)) (embed ws i r) = project (touched_local ws w sl i) r) as PE
      by (intros r; rewrite Ecols; apply project_embed).
    eapply Permutation_trans; [apply perm_filter; exact Hperm|].
    rewrite (spec_single i Hi), map_map, Eeq, (map_ext _ _ PE).
    match goal with |- Permutation ?a ?b => cut (a = b); [intros ->; apply Permutation_refl|] end.
    rewrite filter_map', filter_filter'. f_equal. apply filter_ext_in. intros r Hr. f_equal.
    rewrite <- PE.
    rewrite (scan_conj_sem (eng_jeval (jcols ws (JScan i pl)) (project (jcols ws (JScan i pl)) (embed ws i r)))
               _ e (fun _ _ => eq_refl) Esc).
    unfold eqs_hold, mk_eq. apply forallb_ext_in. intros q Hq. apply in_map_iff in Hq. destruct Hq as ([c1 c2] & <- & Hq).
    cbv beta. cbn [fst snd]. rewrite <- Eeq in Hq. destruct (table_eqs_in i w (c1, c2) Hq) as (Hj & T1 & T2). cbn [fst snd] in T1, T2.
    destruct (jeqs_key_cols w c1 c2 Hj) as (K1 & K2).
    assert (In (embed ws i r) (gcomb (fun j => Nat.eqb j i) ws ts)) as Hg
      by (rewrite gcomb_single by (now rewrite widths_length); now apply in_map).
    cbn [eng_jeval]. rewrite !lookup_project
      by (apply Cok; [apply touched_key, key_cols_sub; assumption|rewrite ?T1, ?T2; apply Nat.eqb_refl]).
    destruct (key_fact _ _ c1 Hg K1 ltac:(rewrite T1; apply Nat.eqb_refl)) as (N1 & V1).
    destruct (key_fact _ _ c2 Hg K2 ltac:(rewrite T2; apply Nat.eqb_refl)) as (N2 & V2).
    rewrite (Hconds c1 c2 Hj) in V1.
    rewrite (cv_eq_ref _ _ _ V1 V2 N2). symmetry. now apply eval_coleq.
Qed.

Ltac perm_eq := match goal with |- Permutation ?a ?b => cut (a = b); [intros ->; apply Permutation_refl|] end.

(** ** The executors respect permutations of their inputs *)

Lemma cross_perm_l t1 t1' t2 : Permutation t1 t1' -> Permutation (cross t1 t2) (cross t1' t2).
Proof. intros H. unfold cross. now apply Permutation_flat_map. Qed.

Lemma hash_join_perm kl kr L L' R R' : Permutation L L' -> Permutation R R' ->
  Permutation (hash_join true h kl kr L R) (hash_join true h kl kr L' R').
Proof.
  intros HL HR. unfold hash_join.
  eapply Permutation_trans; [apply Permutation_flat_map; exact HR|].
  apply flat_map_perm_ext. intros rr _. destruct (is_null (kr rr)); [constructor|].
  now apply Permutation_flat_map.
Qed.

Lemma index_join_total probe key L :
  (forall lr, In lr L -> is_null (key lr) = false -> exists hits, probe (key lr) = Some hits) ->
  index_join probe key L =
  Some (flat_map (fun lr => if is_null (key lr) then []
                            else match probe (key lr) with
                                 | Some hits => map (fun r => lr ++ r) hits
                                 | None => []
                                 end) L).
Proof.
  induction L as [|lr L IH]; intros H; cbn [index_join flat_map]; [reflexivity|].
  rewrite IH by (intros; apply H; [now right|assumption]).
  destruct (is_null (key lr)) eqn:E; [reflexivity|].
  destruct (H lr (or_introl eq_refl) E) as (hits & ->). reflexivity.
Qed.

Lemma key_is_ref ty k v : v <> VNull -> k <> VNull -> key_is ty k v = eval_cmp OEq v k.
Proof.
  intros Hv Hk. unfold key_is. rewrite index_key_nonnull by assumption.
  unfold eval_cmp. destruct v, k; try congruence; cbn [is_null orb]; destruct (vcmp _ _) as [[]|]; reflexivity.
Qed.

Lemma point_scan_ok c ty k t :
  (forall r, In r t -> nth c r VNull <> VNull /\ val_ok ty (nth c r VNull)) ->
  val_ok ty k -> k <> VNull ->
  point_scan c ty k t = Some (filter (fun r => eval_cmp OEq (nth c r VNull) k) t).
Proof.
  intros Ht Hk Hn. unfold point_scan.
  assert (filter (fun r => key_is ty k (nth c r VNull)) t = filter (fun r => eval_cmp OEq (nth c r VNull) k) t) as E.
  { apply filter_ext_in. intros r Hr. apply key_is_ref; [apply (Ht r Hr)|assumption]. }
  rewrite E. rewrite existsb_false_in; [reflexivity|].
  intros r Hr. apply filter_In in Hr. destruct Hr as [Hr Hv].
  rewrite (cv_eq_ref ty _ k (proj2 (Ht r Hr)) Hk Hn), Hv. reflexivity.
Qed.

Lemma map_flat_single {A B} (f : A -> B) l : map f l = flat_map (fun x => [f x]) l.
Proof. induction l; cbn; [reflexivity|now rewrite IHl]. Qed.

(** ** Candidates over two good plans *)

Lemma cols_ok_app Mx My cx cy : cols_ok Mx cx -> cols_ok My cy -> cols_ok (fun i => Mx i || My i) (cx ++ cy).
Proof.
  intros (A1 & A2) (B1 & B2). split.
  - intros c Hc. apply in_app_or in Hc. destruct Hc as [Hc|Hc]; [rewrite (A1 c Hc)|rewrite (B1 c Hc), orb_true_r]; reflexivity.
  - intros c Ht HM. apply in_or_app. destruct (Mx (table_of ws c)) eqn:E; [left; now apply A2|right; now apply B2].
Qed.

Lemma cols_ok_ext M M' cols : (forall i, M i = M' i) -> cols_ok M cols -> cols_ok M' cols.
Proof.
  intros H (A1 & A2). split.
  - intros c Hc. rewrite <- H. now apply A1.
  - intros c Ht HM. rewrite <- H in HM. now apply A2.
Qed.

Lemma table_cols_ok i : cols_ok (fun j => Nat.eqb j i) (table_cols ws i).
Proof.
  unfold table_cols. split.
  - intros c Hc. apply in_map_iff in Hc. destruct Hc as (k & <- & Hk). apply in_seq in Hk.
    rewrite table_of_offs by lia. apply Nat.eqb_refl.
  - intros c Ht HM. apply Nat.eqb_eq in HM. apply in_map_iff. exists (local_of ws c).
    split; [rewrite <- HM; symmetry; apply col_split|].
    apply in_seq. pose proof (local_of_lt ws c (touched_lt c Ht)). rewrite HM in H. lia.
Qed.

Definition pre_good (Mx My : nat -> bool) (extra : row -> bool) (p : jplan) : Prop :=
  cols_ok (fun i => Mx i || My i) (jcols ws p) /\ whole_scan p = None /\
  exists out, run_join_gen true h schs ts p = Some out /\
    Permutation out (map (project (jcols ws p)) (filter extra (merged (spec Mx) (spec My)))).

Section Two.
Variables Mx My : nat -> bool.
Variables x y : jplan.
Hypothesis Hd : forall i, Mx i && My i = false.
Hypothesis Hx : good Mx x.
Hypothesis Hy : good My y.

Lemma row_merge a b cy : In a (gcomb Mx ws ts) -> In b (gcomb My ws ts) ->
  (forall c, In c cy -> My (table_of ws c) = true) ->
  project (jcols ws x ++ cy) (gmerge a b) = project (jcols ws x) a ++ project cy b.
Proof.
  intros Ha Hb Hc. rewrite project_app.
  rewrite (project_merge_l Mx My Hd a b Ha Hb) by apply Hx.
  now rewrite (project_merge_r Mx My Hd a b Ha Hb).
Qed.

Lemma nest_pre : pre_good Mx My (fun _ => true) (JNest x y).
Proof.
  destruct Hx as (Cx & _ & X & Rx & Px), Hy as (Cy & _ & Y & Ry & Py).
  split; [now apply cols_ok_app|split; [reflexivity|]].
  exists (cross X Y). split; [cbn [run_join_gen]; now rewrite Rx, Ry|].
  eapply Permutation_trans; [apply cross_perm_l; exact Px|].
  eapply Permutation_trans; [apply cross_perm_r; exact Py|].
  perm_eq. cbn [jcols]. rewrite merged_unfold, comp_form.
  unfold cross. rewrite flat_map_map'. apply flat_map_ext_in'. intros a Ha.
  rewrite map_map, map_flat_single. apply flat_map_ext_in'. intros b Hb.
  rewrite (row_merge a b (jcols ws y) (spec_in _ _ Ha) (spec_in _ _ Hb)) by apply Cy. reflexivity.
Qed.

Section Keyed.
Variables cx cy : nat.
Hypothesis Icx : In cx (jcols ws x).
Hypothesis Icy : My (table_of ws cy) = true.
Hypothesis Kcx : In cx (key_cols w).
Hypothesis Kcy : In cy (key_cols w).
Hypothesis Hty : gcol_type schs cx = gcol_type schs cy.

Let Mcx : Mx (table_of ws cx) = true.
Proof. now apply Hx. Qed.

(** the key test on a merged pair, in terms of the two parts *)
Lemma keq_merge a b : In a (gcomb Mx ws ts) -> In b (gcomb My ws ts) ->
  eval_jpred (gmerge a b) (JColEq cx cy) = eval_cmp OEq (nth cx a VNull) (nth cy b VNull).
Proof.
  intros Ha Hb.
  destruct (key_fact Mx a cx Ha Kcx Mcx) as (Na & _), (key_fact My b cy Hb Kcy Icy) as (Nb & _).
  pose proof (merge_l Mx My Hd a b Ha Hb cx Mcx) as E1. pose proof (merge_r Mx My Hd a b Ha Hb cy Icy) as E2.
  rewrite eval_coleq; rewrite ?E1, ?E2; auto.
Qed.

Lemma hash_pre : In cy (jcols ws y) ->
  pre_good Mx My (fun g => eval_jpred g (JColEq cx cy)) (JHash x y cx cy).
Proof.
  intros Icy'. destruct Hx as (Cx & _ & X & Rx & Px), Hy as (Cy & _ & Y & Ry & Py).
  split; [now apply cols_ok_app|split; [reflexivity|]].
  eexists. split; [cbn [run_join_gen]; now rewrite Rx, Ry|].
  eapply Permutation_trans; [apply hash_join_perm; [exact Px|exact Py]|].
  cbn [jcols]. rewrite merged_unfold, comp_form.
  eapply Permutation_trans; [|apply flat_map_swap].
  perm_eq. unfold hash_join. rewrite flat_map_map'. apply flat_map_ext_in'. intros b Hb.
  apply spec_in in Hb. rewrite lookup_project by assumption.
  destruct (key_fact My b cy Hb Kcy Icy) as (Nb & Vb).
  destruct (is_null (nth cy b VNull)) eqn:E; [destruct (nth cy b VNull); try discriminate; congruence|].
  rewrite flat_map_map'. apply flat_map_ext_in'. intros a Ha. apply spec_in in Ha.
  rewrite lookup_project by assumption.
  destruct (key_fact Mx a cx Ha Kcx Mcx) as (Na & Va).
  rewrite <- Hty in Vb. rewrite (hash_test_ref h _ _ _ Va Vb Na Nb).
  rewrite (keq_merge a b Ha Hb), (row_merge a b (jcols ws y) Ha Hb) by apply Cy. reflexivity.
Qed.

Lemma index_pre i : whole_scan y = Some i ->
  pre_good Mx My (fun g => eval_jpred g (JColEq cx cy)) (JIndex x i cx cy).
Proof.
  intros Hw. destruct Hx as (Cx & _ & X & Rx & Px), Hy as (Cy & Wy & _).
  destruct (Wy i Hw) as (Hi & HMy & Hnof & Hnoeq).
  assert (table_of ws cy = i) as Ei by (apply Nat.eqb_eq; now rewrite <- HMy).
  assert (cols_ok My (table_cols ws i)) as Ct
    by (apply (cols_ok_ext (fun j => Nat.eqb j i)); [intros; now rewrite HMy|apply table_cols_ok]).
  split; [cbn [jcols]; now apply cols_ok_app|split; [reflexivity|]].
  set (c := local_of ws cy). set (ty := col_type (nth i schs []) c). set (ti := nth i ts []).
  assert (ty = gcol_type schs cy) as Ety by (unfold ty, c, gcol_type; now rewrite Ei).
  assert (forall r, In r ti -> nth c r VNull <> VNull /\ val_ok ty (nth c r VNull)) as Hti.
  { intros r Hr. split.
    - apply (Hnonnull cy Kcy). now rewrite Ei.
    - destruct Hwf as (_ & _ & Htok). exact (Htok i Hi r Hr c). }
  assert (forall a, In a (gcomb Mx ws ts) ->
            point_scan c ty (nth cx a VNull) ti =
            Some (filter (fun r => eval_cmp OEq (nth c r VNull) (nth cx a VNull)) ti)) as Hprobe.
  { intros a Ha. destruct (key_fact Mx a cx Ha Kcx Mcx) as (Na & Va).
    apply point_scan_ok; [exact Hti| |exact Na]. now rewrite Ety, <- Hty. }
  cbn [run_join_gen]. rewrite Rx. fold c ty ti.
  eexists. split.
  { apply index_join_total. intros lr Hlr _.
    apply (Permutation_in _ Px) in Hlr. apply in_map_iff in Hlr. destruct Hlr as (a & <- & Ha).
    rewrite lookup_project by assumption. eexists. apply Hprobe. now apply spec_in. }
  eapply Permutation_trans; [apply Permutation_flat_map; exact Px|].
  perm_eq. cbn [jcols]. rewrite merged_unfold, comp_form, flat_map_map'.
  apply flat_map_ext_in'. intros a Ha. apply spec_in in Ha.
  rewrite lookup_project by assumption.
  destruct (key_fact Mx a cx Ha Kcx Mcx) as (Na & _).
  destruct (is_null (nth cx a VNull)) eqn:E; [destruct (nth cx a VNull); try discriminate; congruence|].
  rewrite (Hprobe a Ha), map_filter_flat.
  (* the rows of the inner table are all specified: it has no filter *)
  assert (spec My = map (embed ws i) ti) as ES.
  { rewrite (spec_ext My (fun j => Nat.eqb j i) HMy), (spec_single i Hi). f_equal.
    apply filter_all. intros r _. rewrite (eval_pred_cmps r _ (table_pred_no_or ws i w)), Hnof, Hnoeq. reflexivity. }
  rewrite ES, flat_map_map'. apply flat_map_ext_in'. intros r Hr.
  assert (In (embed ws i r) (gcomb My ws ts)) as Hb.
  { rewrite (gcomb_ext ws My (fun j => Nat.eqb j i) ts HMy), gcomb_single by now rewrite widths_length.
    now apply in_map. }
  rewrite (keq_merge a _ Ha Hb), (row_merge a _ (table_cols ws i) Ha Hb) by apply Ct.
  assert (cy = offs ws i + c) as Ecy by (unfold c; rewrite <- Ei; apply col_split).
  replace (nth cy (embed ws i r) VNull) with (nth c r VNull)
    by (rewrite <- (nth_embed ws i r c), <- Ecy; reflexivity).
  rewrite (eval_cmp_eq_sym (nth cx a VNull)).
  unfold table_cols. rewrite project_embed. unfold project.
  replace (nth i ws 0) with (length r) by exact (Hrows i r Hr). rewrite map_nth_seq. reflexivity.
Qed.
End Keyed.

(** attaching the Selection with the linking equalities *)
Lemma final_selection_inv rel e : final_selection rel = Some e ->
  rel <> [] /\ e = fold_left JAnd (removelast rel) (last rel JTrue).
Proof.
  destruct rel as [|q rel]; [discriminate|]. intros H. split; [discriminate|].
  unfold final_selection in H. injection H. intros <-. reflexivity.
Qed.

Lemma final_selection_sem (f : jpred -> bool) rel e : (forall a b, f (JAnd a b) = f a && f b) ->
  final_selection rel = Some e -> f e = forallb f rel.
Proof.
  intros Hf H. destruct (final_selection_inv rel e H) as (HL & ->).
  rewrite (fold_and_sem f Hf).
  assert (forallb f rel = forallb f (removelast rel ++ [last rel JTrue])) as E
    by (now rewrite <- (app_removelast_last JTrue HL)).
  rewrite E, forallb_app. cbn [forallb]. rewrite andb_true_r. apply andb_comm.
Qed.

Definition rel_ok (rel : list jpred) : Prop :=
  forall q, In q rel -> exists c1 c2, q = JColEq c1 c2 /\ In (c1, c2) (jeqs w) /\
    Mx (table_of ws c1) || My (table_of ws c1) = true /\ Mx (table_of ws c2) || My (table_of ws c2) = true.

Lemma select_pre extra p rel e : pre_good Mx My extra p -> rel_ok rel -> final_selection rel = Some e ->
  pre_good Mx My (fun g => extra g && forallb (eval_jpred g) rel) (JSelect p e).
Proof.
  intros (Cp & _ & out & Rp & Pp) Hrel Hfs.
  split; [exact Cp|split; [reflexivity|]].
  eexists. split; [cbn [run_join_gen]; now rewrite Rp|].
  eapply Permutation_trans; [apply perm_filter; exact Pp|].
  perm_eq. cbn [jcols]. rewrite filter_map', filter_filter'. f_equal.
  apply filter_ext_in. intros g Hg. f_equal.
  rewrite (final_selection_sem (eng_jeval (jcols ws p) (project (jcols ws p) g)) rel e (fun _ _ => eq_refl) Hfs).
  apply forallb_ext_in. intros q Hq. destruct (Hrel q Hq) as (c1 & c2 & -> & Hin & M1 & M2).
  destruct (merged_in Mx My g Hg) as (a & b & Ha & Hb & ->).
  destruct (jeqs_key_cols w c1 c2 Hin) as (K1 & K2).
  cbn [eng_jeval]. rewrite !lookup_project
    by (apply Cp; [apply touched_key, key_cols_sub; assumption|assumption]).
  destruct (key_merge Mx My Hd a b Ha Hb c1 K1 M1) as (N1 & V1).
  destruct (key_merge Mx My Hd a b Ha Hb c2 K2 M2) as (N2 & V2).
  rewrite (Hconds c1 c2 Hin) in V1.
  rewrite (cv_eq_ref _ _ _ V1 V2 N2). symmetry. now apply eval_coleq.
Qed.

Lemma pre_finish extra p (lcnd : row -> bool) : pre_good Mx My extra p ->
  (forall g, In g (merged (spec Mx) (spec My)) -> extra g = lcnd g) ->
  (forall g, eval_jpred g (restr (fun i => Mx i || My i) w) =
             eval_jpred g (restr Mx w) && eval_jpred g (restr My w) && lcnd g) ->
  good (fun i => Mx i || My i) p.
Proof.
  intros (Cp & Wp & out & Rp & Pp) Hex HLK. split; [exact Cp|split].
  - intros i Hi. rewrite Wp in Hi. discriminate.
  - exists out. split; [exact Rp|]. eapply Permutation_trans; [exact Pp|]. apply Permutation_map.
    rewrite (filter_ext_in _ _ _ Hex), (merged_spec Mx My Hd), filter_filter'.
    unfold spec. eapply Permutation_trans; [|apply perm_filter, Permutation_sym, (gcomb_merge ws Mx My ts Hrows Hd)].
    perm_eq. apply filter_ext. intros g. now rewrite HLK.
Qed.
End Two.

(** ** findBestJoinInner: every candidate over two good plans is good *)

Lemma opt_list_app {A} (a b : list (option A)) : opt_list (a ++ b) = opt_list a ++ opt_list b.
Proof. induction a as [|[x|] a IH]; cbn; [reflexivity| |]; now rewrite IH. Qed.

Lemma has_col_mask M cols c : cols_ok M cols -> touched w sl c = true -> has_col cols c = M (table_of ws c).
Proof.
  intros (C1 & C2) Ht. destruct (M (table_of ws c)) eqn:E.
  - apply has_col_In. now apply C2.
  - destruct (has_col cols c) eqn:F; [|reflexivity]. apply has_col_In in F. apply C1 in F. congruence.
Qed.

Section Links.
Variables Ml Mr : nat -> bool.
Variables lc rc : list nat.
Hypothesis Hd : forall i, Ml i && Mr i = false.
Hypothesis Hl : cols_ok Ml lc.
Hypothesis Hr : cols_ok Mr rc.

Lemma link_sem_gen e g : (forall c, In c (jpred_cols e) -> touched w sl c = true) ->
  eval_jpred g (restr (fun i => Ml i || Mr i) e) =
  eval_jpred g (restr Ml e) && eval_jpred g (restr Mr e) &&
  forallb (eval_jpred g) (map snd (opt_list (map (link lc rc) (jeqs e)))).
Proof.
  induction e as [|c1 c2|c o lit|a IHa b IHb]; intros Ht.
  - reflexivity.
  - cbn [restr jeqs map]. unfold link.
    rewrite (has_col_mask Ml lc c1 Hl), (has_col_mask Mr rc c2 Hr), (has_col_mask Mr rc c1 Hr), (has_col_mask Ml lc c2 Hl)
      by (apply Ht; cbn; auto).
    pose proof (Hd (table_of ws c1)) as D1. pose proof (Hd (table_of ws c2)) as D2.
    remember (JColEq c1 c2) as q eqn:Eq. clear Eq.
    destruct (Ml (table_of ws c1)), (Ml (table_of ws c2)), (Mr (table_of ws c1)), (Mr (table_of ws c2));
      cbn in D1, D2; try discriminate; cbn; destruct (eval_jpred g q); reflexivity.
  - cbn [restr jeqs map opt_list forallb]. pose proof (Hd (table_of ws c)) as D.
    remember (JCmp c o lit) as q eqn:Eq. clear Eq.
    destruct (Ml (table_of ws c)), (Mr (table_of ws c)); cbn in D; try discriminate; cbn;
      destruct (eval_jpred g q); reflexivity.
  - cbn [restr jeqs eval_jpred]. rewrite map_app, opt_list_app, map_app, forallb_app.
    rewrite IHa, IHb by (intros c Hc; apply Ht; cbn; apply in_or_app; auto).
    destruct (eval_jpred g (restr Ml a)), (eval_jpred g (restr Mr a)), (eval_jpred g (restr Ml b)),
      (eval_jpred g (restr Mr b)); cbn [andb]; try reflexivity;
      rewrite ?andb_false_r; try reflexivity. apply andb_comm.
Qed.

Lemma link_sem g :
  eval_jpred g (restr (fun i => Ml i || Mr i) w) =
  eval_jpred g (restr Ml w) && eval_jpred g (restr Mr w) &&
  forallb (eval_jpred g) (map snd (links lc rc w)).
Proof. apply link_sem_gen. apply touched_key. Qed.

Lemma link_inv c1 c2 cl cr q : link lc rc (c1, c2) = Some ((cl, cr), q) ->
  In cl lc /\ In cr rc /\ q = JColEq c1 c2 /\ ((c1, c2) = (cl, cr) \/ (c1, c2) = (cr, cl)).
Proof.
  unfold link. destruct (has_col lc c1 && has_col rc c2) eqn:E1.
  - intros H. injection H as <- <- <-. apply andb_true_iff in E1. destruct E1 as [A B].
    apply has_col_In in A, B. auto.
  - destruct (has_col rc c1 && has_col lc c2) eqn:E2; [|discriminate].
    intros H. injection H as <- <- <-. apply andb_true_iff in E2. destruct E2 as [A B].
    apply has_col_In in A, B. auto.
Qed.

Lemma links_in cl cr q : In ((cl, cr), q) (links lc rc w) ->
  exists c1 c2, In (c1, c2) (jeqs w) /\ link lc rc (c1, c2) = Some ((cl, cr), q).
Proof.
  unfold links. intros H. apply opt_list_in, in_map_iff in H. destruct H as ([c1 c2] & H & Hin). now exists c1, c2.
Qed.

Lemma links_rel_ok : rel_ok Ml Mr (map snd (links lc rc w)).
Proof.
  intros q Hq. apply in_map_iff in Hq. destruct Hq as ([[cl cr] q'] & <- & Hin). cbn [snd].
  destruct (links_in cl cr q' Hin) as (c1 & c2 & Hj & Hlk).
  destruct (link_inv c1 c2 cl cr q' Hlk) as (Il & Ir & -> & Ho).
  exists c1, c2. split; [reflexivity|split; [assumption|]].
  apply (proj1 Hl) in Il. apply (proj1 Hr) in Ir.
  destruct Ho as [E|E]; injection E as -> ->; rewrite Il, Ir, ?orb_true_r; auto.
Qed.
End Links.

Lemma single_family Mx My x y cx cy rel e (lcnd : row -> bool) :
  (forall i, Mx i && My i = false) -> good Mx x -> good My y ->
  In cx (jcols ws x) -> In cy (jcols ws y) -> In cx (key_cols w) -> In cy (key_cols w) ->
  gcol_type schs cx = gcol_type schs cy ->
  (forall g, eval_jpred g (restr (fun i => Mx i || My i) w) =
             eval_jpred g (restr Mx w) && eval_jpred g (restr My w) && lcnd g) ->
  (forall g, lcnd g = eval_jpred g (JColEq cx cy)) ->
  rel_ok Mx My rel -> final_selection rel = Some e -> (forall g, forallb (eval_jpred g) rel = lcnd g) ->
  forall c, (c = JHash x y cx cy \/ exists i, whole_scan y = Some i /\ c = JIndex x i cx cy) ->
  good (fun i => Mx i || My i) c /\ good (fun i => Mx i || My i) (JSelect c e).
Proof.
  intros Hd Hx Hy Icx Icy Kx Ky Hty HLK Hl Hrel Hfs Hrl c Hc.
  assert (My (table_of ws cy) = true) as Mcy by (apply Hy; exact Icy).
  assert (pre_good Mx My (fun g => eval_jpred g (JColEq cx cy)) c) as Hpre.
  { destruct Hc as [->|(i & Hw & ->)]; [now apply hash_pre|exact (index_pre Mx My x y Hd Hx Hy cx cy Icx Mcy Kx Ky Hty i Hw)]. }
  split.
  - apply (pre_finish Mx My Hd _ c lcnd Hpre); [intros g _; now rewrite Hl|exact HLK].
  - apply (pre_finish Mx My Hd _ _ lcnd (select_pre Mx My Hd _ c rel e Hpre Hrel Hfs)); [|exact HLK].
    intros g _. cbv beta. rewrite Hrl, Hl. apply andb_diag.
Qed.

Lemma inner_good Ml Mr l r : (forall i, Ml i && Mr i = false) -> good Ml l -> good Mr r ->
  forall p, In p (inner schs w l r) -> good (fun i => Ml i || Mr i) p.
Proof.
  intros Hd Hl Hr p Hp. unfold inner in Hp.
  pose proof (link_sem Ml Mr (jcols ws l) (jcols ws r) Hd (proj1 Hl) (proj1 Hr)) as HLK.
  pose proof (links_rel_ok Ml Mr (jcols ws l) (jcols ws r) (proj1 Hl) (proj1 Hr)) as Hrel.
  pose proof (links_in (jcols ws l) (jcols ws r)) as Hin.
  pose proof (link_inv (jcols ws l) (jcols ws r)) as Hinv.
  remember (links (jcols ws l) (jcols ws r) w) as lk eqn:Elk. clear Elk.
  destruct (final_selection (map snd lk)) as [e|] eqn:Hfs.
  2: { (* no linking equality: plain nested loop join *)
    assert (lk = []) as -> by (destruct lk; [reflexivity|discriminate]).
    cbn in Hp. destruct Hp as [<-|[]].
    apply (pre_finish Ml Mr Hd _ _ (fun _ => true) (nest_pre Ml Mr l r Hd Hl Hr)); [reflexivity|].
    intros g. rewrite HLK. reflexivity. }
  destruct lk as [|[[cl cr] q] [|z lk']].
  - discriminate.
  - (* exactly one linking equality *)
    destruct (Hin cl cr q (or_introl eq_refl)) as (c1 & c2 & Hj & Hlk).
    destruct (Hinv c1 c2 cl cr q Hlk) as (Il & Ir & -> & Ho).
    destruct (jeqs_key_cols w c1 c2 Hj) as (K1 & K2). pose proof (Hconds c1 c2 Hj) as Hty.
    assert (In cl (key_cols w) /\ In cr (key_cols w) /\ gcol_type schs cl = gcol_type schs cr /\
            forall g, eval_jpred g (JColEq c1 c2) = eval_jpred g (JColEq cl cr)) as (Kl & Kr & Hty' & Hq).
    { destruct Ho as [E|E]; injection E as -> ->; repeat split; auto. intros g. apply eval_coleq_sym. }
    set (lcnd := fun g : row => eval_jpred g (JColEq c1 c2) && true).
    assert (forall g, lcnd g = eval_jpred g (JColEq cl cr)) as Hl1 by (intros g; unfold lcnd; now rewrite andb_true_r, Hq).
    assert (forall c, c = JHash l r cl cr \/ (exists i, whole_scan r = Some i /\ c = JIndex l i cl cr) \/ c = JHash r l cr cl ->
              good (fun i => Ml i || Mr i) c /\ good (fun i => Ml i || Mr i) (JSelect c e)) as Hfam.
    { intros c [Hc|[Hc|Hc]].
      - apply (single_family Ml Mr l r cl cr _ e lcnd Hd Hl Hr Il Ir Kl Kr Hty' HLK Hl1 Hrel Hfs); [reflexivity|now left].
      - apply (single_family Ml Mr l r cl cr _ e lcnd Hd Hl Hr Il Ir Kl Kr Hty' HLK Hl1 Hrel Hfs); [reflexivity|now right].
      - assert (forall i, Mr i && Ml i = false) as Hd' by (intros i; rewrite andb_comm; apply Hd).
        assert (good (fun i => Mr i || Ml i) c /\ good (fun i => Mr i || Ml i) (JSelect c e)) as (G1 & G2).
        { apply (single_family Mr Ml r l cr cl (map snd [((cl, cr), JColEq c1 c2)]) e lcnd Hd' Hr Hl Ir Il Kr Kl (eq_sym Hty')).
          - intros g. rewrite (restr_ext _ (fun i => Ml i || Mr i) w) by (intros; apply orb_comm).
            rewrite HLK. fold (lcnd g). now rewrite (andb_comm (eval_jpred g (restr Mr w))).
          - intros g. rewrite Hl1. apply eval_coleq_sym.
          - intros q' Hq'. destruct (Hrel q' Hq') as (a1 & a2 & A & B & C & D).
            exists a1, a2. rewrite (orb_comm (Mr _)), (orb_comm (Mr (table_of ws a2))). auto.
          - exact Hfs.
          - reflexivity.
          - now left. }
        split; eapply good_ext; try eassumption; intros; apply orb_comm. }
    cbn [map snd] in Hp. apply in_app_or in Hp.
    assert (forall c, In c ([JHash l r cl cr; JHash r l cr cl] ++
                            match whole_scan r with
                            | Some i => if col_indexed (nth i schs []) (local_of ws cr) then [JIndex l i cl cr] else []
                            | None => []
                            end) ->
              is_nest c = false /\ good (fun i => Ml i || Mr i) c /\ good (fun i => Ml i || Mr i) (JSelect c e)) as Hbase.
    { intros c Hc. cbn in Hc. destruct Hc as [<-|[<-|Hc]].
      - split; [reflexivity|apply Hfam; auto].
      - split; [reflexivity|apply Hfam; auto].
      - destruct (whole_scan r) as [i|] eqn:Ew; [|destruct Hc].
        destruct (col_indexed _ _); [|destruct Hc]. destruct Hc as [<-|[]].
        split; [reflexivity|apply Hfam]. right. left. now exists i. }
    destruct Hp as [Hp|Hp].
    + apply in_map_iff in Hp. destruct Hp as (c & <- & Hc). destruct (Hbase c Hc) as (-> & G & _). exact G.
    + apply in_flat_map in Hp. destruct Hp as (c & Hc & Hp). destruct (Hbase c Hc) as (E & _ & G).
      rewrite E in Hp. destruct Hp as [<-|[]]. exact G.
  - (* several linking equalities: nested loop join + Selection *)
    cbn in Hp. destruct Hp as [<-|[]].
    apply (pre_finish Ml Mr Hd _ _ (fun g => forallb (eval_jpred g) (map snd ((cl, cr, q) :: z :: lk')))
             (select_pre Ml Mr Hd _ _ _ e (nest_pre Ml Mr l r Hd Hl Hr) Hrel Hfs));
      [intros g _; reflexivity|exact HLK].
Qed.

Lemma pair_up_good Ma Mb A B : (forall i, Ma i && Mb i = false) ->
  (forall a, In a A -> good Ma a) -> (forall b, In b B -> good Mb b) ->
  forall p, In p (pair_up schs w A B) -> good (fun i => Ma i || Mb i) p.
Proof.
  intros Hd HA HB p Hp. unfold pair_up in Hp. apply in_flat_map in Hp. destruct Hp as (a & Ha & Hp).
  apply in_flat_map in Hp. destruct Hp as (b & Hb & Hp). apply in_app_or in Hp. destruct Hp as [Hp|Hp].
  - exact (inner_good Ma Mb a b Hd (HA a Ha) (HB b Hb) p Hp).
  - apply (good_ext (fun i => Mb i || Ma i)); [intros; apply orb_comm|].
    apply (inner_good Mb Ma b a); auto. intros i. rewrite andb_comm. apply Hd.
Qed.

(** ** The final projection and the full set of tables *)

Lemma list_nat_eqb_eq a : forall b, list_nat_eqb a b = true -> a = b.
Proof.
  induction a as [|x a IH]; intros [|y b] H; cbn in H; try discriminate; [reflexivity|].
  apply andb_true_iff in H. destruct H as [E H]. apply Nat.eqb_eq in E. subst. f_equal. now apply IH.
Qed.

Lemma spec_full M : (forall i, i < length schs -> M i = true) ->
  spec M = filter (fun g => eval_jpred g w) (fold_left cross ts [[]]).
Proof.
  intros HM. unfold spec. rewrite restr_full.
  - rewrite gcomb_full, fold_cross, cross_unit_l; [reflexivity| |].
    + intros i Hi. apply HM. now rewrite <- widths_length.
    + rewrite widths_length. apply Hwf.
  - intros c Hc. apply HM. rewrite <- widths_length. apply table_of_lt. now apply (proj1 Hscope).
Qed.

Lemma finish_good M p : (forall i, i < length schs -> M i = true) -> good M p ->
  exists out, run_join_gen true h schs ts (finish ws sl p) = Some out /\ Permutation out (join_sel sl w ts).
Proof.
  intros HM ((C1 & C2) & _ & out & Hr & Hp). unfold join_sel. rewrite <- (spec_full M HM).
  unfold finish. destruct (list_nat_eqb (jcols ws p) sl) eqn:E.
  - apply list_nat_eqb_eq in E. rewrite <- E. now exists out.
  - cbn [run_join_gen]. rewrite Hr. eexists. split; [reflexivity|].
    eapply Permutation_trans; [apply Permutation_map; exact Hp|].
    rewrite map_map. perm_eq. apply map_ext. intros g. apply jproject_project.
    intros c Hc. apply C2; [now apply touched_sel|]. apply HM. rewrite <- widths_length.
    apply table_of_lt. now apply (proj2 Hscope).
Qed.

Lemma leaves_good i L : i < length schs -> leaves schs w sl i = Some L ->
  forall p, In p L -> good (fun j => Nat.eqb j i) p.
Proof.
  unfold leaves. intros Hi H p Hp. destruct (scan_candidates schs w sl i) as [l|] eqn:E; [|discriminate].
  injection H as <-. apply in_map_iff in Hp. destruct Hp as (pl & <- & Hpl). exact (leaf_good i l pl Hi E Hpl).
Qed.

Theorem every_candidate_equiv_env : forall l p, join_candidates schs w sl = Some l -> In p l ->
  exists out, run_join_gen true h schs ts p = Some out /\ Permutation out (join_sel sl w ts).
Proof.
  intros l p Hc Hp. unfold join_candidates in Hc.
  destruct schs as [|s0 [|s1 [|s2 [|s3 rest]]]] eqn:Es; try discriminate; rewrite <- Es in *.
  - (* two tables *)
    assert (length schs = 2) as Hn by now rewrite Es.
    destruct (leaves schs w sl 0) as [S0|] eqn:E0; [|discriminate].
    destruct (leaves schs w sl 1) as [S1|] eqn:E1; [|discriminate].
    injection Hc as <-. apply in_map_iff in Hp. destruct Hp as (q & <- & Hq).
    apply (finish_good (fun i => (i =? 0) || (i =? 1))).
    + intros i Hi. destruct i as [|[|i]]; [reflexivity|reflexivity|lia].
    + apply (pair_up_good (fun i => i =? 0) (fun i => i =? 1) S0 S1); auto.
      * intros [|[|i]]; reflexivity.
      * apply leaves_good; [lia|assumption].
      * apply leaves_good; [lia|assumption].
  - (* three tables *)
    assert (length schs = 3) as Hn by now rewrite Es.
    destruct (leaves schs w sl 0) as [S0|] eqn:E0; [|discriminate].
    destruct (leaves schs w sl 1) as [S1|] eqn:E1; [|discriminate].
    destruct (leaves schs w sl 2) as [S2|] eqn:E2; [|discriminate].
    injection Hc as <-. apply in_map_iff in Hp. destruct Hp as (q & <- & Hq).
    pose proof (leaves_good 0 S0 ltac:(lia) E0) as G0.
    pose proof (leaves_good 1 S1 ltac:(lia) E1) as G1.
    pose proof (leaves_good 2 S2 ltac:(lia) E2) as G2.
    apply in_app_or in Hq. destruct Hq as [Hq|Hq]; [|apply in_app_or in Hq; destruct Hq as [Hq|Hq]].
    + apply (finish_good (fun i => ((i =? 0) || (i =? 1)) || (i =? 2))).
      * intros i Hi. destruct i as [|[|[|i]]]; try reflexivity; lia.
      * apply (pair_up_good (fun i => (i =? 0) || (i =? 1)) (fun i => i =? 2) (pair_up schs w S0 S1) S2); auto.
        -- intros [|[|[|i]]]; reflexivity.
        -- apply (pair_up_good (fun i => i =? 0) (fun i => i =? 1) S0 S1); auto. intros [|[|i]]; reflexivity.
    + apply (finish_good (fun i => ((i =? 0) || (i =? 2)) || (i =? 1))).
      * intros i Hi. destruct i as [|[|[|i]]]; try reflexivity; lia.
      * apply (pair_up_good (fun i => (i =? 0) || (i =? 2)) (fun i => i =? 1) (pair_up schs w S0 S2) S1); auto.
        -- intros [|[|[|i]]]; reflexivity.
        -- apply (pair_up_good (fun i => i =? 0) (fun i => i =? 2) S0 S2); auto. intros [|[|[|i]]]; reflexivity.
    + apply (finish_good (fun i => ((i =? 1) || (i =? 2)) || (i =? 0))).
      * intros i Hi. destruct i as [|[|[|i]]]; try reflexivity; lia.
      * apply (pair_up_good (fun i => (i =? 1) || (i =? 2)) (fun i => i =? 0) (pair_up schs w S1 S2) S0); auto.
        -- intros [|[|[|i]]]; reflexivity.
        -- apply (pair_up_good (fun i => i =? 1) (fun i => i =? 2) S1 S2); auto. intros [|[|[|i]]]; reflexivity.
Qed.
End Env.

(** * 11. The main theorem and its corollaries *)

Lemma every_candidate_equiv_lemma : forall h schs ts w sl l p,
  tables_wf schs ts -> query_scoped schs w sl -> conds_ok schs w -> filters_ok schs ts w ->
  indexed_cols_nonnull schs ts -> no_null_keys schs ts w ->
  join_candidates schs w sl = Some l -> In p l ->
  exists out, run_join h schs ts p = Some out /\ Permutation out (join_sel sl w ts).
Proof. intros. eapply every_candidate_equiv_env; eassumption. Qed.

Lemma every_candidate_equiv_2_lemma : forall h s0 s1 t0 t1 w sl l p,
  tables_wf [s0; s1] [t0; t1] -> query_scoped [s0; s1] w sl -> conds_ok [s0; s1] w ->
  filters_ok [s0; s1] [t0; t1] w -> indexed_cols_nonnull [s0; s1] [t0; t1] ->
  no_null_keys [s0; s1] [t0; t1] w ->
  join_candidates [s0; s1] w sl = Some l -> In p l ->
  exists out, run_join h [s0; s1] [t0; t1] p = Some out /\ Permutation out (join_sel sl w [t0; t1]).
Proof. intros. eapply every_candidate_equiv_env; eassumption. Qed.

Lemma every_candidate_equiv_3_lemma : forall h s0 s1 s2 t0 t1 t2 w sl l p,
  tables_wf [s0; s1; s2] [t0; t1; t2] -> query_scoped [s0; s1; s2] w sl -> conds_ok [s0; s1; s2] w ->
  filters_ok [s0; s1; s2] [t0; t1; t2] w -> indexed_cols_nonnull [s0; s1; s2] [t0; t1; t2] ->
  no_null_keys [s0; s1; s2] [t0; t1; t2] w ->
  join_candidates [s0; s1; s2] w sl = Some l -> In p l ->
  exists out, run_join h [s0; s1; s2] [t0; t1; t2] p = Some out /\
              Permutation out (join_sel sl w [t0; t1; t2]).
Proof. intros. eapply every_candidate_equiv_env; eassumption. Qed.

(** the programme always has candidates for two and three tables *)
Lemma join_candidates_some : forall schs w sl, (length schs = 2 \/ length schs = 3) ->
  exists l, join_candidates schs w sl = Some l /\ l <> [].
Proof.
  intros schs w sl Hn.
  assert (forall i, exists L q, leaves schs w sl i = Some L /\ In q L) as HL.
  { intros i. unfold leaves, scan_candidates.
    destruct (candidates_some (nth i schs []) (table_pred (widths schs) i w) (touched_local (widths schs) w sl i)
                (table_pred_no_or _ _ _)) as (l & -> & Hin).
    eexists. eexists. split; [reflexivity|]. apply (in_map (fun pl => leaf_select (widths schs) i w (JScan i pl))). exact Hin. }
  assert (forall a b, inner schs w a b <> []) as Hinner.
  { intros a b. unfold inner. destruct (final_selection _); destruct (links _ _ _) as [|[[? ?] ?] [|? ?]]; discriminate. }
  assert (forall A B, A <> [] -> B <> [] -> pair_up schs w A B <> []) as Hpair.
  { intros [|a A] [|b B] HA HB; try congruence. unfold pair_up. cbn [flat_map].
    specialize (Hinner a b). destruct (inner schs w a b); [congruence|discriminate]. }
  assert (forall {X} (x : X) L, In x L -> L <> []) as Hne by (intros X x [|? ?] H; [destruct H|discriminate]).
  destruct (HL 0) as (S0 & p0 & E0 & I0), (HL 1) as (S1 & p1 & E1 & I1), (HL 2) as (S2 & p2 & E2 & I2).
  unfold join_candidates. destruct Hn as [Hn|Hn].
  - destruct schs as [|s0 [|s1 [|s2 rest]]]; try discriminate. rewrite E0, E1.
    eexists. split; [reflexivity|]. intros H. apply map_eq_nil in H. revert H. apply Hpair; eapply Hne; eassumption.
  - destruct schs as [|s0 [|s1 [|s2 [|s3 rest]]]]; try discriminate. rewrite E0, E1, E2.
    eexists. split; [reflexivity|]. intros H. apply map_eq_nil in H. apply app_eq_nil in H. destruct H as [H _].
    revert H. apply Hpair; [apply Hpair|]; eapply Hne; eassumption.
Qed.

(** any two candidates agree *)
Lemma candidates_agree_lemma : forall h schs ts w sl l p1 p2,
  tables_wf schs ts -> query_scoped schs w sl -> conds_ok schs w -> filters_ok schs ts w ->
  indexed_cols_nonnull schs ts -> no_null_keys schs ts w ->
  join_candidates schs w sl = Some l -> In p1 l -> In p2 l ->
  exists o1 o2, run_join h schs ts p1 = Some o1 /\ run_join h schs ts p2 = Some o2 /\ Permutation o1 o2.
Proof.
  intros h schs ts w sl l p1 p2 H1 H2 H3 H4 H5 H6 Hc Hp1 Hp2.
  destruct (every_candidate_equiv_env h schs ts w sl H1 H2 H3 H4 H5 H6 l p1 Hc Hp1) as (o1 & R1 & P1).
  destruct (every_candidate_equiv_env h schs ts w sl H1 H2 H3 H4 H5 H6 l p2 Hc Hp2) as (o2 & R2 & P2).
  exists o1, o2. repeat split; try assumption.
  eapply Permutation_trans; [exact P1|apply Permutation_sym; exact P2].
Qed.

(** whatever the cost model picks *)
Lemma run_join_select_equiv_lemma : forall h schs ts w sl k p l,
  tables_wf schs ts -> query_scoped schs w sl -> conds_ok schs w -> filters_ok schs ts w ->
  indexed_cols_nonnull schs ts -> no_null_keys schs ts w ->
  join_candidates schs w sl = Some l -> nth_error l k = Some p ->
  exists out, run_join_select h schs w sl k ts = Some out /\ Permutation out (join_sel sl w ts).
Proof.
  intros h schs ts w sl k p l H1 H2 H3 H4 H5 H6 Hc Hk. unfold run_join_select. rewrite Hc, Hk.
  apply (every_candidate_equiv_env h schs ts w sl H1 H2 H3 H4 H5 H6 l p Hc). eapply nth_error_In; eassumption.
Qed.

(** * 12. The side conditions, decided *)

Lemma coltype_eqb_eq a b : coltype_eqb a b = true -> a = b.
Proof. destruct a, b; try discriminate; reflexivity. Qed.

Lemma val_okb_ok ty v : val_okb ty v = true -> val_ok ty v.
Proof.
  destruct v as [|z|u|s]; cbn [val_okb val_ok]; intros H.
  - exact I.
  - apply andb_true_iff in H. destruct H as [H H3]. apply andb_true_iff in H. destruct H as [H1 H2].
    apply coltype_eqb_eq in H1. split; [assumption|]. unfold int_ok. apply Z.leb_le in H2, H3. lia.
  - apply andb_true_iff in H. destruct H as [H1 H2]. apply coltype_eqb_eq in H1. split; [assumption|].
    now apply negb_true_iff in H2.
  - now apply coltype_eqb_eq in H.
Qed.

Lemma row_okb_ok sch r : row_okb sch r = true -> length r = length sch /\ row_ok sch r.
Proof.
  unfold row_okb. intros H. apply andb_true_iff in H. destruct H as [H1 H2]. apply Nat.eqb_eq in H1.
  split; [assumption|]. intros c. destruct (Nat.lt_ge_cases c (length sch)) as [Hc|Hc].
  - apply val_okb_ok. rewrite forallb_forall in H2. apply H2. apply in_seq. lia.
  - rewrite nth_overflow by lia. exact I.
Qed.

Lemma tables_wfb_ok schs ts : tables_wfb schs ts = true -> tables_wf schs ts.
Proof.
  unfold tables_wfb. intros H. apply andb_true_iff in H. destruct H as [H1 H2]. apply Nat.eqb_eq in H1.
  rewrite forallb_forall in H2.
  assert (forall i r, i < length schs -> In r (nth i ts []) -> length r = length (nth i schs []) /\ row_ok (nth i schs []) r) as Hr.
  { intros i r Hi Hin. apply row_okb_ok. specialize (H2 i ltac:(apply in_seq; lia)).
    rewrite forallb_forall in H2. now apply H2. }
  split; [assumption|split].
  - intros i r Hin. destruct (Nat.lt_ge_cases i (length schs)) as [Hi|Hi].
    + rewrite widths_nth. now apply Hr.
    + rewrite nth_overflow in Hin by lia. destruct Hin.
  - intros i Hi r Hin. now apply Hr.
Qed.

Lemma lits_okb_ok sch p : lits_okb sch p = true -> lits_ok sch p.
Proof.
  unfold lits_okb, lits_ok. rewrite forallb_forall. intros H x Hx. specialize (H x Hx).
  apply andb_true_iff in H. destruct H as [H1 H2]. split; [|now apply val_okb_ok].
  destruct (c3lit x); [discriminate| | |]; discriminate.
Qed.

Lemma filters_okb_ok schs ts w : filters_okb schs ts w = true -> filters_ok schs ts w.
Proof.
  unfold filters_okb, filters_ok. rewrite forallb_forall. intros H i Hi.
  specialize (H i ltac:(apply in_seq; lia)). apply andb_true_iff in H. destruct H as [H1 H2].
  split; [now apply lits_okb_ok|]. apply stmt_hits_bad_false. now apply negb_true_iff in H2.
Qed.

Lemma indexed_okb_ok schs ts : indexed_okb schs ts = true -> indexed_cols_nonnull schs ts.
Proof.
  unfold indexed_okb, indexed_cols_nonnull. rewrite forallb_forall. intros H i Hi.
  apply has_null_false. apply negb_true_iff. apply H. apply in_seq. lia.
Qed.

Lemma scopedb_ok schs w sl : scopedb schs w sl = true -> query_scoped schs w sl.
Proof.
  unfold scopedb, query_scoped. rewrite forallb_forall. intros H.
  split; intros c Hc; apply Nat.ltb_lt, H, in_or_app; auto.
Qed.

Lemma conds_okb_ok schs w : conds_okb schs w = true -> conds_ok schs w.
Proof.
  unfold conds_okb, conds_ok. rewrite forallb_forall. intros H c1 c2 Hin. specialize (H (c1, c2) Hin).
  cbn [fst snd] in H.
  now apply coltype_eqb_eq.
Qed.

Lemma existsb_false_all {A} (f : A -> bool) l : existsb f l = false -> forall x, In x l -> f x = false.
Proof.
  induction l as [|a l IH]; cbn; intros H x Hx; [destruct Hx|].
  apply orb_false_iff in H. destruct H as [H1 H2]. destruct Hx as [<-|Hx]; auto.
Qed.

Lemma key_col_vals_dec schs ts w (f : value -> bool) (P : value -> Prop) :
  (forall v, f v = false -> P v) ->
  existsb (col_has schs ts f) (key_cols w) = false -> key_col_vals schs ts w P.
Proof.
  intros HfP H c Hc r Hr. apply HfP.
  pose proof (existsb_false_all _ _ H c Hc) as Hcol. unfold col_has in Hcol.
  exact (existsb_false_all _ _ Hcol r Hr).
Qed.

Lemma has_null_key_false schs ts w : has_null_key schs ts w = false -> no_null_keys schs ts w.
Proof. apply key_col_vals_dec. intros v Hv ->. discriminate. Qed.

Lemma has_neg_zero_key_false schs ts w : has_neg_zero_key schs ts w = false -> no_neg_zero_keys schs ts w.
Proof. apply key_col_vals_dec. intros v Hv ->. unfold is_neg_zero in Hv. rewrite N.eqb_refl in Hv. discriminate. Qed.

Lemma join_hyps_sound schs ts w sl : join_hyps_ok schs ts w sl = true ->
  tables_wf schs ts /\ query_scoped schs w sl /\ conds_ok schs w /\ filters_ok schs ts w /\
  indexed_cols_nonnull schs ts /\ no_null_keys schs ts w.
Proof.
  unfold join_hyps_ok. intros H.
  apply andb_true_iff in H. destruct H as [H H6].
  apply andb_true_iff in H. destruct H as [H H5]. apply andb_true_iff in H. destruct H as [H H4].
  apply andb_true_iff in H. destruct H as [H H3]. apply andb_true_iff in H. destruct H as [H1 H2].
  split; [now apply tables_wfb_ok|]. split; [now apply scopedb_ok|]. split; [now apply conds_okb_ok|].
  split; [now apply filters_okb_ok|]. split; [now apply indexed_okb_ok|].
  apply has_null_key_false. now apply negb_true_iff.
Qed.

Lemma every_candidate_equiv_checked_lemma : forall h schs ts w sl l p,
  join_hyps_ok schs ts w sl = true -> join_candidates schs w sl = Some l -> In p l ->
  exists out, run_join h schs ts p = Some out /\ Permutation out (join_sel sl w ts).
Proof.
  intros h schs ts w sl l p H. destruct (join_hyps_sound schs ts w sl H) as (H1 & H2 & H3 & H4 & H5 & H6).
  now apply every_candidate_equiv_env.
Qed.

(** * 13. Witnesses: where the statement fails without its side conditions *)

(** a hash that separates different serialisations (what murmur does in practice) *)
Definition wit_hash (v : value) : N :=
  match v with VInt z => Z.to_N (z + 2147483648) | VFloat u => u | _ => 0%N end.

Definition i2 : schema := [(TInt, false); (TInt, false)].
Definition cands (schs : list schema) (w : jpred) (sl : list nat) : list jplan :=
  match join_candidates schs w sl with Some l => l | None => [] end.
Definition dummy_plan : jplan := JScan 0 PSeqScan.

Ltac hyps_by_compute :=
  repeat match goal with
  | |- (_ = _) /\ _ => fail 1
  | |- (exists _, _) /\ _ => fail 1
  | |- _ /\ _ => split
  | |- tables_wf _ _ => apply tables_wfb_ok; vm_compute; reflexivity
  | |- query_scoped _ _ _ => apply scopedb_ok; vm_compute; reflexivity
  | |- conds_ok _ _ => apply conds_okb_ok; vm_compute; reflexivity
  | |- filters_ok _ _ _ => apply filters_okb_ok; vm_compute; reflexivity
  | |- indexed_cols_nonnull _ _ => apply indexed_okb_ok; vm_compute; reflexivity
  | |- no_null_keys _ _ _ => apply has_null_key_false; vm_compute; reflexivity
  | |- no_neg_zero_keys _ _ _ => apply has_neg_zero_key_false; vm_compute; reflexivity
  end.

(** ** F-NULL-JOIN.  SQL:
      na(a0,a1) = (NULL,1),(3,4)   nb(b0,b1) = (NULL,2),(3,5)
      SELECT na.a1, nb.b1 FROM na, nb WHERE na.a0 = nb.b0 AND na.a0 = nb.b0
    (two linking equalities: nested loop join + Selection) also returns (1,2);
      SELECT na.a1, nb.b1 FROM na, nb WHERE na.a0 = nb.b0
    (hash join) returns (4,5) only, as the reference does for both. *)
Definition null_na : table := [[VNull; VInt 1]; [VInt 3; VInt 4]].
Definition null_nb : table := [[VNull; VInt 2]; [VInt 3; VInt 5]].
Definition null_w2 : jpred := JAnd (JColEq 0 2) (JColEq 0 2).
Definition null_w1 : jpred := JColEq 0 2.

Lemma null_key_two_tables_lemma :
  let schs := [i2; i2] in let ts := [null_na; null_nb] in let sl := [1; 3] in
  tables_wf schs ts /\ query_scoped schs null_w2 sl /\ conds_ok schs null_w2 /\ filters_ok schs ts null_w2 /\
  indexed_cols_nonnull schs ts /\
  has_null_key schs ts null_w2 = true /\
  map algs (cands schs null_w2 sl) = [[ANest]; [ANest]] /\
  map (run_join wit_hash schs ts) (cands schs null_w2 sl) =
    [Some [[VInt 1; VInt 2]; [VInt 4; VInt 5]]; Some [[VInt 1; VInt 2]; [VInt 4; VInt 5]]] /\
  join_sel sl null_w2 ts = [[VInt 4; VInt 5]] /\
  nth_error (cands schs null_w1 sl) 0 =
    Some (JProject (JHash (JScan 0 (PProjection PSeqScan [0; 1])) (JScan 1 (PProjection PSeqScan [0; 1])) 0 2) [1; 3]) /\
  forallb (fun p => match run_join wit_hash schs ts p with Some [[VInt 4; VInt 5]] => true | _ => false end)
          (cands schs null_w1 sl) = true /\
  join_sel sl null_w1 ts = [[VInt 4; VInt 5]].
Proof.
  cbv zeta. hyps_by_compute. repeat (split; [vm_compute; reflexivity|]). vm_compute; reflexivity.
Qed.

(** Three tables, ONE query, two candidates of the dynamic programme:
      ta(a0,a1) = (1,10)   tb(b0,b1) = (1,NULL)   tc(c0,c1) = (NULL,7)
      SELECT ta.a1, tc.c1 FROM ta, tb, tc WHERE ta.a0 = tb.b0 AND tb.b1 = tc.c0
    joined as (ta x tb by hash) x tc by hash: no row;
    joined as (ta x tc nested loop) x tb nested loop + Selection: the row (10,7). *)
Definition null_ta : table := [[VInt 1; VInt 10]].
Definition null_tb : table := [[VInt 1; VNull]].
Definition null_tc : table := [[VNull; VInt 7]].
Definition null_w3 : jpred := JAnd (JColEq 0 2) (JColEq 3 4).

Lemma null_key_plan_dependent_refuted_lemma :
  let schs := [i2; i2; i2] in let ts := [null_ta; null_tb; null_tc] in let sl := [1; 5] in
  tables_wf schs ts /\ query_scoped schs null_w3 sl /\ conds_ok schs null_w3 /\ filters_ok schs ts null_w3 /\
  indexed_cols_nonnull schs ts /\
  has_null_key schs ts null_w3 = true /\
  exists l pH pN, join_candidates schs null_w3 sl = Some l /\ In pH l /\ In pN l /\
    algs pH = [AHash; AHash] /\ algs pN = [ANest; ANest] /\
    run_join wit_hash schs ts pH = Some [] /\
    run_join wit_hash schs ts pN = Some [[VInt 10; VInt 7]] /\
    join_sel sl null_w3 ts = [].
Proof.
  cbv zeta. hyps_by_compute. split; [vm_compute; reflexivity|].
  exists (cands [i2; i2; i2] null_w3 [1; 5]),
         (nth 0 (cands [i2; i2; i2] null_w3 [1; 5]) dummy_plan),
         (nth 64 (cands [i2; i2; i2] null_w3 [1; 5]) dummy_plan).
  split; [vm_compute; reflexivity|].
  split; [apply nth_In; vm_compute; lia|]. split; [apply nth_In; vm_compute; lia|].
  split; [vm_compute; reflexivity|]. split; [vm_compute; reflexivity|].
  split; [vm_compute; reflexivity|]. split; vm_compute; reflexivity.
Qed.

(** ** float32 -0.0 / +0.0 as join keys (fixed in /repo 47a18be; not reachable through
    SQL text: the front end cannot parse a negative literal; through the row-level API only):
      ga(x float, y int) = (-0.0, 1)    gb(u float indexed, v int) = (+0.0, 10)
      SELECT ga.y, gb.v FROM ga, gb WHERE ga.x = gb.u
    BEFORE the fix ([run_join_gen false]) the hash join returned no row (the two zeros
    serialise, hence hash, differently) and the index join (1,10), the reference answer
    (IEEE equality); with the fix ([run_join]) every candidate returns (1,10). *)
Definition nz_s0 : schema := [(TFloat, false); (TInt, false)].
Definition nz_s1 : schema := [(TFloat, true); (TInt, false)].
Definition nz_ga : table := [[VFloat two31; VInt 1]].
Definition nz_gb : table := [[VFloat 0; VInt 10]].

Lemma neg_zero_unfixed_refuted_lemma :
  let schs := [nz_s0; nz_s1] in let ts := [nz_ga; nz_gb] in let w := JColEq 0 2 in let sl := [1; 3] in
  tables_wf schs ts /\ query_scoped schs w sl /\ conds_ok schs w /\ filters_ok schs ts w /\
  indexed_cols_nonnull schs ts /\ no_null_keys schs ts w /\
  has_neg_zero_key schs ts w = true /\
  exists l pH pI, join_candidates schs w sl = Some l /\ In pH l /\ In pI l /\
    algs pH = [AHash] /\ algs pI = [AIndex] /\
    run_join_gen false wit_hash schs ts pH = Some [] /\
    run_join_gen false wit_hash schs ts pI = Some [[VInt 1; VInt 10]] /\
    run_join wit_hash schs ts pH = Some [[VInt 1; VInt 10]] /\
    join_sel sl w ts = [[VInt 1; VInt 10]].
Proof.
  cbv zeta. hyps_by_compute. split; [vm_compute; reflexivity|].
  exists (cands [nz_s0; nz_s1] (JColEq 0 2) [1; 3]),
         (nth 0 (cands [nz_s0; nz_s1] (JColEq 0 2) [1; 3]) dummy_plan),
         (nth 2 (cands [nz_s0; nz_s1] (JColEq 0 2) [1; 3]) dummy_plan).
  split; [vm_compute; reflexivity|].
  split; [apply nth_In; vm_compute; lia|]. split; [apply nth_In; vm_compute; lia|].
  split; [vm_compute; reflexivity|]. split; [vm_compute; reflexivity|].
  split; [vm_compute; reflexivity|]. split; [vm_compute; reflexivity|]. split; vm_compute; reflexivity.
Qed.

(** ** An equality between two columns of ONE table is a filter of that table's scan
    (fixed in /repo e79176f; before, no plan node applied it).  SQL:
      ta(a0,a1) = (1,1),(2,20)   tb(b0,b1) = (2,3),(1,3)
      SELECT ta.a1, tb.b1 FROM ta, tb WHERE ta.a0 = tb.b0 AND ta.a0 = ta.a1
    every candidate returns (1,3), the reference answer. *)
Definition st_ta : table := [[VInt 1; VInt 1]; [VInt 2; VInt 20]].
Definition st_tb : table := [[VInt 2; VInt 3]; [VInt 1; VInt 3]].
Definition st_w : jpred := JAnd (JColEq 0 2) (JColEq 0 1).

(** ** The full statements, refuted *)

Definition every_candidate_equiv_null_keys : Prop := forall h schs ts w sl l p,
  tables_wf schs ts -> query_scoped schs w sl -> conds_ok schs w -> filters_ok schs ts w ->
  indexed_cols_nonnull schs ts ->
  join_candidates schs w sl = Some l -> In p l ->
  exists out, run_join_gen true h schs ts p = Some out /\ Permutation out (join_sel sl w ts).

Lemma every_candidate_equiv_null_keys_refuted_lemma : ~ every_candidate_equiv_null_keys.
Proof.
  intros H. destruct null_key_plan_dependent_refuted_lemma
    as (H1 & H2 & H3 & H4 & H5 & _ & l & pH & pN & Hc & _ & HN & _ & _ & _ & RN & Href).
  destruct (H wit_hash _ _ _ _ l pN H1 H2 H3 H4 H5 Hc HN) as (out & R & P).
  unfold run_join in *. rewrite RN in R. injection R as <-. rewrite Href in P. apply Permutation_length in P. discriminate.
Qed.

Definition candidates_agree_null_keys : Prop := forall h schs ts w sl l p1 p2,
  tables_wf schs ts -> query_scoped schs w sl -> conds_ok schs w -> filters_ok schs ts w ->
  indexed_cols_nonnull schs ts ->
  join_candidates schs w sl = Some l -> In p1 l -> In p2 l ->
  exists o1 o2, run_join_gen true h schs ts p1 = Some o1 /\ run_join_gen true h schs ts p2 = Some o2 /\ Permutation o1 o2.

Lemma candidates_agree_null_keys_refuted_lemma : ~ candidates_agree_null_keys.
Proof.
  intros H. destruct null_key_plan_dependent_refuted_lemma
    as (H1 & H2 & H3 & H4 & H5 & _ & l & pH & pN & Hc & HH & HN & _ & _ & RH & RN & _).
  destruct (H wit_hash _ _ _ _ l pH pN H1 H2 H3 H4 H5 Hc HH HN) as (o1 & o2 & R1 & R2 & P).
  unfold run_join in *. rewrite RH in R1. rewrite RN in R2. injection R1 as <-. injection R2 as <-.
  apply Permutation_length in P. discriminate.
Qed.

(** the engine before 47a18be ([run_join_gen false]) *)
Definition every_candidate_equiv_neg_zero_unfixed : Prop := forall h schs ts w sl l p,
  tables_wf schs ts -> query_scoped schs w sl -> conds_ok schs w -> filters_ok schs ts w ->
  indexed_cols_nonnull schs ts -> no_null_keys schs ts w ->
  join_candidates schs w sl = Some l -> In p l ->
  exists out, run_join_gen false h schs ts p = Some out /\ Permutation out (join_sel sl w ts).

Lemma every_candidate_equiv_neg_zero_unfixed_refuted_lemma : ~ every_candidate_equiv_neg_zero_unfixed.
Proof.
  intros H. destruct neg_zero_unfixed_refuted_lemma
    as (H1 & H2 & H3 & H4 & H5 & H6 & _ & l & pH & pI & Hc & HH & _ & _ & _ & RH & _ & _ & Href).
  destruct (H wit_hash _ _ _ _ l pH H1 H2 H3 H4 H5 H6 Hc HH) as (out & R & P).
  rewrite RH in R. injection R as <-. rewrite Href in P. apply Permutation_length in P. discriminate.
Qed.

(** * 14. Examples (non-vacuity) *)

(** all columns indexed, as after CREATE TABLE through SQL *)
Definition ix2 : schema := [(TInt, true); (TInt, true)].
(** duplicate keys (2 twice on both sides), keys missing on either side (5, 7 / 9) *)
Definition ex_ta : table := [[VInt 1; VInt 10]; [VInt 2; VInt 20]; [VInt 2; VInt 21]; [VInt 5; VInt 50]; [VInt 7; VInt 3]].
Definition ex_tb : table := [[VInt 2; VInt 3]; [VInt 2; VInt 1]; [VInt 1; VInt 7]; [VInt 9; VInt 9]; [VInt 1; VInt 10]].
Definition ex_tc : table := [[VInt 1; VInt 1]; [VInt 2; VInt 7]; [VInt 2; VInt 5]; [VInt 3; VInt 3]].
(** SELECT ta.a1, tb.b1 FROM ta, tb WHERE ta.a0 = tb.b0 AND tb.b1 > 2 *)
Definition ex_w2 : jpred := JAnd (JColEq 0 2) (JCmp 3 OGt (VInt 2)).
(** SELECT tc.c1, ta.a1 FROM ta, tb, tc WHERE ta.a0 = tb.b0 AND tb.b1 = tc.c1 AND tc.c0 > 0   (a chain) *)
Definition ex_w3 : jpred := JAnd (JAnd (JColEq 0 2) (JColEq 3 5)) (JCmp 4 OGt (VInt 0)).

Definition results (schs : list schema) (ts : list table) (w : jpred) (sl : list nat) : list (option table) :=
  map (run_join wit_hash schs ts) (cands schs w sl).

Fixpoint dedup_nat_lists (l : list (list nat)) : list (list nat) :=
  match l with
  | [] => []
  | x :: l' => if existsb (list_nat_eqb x) l' then dedup_nat_lists l' else x :: dedup_nat_lists l'
  end.

(** multiset equality of two tables, for the examples *)
Definition value_eqb (a b : value) : bool :=
  match a, b with
  | VNull, VNull => true
  | VInt x, VInt y => Z.eqb x y
  | VFloat u, VFloat v => N.eqb u v
  | VStr s, VStr t => match lex_cmp s t with Eq => true | _ => false end
  | _, _ => false
  end.
Fixpoint row_eqb (a b : row) : bool :=
  match a, b with
  | [], [] => true
  | x :: a', y :: b' => value_eqb x y && row_eqb a' b'
  | _, _ => false
  end.
Fixpoint remove1 (x : row) (l : table) : option table :=
  match l with
  | [] => None
  | y :: l' => if row_eqb x y then Some l' else option_map (cons y) (remove1 x l')
  end.
Fixpoint same_rows (a b : table) : bool :=
  match a with
  | [] => match b with [] => true | _ => false end
  | x :: a' => match remove1 x b with Some b' => same_rows a' b' | None => false end
  end.

(** every candidate runs and returns the rows [ref] in some order *)
Definition all_return (schs : list schema) (ts : list table) (w : jpred) (sl : list nat) (ref : table) : bool :=
  forallb (fun o => match o with Some out => same_rows out ref | None => false end) (results schs ts w sl).

Fixpoint dedup_algs (l : list (list jalg)) : list (list jalg) :=
  let alg_eqb (a b : jalg) := match a, b with AHash, AHash | AIndex, AIndex | ANest, ANest => true | _, _ => false end in
  let fix leq (a b : list jalg) := match a, b with
                                   | [], [] => true
                                   | x :: a', y :: b' => alg_eqb x y && leq a' b'
                                   | _, _ => false end in
  match l with
  | [] => []
  | x :: l' => if existsb (leq x) l' then dedup_algs l' else x :: dedup_algs l'
  end.

(** more example statements (Props/C11.v) *)
Definition ex_td : table := [[VInt 2; VInt 20]; [VInt 2; VInt 21]; [VInt 2; VInt 20]; [VInt 4; VInt 4]].
Definition ex_wn : jpred := JAnd (JColEq 0 2) (JColEq 1 3).
Definition ex_wx : jpred := JCmp 1 OGe (VInt 50).
Definition ex_ws : jpred := JAnd (JColEq 0 2) (JColEq 0 4).
Definition ex_wt : jpred := JAnd (JAnd (JColEq 0 2) (JColEq 2 4)) (JColEq 0 4).

Lemma chain_by_theorem_lemma : forall h p, In p (cands [ix2; ix2; ix2] ex_w3 [5; 1]) ->
  exists out, run_join h [ix2; ix2; ix2] [ex_ta; ex_tb; ex_tc] p = Some out /\
              Permutation out [[VInt 7; VInt 10]; [VInt 3; VInt 20]; [VInt 1; VInt 20]; [VInt 3; VInt 21]; [VInt 1; VInt 21]].
Proof.
  intros h p Hp.
  apply (every_candidate_equiv_checked_lemma h [ix2; ix2; ix2] [ex_ta; ex_tb; ex_tc] ex_w3 [5; 1]
           (cands [ix2; ix2; ix2] ex_w3 [5; 1]) p); [vm_compute; reflexivity|vm_compute; reflexivity|exact Hp].
Qed.

(** same-table equalities (Props/C11.v):
    ... WHERE ta.a0 = tb.b0 AND ta.a0 = ta.a1 AND ta.a0 = 1   and a chain with tc.c0 = tc.c1 *)
Definition st_w2 : jpred := JAnd (JAnd (JColEq 0 2) (JColEq 0 1)) (JCmp 0 OEq (VInt 1)).
Definition st_w3 : jpred := JAnd (JAnd (JColEq 0 2) (JColEq 3 5)) (JColEq 4 5).
