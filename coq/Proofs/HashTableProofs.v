(** Proofs about the linear-probe hash table model (Model/HashTable.v).

    - the (block, offset) iterator is the flat successor modulo the number of slots;
    - loop specifications: GetValue / Insert / Remove never run out of fuel;
      GetValue returns the live matching slots of the occupied prefix of the probe
      sequence; Insert stops at the first slot that is live with the same value
      (refusal) or not live (write); Remove clears every matching slot of the
      occupied prefix;
    - the invariant [ht_inv_sl] (every live entry is reachable from the home slot
      of its stored hash through occupied slots only) holds of the empty table and
      is preserved by every operation, with no capacity condition;
    - under the invariant GetValue = [ht_abs_sl], the live entries with that hash
      in probe order; effect of Insert / Remove on [ht_abs_sl];
    - refinement of operation sequences to the bag of (hash, value) pairs, and the
      index-level corollaries;
    - the [_refuted] witnesses. *)
From Coq Require Import List NArith ZArith Lia Bool Arith Permutation.
From Coq Require Import ZifyBool ZifyN ZifyNat.
From SDB Require Import Base.Bytes Params Model.Codec Model.IndexWrap Model.HashTable
  Proofs.CodecProofs.
Import ListNotations.
Local Open Scope nat_scope.

(** * Slot arrays *)

Lemma ht_upd_length p f sl : length (ht_upd p f sl) = length sl.
Proof.
  revert p; induction sl as [|s r IH]; intros p; [reflexivity|].
  destruct p; cbn [ht_upd length]; [reflexivity|]. now rewrite IH.
Qed.

Lemma ht_at_upd p f sl q :
  p < length sl ->
  ht_at (ht_upd p f sl) q = if q =? p then f (ht_at sl q) else ht_at sl q.
Proof.
  unfold ht_at. revert p q; induction sl as [|s r IH]; intros p q Hp; cbn [length] in Hp; [lia|].
  destruct p as [|p]; cbn [ht_upd].
  - destruct q; reflexivity.
  - destruct q as [|q]; [reflexivity|]. cbn [nth]. rewrite IH by lia. reflexivity.
Qed.

Lemma ht_upd_split p f sl :
  p < length sl ->
  sl = firstn p sl ++ ht_at sl p :: skipn (S p) sl /\
  ht_upd p f sl = firstn p sl ++ f (ht_at sl p) :: skipn (S p) sl.
Proof.
  unfold ht_at. revert p; induction sl as [|s r IH]; intros p Hp; cbn [length] in Hp; [lia|].
  destruct p as [|p].
  - split; reflexivity.
  - destruct (IH p ltac:(lia)) as [E1 E2]. cbn [ht_upd firstn skipn nth].
    split; cbn [app]; f_equal; assumption.
Qed.

Lemma ht_at_map g sl p : g ht_slot0 = ht_slot0 -> ht_at (map g sl) p = g (ht_at sl p).
Proof. intros Hg. unfold ht_at. rewrite <- Hg at 1. apply map_nth. Qed.

Lemma ht_at_repeat m p : ht_at (repeat ht_slot0 m) p = ht_slot0.
Proof.
  unfold ht_at. revert p; induction m as [|m IH]; intros [|p]; cbn; auto.
Qed.

Lemma ht_slots_ext (a b : list ht_slot) :
  length a = length b -> (forall p, p < length a -> ht_at a p = ht_at b p) -> a = b.
Proof. intros Hl Hp. apply (nth_ext a b ht_slot0 ht_slot0 Hl Hp). Qed.

(** * Probe positions: [ht_pp n s k] = the k-th slot visited from home slot [s]. *)

Definition ht_pp (n s k : nat) : nat := if s + k <? n then s + k else s + k - n.
Definition ht_pidx (n s p : nat) : nat := if s <=? p then p - s else p + n - s.

Ltac ht_arith :=
  unfold ht_pp, ht_pidx, ht_next in *;
  repeat match goal with
         | |- context [if ?b then _ else _] => destruct b eqn:?
         | H : context [if ?b then _ else _] |- _ => destruct b eqn:?
         end; try lia.

Lemma ht_pp_lt n s k : s < n -> k < n -> ht_pp n s k < n.
Proof. intros; ht_arith. Qed.

Lemma ht_pp_0 n s : s < n -> ht_pp n s 0 = s.
Proof. intros; ht_arith. Qed.

Lemma ht_next_pp n s k : s < n -> k < n -> ht_next n (ht_pp n s k) = ht_pp n s (S k).
Proof. intros; ht_arith. Qed.

Lemma ht_pp_back n s k : s < n -> 0 < k -> k <= n -> (ht_pp n s k =? s) = (k =? n).
Proof. intros; ht_arith. Qed.

Lemma ht_pp_inj n s k k' : s < n -> k < n -> k' < n -> ht_pp n s k = ht_pp n s k' -> k = k'.
Proof. intros; ht_arith. Qed.

Lemma ht_pp_pidx n s p : s < n -> p < n -> ht_pp n s (ht_pidx n s p) = p /\ ht_pidx n s p < n.
Proof. intros; split; ht_arith. Qed.

Lemma ht_pidx_pp n s k : s < n -> k < n -> ht_pidx n s (ht_pp n s k) = k.
Proof. intros; ht_arith. Qed.

(** The (block, offset) iterator of the Go code is the flat successor. *)
Lemma ht_it_next_flat nb bsz b o :
  b < nb -> o < bsz ->
  ht_flat bsz (ht_it_next nb bsz (b, o)) = ht_next (nb * bsz) (ht_flat bsz (b, o)) /\
  fst (ht_it_next nb bsz (b, o)) < nb /\ snd (ht_it_next nb bsz (b, o)) < bsz.
Proof.
  intros Hb Ho. unfold ht_it_next, ht_flat, ht_next. cbn [fst snd].
  assert (Hle : S b * bsz <= nb * bsz) by (apply Nat.mul_le_mono_r; lia).
  cbn [Nat.mul] in Hle.
  destruct (bsz <=? S o) eqn:E1; [destruct (nb <=? S b) eqn:E2|]; cbn [fst snd].
  - assert (nb = S b) by lia. subst nb. cbn [Nat.mul] in *.
    destruct (S (b * bsz + o) <? bsz + b * bsz) eqn:E3; repeat split; lia.
  - assert (Hle2 : S (S b) * bsz <= nb * bsz) by (apply Nat.mul_le_mono_r; lia).
    cbn [Nat.mul] in Hle2 |- *.
    destruct (S (b * bsz + o) <? nb * bsz) eqn:E3; repeat split; lia.
  - destruct (S (b * bsz + o) <? nb * bsz) eqn:E3; repeat split; lia.
Qed.

(** The loop exit test [bucket == originalBucketIndex && offset == originalBucketOffset]
    is equality of flat indices. *)
Lemma ht_flat_inj bsz b o b' o' :
  o < bsz -> o' < bsz -> ht_flat bsz (b, o) = ht_flat bsz (b', o') -> b = b' /\ o = o'.
Proof.
  unfold ht_flat; cbn [fst snd]; intros Ho Ho' E.
  assert (Hb : b = b').
  { destruct (lt_eq_lt_dec b b') as [[Hlt|Heq]|Hgt]; [|exact Heq|].
    - assert (Hle : S b * bsz <= b' * bsz) by (apply Nat.mul_le_mono_r; lia).
      cbn [Nat.mul] in Hle. lia.
    - assert (Hle : S b' * bsz <= b * bsz) by (apply Nat.mul_le_mono_r; lia).
      cbn [Nat.mul] in Hle. lia. }
  subst b'. split; [reflexivity|lia].
Qed.

Lemma ht_home_lt nb bsz hv : 0 < nb -> 0 < bsz -> ht_home nb bsz hv < nb * bsz.
Proof.
  intros Hnb Hb. unfold ht_home, ht_home_it, ht_flat. cbn [fst snd].
  assert (H1 : (hv mod N.of_nat nb < N.of_nat nb)%N) by (apply N.mod_lt; lia).
  assert (H2 : (hv mod N.of_nat bsz < N.of_nat bsz)%N) by (apply N.mod_lt; lia).
  nia.
Qed.

(** * List-level programs the loops implement *)

Definition ht_match (hv : N) (s : ht_slot) : bool :=
  hs_occ s && hs_rd s && (hs_key s =? hv)%N.

(** GetValue on the probe sequence: live matching slots of the occupied prefix. *)
Fixpoint ht_lget (hv : N) (r : list ht_slot) : list N :=
  match r with
  | [] => []
  | s :: r' =>
      if hs_occ s
      then (if hs_rd s && (hs_key s =? hv)%N then [hs_val s] else []) ++ ht_lget hv r'
      else []
  end.

Lemma ht_lget_reach hv r :
  (forall k, k < length r -> ht_match hv (nth k r ht_slot0) = true ->
             forall j, j < k -> hs_occ (nth j r ht_slot0) = true) ->
  ht_lget hv r = map hs_val (filter (ht_match hv) r).
Proof.
  induction r as [|s r IH]; intros Hreach; [reflexivity|].
  cbn [ht_lget filter]. unfold ht_match at 1.
  destruct (hs_occ s) eqn:Eo; cbn [andb].
  - rewrite IH.
    + destruct (hs_rd s && (hs_key s =? hv)%N); reflexivity.
    + intros k Hk Hm j Hj. apply (Hreach (S k) ltac:(cbn [length]; lia) Hm (S j)). lia.
  - assert (Hnone : forall x, In x r -> ht_match hv x = false).
    { intros x Hx. destruct (In_nth r x ht_slot0 Hx) as [k [Hk Ek]].
      destruct (ht_match hv x) eqn:Em; [|reflexivity].
      assert (Ho := Hreach (S k) ltac:(cbn [length]; lia)
                      ltac:(cbn [nth]; rewrite Ek; exact Em) 0 ltac:(lia)).
      cbn [nth] in Ho. congruence. }
    clear Hreach IH. induction r as [|x r IH]; [reflexivity|].
    cbn [filter]. rewrite (Hnone x (or_introl eq_refl)). apply IH.
    intros y Hy. apply Hnone. right; exact Hy.
Qed.

(** Remove on one slot: what the loop does to a visited slot, and what it
    amounts to on a table satisfying the invariant. *)
Definition ht_rm1 (hv v : N) (s : ht_slot) : ht_slot :=
  if hs_occ s && (hs_key s =? hv)%N && (hs_val s =? v)%N then ht_slot_remove s else s.

Definition ht_clr (hv v : N) (s : ht_slot) : ht_slot :=
  if ht_match hv s && (hs_val s =? v)%N
  then mk_ht_slot (hs_occ s) false (hs_key s) (hs_val s) else s.

Lemma ht_rm1_clr hv v s : ht_rm1 hv v s = ht_clr hv v s.
Proof.
  unfold ht_rm1, ht_clr, ht_match, ht_slot_remove. destruct s as [o r k x]; cbn.
  destruct o, r, (k =? hv)%N, (x =? v)%N; reflexivity.
Qed.

Lemma ht_rm1_occ hv v s : hs_occ (ht_rm1 hv v s) = hs_occ s.
Proof.
  unfold ht_rm1, ht_slot_remove.
  destruct (hs_occ s && (hs_key s =? hv)%N && (hs_val s =? v)%N); [|reflexivity].
  destruct (hs_rd s); reflexivity.
Qed.

Lemma ht_clr_slot0 hv v : ht_clr hv v ht_slot0 = ht_slot0.
Proof. reflexivity. Qed.

(** * Loop specifications *)

Section Loops.
  Variable n : nat.

  Definition ht_probe (s : nat) (sl : list ht_slot) : list ht_slot :=
    map (fun k => ht_at sl (ht_pp n s k)) (seq 0 n).

  Lemma ht_probe_length s sl : length (ht_probe s sl) = n.
  Proof. unfold ht_probe. now rewrite map_length, seq_length. Qed.

  Lemma ht_probe_nth s sl k :
    k < n -> nth k (ht_probe s sl) ht_slot0 = ht_at sl (ht_pp n s k).
  Proof.
    intros Hk. unfold ht_probe.
    set (f := fun k => ht_at sl (ht_pp n s k)).
    transitivity (nth k (map f (seq 0 n)) (f 0)).
    { apply nth_indep. now rewrite map_length, seq_length. }
    rewrite map_nth, seq_nth by exact Hk. reflexivity.
  Qed.

  Lemma ht_get_loop_spec s hv sl :
    s < n ->
    forall m k, k + m = n -> 0 < m ->
      ht_get_loop m n s (ht_pp n s k) hv sl =
      Some (ht_lget hv (map (fun k => ht_at sl (ht_pp n s k)) (seq k m))).
  Proof.
    intros Hs. induction m as [|m IH]; intros k Hkm Hm; [lia|].
    cbn [ht_get_loop seq map ht_lget].
    destruct (hs_occ (ht_at sl (ht_pp n s k))); [|reflexivity].
    rewrite ht_next_pp by lia. rewrite ht_pp_back by lia.
    destruct (S k =? n) eqn:E.
    - assert (m = 0) by lia. subst m. cbn [seq map ht_lget]. now rewrite app_nil_r.
    - rewrite IH by lia. reflexivity.
  Qed.

  (** No fuel exhaustion, and the result in terms of the probe sequence. *)
  Lemma ht_get_loop_probe s hv sl :
    s < n -> ht_get_loop n n s s hv sl = Some (ht_lget hv (ht_probe s sl)).
  Proof.
    intros Hs. rewrite <- (ht_pp_0 n s Hs) at 2.
    rewrite (ht_get_loop_spec s hv sl Hs n 0) by lia. reflexivity.
  Qed.

  Definition ht_pass (v : N) (s : ht_slot) : Prop :=
    ht_live s = true /\ (hs_val s =? v)%N = false.

  Lemma ht_insert_loop_spec s hv v sl :
    s < n -> length sl = n ->
    forall m k, k + m = n -> 0 < m ->
      (forall j, j < k -> ht_pass v (ht_at sl (ht_pp n s j))) ->
      match ht_insert_loop m n s (ht_pp n s k) hv v sl with
      | (sl', HtDuplicate p) =>
          sl' = sl /\ exists k', k' < n /\ p = ht_pp n s k' /\
            ht_live (ht_at sl p) = true /\ hs_val (ht_at sl p) = v /\
            forall j, j < k' -> ht_pass v (ht_at sl (ht_pp n s j))
      | (sl', HtInserted p) =>
          exists k', k' < n /\ p = ht_pp n s k' /\ ht_live (ht_at sl p) = false /\
            sl' = ht_upd p (fun _ => mk_ht_slot true true hv v) sl /\
            forall j, j < k' -> ht_pass v (ht_at sl (ht_pp n s j))
      | (sl', HtFull) => sl' = sl /\ forall j, j < n -> ht_pass v (ht_at sl (ht_pp n s j))
      | (_, HtInsFuel) => False
      end.
  Proof.
    intros Hs Hlen. induction m as [|m IH]; intros k Hkm Hm Hpre; [lia|].
    cbn [ht_insert_loop].
    assert (Hp : ht_pp n s k < length sl) by (rewrite Hlen; apply ht_pp_lt; lia).
    assert (Hupd : ht_live (ht_at sl (ht_pp n s k)) = false ->
                   ht_upd (ht_pp n s k) (ht_slot_insert hv v) sl =
                   ht_upd (ht_pp n s k) (fun _ => mk_ht_slot true true hv v) sl).
    { intros Hl. destruct (ht_upd_split (ht_pp n s k) (ht_slot_insert hv v) sl Hp) as [_ E1].
      destruct (ht_upd_split (ht_pp n s k) (fun _ => mk_ht_slot true true hv v) sl Hp) as [_ E2].
      rewrite E1, E2. unfold ht_slot_insert. unfold ht_live in Hl. now rewrite Hl. }
    remember (ht_at sl (ht_pp n s k)) as x eqn:Ex.
    assert (Hlv : ht_live x = hs_occ x && hs_rd x) by reflexivity.
    destruct (hs_occ x) eqn:Eo, (hs_rd x) eqn:Er; cbn [andb negb] in *.
    2,3,4: exists k; rewrite <- Ex;
      (split; [lia|split; [reflexivity|split; [exact Hlv|split; [apply Hupd; exact Hlv|exact Hpre]]]]).
    destruct (hs_val x =? v)%N eqn:Ev.
    { split; [reflexivity|]. exists k. rewrite <- Ex.
      split; [lia|split; [reflexivity|split; [exact Hlv|split; [lia|exact Hpre]]]]. }
    assert (Hx : ht_pass v x) by (split; assumption).
    assert (Hpre' : forall j, j < S k -> ht_pass v (ht_at sl (ht_pp n s j))).
    { intros j Hj. destruct (Nat.eq_dec j k) as [->|Hne]; [rewrite <- Ex; exact Hx|]. apply Hpre. lia. }
    rewrite ht_next_pp by lia. rewrite ht_pp_back by lia.
    destruct (S k =? n) eqn:E.
    - split; [reflexivity|]. intros j Hj. apply Hpre'. lia.
    - apply IH; try lia. exact Hpre'.
  Qed.

  Lemma ht_remove_loop_spec s hv v :
    s < n ->
    forall m k sl, length sl = n -> k + m = n -> 0 < m ->
      exists sl' K,
        ht_remove_loop m n s (ht_pp n s k) hv v sl = Some sl' /\ length sl' = n /\
        k <= K <= n /\
        (forall j, k <= j < K -> hs_occ (ht_at sl (ht_pp n s j)) = true) /\
        (K < n -> hs_occ (ht_at sl (ht_pp n s K)) = false) /\
        forall p, p < n ->
          ht_at sl' p = if (k <=? ht_pidx n s p) && (ht_pidx n s p <? K)
                        then ht_rm1 hv v (ht_at sl p) else ht_at sl p.
  Proof.
    intros Hs. induction m as [|m IH]; intros k sl Hlen Hkm Hm; [lia|].
    cbn [ht_remove_loop].
    destruct (hs_occ (ht_at sl (ht_pp n s k))) eqn:Eo.
    2:{ exists sl, k. repeat split; try lia; auto.
        intros p Hp. destruct ((k <=? ht_pidx n s p) && (ht_pidx n s p <? k)) eqn:E; [lia|reflexivity]. }
    cbn [andb].
    set (sl1 := if ((hs_key (ht_at sl (ht_pp n s k)) =? hv)%N && (hs_val (ht_at sl (ht_pp n s k)) =? v)%N)%bool
                then ht_upd (ht_pp n s k) ht_slot_remove sl else sl).
    assert (Hpk : ht_pp n s k < n) by (apply ht_pp_lt; lia).
    assert (Hlen1 : length sl1 = n).
    { unfold sl1. destruct (_ && _)%bool; [rewrite ht_upd_length|]; exact Hlen. }
    assert (Hat1 : forall q, ht_at sl1 q =
                     if q =? ht_pp n s k then ht_rm1 hv v (ht_at sl q) else ht_at sl q).
    { intros q. unfold sl1.
      destruct ((hs_key (ht_at sl (ht_pp n s k)) =? hv)%N && (hs_val (ht_at sl (ht_pp n s k)) =? v)%N)%bool eqn:Ec.
      - rewrite ht_at_upd by lia. destruct (q =? ht_pp n s k) eqn:Eq; [|reflexivity].
        apply Nat.eqb_eq in Eq. subst q. unfold ht_rm1. rewrite Eo. cbn [andb]. now rewrite Ec.
      - destruct (q =? ht_pp n s k) eqn:Eq; [|reflexivity].
        apply Nat.eqb_eq in Eq. subst q. unfold ht_rm1. rewrite Eo. cbn [andb]. now rewrite Ec. }
    assert (Hocc1 : forall q, hs_occ (ht_at sl1 q) = hs_occ (ht_at sl q)).
    { intros q. rewrite Hat1. destruct (q =? ht_pp n s k); [apply ht_rm1_occ|reflexivity]. }
    rewrite ht_next_pp by lia. rewrite ht_pp_back by lia.
    destruct (S k =? n) eqn:E.
    - exists sl1, n. repeat split; try lia; auto.
      + intros j Hj. assert (j = k) by lia. subst j. exact Eo.
      + intros p Hp. rewrite Hat1.
        destruct (ht_pp_pidx n s p Hs Hp) as [E1 E2].
        destruct (p =? ht_pp n s k) eqn:Eq.
        * apply Nat.eqb_eq in Eq. subst p. rewrite ht_pidx_pp by lia.
          destruct ((k <=? k) && (k <? n)) eqn:E3; [reflexivity|lia].
        * destruct ((k <=? ht_pidx n s p) && (ht_pidx n s p <? n)) eqn:E3; [|reflexivity].
          assert (ht_pidx n s p = k) by lia. rewrite <- E1 in Eq. rewrite H in Eq. lia.
    - destruct (IH (S k) sl1 Hlen1 ltac:(lia) ltac:(lia)) as [sl' [K [Hr [Hl' [HK [Hocc [Hstop Hpt]]]]]]].
      exists sl', K. repeat split; try lia; auto.
      + intros j Hj. destruct (Nat.eq_dec j k) as [->|Hne]; [exact Eo|].
        rewrite <- Hocc1. apply Hocc. lia.
      + intros HKn. rewrite <- Hocc1. apply Hstop. exact HKn.
      + intros p Hp. rewrite (Hpt p Hp). rewrite Hat1.
        destruct (ht_pp_pidx n s p Hs Hp) as [E1 E2].
        destruct (p =? ht_pp n s k) eqn:Eq.
        * apply Nat.eqb_eq in Eq. subst p. rewrite ht_pidx_pp by lia.
          destruct ((S k <=? k) && (k <? K)) eqn:E3; [lia|].
          destruct ((k <=? k) && (k <? K)) eqn:E4; [reflexivity|lia].
        * assert (Hne : ht_pidx n s p <> k).
          { intros Hc. rewrite <- E1 in Eq. rewrite Hc in Eq. lia. }
          destruct ((S k <=? ht_pidx n s p) && (ht_pidx n s p <? K)) eqn:E3;
            destruct ((k <=? ht_pidx n s p) && (ht_pidx n s p <? K)) eqn:E4;
            try reflexivity; lia.
  Qed.
End Loops.

(** * Generic list facts *)

Lemma ht_filter_none {A} (g : A -> bool) l :
  (forall x, In x l -> g x = false) -> filter g l = [].
Proof.
  induction l as [|x l IH]; intros H; [reflexivity|].
  cbn [filter]. rewrite (H x (or_introl eq_refl)). apply IH. intros y Hy. apply H. now right.
Qed.

Lemma ht_filter_all {A} (g : A -> bool) l :
  (forall x, In x l -> g x = true) -> filter g l = l.
Proof.
  induction l as [|x l IH]; intros H; [reflexivity|].
  cbn [filter]. rewrite (H x (or_introl eq_refl)). f_equal. apply IH. intros y Hy. apply H. now right.
Qed.

Lemma ht_filter_map_ext {A B} (g : B -> bool) (f1 f2 : A -> B) l :
  (forall x, In x l -> f1 x = f2 x \/ (g (f1 x) = false /\ g (f2 x) = false)) ->
  filter g (map f1 l) = filter g (map f2 l).
Proof.
  induction l as [|x l IH]; intros H; [reflexivity|].
  cbn [map filter]. rewrite IH by (intros y Hy; apply H; now right).
  destruct (H x (or_introl eq_refl)) as [E|[E1 E2]].
  - now rewrite E.
  - now rewrite E1, E2.
Qed.

Lemma ht_perm_filter {A} (g : A -> bool) l l' :
  Permutation l l' -> Permutation (filter g l) (filter g l').
Proof.
  induction 1 as [|x l l' _ IH|x y l|l l' l'' _ IH1 _ IH2]; cbn [filter].
  - constructor.
  - destruct (g x); [constructor|]; exact IH.
  - destruct (g x), (g y); try apply Permutation_refl. constructor.
  - eapply Permutation_trans; eassumption.
Qed.

Lemma ht_nodup_map_in {A B} (f : A -> B) l :
  NoDup l -> (forall x y, In x l -> In y l -> f x = f y -> x = y) -> NoDup (map f l).
Proof.
  induction 1 as [|x l Hx _ IH]; intros Hinj; cbn [map]; constructor.
  - intros Hin. apply in_map_iff in Hin. destruct Hin as [y [Ey Hy]].
    assert (y = x) by (apply Hinj; [now right|now left|exact Ey]). subst y. contradiction.
  - apply IH. intros a b Ha Hb. apply Hinj; now right.
Qed.

Lemma ht_nodup_snd_filter {A B} (g : A * B -> bool) (r : list (A * B)) :
  NoDup (map snd r) -> NoDup (map snd (filter g r)).
Proof.
  induction r as [|x r IH]; intros H; [constructor|].
  cbn [map] in H. inversion H as [|? ? Hx Hr]; subst.
  cbn [filter]. destruct (g x); [|now apply IH].
  cbn [map]. constructor; [|now apply IH].
  intros Hin. apply Hx. apply in_map_iff in Hin. destruct Hin as [y [Ey Hy]].
  apply filter_In in Hy. apply in_map_iff. exists y. tauto.
Qed.

(** * The invariant and the abstraction, generic in the home-slot function *)

Lemma ht_match_live hv s : ht_match hv s = true -> ht_live s = true.
Proof.
  destruct s as [o r k x]; unfold ht_match, ht_live; cbn [hs_occ hs_rd hs_key hs_val].
  destruct o, r; cbn [andb]; congruence.
Qed.

Section Refine.
  Variable n : nat.
  Variable home : N -> nat.
  Hypothesis home_lt : forall hv, home hv < n.

  (** The live values stored under hash [hv], in probe order from its home slot —
      over the WHOLE turn, not only the occupied prefix. *)
  Definition ht_abs_sl (sl : list ht_slot) (hv : N) : list N :=
    map hs_val (filter (ht_match hv) (ht_probe n (home hv) sl)).

  Definition ht_inv_sl (sl : list ht_slot) : Prop :=
    length sl = n /\
    (forall p, p < n -> hs_rd (ht_at sl p) = true -> hs_occ (ht_at sl p) = true) /\
    (forall hv k, k < n -> ht_match hv (ht_at sl (ht_pp n (home hv) k)) = true ->
       forall j, j < k -> hs_occ (ht_at sl (ht_pp n (home hv) j)) = true).

  Lemma ht_inv_sl_empty : ht_inv_sl (repeat ht_slot0 n).
  Proof.
    split; [apply repeat_length|]. split.
    - intros p _. rewrite ht_at_repeat. discriminate.
    - intros hv k _. rewrite ht_at_repeat. discriminate.
  Qed.

  Lemma ht_abs_sl_empty hv : ht_abs_sl (repeat ht_slot0 n) hv = [].
  Proof.
    unfold ht_abs_sl. rewrite ht_filter_none; [reflexivity|].
    intros x Hx. unfold ht_probe in Hx. apply in_map_iff in Hx. destruct Hx as [k [Ek _]].
    rewrite ht_at_repeat in Ek. now subst x.
  Qed.

  (** GetValue is the abstraction. *)
  Lemma ht_get_sl_correct sl hv :
    ht_inv_sl sl ->
    ht_get_loop n n (home hv) (home hv) hv sl = Some (ht_abs_sl sl hv).
  Proof.
    intros [Hlen [Hwf Hreach]]. rewrite ht_get_loop_probe by apply home_lt.
    f_equal. unfold ht_abs_sl. apply ht_lget_reach.
    rewrite ht_probe_length. intros k Hk Hm j Hj.
    rewrite ht_probe_nth in * by lia. eapply Hreach; eassumption.
  Qed.

  (** Membership: every live slot anywhere in the table whose stored hash is [hv]
      contributes — tombstones in front of it do not hide it. *)
  Lemma ht_abs_sl_in sl hv v :
    In v (ht_abs_sl sl hv) <->
    exists p, p < n /\ ht_match hv (ht_at sl p) = true /\ hs_val (ht_at sl p) = v.
  Proof.
    unfold ht_abs_sl, ht_probe. rewrite in_map_iff. split.
    - intros [s [Ev Hs]]. apply filter_In in Hs. destruct Hs as [Hs Hm].
      apply in_map_iff in Hs. destruct Hs as [k [Ek Hk]]. apply in_seq in Hk.
      exists (ht_pp n (home hv) k). subst s. split; [apply ht_pp_lt; [apply home_lt|lia]|]. tauto.
    - intros [p [Hp [Hm Ev]]]. exists (ht_at sl p). split; [exact Ev|].
      apply filter_In. split; [|exact Hm]. apply in_map_iff.
      destruct (ht_pp_pidx n (home hv) p (home_lt hv) Hp) as [E1 E2].
      exists (ht_pidx n (home hv) p). rewrite E1. split; [reflexivity|]. apply in_seq. lia.
  Qed.

  (** ** Insert *)

  Definition ht_new_slot (hv v : N) : ht_slot := mk_ht_slot true true hv v.

  Lemma ht_inv_sl_insert sl hv v k' :
    ht_inv_sl sl -> k' < n ->
    (forall j, j < k' -> ht_pass v (ht_at sl (ht_pp n (home hv) j))) ->
    ht_inv_sl (ht_upd (ht_pp n (home hv) k') (fun _ => ht_new_slot hv v) sl).
  Proof.
    intros [Hlen [Hwf Hreach]] Hk' Hpre.
    assert (Hp : ht_pp n (home hv) k' < length sl)
      by (rewrite Hlen; apply ht_pp_lt; [apply home_lt|lia]).
    split; [now rewrite ht_upd_length|]. split.
    - intros p Hpn. rewrite ht_at_upd by exact Hp.
      destruct (p =? ht_pp n (home hv) k'); [reflexivity|]. now apply Hwf.
    - intros hv2 k Hk Hm j Hj. rewrite ht_at_upd in * by exact Hp.
      destruct (ht_pp n (home hv2) j =? ht_pp n (home hv) k') eqn:Ej; [reflexivity|].
      destruct (ht_pp n (home hv2) k =? ht_pp n (home hv) k') eqn:Ek.
      + unfold ht_match, ht_new_slot in Hm. cbn in Hm.
        assert (hv = hv2) by lia. subst hv2.
        assert (k = k').
        { apply (ht_pp_inj n (home hv)); try lia. apply home_lt. }
        subst k'. destruct (Hpre j Hj) as [Hl _]. unfold ht_live in Hl.
        apply andb_true_iff in Hl. tauto.
      + eapply Hreach; eassumption.
  Qed.

  Lemma ht_abs_sl_insert_other sl hv v p hv' :
    length sl = n -> p < n -> ht_live (ht_at sl p) = false -> hv' <> hv ->
    ht_abs_sl (ht_upd p (fun _ => ht_new_slot hv v) sl) hv' = ht_abs_sl sl hv'.
  Proof.
    intros Hlen Hp Hnl Hne. unfold ht_abs_sl, ht_probe. f_equal.
    apply ht_filter_map_ext. intros k _. rewrite ht_at_upd by lia.
    destruct (ht_pp n (home hv') k =? p) eqn:E; [right|now left].
    apply Nat.eqb_eq in E. rewrite E. split.
    - unfold ht_match, ht_new_slot. cbn. lia.
    - destruct (ht_match hv' (ht_at sl p)) eqn:Em; [|reflexivity].
      apply ht_match_live in Em. congruence.
  Qed.

  Lemma ht_seq_split k' : k' < n -> seq 0 n = seq 0 k' ++ k' :: seq (S k') (n - S k').
  Proof.
    intros Hk. replace n with (k' + S (n - S k')) at 1 by lia.
    rewrite seq_app. reflexivity.
  Qed.

  Lemma ht_abs_sl_insert_same sl hv v k' :
    ht_inv_sl sl -> k' < n -> ht_live (ht_at sl (ht_pp n (home hv) k')) = false ->
    exists l1 l2,
      ht_abs_sl sl hv = l1 ++ l2 /\
      ht_abs_sl (ht_upd (ht_pp n (home hv) k') (fun _ => ht_new_slot hv v) sl) hv = l1 ++ v :: l2 /\
      (hs_occ (ht_at sl (ht_pp n (home hv) k')) = false -> l2 = []).
  Proof.
    intros [Hlen [Hwf Hreach]] Hk' Hnl.
    set (p := ht_pp n (home hv) k') in *.
    assert (Hp : p < length sl) by (rewrite Hlen; apply ht_pp_lt; [apply home_lt|lia]).
    set (f := fun k => ht_at sl (ht_pp n (home hv) k)).
    set (f' := fun k => ht_at (ht_upd p (fun _ => ht_new_slot hv v) sl) (ht_pp n (home hv) k)).
    exists (map hs_val (filter (ht_match hv) (map f (seq 0 k')))),
           (map hs_val (filter (ht_match hv) (map f (seq (S k') (n - S k'))))).
    assert (Hsame : forall k, k < n -> k <> k' -> f' k = f k).
    { intros k Hk Hne. unfold f', f. rewrite ht_at_upd by exact Hp.
      destruct (ht_pp n (home hv) k =? p) eqn:E; [|reflexivity].
      apply Nat.eqb_eq in E. exfalso. apply Hne.
      apply (ht_pp_inj n (home hv)); try lia. apply home_lt. }
    assert (Hold : ht_match hv (f k') = false).
    { destruct (ht_match hv (f k')) eqn:Em; [|reflexivity].
      apply ht_match_live in Em. unfold f in Em. fold p in Em. congruence. }
    assert (Hnew : f' k' = ht_new_slot hv v).
    { unfold f'. fold p. rewrite ht_at_upd by exact Hp. now rewrite Nat.eqb_refl. }
    unfold ht_abs_sl, ht_probe. fold f f'. rewrite (ht_seq_split k' Hk').
    rewrite !map_app, !filter_app, !map_app. cbn [map filter].
    rewrite Hold, Hnew.
    assert (Hmn : ht_match hv (ht_new_slot hv v) = true)
      by (unfold ht_match, ht_new_slot; cbn; lia).
    rewrite Hmn. cbn [map app].
    rewrite (map_ext_in f' f (seq 0 k'))
      by (intros k Hk; apply in_seq in Hk; apply Hsame; lia).
    rewrite (map_ext_in f' f (seq (S k') (n - S k')))
      by (intros k Hk; apply in_seq in Hk; apply Hsame; lia).
    split; [reflexivity|]. split; [reflexivity|].
    intros Hocc. rewrite ht_filter_none; [reflexivity|].
    intros x Hx. apply in_map_iff in Hx. destruct Hx as [k [Ek Hk]]. apply in_seq in Hk.
    destruct (ht_match hv x) eqn:Em; [|reflexivity]. subst x. unfold f in Em.
    assert (Ho := Hreach hv k ltac:(lia) Em k' ltac:(lia)). fold p in Ho. congruence.
  Qed.

  (** One Insert from any state satisfying the invariant. *)
  Lemma ht_insert_sl_spec sl hv v :
    ht_inv_sl sl ->
    match ht_insert_loop n n (home hv) (home hv) hv v sl with
    | (sl', HtInserted p) =>
        ht_inv_sl sl' /\ p < n /\ ht_live (ht_at sl p) = false /\
        sl' = ht_upd p (fun _ => ht_new_slot hv v) sl /\
        (exists l1 l2, ht_abs_sl sl hv = l1 ++ l2 /\ ht_abs_sl sl' hv = l1 ++ v :: l2 /\
                       (hs_occ (ht_at sl p) = false -> l2 = [])) /\
        (forall hv', hv' <> hv -> ht_abs_sl sl' hv' = ht_abs_sl sl hv')
    | (sl', HtDuplicate p) =>
        sl' = sl /\ p < n /\ ht_live (ht_at sl p) = true /\ hs_val (ht_at sl p) = v
    | (sl', HtFull) =>
        sl' = sl /\ forall p, p < n -> ht_live (ht_at sl p) = true /\ hs_val (ht_at sl p) <> v
    | (_, HtInsFuel) => False
    end.
  Proof.
    intros Hinv. assert (Hinv' := Hinv). destruct Hinv' as [Hlen [Hwf Hreach]].
    assert (Hh := home_lt hv).
    assert (Hspec := ht_insert_loop_spec n (home hv) hv v sl Hh Hlen n 0 ltac:(lia) ltac:(lia)
                       ltac:(intros j Hj; lia)).
    rewrite (ht_pp_0 n (home hv) Hh) in Hspec.
    destruct (ht_insert_loop n n (home hv) (home hv) hv v sl) as [sl' [p|p| |]].
    - destruct Hspec as [k' [Hk' [Ep [Hnl [Esl Hpre]]]]]. subst p sl'.
      assert (Hp : ht_pp n (home hv) k' < n) by (apply ht_pp_lt; lia).
      split; [apply ht_inv_sl_insert; assumption|].
      split; [exact Hp|]. split; [exact Hnl|]. split; [reflexivity|]. split.
      + apply ht_abs_sl_insert_same; assumption.
      + intros hv' Hne. apply ht_abs_sl_insert_other; assumption.
    - destruct Hspec as [E [k' [Hk' [Ep [Hl [Ev _]]]]]]. subst p.
      split; [exact E|]. split; [apply ht_pp_lt; lia|]. split; assumption.
    - destruct Hspec as [E Hall]. split; [exact E|]. intros p Hp.
      destruct (ht_pp_pidx n (home hv) p Hh Hp) as [E1 E2].
      destruct (Hall _ E2) as [Hl Hv]. rewrite E1 in Hl, Hv. split; [exact Hl|].
      now apply N.eqb_neq.
    - exact Hspec.
  Qed.

  (** ** Remove *)

  Lemma ht_remove_sl_spec sl hv v :
    ht_inv_sl sl ->
    ht_remove_loop n n (home hv) (home hv) hv v sl = Some (map (ht_clr hv v) sl).
  Proof.
    intros [Hlen [Hwf Hreach]]. assert (Hh := home_lt hv).
    destruct (ht_remove_loop_spec n (home hv) hv v Hh n 0 sl Hlen ltac:(lia) ltac:(lia))
      as [sl' [K [Hr [Hl' [HK [Hocc [Hstop Hpt]]]]]]].
    rewrite (ht_pp_0 n (home hv) Hh) in Hr. rewrite Hr. f_equal.
    apply ht_slots_ext; [now rewrite map_length, Hl', Hlen|].
    rewrite Hl'. intros p Hp. rewrite (Hpt p Hp), ht_at_map by apply ht_clr_slot0.
    destruct (ht_pp_pidx n (home hv) p Hh Hp) as [E1 E2].
    destruct ((0 <=? ht_pidx n (home hv) p) && (ht_pidx n (home hv) p <? K)) eqn:E.
    - apply ht_rm1_clr.
    - unfold ht_clr.
      destruct (ht_match hv (ht_at sl p) && (hs_val (ht_at sl p) =? v)%N) eqn:Em; [|reflexivity].
      exfalso. apply andb_true_iff in Em. destruct Em as [Hm _].
      assert (HKn : K < n) by lia. specialize (Hstop HKn).
      destruct (Nat.eq_dec (ht_pidx n (home hv) p) K) as [EK|NK].
      + rewrite <- EK, E1 in Hstop. unfold ht_match in Hm. rewrite Hstop in Hm. discriminate.
      + rewrite <- E1 in Hm.
        assert (Ho := Hreach hv _ E2 Hm K ltac:(lia)). congruence.
  Qed.

  Lemma ht_clr_match hv v hv' s :
    ht_match hv' (ht_clr hv v s) =
    ht_match hv' s && negb ((hv' =? hv)%N && (hs_val s =? v)%N).
  Proof.
    unfold ht_clr, ht_match. destruct s as [o r k x]; cbn.
    destruct o, r, (k =? hv)%N eqn:E1, (x =? v)%N, (k =? hv')%N eqn:E2, (hv' =? hv)%N eqn:E3;
      cbn; try reflexivity; lia.
  Qed.

  Lemma ht_clr_val hv v s : hs_val (ht_clr hv v s) = hs_val s.
  Proof. unfold ht_clr. destruct (_ && _)%bool; reflexivity. Qed.

  Lemma ht_inv_sl_remove sl hv v : ht_inv_sl sl -> ht_inv_sl (map (ht_clr hv v) sl).
  Proof.
    intros [Hlen [Hwf Hreach]].
    assert (Hocc : forall q, hs_occ (ht_at (map (ht_clr hv v) sl) q) = hs_occ (ht_at sl q)).
    { intros q. rewrite ht_at_map by apply ht_clr_slot0. rewrite <- ht_rm1_clr. apply ht_rm1_occ. }
    split; [now rewrite map_length|]. split.
    - intros p Hp. rewrite Hocc. rewrite ht_at_map by apply ht_clr_slot0.
      intros Hr. apply Hwf; [exact Hp|]. unfold ht_clr in Hr.
      destruct (_ && _)%bool; [discriminate|exact Hr].
    - intros hv' k Hk Hm j Hj. rewrite Hocc. rewrite ht_at_map in Hm by apply ht_clr_slot0.
      rewrite ht_clr_match in Hm. eapply Hreach; [exact Hk| |exact Hj].
      apply andb_true_iff in Hm. tauto.
  Qed.

  Lemma ht_probe_map g s sl :
    g ht_slot0 = ht_slot0 -> ht_probe n s (map g sl) = map g (ht_probe n s sl).
  Proof.
    intros Hg. unfold ht_probe. rewrite map_map. apply map_ext. intros k. now apply ht_at_map.
  Qed.

  Lemma ht_abs_sl_remove sl hv v hv' :
    ht_abs_sl (map (ht_clr hv v) sl) hv' =
    if (hv' =? hv)%N then filter (fun x => negb (x =? v)%N) (ht_abs_sl sl hv) else ht_abs_sl sl hv'.
  Proof.
    unfold ht_abs_sl. rewrite ht_probe_map by apply ht_clr_slot0.
    destruct (hv' =? hv)%N eqn:E.
    - apply N.eqb_eq in E. subst hv'.
      induction (ht_probe n (home hv) sl) as [|s r IH]; [reflexivity|].
      cbn [map filter]. rewrite ht_clr_match, N.eqb_refl. cbn [andb].
      destruct (ht_match hv s); cbn [andb map filter].
      + destruct (hs_val s =? v)%N; cbn [negb map]; [exact IH|].
        rewrite ht_clr_val. f_equal. exact IH.
      + exact IH.
    - induction (ht_probe n (home hv') sl) as [|s r IH]; [reflexivity|].
      cbn [map filter]. rewrite ht_clr_match, E. cbn [andb negb]. rewrite andb_true_r.
      destruct (ht_match hv' s); cbn [map]; [rewrite ht_clr_val; f_equal|]; exact IH.
  Qed.

  (** ** The live pairs as a bag *)

  Lemma ht_probe_perm s sl : s < n -> length sl = n -> Permutation (ht_probe n s sl) sl.
  Proof.
    intros Hs Hlen.
    assert (E0 : ht_probe n 0 sl = sl).
    { apply ht_slots_ext; [now rewrite ht_probe_length|].
      rewrite ht_probe_length. intros p Hp. unfold ht_at at 1. rewrite ht_probe_nth by exact Hp.
      f_equal. ht_arith. }
    rewrite <- E0 at 2. unfold ht_probe.
    rewrite <- (map_map (ht_pp n s) (ht_at sl)), <- (map_map (ht_pp n 0) (ht_at sl)).
    apply Permutation_map.
    rewrite (map_ext_in (ht_pp n 0) (fun k => k)), map_id
      by (intros k Hk; apply in_seq in Hk; ht_arith).
    apply NoDup_Permutation_bis.
    - apply ht_nodup_map_in; [apply seq_NoDup|].
      intros x y Hx Hy. apply in_seq in Hx, Hy. apply ht_pp_inj; lia.
    - rewrite map_length. lia.
    - intros x Hx. apply in_map_iff in Hx. destruct Hx as [k [Ek Hk]]. apply in_seq in Hk.
      apply in_seq. subst x. assert (ht_pp n s k < n) by (apply ht_pp_lt; lia). lia.
  Qed.

  Lemma ht_ref_get_live_pairs hv r :
    ht_ref_get hv (ht_live_pairs r) = map hs_val (filter (ht_match hv) r).
  Proof.
    unfold ht_ref_get, ht_live_pairs. induction r as [|s r IH]; [reflexivity|].
    cbn [filter]. unfold ht_match at 1, ht_live at 1.
    destruct (hs_occ s && hs_rd s); cbn [andb map filter fst]; [|exact IH].
    destruct (hs_key s =? hv)%N; cbn [map snd]; [f_equal|]; exact IH.
  Qed.

  Lemma ht_abs_sl_perm sl hv :
    length sl = n -> Permutation (ht_abs_sl sl hv) (ht_ref_get hv (ht_live_pairs sl)).
  Proof.
    intros Hlen. rewrite ht_ref_get_live_pairs. unfold ht_abs_sl.
    apply Permutation_map, ht_perm_filter, ht_probe_perm; [apply home_lt|exact Hlen].
  Qed.

  Lemma ht_live_pairs_app a b : ht_live_pairs (a ++ b) = ht_live_pairs a ++ ht_live_pairs b.
  Proof. unfold ht_live_pairs. now rewrite filter_app, map_app. Qed.

  Lemma ht_live_pairs_insert sl hv v p :
    p < length sl -> ht_live (ht_at sl p) = false ->
    Permutation (ht_live_pairs (ht_upd p (fun _ => ht_new_slot hv v) sl))
                ((hv, v) :: ht_live_pairs sl).
  Proof.
    intros Hp Hnl. destruct (ht_upd_split p (fun _ => ht_new_slot hv v) sl Hp) as [E1 E2].
    rewrite E2. rewrite E1 at 3. rewrite !ht_live_pairs_app.
    change (ht_live_pairs (ht_new_slot hv v :: skipn (S p) sl))
      with ((hv, v) :: ht_live_pairs (skipn (S p) sl)).
    assert (E3 : ht_live_pairs (ht_at sl p :: skipn (S p) sl) = ht_live_pairs (skipn (S p) sl)).
    { unfold ht_live_pairs. cbn [filter]. now rewrite Hnl. }
    rewrite E3. apply Permutation_sym, Permutation_middle.
  Qed.

  Lemma ht_live_pairs_remove sl hv v :
    ht_live_pairs (map (ht_clr hv v) sl) =
    filter (fun e => negb (ht_pair_eqb (hv, v) e)) (ht_live_pairs sl).
  Proof.
    unfold ht_live_pairs. induction sl as [|s r IH]; [reflexivity|].
    cbn [map filter].
    assert (Hl : ht_live (ht_clr hv v s) =
                 ht_live s && negb (ht_pair_eqb (hv, v) (hs_key s, hs_val s))).
    { destruct s as [o rd k x]. unfold ht_clr, ht_match, ht_live, ht_pair_eqb.
      cbn [hs_occ hs_rd hs_key hs_val fst snd].
      rewrite (N.eqb_sym hv k), (N.eqb_sym v x).
      destruct o, rd, (k =? hv)%N, (x =? v)%N; reflexivity. }
    assert (Hkv : (hs_key (ht_clr hv v s), hs_val (ht_clr hv v s)) = (hs_key s, hs_val s)).
    { unfold ht_clr. destruct (ht_match hv s && (hs_val s =? v)%N); reflexivity. }
    rewrite Hl. destruct (ht_live s); cbn [andb map filter].
    - destruct (ht_pair_eqb (hv, v) (hs_key s, hs_val s)); cbn [negb map];
        [exact IH|rewrite Hkv; f_equal; exact IH].
    - exact IH.
  Qed.

  Lemma ht_all_live_count sl :
    length sl = n -> (forall p, p < n -> ht_live (ht_at sl p) = true) ->
    length (ht_live_pairs sl) = n.
  Proof.
    intros Hlen Hall. unfold ht_live_pairs. rewrite map_length, ht_filter_all; [exact Hlen|].
    intros x Hx. destruct (In_nth sl x ht_slot0 Hx) as [p [Hp Ep]].
    rewrite <- Ep. apply Hall. lia.
  Qed.

  Lemma ht_live_pair_in sl p :
    p < length sl -> ht_live (ht_at sl p) = true ->
    In (hs_key (ht_at sl p), hs_val (ht_at sl p)) (ht_live_pairs sl).
  Proof.
    intros Hp Hl. unfold ht_live_pairs. apply in_map_iff. exists (ht_at sl p).
    split; [reflexivity|]. apply filter_In. split; [apply nth_In; exact Hp|exact Hl].
  Qed.
End Refine.

(** A present pair is refused when no tombstone lies on the probe path — stated
    for tombstone-free tables. *)
Section Refine2.
  Variable n : nat.
  Variable home : N -> nat.
  Hypothesis home_lt : forall hv, home hv < n.

  Lemma ht_insert_sl_present_refused sl hv v :
    ht_inv_sl n home sl ->
    (forall p, p < n -> ht_tomb (ht_at sl p) = false) ->
    (exists p, p < n /\ ht_match hv (ht_at sl p) = true /\ hs_val (ht_at sl p) = v) ->
    exists q, ht_insert_loop n n (home hv) (home hv) hv v sl = (sl, HtDuplicate q).
  Proof.
    intros [Hlen [Hwf Hreach]] Hnt [p [Hp [Hm Hv]]].
    assert (Hh := home_lt hv).
    destruct (ht_pp_pidx n (home hv) p Hh Hp) as [E1 E2].
    set (k := ht_pidx n (home hv) p) in *.
    assert (Hlive : forall j, j <= k -> ht_live (ht_at sl (ht_pp n (home hv) j)) = true).
    { intros j Hj. destruct (Nat.eq_dec j k) as [->|Hne].
      - rewrite E1. now apply ht_match_live in Hm.
      - assert (Ho : hs_occ (ht_at sl (ht_pp n (home hv) j)) = true).
        { apply (Hreach hv k E2); [rewrite E1; exact Hm|lia]. }
        assert (Ht := Hnt (ht_pp n (home hv) j) ltac:(apply ht_pp_lt; lia)).
        unfold ht_tomb in Ht. unfold ht_live. rewrite Ho in *. cbn [andb] in *.
        destruct (hs_rd (ht_at sl (ht_pp n (home hv) j))); [reflexivity|discriminate]. }
    assert (Hnp : ~ ht_pass v (ht_at sl (ht_pp n (home hv) k))).
    { rewrite E1. intros [_ Hne]. rewrite Hv, N.eqb_refl in Hne. discriminate. }
    assert (Hspec := ht_insert_loop_spec n (home hv) hv v sl Hh Hlen n 0 ltac:(lia) ltac:(lia)
                       ltac:(intros j Hj; lia)).
    rewrite (ht_pp_0 n (home hv) Hh) in Hspec.
    destruct (ht_insert_loop n n (home hv) (home hv) hv v sl) as [sl' [q|q| |]].
    - exfalso. destruct Hspec as [k' [Hk' [Eq [Hnl [_ Hpre]]]]]. subst q.
      destruct (le_lt_dec k' k) as [Hle|Hgt].
      + rewrite (Hlive k' Hle) in Hnl. discriminate.
      + apply Hnp, Hpre, Hgt.
    - destruct Hspec as [E _]. subst sl'. now exists q.
    - exfalso. destruct Hspec as [_ Hall]. apply Hnp, Hall, E2.
    - contradiction.
  Qed.
End Refine2.

Lemma ht_count_lt_exists {A} (g : A -> bool) (d : A) l :
  length (filter g l) < length l -> exists p, p < length l /\ g (nth p l d) = false.
Proof.
  induction l as [|x l IH]; cbn [filter length]; [lia|].
  destruct (g x) eqn:E.
  - cbn [length]. intros H. destruct (IH ltac:(lia)) as [p [Hp Hg]].
    exists (S p). split; [lia|exact Hg].
  - intros _. exists 0. split; [lia|exact E].
Qed.

(** * Table level *)

Definition ht_inv (t : htable) : Prop :=
  0 < ht_nb t /\ 0 < ht_bsz t /\
  ht_inv_sl (ht_size t) (ht_home (ht_nb t) (ht_bsz t)) (ht_slots t).

(** The values stored under hash [hv], in probe order. *)
Definition ht_abs (t : htable) (hv : N) : list N :=
  ht_abs_sl (ht_size t) (ht_home (ht_nb t) (ht_bsz t)) (ht_slots t) hv.

Definition ht_same_shape (t' t : htable) : Prop :=
  ht_nb t' = ht_nb t /\ ht_bsz t' = ht_bsz t.

Lemma ht_inv_home t : ht_inv t -> forall hv, ht_home (ht_nb t) (ht_bsz t) hv < ht_size t.
Proof. intros [Hnb [Hb _]] hv. now apply ht_home_lt. Qed.

Lemma ht_empty_inv nb bsz : 0 < nb -> 0 < bsz -> ht_inv (ht_empty nb bsz).
Proof.
  intros Hnb Hb. split; [exact Hnb|]. split; [exact Hb|]. apply ht_inv_sl_empty.
Qed.

Lemma ht_empty_abs nb bsz hv : ht_abs (ht_empty nb bsz) hv = [].
Proof. apply ht_abs_sl_empty. Qed.

Lemma ht_get_correct t hv : ht_inv t -> ht_get hv t = Some (ht_abs t hv).
Proof.
  intros Hinv. unfold ht_get, ht_abs.
  apply ht_get_sl_correct; [apply ht_inv_home; exact Hinv|apply Hinv].
Qed.

Lemma ht_abs_in t hv v :
  ht_inv t ->
  (In v (ht_abs t hv) <->
   exists p, p < ht_size t /\ ht_match hv (ht_at (ht_slots t) p) = true /\
             hs_val (ht_at (ht_slots t) p) = v).
Proof. intros Hinv. apply ht_abs_sl_in, ht_inv_home, Hinv. Qed.

Lemma ht_eta t : mk_htable (ht_nb t) (ht_bsz t) (ht_slots t) = t.
Proof. destruct t; reflexivity. Qed.

Lemma ht_insert_spec t hv v :
  ht_inv t ->
  match ht_insert hv v t with
  | (t', HtInserted p) =>
      ht_same_shape t' t /\ ht_inv t' /\ p < ht_size t /\
      ht_live (ht_at (ht_slots t) p) = false /\
      ht_slots t' = ht_upd p (fun _ => ht_new_slot hv v) (ht_slots t) /\
      (exists l1 l2, ht_abs t hv = l1 ++ l2 /\ ht_abs t' hv = l1 ++ v :: l2 /\
                     (hs_occ (ht_at (ht_slots t) p) = false -> l2 = [])) /\
      (forall hv', hv' <> hv -> ht_abs t' hv' = ht_abs t hv')
  | (t', HtDuplicate p) =>
      t' = t /\ p < ht_size t /\ ht_live (ht_at (ht_slots t) p) = true /\
      hs_val (ht_at (ht_slots t) p) = v
  | (t', HtFull) =>
      t' = t /\ forall p, p < ht_size t ->
                  ht_live (ht_at (ht_slots t) p) = true /\ hs_val (ht_at (ht_slots t) p) <> v
  | (_, HtInsFuel) => False
  end.
Proof.
  intros Hinv. assert (Hh := ht_inv_home t Hinv). destruct Hinv as [Hnb [Hb Hsl]].
  unfold ht_insert.
  assert (Hspec := ht_insert_sl_spec (ht_size t) (ht_home (ht_nb t) (ht_bsz t)) Hh
                     (ht_slots t) hv v Hsl).
  destruct (ht_insert_loop (ht_size t) (ht_size t) (ht_home (ht_nb t) (ht_bsz t) hv)
              (ht_home (ht_nb t) (ht_bsz t) hv) hv v (ht_slots t)) as [sl' [p|p| |]].
  - destruct Hspec as [Hinv' [Hp [Hnl [Esl [Habs Hoth]]]]].
    split; [split; reflexivity|]. split; [split; [exact Hnb|split; [exact Hb|exact Hinv']]|].
    split; [exact Hp|]. split; [exact Hnl|]. split; [exact Esl|]. split; [exact Habs|exact Hoth].
  - destruct Hspec as [E Hrest]. subst sl'. rewrite ht_eta. split; [reflexivity|exact Hrest].
  - destruct Hspec as [E Hrest]. subst sl'. rewrite ht_eta. split; [reflexivity|exact Hrest].
  - exact Hspec.
Qed.

Lemma ht_remove_spec t hv v :
  ht_inv t ->
  exists t', ht_remove hv v t = Some t' /\ ht_same_shape t' t /\ ht_inv t' /\
    ht_slots t' = map (ht_clr hv v) (ht_slots t) /\
    forall hv', ht_abs t' hv' =
      if (hv' =? hv)%N then filter (fun x => negb (x =? v)%N) (ht_abs t hv) else ht_abs t hv'.
Proof.
  intros Hinv. assert (Hh := ht_inv_home t Hinv). destruct Hinv as [Hnb [Hb Hsl]].
  unfold ht_remove.
  rewrite (ht_remove_sl_spec (ht_size t) (ht_home (ht_nb t) (ht_bsz t)) Hh (ht_slots t) hv v Hsl).
  eexists. split; [reflexivity|]. split; [split; reflexivity|].
  split; [split; [exact Hnb|split; [exact Hb|]]|].
  - apply ht_inv_sl_remove; [exact Hh|exact Hsl].
  - split; [reflexivity|]. intros hv'. apply ht_abs_sl_remove. exact Hh.
Qed.

(** Remove of an absent pair is a no-op. *)
Lemma ht_remove_absent_noop t hv v :
  ht_inv t -> ~ In v (ht_abs t hv) -> ht_remove hv v t = Some t.
Proof.
  intros Hinv Hnin. destruct (ht_remove_spec t hv v Hinv) as [t' [Hr [[E1 E2] [_ [Esl _]]]]].
  rewrite Hr. f_equal. destruct t' as [nb' b' sl'], t as [nb b sl]. cbn in *. subst nb' b' sl'.
  f_equal. rewrite <- (map_id sl) at 2. apply map_ext_in. intros s Hs.
  unfold ht_clr. destruct (ht_match hv s && (hs_val s =? v)%N) eqn:Em; [|reflexivity].
  exfalso. apply Hnin. apply (ht_abs_in (mk_htable nb b sl) hv v Hinv).
  destruct (In_nth sl s ht_slot0 Hs) as [p [Hp Ep]].
  destruct Hinv as [_ [_ [Hlen _]]]. cbn in Hlen.
  apply andb_true_iff in Em. destruct Em as [Hm Hv]. apply N.eqb_eq in Hv.
  exists p. unfold ht_at. cbn [ht_slots]. rewrite Ep. split; [unfold ht_size; cbn; lia|]. tauto.
Qed.

(** Tombstones never hide live entries: after removing any pair, every OTHER
    live pair is still returned by GetValue. *)
Lemma ht_remove_keeps_others t hv v hv' v' :
  ht_inv t -> In v' (ht_abs t hv') -> (hv', v') <> (hv, v) ->
  exists t' l, ht_remove hv v t = Some t' /\ ht_get hv' t' = Some l /\ In v' l.
Proof.
  intros Hinv Hin Hne. destruct (ht_remove_spec t hv v Hinv) as [t' [Hr [_ [Hinv' [_ Habs]]]]].
  exists t', (ht_abs t' hv'). split; [exact Hr|]. split; [now apply ht_get_correct|].
  rewrite Habs. destruct (hv' =? hv)%N eqn:E; [|exact Hin].
  apply N.eqb_eq in E. subst hv'. apply filter_In. split; [exact Hin|].
  destruct (v' =? v)%N eqn:Ev; [|reflexivity]. apply N.eqb_eq in Ev. subst v'. congruence.
Qed.

(** In a table without tombstones (no Remove of a present pair has happened yet,
    or every tombstone has been reused) a present pair is refused. *)
Lemma ht_insert_present_refused_no_tombstone t hv v :
  ht_inv t ->
  (forall p, p < ht_size t -> ht_tomb (ht_at (ht_slots t) p) = false) ->
  In v (ht_abs t hv) ->
  exists q, ht_insert hv v t = (t, HtDuplicate q).
Proof.
  intros Hinv Hnt Hin. assert (Hh := ht_inv_home t Hinv).
  apply (ht_abs_in t hv v Hinv) in Hin. destruct Hinv as [_ [_ Hsl]].
  destruct (ht_insert_sl_present_refused (ht_size t) _ Hh (ht_slots t) hv v Hsl Hnt Hin) as [q Hq].
  exists q. unfold ht_insert. rewrite Hq. now rewrite ht_eta.
Qed.

(** Exactly when Insert drops the entry silently. *)
Lemma ht_insert_full_iff t hv v :
  ht_inv t ->
  (snd (ht_insert hv v t) = HtFull <->
   forall p, p < ht_size t ->
     ht_live (ht_at (ht_slots t) p) = true /\ hs_val (ht_at (ht_slots t) p) <> v).
Proof.
  intros Hinv. assert (Hspec := ht_insert_spec t hv v Hinv).
  destruct (ht_insert hv v t) as [t' [p|p| |]]; cbn [snd]; split; intros H; try discriminate;
    try reflexivity.
  - destruct Hspec as [_ [_ [Hp [Hnl _]]]]. destruct (H p Hp) as [Hl _]. congruence.
  - destruct Hspec as [_ [Hp [_ Hv]]]. destruct (H p Hp) as [_ Hne]. contradiction.
  - apply Hspec.
  - contradiction.
Qed.

(** The capacity condition: fewer live entries than slots. *)
Lemma ht_insert_not_full t hv v :
  ht_inv t -> ht_live_count t < ht_size t -> snd (ht_insert hv v t) <> HtFull.
Proof.
  intros Hinv Hc Hf0. destruct (ht_insert_full_iff t hv v Hinv) as [Hd _].
  assert (Hf := Hd Hf0). clear Hd.
  destruct Hinv as [_ [_ [Hlen _]]]. unfold ht_live_count in Hc. rewrite <- Hlen in Hc.
  destruct (ht_count_lt_exists ht_live ht_slot0 (ht_slots t) Hc) as [p [Hp Hg]].
  rewrite Hlen in Hp. destruct (Hf p Hp) as [Hl _]. unfold ht_at in Hl. congruence.
Qed.

(** A value not live anywhere in the table (under any hash) is accepted as
    long as one slot is not live. *)
Lemma ht_insert_accepts t hv v :
  ht_inv t -> ht_live_count t < ht_size t ->
  (forall p, p < ht_size t -> ht_live (ht_at (ht_slots t) p) = true ->
             hs_val (ht_at (ht_slots t) p) <> v) ->
  exists p, snd (ht_insert hv v t) = HtInserted p.
Proof.
  intros Hinv Hc Hfresh. assert (Hnf := ht_insert_not_full t hv v Hinv Hc).
  assert (Hspec := ht_insert_spec t hv v Hinv).
  destruct (ht_insert hv v t) as [t' [p|p| |]]; cbn [snd] in *.
  - now exists p.
  - exfalso. destruct Hspec as [_ [Hp [Hl Hv]]]. exact (Hfresh p Hp Hl Hv).
  - congruence.
  - contradiction.
Qed.

(** * Operation sequences *)

Definition ht_rel (t : htable) (r : ht_ref) : Prop :=
  ht_inv t /\ Permutation (ht_live_pairs (ht_slots t)) r.

(** Well-formed sequences: a value is inserted only while no live entry holds it
    (the index inserts a row id only when the row has no entry) and only while
    fewer than [n] entries are live. *)
Fixpoint ht_ops_ok (n : nat) (r : ht_ref) (ops : list ht_op) : Prop :=
  match ops with
  | [] => True
  | o :: rest =>
      match o with
      | HtIns hv v => ~ In v (map snd r) /\ length r < n
      | HtRem _ _ => True
      end /\ ht_ops_ok n (ht_ref_apply r o) rest
  end.

Lemma ht_rel_get t r hv :
  ht_rel t r ->
  exists l, ht_get hv t = Some l /\ l = ht_abs t hv /\ Permutation l (ht_ref_get hv r).
Proof.
  intros [Hinv Hperm]. exists (ht_abs t hv). split; [now apply ht_get_correct|].
  split; [reflexivity|].
  eapply Permutation_trans.
  - apply ht_abs_sl_perm; [apply ht_inv_home; exact Hinv|apply Hinv].
  - unfold ht_ref_get. apply Permutation_map, ht_perm_filter, Hperm.
Qed.

Lemma ht_rel_apply t r o n :
  ht_rel t r -> n = ht_size t -> ht_ops_ok n r [o] ->
  exists t', ht_apply t o = Some t' /\ ht_same_shape t' t /\ ht_rel t' (ht_ref_apply r o) /\
    match o with
    | HtIns hv v => exists p, snd (ht_insert hv v t) = HtInserted p
    | HtRem _ _ => True
    end.
Proof.
  intros [Hinv Hperm] -> [Hok _]. destruct o as [hv v|hv v]; cbn [ht_apply ht_ref_apply].
  - destruct Hok as [Hfresh Hlen].
    assert (Hlenp := Permutation_length Hperm).
    assert (Hspec := ht_insert_spec t hv v Hinv).
    assert (Hsz : length (ht_slots t) = ht_size t) by apply Hinv.
    destruct (ht_insert hv v t) as [t' [p|p| |]]; cbn [snd].
    + destruct Hspec as [Hsh [Hinv' [Hp [Hnl [Esl _]]]]].
      exists t'. split; [reflexivity|]. split; [exact Hsh|]. split; [|now exists p].
      split; [exact Hinv'|]. rewrite Esl.
      eapply Permutation_trans; [apply ht_live_pairs_insert; [lia|exact Hnl]|].
      now constructor.
    + exfalso. destruct Hspec as [_ [Hp [Hl Hv]]]. apply Hfresh.
      assert (Hin := ht_live_pair_in (ht_slots t) p ltac:(lia) Hl).
      apply (Permutation_in _ Hperm) in Hin. apply in_map_iff.
      eexists. split; [|exact Hin]. exact Hv.
    + exfalso. destruct Hspec as [_ Hall].
      assert (Hc := ht_all_live_count (ht_size t) (ht_slots t) Hsz (fun p Hp => proj1 (Hall p Hp))).
      lia.
    + contradiction.
  - destruct (ht_remove_spec t hv v Hinv) as [t' [Hr [Hsh [Hinv' [Esl _]]]]].
    exists t'. split; [exact Hr|]. split; [exact Hsh|]. split; [|exact I].
    split; [exact Hinv'|]. rewrite Esl, ht_live_pairs_remove. apply ht_perm_filter, Hperm.
Qed.

Lemma ht_run_from_refines ops : forall t r,
  ht_rel t r -> ht_ops_ok (ht_size t) r ops ->
  exists t', ht_run_from t ops = Some t' /\ ht_same_shape t' t /\
             ht_rel t' (fold_left ht_ref_apply ops r).
Proof.
  induction ops as [|o ops IH]; intros t r Hrel Hok.
  - exists t. split; [reflexivity|]. split; [split; reflexivity|exact Hrel].
  - destruct Hok as [Ho Hrest].
    destruct (ht_rel_apply t r o (ht_size t) Hrel eq_refl (conj Ho I))
      as [t1 [Ha [[S1 S2] [Hrel1 _]]]].
    cbn [ht_run_from fold_left]. rewrite Ha.
    assert (Hsz : ht_size t1 = ht_size t) by (unfold ht_size; now rewrite S1, S2).
    destruct (IH t1 (ht_ref_apply r o) Hrel1 ltac:(rewrite Hsz; exact Hrest))
      as [t' [Hr [[S3 S4] Hrel']]].
    exists t'. split; [exact Hr|]. split; [split; congruence|exact Hrel'].
Qed.

(** Values of the reference stay pairwise distinct along a well-formed sequence. *)
Lemma ht_ops_ok_nodup n ops : forall r,
  NoDup (map snd r) -> ht_ops_ok n r ops -> NoDup (map snd (fold_left ht_ref_apply ops r)).
Proof.
  induction ops as [|o ops IH]; intros r Hnd Hok; [exact Hnd|].
  destruct Hok as [Ho Hrest]. cbn [fold_left]. apply IH; [|exact Hrest].
  destruct o as [hv v|hv v]; cbn [ht_ref_apply].
  - cbn [map snd]. constructor; [apply Ho|exact Hnd].
  - now apply ht_nodup_snd_filter.
Qed.

Lemma ht_ref_get_nodup hv (r : ht_ref) : NoDup (map snd r) -> NoDup (ht_ref_get hv r).
Proof. unfold ht_ref_get. apply ht_nodup_snd_filter. Qed.

(** The refinement theorem. *)
Lemma ht_run_refines nb bsz ops :
  0 < nb -> 0 < bsz -> ht_ops_ok (nb * bsz) [] ops ->
  exists t, ht_run nb bsz ops = Some t /\ ht_inv t /\ ht_size t = nb * bsz /\
    forall hv, exists l,
      ht_get hv t = Some l /\ Permutation l (ht_ref_get hv (ht_ref_run ops)) /\ NoDup l.
Proof.
  intros Hnb Hb Hok.
  assert (Hrel0 : ht_rel (ht_empty nb bsz) []).
  { split; [now apply ht_empty_inv|]. unfold ht_empty, ht_live_pairs. cbn [ht_slots].
    rewrite ht_filter_none; [constructor|].
    intros x Hx. apply repeat_spec in Hx. now subst x. }
  destruct (ht_run_from_refines ops (ht_empty nb bsz) [] Hrel0 Hok) as [t [Hr [[S1 S2] Hrel]]].
  exists t. split; [exact Hr|]. split; [apply Hrel|].
  split; [unfold ht_size; rewrite S1, S2; reflexivity|].
  intros hv. destruct (ht_rel_get t _ hv Hrel) as [l [Hg [_ Hp]]].
  exists l. split; [exact Hg|]. split; [exact Hp|].
  apply (Permutation_NoDup (Permutation_sym Hp)).
  apply ht_ref_get_nodup. apply (ht_ops_ok_nodup (nb * bsz) ops []); [constructor|exact Hok].
Qed.

(** Every reachable table satisfies the invariant and no loop runs out of fuel —
    for ALL operation sequences, well-formed or not. *)
Lemma ht_run_from_inv ops : forall t,
  ht_inv t -> exists t', ht_run_from t ops = Some t' /\ ht_inv t' /\ ht_same_shape t' t.
Proof.
  induction ops as [|o ops IH]; intros t Hinv.
  - exists t. split; [reflexivity|]. split; [exact Hinv|split; reflexivity].
  - cbn [ht_run_from].
    assert (H1 : exists t1, ht_apply t o = Some t1 /\ ht_inv t1 /\ ht_same_shape t1 t).
    { destruct o as [hv v|hv v]; cbn [ht_apply].
      - assert (Hspec := ht_insert_spec t hv v Hinv).
        destruct (ht_insert hv v t) as [t' [p|p| |]].
        + exists t'. split; [reflexivity|]. split; apply Hspec.
        + destruct Hspec as [-> _]. exists t. split; [reflexivity|]. split; [exact Hinv|split; reflexivity].
        + destruct Hspec as [-> _]. exists t. split; [reflexivity|]. split; [exact Hinv|split; reflexivity].
        + contradiction.
      - destruct (ht_remove_spec t hv v Hinv) as [t' [Hr [Hsh [Hinv' _]]]].
        exists t'. split; [exact Hr|]. split; assumption. }
    destruct H1 as [t1 [Ha [Hinv1 [S1 S2]]]]. rewrite Ha.
    destruct (IH t1 Hinv1) as [t' [Hr [Hinv' [S3 S4]]]].
    exists t'. split; [exact Hr|]. split; [exact Hinv'|split; congruence].
Qed.

Lemma ht_run_inv nb bsz ops :
  0 < nb -> 0 < bsz ->
  exists t, ht_run nb bsz ops = Some t /\ ht_inv t /\
    forall hv, ht_get hv t = Some (ht_abs t hv).
Proof.
  intros Hnb Hb.
  destruct (ht_run_from_inv ops (ht_empty nb bsz) (ht_empty_inv nb bsz Hnb Hb)) as [t [Hr [Hinv _]]].
  exists t. split; [exact Hr|]. split; [exact Hinv|]. intros hv. now apply ht_get_correct.
Qed.

(** * The hash index *)

Definition ht_rid_ok (r : rid) : Prop := rid_ok (fst r) (snd r).

Lemma ht_unpack_rid_val r : ht_rid_ok r -> unpack64 (ht_rid_val r) = r.
Proof.
  intros H. unfold ht_rid_val. rewrite unpack_pack64 by exact H. now destruct r.
Qed.

Lemma ht_rid_val_inj r r' :
  ht_rid_ok r -> ht_rid_ok r' -> ht_rid_val r = ht_rid_val r' -> r = r'.
Proof.
  intros H H' E. rewrite <- (ht_unpack_rid_val r H), <- (ht_unpack_rid_val r' H'). now rewrite E.
Qed.

Lemma ht_rid_eqb_eq r r' : rid_eqb r r' = true <-> r = r'.
Proof.
  unfold rid_eqb. destruct r as [p s], r' as [p' s']. cbn [fst snd]. split.
  - intros H. apply andb_true_iff in H. destruct H as [H1 H2].
    apply Z.eqb_eq in H1. apply N.eqb_eq in H2. now subst.
  - intros H. inversion H. subst. now rewrite Z.eqb_refl, N.eqb_refl.
Qed.

Lemma ht_rid_val_eqb r r' :
  ht_rid_ok r -> ht_rid_ok r' -> (ht_rid_val r =? ht_rid_val r')%N = rid_eqb r r'.
Proof.
  intros H H'. destruct (rid_eqb r r') eqn:E.
  - apply ht_rid_eqb_eq in E. subst. apply N.eqb_refl.
  - apply N.eqb_neq. intros Ev. apply (ht_rid_val_inj r r' H H') in Ev.
    apply ht_rid_eqb_eq in Ev. congruence.
Qed.

Section IndexProofs.
  Variable K : Type.
  Variable h : K -> N.

  Let sameh : K -> K -> bool := ht_same_hash h.

  Definition ht_ix_key_of (o : ht_ix_op K) : K :=
    match o with HtIxIns k _ => k | HtIxDel k _ => k end.

  Definition ht_ix_keys (ops : list (ht_ix_op K)) : list K := map ht_ix_key_of ops.

  (** Well-formed index sequences: valid row ids; a row id is inserted only while
      it has no entry; fewer than [n] entries. *)
  Fixpoint ht_ix_ops_ok (same : K -> K -> bool) (n : nat) (m : ht_ixm K)
           (ops : list (ht_ix_op K)) : Prop :=
    match ops with
    | [] => True
    | o :: rest =>
        match o with
        | HtIxIns k r => ht_rid_ok r /\ ~ In r (map snd m) /\ length m < n
        | HtIxDel k r => ht_rid_ok r
        end /\ ht_ix_ops_ok same n (ht_ixm_apply K same m o) rest
    end.

  Definition ht_ix_lower_m (m : ht_ixm K) : ht_ref :=
    map (fun e => (h (fst e), ht_rid_val (snd e))) m.

  Definition ht_ixm_ok (m : ht_ixm K) : Prop := Forall (fun e => ht_rid_ok (snd e)) m.

  Lemma ht_ix_lower_delete m k r :
    ht_ixm_ok m -> ht_rid_ok r ->
    filter (fun e => negb (ht_pair_eqb (h k, ht_rid_val r) e)) (ht_ix_lower_m m) =
    ht_ix_lower_m (filter (fun e => negb (sameh k (fst e) && rid_eqb r (snd e))) m).
  Proof.
    intros Hm Hr. induction Hm as [|[k' r'] m Hr' _ IH]; [reflexivity|].
    cbn [ht_ix_lower_m map filter fst snd] in *. unfold ht_pair_eqb at 1. cbn [fst snd].
    rewrite (ht_rid_val_eqb r r' Hr Hr'). unfold sameh, ht_same_hash.
    destruct ((h k =? h k')%N && rid_eqb r r'); cbn [negb map fst snd]; [|f_equal]; exact IH.
  Qed.

  Lemma ht_ix_lower_ok n ops : forall m,
    ht_ixm_ok m -> ht_ix_ops_ok sameh n m ops ->
    ht_ops_ok n (ht_ix_lower_m m) (map (ht_ix_lower K h) ops) /\
    fold_left ht_ref_apply (map (ht_ix_lower K h) ops) (ht_ix_lower_m m) =
      ht_ix_lower_m (fold_left (ht_ixm_apply K sameh) ops m) /\
    ht_ixm_ok (fold_left (ht_ixm_apply K sameh) ops m).
  Proof.
    induction ops as [|o ops IH]; intros m Hm Hok.
    - split; [exact I|]. split; [reflexivity|exact Hm].
    - destruct Hok as [Ho Hrest]. cbn [map fold_left ht_ops_ok].
      assert (Hm' : ht_ixm_ok (ht_ixm_apply K sameh m o)).
      { destruct o as [k r|k r]; cbn [ht_ixm_apply].
        - constructor; [apply Ho|exact Hm].
        - unfold ht_ixm_ok in *. rewrite Forall_forall in *. intros e He.
          apply filter_In in He. apply Hm, He. }
      assert (Hstep : ht_ref_apply (ht_ix_lower_m m) (ht_ix_lower K h o) =
                      ht_ix_lower_m (ht_ixm_apply K sameh m o)).
      { destruct o as [k r|k r]; cbn [ht_ix_lower ht_ref_apply ht_ixm_apply].
        - reflexivity.
        - apply ht_ix_lower_delete; [exact Hm|exact Ho]. }
      rewrite Hstep. destruct (IH _ Hm' Hrest) as [H1 [H2 H3]].
      split; [split; [|exact H1]|split; [exact H2|exact H3]].
      destruct o as [k r|k r]; cbn [ht_ix_lower]; [|exact I].
      destruct Ho as [Hr [Hfresh Hlen]]. split.
      + unfold ht_ix_lower_m. rewrite map_map. cbn [snd]. intros Hin.
        apply in_map_iff in Hin. destruct Hin as [e [Ee He]]. apply Hfresh.
        apply in_map_iff. exists e. split; [|exact He].
        apply ht_rid_val_inj; [|exact Hr|exact Ee].
        unfold ht_ixm_ok in Hm. rewrite Forall_forall in Hm. now apply Hm.
      + unfold ht_ix_lower_m. now rewrite map_length.
  Qed.

  Lemma ht_ix_ops_ok_nodup n ops : forall m,
    NoDup (map snd m) -> ht_ix_ops_ok sameh n m ops ->
    NoDup (map snd (fold_left (ht_ixm_apply K sameh) ops m)).
  Proof.
    induction ops as [|o ops IH]; intros m Hnd Hok; [exact Hnd|].
    destruct Hok as [Ho Hrest]. cbn [fold_left]. apply IH; [|exact Hrest].
    destruct o as [k r|k r]; cbn [ht_ixm_apply].
    - cbn [map snd]. constructor; [apply Ho|exact Hnd].
    - now apply ht_nodup_snd_filter.
  Qed.

  Lemma ht_ix_lower_lookup k m :
    ht_ref_get (h k) (ht_ix_lower_m m) = map ht_rid_val (ht_ixm_lookup K sameh k m).
  Proof.
    unfold ht_ref_get, ht_ix_lower_m, ht_ixm_lookup. induction m as [|[k' r'] m IH]; [reflexivity|].
    cbn [map filter fst snd]. unfold sameh at 1, ht_same_hash. rewrite (N.eqb_sym (h k') (h k)).
    destruct (h k =? h k')%N; cbn [map snd]; [f_equal|]; exact IH.
  Qed.

  Lemma ht_ixm_lookup_ok same k m : ht_ixm_ok m -> Forall ht_rid_ok (ht_ixm_lookup K same k m).
  Proof.
    unfold ht_ixm_ok, ht_ixm_lookup. rewrite !Forall_forall. intros Hm r Hr.
    apply in_map_iff in Hr. destruct Hr as [e [Ee He]]. apply filter_In in He.
    subst r. apply Hm, He.
  Qed.

  Lemma ht_unpack_map l : Forall ht_rid_ok l -> map unpack64 (map ht_rid_val l) = l.
  Proof.
    induction 1 as [|r l Hr _ IH]; [reflexivity|]. cbn [map].
    now rewrite ht_unpack_rid_val, IH.
  Qed.

  (** The index as it is: a multimap MODULO the hash — ScanKey of [k] returns the
      row ids stored under every key with the hash of [k]; DeleteEntry of
      [(k, r)] deletes [r] under every such key. *)
  Lemma ht_index_refines_mod_hash nb bsz ops k :
    0 < nb -> 0 < bsz -> ht_ix_ops_ok sameh (nb * bsz) [] ops ->
    exists t l,
      ht_ix_run K h nb bsz ops = Some t /\ ht_inv t /\ ht_ix_scan K h k t = Some l /\
      Permutation l (ht_ixm_lookup K sameh k (ht_ixm_run K sameh ops)) /\ NoDup l.
  Proof.
    intros Hnb Hb Hok.
    destruct (ht_ix_lower_ok (nb * bsz) ops [] (Forall_nil _) Hok) as [Hok' [Hrun Hmok]].
    destruct (ht_run_refines nb bsz _ Hnb Hb Hok') as [t [Hr [Hinv [_ Hget]]]].
    destruct (Hget (h k)) as [l0 [Hg [Hp _]]].
    exists t, (map unpack64 l0). split; [exact Hr|]. split; [exact Hinv|].
    split; [unfold ht_ix_scan; now rewrite Hg|].
    unfold ht_ref_run in Hp. change (@nil (N * N)) with (ht_ix_lower_m []) in Hp.
    rewrite Hrun, ht_ix_lower_lookup in Hp.
    assert (Hp' : Permutation (map unpack64 l0)
                    (ht_ixm_lookup K sameh k (ht_ixm_run K sameh ops))).
    { rewrite <- (ht_unpack_map (ht_ixm_lookup K sameh k (ht_ixm_run K sameh ops))).
      - now apply Permutation_map.
      - apply ht_ixm_lookup_ok. exact Hmok. }
    split; [exact Hp'|]. apply (Permutation_NoDup (Permutation_sym Hp')).
    unfold ht_ixm_lookup. apply ht_nodup_snd_filter.
    apply (ht_ix_ops_ok_nodup (nb * bsz) ops []); [constructor|exact Hok].
  Qed.

  (** ** Agreement of two key equivalences on the keys in use *)

  Section Agree.
    Variable same1 same2 : K -> K -> bool.
    Variable S : K -> Prop.
    Hypothesis agree : forall a b, S a -> S b -> same1 a b = same2 a b.

    Lemma ht_ixm_apply_agree m o :
      (forall e, In e m -> S (fst e)) -> S (ht_ix_key_of o) ->
      ht_ixm_apply K same1 m o = ht_ixm_apply K same2 m o /\
      (forall e, In e (ht_ixm_apply K same1 m o) -> S (fst e)).
    Proof.
      intros Hm Ho. destruct o as [k r|k r]; cbn [ht_ixm_apply ht_ix_key_of] in *.
      - split; [reflexivity|]. intros e [<-|He]; [exact Ho|now apply Hm].
      - split.
        + apply filter_ext_in. intros e He. rewrite (agree k (fst e) Ho (Hm e He)). reflexivity.
        + intros e He. apply filter_In in He. apply Hm, He.
    Qed.

    Lemma ht_ix_agree n ops : forall m,
      (forall e, In e m -> S (fst e)) -> (forall o, In o ops -> S (ht_ix_key_of o)) ->
      fold_left (ht_ixm_apply K same1) ops m = fold_left (ht_ixm_apply K same2) ops m /\
      (ht_ix_ops_ok same2 n m ops -> ht_ix_ops_ok same1 n m ops) /\
      (forall e, In e (fold_left (ht_ixm_apply K same1) ops m) -> S (fst e)).
    Proof.
      induction ops as [|o ops IH]; intros m Hm Hops.
      - split; [reflexivity|]. split; [auto|exact Hm].
      - destruct (ht_ixm_apply_agree m o Hm (Hops o (or_introl eq_refl))) as [E1 E2].
        destruct (IH (ht_ixm_apply K same1 m o) E2 (fun o' Ho' => Hops o' (or_intror Ho')))
          as [F1 [F2 F3]].
        cbn [fold_left ht_ix_ops_ok]. split; [|split].
        + rewrite F1, E1. reflexivity.
        + intros [Ho Hrest]. split; [exact Ho|]. apply F2. rewrite E1. exact Hrest.
        + exact F3.
    Qed.

    Lemma ht_ixm_lookup_agree k m :
      S k -> (forall e, In e m -> S (fst e)) ->
      ht_ixm_lookup K same1 k m = ht_ixm_lookup K same2 k m.
    Proof.
      intros Hk Hm. unfold ht_ixm_lookup. f_equal. apply filter_ext_in.
      intros e He. apply agree; [exact Hk|now apply Hm].
    Qed.
  End Agree.

  (** The index is the multimap key -> row ids when the hash function is
      injective on the keys in use (the keys of the operations and the key
      looked up). *)
  Lemma ht_index_multimap_if_injective (keqb : K -> K -> bool) nb bsz ops k :
    (forall a b, keqb a b = true <-> a = b) ->
    0 < nb -> 0 < bsz ->
    (forall a b, In a (k :: ht_ix_keys ops) -> In b (k :: ht_ix_keys ops) -> h a = h b -> a = b) ->
    ht_ix_ops_ok keqb (nb * bsz) [] ops ->
    exists t l,
      ht_ix_run K h nb bsz ops = Some t /\ ht_ix_scan K h k t = Some l /\
      Permutation l (ht_ixm_lookup K keqb k (ht_ixm_run K keqb ops)) /\ NoDup l.
  Proof.
    intros Hkeqb Hnb Hb Hinj Hok.
    set (S := fun a => In a (k :: ht_ix_keys ops)).
    assert (Hagree : forall a b, S a -> S b -> sameh a b = keqb a b).
    { intros a b Ha Hb'. unfold sameh, ht_same_hash. destruct (keqb a b) eqn:E.
      - apply Hkeqb in E. subst b. apply N.eqb_refl.
      - apply N.eqb_neq. intros Eh. apply (Hinj a b Ha Hb') in Eh. apply Hkeqb in Eh. congruence. }
    assert (Hops : forall o, In o ops -> S (ht_ix_key_of o)).
    { intros o Ho. right. unfold ht_ix_keys. now apply in_map. }
    destruct (ht_ix_agree sameh keqb S Hagree (nb * bsz) ops []
                ltac:(intros e []) Hops) as [F1 [F2 F3]].
    destruct (ht_index_refines_mod_hash nb bsz ops k Hnb Hb (F2 Hok)) as [t [l [Hr [_ [Hs [Hp Hnd]]]]]].
    exists t, l. split; [exact Hr|]. split; [exact Hs|]. split; [|exact Hnd].
    unfold ht_ixm_run in *. rewrite <- F1.
    rewrite <- (ht_ixm_lookup_agree sameh keqb S Hagree k _ (or_introl eq_refl) F3). exact Hp.
  Qed.
End IndexProofs.

(** * Refuted statements *)

(** 1. "Insert of a present pair is refused": false when a tombstone precedes the
    pair on its probe path.  1 block of 4 slots; hashes 0 and 4 share home slot 0.
    Insert (0,100) -> slot 0; Insert (4,200) -> slot 1; Remove (0,100) -> slot 0 is a
    tombstone; Insert (4,200) stops at slot 0 and writes there. *)
Definition ht_insert_present_refused_stmt : Prop :=
  forall t hv v, ht_inv t -> In v (ht_abs t hv) ->
    ht_ins_stored (snd (ht_insert hv v t)) = false.

Definition ht_w1_ops : list ht_op := [HtIns 0 100; HtIns 4 200; HtRem 0 100].

Lemma ht_insert_present_refused_refuted_lemma : ~ ht_insert_present_refused_stmt.
Proof.
  intros H.
  destruct (ht_run_inv 1 4 ht_w1_ops ltac:(lia) ltac:(lia)) as [t [Hr [Hinv _]]].
  vm_compute in Hr. injection Hr as <-.
  specialize (H _ 4%N 200%N Hinv). vm_compute in H.
  assert (E := H (or_introl eq_refl)). discriminate.
Qed.

(** ... so GetValue can return a value twice. *)
Definition ht_get_nodup_stmt : Prop :=
  forall nb bsz ops t hv l, 0 < nb -> 0 < bsz ->
    ht_run nb bsz ops = Some t -> ht_get hv t = Some l -> NoDup l.

Lemma ht_get_nodup_refuted_lemma : ~ ht_get_nodup_stmt.
Proof.
  intros H.
  assert (E := H 1 4 (ht_w1_ops ++ [HtIns 4 200]) _ 4%N [200; 200]%N
                 ltac:(lia) ltac:(lia) eq_refl eq_refl).
  inversion E as [|? ? Hn _]. apply Hn. now left.
Qed.

(** 2. "A pair that is not present is accepted while the table has room": false —
    the refusal test compares the VALUE only.  Insert (0,7) -> slot 0; Insert (4,7)
    starts at slot 0, meets a live slot with value 7 and is refused. *)
Definition ht_insert_absent_accepted_stmt : Prop :=
  forall t hv v, ht_inv t -> ht_live_count t < ht_size t -> ~ In v (ht_abs t hv) ->
    ht_ins_stored (snd (ht_insert hv v t)) = true.

Lemma ht_insert_absent_accepted_refuted_lemma : ~ ht_insert_absent_accepted_stmt.
Proof.
  intros H.
  destruct (ht_run_inv 1 4 [HtIns 0 7] ltac:(lia) ltac:(lia)) as [t [Hr [Hinv _]]].
  vm_compute in Hr. injection Hr as <-.
  specialize (H _ 4%N 7%N Hinv). vm_compute in H.
  assert (E := H ltac:(lia) ltac:(intros [])). discriminate.
Qed.

(** 3. "No error means stored": false on a table whose slots are all live — the
    probe comes back to the home slot, the loop breaks and [err] is still nil. *)
Definition ht_insert_no_error_stored_stmt : Prop :=
  forall t hv v, ht_inv t ->
    ht_ins_err (snd (ht_insert hv v t)) = false ->
    In v (ht_abs (fst (ht_insert hv v t)) hv).

Lemma ht_insert_no_error_stored_refuted_lemma : ~ ht_insert_no_error_stored_stmt.
Proof.
  intros H.
  destruct (ht_run_inv 1 2 [HtIns 0 1; HtIns 1 2] ltac:(lia) ltac:(lia)) as [t [Hr [Hinv _]]].
  vm_compute in Hr. injection Hr as <-.
  specialize (H _ 2%N 3%N Hinv). vm_compute in H.
  destruct (H eq_refl).
Qed.

(** 4. The capacity condition of [ht_run_refines] is necessary. *)
Fixpoint ht_ops_fresh (r : ht_ref) (ops : list ht_op) : Prop :=
  match ops with
  | [] => True
  | o :: rest =>
      match o with
      | HtIns hv v => ~ In v (map snd r)
      | HtRem _ _ => True
      end /\ ht_ops_fresh (ht_ref_apply r o) rest
  end.

Definition ht_run_refines_without_capacity_stmt : Prop :=
  forall nb bsz ops, 0 < nb -> 0 < bsz -> ht_ops_fresh [] ops ->
    exists t, ht_run nb bsz ops = Some t /\
      forall hv, exists l, ht_get hv t = Some l /\
                           Permutation l (ht_ref_get hv (ht_ref_run ops)).

Lemma ht_run_refines_without_capacity_refuted_lemma : ~ ht_run_refines_without_capacity_stmt.
Proof.
  intros H.
  destruct (H 1 2 [HtIns 0 1; HtIns 1 2; HtIns 2 3] ltac:(lia) ltac:(lia)) as [t [Hr Hg]].
  { cbn. repeat split; intros Hc; repeat destruct Hc as [Hc|Hc]; try discriminate; auto. }
  vm_compute in Hr. injection Hr as <-.
  destruct (Hg 2%N) as [l [Hl Hp]]. vm_compute in Hl. injection Hl as <-.
  apply Permutation_length in Hp. vm_compute in Hp. discriminate.
Qed.

(** 5. The index is NOT a multimap key -> row ids when two keys in use have the
    same hash: ScanKey of one key returns the other key's row id too, and
    DeleteEntry through one key deletes the other key's entry. *)
Definition ht_index_is_multimap_stmt : Prop :=
  forall (K : Type) (h : K -> N) (keqb : K -> K -> bool) nb bsz ops k,
    (forall a b, keqb a b = true <-> a = b) -> 0 < nb -> 0 < bsz ->
    ht_ix_ops_ok K keqb (nb * bsz) [] ops ->
    exists t l, ht_ix_run K h nb bsz ops = Some t /\ ht_ix_scan K h k t = Some l /\
      Permutation l (ht_ixm_lookup K keqb k (ht_ixm_run K keqb ops)).

Definition ht_w5_h (k : N) : N := (k mod 8)%N.

Lemma ht_index_scan_collision_refuted_lemma : ~ ht_index_is_multimap_stmt.
Proof.
  intros H.
  destruct (H N ht_w5_h N.eqb 1 4 [HtIxIns 1%N (0%Z, 1%N); HtIxIns 9%N (0%Z, 2%N)] 1%N
              N.eqb_eq ltac:(lia) ltac:(lia)) as [t [l [Hr [Hs Hp]]]].
  { cbn. unfold ht_rid_ok, rid_ok, two32. cbn.
    repeat split; try lia; intros Hc; repeat destruct Hc as [Hc|Hc]; try discriminate; auto. }
  vm_compute in Hr. injection Hr as <-. vm_compute in Hs. injection Hs as <-.
  apply Permutation_length in Hp. vm_compute in Hp. discriminate.
Qed.

Lemma ht_index_delete_collision_refuted_lemma : ~ ht_index_is_multimap_stmt.
Proof.
  intros H.
  destruct (H N ht_w5_h N.eqb 1 4 [HtIxIns 1%N (0%Z, 1%N); HtIxDel 9%N (0%Z, 1%N)] 1%N
              N.eqb_eq ltac:(lia) ltac:(lia)) as [t [l [Hr [Hs Hp]]]].
  { cbn. unfold ht_rid_ok, rid_ok, two32. cbn.
    repeat split; try lia; intros Hc; repeat destruct Hc as [Hc|Hc]; try discriminate; auto. }
  vm_compute in Hr. injection Hr as <-. vm_compute in Hs. injection Hs as <-.
  apply Permutation_length in Hp. vm_compute in Hp. discriminate.
Qed.
