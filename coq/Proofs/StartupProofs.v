(** Proofs about the start-up sequence / LSN allocation model (Model/Startup.v),
    used by Props/C20Startup.v.

    Main result: for every configuration that scans the pages when the log
    holds no LSN (fix 44ca03e; in particular the current code [cfg_now]) the
    invariant [su_inv] holds in every state reachable from a fresh database by
    ANY event sequence — crashes at any I/O boundary, inside restarts, any
    number of times.  Its consequences: the LSN floor ([su_lsn_floor]), redo's
    LSN guard never skips a durable record whose effect is missing from the
    disk page ([su_redoable], [su_never_lost]), the redo pass restores every
    durable record ([su_redo_restores]).  The two repaired defects are
    machine-checked witnesses for the other configurations.
    Axiom-free; standard library only. *)
From Coq Require Import List NArith Bool Lia ZifyBool ZifyN ZifyNat.
From SDB Require Import Base.Assoc Model.Startup Proofs.LockProofs.
Import ListNotations.
Open Scope N_scope.

(* ------------------------------------------------------------------ *)
(** * Vocabulary of the statements *)

Definition su_lsn (m : st_pmap) (p : N) : N := st_plsn (st_getp m p).
Definition su_img (m : st_pmap) (p : N) : list N := st_pimg (st_getp m p).

(** [a] is below the counter [n]; in a fresh database before its first record both are 0 *)
Definition su_lt0 (a n : N) : Prop := a < n \/ (a = 0 /\ n = 0).

(** strictly increasing *)
Fixpoint su_incr (l : list N) : Prop :=
  match l with [] => True | x :: r => (forall y, In y r -> x < y) /\ su_incr r end.

(* ------------------------------------------------------------------ *)
(** * Generic facts *)

Lemma su_getp_set_same : forall m p x, st_getp (aset m p x) p = x.
Proof. intros m p x. unfold st_getp. rewrite aget_aset_same. reflexivity. Qed.

Lemma su_getp_set_other : forall m p q x, p <> q -> st_getp (aset m p x) q = st_getp m q.
Proof. intros m p q x Hne. unfold st_getp. rewrite aget_aset_other by exact Hne. reflexivity. Qed.

Lemma su_incr_app : forall a b,
  su_incr (a ++ b) <-> su_incr a /\ su_incr b /\ (forall x y, In x a -> In y b -> x < y).
Proof.
  induction a as [|x a IH]; intros b; cbn [app su_incr].
  - split.
    + intros H. split; [exact I|]. split; [exact H|]. intros x y [].
    + intros (_ & H & _). exact H.
  - rewrite IH. split.
    + intros (H1 & H2 & H3 & H4). split; [split; [|exact H2]|split; [exact H3|]].
      * intros y Hy. apply H1. apply in_or_app. left. exact Hy.
      * intros x0 y [E|Hx] Hy.
        -- subst x0. apply H1. apply in_or_app. right. exact Hy.
        -- apply H4; assumption.
    + intros ((H1 & H2) & H3 & H4). split; [|split; [exact H2|split; [exact H3|]]].
      * intros y Hy. apply in_app_or in Hy. destruct Hy as [Hy|Hy].
        -- apply H1. exact Hy.
        -- apply H4; [left; reflexivity|exact Hy].
      * intros x0 y Hx Hy. apply H4; [right; exact Hx|exact Hy].
Qed.

Lemma su_max_lsn_ge : forall l r, In r l -> st_rlsn r <= st_max_lsn l.
Proof.
  induction l as [|r0 l IH]; intros r Hin; [contradiction|].
  cbn [st_max_lsn fold_right]. fold (st_max_lsn l). destruct Hin as [E|Hin].
  - subst r0. lia.
  - specialize (IH r Hin). lia.
Qed.

Lemma su_max_lsn_hit : forall l, st_max_lsn l = 0 \/ exists r, In r l /\ st_rlsn r = st_max_lsn l.
Proof.
  induction l as [|r0 l IH]; [left; reflexivity|].
  cbn [st_max_lsn fold_right]. fold (st_max_lsn l).
  destruct (N.max_spec (st_rlsn r0) (st_max_lsn l)) as [[Hlt E]|[Hle E]]; rewrite E.
  - destruct IH as [IH|(r & Hin & Hr)]; [left; exact IH|].
    right. exists r. split; [right; exact Hin|exact Hr].
  - right. exists r0. split; [left; reflexivity|reflexivity].
Qed.

Lemma su_max_lsn_app : forall a b, st_max_lsn (a ++ b) = N.max (st_max_lsn a) (st_max_lsn b).
Proof.
  induction a as [|r a IH]; intros b; cbn [app].
  - cbn. lia.
  - cbn [st_max_lsn fold_right]. fold (st_max_lsn (a ++ b)). fold (st_max_lsn a). rewrite IH. lia.
Qed.

Lemma su_max_pages_ge : forall m p, su_lsn m p <= st_max_pages m.
Proof.
  unfold su_lsn, st_getp. induction m as [|[k v] m IH]; intros p; cbn [aget st_max_pages fold_right snd].
  - cbn. lia.
  - fold (st_max_pages m). destruct (k =? p).
    + lia.
    + specialize (IH p). lia.
Qed.

Lemma su_memN_In : forall x l, memN x l = true <-> In x l.
Proof.
  induction l as [|y l IH]; cbn [memN In].
  - split; [discriminate|contradiction].
  - rewrite orb_true_iff, IH, N.eqb_eq. reflexivity.
Qed.

(* ------------------------------------------------------------------ *)
(** * The redo pass, page by page *)

Definition su_redo1 (p : N) (pg : st_page) (r : st_rec) : st_page :=
  if st_rpage r =? st_nopage then pg
  else if st_rpage r =? p then
    (if st_plsn pg <? st_rlsn r then st_mkpage (st_rlsn r) (st_rid r :: st_pimg pg) else pg)
  else pg.
Definition su_redo_pg (p : N) (l : list st_rec) (pg : st_page) : st_page := fold_left (su_redo1 p) l pg.

Lemma su_redo_rec_at : forall m r p, st_getp (st_redo_rec m r) p = su_redo1 p (st_getp m p) r.
Proof.
  intros m r p. unfold st_redo_rec, su_redo1.
  destruct (st_rpage r =? st_nopage); [reflexivity|].
  destruct (N.eqb_spec (st_rpage r) p) as [E|E].
  - subst p. destruct (st_plsn (st_getp m (st_rpage r)) <? st_rlsn r); [apply su_getp_set_same|reflexivity].
  - destruct (st_plsn (st_getp m (st_rpage r)) <? st_rlsn r); [apply su_getp_set_other; exact E|reflexivity].
Qed.

Lemma su_redo_at : forall l m p, st_getp (st_redo l m) p = su_redo_pg p l (st_getp m p).
Proof.
  unfold st_redo, su_redo_pg. induction l as [|r l IH]; intros m p; cbn [fold_left]; [reflexivity|].
  rewrite IH, su_redo_rec_at. reflexivity.
Qed.

Lemma su_redo_pg_app : forall p a b pg, su_redo_pg p (a ++ b) pg = su_redo_pg p b (su_redo_pg p a pg).
Proof. intros p a b pg. unfold su_redo_pg. apply fold_left_app. Qed.

Lemma su_redo1_cases : forall p pg r,
  (su_redo1 p pg r = pg /\ (st_rpage r = p -> st_rpage r <> st_nopage -> st_rlsn r <= st_plsn pg)) \/
  (su_redo1 p pg r = st_mkpage (st_rlsn r) (st_rid r :: st_pimg pg) /\ st_rpage r = p /\ st_rpage r <> st_nopage /\ st_plsn pg < st_rlsn r).
Proof.
  intros p pg r. unfold su_redo1.
  destruct (N.eqb_spec (st_rpage r) st_nopage) as [En|En].
  - left. split; [reflexivity|]. intros _ Hn. contradiction.
  - destruct (N.eqb_spec (st_rpage r) p) as [E|E].
    + destruct (N.ltb_spec (st_plsn pg) (st_rlsn r)) as [Hlt|Hge].
      * right. repeat split; assumption.
      * left. split; [reflexivity|]. intros _ _. exact Hge.
    + left. split; [reflexivity|]. intros Hp. contradiction.
Qed.

Lemma su_redo_pg_mono : forall p l pg,
  (su_redo_pg p l pg = pg \/ st_plsn pg < st_plsn (su_redo_pg p l pg)) /\
  incl (st_pimg pg) (st_pimg (su_redo_pg p l pg)) /\
  (st_plsn (su_redo_pg p l pg) = st_plsn pg \/
   exists r, In r l /\ st_rpage r = p /\ st_plsn (su_redo_pg p l pg) = st_rlsn r).
Proof.
  intros p. induction l as [|r l IH]; intros pg.
  - cbn. split; [left; reflexivity|]. split; [apply incl_refl|left; reflexivity].
  - change (su_redo_pg p (r :: l) pg) with (su_redo_pg p l (su_redo1 p pg r)).
    destruct (IH (su_redo1 p pg r)) as (IH1 & IH2 & IH3).
    destruct (su_redo1_cases p pg r) as [[E _]|(E & Hp & Hn & Hlt)].
    + rewrite E in *. split; [exact IH1|]. split; [exact IH2|].
      destruct IH3 as [IH3|(r' & Hin & Hp' & Hl)]; [left; exact IH3|].
      right. exists r'. split; [right; exact Hin|split; assumption].
    + set (pg1 := su_redo1 p pg r) in *.
      assert (Hl1 : st_plsn pg1 = st_rlsn r) by (rewrite E; reflexivity).
      assert (Hi1 : incl (st_pimg pg) (st_pimg pg1)) by (rewrite E; cbn; apply incl_tl, incl_refl).
      split; [|split].
      * right. destruct IH1 as [IH1|IH1]; [rewrite IH1|]; lia.
      * eapply incl_tran; [exact Hi1|exact IH2].
      * right. destruct IH3 as [IH3|(r' & Hin & Hp' & Hl)].
        -- exists r. split; [left; reflexivity|]. split; [exact Hp|]. lia.
        -- exists r'. split; [right; exact Hin|split; assumption].
Qed.

Lemma su_redo_pg_le : forall p l pg, st_plsn pg <= st_plsn (su_redo_pg p l pg).
Proof. intros p l pg. destruct (su_redo_pg_mono p l pg) as ([E|H] & _); [rewrite E|]; lia. Qed.

(** after the pass the page LSN is at least the LSN of each of its records *)
Lemma su_redo_pg_absorb : forall p l pg r, In r l -> st_rpage r = p -> st_rpage r <> st_nopage ->
  st_rlsn r <= st_plsn (su_redo_pg p l pg).
Proof.
  intros p. induction l as [|r0 l IH]; intros pg r Hin Hp Hn; [contradiction|].
  change (su_redo_pg p (r0 :: l) pg) with (su_redo_pg p l (su_redo1 p pg r0)).
  destruct Hin as [E|Hin].
  - subst r0. pose proof (su_redo_pg_le p l (su_redo1 p pg r)) as Hle.
    destruct (su_redo1_cases p pg r) as [[E Hge]|(E & _)]; rewrite E in Hle |- *.
    + specialize (Hge Hp Hn). lia.
    + cbn in Hle. exact Hle.
  - apply IH; assumption.
Qed.

(** a page that already carries the LSNs of all its records is left alone *)
Lemma su_redo_pg_fix : forall p l pg,
  (forall r, In r l -> st_rpage r = p -> st_rpage r <> st_nopage -> st_rlsn r <= st_plsn pg) ->
  su_redo_pg p l pg = pg.
Proof.
  intros p. induction l as [|r0 l IH]; intros pg H; [reflexivity|].
  change (su_redo_pg p (r0 :: l) pg) with (su_redo_pg p l (su_redo1 p pg r0)).
  destruct (su_redo1_cases p pg r0) as [[E _]|(_ & Hp & Hn & Hlt)].
  - rewrite E. apply IH. intros r Hin. apply H. right. exact Hin.
  - specialize (H r0 (or_introl eq_refl) Hp Hn). lia.
Qed.

(** the guard is sound: over an increasing log, starting from a page for which every record is either
    newer than the page or already in it, after any prefix [a] of the log every record of the prefix is
    in the page, and every record of the whole log is newer than the page or in it *)
Lemma su_redo_pg_guard : forall p a b pg,
  su_incr (map st_rlsn (a ++ b)) ->
  (forall r, In r (a ++ b) -> st_rpage r = p -> st_rpage r <> st_nopage ->
     st_plsn pg < st_rlsn r \/ In (st_rid r) (st_pimg pg)) ->
  forall r, In r (a ++ b) -> st_rpage r = p -> st_rpage r <> st_nopage ->
    (In r a -> In (st_rid r) (st_pimg (su_redo_pg p a pg))) /\
    (st_plsn (su_redo_pg p a pg) < st_rlsn r \/ In (st_rid r) (st_pimg (su_redo_pg p a pg))).
Proof.
  intros p. induction a as [|r0 a IH]; intros b pg Hinc Hpg r Hin Hp Hn.
  - cbn. split; [intros []|]. apply Hpg; assumption.
  - change (su_redo_pg p (r0 :: a) pg) with (su_redo_pg p a (su_redo1 p pg r0)).
    cbn [app map su_incr] in Hinc. destruct Hinc as [Hhd Hinc].
    set (pg1 := su_redo1 p pg r0) in *.
    assert (Hpg1 : forall r', In r' (a ++ b) -> st_rpage r' = p -> st_rpage r' <> st_nopage ->
                     st_plsn pg1 < st_rlsn r' \/ In (st_rid r') (st_pimg pg1)).
    { intros r' Hin' Hp' Hn'. subst pg1.
      destruct (su_redo1_cases p pg r0) as [[E _]|(E & _ & _ & _)]; rewrite E.
      - apply Hpg; [right; exact Hin'|assumption|assumption].
      - left. cbn. apply Hhd. apply in_map. exact Hin'. }
    assert (Hr0 : st_rpage r0 = p -> st_rpage r0 <> st_nopage -> In (st_rid r0) (st_pimg (su_redo_pg p a pg1))).
    { intros Hp0 Hn0. destruct (su_redo_pg_mono p a pg1) as (_ & Hincl & _). apply Hincl. subst pg1.
      destruct (su_redo1_cases p pg r0) as [[E Hge]|(E & _)]; rewrite E.
      - specialize (Hge Hp0 Hn0).
        destruct (Hpg r0 (or_introl eq_refl) Hp0 Hn0) as [Hlt|Hi]; [lia|exact Hi].
      - cbn. left. reflexivity. }
    destruct Hin as [E|Hin].
    + subst r0. specialize (Hr0 Hp Hn). split; [intros _; exact Hr0|right; exact Hr0].
    + destruct (IH b pg1 Hinc Hpg1 r Hin Hp Hn) as [IHa IHb]. split; [|exact IHb].
      intros [E|Hina]; [subst r0; apply Hr0; assumption|apply IHa; exact Hina].
Qed.

(* ------------------------------------------------------------------ *)
(** * The invariant *)

(** durable part (and the ghost history): holds in every phase, survives every crash *)
Definition su_D (log : list st_rec) (dp : st_pmap) (hist : list st_rec) : Prop :=
  su_incr (map st_rlsn log) /\
  (forall r, In r log -> st_rpage r <> st_nopage -> 0 < st_rlsn r) /\
  (st_max_lsn log <> 0 -> forall p, su_lsn dp p <= st_max_lsn log) /\
  (forall r, In r hist -> st_rpage r <> st_nopage ->
     In (st_rid r) (su_img dp (st_rpage r)) \/ (In r log /\ su_lsn dp (st_rpage r) < st_rlsn r)) /\
  (forall r, In r log -> In r hist).

(** step 4 in progress: memory is what redo makes of the CURRENT file *)
Definition su_F (log : list st_rec) (dp vp : st_pmap) (G : N) : Prop :=
  (forall p, st_getp vp p = su_redo_pg p log (st_getp dp p)) /\
  (forall p, su_lsn dp p <= G) /\ (forall p, su_lsn vp p <= G).

(** between the truncation and the log write of step 6 *)
Definition su_T (log : list st_rec) (dp vp : st_pmap) (G : N) : Prop :=
  log = [] /\ (forall p, su_lsn dp p <= G) /\ (forall p, su_lsn vp p <= G) /\
  (forall p, incl (su_img dp p) (su_img vp p)).

(** normal operation *)
Definition su_N (log : list st_rec) (dp vp : st_pmap) (buf : list st_rec) (next : N) : Prop :=
  su_incr (map st_rlsn (log ++ buf)) /\
  (forall r, In r (log ++ buf) -> st_rlsn r < next) /\
  (forall r p, In r buf -> su_lt0 (su_lsn dp p) (st_rlsn r)) /\
  (forall p, su_lt0 (su_lsn dp p) next /\ su_lt0 (su_lsn vp p) next) /\
  (forall p, incl (su_img dp p) (su_img vp p)) /\
  (forall r, In r (log ++ buf) -> st_rpage r <> st_nopage -> In (st_rid r) (su_img vp (st_rpage r))) /\
  (forall r, In r buf -> st_rpage r <> st_nopage -> 0 < st_rlsn r).

Definition su_inv (s : st_state) : Prop :=
  su_D (st_dlog s) (st_dpages s) (st_ghist s) /\
  match st_vphase s with
  | StDown => True
  | StFlushing => su_F (st_dlog s) (st_dpages s) (st_vpages s) (st_vgreat s)
  | StTruncated => su_T (st_dlog s) (st_dpages s) (st_vpages s) (st_vgreat s)
  | StNormal => su_N (st_dlog s) (st_dpages s) (st_vpages s) (st_vbuf s) (st_vnext s)
  end.

(** D2, the redo-guard form of the history clause *)
Lemma su_D_guard : forall log dp hist, su_D log dp hist ->
  forall r, In r log -> st_rpage r <> st_nopage ->
    su_lsn dp (st_rpage r) < st_rlsn r \/ In (st_rid r) (su_img dp (st_rpage r)).
Proof.
  intros log dp hist (_ & _ & _ & HH & Hsub) r Hin Hn.
  destruct (HH r (Hsub r Hin) Hn) as [Hi|[_ Hlt]]; [right; exact Hi|left; exact Hlt].
Qed.

(** a page write keeps the durable invariant if the new image is at least as new as the old one, holds
    every record of the log that its LSN covers, and obeys the write-ahead bound *)
Lemma su_D_write : forall log dp hist p X, su_D log dp hist ->
  (forall r, In r log -> st_rpage r = p -> st_rpage r <> st_nopage -> st_plsn X < st_rlsn r \/ In (st_rid r) (st_pimg X)) ->
  (st_max_lsn log <> 0 -> st_plsn X <= st_max_lsn log) ->
  incl (su_img dp p) (st_pimg X) ->
  su_D log (aset dp p X) hist.
Proof.
  intros log dp hist p X (H1 & H2 & H3 & H4 & H5) Hc1 Hc2 Hc3.
  split; [exact H1|]. split; [exact H2|]. split; [|split; [|exact H5]].
  - intros Hm q. unfold su_lsn. destruct (N.eq_dec p q) as [E|E].
    + subst q. rewrite su_getp_set_same. apply Hc2. exact Hm.
    + rewrite su_getp_set_other by exact E. apply H3. exact Hm.
  - intros r Hin Hn. unfold su_lsn, su_img. destruct (N.eq_dec p (st_rpage r)) as [E|E].
    + rewrite <- E. rewrite su_getp_set_same.
      destruct (H4 r Hin Hn) as [Hi|[Hl Hlt]].
      * left. apply Hc3. rewrite E. exact Hi.
      * destruct (Hc1 r Hl (eq_sym E) Hn) as [Hlt'|Hi']; [right; split; assumption|left; exact Hi'].
    + rewrite su_getp_set_other by exact E. apply H4; assumption.
Qed.

(* ------------------------------------------------------------------ *)
(** * Preservation, event by event *)

Lemma su_init_inv : su_inv st_init.
Proof.
  unfold su_inv, st_init; cbn [st_dlog st_dpages st_ghist st_vphase st_vpages st_vbuf st_vnext]. split.
  - split; [exact I|]. split; [intros r []|]. split; [intros H; contradiction H; reflexivity|].
    split; [intros r []|intros r []].
  - split; [exact I|]. split; [intros r []|]. split; [intros r p []|].
    split; [intros p; split; right; split; reflexivity|].
    split; [intros p; apply incl_refl|]. split; [intros r []|intros r []].
Qed.

(** steps 1-3 *)
Lemma su_restart_F : forall cfg s, empty_log_scan cfg = true ->
  su_D (st_dlog s) (st_dpages s) (st_ghist s) ->
  su_F (st_dlog s) (st_dpages s) (st_redo (st_dlog s) (st_dpages s)) (st_greatest cfg s).
Proof.
  intros cfg s Hscan HD. pose proof HD as (_ & _ & H3 & _).
  assert (Hd : forall p, su_lsn (st_dpages s) p <= st_greatest cfg s).
  { intros p. unfold st_greatest. rewrite Hscan.
    destruct (N.eqb_spec (st_max_lsn (st_dlog s)) 0) as [E|E].
    - pose proof (su_max_pages_ge (st_dpages s) p). lia.
    - apply H3. exact E. }
  assert (Hl : forall r, In r (st_dlog s) -> st_rlsn r <= st_greatest cfg s).
  { intros r Hin. pose proof (su_max_lsn_ge _ _ Hin) as Hle. unfold st_greatest.
    destruct (N.eqb_spec (st_max_lsn (st_dlog s)) 0) as [E|E]; lia. }
  split; [|split; [exact Hd|]].
  - intros p. apply su_redo_at.
  - intros p. unfold su_lsn. rewrite su_redo_at.
    destruct (su_redo_pg_mono p (st_dlog s) (st_getp (st_dpages s) p)) as (_ & _ & [E|(r & Hin & _ & E)]); rewrite E.
    + apply Hd.
    + apply Hl. exact Hin.
Qed.

(** a page write while step 4 (or the redo pass) runs: the image after the prefix [a] of the log *)
Lemma su_F_write : forall log a b dp vp hist G p, log = a ++ b ->
  su_D log dp hist -> su_F log dp vp G ->
  su_D log (aset dp p (su_redo_pg p a (st_getp dp p))) hist /\
  su_F log (aset dp p (su_redo_pg p a (st_getp dp p))) vp G.
Proof.
  intros log a b dp vp hist G p Hlog HD (HF1 & HF2 & HF3).
  set (X := su_redo_pg p a (st_getp dp p)).
  pose proof HD as (HD1 & _ & HD3 & _).
  destruct (su_redo_pg_mono p a (st_getp dp p)) as (_ & Hincl & Hlsn). fold X in Hincl, Hlsn.
  assert (HvX : st_getp vp p = su_redo_pg p b X).
  { rewrite HF1, Hlog, su_redo_pg_app. reflexivity. }
  split.
  - apply su_D_write; [exact HD| | |exact Hincl].
    + intros r Hin Hp Hn. subst log.
      refine (proj2 (su_redo_pg_guard p a b (st_getp dp p) HD1 _ r Hin Hp Hn)).
      intros r' Hin' Hp' Hn'. rewrite <- Hp'. apply (su_D_guard _ _ _ HD); assumption.
    + intros Hm. destruct Hlsn as [E|(r & Hin & _ & E)]; rewrite E.
      * apply (HD3 Hm).
      * apply su_max_lsn_ge. rewrite Hlog. apply in_or_app. left. exact Hin.
  - split; [|split; [|exact HF3]].
    + intros q. destruct (N.eq_dec p q) as [E|E].
      * subst q. rewrite su_getp_set_same. rewrite HvX, Hlog, su_redo_pg_app. f_equal.
        symmetry. apply su_redo_pg_fix. intros r Hin Hp Hn. apply su_redo_pg_absorb; assumption.
      * rewrite su_getp_set_other by exact E. apply HF1.
    + intros q. unfold su_lsn. destruct (N.eq_dec p q) as [E|E].
      * subst q. rewrite su_getp_set_same. specialize (HF3 p). unfold su_lsn in HF3. rewrite HvX in HF3.
        pose proof (su_redo_pg_le p b X). lia.
      * rewrite su_getp_set_other by exact E. apply HF2.
Qed.

(** step 5 *)
Lemma su_truncate_T : forall s, st_all_flushed s = true ->
  su_D (st_dlog s) (st_dpages s) (st_ghist s) -> su_F (st_dlog s) (st_dpages s) (st_vpages s) (st_vgreat s) ->
  su_D [] (st_dpages s) (st_ghist s) /\ su_T [] (st_dpages s) (st_vpages s) (st_vgreat s).
Proof.
  intros s Hfl HD (HF1 & HF2 & HF3). pose proof HD as (HD1 & _ & _ & HD4 & _).
  split.
  - split; [exact I|]. split; [intros r []|]. split; [intros H; contradiction H; reflexivity|].
    split; [|intros r []].
    intros r Hin Hn. left. destruct (HD4 r Hin Hn) as [Hi|[Hl Hlt]]; [exact Hi|].
    unfold st_all_flushed in Hfl. rewrite forallb_forall in Hfl. specialize (Hfl r Hl).
    apply orb_true_iff in Hfl. destruct Hfl as [Hfl|Hfl]; [apply N.eqb_eq in Hfl; contradiction|].
    apply N.eqb_eq in Hfl. set (p := st_rpage r) in *.
    assert (E : st_getp (st_vpages s) p = st_getp (st_dpages s) p).
    { rewrite HF1. destruct (su_redo_pg_mono p (st_dlog s) (st_getp (st_dpages s) p)) as ([E|Hlt'] & _); [exact E|].
      rewrite <- HF1 in Hlt'. lia. }
    unfold su_img. rewrite <- E, HF1.
    assert (Hlog : In r (st_dlog s ++ [])) by (rewrite app_nil_r; exact Hl).
    refine (proj1 (su_redo_pg_guard p (st_dlog s) [] (st_getp (st_dpages s) p) _ _ r Hlog eq_refl Hn) Hl).
    + rewrite app_nil_r. exact HD1.
    + intros r' Hin' Hp' Hn'. rewrite app_nil_r in Hin'. rewrite <- Hp'. apply (su_D_guard _ _ _ HD); assumption.
  - split; [reflexivity|]. split; [exact HF2|]. split; [exact HF3|].
    intros p. unfold su_img. rewrite HF1. apply (su_redo_pg_mono p (st_dlog s) (st_getp (st_dpages s) p)).
Qed.

(** step 6 *)
Lemma su_startup_floor : forall dp vp hist G id, su_D [] dp hist -> su_T [] dp vp G ->
  su_D [st_mkrec (G + 1) st_nopage id] dp (hist ++ [st_mkrec (G + 1) st_nopage id]) /\
  su_N [st_mkrec (G + 1) st_nopage id] dp vp [] (G + 1 + 1).
Proof.
  intros dp vp hist G id (_ & _ & _ & HD4 & _) (_ & HT2 & HT3 & HT4). split.
  - split; [cbn; split; [intros y []|exact I]|].
    split; [intros r [E|[]] Hn; subst r; cbn in Hn; contradiction Hn; reflexivity|].
    split; [intros _ p; cbn; specialize (HT2 p); lia|].
    split.
    + intros r Hin Hn. apply in_app_or in Hin. destruct Hin as [Hin|[E|[]]].
      * destruct (HD4 r Hin Hn) as [Hi|[[] _]]. left. exact Hi.
      * subst r. cbn in Hn. contradiction Hn. reflexivity.
    + intros r [E|[]]. subst r. apply in_or_app. right. left. reflexivity.
  - split; [cbn; split; [intros y []|exact I]|].
    split; [intros r [E|[]]; subst r; cbn; lia|].
    split; [intros r p []|].
    split; [intros p; specialize (HT2 p); specialize (HT3 p); unfold su_lt0; lia|].
    split; [exact HT4|].
    split; [intros r [E|[]] Hn; subst r; cbn in Hn; contradiction Hn; reflexivity|intros r []].
Qed.

Lemma su_startup_nofloor : forall dp vp hist G, su_D [] dp hist -> su_T [] dp vp G ->
  su_N [] dp vp [] (G + 1).
Proof.
  intros dp vp hist G _ (_ & HT2 & HT3 & HT4).
  split; [exact I|]. split; [intros r []|]. split; [intros r p []|].
  split; [intros p; specialize (HT2 p); specialize (HT3 p); unfold su_lt0; lia|].
  split; [exact HT4|]. split; [intros r []|intros r []].
Qed.

(** a record is appended *)
Lemma su_append_inv : forall s p s', su_inv s -> st_vphase s = StNormal -> st_append s p = Some s' -> su_inv s'.
Proof.
  intros s p s' [HD HP] Eph Happ. rewrite Eph in HP.
  destruct HP as (N1 & N2 & N3 & N4 & N5 & N6 & N7).
  set (r := st_mkrec (st_vnext s) p (st_gseq s)).
  assert (N1' : su_incr (map st_rlsn (st_dlog s ++ st_vbuf s ++ [r]))).
  { rewrite app_assoc, map_app. apply su_incr_app. split; [exact N1|]. split; [cbn; split; [intros y []|exact I]|].
    intros x y Hx [E|[]]. subst y. apply in_map_iff in Hx. destruct Hx as (r' & E & Hin). subst x. cbn. apply N2. exact Hin. }
  assert (N2' : forall r', In r' (st_dlog s ++ st_vbuf s ++ [r]) -> st_rlsn r' < st_vnext s + 1).
  { intros r' Hin. rewrite app_assoc in Hin. apply in_app_or in Hin. destruct Hin as [Hin|[E|[]]].
    - specialize (N2 r' Hin). lia.
    - subst r'. cbn. lia. }
  assert (N3' : forall r' q, In r' (st_vbuf s ++ [r]) -> su_lt0 (su_lsn (st_dpages s) q) (st_rlsn r')).
  { intros r' q Hin. apply in_app_or in Hin. destruct Hin as [Hin|[E|[]]].
    - apply N3. exact Hin.
    - subst r'. cbn. apply N4. }
  assert (Hup : forall a, su_lt0 a (st_vnext s) -> su_lt0 a (st_vnext s + 1)) by (unfold su_lt0; intros; lia).
  unfold st_append in Happ. fold r in Happ.
  destruct (N.eqb_spec p st_nopage) as [En|En].
  - injection Happ as <-. unfold su_inv. cbn. split; [exact HD|].
    split; [exact N1'|]. split; [exact N2'|]. split; [exact N3'|].
    split; [intros q; destruct (N4 q); split; apply Hup; assumption|]. split; [exact N5|]. split.
    + intros r' Hin Hn. rewrite app_assoc in Hin. apply in_app_or in Hin. destruct Hin as [Hin|[E|[]]].
      * apply N6; assumption.
      * subst r'. cbn in Hn. contradiction.
    + intros r' Hin Hn. apply in_app_or in Hin. destruct Hin as [Hin|[E|[]]].
      * apply N7; assumption.
      * subst r'. cbn in Hn. contradiction.
  - destruct (N.ltb_spec 0 (st_vnext s)) as [Hpos|Hpos]; [|discriminate Happ].
    injection Happ as <-. unfold su_inv. cbn. split; [exact HD|].
    split; [exact N1'|]. split; [exact N2'|]. split; [exact N3'|].
    split; [|split; [|split]].
    + intros q. destruct (N4 q) as [N4a N4b]. split; [apply Hup; exact N4a|].
      unfold su_lsn. destruct (N.eq_dec p q) as [E|E].
      * subst q. rewrite su_getp_set_same. cbn. unfold su_lt0. lia.
      * rewrite su_getp_set_other by exact E. apply Hup. exact N4b.
    + intros q. unfold su_img. destruct (N.eq_dec p q) as [E|E].
      * subst q. rewrite su_getp_set_same. cbn. apply incl_tl. apply N5.
      * rewrite su_getp_set_other by exact E. apply N5.
    + intros r' Hin Hn. unfold su_img. rewrite app_assoc in Hin. apply in_app_or in Hin.
      destruct (N.eq_dec p (st_rpage r')) as [E|E].
      * rewrite <- E. rewrite su_getp_set_same. cbn. destruct Hin as [Hin|[E'|[]]].
        -- right. rewrite E. apply N6; assumption.
        -- subst r'. left. reflexivity.
      * rewrite su_getp_set_other by exact E. destruct Hin as [Hin|[E'|[]]].
        -- apply N6; assumption.
        -- subst r'. cbn in E. contradiction E. reflexivity.
    + intros r' Hin Hn. apply in_app_or in Hin. destruct Hin as [Hin|[E|[]]].
      * apply N7; assumption.
      * subst r'. cbn. exact Hpos.
Qed.

Lemma su_append_phase : forall s p s', st_append s p = Some s' -> st_vphase s' = StNormal.
Proof.
  intros s p s' H. unfold st_append in H.
  destruct (p =? st_nopage); [injection H as <-; reflexivity|].
  destruct (0 <? st_vnext s); [injection H as <-; reflexivity|discriminate H].
Qed.

(** the buffered records reach the log file *)
Lemma su_flush_inv : forall s, su_inv s -> st_vphase s = StNormal -> su_inv (st_flush s).
Proof.
  intros s [HD HP] Eph. rewrite Eph in HP.
  destruct HP as (N1 & N2 & N3 & N4 & N5 & N6 & N7).
  destruct HD as (D1 & D2 & D3 & D4 & D5).
  unfold su_inv, st_flush. cbn. split.
  - split; [exact N1|]. split; [|split; [|split]].
    + intros r Hin Hn. apply in_app_or in Hin. destruct Hin as [Hin|Hin]; [apply D2|apply N7]; assumption.
    + intros Hm p. destruct (su_max_lsn_hit (st_dlog s ++ st_vbuf s)) as [E|(r & Hin & E)]; [contradiction|].
      apply in_app_or in Hin. destruct Hin as [Hin|Hin].
      * pose proof (su_max_lsn_ge _ _ Hin) as Hle. rewrite su_max_lsn_app in *.
        assert (Hm' : st_max_lsn (st_dlog s) <> 0) by lia. specialize (D3 Hm' p). lia.
      * specialize (N3 r p Hin). unfold su_lt0 in N3. lia.
    + intros r Hin Hn. apply in_app_or in Hin. destruct Hin as [Hin|Hin].
      * destruct (D4 r Hin Hn) as [Hi|[Hl Hlt]]; [left; exact Hi|].
        right. split; [apply in_or_app; left; exact Hl|exact Hlt].
      * right. split; [apply in_or_app; right; exact Hin|].
        specialize (N3 r (st_rpage r) Hin). specialize (N7 r Hin Hn). unfold su_lt0 in N3. lia.
    + intros r Hin. apply in_app_or in Hin. apply in_or_app. destruct Hin as [Hin|Hin]; [left; apply D5; exact Hin|right; exact Hin].
  - unfold su_N. rewrite !app_nil_r. split; [exact N1|]. split; [exact N2|]. split; [intros r p []|].
    split; [exact N4|]. split; [exact N5|]. split; [exact N6|intros r []].
Qed.

(** a page write in normal operation, under the write-ahead rule *)
Lemma su_nwrite_inv : forall s p, su_inv s -> st_vphase s = StNormal ->
  st_plsn (st_getp (st_vpages s) p) <= st_max_lsn (st_dlog s) ->
  su_inv (st_set_disk s p (st_getp (st_vpages s) p)).
Proof.
  intros s p [HD HP] Eph Hwal. rewrite Eph in HP.
  destruct HP as (N1 & N2 & N3 & N4 & N5 & N6 & N7).
  unfold su_inv, st_set_disk. cbn. rewrite Eph. split.
  - apply su_D_write; [exact HD| | |apply N5].
    + intros r Hin Hp Hn. right. rewrite <- Hp. apply N6; [apply in_or_app; left; exact Hin|exact Hn].
    + intros _. exact Hwal.
  - split; [exact N1|]. split; [exact N2|]. split; [|split; [|split; [|split; [exact N6|exact N7]]]].
    + intros r q Hin. unfold su_lsn. destruct (N.eq_dec p q) as [E|E].
      * subst q. rewrite su_getp_set_same.
        destruct (su_max_lsn_hit (st_dlog s)) as [E0|(r0 & Hin0 & E0)].
        -- unfold su_lt0. lia.
        -- pose proof N1 as N1c. rewrite map_app in N1c. apply su_incr_app in N1c. destruct N1c as (_ & _ & N1c).
           assert (Hlt : st_rlsn r0 < st_rlsn r) by (apply N1c; apply in_map; assumption).
           unfold su_lt0. lia.
      * rewrite su_getp_set_other by exact E. apply N3. exact Hin.
    + intros q. destruct (N4 q) as [N4a N4b]. split; [|exact N4b].
      unfold su_lsn. destruct (N.eq_dec p q) as [E|E].
      * subst q. rewrite su_getp_set_same. exact N4b.
      * rewrite su_getp_set_other by exact E. exact N4a.
    + intros q. unfold su_img. destruct (N.eq_dec p q) as [E|E].
      * subst q. rewrite su_getp_set_same. apply incl_refl.
      * rewrite su_getp_set_other by exact E. apply N5.
Qed.

(* ------------------------------------------------------------------ *)
(** * Every step keeps the invariant (any configuration with the page scan of step 2) *)

Lemma su_step_inv : forall cfg s e s', empty_log_scan cfg = true ->
  su_inv s -> st_step cfg s e = Some s' -> su_inv s'.
Proof.
  intros cfg s e s' Hscan Hinv Hstep. pose proof Hinv as [HD HP].
  destruct e; unfold st_step in Hstep; destruct (st_vphase s) eqn:Eph; try discriminate Hstep.
  - (* StEvRestart *)
    injection Hstep as <-. unfold su_inv. cbn. split; [exact HD|]. apply su_restart_F; assumption.
  - (* StEvWritePage, step 4 *)
    injection Hstep as <-. unfold su_inv, st_set_disk. cbn. rewrite Eph.
    pose proof HP as (HF1 & _). rewrite HF1.
    apply (su_F_write (st_dlog s) (st_dlog s) []); [symmetry; apply app_nil_r|exact HD|exact HP].
  - (* StEvWritePage, normal operation *)
    destruct (N.leb_spec (st_plsn (st_getp (st_vpages s) p)) (st_max_lsn (st_dlog s))) as [Hwal|Hwal]; [|discriminate Hstep].
    injection Hstep as <-. apply su_nwrite_inv; assumption.
  - (* StEvRedoWrite *)
    injection Hstep as <-. unfold su_inv, st_set_disk. cbn. rewrite Eph. rewrite su_redo_at.
    apply (su_F_write (st_dlog s) (firstn (N.to_nat k) (st_dlog s)) (skipn (N.to_nat k) (st_dlog s)));
      [symmetry; apply firstn_skipn|exact HD|exact HP].
  - (* StEvTruncate *)
    destruct (st_all_flushed s) eqn:Hfl; [|discriminate Hstep].
    injection Hstep as <-. unfold su_inv. cbn. apply su_truncate_T; assumption.
  - (* StEvStartupLog *)
    pose proof HP as (Hnil & _). rewrite Hnil in HD, HP.
    destruct (floor_record cfg); injection Hstep as <-; unfold su_inv; cbn.
    + apply su_startup_floor; assumption.
    + split; [exact HD|]. eapply su_startup_nofloor; eassumption.
  - (* StEvAppend *)
    eapply su_append_inv; eassumption.
  - (* StEvFlushLog *)
    injection Hstep as <-. apply su_flush_inv; assumption.
  - (* StEvCommit *)
    destruct (st_append s st_nopage) as [s1|] eqn:Happ; [|discriminate Hstep].
    injection Hstep as <-. apply su_flush_inv.
    + eapply su_append_inv; eassumption.
    + eapply su_append_phase; eassumption.
  - (* StEvOther, step 4 *)
    injection Hstep as <-. unfold su_inv. cbn. split; assumption.
  - (* StEvOther, normal operation *)
    injection Hstep as <-. unfold su_inv. cbn. split; assumption.
  - injection Hstep as <-. unfold su_inv, st_crash. cbn. split; [exact HD|exact I].
  - injection Hstep as <-. unfold su_inv, st_crash. cbn. split; [exact HD|exact I].
  - injection Hstep as <-. unfold su_inv, st_crash. cbn. split; [exact HD|exact I].
  - injection Hstep as <-. unfold su_inv, st_crash. cbn. split; [exact HD|exact I].
Qed.

Lemma su_run_inv : forall cfg es s s', empty_log_scan cfg = true ->
  su_inv s -> st_run cfg s es = Some s' -> su_inv s'.
Proof.
  intros cfg. induction es as [|e es IH]; intros s s' Hscan Hinv Hrun; cbn [st_run] in Hrun.
  - injection Hrun as <-. exact Hinv.
  - destruct (st_step cfg s e) as [s1|] eqn:Hstep; [|discriminate Hrun].
    apply (IH s1 s' Hscan); [|exact Hrun]. eapply su_step_inv; eassumption.
Qed.

Lemma su_reach_inv : forall cfg es s, empty_log_scan cfg = true -> st_run cfg st_init es = Some s -> su_inv s.
Proof. intros cfg es s Hscan Hrun. eapply su_run_inv; [exact Hscan|apply su_init_inv|exact Hrun]. Qed.

(* ------------------------------------------------------------------ *)
(** * The ghost ids are unique (every configuration): "the id of r is in the image" means r, and no other record *)

Definition su_Gc (hist buf : list st_rec) (seq : N) : Prop :=
  (forall r, In r (hist ++ buf) -> st_rid r < seq) /\ NoDup (map st_rid (hist ++ buf)).

Definition su_G (s : st_state) : Prop :=
  su_Gc (st_ghist s) (st_vbuf s) (st_gseq s) /\
  (forall r, In r (st_dlog s) -> In r (st_ghist s)) /\
  (forall p i, In i (su_img (st_dpages s) p) -> i < st_gseq s) /\
  (forall p i, In i (su_img (st_vpages s) p) -> i < st_gseq s).

Lemma su_nodup_snoc : forall (l : list N) x, NoDup l -> ~ In x l -> NoDup (l ++ [x]).
Proof.
  induction l as [|y l IH]; intros x Hnd Hni; cbn [app].
  - constructor; [intros []|constructor].
  - inversion Hnd as [|y' l' Hy Hnd']; subst. constructor.
    + intros Hin. apply in_app_or in Hin. destruct Hin as [Hin|[E|[]]]; [contradiction|].
      subst x. apply Hni. left. reflexivity.
    + apply IH; [exact Hnd'|]. intros Hin. apply Hni. right. exact Hin.
Qed.

Lemma su_nodup_app_l : forall (a b : list N), NoDup (a ++ b) -> NoDup a.
Proof.
  induction a as [|x a IH]; intros b H; [constructor|].
  cbn [app] in H. inversion H as [|x' l' Hx Hnd]; subst. constructor.
  - intros Hin. apply Hx. apply in_or_app. left. exact Hin.
  - apply (IH b). exact Hnd.
Qed.

Lemma su_Gc_drop : forall hist buf seq, su_Gc hist buf seq -> su_Gc hist [] seq.
Proof.
  intros hist buf seq [H1 H2]. split.
  - intros r Hin. rewrite app_nil_r in Hin. apply H1. apply in_or_app. left. exact Hin.
  - rewrite app_nil_r. rewrite map_app in H2. eapply su_nodup_app_l. exact H2.
Qed.

Lemma su_Gc_snoc : forall hist buf seq l p, su_Gc hist buf seq -> su_Gc hist (buf ++ [st_mkrec l p seq]) (seq + 1).
Proof.
  intros hist buf seq l p [H1 H2]. split.
  - intros r Hin. rewrite app_assoc in Hin. apply in_app_or in Hin. destruct Hin as [Hin|[E|[]]].
    + specialize (H1 r Hin). lia.
    + subst r. cbn. lia.
  - rewrite app_assoc, map_app. cbn [map st_rid]. apply su_nodup_snoc; [exact H2|].
    intros Hin. apply in_map_iff in Hin. destruct Hin as (r & E & Hin). specialize (H1 r Hin). lia.
Qed.

Lemma su_Gc_flush : forall hist buf seq, su_Gc hist buf seq -> su_Gc (hist ++ buf) [] seq.
Proof. intros hist buf seq H. unfold su_Gc in *. rewrite app_nil_r. exact H. Qed.

Lemma su_Gc_snoc_hist : forall hist seq l p, su_Gc hist [] seq -> su_Gc (hist ++ [st_mkrec l p seq]) [] (seq + 1).
Proof. intros hist seq l p H. apply su_Gc_flush. apply (su_Gc_snoc hist [] seq l p). exact H. Qed.

Lemma su_redo_pg_ids : forall p l pg i, In i (st_pimg (su_redo_pg p l pg)) ->
  In i (st_pimg pg) \/ exists r, In r l /\ st_rid r = i.
Proof.
  intros p. induction l as [|r0 l IH]; intros pg i Hin; [left; exact Hin|].
  change (su_redo_pg p (r0 :: l) pg) with (su_redo_pg p l (su_redo1 p pg r0)) in Hin.
  destruct (IH _ _ Hin) as [Hi|(r & Hr & E)].
  - destruct (su_redo1_cases p pg r0) as [[E _]|(E & _)]; rewrite E in Hi.
    + left. exact Hi.
    + destruct Hi as [Hi|Hi]; [right; exists r0; split; [left; reflexivity|exact Hi]|left; exact Hi].
  - right. exists r. split; [right; exact Hr|exact E].
Qed.

Lemma su_init_G : su_G st_init.
Proof.
  unfold su_G, su_Gc, st_init. cbn. split; [split; [intros r []|constructor]|].
  split; [intros r []|]. split; intros p i [].
Qed.

Lemma su_append_G : forall s p s', su_G s -> st_append s p = Some s' -> su_G s'.
Proof.
  intros s p s' (Hc & Hsub & Hd & Hv) Happ. unfold st_append in Happ.
  assert (Hd' : forall q i, In i (su_img (st_dpages s) q) -> i < st_gseq s + 1) by (intros q i Hi; specialize (Hd q i Hi); lia).
  assert (Hv' : forall q i, In i (su_img (st_vpages s) q) -> i < st_gseq s + 1) by (intros q i Hi; specialize (Hv q i Hi); lia).
  destruct (p =? st_nopage).
  - injection Happ as <-. unfold su_G. cbn. split; [apply su_Gc_snoc; exact Hc|]. split; [exact Hsub|]. split; assumption.
  - destruct (0 <? st_vnext s); [|discriminate Happ].
    injection Happ as <-. unfold su_G. cbn. split; [apply su_Gc_snoc; exact Hc|]. split; [exact Hsub|]. split; [exact Hd'|].
    intros q i. unfold su_img. destruct (N.eq_dec p q) as [E|E].
    + subst q. rewrite su_getp_set_same. cbn. intros [Hi|Hi]; [lia|apply (Hv' p); exact Hi].
    + rewrite su_getp_set_other by exact E. apply Hv'.
Qed.

Lemma su_flush_G : forall s, su_G s -> su_G (st_flush s).
Proof.
  intros s (Hc & Hsub & Hd & Hv). unfold su_G, st_flush. cbn. split; [apply su_Gc_flush; exact Hc|].
  split; [|split; assumption].
  intros r Hin. apply in_app_or in Hin. apply in_or_app. destruct Hin as [Hin|Hin]; [left; apply Hsub; exact Hin|right; exact Hin].
Qed.

Lemma su_set_disk_G : forall s p X, su_G s -> (forall i, In i (st_pimg X) -> i < st_gseq s) -> su_G (st_set_disk s p X).
Proof.
  intros s p X (Hc & Hsub & Hd & Hv) HX. unfold su_G, st_set_disk. cbn. split; [exact Hc|]. split; [exact Hsub|].
  split; [|exact Hv]. intros q i. unfold su_img. destruct (N.eq_dec p q) as [E|E].
  - subst q. rewrite su_getp_set_same. apply HX.
  - rewrite su_getp_set_other by exact E. apply Hd.
Qed.

Lemma su_redo_ids_bound : forall s p a i, su_G s -> (forall r, In r a -> In r (st_dlog s)) ->
  In i (st_pimg (su_redo_pg p a (st_getp (st_dpages s) p))) -> i < st_gseq s.
Proof.
  intros s p a i ((H1 & _) & Hsub & Hd & _) Ha Hi.
  destruct (su_redo_pg_ids _ _ _ _ Hi) as [Hi'|(r & Hr & E)].
  - apply (Hd p). exact Hi'.
  - subst i. apply H1. apply in_or_app. left. apply Hsub. apply Ha. exact Hr.
Qed.

Lemma su_step_G : forall cfg s e s', su_G s -> st_step cfg s e = Some s' -> su_G s'.
Proof.
  intros cfg s e s' HG Hstep. pose proof HG as (Hc & Hsub & Hd & Hv).
  destruct e; unfold st_step in Hstep; destruct (st_vphase s) eqn:Eph; try discriminate Hstep.
  - injection Hstep as <-. unfold su_G. cbn. split; [eapply su_Gc_drop; exact Hc|]. split; [exact Hsub|]. split; [exact Hd|].
    intros p i. unfold su_img. rewrite su_redo_at. apply su_redo_ids_bound; [exact HG|intros r Hr; exact Hr].
  - injection Hstep as <-. apply su_set_disk_G; [exact HG|apply Hv].
  - destruct (st_plsn (st_getp (st_vpages s) p) <=? st_max_lsn (st_dlog s)); [|discriminate Hstep].
    injection Hstep as <-. apply su_set_disk_G; [exact HG|apply Hv].
  - injection Hstep as <-. apply su_set_disk_G; [exact HG|]. intros i. rewrite su_redo_at.
    apply su_redo_ids_bound; [exact HG|]. intros r Hr.
    rewrite <- (firstn_skipn (N.to_nat k) (st_dlog s)). apply in_or_app. left. exact Hr.
  - destruct (st_all_flushed s); [|discriminate Hstep].
    injection Hstep as <-. unfold su_G. cbn. split; [eapply su_Gc_drop; exact Hc|]. split; [intros r []|]. split; assumption.
  - destruct (floor_record cfg); injection Hstep as <-; unfold su_G; cbn.
    + split; [apply su_Gc_snoc_hist; eapply su_Gc_drop; exact Hc|].
      split; [intros r [E|[]]; subst r; apply in_or_app; right; left; reflexivity|].
      split; intros p i Hi; [specialize (Hd p i Hi)|specialize (Hv p i Hi)]; lia.
    + split; [eapply su_Gc_drop; exact Hc|]. split; [intros r []|]. split; assumption.
  - eapply su_append_G; eassumption.
  - injection Hstep as <-. apply su_flush_G. exact HG.
  - destruct (st_append s st_nopage) as [s1|] eqn:Happ; [|discriminate Hstep].
    injection Hstep as <-. apply su_flush_G. eapply su_append_G; eassumption.
  - injection Hstep as <-. unfold su_G. cbn. split; [exact Hc|]. split; [exact Hsub|]. split; assumption.
  - injection Hstep as <-. unfold su_G. cbn. split; [exact Hc|]. split; [exact Hsub|]. split; assumption.
  - injection Hstep as <-. unfold su_G, st_crash. cbn. split; [eapply su_Gc_drop; exact Hc|]. split; [exact Hsub|]. split; [exact Hd|intros p i []].
  - injection Hstep as <-. unfold su_G, st_crash. cbn. split; [eapply su_Gc_drop; exact Hc|]. split; [exact Hsub|]. split; [exact Hd|intros p i []].
  - injection Hstep as <-. unfold su_G, st_crash. cbn. split; [eapply su_Gc_drop; exact Hc|]. split; [exact Hsub|]. split; [exact Hd|intros p i []].
  - injection Hstep as <-. unfold su_G, st_crash. cbn. split; [eapply su_Gc_drop; exact Hc|]. split; [exact Hsub|]. split; [exact Hd|intros p i []].
Qed.

Lemma su_run_G : forall cfg es s s', su_G s -> st_run cfg s es = Some s' -> su_G s'.
Proof.
  intros cfg. induction es as [|e es IH]; intros s s' HG Hrun; cbn [st_run] in Hrun.
  - injection Hrun as <-. exact HG.
  - destruct (st_step cfg s e) as [s1|] eqn:Hstep; [|discriminate Hrun].
    apply (IH s1 s'); [|exact Hrun]. eapply su_step_G; eassumption.
Qed.

Theorem su_ids_unique : forall cfg es s, st_run cfg st_init es = Some s ->
  NoDup (map st_rid (st_ghist s ++ st_vbuf s)) /\
  (forall r, In r (st_ghist s ++ st_vbuf s) -> st_rid r < st_gseq s) /\
  (forall r, In r (st_dlog s) -> In r (st_ghist s)) /\
  (forall p i, In i (st_disk_img s p) \/ In i (st_mem_img s p) -> i < st_gseq s).
Proof.
  intros cfg es s Hrun. destruct (su_run_G cfg es st_init s su_init_G Hrun) as ((H1 & H2) & Hsub & Hd & Hv).
  split; [exact H2|]. split; [exact H1|]. split; [exact Hsub|].
  intros p i [Hi|Hi]; [apply (Hd p)|apply (Hv p)]; exact Hi.
Qed.

(* ------------------------------------------------------------------ *)
(** * The theorems *)

Section WithScan.
  Variable cfg : st_config.
  Hypothesis su_Hscan : empty_log_scan cfg = true.

  (** LSN floor: in normal operation the counter is above every page LSN (file and memory) and above every
      LSN of the log (file and buffer), and the log is strictly increasing *)
  Theorem su_lsn_floor : forall es s, st_run cfg st_init es = Some s -> st_is_normal s = true ->
    (forall p, su_lt0 (st_disk_lsn s p) (st_next_lsn s)) /\
    (forall p, su_lt0 (st_mem_lsn s p) (st_next_lsn s)) /\
    (forall r, In r (st_dlog s ++ st_vbuf s) -> st_rlsn r < st_next_lsn s) /\
    su_incr (map st_rlsn (st_dlog s ++ st_vbuf s)).
  Proof.
    intros es s Hrun Hn. destruct (su_reach_inv cfg es s su_Hscan Hrun) as [_ HP].
    unfold st_is_normal in Hn. destruct (st_vphase s); try discriminate Hn.
    destruct HP as (N1 & N2 & _ & N4 & _).
    split; [intros p; apply N4|]. split; [intros p; apply N4|]. split; [exact N2|exact N1].
  Qed.

  (** the durable log is strictly increasing in every state, running or not *)
  Theorem su_log_increasing : forall es s, st_run cfg st_init es = Some s -> su_incr (map st_rlsn (st_dlog s)).
  Proof. intros es s Hrun. destruct (su_reach_inv cfg es s su_Hscan Hrun) as [(D1 & _) _]. exact D1. Qed.

  (** redo's LSN guard skips a durable record only if its effect is in the disk page — in every reachable
      state, i.e. whenever the next restart happens *)
  Theorem su_redoable : forall es s, st_run cfg st_init es = Some s ->
    forall r, In r (st_dlog s) -> st_rpage r <> st_nopage ->
      st_redo_applies s r = true \/ In (st_rid r) (st_disk_img s (st_rpage r)).
  Proof.
    intros es s Hrun r Hin Hn. destruct (su_reach_inv cfg es s su_Hscan Hrun) as [HD _].
    destruct (su_D_guard _ _ _ HD r Hin Hn) as [Hlt|Hi]; [left|right; exact Hi].
    unfold st_redo_applies, st_disk_lsn. apply N.ltb_lt. exact Hlt.
  Qed.

  Theorem su_no_lost_records : forall es s, st_run cfg st_init es = Some s -> st_lost_records s = [].
  Proof.
    intros es s Hrun. unfold st_lost_records.
    destruct (filter (st_lost s) (st_dlog s)) as [|r l] eqn:E; [reflexivity|exfalso].
    assert (Hin : In r (filter (st_lost s) (st_dlog s))) by (rewrite E; left; reflexivity).
    apply filter_In in Hin. destruct Hin as [Hin Hl]. unfold st_lost in Hl.
    apply andb_true_iff in Hl. destruct Hl as [Hl H3]. apply andb_true_iff in Hl. destruct Hl as [H1 H2].
    apply negb_true_iff in H1, H2, H3. apply N.eqb_neq in H1.
    destruct (su_redoable es s Hrun r Hin H1) as [Ha|Hi]; [congruence|].
    apply su_memN_In in Hi. congruence.
  Qed.

  (** every record that ever reached the log file is, at every later moment, either in the disk page or
      still in the log and accepted by redo's guard: truncating the log never loses it *)
  Theorem su_never_lost : forall es s, st_run cfg st_init es = Some s ->
    forall r, In r (st_ghist s) -> st_rpage r <> st_nopage ->
      In (st_rid r) (st_disk_img s (st_rpage r)) \/ (In r (st_dlog s) /\ st_redo_applies s r = true).
  Proof.
    intros es s Hrun r Hin Hn. destruct (su_reach_inv cfg es s su_Hscan Hrun) as [(_ & _ & _ & D4 & _) _].
    destruct (D4 r Hin Hn) as [Hi|[Hl Hlt]]; [left; exact Hi|right]. split; [exact Hl|].
    unfold st_redo_applies, st_disk_lsn. apply N.ltb_lt. exact Hlt.
  Qed.

  (** once the redo pass has run, every durable record is in the recovered page *)
  Theorem su_redo_restores : forall es s, st_run cfg st_init es = Some s -> st_vphase s = StFlushing ->
    forall r, In r (st_dlog s) -> st_rpage r <> st_nopage -> In (st_rid r) (st_mem_img s (st_rpage r)).
  Proof.
    intros es s Hrun Eph r Hin Hn. destruct (su_reach_inv cfg es s su_Hscan Hrun) as [HD HP].
    rewrite Eph in HP. destruct HP as (HF1 & _). pose proof HD as (D1 & _).
    unfold st_mem_img. rewrite HF1.
    assert (Hlog : In r (st_dlog s ++ [])) by (rewrite app_nil_r; exact Hin).
    refine (proj1 (su_redo_pg_guard (st_rpage r) (st_dlog s) [] _ _ _ r Hlog eq_refl Hn) Hin).
    - rewrite app_nil_r. exact D1.
    - intros r' Hin' Hp' Hn'. rewrite app_nil_r in Hin'. rewrite <- Hp'. apply (su_D_guard _ _ _ HD); assumption.
  Qed.

  Theorem su_restart_restores : forall es s s', st_run cfg st_init es = Some s ->
    st_step cfg s StEvRestart = Some s' ->
    forall r, In r (st_dlog s') -> st_rpage r <> st_nopage -> In (st_rid r) (st_mem_img s' (st_rpage r)).
  Proof.
    intros es s s' Hrun Hstep. apply (su_redo_restores (es ++ [StEvRestart])).
    - clear su_Hscan. revert Hrun. generalize st_init. induction es as [|e es IH]; intros s0 Hrun; cbn [app st_run] in *.
      + injection Hrun as ->. rewrite Hstep. reflexivity.
      + destruct (st_step cfg s0 e); [apply IH; exact Hrun|discriminate Hrun].
    - unfold st_step in Hstep. destruct (st_vphase s); try discriminate Hstep. injection Hstep as <-. reflexivity.
  Qed.
End WithScan.

(* ------------------------------------------------------------------ *)
(** * The two repaired defects, as witnesses *)

(** a fresh database, one committed transaction on pages 5 and 6, page 5 written: LSNs 0..5, page 5 has LSN 4 on disk *)
Definition su_work1 : list st_event :=
  [StEvAppend st_nopage; StEvAppend 5; StEvAppend 5; StEvAppend 6; StEvAppend 5; StEvCommit; StEvWritePage 5].
(** a later committed transaction changing page 5 *)
Definition su_work2 : list st_event := [StEvAppend st_nopage; StEvAppend 5].

(** what a defect is: normal operation is reached with nextLSN not above a disk page LSN; from there a
    transaction changes that page and commits (record durable), the process is killed, and the record is one
    that redo's guard skips although its effect is not in the disk page; after the restart's redo pass the
    recovered page does not hold it *)
Definition su_defect (cfg : st_config) : Prop :=
  exists es1 es2 s1 s2 s3 r,
    st_run cfg st_init es1 = Some s1 /\ st_floor_broken s1 = true /\
    st_run cfg s1 (es2 ++ [StEvCommit; StEvCrash]) = Some s2 /\
    st_lost_records s2 = [r] /\
    st_step cfg s2 StEvRestart = Some s3 /\ st_missing_after_redo s3 = [r].

(** (a) no floor record, no page scan: restart, crash before anything is logged, restart *)
Definition su_defect_a_es : list st_event :=
  su_work1 ++ [StEvCrash; StEvRestart; StEvWritePage 6; StEvWritePage 5; StEvTruncate; StEvStartupLog;
               StEvCrash; StEvRestart; StEvTruncate; StEvStartupLog].

Lemma su_defect_no_floor : su_defect (st_mkcfg false false).
Proof.
  exists su_defect_a_es, su_work2. eexists. eexists. eexists. eexists.
  split; [vm_compute; reflexivity|]. split; [vm_compute; reflexivity|].
  split; [vm_compute; reflexivity|]. split; [vm_compute; reflexivity|].
  split; vm_compute; reflexivity.
Qed.

(** (b) floor record, no page scan: crash between the truncation and the log write of step 6 *)
Definition su_defect_b_es : list st_event :=
  su_work1 ++ [StEvCrash; StEvRestart; StEvWritePage 6; StEvWritePage 5; StEvTruncate;
               StEvCrash; StEvRestart; StEvTruncate; StEvStartupLog].

Lemma su_defect_gc_window : su_defect (st_mkcfg true false).
Proof.
  exists su_defect_b_es, su_work2. eexists. eexists. eexists. eexists.
  split; [vm_compute; reflexivity|]. split; [vm_compute; reflexivity|].
  split; [vm_compute; reflexivity|]. split; [vm_compute; reflexivity|].
  split; vm_compute; reflexivity.
Qed.

(** the same two histories are harmless for the current code *)
Lemma su_defect_histories_now :
  option_map (fun s => (st_next_lsn s, st_floor_broken s)) (st_run cfg_now st_init su_defect_a_es) = Some (8, false) /\
  option_map (fun s => (st_next_lsn s, st_floor_broken s)) (st_run cfg_now st_init su_defect_b_es) = Some (6, false).
Proof. split; vm_compute; reflexivity. Qed.

(* ------------------------------------------------------------------ *)
(** * A worked history for the current code (used by the non-vacuity examples) *)

Definition su_obs (o : option st_state) : option (N * N * list (N * N) * list (N * N) * list (N * N)) :=
  option_map (fun s => (st_phase_no s, st_next_lsn s, st_log_lsns s, st_disk_lsns s, st_mem_lsns s)) o.

(** fresh database; one transaction on pages 5, 6, 7 (LSNs 0..5), page 5 written; killed *)
Definition su_demo_a : list st_event :=
  [StEvAppend st_nopage; StEvAppend 5; StEvAppend 6; StEvAppend 7; StEvAppend 5; StEvCommit; StEvWritePage 5; StEvCrash].
(** restart killed after two page writes of step 4 *)
Definition su_demo_b : list st_event := su_demo_a ++ [StEvRestart; StEvWritePage 6; StEvWritePage 7; StEvCrash].
(** restart killed right after the truncation (step 5) *)
Definition su_demo_c : list st_event :=
  su_demo_b ++ [StEvRestart; StEvWritePage 7; StEvWritePage 5; StEvWritePage 6; StEvTruncate; StEvCrash].
(** complete restart *)
Definition su_demo_d : list st_event := su_demo_c ++ [StEvRestart; StEvTruncate; StEvStartupLog].
(** more work (one committed transaction, one unfinished), killed, restart up to step 3 *)
Definition su_demo_e : list st_event :=
  su_demo_d ++ [StEvAppend st_nopage; StEvAppend 6; StEvCommit; StEvAppend st_nopage; StEvAppend 7; StEvCrash; StEvRestart].
(** ... and completed *)
Definition su_demo_f : list st_event := su_demo_e ++ [StEvWritePage 6; StEvTruncate; StEvStartupLog].

(** the same history as a recorded I/O trace *)
Definition su_demo_trace : list st_line :=
  [ StLnStart;
    StLnLog [(0, st_nopage); (1, 5); (2, 6); (3, 7); (4, 5); (5, st_nopage)]; StLnPage 5 4; StLnKill;
    StLnStart; StLnPage 6 2; StLnPage 7 3; StLnKill;
    StLnStart; StLnPage 7 3; StLnPage 5 4; StLnPage 6 2; StLnGC; StLnKill;
    StLnStart; StLnGC; StLnLog [(5, st_nopage)]; StLnPage 5 4;
    StLnLog [(6, st_nopage); (7, 6); (8, st_nopage)]; StLnKill;
    StLnStart; StLnPage 6 7; StLnGC; StLnLog [(9, st_nopage)] ].

(* ------------------------------------------------------------------ *)
(** * The statements of Props/C20Startup.v, for the current code *)

Lemma su_lsn_floor_now : forall es s, st_run cfg_now st_init es = Some s -> st_is_normal s = true ->
  (forall p, st_disk_lsn s p < st_next_lsn s \/ (st_disk_lsn s p = 0 /\ st_next_lsn s = 0)) /\
  (forall p, st_mem_lsn s p < st_next_lsn s \/ (st_mem_lsn s p = 0 /\ st_next_lsn s = 0)) /\
  (forall r, In r (st_dlog s ++ st_vbuf s) -> st_rlsn r < st_next_lsn s) /\
  su_incr (map st_rlsn (st_dlog s ++ st_vbuf s)).
Proof. exact (su_lsn_floor cfg_now eq_refl). Qed.

Lemma su_log_increasing_now : forall es s, st_run cfg_now st_init es = Some s -> su_incr (map st_rlsn (st_dlog s)).
Proof. exact (su_log_increasing cfg_now eq_refl). Qed.

Lemma su_redoable_now : forall es s, st_run cfg_now st_init es = Some s ->
  forall r, In r (st_dlog s) -> st_rpage r <> st_nopage ->
    st_redo_applies s r = true \/ In (st_rid r) (st_disk_img s (st_rpage r)).
Proof. exact (su_redoable cfg_now eq_refl). Qed.

Lemma su_no_lost_records_now : forall es s, st_run cfg_now st_init es = Some s -> st_lost_records s = [].
Proof. exact (su_no_lost_records cfg_now eq_refl). Qed.

Lemma su_never_lost_now : forall es s, st_run cfg_now st_init es = Some s ->
  forall r, In r (st_ghist s) -> st_rpage r <> st_nopage ->
    In (st_rid r) (st_disk_img s (st_rpage r)) \/ (In r (st_dlog s) /\ st_redo_applies s r = true).
Proof. exact (su_never_lost cfg_now eq_refl). Qed.

Lemma su_restart_restores_now : forall es s s', st_run cfg_now st_init es = Some s ->
  st_step cfg_now s StEvRestart = Some s' ->
  forall r, In r (st_dlog s') -> st_rpage r <> st_nopage -> In (st_rid r) (st_mem_img s' (st_rpage r)).
Proof. exact (su_restart_restores cfg_now eq_refl). Qed.

(** finding: with the page scan of step 2 the floor record of step 6 is not needed for any of the above *)
Lemma su_scan_alone_safe : forall es s, st_run (st_mkcfg false true) st_init es = Some s ->
  (st_is_normal s = true ->
     (forall p, st_disk_lsn s p < st_next_lsn s \/ (st_disk_lsn s p = 0 /\ st_next_lsn s = 0)) /\
     (forall p, st_mem_lsn s p < st_next_lsn s \/ (st_mem_lsn s p = 0 /\ st_next_lsn s = 0)) /\
     (forall r, In r (st_dlog s ++ st_vbuf s) -> st_rlsn r < st_next_lsn s) /\
     su_incr (map st_rlsn (st_dlog s ++ st_vbuf s))) /\
  st_lost_records s = [] /\
  (forall r, In r (st_ghist s) -> st_rpage r <> st_nopage ->
     In (st_rid r) (st_disk_img s (st_rpage r)) \/ (In r (st_dlog s) /\ st_redo_applies s r = true)).
Proof.
  intros es s Hrun. split; [|split].
  - exact (su_lsn_floor (st_mkcfg false true) eq_refl es s Hrun).
  - exact (su_no_lost_records (st_mkcfg false true) eq_refl es s Hrun).
  - exact (su_never_lost (st_mkcfg false true) eq_refl es s Hrun).
Qed.
