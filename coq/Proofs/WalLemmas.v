(** Lemmas about the write-ahead-logging / restart model (Model/Wal.v):
    page independence, structure of [log_ok], the redo pass ("redo repeats
    history"), and the slot-level view of replay.  Used by Proofs/WalProofs.v.
    Axiom-free; standard library only. *)
From Coq Require Import List NArith Bool PeanoNat Lia ZifyBool ZifyN ZifyNat.
From SDB Require Import Params Base.Assoc Model.Page Model.Wal Proofs.PageLemmas Proofs.LockProofs.
Import ListNotations.
Open Scope N_scope.

(* ------------------------------------------------------------------ *)
(** * Small generic facts *)

Lemma eqb_bytes_eq : forall a b, eqb_bytes a b = true -> a = b.
Proof.
  induction a as [|x a IH]; intros [|y b] H; cbn in H; try discriminate; [reflexivity|].
  apply andb_true_iff in H. destruct H as [H1 H2].
  apply N.eqb_eq in H1. subst y. f_equal. apply IH. exact H2.
Qed.

Lemma eqb_bytes_refl : forall a, eqb_bytes a a = true.
Proof. induction a as [|x a IH]; cbn; [reflexivity|]. rewrite N.eqb_refl. exact IH. Qed.

Lemma aentry_beq_eq : forall a b, aentry_beq a b = true -> a = b.
Proof.
  intros [[x m]|] [[y n]|] H; cbn in H; try discriminate; [|reflexivity].
  apply andb_true_iff in H. destruct H as [H1 H2].
  apply eqb_bytes_eq in H1. apply Bool.eqb_prop in H2. subst. reflexivity.
Qed.

Lemma astate_beq_eq : forall a b, astate_beq a b = true -> a = b.
Proof.
  induction a as [|x a IH]; intros [|y b] H; cbn in H; try discriminate; [reflexivity|].
  apply andb_true_iff in H. destruct H as [H1 H2].
  apply aentry_beq_eq in H1. subst y. f_equal. apply IH. exact H2.
Qed.

Lemma aget_In {A} : forall (m : list (N * A)) k v, aget m k = Some v -> In (k, v) m.
Proof.
  induction m as [|[k0 v0] m IH]; intros k v H; cbn [aget] in H; [discriminate|].
  destruct (N.eqb_spec k0 k) as [E|E].
  - inversion H; subst. left. reflexivity.
  - right. apply IH. exact H.
Qed.

Lemma fold_left_id {A B} (f : A -> B -> A) : forall l a,
  (forall a b, In b l -> f a b = a) -> fold_left f l a = a.
Proof.
  induction l as [|b l IH]; intros a H; cbn [fold_left]; [reflexivity|].
  rewrite H by (left; reflexivity). apply IH. intros a' b' Hb. apply H. right. exact Hb.
Qed.

(* ------------------------------------------------------------------ *)
(** * Pages are independent *)

Lemma get_page_aset_same ps p pg : get_page (aset ps p pg) p = pg.
Proof. unfold get_page. rewrite aget_aset_same. reflexivity. Qed.

Lemma get_page_aset_other ps p q pg : p <> q -> get_page (aset ps p pg) q = get_page ps q.
Proof. intros H. unfold get_page. rewrite aget_aset_other by exact H. reflexivity. Qed.

(** the new content of the page a record works on *)
Definition new_content (r : lrec) (pg : apage) : apage :=
  match l_kind r with
  | KNewPage _ _ => mkAP (l_lsn r) []
  | k => match op_of k with
         | Some o => mkAP (l_lsn r) (fst (astep (pslots pg) o))
         | None => pg
         end
  end.

Lemma do_rec_eq ps r :
  do_rec ps r = match page_of (l_kind r) with
                | Some p => aset ps p (new_content r (get_page ps p))
                | None => ps
                end.
Proof. unfold do_rec, new_content. destruct (l_kind r); reflexivity. Qed.

Lemma do_rec_nopage ps r : page_of (l_kind r) = None -> do_rec ps r = ps.
Proof. intros H. rewrite do_rec_eq, H. reflexivity. Qed.

Lemma get_do_same ps r p : page_of (l_kind r) = Some p ->
  get_page (do_rec ps r) p = new_content r (get_page ps p).
Proof. intros H. rewrite do_rec_eq, H. apply get_page_aset_same. Qed.

Lemma get_do_other ps r q : page_of (l_kind r) <> Some q ->
  get_page (do_rec ps r) q = get_page ps q.
Proof.
  intros H. rewrite do_rec_eq. destruct (page_of (l_kind r)) as [p|]; [|reflexivity].
  apply get_page_aset_other. intros E. apply H. subst. reflexivity.
Qed.

Lemma plsn_new_content r pg : page_of (l_kind r) <> None -> plsn (new_content r pg) = l_lsn r.
Proof. unfold new_content. destruct (l_kind r); cbn; intros H; try reflexivity; contradiction. Qed.

Definition undo_content (r : lrec) (pg : apage) : apage :=
  match inv_of (l_kind r) with
  | Some o => mkAP (plsn pg) (fst (astep (pslots pg) o))
  | None => pg
  end.

Lemma undo_rec_eq ps r :
  undo_rec ps r = match page_of (l_kind r), inv_of (l_kind r) with
                  | Some p, Some o => aset ps p (undo_content r (get_page ps p))
                  | _, _ => ps
                  end.
Proof. unfold undo_rec, undo_content. destruct (l_kind r); reflexivity. Qed.

Lemma undo_rec_nopage ps r : page_of (l_kind r) = None -> undo_rec ps r = ps.
Proof. intros H. unfold undo_rec. rewrite H. reflexivity. Qed.

Lemma undo_out_nopage ps r : page_of (l_kind r) = None -> undo_out ps r = [].
Proof. intros H. unfold undo_out. rewrite H. reflexivity. Qed.

Lemma get_undo_same ps r p : page_of (l_kind r) = Some p ->
  get_page (undo_rec ps r) p = undo_content r (get_page ps p).
Proof.
  intros H. rewrite undo_rec_eq, H. unfold undo_content.
  destruct (inv_of (l_kind r)) as [o|]; [|reflexivity].
  apply get_page_aset_same.
Qed.

Lemma get_undo_other ps r q : page_of (l_kind r) <> Some q ->
  get_page (undo_rec ps r) q = get_page ps q.
Proof.
  intros H. rewrite undo_rec_eq. destruct (page_of (l_kind r)) as [p|]; [|reflexivity].
  destruct (inv_of (l_kind r)) as [o|]; [|reflexivity].
  apply get_page_aset_other. intros E. apply H. subst. reflexivity.
Qed.

(** two page maps that agree on every page *)
Definition peq (ps ps' : pages) : Prop := forall q, get_page ps q = get_page ps' q.

Lemma peq_refl ps : peq ps ps.
Proof. intros q. reflexivity. Qed.

Lemma peq_undo_rec ps ps' r : peq ps ps' -> peq (undo_rec ps r) (undo_rec ps' r).
Proof.
  intros H q. destruct (page_of (l_kind r)) as [p|] eqn:E.
  - destruct (N.eq_dec p q) as [->|Hne].
    + rewrite !get_undo_same by exact E. rewrite H. reflexivity.
    + rewrite !get_undo_other by (rewrite E; congruence). apply H.
  - rewrite !undo_rec_nopage by exact E. apply H.
Qed.

Lemma peq_undo_out ps ps' r : peq ps ps' -> undo_out ps r = undo_out ps' r.
Proof. intros H. unfold undo_out. destruct (page_of (l_kind r)); [|reflexivity]. rewrite H. reflexivity. Qed.

(* ------------------------------------------------------------------ *)
(** * Structure of [log_ok] *)

Lemma replay_app l1 l2 ps : replay (l1 ++ l2) ps = replay l2 (replay l1 ps).
Proof. unfold replay. apply fold_left_app. Qed.

Lemma redo_app l1 l2 ps : redo (l1 ++ l2) ps = redo l2 (redo l1 ps).
Proof. unfold redo. apply fold_left_app. Qed.

Definition next_last (last : option N) (r : lrec) : option N :=
  if has_lsn (l_kind r) then Some (l_lsn r) else last.

Lemma log_ok_from_cons r rest ps last :
  log_ok_from (r :: rest) ps last = true ->
  (has_lsn (l_kind r) = true -> match last with Some n => n < l_lsn r | None => True end) /\
  rec_ok ps r = true /\ log_ok_from rest (do_rec ps r) (next_last last r) = true.
Proof.
  cbn [log_ok_from]. intros H.
  apply andb_true_iff in H. destruct H as [H H3].
  apply andb_true_iff in H. destruct H as [H1 H2].
  split; [|split; assumption].
  intros Hh. rewrite Hh in H1. destruct last as [n|]; [lia | exact I].
Qed.

Fixpoint last_after (l : list lrec) (last : option N) : option N :=
  match l with [] => last | r :: rest => last_after rest (next_last last r) end.

Lemma log_ok_from_app : forall l1 l2 ps last,
  log_ok_from (l1 ++ l2) ps last = true ->
  log_ok_from l1 ps last = true /\ log_ok_from l2 (replay l1 ps) (last_after l1 last) = true.
Proof.
  induction l1 as [|r l1 IH]; intros l2 ps last H.
  - split; [reflexivity | exact H].
  - rewrite <- app_comm_cons in H. apply log_ok_from_cons in H. destruct H as (H1 & H2 & H3).
    apply IH in H3. destruct H3 as [H3 H4]. split.
    + cbn [log_ok_from]. unfold next_last in H3. rewrite H2, H3.
      destruct (has_lsn (l_kind r)) eqn:Eh; [|reflexivity].
      specialize (H1 eq_refl). destruct last as [n|]; [|reflexivity].
      apply N.ltb_lt in H1. rewrite H1. reflexivity.
    + exact H4.
Qed.

(** every page LSN is at most the last LSN handed out; before the first
    LSN-carrying record nothing has been touched *)
Definition bounded (ps : pages) (last : option N) : Prop :=
  forall q, match last with
            | Some n => plsn (get_page ps q) <= n
            | None => get_page ps q = mkAP 0 []
            end.

Lemma page_has_lsn r p : page_of (l_kind r) = Some p -> has_lsn (l_kind r) = true.
Proof. destruct (l_kind r); cbn; intros H; try discriminate; reflexivity. Qed.

Lemma bounded_nil : bounded [] None.
Proof. intros q. reflexivity. Qed.

Lemma bounded_step ps last r :
  bounded ps last ->
  (has_lsn (l_kind r) = true -> match last with Some n => n < l_lsn r | None => True end) ->
  bounded (do_rec ps r) (next_last last r).
Proof.
  intros Hb Hl q. unfold next_last.
  destruct (page_of (l_kind r)) as [p|] eqn:Ep.
  - rewrite (page_has_lsn _ _ Ep) in *. specialize (Hl eq_refl).
    destruct (N.eq_dec p q) as [->|Hne].
    + rewrite get_do_same by exact Ep. rewrite plsn_new_content by congruence. lia.
    + rewrite get_do_other by (rewrite Ep; congruence).
      specialize (Hb q). destruct last as [n|]; [lia | rewrite Hb; cbn; lia].
  - rewrite do_rec_nopage by exact Ep. specialize (Hb q).
    destruct (has_lsn (l_kind r)) eqn:Eh; [|exact Hb].
    specialize (Hl eq_refl). destruct last as [n|]; [lia | rewrite Hb; cbn; lia].
Qed.

Lemma bounded_replay : forall l ps last,
  log_ok_from l ps last = true -> bounded ps last -> bounded (replay l ps) (last_after l last).
Proof.
  induction l as [|r l IH]; intros ps last H Hb; [exact Hb|].
  apply log_ok_from_cons in H. destruct H as (H1 & H2 & H3).
  cbn [replay fold_left last_after]. apply IH; [exact H3|]. apply bounded_step; assumption.
Qed.

(** the page LSN never decreases while the log is applied *)
Lemma plsn_mono : forall l ps last p,
  log_ok_from l ps last = true -> bounded ps last ->
  plsn (get_page ps p) <= plsn (get_page (replay l ps) p).
Proof.
  induction l as [|r l IH]; intros ps last p H Hb; [cbn; lia|].
  apply log_ok_from_cons in H. destruct H as (H1 & H2 & H3).
  cbn [replay fold_left].
  assert (Hb' := bounded_step _ _ _ Hb H1).
  specialize (IH _ _ p H3 Hb'). unfold replay in IH.
  assert (plsn (get_page ps p) <= plsn (get_page (do_rec ps r) p)); [|lia].
  destruct (page_of (l_kind r)) as [p'|] eqn:Ep.
  - destruct (N.eq_dec p' p) as [->|Hne].
    + rewrite get_do_same by exact Ep. rewrite plsn_new_content by congruence.
      specialize (H1 (page_has_lsn _ _ Ep)). specialize (Hb p).
      destruct last as [n|]; [lia | rewrite Hb; cbn; lia].
    + rewrite get_do_other by (rewrite Ep; congruence). lia.
  - rewrite do_rec_nopage by exact Ep. lia.
Qed.

(** LSNs of LSN-carrying records are above [last] and pairwise distinct *)
Lemma log_lsns : forall l ps last, log_ok_from l ps last = true ->
  (forall r, In r l -> has_lsn (l_kind r) = true -> match last with Some n => n < l_lsn r | None => True end) /\
  (forall r r', In r l -> In r' l -> has_lsn (l_kind r) = true -> has_lsn (l_kind r') = true ->
     l_lsn r = l_lsn r' -> r = r').
Proof.
  induction l as [|r0 l IH]; intros ps last H.
  - split; intros; contradiction.
  - apply log_ok_from_cons in H. destruct H as (H1 & H2 & H3).
    destruct (IH _ _ H3) as [IH1 IH2]. clear IH.
    assert (A : forall r, In r l -> has_lsn (l_kind r) = true ->
                match last with Some n => n < l_lsn r | None => True end /\
                (has_lsn (l_kind r0) = true -> l_lsn r0 < l_lsn r)).
    { intros r Hr Hh. specialize (IH1 r Hr Hh). unfold next_last in IH1.
      destruct (has_lsn (l_kind r0)) eqn:E0.
      - specialize (H1 eq_refl). split; [|intros _; exact IH1].
        destruct last as [n|]; [lia | exact I].
      - split; [exact IH1 | discriminate]. }
    split.
    + intros r [<-|Hr] Hh; [apply H1; exact Hh | apply A; assumption].
    + intros r r' [<-|Hr] [<-|Hr'] Hh Hh' E; try reflexivity.
      * destruct (A r' Hr' Hh') as [_ A2]. specialize (A2 Hh). lia.
      * destruct (A r Hr Hh) as [_ A2]. specialize (A2 Hh'). lia.
      * apply IH2; assumption.
Qed.

(* ------------------------------------------------------------------ *)
(** * Redo repeats history *)

(** records working on a page with LSN 0 are page creations (true when every page's
    creation is in the log, see [fresh_lsn0_ok]; false e.g. for a log whose very first
    record is an insert with LSN 0, which redo skips because a never-written page has LSN 0) *)
Definition lsn0_ok (l : list lrec) : bool :=
  forallb (fun r => match l_kind r with
                    | KNewPage _ _ => true
                    | k => match page_of k with Some _ => 0 <? l_lsn r | None => true end
                    end) l.

Lemma new_content_newpage0 r pg : l_lsn r = 0 ->
  (match l_kind r with
   | KNewPage _ _ => true
   | k => match page_of k with Some _ => 0 <? l_lsn r | None => true end
   end) = true -> page_of (l_kind r) <> None -> new_content r pg = mkAP 0 [].
Proof.
  intros E H Hp. unfold new_content. rewrite E in *.
  destruct (l_kind r); cbn in *; try discriminate; try contradiction; reflexivity.
Qed.

Lemma rec_ok_out_ok ps r p o : rec_ok ps r = true ->
  page_of (l_kind r) = Some p -> op_of (l_kind r) = Some o ->
  out_ok (snd (astep (pslots (get_page ps p)) o)) = true.
Proof.
  unfold rec_ok. destruct (l_kind r) as [p' s b|p' s|p' s b|p' s|p' s old new| | | |pv p'| |];
    cbn [page_of op_of]; intros H Hp Ho; try discriminate; inversion Hp; inversion Ho; subst; clear Hp Ho.
  - destruct (snd (astep (pslots (get_page ps p)) (PInsertAt s b))); try discriminate; reflexivity.
  - destruct (snd (astep (pslots (get_page ps p)) (PMark s))); try discriminate; reflexivity.
  - cbn [astep]. destruct (a_at (pslots (get_page ps p)) s) as [[[b' m]|]|]; try discriminate; reflexivity.
  - cbn [astep]. destruct (a_at (pslots (get_page ps p)) s) as [[[b' m]|]|]; try discriminate; reflexivity.
  - destruct (snd (astep (pslots (get_page ps p)) (PUpdate s new true))); try discriminate; reflexivity.
Qed.

(** The redo pass, started from pages each of which is the state of that page
    after some (page-specific) further prefix of the remaining log, ends in the
    replay state, and all its page operations succeed. *)
Lemma redo_sync : forall l2 psr last psd,
  log_ok_from l2 psr last = true -> bounded psr last -> lsn0_ok l2 = true ->
  (forall q, exists l21 l22, l2 = l21 ++ l22 /\ get_page psd q = get_page (replay l21 psr) q) ->
  (forall q, get_page (redo l2 psd) q = get_page (replay l2 psr) q) /\
  forallb out_ok (redo_outs l2 psd) = true.
Proof.
  induction l2 as [|r l2 IH]; intros psr last psd Hlog Hb H0 Hd.
  - split; [|reflexivity]. intros q. destruct (Hd q) as (l21 & l22 & E & Hq).
    symmetry in E. apply app_eq_nil in E. destruct E as [-> ->]. exact Hq.
  - assert (Hlog' := Hlog). apply log_ok_from_cons in Hlog'. destruct Hlog' as (H1 & H2 & H3).
    assert (Hb' := bounded_step _ _ _ Hb H1).
    cbn [lsn0_ok forallb] in H0. apply andb_true_iff in H0. destruct H0 as [H0 H0'].
    (* the state of every page after this record *)
    assert (Hd' : forall q, exists l21 l22, l2 = l21 ++ l22 /\
                   get_page (redo_rec psd r) q = get_page (replay l21 (do_rec psr r)) q).
    { intros q. destruct (Hd q) as (l21 & l22 & E & Hq).
      destruct l21 as [|r' l21].
      - (* in sync *)
        cbn in E. subst l22. exists [], l2. split; [reflexivity|]. cbn [replay fold_left] in *.
        unfold redo_rec. destruct (page_of (l_kind r)) as [p|] eqn:Ep.
        + destruct (N.eq_dec p q) as [->|Hne].
          * destruct (plsn (get_page psd q) <? l_lsn r) eqn:El.
            -- rewrite !get_do_same by exact Ep. rewrite Hq. reflexivity.
            -- rewrite get_do_same by exact Ep.
               specialize (H1 (page_has_lsn _ _ Ep)). specialize (Hb q).
               destruct last as [n|]; [rewrite Hq in El; lia|].
               rewrite Hq, Hb in *. cbn [plsn] in El.
               assert (E0 : l_lsn r = 0) by lia.
               rewrite (new_content_newpage0 r _ E0 H0) by congruence. reflexivity.
          * rewrite get_do_other by (rewrite Ep; congruence).
            destruct (plsn (get_page psd p) <? l_lsn r);
              [rewrite get_do_other by (rewrite Ep; congruence)|]; exact Hq.
        + rewrite do_rec_nopage by exact Ep. exact Hq.
      - (* the page is ahead: the record is skipped *)
        rewrite <- app_comm_cons in E. inversion E; subst r' l2. clear E.
        exists l21, l22. split; [reflexivity|]. cbn [replay fold_left] in Hq.
        unfold redo_rec. destruct (page_of (l_kind r)) as [p|] eqn:Ep; [|exact Hq].
        destruct (N.eq_dec p q) as [->|Hne].
        + assert (Hm : plsn (get_page (do_rec psr r) q) <= plsn (get_page (replay l21 (do_rec psr r)) q)).
          { apply log_ok_from_app in H3. destruct H3 as [H3 _].
            eapply plsn_mono; eassumption. }
          rewrite get_do_same in Hm by exact Ep. rewrite plsn_new_content in Hm by congruence.
          unfold replay in Hm. rewrite <- Hq in Hm.
          destruct (N.ltb_spec (plsn (get_page psd q)) (l_lsn r)) as [Hlt|_]; [lia | exact Hq].
        + destruct (plsn (get_page psd p) <? l_lsn r);
            [rewrite get_do_other by (rewrite Ep; congruence)|]; exact Hq. }
    destruct (IH _ _ _ H3 Hb' H0' Hd') as [IH1 IH2]. split.
    + intros q. cbn [redo replay fold_left]. apply IH1.
    + cbn [redo_outs]. rewrite forallb_app, IH2, andb_true_r.
      unfold redo_out. destruct (page_of (l_kind r)) as [p|] eqn:Ep; [|reflexivity].
      destruct (op_of (l_kind r)) as [o|] eqn:Eo; [|reflexivity].
      destruct (N.ltb_spec (plsn (get_page psd p)) (l_lsn r)) as [Hlt|_]; [|reflexivity].
      cbn [forallb]. rewrite andb_true_r.
      destruct (Hd p) as (l21 & l22 & E & Hq). destruct l21 as [|r' l21].
      * cbn [replay fold_left] in Hq. rewrite Hq. eapply rec_ok_out_ok; eassumption.
      * exfalso. rewrite <- app_comm_cons in E. inversion E; subst r' l2. clear E.
        cbn [replay fold_left] in Hq.
        assert (Hm : plsn (get_page (do_rec psr r) p) <= plsn (get_page (replay l21 (do_rec psr r)) p)).
        { apply log_ok_from_app in H3. destruct H3 as [H3 _]. eapply plsn_mono; eassumption. }
        rewrite get_do_same in Hm by exact Ep. rewrite plsn_new_content in Hm by congruence.
        unfold replay in Hm. rewrite <- Hq in Hm. lia.
Qed.

(** what [disk_ok] says about one page *)
Lemma disk_ok_page l disk q : disk_ok l disk = true ->
  exists l21 l22, l = l21 ++ l22 /\ get_page disk q = get_page (replay l21 []) q.
Proof.
  intros H. unfold get_page at 1. destruct (aget disk q) as [img|] eqn:E.
  - apply aget_In in E. unfold disk_ok in H. rewrite forallb_forall in H.
    specialize (H _ E). cbn [fst snd] in H. unfold page_is_prefix_state in H.
    apply existsb_exists in H. destruct H as (k & _ & Hk).
    apply andb_true_iff in Hk. destruct Hk as [Hk1 Hk2].
    apply N.eqb_eq in Hk1. apply astate_beq_eq in Hk2.
    exists (firstn k l), (skipn k l). split; [symmetry; apply firstn_skipn|].
    destruct img as [n a]. destruct (get_page (replay (firstn k l) []) q) as [n' a'].
    cbn [plsn pslots] in *. subst. reflexivity.
  - exists [], l. split; reflexivity.
Qed.

Lemma redo_repeats_lsn0 : forall l disk, log_ok l = true -> lsn0_ok l = true -> disk_ok l disk = true ->
  (forall p, get_page (redo l disk) p = get_page (replay l []) p) /\
  forallb out_ok (redo_outs l disk) = true.
Proof.
  intros l disk Hl H0 Hd. apply (redo_sync l [] None disk Hl bounded_nil H0).
  intros q. apply disk_ok_page. exact Hd.
Qed.

(** when every record's page was created in the log, records with LSN 0 are harmless *)
Lemma fresh_lsn0_aux : forall l ps last seen,
  log_ok_from l ps last = true -> fresh_pages_ok l seen = true ->
  (seen <> [] -> exists n, last = Some n) -> lsn0_ok l = true.
Proof.
  induction l as [|r l IH]; intros ps last seen Hl Hf Hs; [reflexivity|].
  apply log_ok_from_cons in Hl. destruct Hl as (H1 & H2 & H3).
  cbn [lsn0_ok forallb]. cbn [fresh_pages_ok] in Hf.
  assert (G : forall seen', (match l_kind r with KNewPage _ _ => False | _ => True end) ->
              fresh_pages_ok l seen' = true -> (seen' <> [] -> seen <> []) ->
              forallb (fun r => match l_kind r with
                    | KNewPage _ _ => true
                    | k => match page_of k with Some _ => 0 <? l_lsn r | None => true end
                    end) l = true).
  { intros seen' _ Hf' Hs'. apply (IH _ _ seen' H3 Hf').
    intros Hne. destruct (Hs (Hs' Hne)) as [n ->]. unfold next_last.
    destruct (has_lsn (l_kind r)); eexists; reflexivity. }
  assert (P : forall p, memN p seen = true -> has_lsn (l_kind r) = true -> (0 <? l_lsn r) = true).
  { intros p Hm Hh. specialize (H1 Hh).
    assert (Hne : seen <> []) by (intros ->; discriminate).
    destruct (Hs Hne) as [n ->]. lia. }
  destruct (l_kind r) as [p s b|p s|p s b|p s|p s old new| | | |pv p| |] eqn:Ek; cbn [page_of] in *;
    try (apply andb_true_iff in Hf; destruct Hf as [Hf1 Hf2];
         rewrite (P _ Hf1 eq_refl); cbn [andb]; apply (G seen I Hf2); tauto);
    try (cbn [andb]; apply (G seen I Hf); tauto).
  apply andb_true_iff in Hf. destruct Hf as [Hf1 Hf2]. cbn [andb].
  apply (IH _ _ (p :: seen) H3 Hf2). intros _. unfold next_last. rewrite Ek. cbn. eexists; reflexivity.
Qed.

Lemma fresh_lsn0_ok l : log_ok l = true -> fresh_pages_ok l [] = true -> lsn0_ok l = true.
Proof. intros Hl Hf. apply (fresh_lsn0_aux l [] None [] Hl Hf). intros H. contradiction. Qed.

(* ------------------------------------------------------------------ *)
(** * The slot-level view of a page operation *)

Definition aval (a : astate) (s : N) : aentry :=
  match a_at a s with Some e => e | None => None end.

Lemma page_val_aval ps p s : page_val ps p s = aval (pslots (get_page ps p)) s.
Proof. reflexivity. Qed.

Lemma aval_set a s s' e : (N.to_nat s' <= length a)%nat ->
  aval (set_nth a (N.to_nat s') e) s = if s' =? s then e else aval a s.
Proof.
  intros H. unfold aval, a_at. destruct (N.eqb_spec s' s) as [->|Hne].
  - rewrite nth_error_set_nth_eq by exact H. reflexivity.
  - rewrite nth_error_set_nth_neq by (try exact H; lia). reflexivity.
Qed.

Lemma aval_set_at a s s' e e0 : a_at a s' = Some e0 ->
  aval (set_nth a (N.to_nat s') e) s = if s' =? s then e else aval a s.
Proof. intros H. apply aval_set. apply nth_error_lt in H. lia. Qed.

(** the recorded-result check, on the page content *)
Definition a_rec_ok (a : astate) (k : rkind) : bool :=
  match k with
  | KInsert _ s b => match snd (astep a (PInsertAt s b)) with OInserted i => i =? s | _ => false end
  | KMark _ s => match snd (astep a (PMark s)) with OMarked _ => true | _ => false end
  | KApply _ s b => match a_at a s with Some (Some (b', _)) => eqb_bytes b b' | _ => false end
  | KRollback _ s => match a_at a s with Some (Some (_, true)) => true | _ => false end
  | KUpdate _ s old new =>
      match snd (astep a (PUpdate s new true)) with OUpdated o => eqb_bytes o old | _ => false end
  | _ => true
  end.

Lemma rec_ok_a ps r p : page_of (l_kind r) = Some p ->
  rec_ok ps r = a_rec_ok (pslots (get_page ps p)) (l_kind r).
Proof.
  unfold rec_ok. destruct (l_kind r); cbn [page_of a_rec_ok]; intros H;
    try discriminate; inversion H; subst; reflexivity.
Qed.

(** what the forward record found in its slot *)
Definition spre (v : aentry) (k : rkind) : Prop :=
  match k with
  | KInsert _ _ _ => v = None
  | KMark _ _ => exists b, v = Some (b, false)
  | KApply _ _ b => exists m, v = Some (b, m)
  | KRollback _ _ => exists b, v = Some (b, true)
  | KUpdate _ _ old _ => v = Some (old, false)
  | _ => True
  end.

Lemma a_step_slot a k p0 s0 o : slot_of k = Some (p0, s0) -> op_of k = Some o -> a_rec_ok a k = true ->
  spre (aval a s0) k /\
  (forall s, aval (fst (astep a o)) s = if s0 =? s then slot_step (aval a s0) k else aval a s).
Proof.
  destruct k as [p' s' b|p' s'|p' s' b|p' s'|p' s' old new| | | |pv p'| |]; cbn [slot_of op_of a_rec_ok];
    intros Hs Ho H; try discriminate; inversion Hs; inversion Ho; subst; clear Hs Ho.
  - (* insert *)
    cbn [astep] in *.
    destruct (blen b =? 0); [discriminate|].
    destruct (a_free a <? blen b + size_tuple); [discriminate|].
    cbn [fst snd] in *. apply N.eqb_eq in H.
    destruct (a_insert_at_slot_spec a s0) as [G1 G2]. cbv zeta in G1, G2. rewrite H in *.
    assert (Hv : aval a s0 = None).
    { unfold aval, a_at. destruct G2 as [-> | ->]; reflexivity. }
    split; [exact Hv|]. intros s. rewrite aval_set by exact G1. reflexivity.
  - (* mark *)
    cbn [astep] in *. destruct (a_at a s0) as [[[b [|]]|]|] eqn:E; try discriminate.
    assert (Hv : aval a s0 = Some (b, false)) by (unfold aval; rewrite E; reflexivity).
    split; [exists b; exact Hv|]. intros s. cbn [fst]. rewrite (aval_set_at _ _ _ _ _ E), Hv. reflexivity.
  - (* apply *)
    cbn [astep]. destruct (a_at a s0) as [[[b' m]|]|] eqn:E; try discriminate.
    apply eqb_bytes_eq in H. subst b'.
    assert (Hv : aval a s0 = Some (b, m)) by (unfold aval; rewrite E; reflexivity).
    split; [exists m; exact Hv|]. intros s. cbn [fst]. rewrite (aval_set_at _ _ _ _ _ E). reflexivity.
  - (* rollback *)
    cbn [astep]. destruct (a_at a s0) as [[[b' [|]]|]|] eqn:E; try discriminate.
    assert (Hv : aval a s0 = Some (b', true)) by (unfold aval; rewrite E; reflexivity).
    split; [exists b'; exact Hv|]. intros s. cbn [fst]. rewrite (aval_set_at _ _ _ _ _ E), Hv. reflexivity.
  - (* update *)
    cbn [astep] in *. destruct (blen new =? 0); [discriminate|].
    destruct (a_at a s0) as [[[old' [|]]|]|] eqn:E; try discriminate.
    destruct (a_free a + blen old' <? blen new); [discriminate|].
    destruct ((blen new <? blen old') && negb true); [discriminate|].
    cbn [fst snd] in *. apply eqb_bytes_eq in H. subst old'.
    assert (Hv : aval a s0 = Some (old, false)) by (unfold aval; rewrite E; reflexivity).
    split; [exact Hv|]. intros s. rewrite (aval_set_at _ _ _ _ _ E). reflexivity.
Qed.

(** one step of [slot_val]'s fold *)
Definition sv_step (p s : N) (v : aentry) (r : lrec) : aentry :=
  match l_kind r with
  | KNewPage _ p' => if p' =? p then None else v
  | k => if on_slot p s r then slot_step v k else v
  end.

Lemma slot_val_eq l p s : slot_val l p s = fold_left (sv_step p s) l None.
Proof. reflexivity. Qed.

Lemma slot_page k p s : slot_of k = Some (p, s) -> page_of k = Some p.
Proof. destruct k; cbn; intros H; try discriminate; inversion H; reflexivity. Qed.

Lemma page_slot_or_new k p : page_of k = Some p ->
  (exists s, slot_of k = Some (p, s) /\ exists o, op_of k = Some o) \/ (exists pv, k = KNewPage pv p).
Proof.
  destruct k; cbn; intros H; try discriminate; inversion H; subst;
    try (left; eexists; split; [reflexivity | eexists; reflexivity]).
  right. eexists; reflexivity.
Qed.

Lemma nopage_noslot k : page_of k = None -> slot_of k = None.
Proof. destruct k; cbn; intros H; try discriminate; reflexivity. Qed.

Lemma sv_step_slot p s v r s0 : slot_of (l_kind r) = Some (p, s0) ->
  sv_step p s v r = if s0 =? s then slot_step v (l_kind r) else v.
Proof.
  intros H. unfold sv_step, on_slot. rewrite H, N.eqb_refl. cbn [andb].
  destruct (l_kind r); cbn in H; try discriminate; reflexivity.
Qed.

Lemma sv_step_otherpage p s v r : (forall q, page_of (l_kind r) = Some q -> q <> p) -> sv_step p s v r = v.
Proof.
  intros H. unfold sv_step, on_slot.
  destruct (l_kind r) as [p' s' b|p' s'|p' s' b|p' s'|p' s' old new| | | |pv p'| |]; cbn [slot_of page_of] in *;
    try reflexivity;
    try (destruct (N.eqb_spec p' p) as [E|E]; [exfalso; apply (H p'); [reflexivity | exact E] | reflexivity]).
Qed.

Lemma new_content_op r pg o : op_of (l_kind r) = Some o ->
  new_content r pg = mkAP (l_lsn r) (fst (astep (pslots pg) o)).
Proof.
  unfold new_content. destruct (l_kind r); cbn [op_of]; intros H; try discriminate; inversion H; reflexivity.
Qed.

Lemma rec_step_slot ps r p s : rec_ok ps r = true ->
  (on_slot p s r = true -> spre (page_val ps p s) (l_kind r)) /\
  page_val (do_rec ps r) p s = sv_step p s (page_val ps p s) r.
Proof.
  intros Hr. destruct (page_of (l_kind r)) as [p'|] eqn:Ep.
  - destruct (N.eq_dec p' p) as [->|Hne].
    + rewrite !page_val_aval. rewrite get_do_same by exact Ep.
      destruct (page_slot_or_new _ _ Ep) as [(s0 & Hs & o & Ho)|(pv & Ek)].
      * rewrite (rec_ok_a _ _ _ Ep) in Hr.
        destruct (a_step_slot _ _ _ _ _ Hs Ho Hr) as [G1 G2].
        split.
        -- unfold on_slot. rewrite Hs, N.eqb_refl. cbn [andb]. intros E. apply N.eqb_eq in E. subst s0. exact G1.
        -- rewrite (sv_step_slot _ _ _ _ _ Hs). rewrite (new_content_op _ _ _ Ho).
           cbn [pslots]. rewrite G2. destruct (N.eqb_spec s0 s) as [->|_]; reflexivity.
      * split.
        -- unfold on_slot. rewrite Ek. cbn. discriminate.
        -- unfold sv_step, new_content. rewrite Ek. rewrite N.eqb_refl. cbn [pslots].
           unfold aval, a_at. destruct (N.to_nat s); reflexivity.
    + split.
      * unfold on_slot. destruct (slot_of (l_kind r)) as [[p1 s1]|] eqn:Es; [|discriminate].
        apply slot_page in Es. rewrite Ep in Es. inversion Es; subst p1.
        destruct (N.eqb_spec p' p) as [E|_]; [contradiction | cbn; discriminate].
      * unfold page_val. rewrite get_do_other by (rewrite Ep; congruence).
        rewrite sv_step_otherpage; [reflexivity|]. intros q Hq. rewrite Ep in Hq. inversion Hq; subst. exact Hne.
  - split.
    + unfold on_slot. rewrite (nopage_noslot _ Ep). discriminate.
    + rewrite do_rec_nopage by exact Ep. rewrite sv_step_otherpage; [reflexivity|].
      intros q Hq. rewrite Ep in Hq. discriminate.
Qed.

Fixpoint spre_from (p s : N) (l : list lrec) (v : aentry) : Prop :=
  match l with
  | [] => True
  | r :: rest => (on_slot p s r = true -> spre v (l_kind r)) /\ spre_from p s rest (sv_step p s v r)
  end.

(** replaying the log: slot by slot it is [slot_val]'s fold, and every record
    found in its slot what it recorded *)
Lemma replay_slot : forall l ps last p s, log_ok_from l ps last = true ->
  page_val (replay l ps) p s = fold_left (sv_step p s) l (page_val ps p s) /\
  spre_from p s l (page_val ps p s).
Proof.
  induction l as [|r l IH]; intros ps last p s H; [split; [reflexivity | exact I]|].
  apply log_ok_from_cons in H. destruct H as (_ & H2 & H3).
  destruct (rec_step_slot ps r p s H2) as [G1 G2].
  destruct (IH _ _ p s H3) as [IH1 IH2]. rewrite G2 in IH1, IH2.
  cbn [replay fold_left spre_from]. split; [exact IH1 | split; assumption].
Qed.

Lemma page_val_nil p s : page_val [] p s = None.
Proof. unfold page_val, get_page, a_at. cbn. destruct (N.to_nat s); reflexivity. Qed.

Lemma replay_slot_val l p s : log_ok l = true -> page_val (replay l []) p s = slot_val l p s.
Proof. intros H. destruct (replay_slot l [] None p s H) as [G _]. rewrite page_val_nil in G. exact G. Qed.

Lemma spre_from_app p s : forall l1 l2 v,
  spre_from p s (l1 ++ l2) v <-> spre_from p s l1 v /\ spre_from p s l2 (fold_left (sv_step p s) l1 v).
Proof.
  induction l1 as [|r l1 IH]; intros l2 v; cbn [app spre_from fold_left]; [tauto|].
  rewrite IH. tauto.
Qed.
