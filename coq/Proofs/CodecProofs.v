(** Proofs about the key codec (M1). *)
From Coq Require Import List NArith ZArith Lia Bool.
From Coq Require Import ZifyBool ZifyN ZifyNat.
From SDB Require Import Base.Bytes Params Model.Codec Proofs.BytesProofs.
Import ListNotations.
Open Scope N_scope.

Ltac Zify.zify_post_hook ::= Z.div_mod_to_equations.

(** * Bit-level facts about the 2^31 mask *)

Lemma testbit31_small u : u < two31 -> N.testbit u 31 = false.
Proof.
  intros Hu. destruct (N.eq_dec u 0) as [->|Hn]; [reflexivity|].
  apply N.bits_above_log2. apply N.log2_lt_pow2; [lia|]. exact Hu.
Qed.

Lemma land_two31_small u : u < two31 -> N.land u two31 = 0.
Proof.
  intros Hu. apply N.bits_inj; intros m. rewrite N.land_spec, N.bits_0.
  change two31 with (2 ^ 31). rewrite N.pow2_bits_eqb.
  destruct (N.eqb_spec 31 m) as [<-|Hne].
  - now rewrite testbit31_small.
  - apply andb_false_r.
Qed.

Lemma lor_two31_small u : u < two31 -> N.lor u two31 = u + two31.
Proof.
  intros Hu. rewrite <- N.lxor_lor by now apply land_two31_small.
  symmetry. apply N.add_nocarry_lxor. now apply land_two31_small.
Qed.

Lemma split31 u : u = (u / two31) * two31 + u mod two31.
Proof. unfold two31. lia. Qed.

Lemma lor_two31_big u : two31 <= u -> u < two32 -> N.lor u two31 = u.
Proof.
  intros H1 H2.
  assert (E : u = (u - two31) + two31) by (unfold two31 in *; lia).
  rewrite E at 1. rewrite <- lor_two31_small by (unfold two31, two32 in *; lia).
  rewrite <- N.lor_assoc, N.lor_diag.
  rewrite lor_two31_small by (unfold two31, two32 in *; lia). unfold two31 in *; lia.
Qed.

Lemma land_two31_big u : two31 <= u -> u < two32 -> N.land u two31 = two31.
Proof.
  intros H1 H2.
  assert (E : u = (u - two31) + two31) by (unfold two31 in *; lia).
  rewrite E. rewrite <- lor_two31_small by (unfold two31, two32 in *; lia).
  rewrite N.land_lor_distr_l, N.land_diag.
  rewrite land_two31_small by (unfold two31, two32 in *; lia). reflexivity.
Qed.

Lemma land_low31 e : N.land e (lnot32 two31) = e mod two31.
Proof. change (lnot32 two31) with (N.ones 31). rewrite N.land_ones. reflexivity. Qed.

Ltac list_eq_lia := repeat (apply (f_equal2 (@cons N)); [lia|]); try reflexivity.

(** * The top-byte xor *)

Lemma byte_cases (P : N -> bool) :
  forallb P (map N.of_nat (seq 0 256)) = true -> forall b, b < 256 -> P b = true.
Proof.
  intros H b Hb. rewrite forallb_forall in H. apply H.
  apply in_map_iff. exists (N.to_nat b). split; [lia|]. apply in_seq. lia.
Qed.

Lemma lxor_128 b : b < 256 -> N.lxor b 128 = if b <? 128 then b + 128 else b - 128.
Proof.
  intros Hb.
  pose proof (byte_cases (fun b => N.lxor b 128 =? (if b <? 128 then b + 128 else b - 128))
                eq_refl b Hb) as H.
  now apply N.eqb_eq in H.
Qed.

Lemma be4_unfold u :
  be 4 u = [ (u / 256 / 256 / 256) mod 256; (u / 256 / 256) mod 256; (u / 256) mod 256; u mod 256 ].
Proof. reflexivity. Qed.

Definition flip31 (u : N) : N := if u <? two31 then u + two31 else u - two31.

Lemma xor_top_be4 u : u < two32 -> xor_top (be 4 u) = be 4 (flip31 u).
Proof.
  intros Hu. rewrite !be4_unfold. unfold xor_top.
  change sign_mask_small with 128.
  rewrite lxor_128 by (apply N.mod_lt; lia).
  unfold flip31, two31, two32 in *.
  destruct (u <? 2147483648) eqn:E1; destruct (_ <? 128) eqn:E2;
    list_eq_lia.
Qed.

Lemma flip31_lt u : u < two32 -> flip31 u < two32.
Proof. unfold flip31, two31, two32. intros; destruct (u <? _) eqn:?; lia. Qed.

Lemma flip31_invol u : u < two32 -> flip31 (flip31 u) = u.
Proof.
  unfold flip31, two31, two32. intros Hu.
  destruct (u <? 2147483648) eqn:E1;
    match goal with |- (if ?c then _ else _) = _ => destruct c eqn:E2 end; lia.
Qed.

Definition int_ok (z : Z) : Prop := (-2147483648 <= z < 2147483648)%Z.

Lemma u32_of_z_lt z : u32_of_z z < two32.
Proof. unfold u32_of_z, two32. lia. Qed.

Lemma flip31_u32 z : int_ok z -> flip31 (u32_of_z z) = Z.to_N (z + 2147483648).
Proof.
  unfold int_ok, flip31, u32_of_z, two31. intros Hz.
  destruct (_ <? _) eqn:E; lia.
Qed.

Lemma z_of_u32_of_z z : int_ok z -> z_of_u32 (u32_of_z z) = z.
Proof.
  unfold int_ok, z_of_u32, u32_of_z, two31. intros Hz.
  destruct (_ <? _) eqn:E; lia.
Qed.

Lemma pow256_4 : pow256 4 = two32.
Proof. reflexivity. Qed.

Lemma enc_int_alt z : int_ok z -> enc_int z = be 4 (Z.to_N (z + 2147483648)).
Proof.
  intros Hz. unfold enc_int. rewrite xor_top_be4 by apply u32_of_z_lt.
  now rewrite flip31_u32.
Qed.

(** * C18: integers *)

Lemma enc_int_order x y : int_ok x -> int_ok y ->
  lex_cmp (enc_int x) (enc_int y) = (x ?= y)%Z.
Proof.
  intros Hx Hy. rewrite !enc_int_alt by assumption.
  unfold int_ok in *.
  rewrite be_cmp by (rewrite pow256_4; unfold two32; lia).
  match goal with |- (?a ?= ?b) = _ => destruct (N.compare_spec a b) end;
    destruct (Z.compare_spec x y); try reflexivity; lia.
Qed.

Lemma enc_int_length z : length (enc_int z) = 4%nat.
Proof. reflexivity. Qed.

Lemma dec_enc_int z : int_ok z -> dec_int (enc_int z) = z.
Proof.
  intros Hz. unfold dec_int.
  rewrite firstn_all2 by (rewrite enc_int_length; lia).
  unfold enc_int. rewrite xor_top_be4 by apply u32_of_z_lt.
  rewrite xor_top_be4 by (apply flip31_lt, u32_of_z_lt).
  rewrite flip31_invol by apply u32_of_z_lt.
  rewrite be_dec_be by (rewrite pow256_4; apply u32_of_z_lt).
  rewrite N.mul_0_l, N.add_0_l. now apply z_of_u32_of_z.
Qed.

(** * C18: floats (bit patterns) *)

Definition f_ok (u : N) : Prop := u < two32 /\ f_is_nan u = false.

Lemma f_nan_high u : u < two32 -> f_is_nan u = false ->
  (u < two31 -> u <= 2139095040) /\ (two31 <= u -> u <= 4286578688).
Proof.
  unfold f_is_nan, f_exp, f_man, two31, two32. intros Hu Hn.
  apply andb_false_iff in Hn. split; intros; destruct Hn as [Hn|Hn]; lia.
Qed.

(** The encoded word of a non-NaN float, arithmetically. *)
Lemma enc_f32_word_alt u : f_ok u ->
  enc_f32_word u =
    if u <? two31 then u + two31
    else if u =? two31 then two31
    else two32 - 1 - u.
Proof.
  intros [Hu Hn]. unfold enc_f32_word, f_ge0. rewrite Hn. cbn [negb andb].
  change sign_mask_big with two31.
  destruct (u <? two31) eqn:E1; cbn [orb].
  - apply lor_two31_small. lia.
  - destruct (u =? two31) eqn:E2.
    + apply N.eqb_eq in E2. subst u. reflexivity.
    + reflexivity.
Qed.

Lemma enc_f32_word_lt u : f_ok u -> enc_f32_word u < two32.
Proof.
  intros H. rewrite enc_f32_word_alt by assumption. destruct H as [Hu _].
  unfold two31, two32 in *. destruct (u <? 2147483648) eqn:E1; [lia|]. destruct (u =? 2147483648) eqn:E2; lia.
Qed.

Lemma enc_f32_order u v : f_ok u -> f_ok v ->
  lex_cmp (enc_f32 u) (enc_f32 v) = f_cmp u v.
Proof.
  intros Hu Hv. unfold enc_f32.
  rewrite be_cmp by (rewrite pow256_4; now apply enc_f32_word_lt).
  rewrite !enc_f32_word_alt by assumption.
  destruct Hu as [Hu _], Hv as [Hv _].
  unfold f_cmp, f_key, two31, two32 in *.
  destruct (u <? 2147483648) eqn:E1; destruct (v <? 2147483648) eqn:E2;
    destruct (u =? 2147483648) eqn:E3; destruct (v =? 2147483648) eqn:E4;
    match goal with |- (?a ?= ?b) = (?c ?= ?d)%Z =>
      destruct (N.compare_spec a b); destruct (Z.compare_spec c d); try reflexivity; lia end.
Qed.

Lemma enc_f32_length u : length (enc_f32 u) = 4%nat.
Proof. reflexivity. Qed.

(** Decoding returns the same bits, except that -0.0 comes back as +0.0. *)
Lemma dec_enc_f32 u : f_ok u ->
  dec_f32 (enc_f32 u) = if u =? two31 then 0 else u.
Proof.
  intros Hok. pose proof (enc_f32_word_lt u Hok) as Hlt.
  unfold dec_f32. rewrite firstn_all2 by (rewrite enc_f32_length; lia).
  unfold enc_f32. rewrite be_dec_be by (rewrite pow256_4; assumption).
  rewrite N.mul_0_l, N.add_0_l.
  rewrite enc_f32_word_alt in * by assumption.
  destruct Hok as [Hu Hn].
  unfold dec_f32_word. change sign_mask_big with two31.
  destruct (u <? two31) eqn:E1.
  - rewrite land_two31_big by (unfold two31, two32 in *; lia).
    rewrite land_low31. cbn [N.ltb].
    replace (0 <? two31) with true by reflexivity.
    destruct (u =? two31) eqn:E3; unfold two31 in *; lia.
  - destruct (u =? two31) eqn:E3.
    + rewrite land_two31_big by (unfold two31, two32 in *; lia).
      replace (0 <? two31) with true by reflexivity. rewrite land_low31. reflexivity.
    + rewrite land_two31_small by (unfold two31, two32, lnot32 in *; lia).
      replace (0 <? 0) with false by reflexivity.
      unfold lnot32, two31, two32 in *. lia.
Qed.

Lemma dec_enc_f32_same_value u : f_ok u -> f_cmp (dec_f32 (enc_f32 u)) u = Eq.
Proof.
  intros Hok. rewrite dec_enc_f32 by assumption. unfold f_cmp, f_key, two31.
  destruct (u =? 2147483648) eqn:E.
  - apply N.eqb_eq in E; subst u. reflexivity.
  - apply Z.compare_refl.
Qed.

(** * C18: strings *)

Definition nul_free (s : list N) : Prop := Forall (fun b => 0 < b) s.

Lemma str_order s : forall t r1 r2, nul_free s -> nul_free t -> s <> t ->
  lex_cmp (s ++ 0 :: r1) (t ++ 0 :: r2) = lex_cmp s t.
Proof.
  induction s as [|x s IH]; intros [|y t] r1 r2 Hs Ht Hne.
  - congruence.
  - cbn [lex_cmp app]. inversion Ht as [|? ? Hy _]; subst.
    destruct (N.compare_spec 0 y); try reflexivity; lia.
  - cbn [lex_cmp app]. inversion Hs as [|? ? Hx _]; subst.
    destruct (N.compare_spec x 0); try reflexivity; lia.
  - cbn [lex_cmp app]. inversion Hs; inversion Ht; subst.
    destruct (N.compare_spec x y) as [E|E|E]; try reflexivity.
    subst. apply IH; auto. congruence.
Qed.

Lemma enc_str_order s t p1 s1 p2 s2 : nul_free s -> nul_free t -> s <> t ->
  lex_cmp (enc_str_key s p1 s1) (enc_str_key t p2 s2) = lex_cmp s t.
Proof. intros. unfold enc_str_key. cbn [app]. now apply str_order. Qed.

Lemma rid_suffix_length p s : length (rid_suffix p s) = 8%nat.
Proof. reflexivity. Qed.

Lemma dec_enc_str s p sl : dec_str_key (enc_str_key s p sl) = s.
Proof.
  unfold dec_str_key, enc_str_key. rewrite !app_length, rid_suffix_length. cbn [length].
  apply firstn_app_exact. lia.
Qed.

(** * C18: row ids *)

Definition rid_ok (page : Z) (slot : N) : Prop :=
  (0 <= page < 2147483648)%Z /\ slot < two32.

Lemma unpack_pack64 p s : rid_ok p s -> unpack64 (pack64 p s) = (p, s).
Proof.
  intros [Hp Hs]. unfold unpack64, pack64, z_of_u32, u32_of_z, two31, two32 in *.
  f_equal.
  - destruct (_ <? _) eqn:E; lia.
  - lia.
Qed.

Lemma unpack_pack8 p s : rid_ok p s -> unpack8 (pack8 p s) = (p, s).
Proof.
  intros [Hp Hs]. unfold unpack8, pack8.
  rewrite firstn_app_exact by reflexivity.
  rewrite skipn_app_exact by reflexivity.
  rewrite firstn_all2 by (rewrite be_length; lia).
  rewrite !be_dec_be by (rewrite pow256_4; auto using u32_of_z_lt).
  rewrite N.mul_0_l, !N.add_0_l. f_equal.
  apply z_of_u32_of_z. unfold int_ok; lia.
Qed.

Lemma unpack_pack6 p s : rid_ok p s -> s < 65536 -> unpack6 (pack6 p s) = (p, s).
Proof.
  intros Hok Hs. transitivity (unpack8 (pack8 p s)); [|now apply unpack_pack8].
  unfold unpack6, pack6. f_equal.
  unfold pack8. rewrite !be4_unfold. cbn [app firstn skipn].
  list_eq_lia.
Qed.

Lemma unpack_pack32 p s : (0 <= p < 65536)%Z -> s < 65536 -> unpack32 (pack32 p s) = (p, s).
Proof.
  intros Hp Hs. unfold unpack32, pack32, u32_of_z. f_equal; lia.
Qed.

(** * C18: entries with the same key stay adjacent; ScanKey brackets *)

Lemma key_prefix_order (k1 k2 r1 r2 : list N) :
  length k1 = length k2 -> lex_cmp k1 k2 = Lt -> lex_cmp (k1 ++ r1) (k2 ++ r2) = Lt.
Proof. intros Hl Hc. rewrite lex_cmp_app by assumption. now rewrite Hc. Qed.

Lemma le8_unfold a :
  le 8 a = [ a mod 256; (a / 256) mod 256; (a / 256 / 256) mod 256; (a / 256 / 256 / 256) mod 256;
             (a / 256 / 256 / 256 / 256) mod 256; (a / 256 / 256 / 256 / 256 / 256) mod 256;
             (a / 256 / 256 / 256 / 256 / 256 / 256) mod 256;
             (a / 256 / 256 / 256 / 256 / 256 / 256 / 256) mod 256 ].
Proof. reflexivity. Qed.

Lemma rid_suffix_split p s : rid_ok p s ->
  rid_suffix p s = le 4 (Z.to_N p) ++ le 4 s.
Proof.
  intros [Hp Hs]. unfold rid_suffix, pack64, u32_of_z, two32 in *.
  rewrite le8_unfold. cbn [le app].
  list_eq_lia.
Qed.

(** ScanKey uses the suffixes of rid (0,0) and (MaxInt32, MaxUint32) as bounds. *)
Definition rid_min_suffix : list N := rid_suffix 0 0.
Definition rid_max_suffix : list N := rid_suffix 2147483647 4294967295.

Lemma lex_le_all_ff (l : list N) : bytes_ok l = true ->
  lex_cmp l (map (fun _ => 255) l) <> Gt.
Proof.
  induction l as [|x l IH]; cbn; [discriminate|].
  intros H. apply andb_true_iff in H as [Hx Hl]. unfold is_byte in Hx.
  destruct (N.compare_spec x 255); try discriminate; [now apply IH | lia].
Qed.

Lemma rid_suffix_ge_min p s : rid_ok p s -> lex_cmp rid_min_suffix (rid_suffix p s) <> Gt.
Proof.
  intros Hok. rewrite (rid_suffix_split p s Hok).
  change rid_min_suffix with [0;0;0;0;0;0;0;0].
  cbn [le app lex_cmp].
  repeat match goal with |- context [0 ?= ?x] =>
    let E := fresh in destruct (N.compare_spec 0 x) as [E|E|E]; try discriminate; try lia end.
Qed.

Lemma rid_suffix_le_max p s : rid_ok p s -> lex_cmp (rid_suffix p s) rid_max_suffix <> Gt.
Proof.
  intros Hok. rewrite (rid_suffix_split p s Hok). destruct Hok as [Hp Hs].
  change rid_max_suffix with [255;255;255;127;255;255;255;255].
  cbn [le app lex_cmp]. unfold two32 in *.
  repeat match goal with |- context [?x ?= ?c] =>
    let E := fresh in destruct (N.compare_spec x c) as [E|E|E]; try discriminate; try lia end.
Qed.

(** * Same key adjacent / bracket statements, per key type *)

Lemma not_gt_both_eq a b : lex_cmp a b <> Gt -> lex_cmp b a <> Gt -> a = b.
Proof.
  intros H1 H2. rewrite (lex_cmp_antisym a b) in H2.
  destruct (lex_cmp a b) eqn:E; cbn in *; try congruence. now apply lex_cmp_eq.
Qed.

Lemma int_key_adjacent k k' p s p' s' : int_ok k -> int_ok k' -> (k < k')%Z ->
  lex_cmp (enc_int_key k p s) (enc_int_key k' p' s') = Lt.
Proof.
  intros Hk Hk' Hlt. apply key_prefix_order; [reflexivity|].
  rewrite enc_int_order by assumption. now apply Z.compare_lt_iff.
Qed.

Lemma f32_key_adjacent u v p s p' s' : f_ok u -> f_ok v -> f_cmp u v = Lt ->
  lex_cmp (enc_f32_key u p s) (enc_f32_key v p' s') = Lt.
Proof.
  intros Hu Hv Hlt. apply key_prefix_order; [reflexivity|]. now rewrite enc_f32_order.
Qed.

Lemma str_key_adjacent s t p1 s1 p2 s2 : nul_free s -> nul_free t -> lex_cmp s t = Lt ->
  lex_cmp (enc_str_key s p1 s1) (enc_str_key t p2 s2) = Lt.
Proof.
  intros Hs Ht Hlt. rewrite enc_str_order; auto.
  intros ->. rewrite lex_cmp_refl in Hlt. discriminate.
Qed.

Definition between (lo x hi : list N) : Prop := lex_cmp lo x <> Gt /\ lex_cmp x hi <> Gt.

Lemma int_scankey_bracket k k' p s : int_ok k -> int_ok k' -> rid_ok p s ->
  between (enc_int_key k 0 0) (enc_int_key k' p s) (enc_int_key k 2147483647 4294967295)
  <-> k' = k.
Proof.
  intros Hk Hk' Hr. unfold between, enc_int_key.
  rewrite !lex_cmp_app by reflexivity. rewrite !enc_int_order by assumption.
  split.
  - intros [H1 H2].
    destruct (Z.compare_spec k k') as [E|E|E]; [auto| |congruence].
    destruct (Z.compare_spec k' k) as [E'|E'|E']; [auto|lia|congruence].
  - intros ->. rewrite Z.compare_refl. split.
    + now apply rid_suffix_ge_min.
    + now apply rid_suffix_le_max.
Qed.

Lemma f_cmp_antisym u v : f_cmp v u = CompOpp (f_cmp u v).
Proof. unfold f_cmp. apply Z.compare_antisym. Qed.

Lemma f32_scankey_bracket u v p s : f_ok u -> f_ok v -> rid_ok p s ->
  between (enc_f32_key u 0 0) (enc_f32_key v p s) (enc_f32_key u 2147483647 4294967295)
  <-> f_cmp v u = Eq.
Proof.
  intros Hu Hv Hr. unfold between, enc_f32_key.
  rewrite !lex_cmp_app by reflexivity. rewrite !enc_f32_order by assumption.
  rewrite (f_cmp_antisym v u).
  split.
  - intros [H1 H2]. destruct (f_cmp v u) eqn:E; cbn in *; congruence.
  - intros E. rewrite E. cbn. split.
    + now apply rid_suffix_ge_min.
    + now apply rid_suffix_le_max.
Qed.

Lemma str_scankey_bracket s t p sl : nul_free s -> nul_free t -> rid_ok p sl ->
  between (enc_str_key s 0 0) (enc_str_key t p sl) (enc_str_key s 2147483647 4294967295)
  <-> t = s.
Proof.
  intros Hs Ht Hr. unfold between. split.
  - intros [H1 H2].
    destruct (list_eq_dec N.eq_dec s t) as [E|E]; [auto|].
    rewrite enc_str_order in H1 by auto.
    rewrite enc_str_order in H2 by auto.
    now apply not_gt_both_eq.
  - intros ->. unfold enc_str_key. rewrite !lex_cmp_app_same.
    split.
    + now apply rid_suffix_ge_min.
    + now apply rid_suffix_le_max.
Qed.

(** * B-tree key padding *)

Lemma elim_zero_padded key pad : N.of_nat pad < 65536 ->
  elim_zero (key ++ zeros pad ++ be 2 (N.of_nat pad)) = key.
Proof.
  intros Hp.
  assert (Hlen : length (key ++ zeros pad ++ be 2 (N.of_nat pad)) = (length key + pad + 2)%nat).
  { rewrite !app_length, zeros_length, be_length. lia. }
  assert (Hsk : skipn (length key + pad + 2 - 2) (key ++ zeros pad ++ be 2 (N.of_nat pad)) = be 2 (N.of_nat pad)).
  { rewrite app_assoc. apply skipn_app_exact. rewrite app_length, zeros_length. lia. }
  assert (Hdec : be_dec (be 2 (N.of_nat pad)) 0 = N.of_nat pad).
  { rewrite be_dec_be by (change (pow256 2) with 65536; lia). lia. }
  remember (be 2 (N.of_nat pad)) as B eqn:HB.
  unfold elim_zero. cbv zeta. rewrite Hlen, Hsk, Hdec, Nat2N.id.
  apply firstn_app_exact. lia.
Qed.

Lemma elim_fill_zero key maxlen k' : (14 <= maxlen)%nat -> N.of_nat maxlen < 65536 ->
  fill_zero key maxlen = Some k' -> elim_zero k' = key /\ length k' = maxlen.
Proof.
  intros Hm0 Hm. unfold fill_zero. cbv zeta.
  destruct (Nat.ltb_spec (maxlen - 12 - 2) (length key)) as [H|H]; [discriminate|].
  intros Hk.
  assert (E : k' = key ++ zeros (maxlen - length key - 2) ++ be 2 (N.of_nat (maxlen - length key - 2)))
    by congruence.
  clear Hk. subst k'. split.
  - apply elim_zero_padded. lia.
  - rewrite !app_length, zeros_length, be_length. lia.
Qed.


Lemma fill_zero_order s t p1 s1 p2 s2 maxlen a b : nul_free s -> nul_free t ->
  fill_zero (enc_str_key s p1 s1) maxlen = Some a ->
  fill_zero (enc_str_key t p2 s2) maxlen = Some b ->
  lex_cmp a b = lex_cmp (enc_str_key s p1 s1) (enc_str_key t p2 s2).
Proof.
  intros Hs Ht. unfold fill_zero. cbv zeta.
  destruct (Nat.ltb _ (length (enc_str_key s p1 s1))); [discriminate|].
  destruct (Nat.ltb _ (length (enc_str_key t p2 s2))); [discriminate|].
  intros [= <-] [= <-].
  destruct (list_eq_dec N.eq_dec s t) as [E|E].
  - subst t.
    assert (Hl : length (enc_str_key s p1 s1) = length (enc_str_key s p2 s2)).
    { unfold enc_str_key. rewrite !app_length, !rid_suffix_length. reflexivity. }
    rewrite Hl. rewrite lex_cmp_app by exact Hl.
    rewrite lex_cmp_refl. destruct (lex_cmp _ _); reflexivity.
  - rewrite (enc_str_order s t) by auto.
    unfold enc_str_key. cbn [app]. rewrite <- !app_assoc. cbn [app].
    now apply str_order.
Qed.
