(** Proofs about the index wrappers (M17): the ordered container stays strictly
    sorted, the wrapper refines the abstract multimap, ScanKey returns exactly
    the row ids stored under the key, range scans return the stored pairs within
    the bounds in (key, rid-suffix) order. *)
From Coq Require Import List NArith ZArith Lia Bool Sorted.
From SDB Require Import Base.Bytes Params Model.Codec Model.IndexWrap
  Proofs.BytesProofs Proofs.CodecProofs.
Import ListNotations.
Open Scope N_scope.

(** * Byte-string order *)

Lemma lex_cmp_trans a : forall b c,
  lex_cmp a b = Lt -> lex_cmp b c = Lt -> lex_cmp a c = Lt.
Proof.
  induction a as [|x a IH]; intros [|y b] [|z c]; cbn; try discriminate; auto.
  destruct (N.compare_spec x y) as [E1|E1|E1]; try discriminate;
    destruct (N.compare_spec y z) as [E2|E2|E2]; try discriminate; intros H1 H2;
    destruct (N.compare_spec x z) as [E3|E3|E3]; try reflexivity; try lia.
  eapply IH; eassumption.
Qed.

Lemma lex_cmp_lt_neq a b : lex_cmp a b = Lt -> a <> b.
Proof. intros H ->. rewrite lex_cmp_refl in H. discriminate. Qed.

Lemma lex_cmp_gt_lt a b : lex_cmp a b = Gt -> lex_cmp b a = Lt.
Proof. intros H. rewrite (lex_cmp_antisym a b), H. reflexivity. Qed.

Lemma lex_cmp_lt_asym a b : lex_cmp a b = Lt -> lex_cmp b a = Lt -> False.
Proof. intros H1 H2. rewrite (lex_cmp_antisym a b), H1 in H2. discriminate. Qed.

Lemma lex_leb_spec a b : lex_leb a b = true <-> lex_cmp a b <> Gt.
Proof. unfold lex_leb. destruct (lex_cmp a b); split; congruence. Qed.

(** * Generic list facts *)

Lemma ss_filter {A} (R : A -> A -> Prop) (f : A -> bool) l :
  StronglySorted R l -> StronglySorted R (filter f l).
Proof.
  induction 1 as [|a l Hs IH Hf]; cbn; [constructor|].
  destruct (f a); [|exact IH]. constructor; [exact IH|].
  rewrite Forall_forall in *. intros x Hx. apply filter_In in Hx. apply Hf, Hx.
Qed.

(** Two strictly sorted lists with the same elements are equal. *)
Lemma ss_unique {A} (R : A -> A -> Prop) (P : A -> Prop)
  (Hasym : forall a b, P a -> P b -> R a b -> R b a -> False) :
  forall l1 l2, Forall P l1 -> Forall P l2 ->
    StronglySorted R l1 -> StronglySorted R l2 ->
    (forall x, In x l1 <-> In x l2) -> l1 = l2.
Proof.
  induction l1 as [|a l1 IH]; intros [|b l2] HP1 HP2 HS1 HS2 Hin.
  - reflexivity.
  - exfalso. apply (proj2 (Hin b)). left; reflexivity.
  - exfalso. apply (proj1 (Hin a)). left; reflexivity.
  - inversion HP1 as [|? ? Pa HP1']; subst. inversion HP2 as [|? ? Pb HP2']; subst.
    inversion HS1 as [|? ? HS1' Ha]; subst. inversion HS2 as [|? ? HS2' Hb]; subst.
    rewrite Forall_forall in Ha, Hb.
    assert (Eab : a = b).
    { destruct (proj1 (Hin a) (or_introl eq_refl)) as [E|Hal2]; [now symmetry|].
      destruct (proj2 (Hin b) (or_introl eq_refl)) as [E|Hbl1]; [exact E|].
      exfalso. apply (Hasym a b Pa Pb); auto. }
    subst b. f_equal. apply IH; auto.
    intros x. split; intros Hx.
    + destruct (proj1 (Hin x) (or_intror Hx)) as [E|H]; [|exact H].
      subst x. exfalso. apply (Hasym a a Pa Pa); auto.
    + destruct (proj2 (Hin x) (or_intror Hx)) as [E|H]; [|exact H].
      subst x. exfalso. apply (Hasym a a Pa Pa); auto.
Qed.

Lemma ss_nodup {A} (R : A -> A -> Prop) (Hirr : forall a, R a a -> False) l :
  StronglySorted R l -> NoDup l.
Proof.
  induction 1 as [|a l Hs IH Hf]; constructor; [|exact IH].
  intros Hin. rewrite Forall_forall in Hf. exact (Hirr a (Hf a Hin)).
Qed.

Lemma nodup_map_on {A B} (g : A -> B) l :
  (forall a b, In a l -> In b l -> g a = g b -> a = b) -> NoDup l -> NoDup (map g l).
Proof.
  intros Hinj Hnd. induction Hnd as [|a l Hni Hnd IH]; cbn; constructor.
  - intros Hin. apply in_map_iff in Hin as [b [Hgb Hb]].
    assert (b = a) by (apply Hinj; [right; exact Hb | left; reflexivity | exact Hgb]).
    subst b. contradiction.
  - apply IH. intros x y Hx Hy. apply Hinj; right; assumption.
Qed.

(** * 1. The ordered container *)

Definition key_lt (a b : list N * rid) : Prop := lex_cmp (fst a) (fst b) = Lt.
Definition om_sorted (m : omap) : Prop := StronglySorted key_lt m.

Lemma om_insert_Forall (P : list N * rid -> Prop) k v m :
  P (k, v) -> Forall P m -> Forall P (om_insert k v m).
Proof.
  intros Hk. induction m as [|[k' v'] r IH]; intros Hm; cbn.
  - constructor; [exact Hk|constructor].
  - inversion Hm as [|? ? Ha Hr]; subst.
    destruct (lex_cmp k k'); constructor; auto.
Qed.

Lemma om_remove_Forall (P : list N * rid -> Prop) k m :
  Forall P m -> Forall P (om_remove k m).
Proof.
  induction m as [|[k' v'] r IH]; intros Hm; cbn; [constructor|].
  inversion Hm as [|? ? Ha Hr]; subst.
  destruct (lex_cmp k k'); auto.
Qed.

Lemma key_lt_trans_Forall a b l :
  key_lt a b -> Forall (key_lt b) l -> Forall (key_lt a) l.
Proof.
  intros Hab Hl. rewrite Forall_forall in *. intros x Hx.
  unfold key_lt in *. eapply lex_cmp_trans; [exact Hab|]. now apply Hl.
Qed.

Lemma om_insert_sorted k v m : om_sorted m -> om_sorted (om_insert k v m).
Proof.
  unfold om_sorted. induction 1 as [|[k' v'] r Hs IH Hf]; cbn.
  - constructor; constructor.
  - destruct (lex_cmp k k') eqn:E.
    + apply lex_cmp_eq in E. subst k'. constructor; assumption.
    + constructor; [constructor; assumption|].
      constructor; [exact E|].
      apply (key_lt_trans_Forall (k, v) (k', v')); [exact E | exact Hf].
    + constructor; [exact IH|].
      apply om_insert_Forall; [|exact Hf]. unfold key_lt; cbn. now apply lex_cmp_gt_lt.
Qed.

Lemma om_remove_sorted k m : om_sorted m -> om_sorted (om_remove k m).
Proof.
  unfold om_sorted. induction 1 as [|[k' v'] r Hs IH Hf]; cbn.
  - constructor.
  - destruct (lex_cmp k k') eqn:E.
    + exact Hs.
    + constructor; assumption.
    + constructor; [exact IH|]. apply om_remove_Forall. exact Hf.
Qed.

Lemma om_range_sorted lo hi m : om_sorted m -> om_sorted (om_range lo hi m).
Proof. apply ss_filter. Qed.

Lemma om_sorted_nodup_keys m : om_sorted m -> NoDup (map fst m).
Proof.
  unfold om_sorted. induction 1 as [|a r Hs IH Hf]; cbn; constructor; [|exact IH].
  intros Hin. apply in_map_iff in Hin as [b [Hb Hbr]].
  rewrite Forall_forall in Hf. specialize (Hf b Hbr). unfold key_lt in Hf.
  rewrite Hb, lex_cmp_refl in Hf. discriminate.
Qed.

Lemma om_sorted_nodup m : om_sorted m -> NoDup m.
Proof.
  apply ss_nodup. intros a H. unfold key_lt in H. rewrite lex_cmp_refl in H. discriminate.
Qed.

Lemma om_sortedb_complete m : om_sorted m -> om_sortedb m = true.
Proof.
  unfold om_sorted. induction 1 as [|[k v] r Hs IH Hf]; [reflexivity|].
  cbn [om_sortedb]. destruct r as [|[k' v'] r']; [reflexivity|].
  inversion Hf as [|? ? Hlt _]; subst. unfold key_lt in Hlt; cbn in Hlt.
  rewrite Hlt. exact IH.
Qed.

(** Membership after an insert / a remove, on a sorted container. *)
Lemma om_insert_in k v m e : om_sorted m ->
  (In e (om_insert k v m) <-> e = (k, v) \/ (fst e <> k /\ In e m)).
Proof.
  unfold om_sorted. induction 1 as [|[k' v'] r Hs IH Hf]; cbn.
  - split; [intros [H|[]]; left; now symmetry | intros [H|[_ []]]; left; now symmetry].
  - rewrite Forall_forall in Hf. unfold key_lt in Hf. cbn in Hf.
    destruct (lex_cmp k k') eqn:E.
    + apply lex_cmp_eq in E. subst k'. cbn. split.
      * intros [H|H]; [left; now symmetry|]. right. split; [|right; exact H].
        intros Heq. specialize (Hf e H). rewrite Heq, lex_cmp_refl in Hf. discriminate.
      * intros [H|[Hne [H|H]]]; [left; now symmetry| |right; exact H].
        subst e. cbn in Hne. congruence.
    + cbn. split.
      * intros [H|[H|H]]; [left; now symmetry| |].
        -- right. subst e. cbn. split; [|left; reflexivity].
           intros Heq; subst k'. rewrite lex_cmp_refl in E; discriminate.
        -- right. split; [|right; exact H]. intros Heq.
           specialize (Hf e H). rewrite Heq in Hf.
           pose proof (lex_cmp_trans _ _ _ E Hf) as Hkk.
           rewrite lex_cmp_refl in Hkk. discriminate.
      * intros [H|[Hne H]]; [left; now symmetry | right; exact H].
    + cbn. rewrite IH. split.
      * intros [H|[H|[Hne H]]]; [|left; exact H|right; split; [exact Hne|right; exact H]].
        right. subst e. cbn. split; [|left; reflexivity].
        intros Heq; subst k'. rewrite lex_cmp_refl in E; discriminate.
      * intros [H|[Hne [H|H]]]; [right; left; exact H|left; exact H|right; right; split; assumption].
Qed.

Lemma om_remove_in k m e : om_sorted m ->
  (In e (om_remove k m) <-> fst e <> k /\ In e m).
Proof.
  unfold om_sorted. induction 1 as [|[k' v'] r Hs IH Hf]; cbn.
  - split; [intros [] | intros [_ []]].
  - rewrite Forall_forall in Hf. unfold key_lt in Hf. cbn in Hf.
    destruct (lex_cmp k k') eqn:E.
    + apply lex_cmp_eq in E. subst k'. split.
      * intros H. split; [|right; exact H]. intros Heq.
        specialize (Hf e H). rewrite Heq, lex_cmp_refl in Hf. discriminate.
      * intros [Hne [H|H]]; [|exact H]. subst e. cbn in Hne. congruence.
    + cbn. split.
      * intros [H|H].
        -- subst e. cbn. split; [|left; reflexivity].
           intros Heq; subst k'. rewrite lex_cmp_refl in E; discriminate.
        -- split; [|right; exact H]. intros Heq.
           specialize (Hf e H). rewrite Heq in Hf.
           pose proof (lex_cmp_trans _ _ _ E Hf) as Hkk.
           rewrite lex_cmp_refl in Hkk. discriminate.
      * intros [_ H]; exact H.
    + cbn. rewrite IH. split.
      * intros [H|[Hne H]]; [|split; [exact Hne|right; exact H]].
        subst e. cbn. split; [|left; reflexivity].
        intros Heq; subst k'. rewrite lex_cmp_refl in E; discriminate.
      * intros [Hne [H|H]]; [left; exact H|right; split; assumption].
Qed.

Lemma om_range_in lo hi m e :
  In e (om_range lo hi m) <-> In e m /\ in_bounds lo hi (fst e) = true.
Proof. unfold om_range. apply filter_In. Qed.

(** The container invariant holds after any operation sequence, whatever the
    encoder and the keys are. *)
Lemma ix_apply_sorted K enck m (o : ix_op K) :
  om_sorted m -> om_sorted (ix_apply K enck m o).
Proof.
  intros Hs. destruct o as [k r|k r|k r k' r']; cbn;
    unfold ix_update, ix_insert, ix_delete;
    auto using om_insert_sorted, om_remove_sorted.
Qed.

Lemma fold_left_invariant {A B} (f : A -> B -> A) (P : A -> Prop) l :
  (forall a b, P a -> P (f a b)) -> forall a, P a -> P (fold_left f l a).
Proof. intros Hstep. induction l as [|b l IH]; intros a Ha; cbn; auto. Qed.

Lemma ix_run_sorted K enck (ops : list (ix_op K)) : om_sorted (ix_run K enck ops).
Proof.
  unfold ix_run. apply fold_left_invariant.
  - intros m o. apply ix_apply_sorted.
  - constructor.
Qed.

(** * Row-id suffix decoding *)

Definition rid_okp (r : rid) : Prop := rid_ok (fst r) (snd r).

Lemma rid_lo_ok : rid_okp rid_lo.
Proof. unfold rid_okp, rid_ok, rid_lo, two32; cbn. lia. Qed.

Lemma rid_hi_ok : rid_okp rid_hi.
Proof. unfold rid_okp, rid_ok, rid_hi, two32; cbn. lia. Qed.

Lemma pack64_lt p s : rid_ok p s -> pack64 p s < pow256 8.
Proof.
  intros [Hp Hs]. change (pow256 8) with 18446744073709551616.
  unfold pack64. pose proof (u32_of_z_lt p) as Hu. unfold two32 in *. lia.
Qed.

Lemma dec_rid_key_app pre p s : rid_ok p s ->
  dec_rid_key (pre ++ rid_suffix p s) = (p, s).
Proof.
  intros Hok. unfold dec_rid_key.
  rewrite app_length, rid_suffix_length.
  replace (length pre + 8 - 8)%nat with (length pre) by lia.
  rewrite skipn_app_exact by reflexivity.
  unfold rid_suffix. rewrite le_dec_le by now apply pack64_lt.
  now apply unpack_pack64.
Qed.

Lemma rid_eqb_eq a b : rid_eqb a b = true <-> a = b.
Proof.
  destruct a as [p s], b as [p' s']. unfold rid_eqb; cbn.
  rewrite andb_true_iff, Z.eqb_eq, N.eqb_eq. split; [intros [-> ->]; reflexivity|].
  intros H; inversion H; auto.
Qed.

(** * 2. The wrapper refines the multimap — generic in the key type *)

Section Generic.
  Variable K : Type.
  Variable kok : K -> Prop.
  Variable kcmp : K -> K -> comparison.
  Variable enck : K -> Z -> N -> list N.
  Variable deck : list N -> K.

  Local Notation ikey := (ix_key K enck).
  Local Notation pcmp := (pair_cmp K kcmp).

  (** Byte order of composite keys = (value order, then suffix order). *)
  Hypothesis enck_order : forall k r k' r',
    kok k -> kok k' -> rid_okp r -> rid_okp r' ->
    lex_cmp (ikey k r) (ikey k' r') = pcmp (k, r) (k', r').
  (** Decoding a composite key returns the key and the row id. *)
  Hypothesis deck_enck : forall k r, kok k -> rid_okp r -> deck (ikey k r) = k.
  Hypothesis decr_enck : forall k r, kok k -> rid_okp r -> dec_rid_key (ikey k r) = r.
  (** The C18 ScanKey bracket. *)
  Hypothesis bracket : forall k k' r, kok k -> kok k' -> rid_okp r ->
    between (ikey k rid_lo) (ikey k' r) (ikey k rid_hi) <-> k' = k.

  Definition pok (p : K * rid) : Prop := kok (fst p) /\ rid_okp (snd p).

  (** The container entry of a pair. *)
  Definition entry_of (p : K * rid) : list N * rid := (ikey (fst p) (snd p), snd p).

  Definition ent_ok (e : list N * rid) : Prop := exists p, pok p /\ e = entry_of p.
  Definition ix_wf (m : omap) : Prop := Forall ent_ok m.

  Definition pair_lt (a b : K * rid) : Prop := pcmp a b = Lt.

  Lemma pcmp_lex a b : pok a -> pok b ->
    pcmp a b = lex_cmp (fst (entry_of a)) (fst (entry_of b)).
  Proof.
    destruct a as [k r], b as [k' r']. intros [Ha Hr] [Hb Hr']. cbn in *.
    symmetry. now apply enck_order.
  Qed.

  Lemma entry_of_abs p : pok p -> ix_abs_entry K deck (entry_of p) = p.
  Proof.
    destruct p as [k r]. intros [Hk Hr]. unfold ix_abs_entry, entry_of; cbn in *.
    rewrite deck_enck, decr_enck by assumption. reflexivity.
  Qed.

  Lemma entry_of_out p : pok p -> ix_out K deck (entry_of p) = p.
  Proof.
    destruct p as [k r]. intros [Hk Hr]. unfold ix_out, entry_of; cbn in *.
    rewrite deck_enck by assumption. reflexivity.
  Qed.

  Lemma entry_key_inj a b : pok a -> pok b ->
    fst (entry_of a) = fst (entry_of b) -> a = b.
  Proof.
    intros Ha Hb H.
    rewrite <- (entry_of_abs a Ha), <- (entry_of_abs b Hb).
    unfold ix_abs_entry. now rewrite H.
  Qed.

  Lemma pcmp_eq a b : pok a -> pok b -> pcmp a b = Eq -> a = b.
  Proof.
    intros Ha Hb H. rewrite pcmp_lex in H by assumption.
    apply lex_cmp_eq in H. now apply entry_key_inj.
  Qed.

  Lemma pcmp_refl a : pok a -> pcmp a a = Eq.
  Proof. intros Ha. rewrite pcmp_lex by assumption. apply lex_cmp_refl. Qed.

  Lemma pair_lt_trans a b c : pok a -> pok b -> pok c ->
    pair_lt a b -> pair_lt b c -> pair_lt a c.
  Proof.
    unfold pair_lt. intros Ha Hb Hc. rewrite !pcmp_lex by assumption. apply lex_cmp_trans.
  Qed.

  Lemma pair_lt_asym a b : pok a -> pok b -> pair_lt a b -> pair_lt b a -> False.
  Proof.
    unfold pair_lt. intros Ha Hb. rewrite !pcmp_lex by assumption. apply lex_cmp_lt_asym.
  Qed.

  Lemma pcmp_gt_lt a b : pok a -> pok b -> pcmp a b = Gt -> pair_lt b a.
  Proof.
    unfold pair_lt. intros Ha Hb. rewrite !pcmp_lex by assumption. apply lex_cmp_gt_lt.
  Qed.

  (** On valid keys the value order's [Eq] is equality. *)
  Lemma kcmp_eq_iff k k' : kok k -> kok k' -> (kcmp k k' = Eq <-> k = k').
  Proof.
    intros Hk Hk'. split.
    - intros H.
      assert (E : (k, rid_lo) = (k', rid_lo)).
      { apply pcmp_eq; try (split; [assumption | exact rid_lo_ok]).
        unfold pair_cmp; cbn [fst snd]. rewrite H. apply lex_cmp_refl. }
      congruence.
    - intros <-.
      pose proof (pcmp_refl (k, rid_lo) (conj Hk rid_lo_ok)) as H.
      unfold pair_cmp in H; cbn [fst snd] in H.
      destruct (kcmp k k); [reflexivity|discriminate|discriminate].
  Qed.

  Lemma pair_eqb_eq a b : pok a -> pok b -> (pair_eqb K kcmp a b = true <-> a = b).
  Proof.
    destruct a as [k r], b as [k' r']. intros [Ha Hr] [Hb Hr']. cbn in *.
    unfold pair_eqb; cbn [fst snd]. split.
    - destruct (kcmp k k') eqn:E; try discriminate.
      intros H. apply rid_eqb_eq in H. apply kcmp_eq_iff in E; auto. congruence.
    - intros H. inversion H; subst.
      rewrite (proj2 (kcmp_eq_iff k' k' Hb Hb) eq_refl). now apply rid_eqb_eq.
  Qed.

  (** ** Well-formed containers and the abstraction function *)

  Lemma ix_wf_abs_pok m : ix_wf m -> Forall pok (ix_abs K deck m).
  Proof.
    unfold ix_wf, ix_abs. induction 1 as [|e m [p [Hp He]] Hm IH]; cbn; constructor; auto.
    subst e. now rewrite entry_of_abs.
  Qed.

  Lemma in_abs_iff m p : ix_wf m -> pok p ->
    (In p (ix_abs K deck m) <-> In (entry_of p) m).
  Proof.
    intros Hwf Hp. unfold ix_abs. rewrite in_map_iff. split.
    - intros [e [He Hin]]. unfold ix_wf in Hwf. rewrite Forall_forall in Hwf.
      destruct (Hwf e Hin) as [q [Hq Heq]]. subst e.
      rewrite entry_of_abs in He by assumption. now subst q.
    - intros Hin. exists (entry_of p). split; [now apply entry_of_abs | exact Hin].
  Qed.

  Lemma abs_sorted m : ix_wf m -> om_sorted m -> StronglySorted pair_lt (ix_abs K deck m).
  Proof.
    unfold ix_wf, om_sorted, ix_abs. intros Hwf Hs. induction Hs as [|e m Hs IH Hf]; cbn.
    - constructor.
    - inversion Hwf as [|? ? [p [Hp He]] Hwf']; subst. constructor; [now apply IH|].
      rewrite entry_of_abs by assumption.
      rewrite Forall_forall in *. intros q Hq. apply in_map_iff in Hq as [e' [He' Hin']].
      destruct (Hwf' e' Hin') as [q' [Hq' Heq']]. subst e'.
      rewrite entry_of_abs in He' by assumption. subst q'.
      unfold pair_lt. rewrite pcmp_lex by assumption. exact (Hf _ Hin').
  Qed.

  Lemma abs_nodup m : ix_wf m -> om_sorted m -> NoDup (ix_abs K deck m).
  Proof.
    intros Hwf Hs. pose proof (abs_sorted m Hwf Hs) as Hss.
    pose proof (ix_wf_abs_pok m Hwf) as Hpok.
    clear Hwf Hs. induction Hss as [|a l Hs IH Hf]; constructor.
    - intros Hin. inversion Hpok as [|? ? Pa _]; subst.
      rewrite Forall_forall in Hf. apply (pair_lt_asym a a Pa Pa); auto.
    - inversion Hpok; subst. auto.
  Qed.

  (** ** Operations *)

  Definition op_okp (o : ix_op K) : Prop :=
    match o with
    | IxIns k r => pok (k, r)
    | IxDel k r => pok (k, r)
    | IxUpd k r k' r' => pok (k, r) /\ pok (k', r')
    end.

  Lemma ix_insert_wf k r m : pok (k, r) -> ix_wf m -> ix_wf (ix_insert K enck k r m).
  Proof.
    intros Hp Hwf. unfold ix_insert. apply om_insert_Forall; [|exact Hwf].
    exists (k, r). split; [exact Hp|reflexivity].
  Qed.

  Lemma ix_delete_wf k r m : ix_wf m -> ix_wf (ix_delete K enck k r m).
  Proof. intros Hwf. unfold ix_delete. now apply om_remove_Forall. Qed.

  (** The set of pairs after a wrapper insert / delete. *)
  Lemma abs_insert_in k r m p : pok (k, r) -> ix_wf m -> om_sorted m ->
    (In p (ix_abs K deck (ix_insert K enck k r m)) <-> p = (k, r) \/ In p (ix_abs K deck m)).
  Proof.
    intros Hkr Hwf Hs.
    pose proof (ix_insert_wf k r m Hkr Hwf) as Hwf'.
    assert (Hgen : pok p ->
      (In p (ix_abs K deck (ix_insert K enck k r m)) <-> p = (k, r) \/ In p (ix_abs K deck m))).
    { intros Hp. rewrite !in_abs_iff by assumption.
      unfold ix_insert. rewrite om_insert_in by assumption.
      change (ikey k r, r) with (entry_of (k, r)). split.
      - intros [H|[_ H]]; [left|right; exact H].
        apply entry_key_inj; auto. now rewrite H.
      - intros [H|H]; [left; now subst p|].
        destruct (list_eq_dec N.eq_dec (fst (entry_of p)) (ikey k r)) as [E|E].
        + left. assert (p = (k, r)) by (apply entry_key_inj; auto). now subst p.
        + right. split; assumption. }
    split.
    - intros Hin. apply Hgen; [|exact Hin].
      pose proof (ix_wf_abs_pok _ Hwf') as HF. rewrite Forall_forall in HF. now apply HF.
    - intros H. apply Hgen; [|exact H]. destruct H as [->|Hin]; [exact Hkr|].
      pose proof (ix_wf_abs_pok _ Hwf) as HF. rewrite Forall_forall in HF. now apply HF.
  Qed.

  Lemma abs_delete_in k r m p : pok (k, r) -> ix_wf m -> om_sorted m ->
    (In p (ix_abs K deck (ix_delete K enck k r m)) <-> p <> (k, r) /\ In p (ix_abs K deck m)).
  Proof.
    intros Hkr Hwf Hs.
    pose proof (ix_delete_wf k r m Hwf) as Hwf'.
    assert (Hgen : pok p ->
      (In p (ix_abs K deck (ix_delete K enck k r m)) <-> p <> (k, r) /\ In p (ix_abs K deck m))).
    { intros Hp. rewrite !in_abs_iff by assumption.
      unfold ix_delete. rewrite om_remove_in by assumption. split.
      - intros [Hne H]. split; [|exact H]. intros ->. now apply Hne.
      - intros [Hne H]. split; [|exact H]. intros E. apply Hne.
        apply entry_key_inj; auto. }
    split.
    - intros Hin. apply Hgen; [|exact Hin].
      pose proof (ix_wf_abs_pok _ Hwf') as HF. rewrite Forall_forall in HF. now apply HF.
    - intros H. apply Hgen; [|exact H]. destruct H as [_ Hin].
      pose proof (ix_wf_abs_pok _ Hwf) as HF. rewrite Forall_forall in HF. now apply HF.
  Qed.

  (** The multimap operations on sets of valid pairs. *)
  Lemma existsb_pair_eqb a s : pok a -> Forall pok s ->
    (existsb (pair_eqb K kcmp a) s = true <-> In a s).
  Proof.
    intros Ha Hs. rewrite existsb_exists. rewrite Forall_forall in Hs. split.
    - intros [x [Hx Heq]]. apply pair_eqb_eq in Heq; auto. now subst x.
    - intros Hin. exists a. split; [exact Hin|]. apply pair_eqb_eq; auto.
  Qed.

  Lemma mm_insert_in k r s p : pok (k, r) -> Forall pok s ->
    (In p (mm_insert K kcmp k r s) <-> p = (k, r) \/ In p s).
  Proof.
    intros Hkr Hs. unfold mm_insert.
    destruct (existsb _ s) eqn:E.
    - apply existsb_pair_eqb in E; auto. split; [auto|]. intros [->|H]; assumption.
    - cbn. split; (intros [H|H]; [left; now symmetry | right; exact H]).
  Qed.

  Lemma mm_insert_pok k r s : pok (k, r) -> Forall pok s -> Forall pok (mm_insert K kcmp k r s).
  Proof. intros Hkr Hs. unfold mm_insert. destruct (existsb _ s); auto. Qed.

  Lemma mm_insert_nodup k r s : pok (k, r) -> Forall pok s -> NoDup s ->
    NoDup (mm_insert K kcmp k r s).
  Proof.
    intros Hkr Hs Hnd. unfold mm_insert. destruct (existsb _ s) eqn:E; [exact Hnd|].
    constructor; [|exact Hnd]. intros Hin. apply existsb_pair_eqb in Hin; auto. congruence.
  Qed.

  Lemma mm_delete_in k r s p : pok (k, r) -> Forall pok s ->
    (In p (mm_delete K kcmp k r s) <-> p <> (k, r) /\ In p s).
  Proof.
    intros Hkr Hs. unfold mm_delete. rewrite filter_In. rewrite Forall_forall in Hs. split.
    - intros [Hin Hb]. split; [|exact Hin]. intros ->.
      rewrite (proj2 (pair_eqb_eq _ _ Hkr Hkr) eq_refl) in Hb. discriminate.
    - intros [Hne Hin]. split; [exact Hin|].
      destruct (pair_eqb K kcmp (k, r) p) eqn:E; [|reflexivity].
      apply pair_eqb_eq in E; auto; congruence.
  Qed.

  Lemma mm_delete_pok k r s : Forall pok s -> Forall pok (mm_delete K kcmp k r s).
  Proof.
    intros Hs. unfold mm_delete. rewrite Forall_forall in *. intros x Hx.
    apply filter_In in Hx. apply Hs, Hx.
  Qed.

  Lemma mm_delete_nodup k r s : NoDup s -> NoDup (mm_delete K kcmp k r s).
  Proof. intros Hnd. unfold mm_delete. now apply NoDup_filter. Qed.

  (** ** The refinement relation *)

  Definition refines (m : omap) (s : mmap K) : Prop :=
    om_sorted m /\ ix_wf m /\ Forall pok s /\ NoDup s /\
    forall p, In p (ix_abs K deck m) <-> In p s.

  Lemma refines_empty : refines om_empty (mm_empty K).
  Proof.
    unfold refines, om_empty, mm_empty. repeat split; try constructor; auto.
  Qed.

  Lemma refines_abs m : om_sorted m -> ix_wf m -> refines m (ix_abs K deck m).
  Proof.
    intros Hs Hwf. unfold refines. repeat split; auto.
    - now apply ix_wf_abs_pok.
    - now apply abs_nodup.
  Qed.

  Lemma refines_insert k r m s : pok (k, r) -> refines m s ->
    refines (ix_insert K enck k r m) (mm_insert K kcmp k r s).
  Proof.
    intros Hkr (Hs & Hwf & Hp & Hnd & Hin). unfold refines. repeat split.
    - unfold ix_insert. now apply om_insert_sorted.
    - now apply ix_insert_wf.
    - now apply mm_insert_pok.
    - now apply mm_insert_nodup.
    - intros H. apply mm_insert_in; auto. apply abs_insert_in in H; auto.
      destruct H as [H|H]; [left; exact H | right; now apply Hin].
    - intros H. apply abs_insert_in; auto. apply mm_insert_in in H; auto.
      destruct H as [H|H]; [left; exact H | right; now apply Hin].
  Qed.

  Lemma refines_delete k r m s : pok (k, r) -> refines m s ->
    refines (ix_delete K enck k r m) (mm_delete K kcmp k r s).
  Proof.
    intros Hkr (Hs & Hwf & Hp & Hnd & Hin). unfold refines. repeat split.
    - unfold ix_delete. now apply om_remove_sorted.
    - now apply ix_delete_wf.
    - now apply mm_delete_pok.
    - now apply mm_delete_nodup.
    - intros H. apply mm_delete_in; auto. apply abs_delete_in in H; auto.
      destruct H as [Hne H]. split; [exact Hne | now apply Hin].
    - intros H. apply abs_delete_in; auto. apply mm_delete_in in H; auto.
      destruct H as [Hne H]. split; [exact Hne | now apply Hin].
  Qed.

  Lemma refines_update k r k' r' m s : pok (k, r) -> pok (k', r') -> refines m s ->
    refines (ix_update K enck k r k' r' m) (mm_update K kcmp k r k' r' s).
  Proof.
    intros H1 H2 HR. unfold ix_update, mm_update.
    apply refines_insert; [exact H2|]. now apply refines_delete.
  Qed.

  Lemma refines_step m s o : op_okp o -> refines m s ->
    refines (ix_apply K enck m o) (mm_apply K kcmp s o).
  Proof.
    destruct o as [k r|k r|k r k' r']; cbn.
    - apply refines_insert.
    - apply refines_delete.
    - intros [H1 H2]. now apply refines_update.
  Qed.

  Lemma refines_fold ops : Forall op_okp ops -> forall m s, refines m s ->
    refines (fold_left (ix_apply K enck) ops m) (fold_left (mm_apply K kcmp) ops s).
  Proof.
    induction 1 as [|o ops Ho Hops IH]; intros m s HR; cbn; [exact HR|].
    apply IH. now apply refines_step.
  Qed.

  Theorem refines_run ops : Forall op_okp ops ->
    refines (ix_run K enck ops) (mm_run K kcmp ops).
  Proof. intros H. unfold ix_run, mm_run. apply refines_fold; [exact H | exact refines_empty]. Qed.

  (** Every wrapper operation commutes with the multimap operation through the
      abstraction function (as sets of pairs; both sides duplicate-free). *)
  Theorem abs_commutes m o : om_sorted m -> ix_wf m -> op_okp o ->
    (forall p, In p (ix_abs K deck (ix_apply K enck m o)) <->
               In p (mm_apply K kcmp (ix_abs K deck m) o)) /\
    NoDup (ix_abs K deck (ix_apply K enck m o)) /\
    NoDup (mm_apply K kcmp (ix_abs K deck m) o).
  Proof.
    intros Hs Hwf Ho.
    destruct (refines_step m _ o Ho (refines_abs m Hs Hwf)) as (Hs' & Hwf' & _ & Hnd & Hin).
    repeat split; auto; try apply Hin. now apply abs_nodup.
  Qed.

  (** ** ScanKey *)

  Lemma in_bounds_between lo hi k :
    in_bounds (Some lo) (Some hi) k = true <-> between lo k hi.
  Proof.
    unfold in_bounds, between. rewrite andb_true_iff, !lex_leb_spec. reflexivity.
  Qed.

  Theorem scan_key_exact m s k : refines m s -> kok k ->
    (forall r, In r (ix_scan_key K enck k m) <-> In (k, r) s) /\
    NoDup (ix_scan_key K enck k m).
  Proof.
    intros (Hs & Hwf & Hp & Hnd & Hin) Hk. split.
    - intros r. unfold ix_scan_key. rewrite in_map_iff. split.
      + intros [e [Hr He]]. apply om_range_in in He as [Hem Hb].
        apply in_bounds_between in Hb.
        pose proof (proj1 (Forall_forall _ _) Hwf) as HwfF.
        destruct (HwfF e Hem) as [[k' r'] [[Hk' Hr'] Heq]]. subst e. cbn in *. subst r'.
        apply bracket in Hb; auto. subst k'.
        apply Hin. apply in_abs_iff; [exact Hwf | split; assumption | exact Hem].
      + intros Hs'. apply Hin in Hs'.
        assert (Hpk : pok (k, r)).
        { pose proof (ix_wf_abs_pok m Hwf) as HF. rewrite Forall_forall in HF. now apply HF. }
        apply in_abs_iff in Hs'; auto.
        exists (entry_of (k, r)). split; [reflexivity|].
        apply om_range_in. split; [exact Hs'|].
        apply in_bounds_between. cbn. apply bracket; auto. apply Hpk.
    - unfold ix_scan_key. apply nodup_map_on.
      + intros a b Ha Hb Hab.
        apply om_range_in in Ha as [Ham Hba]. apply om_range_in in Hb as [Hbm Hbb].
        apply in_bounds_between in Hba, Hbb.
        pose proof (proj1 (Forall_forall _ _) Hwf) as HwfF.
        destruct (HwfF a Ham) as [[ka ra] [[Hka Hra] Ea]].
        destruct (HwfF b Hbm) as [[kb rb] [[Hkb Hrb] Eb]]. subst a b. cbn in *. subst rb.
        apply bracket in Hba; auto. apply bracket in Hbb; auto. now subst ka kb.
      + apply NoDup_filter. now apply om_sorted_nodup.
  Qed.

  Lemma mm_lookup_in k s r : kok k -> Forall pok s ->
    (In r (mm_lookup K kcmp k s) <-> In (k, r) s).
  Proof.
    intros Hk Hs. unfold mm_lookup. rewrite in_map_iff. rewrite Forall_forall in Hs. split.
    - intros [[k' r'] [Hr Hf]]. apply filter_In in Hf as [Hin Hc]. cbn in *. subst r'.
      destruct (Hs _ Hin) as [Hk' _]. cbn in Hk'.
      destruct (kcmp k' k) eqn:E; try discriminate.
      apply kcmp_eq_iff in E; auto. now subst k'.
    - intros Hin. exists (k, r). split; [reflexivity|]. apply filter_In. split; [exact Hin|].
      cbn. now rewrite (proj2 (kcmp_eq_iff k k Hk Hk) eq_refl).
  Qed.

  (** ** Range scans *)

  Definition bound_ok (b : option K) : Prop :=
    match b with None => True | Some k => kok k end.

  Lemma key_in_bounds lo hi p : bound_ok lo -> bound_ok hi -> pok p ->
    in_bounds (option_map (fun k => ikey k rid_lo) lo)
              (option_map (fun k => ikey k rid_hi) hi) (fst (entry_of p))
    = key_in K kcmp lo hi (fst p).
  Proof.
    destruct p as [k r]. intros Hlo Hhi [Hk Hr]. cbn in Hk, Hr.
    unfold in_bounds, key_in. f_equal.
    - destruct lo as [l|]; [|reflexivity]. cbn in *.
      unfold lex_leb, k_leb. rewrite enck_order by auto using rid_lo_ok.
      unfold pair_cmp; cbn [fst snd].
      destruct (kcmp l k); try reflexivity.
      pose proof (rid_suffix_ge_min (fst r) (snd r) Hr) as H.
      unfold rid_min_suffix in H. destruct (lex_cmp _ _); congruence.
    - destruct hi as [h|]; [|reflexivity]. cbn in *.
      unfold lex_leb, k_leb. rewrite enck_order by auto using rid_hi_ok.
      unfold pair_cmp; cbn [fst snd].
      destruct (kcmp k h); try reflexivity.
      pose proof (rid_suffix_le_max (fst r) (snd r) Hr) as H.
      unfold rid_max_suffix in H. destruct (lex_cmp _ _); congruence.
  Qed.

  (** The range iterator is the key-range filter of the abstraction. *)
  Lemma ix_range_filter lo hi m : bound_ok lo -> bound_ok hi -> ix_wf m ->
    ix_range K enck deck lo hi m =
    filter (fun p => key_in K kcmp lo hi (fst p)) (ix_abs K deck m).
  Proof.
    intros Hlo Hhi Hwf. unfold ix_range, om_range, ix_abs.
    induction Hwf as [|e m [p [Hp He]] Hwf IH]; [reflexivity|].
    cbn [filter map]. subst e.
    rewrite key_in_bounds by assumption. rewrite entry_of_abs by assumption.
    destruct (key_in K kcmp lo hi (fst p)); cbn [map]; rewrite IH; [|reflexivity].
    now rewrite entry_of_out.
  Qed.

  (** Insertion sort. *)
  Lemma mm_sort_insert_in x l z :
    In z (mm_sort_insert K kcmp x l) <-> z = x \/ In z l.
  Proof.
    induction l as [|y l IH]; cbn.
    - split; (intros [H|[]]; left; now symmetry).
    - destruct (pcmp x y); cbn; try rewrite IH;
        split; intros H; repeat (destruct H as [H|H]); auto.
  Qed.

  Lemma mm_sort_in l z : In z (mm_sort K kcmp l) <-> In z l.
  Proof.
    induction l as [|x l IH]; cbn; [reflexivity|].
    rewrite mm_sort_insert_in, IH. split; (intros [H|H]; [left; now symmetry | right; exact H]).
  Qed.

  Lemma mm_sort_insert_sorted x l : pok x -> Forall pok l -> ~ In x l ->
    StronglySorted pair_lt l -> StronglySorted pair_lt (mm_sort_insert K kcmp x l).
  Proof.
    intros Hx Hl Hni Hs. induction Hs as [|y l Hs IH Hf]; cbn.
    - constructor; constructor.
    - inversion Hl as [|? ? Hy Hl']; subst.
      destruct (pcmp x y) eqn:E.
      + exfalso. apply Hni. left. symmetry. now apply pcmp_eq.
      + constructor; [constructor; assumption|]. constructor; [exact E|].
        rewrite Forall_forall in *. intros z Hz.
        apply (pair_lt_trans x y z); auto.
      + constructor.
        * apply IH; auto. intros H; apply Hni; now right.
        * rewrite Forall_forall in *. intros z Hz. apply mm_sort_insert_in in Hz as [->|Hz].
          -- now apply pcmp_gt_lt.
          -- now apply Hf.
  Qed.

  Lemma mm_sort_sorted l : Forall pok l -> NoDup l -> StronglySorted pair_lt (mm_sort K kcmp l).
  Proof.
    intros Hl Hnd. induction Hnd as [|x l Hni Hnd IH]; [constructor|].
    change (mm_sort K kcmp (x :: l)) with (mm_sort_insert K kcmp x (mm_sort K kcmp l)).
    inversion Hl as [|? ? Hx Hl']; subst.
    apply mm_sort_insert_sorted; auto.
    - apply Forall_forall. intros z Hz. apply (proj1 (mm_sort_in _ _)) in Hz.
      rewrite Forall_forall in Hl'. now apply Hl'.
    - intros H. apply (proj1 (mm_sort_in _ _)) in H. contradiction.
  Qed.

  Theorem range_exact m s lo hi : refines m s -> bound_ok lo -> bound_ok hi ->
    ix_range K enck deck lo hi m = mm_range K kcmp lo hi s /\
    StronglySorted pair_lt (ix_range K enck deck lo hi m) /\
    (forall p, In p (ix_range K enck deck lo hi m) <->
               In p s /\ key_in K kcmp lo hi (fst p) = true).
  Proof.
    intros (Hs & Hwf & Hp & Hnd & Hin) Hlo Hhi.
    rewrite ix_range_filter by assumption.
    assert (HSS : StronglySorted pair_lt
              (filter (fun p => key_in K kcmp lo hi (fst p)) (ix_abs K deck m))).
    { apply ss_filter. now apply abs_sorted. }
    assert (Hel : forall p, In p (filter (fun p => key_in K kcmp lo hi (fst p)) (ix_abs K deck m)) <->
               In p s /\ key_in K kcmp lo hi (fst p) = true).
    { intros p. rewrite filter_In, Hin. reflexivity. }
    split; [|split; assumption].
    unfold mm_range.
    apply (ss_unique pair_lt pok pair_lt_asym).
    - pose proof (ix_wf_abs_pok m Hwf) as HF. rewrite Forall_forall in *.
      intros x Hx. apply filter_In in Hx. apply HF, Hx.
    - rewrite Forall_forall in *. intros x Hx. apply mm_sort_in, filter_In in Hx. apply Hp, Hx.
    - exact HSS.
    - apply mm_sort_sorted.
      + rewrite Forall_forall in *. intros x Hx. apply filter_In in Hx. apply Hp, Hx.
      + now apply NoDup_filter.
    - intros x. rewrite mm_sort_in, Hel, filter_In. reflexivity.
  Qed.

  (** ScanKey in container order = the sorted lookup of the multimap. *)
  Theorem scan_key_sorted m s k : refines m s -> kok k ->
    ix_scan_key K enck k m = mm_lookup_sorted K kcmp k s.
  Proof.
    intros HR Hk. unfold mm_lookup_sorted.
    destruct (range_exact m s (Some k) (Some k) HR Hk Hk) as [<- _].
    unfold ix_scan_key, ix_range. cbn [option_map]. rewrite map_map. reflexivity.
  Qed.
  (** ** Packaged statements over operation sequences *)

  Lemma key_in_spec lo hi k :
    key_in K kcmp lo hi k = true <->
    (match lo with None => True | Some l => kcmp l k <> Gt end) /\
    (match hi with None => True | Some h => kcmp k h <> Gt end).
  Proof.
    unfold key_in, k_leb. rewrite andb_true_iff.
    destruct lo as [l|], hi as [h|];
      repeat match goal with |- context [kcmp ?a ?b] => destruct (kcmp a b) end;
      split; intros [H1 H2]; split; (exact I || congruence).
  Qed.

  Theorem wrapper_refines_generic ops : Forall op_okp ops ->
    let m := ix_run K enck ops in
    let s := mm_run K kcmp ops in
    (forall p, In p (ix_abs K deck m) <-> In p s) /\
    NoDup (ix_abs K deck m) /\ NoDup s /\
    forall k, kok k ->
      (forall r, In r (ix_scan_key K enck k m) <-> In (k, r) s) /\
      (forall r, In r (ix_scan_key K enck k m) <-> In r (mm_lookup K kcmp k s)) /\
      NoDup (ix_scan_key K enck k m) /\
      ix_scan_key K enck k m = mm_lookup_sorted K kcmp k s.
  Proof.
    intros Hops m s. pose proof (refines_run ops Hops) as HR. fold m s in HR.
    pose proof HR as (Hs & Hwf & Hp & Hnd & Hin).
    split; [exact Hin|]. split; [now apply abs_nodup|]. split; [exact Hnd|].
    intros k Hk. destruct (scan_key_exact m s k HR Hk) as [Hsc Hscnd].
    split; [exact Hsc|]. split; [|split; [exact Hscnd | now apply scan_key_sorted]].
    intros r. rewrite Hsc. symmetry. now apply mm_lookup_in.
  Qed.

  Theorem ops_commute_generic ops o : Forall op_okp ops -> op_okp o ->
    let m := ix_run K enck ops in
    (forall p, In p (ix_abs K deck (ix_apply K enck m o)) <->
               In p (mm_apply K kcmp (ix_abs K deck m) o)) /\
    NoDup (ix_abs K deck (ix_apply K enck m o)) /\
    NoDup (mm_apply K kcmp (ix_abs K deck m) o).
  Proof.
    intros Hops Ho m. pose proof (refines_run ops Hops) as (Hs & Hwf & _).
    now apply abs_commutes.
  Qed.

  Theorem range_generic ops lo hi : Forall op_okp ops -> bound_ok lo -> bound_ok hi ->
    let m := ix_run K enck ops in
    let s := mm_run K kcmp ops in
    ix_range K enck deck lo hi m = mm_range K kcmp lo hi s /\
    StronglySorted pair_lt (ix_range K enck deck lo hi m) /\
    NoDup (ix_range K enck deck lo hi m) /\
    (forall k r, In (k, r) (ix_range K enck deck lo hi m) <->
       In (k, r) s /\
       (match lo with None => True | Some l => kcmp l k <> Gt end) /\
       (match hi with None => True | Some h => kcmp k h <> Gt end)).
  Proof.
    intros Hops Hlo Hhi m s. pose proof (refines_run ops Hops) as HR. fold m s in HR.
    destruct (range_exact m s lo hi HR Hlo Hhi) as (Heq & Hss & Hel).
    split; [exact Heq|]. split; [exact Hss|]. split.
    - destruct HR as (Hs & Hwf & _).
      rewrite ix_range_filter by assumption. apply NoDup_filter. now apply abs_nodup.
    - intros k r. rewrite Hel. cbn [fst]. now rewrite key_in_spec.
  Qed.

  Theorem update_generic ops k r k' r' : Forall op_okp ops -> pok (k, r) -> pok (k', r') ->
    let m := ix_run K enck ops in
    let s := mm_run K kcmp ops in
    ix_update K enck k r k' r' m = ix_insert K enck k' r' (ix_delete K enck k r m) /\
    refines (ix_update K enck k r k' r' m) (mm_insert K kcmp k' r' (mm_delete K kcmp k r s)).
  Proof.
    intros Hops H1 H2 m s. split; [reflexivity|].
    apply (refines_update k r k' r' m s H1 H2). now apply refines_run.
  Qed.
End Generic.

(** * 3. Instances *)

(** ** Integers *)

Lemma int_enck_order k r k' r' : int_ok k -> int_ok k' -> rid_okp r -> rid_okp r' ->
  lex_cmp (ix_key Z enc_int_key k r) (ix_key Z enc_int_key k' r') =
  pair_cmp Z Z.compare (k, r) (k', r').
Proof.
  intros Hk Hk' _ _. unfold ix_key, enc_int_key, pair_cmp; cbn [fst snd].
  rewrite lex_cmp_app by reflexivity. rewrite enc_int_order by assumption.
  destruct (k ?= k')%Z; reflexivity.
Qed.

Lemma int_deck_enck k r : int_ok k -> rid_okp r -> dec_int_key (ix_key Z enc_int_key k r) = k.
Proof.
  intros Hk _. unfold ix_key, enc_int_key, dec_int_key.
  rewrite app_length, rid_suffix_length, enc_int_length.
  rewrite firstn_app_exact by reflexivity. now apply dec_enc_int.
Qed.

Lemma int_decr_enck k r : int_ok k -> rid_okp r -> dec_rid_key (ix_key Z enc_int_key k r) = r.
Proof.
  intros _ Hr. unfold ix_key, enc_int_key. rewrite dec_rid_key_app by exact Hr.
  destruct r; reflexivity.
Qed.

Lemma int_bracket k k' r : int_ok k -> int_ok k' -> rid_okp r ->
  between (ix_key Z enc_int_key k rid_lo) (ix_key Z enc_int_key k' r)
          (ix_key Z enc_int_key k rid_hi) <-> k' = k.
Proof. intros Hk Hk' Hr. now apply int_scankey_bracket. Qed.

(** ** Floats (canonical patterns: every non-NaN pattern except -0.0) *)

Definition f_okc (u : N) : Prop := f_ok u /\ u <> two31.

Lemma f_canon_okc u : f_ok u -> f_okc (f_canon u).
Proof.
  intros Hu. unfold f_okc, f_canon. destruct (N.eqb_spec u two31) as [->|Hne].
  - split; [|unfold two31; lia]. unfold f_ok, two32. split; [lia|reflexivity].
  - split; assumption.
Qed.

Lemma f_canon_id u : u <> two31 -> f_canon u = u.
Proof. intros H. unfold f_canon. destruct (N.eqb_spec u two31); congruence. Qed.

Lemma enc_f32_canon u : enc_f32 (f_canon u) = enc_f32 u.
Proof.
  unfold f_canon. destruct (N.eqb_spec u two31) as [->|Hne]; [|reflexivity].
  vm_compute. reflexivity.
Qed.

Lemma f_cmp_canon_l u v : f_cmp (f_canon u) v = f_cmp u v.
Proof.
  unfold f_canon. destruct (N.eqb_spec u two31) as [->|Hne]; reflexivity.
Qed.

Lemma f_cmp_canon_r u v : f_cmp u (f_canon v) = f_cmp u v.
Proof.
  unfold f_canon. destruct (N.eqb_spec v two31) as [->|Hne]; reflexivity.
Qed.

Lemma f_key_inj u v :
  u < 4294967296 -> v < 4294967296 -> u <> 2147483648 -> v <> 2147483648 ->
  f_key u = f_key v -> u = v.
Proof.
  unfold f_key, two31. intros Hu Hv Hnu Hnv.
  destruct (u <? 2147483648) eqn:E1; destruct (v <? 2147483648) eqn:E2; intros H; lia.
Qed.

Lemma f_cmp_eq_canon u v : f_okc u -> f_okc v -> f_cmp u v = Eq -> u = v.
Proof.
  intros [[Hu _] Hnu] [[Hv _] Hnv] H. unfold f_cmp in H. apply Z.compare_eq in H.
  apply f_key_inj; assumption.
Qed.

Lemma f32_enck_order k r k' r' : f_okc k -> f_okc k' -> rid_okp r -> rid_okp r' ->
  lex_cmp (ix_key N enc_f32_key k r) (ix_key N enc_f32_key k' r') =
  pair_cmp N f_cmp (k, r) (k', r').
Proof.
  intros [Hk _] [Hk' _] _ _. unfold ix_key, enc_f32_key, pair_cmp; cbn [fst snd].
  rewrite lex_cmp_app by reflexivity. rewrite enc_f32_order by assumption.
  destruct (f_cmp k k'); reflexivity.
Qed.

Lemma f32_deck_enck k r : f_okc k -> rid_okp r -> dec_f32_key (ix_key N enc_f32_key k r) = k.
Proof.
  intros [Hk Hne] _. unfold ix_key, enc_f32_key, dec_f32_key.
  rewrite app_length, rid_suffix_length, enc_f32_length.
  rewrite firstn_app_exact by reflexivity. rewrite dec_enc_f32 by assumption.
  destruct (N.eqb_spec k two31); congruence.
Qed.

Lemma f32_decr_enck k r : f_okc k -> rid_okp r -> dec_rid_key (ix_key N enc_f32_key k r) = r.
Proof.
  intros _ Hr. unfold ix_key, enc_f32_key. rewrite dec_rid_key_app by exact Hr.
  destruct r; reflexivity.
Qed.

Lemma f32_bracket k k' r : f_okc k -> f_okc k' -> rid_okp r ->
  between (ix_key N enc_f32_key k rid_lo) (ix_key N enc_f32_key k' r)
          (ix_key N enc_f32_key k rid_hi) <-> k' = k.
Proof.
  intros Hk Hk' Hr.
  pose proof (f32_scankey_bracket k k' (fst r) (snd r) (proj1 Hk) (proj1 Hk') Hr) as HB.
  unfold ix_key, rid_lo, rid_hi; cbn [fst snd]. rewrite HB. split.
  - now apply f_cmp_eq_canon.
  - intros ->. unfold f_cmp. apply Z.compare_refl.
Qed.

(** Operations on a non-canonical zero act on the canonical one. *)
Lemma ixf_key_canon k r : ix_key N enc_f32_key (f_canon k) r = ix_key N enc_f32_key k r.
Proof. unfold ix_key, enc_f32_key. now rewrite enc_f32_canon. Qed.

Lemma ixf_apply_canon m o :
  ix_apply N enc_f32_key m (f_canon_op o) = ix_apply N enc_f32_key m o.
Proof.
  destruct o as [k r|k r|k r k' r']; cbn;
    unfold ix_update, ix_insert, ix_delete; now rewrite ?ixf_key_canon.
Qed.

Lemma ixf_run_canon ops : ixf_run (map f_canon_op ops) = ixf_run ops.
Proof.
  unfold ixf_run, ix_run. generalize om_empty as m.
  induction ops as [|o ops IH]; intros m; cbn; [reflexivity|].
  now rewrite ixf_apply_canon, IH.
Qed.

Lemma ixf_scan_key_canon k m : ixf_scan_key (f_canon k) m = ixf_scan_key k m.
Proof. unfold ixf_scan_key, ix_scan_key. now rewrite !ixf_key_canon. Qed.

Lemma ixf_range_canon lo hi m :
  ixf_range (option_map f_canon lo) (option_map f_canon hi) m = ixf_range lo hi m.
Proof.
  unfold ixf_range, ix_range.
  destruct lo as [l|], hi as [h|]; cbn [option_map]; now rewrite ?ixf_key_canon.
Qed.

Lemma mmf_range_canon lo hi s :
  mmf_range (option_map f_canon lo) (option_map f_canon hi) s = mmf_range lo hi s.
Proof.
  unfold mmf_range, mm_range. f_equal. apply filter_ext. intros [k r].
  unfold key_in, k_leb. cbn [fst].
  destruct lo as [l|], hi as [h|]; cbn [option_map];
    now rewrite ?f_cmp_canon_l, ?f_cmp_canon_r.
Qed.

(** ** Strings *)

Lemma str_enck_order k r k' r' : nul_free k -> nul_free k' -> rid_okp r -> rid_okp r' ->
  lex_cmp (ix_key (list N) enc_str_key k r) (ix_key (list N) enc_str_key k' r') =
  pair_cmp (list N) lex_cmp (k, r) (k', r').
Proof.
  intros Hk Hk' _ _. unfold ix_key, pair_cmp; cbn [fst snd].
  destruct (list_eq_dec N.eq_dec k k') as [<-|Hne].
  - unfold enc_str_key. rewrite !lex_cmp_app_same, lex_cmp_refl. reflexivity.
  - rewrite enc_str_order by assumption.
    destruct (lex_cmp k k') eqn:E; try reflexivity.
    apply lex_cmp_eq in E. contradiction.
Qed.

Lemma str_deck_enck k r : nul_free k -> rid_okp r ->
  dec_str_key (ix_key (list N) enc_str_key k r) = k.
Proof. intros _ _. apply dec_enc_str. Qed.

Lemma str_decr_enck k r : nul_free k -> rid_okp r ->
  dec_rid_key (ix_key (list N) enc_str_key k r) = r.
Proof.
  intros _ Hr. unfold ix_key, enc_str_key. rewrite app_assoc.
  rewrite dec_rid_key_app by exact Hr. destruct r; reflexivity.
Qed.

Lemma str_bracket k k' r : nul_free k -> nul_free k' -> rid_okp r ->
  between (ix_key (list N) enc_str_key k rid_lo) (ix_key (list N) enc_str_key k' r)
          (ix_key (list N) enc_str_key k rid_hi) <-> k' = k.
Proof. intros Hk Hk' Hr. now apply str_scankey_bracket. Qed.

(** * 4. Floats with arbitrary non-NaN keys (both zeros allowed) *)

Lemma f_ops_canon ops : Forall (op_okp N f_ok) ops ->
  Forall (op_okp N f_okc) (map f_canon_op ops).
Proof.
  induction 1 as [|o ops Ho Hops IH]; cbn; constructor; [|exact IH].
  destruct o as [k r|k r|k r k' r']; cbn in *; unfold pok in *; cbn [fst snd] in *.
  - destruct Ho as [Hk Hr]. split; [now apply f_canon_okc | exact Hr].
  - destruct Ho as [Hk Hr]. split; [now apply f_canon_okc | exact Hr].
  - destruct Ho as [[Hk Hr] [Hk' Hr']].
    split; (split; [now apply f_canon_okc | assumption]).
Qed.

Lemma mmf_lookup_canon k s : mmf_lookup (f_canon k) s = mmf_lookup k s.
Proof.
  unfold mmf_lookup, mm_lookup. f_equal. apply filter_ext. intros [k' r]. cbn [fst].
  now rewrite f_cmp_canon_r.
Qed.

Lemma mmf_lookup_sorted_canon k s : mmf_lookup_sorted (f_canon k) s = mmf_lookup_sorted k s.
Proof.
  unfold mmf_lookup_sorted, mm_lookup_sorted. f_equal.
  exact (mmf_range_canon (Some k) (Some k) s).
Qed.

Theorem f32_wrapper_refines ops : Forall (op_okp N f_ok) ops ->
  let m := ixf_run ops in
  let s := mmf_run (map f_canon_op ops) in
  (forall p, In p (ixf_abs m) <-> In p s) /\
  NoDup (ixf_abs m) /\ NoDup s /\
  forall k, f_ok k ->
    (forall r, In r (ixf_scan_key k m) <-> In (f_canon k, r) s) /\
    (forall r, In r (ixf_scan_key k m) <-> In r (mmf_lookup k s)) /\
    NoDup (ixf_scan_key k m) /\
    ixf_scan_key k m = mmf_lookup_sorted k s.
Proof.
  intros Hops m s.
  pose proof (wrapper_refines_generic N f_okc f_cmp enc_f32_key dec_f32_key
                f32_enck_order f32_deck_enck f32_decr_enck f32_bracket
                (map f_canon_op ops) (f_ops_canon ops Hops)) as H.
  cbv zeta in H. fold ixf_run mmf_run in H. rewrite ixf_run_canon in H. fold m s in H.
  destruct H as (Hin & Hnd1 & Hnd2 & Hscan).
  split; [exact Hin|]. split; [exact Hnd1|]. split; [exact Hnd2|].
  intros k Hk. specialize (Hscan (f_canon k) (f_canon_okc k Hk)).
  fold ixf_scan_key mmf_lookup mmf_lookup_sorted in Hscan.
  rewrite ixf_scan_key_canon, mmf_lookup_canon, mmf_lookup_sorted_canon in Hscan.
  exact Hscan.
Qed.

Lemma f_bound_canon b : bound_ok N f_ok b -> bound_ok N f_okc (option_map f_canon b).
Proof. destruct b as [k|]; cbn; [apply f_canon_okc | auto]. Qed.

Theorem f32_range ops lo hi : Forall (op_okp N f_ok) ops ->
  bound_ok N f_ok lo -> bound_ok N f_ok hi ->
  let m := ixf_run ops in
  let s := mmf_run (map f_canon_op ops) in
  ixf_range lo hi m = mmf_range lo hi s /\
  StronglySorted (pair_lt N f_cmp) (ixf_range lo hi m) /\
  NoDup (ixf_range lo hi m) /\
  (forall k r, In (k, r) (ixf_range lo hi m) <->
     In (k, r) s /\
     (match lo with None => True | Some l => f_cmp l k <> Gt end) /\
     (match hi with None => True | Some h => f_cmp k h <> Gt end)).
Proof.
  intros Hops Hlo Hhi m s.
  pose proof (range_generic N f_okc f_cmp enc_f32_key dec_f32_key
                f32_enck_order f32_deck_enck f32_decr_enck
                (map f_canon_op ops) (option_map f_canon lo) (option_map f_canon hi)
                (f_ops_canon ops Hops) (f_bound_canon lo Hlo) (f_bound_canon hi Hhi)) as H.
  cbv zeta in H. fold ixf_run mmf_run ixf_range mmf_range in H.
  rewrite ixf_run_canon in H. fold m s in H.
  rewrite ixf_range_canon, mmf_range_canon in H.
  destruct H as (Heq & Hss & Hnd & Hel).
  split; [exact Heq|]. split; [exact Hss|]. split; [exact Hnd|].
  intros k r. rewrite Hel.
  destruct lo as [l|], hi as [h|]; cbn [option_map];
    rewrite ?f_cmp_canon_l, ?f_cmp_canon_r; reflexivity.
Qed.
