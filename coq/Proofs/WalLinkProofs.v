(** Proofs about the link checker of Model/WalLink.v: [link_ok] accepts exactly the traces
    that satisfy [link_disciplined]; what [link_first_violation] reports. *)
From Coq Require Import List NArith ZArith Lia Bool.
From Coq Require Import ZifyBool ZifyN ZifyNat.
From SDB Require Import Base.Bytes Base.Assoc Params Model.Wal Model.LogCodec Model.WalLink
                        Proofs.BytesProofs Proofs.LogCodecProofs.
Import ListNotations.
Open Scope N_scope.

(** * Small facts *)

Lemma wl_memN_In x l : memN x l = true <-> In x l.
Proof.
  induction l as [|y l IH]; cbn [memN In]; [split; [discriminate|tauto]|].
  rewrite orb_true_iff, IH, N.eqb_eq. tauto.
Qed.

Lemma add_new_In x l p : In p (add_new x l) <-> In p l \/ p = x.
Proof.
  unfold add_new. destruct (memN x l) eqn:E.
  - apply wl_memN_In in E. split; [tauto|]. intros [H| ->]; assumption.
  - cbn [In]. split; [intros [H|H]; auto | intros [H|H]; auto].
Qed.

Lemma add_all_In xs : forall l p, In p (add_all xs l) <-> In p l \/ In p xs.
Proof.
  induction xs as [|x xs IH]; intros l p; unfold add_all; cbn [fold_left In].
  - tauto.
  - fold (add_all xs (add_new x l)). rewrite IH, add_new_In.
    split; [intros [[H|H]|H] | intros [H|[H|H]]]; auto.
Qed.

Lemma absorb_In f rs : forall l p,
  In p (absorb f rs l) <-> In p l \/ exists r, In r rs /\ In p (f (kind_of r)).
Proof.
  induction rs as [|r rs IH]; intros l p; unfold absorb; cbn [fold_left].
  - split; [auto|]. intros [H|(r & [] & _)]. exact H.
  - fold (absorb f rs (add_all (f (kind_of r)) l)). rewrite IH, add_all_In. split.
    + intros [[H|H]|(r' & Hin & H)]; [auto| |].
      * right. exists r. split; [left; reflexivity | exact H].
      * right. exists r'. split; [right; exact Hin | exact H].
    + intros [H|(r' & [->|Hin] & H)]; [auto|auto|].
      right. exists r'. auto.
Qed.

(** * Incremental parsing with an unparsed tail
      (Proofs/LogCodecProofs.v [parse_all_app] is the special case of an empty tail) *)

Lemma parse_fuel_app_gen f : forall x y rs left, (length x <= f)%nat ->
  parse_fuel f x = (rs, left) ->
  parse_all (x ++ y) = (rs ++ fst (parse_all (left ++ y)), snd (parse_all (left ++ y))).
Proof.
  induction f as [|f IH]; intros x y rs left Hf H.
  - destruct x; [|cbn [length] in Hf; lia]. cbn [parse_fuel] in H. inversion H; subst.
    cbn [app]. destruct (parse_all y); reflexivity.
  - cbn [parse_fuel] in H. destruct (parse_rec x) as [[r rest]|] eqn:E.
    + destruct (parse_fuel f rest) as [rs' left'] eqn:E2. inversion H; subst.
      rewrite parse_all_step. rewrite (parse_rec_app _ y _ _ E).
      pose proof (parse_rec_shrinks _ _ _ E).
      rewrite (IH rest y rs' left) by (try lia; exact E2). reflexivity.
    + inversion H; subst. cbn [app]. destruct (parse_all (left ++ y)); reflexivity.
Qed.

(** the parsed records of a log file stay, record for record, whatever is appended; the
    parse resumes at the unparsed tail *)
Lemma parse_all_app_gen x y rs left :
  parse_all x = (rs, left) ->
  parse_all (x ++ y) = (rs ++ fst (parse_all (left ++ y)), snd (parse_all (left ++ y))).
Proof. intros H. apply (parse_fuel_app_gen (length x)); [lia | exact H]. Qed.

(** * The log file along a trace *)

Lemma log_file_snoc pre e :
  log_file (pre ++ [e]) =
  match e with LLog b => log_file pre ++ b | LTrunc => [] | LPage _ _ => log_file pre end.
Proof. unfold log_file. rewrite fold_left_app. cbn [fold_left]. destruct e; reflexivity. Qed.

Lemma log_snoc_llog pre b :
  log_kinds (pre ++ [LLog b]) = log_kinds pre ++ map kind_of (fst (parse_all (log_left pre ++ b))) /\
  log_left (pre ++ [LLog b]) = snd (parse_all (log_left pre ++ b)).
Proof.
  unfold log_kinds, log_left. rewrite log_file_snoc.
  rewrite (parse_all_app_gen _ b _ _ (surjective_pairing (parse_all (log_file pre)))).
  cbn [fst snd]. rewrite map_app. auto.
Qed.

Lemma log_snoc_lpage pre pid nx :
  log_kinds (pre ++ [LPage pid nx]) = log_kinds pre /\ log_left (pre ++ [LPage pid nx]) = log_left pre.
Proof. unfold log_kinds, log_left. rewrite log_file_snoc. auto. Qed.

Lemma log_snoc_ltrunc pre :
  log_kinds (pre ++ [LTrunc]) = [] /\ log_left (pre ++ [LTrunc]) = [].
Proof. unfold log_kinds, log_left. rewrite log_file_snoc. split; reflexivity. Qed.

(** * "at some point of the prefix" *)

(** [p] is picked from a record that is in the log file now *)
Definition here (f : rkind -> list N) (pre : list lev) (p : N) : Prop :=
  exists k, In k (log_kinds pre) /\ In p (f k).

Lemma here_mentioned f pre p : here f pre p -> mentioned f pre p.
Proof. intros (k & H1 & H2). exists pre, [], k. rewrite app_nil_r. auto. Qed.

Lemma app_snoc_split {A} (pre : list A) e pre' post : pre ++ [e] = pre' ++ post ->
  (post = [] /\ pre' = pre ++ [e]) \/ exists post', post = post' ++ [e] /\ pre = pre' ++ post'.
Proof.
  destruct post as [|x post _] using rev_ind; intros H.
  - left. rewrite app_nil_r in H. auto.
  - right. rewrite app_assoc in H. apply app_inj_tail in H. destruct H as [H1 H2].
    subst x. exists post. auto.
Qed.

Lemma mentioned_snoc f pre e p :
  mentioned f (pre ++ [e]) p <-> mentioned f pre p \/ here f (pre ++ [e]) p.
Proof.
  split.
  - intros (pre' & post & k & E & H1 & H2).
    destruct (app_snoc_split _ _ _ _ E) as [[-> ->]|(post' & -> & ->)].
    + right. exists k. auto.
    + left. exists pre', post', k. auto.
  - intros [(pre' & post & k & -> & H1 & H2)|H].
    + exists pre', (post ++ [e]), k. rewrite app_assoc. auto.
    + apply here_mentioned. exact H.
Qed.

Lemma here_llog f pre b p :
  here f (pre ++ [LLog b]) p <->
  here f pre p \/ exists r, In r (fst (parse_all (log_left pre ++ b))) /\ In p (f (kind_of r)).
Proof.
  unfold here. rewrite (proj1 (log_snoc_llog pre b)). split.
  - intros (k & Hin & H). apply in_app_or in Hin. destruct Hin as [Hin|Hin].
    + left. exists k. auto.
    + right. apply in_map_iff in Hin. destruct Hin as (r & <- & Hin). exists r. auto.
  - intros [(k & Hin & H)|(r & Hin & H)].
    + exists k. split; [apply in_or_app; left; exact Hin | exact H].
    + exists (kind_of r). split; [apply in_or_app; right; apply in_map; exact Hin | exact H].
Qed.

Lemma mentioned_llog f pre b p :
  mentioned f (pre ++ [LLog b]) p <->
  mentioned f pre p \/ exists r, In r (fst (parse_all (log_left pre ++ b))) /\ In p (f (kind_of r)).
Proof.
  rewrite mentioned_snoc, here_llog. split.
  - intros [H|[H|H]]; auto. left. apply here_mentioned. exact H.
  - intros [H|H]; auto.
Qed.

Lemma mentioned_lpage f pre pid nx p : mentioned f (pre ++ [LPage pid nx]) p <-> mentioned f pre p.
Proof.
  rewrite mentioned_snoc. unfold here. rewrite (proj1 (log_snoc_lpage pre pid nx)). split.
  - intros [H|H]; [exact H | apply here_mentioned; exact H].
  - auto.
Qed.

Lemma mentioned_ltrunc f pre p : mentioned f (pre ++ [LTrunc]) p <-> mentioned f pre p.
Proof.
  rewrite mentioned_snoc. unfold here. rewrite (proj1 (log_snoc_ltrunc pre)). split.
  - intros [H|(k & [] & _)]. exact H.
  - auto.
Qed.

(** * The invariant of the walk *)

Definition linv (pre : list lev) (s : wl_state) : Prop :=
  k_left s = log_left pre /\
  (forall p, In p (k_created s) <-> created_ever pre p) /\
  (forall p, In p (k_tables s) <-> table_pages_ever pre p).

Lemma linv_init : linv [] wl_init.
Proof.
  unfold linv, wl_init. cbn [k_left k_created k_tables]. split; [reflexivity|].
  assert (E : forall f p, ~ mentioned f [] p).
  { intros f p (pre' & post & k & E & H & _). symmetry in E. apply app_eq_nil in E.
    destruct E as [-> _]. exact H. }
  split; intros p; (split; [intros [] | intros H; exact (E _ _ H)]).
Qed.

Lemma wl_step_inv pre s e : linv pre s -> linv (pre ++ [e]) (wl_step s e).
Proof.
  intros (I1 & I2 & I3). unfold linv, created_ever, table_pages_ever in *.
  destruct e as [b|pid nx|]; cbn [wl_step].
  - rewrite I1. pose proof (proj2 (log_snoc_llog pre b)) as EL.
    destruct (parse_all (log_left pre ++ b)) as [rs left] eqn:EP. cbn [fst snd] in *.
    cbn [k_left k_created k_tables]. split; [symmetry; exact EL|].
    split; intros p; rewrite absorb_In, mentioned_llog, EP; cbn [fst];
      [rewrite I2 | rewrite I3]; reflexivity.
  - split; [rewrite (proj2 (log_snoc_lpage pre pid nx)); exact I1|].
    split; intros p; rewrite mentioned_lpage; [apply I2 | apply I3].
  - cbn [k_left k_created k_tables].
    split; [rewrite (proj2 (log_snoc_ltrunc pre)); reflexivity|].
    split; intros p; rewrite mentioned_ltrunc; [apply I2 | apply I3].
Qed.

(** * One event *)

Definition link_event_ok (pre : list lev) (e : lev) : Prop :=
  match e with
  | LPage pid (Some q) => table_pages_ever pre pid -> created_ever pre q
  | _ => True
  end.

Lemma wl_check_none pre s e : linv pre s -> (wl_check s e = None <-> link_event_ok pre e).
Proof.
  intros (_ & I2 & I3). destruct e as [b|pid [q|]|]; cbn [wl_check link_event_ok]; try tauto.
  destruct (memN pid (k_tables s)) eqn:C1; cbn [andb].
  - apply wl_memN_In in C1. apply I3 in C1.
    destruct (memN q (k_created s)) eqn:C2; cbn [negb].
    + apply wl_memN_In in C2. apply I2 in C2. tauto.
    + split; [discriminate|]. intros H. specialize (H C1). apply I2 in H.
      apply wl_memN_In in H. congruence.
  - split; [|reflexivity]. intros _ H. apply I3 in H. apply wl_memN_In in H. congruence.
Qed.

Lemma wl_check_some pre s e pid q : linv pre s -> wl_check s e = Some (pid, q) ->
  e = LPage pid (Some q) /\ table_pages_ever pre pid /\ ~ created_ever pre q.
Proof.
  intros (_ & I2 & I3). destruct e as [b|pid' [q'|]|]; cbn [wl_check]; try discriminate.
  destruct (memN pid' (k_tables s)) eqn:C1; cbn [andb]; [|discriminate].
  destruct (memN q' (k_created s)) eqn:C2; cbn [negb]; [discriminate|].
  intros H. inversion H; subst. split; [reflexivity|]. split.
  - apply I3. apply wl_memN_In. exact C1.
  - intros H1. apply I2 in H1. apply wl_memN_In in H1. congruence.
Qed.

(** * The walk *)

Definition all_events_ok (pre tr : list lev) : Prop :=
  forall p e post, tr = p ++ e :: post -> link_event_ok (pre ++ p) e.

Lemma wl_run_none tr : forall pre s idx, linv pre s ->
  (wl_run s tr idx = None <-> all_events_ok pre tr).
Proof.
  induction tr as [|e tr IH]; intros pre s idx I; cbn [wl_run].
  - split; [|reflexivity]. intros _ p e post E. destruct p; discriminate.
  - destruct (wl_check s e) as [[pid q]|] eqn:C.
    + split; [discriminate|]. intros H. exfalso.
      specialize (H [] e tr eq_refl). rewrite app_nil_r in H.
      apply (wl_check_none pre s e I) in H. congruence.
    + rewrite (IH (pre ++ [e]) (wl_step s e) (S idx) (wl_step_inv pre s e I)). split.
      * intros H p e' post E. destruct p as [|e0 p]; cbn [app] in E; inversion E; subst.
        -- rewrite app_nil_r. apply (wl_check_none pre s e' I). exact C.
        -- replace (pre ++ e0 :: p) with ((pre ++ [e0]) ++ p) by (rewrite <- app_assoc; reflexivity).
           apply (H p e' post). reflexivity.
      * intros H p e' post E. rewrite <- app_assoc. apply (H (e :: p) e' post).
        subst tr. reflexivity.
Qed.

Lemma wl_run_some tr : forall pre s idx i pid q, linv pre s -> wl_run s tr idx = Some (i, pid, q) ->
  exists p post, tr = p ++ LPage pid (Some q) :: post /\ i = (idx + length p)%nat /\
    all_events_ok pre p /\
    table_pages_ever (pre ++ p) pid /\ ~ created_ever (pre ++ p) q.
Proof.
  induction tr as [|e tr IH]; intros pre s idx i pid q I H; cbn [wl_run] in H; [discriminate|].
  destruct (wl_check s e) as [[pid' q']|] eqn:C.
  - inversion H; subst. destruct (wl_check_some _ _ _ _ _ I C) as (-> & H1 & H2).
    exists [], tr. rewrite app_nil_r. cbn [app length]. repeat split; auto.
    intros p e post E. destruct p; discriminate.
  - destruct (IH _ _ _ _ _ _ (wl_step_inv pre s e I) H) as (p & post & -> & -> & H1 & H2 & H3).
    exists (e :: p), post. rewrite <- app_assoc in H2, H3. cbn [app length] in *.
    repeat split; auto; [lia|].
    intros p1 e1 post1 E. destruct p1 as [|e0 p1]; cbn [app] in E; inversion E; subst.
    + rewrite app_nil_r. apply (wl_check_none pre s e1 I). exact C.
    + replace (pre ++ e0 :: p1) with ((pre ++ [e0]) ++ p1) by (rewrite <- app_assoc; reflexivity).
      apply (H1 p1 e1 post1). reflexivity.
Qed.

(** * The theorems *)

Lemma disciplined_events tr : link_disciplined tr <-> all_events_ok [] tr.
Proof.
  unfold link_disciplined, all_events_ok. cbn [app]. split.
  - intros H p e post E. destruct e as [b|pid [q|]|]; cbn [link_event_ok]; auto.
    apply (H p pid q post E).
  - intros H pre pid q post E. apply (H pre _ post E).
Qed.

Lemma link_ok_iff tr : link_ok tr = true <-> link_disciplined tr.
Proof.
  rewrite disciplined_events. rewrite <- (wl_run_none tr [] wl_init O linv_init).
  unfold link_ok, link_first_violation. destruct (wl_run wl_init tr 0); split; congruence.
Qed.

Lemma link_ok_sound tr : link_ok tr = true -> link_disciplined tr.
Proof. apply link_ok_iff. Qed.

Lemma link_ok_exact tr : link_disciplined tr -> link_ok tr = true.
Proof. apply link_ok_iff. Qed.

(** what is reported is the first page write that breaks the rule: event number [i] writes
    table page [pid] with a link to [q], no NewTablePage record of [q] has been in the log
    file, and the events before it keep the discipline *)
Lemma link_first_violation_spec tr i pid q : link_first_violation tr = Some (i, pid, q) ->
  exists pre post, tr = pre ++ LPage pid (Some q) :: post /\ length pre = i /\
    link_disciplined pre /\ table_pages_ever pre pid /\ ~ created_ever pre q.
Proof.
  unfold link_first_violation. intros H.
  destruct (wl_run_some tr [] wl_init O i pid q linv_init H) as (p & post & E & Ei & H1 & H2 & H3).
  cbn [app plus] in *. exists p, post. repeat split; auto.
  apply disciplined_events. exact H1.
Qed.

Lemma link_first_violation_none tr : link_first_violation tr = None <-> link_disciplined tr.
Proof.
  rewrite <- link_ok_iff. unfold link_ok. destruct (link_first_violation tr); split; congruence.
Qed.
