(** Proofs about the request-queue model (Model/ReqMgr.v) for C12. *)
From Coq Require Import List NArith Bool Arith Lia ZifyBool ZifyN ZifyNat.
From SDB Require Import Params Base.Assoc Model.ReqMgr.
Import ListNotations.
Open Scope nat_scope.

(** * Counting lemmas *)

Lemma count_app : forall (A : Type) (p : A -> bool) (l1 l2 : list A),
  count p (l1 ++ l2) = count p l1 + count p l2.
Proof.
  intros A p l1 l2. induction l1 as [|x r IH]; simpl; [reflexivity|].
  rewrite IH. lia.
Qed.

Lemma count_snoc : forall (A : Type) (p : A -> bool) (l : list A) (x : A),
  count p (l ++ [x]) = count p l + (if p x then 1 else 0).
Proof. intros A p l x. rewrite count_app. simpl. lia. Qed.

Lemma count_le_length : forall (A : Type) (p : A -> bool) (l : list A),
  count p l <= length l.
Proof.
  intros A p l. induction l as [|x r IH]; simpl; [lia|].
  destruct (p x); lia.
Qed.

Lemma count_all : forall (A : Type) (p : A -> bool) (l : list A),
  count p l = length l -> forall x, In x l -> p x = true.
Proof.
  intros A p l. induction l as [|y r IH]; simpl; intros Hc x Hin; [contradiction|].
  pose proof (count_le_length A p r) as Hle.
  destruct (p y) eqn:Ey; [|lia].
  destruct Hin as [Hxy|Hin]; [subst; exact Ey|].
  apply IH; [lia|exact Hin].
Qed.

Lemma tok_res_length : forall c : list msg,
  count is_token c + count is_result c = length c.
Proof.
  induction c as [|m r IH]; simpl; [reflexivity|].
  destruct m; simpl; lia.
Qed.

Lemma count_zero_nil_result : forall c : list msg,
  count is_token c = 0 -> count is_result c = 0 -> c = [].
Proof.
  intros c Ht Hr. pose proof (tok_res_length c) as H.
  destruct c as [|x r]; [reflexivity|]. simpl in *. destruct x; simpl in *; lia.
Qed.

Lemma occ_pos_in : forall (l : list N) (id : N), 0 < occ id l -> In id l.
Proof.
  intros l id. unfold occ. induction l as [|x r IH]; simpl; intros H; [lia|].
  destruct (N.eqb_spec x id) as [E|NE]; [left; exact E|right; apply IH; lia].
Qed.

(** * memN / remove1 *)

Lemma memN_in : forall (l : list N) (x : N), memN x l = true <-> In x l.
Proof.
  intros l x. induction l as [|y r IH]; simpl; [split; [discriminate|contradiction]|].
  rewrite orb_true_iff, IH, N.eqb_eq. tauto.
Qed.

Lemma remove1_length : forall (l : list N) (x : N),
  memN x l = true -> length l = S (length (remove1 x l)).
Proof.
  intros l x. induction l as [|y r IH]; simpl; intros H; [discriminate|].
  destruct (N.eqb_spec y x) as [E|NE]; [reflexivity|].
  simpl in H. simpl. rewrite <- IH; [reflexivity|exact H].
Qed.

Lemma remove1_occ : forall (l : list N) (x id : N),
  memN x l = true ->
  occ id l = occ id (remove1 x l) + (if (x =? id)%N then 1 else 0).
Proof.
  intros l x id. unfold occ. induction l as [|y r IH]; simpl; intros H; [discriminate|].
  destruct (N.eqb_spec y x) as [E|NE].
  - subst y. lia.
  - simpl in H. simpl. rewrite (IH H). lia.
Qed.

(** * aget / aset on the caller table *)

Lemma aget_aset_same : forall (A : Type) (m : list (N * A)) (k : N) (v : A),
  aget (aset m k v) k = Some v.
Proof.
  intros A m k v. induction m as [|[k' x] r IH]; simpl.
  - rewrite N.eqb_refl. reflexivity.
  - destruct (N.eqb_spec k' k) as [E|NE]; simpl.
    + rewrite N.eqb_refl. reflexivity.
    + destruct (N.eqb_spec k' k) as [E'|_]; [contradiction|exact IH].
Qed.

Lemma aget_aset_other : forall (A : Type) (m : list (N * A)) (k k' : N) (v : A),
  k <> k' -> aget (aset m k v) k' = aget m k'.
Proof.
  intros A m k k' v Hne. induction m as [|[k0 x] r IH]; simpl.
  - destruct (N.eqb_spec k k') as [E|_]; [contradiction|reflexivity].
  - destruct (N.eqb_spec k0 k) as [E|NE]; simpl.
    + subst k0. destruct (N.eqb_spec k k') as [E'|_]; [contradiction|reflexivity].
    + destruct (N.eqb_spec k0 k'); [reflexivity|exact IH].
Qed.

Lemma aset_keys : forall (A : Type) (m : list (N * A)) (k : N) (x v : A),
  aget m k = Some x -> map fst (aset m k v) = map fst m.
Proof.
  intros A m k x v. induction m as [|[k0 y] r IH]; simpl; intros H; [discriminate|].
  destruct (N.eqb_spec k0 k) as [E|NE]; simpl.
  - subst. reflexivity.
  - rewrite (IH H). reflexivity.
Qed.

Lemma aset_length : forall (A : Type) (m : list (N * A)) (k : N) (x v : A),
  aget m k = Some x -> length (aset m k v) = length m.
Proof.
  intros A m k x v H. rewrite <- (map_length fst), (aset_keys A m k x v H), map_length.
  reflexivity.
Qed.

Lemma aset_count : forall (A : Type) (p : N * A -> bool) (m : list (N * A)) (k : N) (x v : A),
  aget m k = Some x ->
  count p (aset m k v) + (if p (k, x) then 1 else 0) = count p m + (if p (k, v) then 1 else 0).
Proof.
  intros A p m k x v. induction m as [|[k0 y] r IH]; simpl; intros H; [discriminate|].
  destruct (N.eqb_spec k0 k) as [E|NE]; simpl.
  - subst k0. injection H as H. subst y. lia.
  - specialize (IH H). lia.
Qed.

Lemma aget_none_notin : forall (A : Type) (m : list (N * A)) (k : N),
  aget m k = None -> ~ In k (map fst m).
Proof.
  intros A m k. induction m as [|[k0 y] r IH]; simpl; intros H; [tauto|].
  destruct (N.eqb_spec k0 k) as [E|NE]; [discriminate|].
  intros [E|Hin]; [contradiction|]. exact (IH H Hin).
Qed.

Lemma aget_some_in : forall (A : Type) (m : list (N * A)) (k : N) (x : A),
  aget m k = Some x -> In (k, x) m.
Proof.
  intros A m k x. induction m as [|[k0 y] r IH]; simpl; intros H; [discriminate|].
  destruct (N.eqb_spec k0 k) as [E|NE].
  - injection H as H. subst. left. reflexivity.
  - right. exact (IH H).
Qed.

Lemma in_aget_nodup : forall (A : Type) (m : list (N * A)) (k : N) (x : A),
  NoDup (map fst m) -> In (k, x) m -> aget m k = Some x.
Proof.
  intros A m k x. induction m as [|[k0 y] r IH]; simpl; intros Hnd Hin; [contradiction|].
  inversion Hnd as [|? ? Hnotin Hnd']; subst.
  destruct Hin as [E|Hin].
  - injection E as E1 E2. subst. rewrite N.eqb_refl. reflexivity.
  - destruct (N.eqb_spec k0 k) as [E|NE].
    + subst k0. exfalso. apply Hnotin. apply (in_map fst) in Hin. exact Hin.
    + exact (IH Hnd' Hin).
Qed.

Lemma owing_count_pos : forall (cs : list (N * cstate)) (id : N) (st : cstate),
  aget cs id = Some st -> owes st = true -> 0 < count is_owing cs.
Proof.
  intros cs id st. induction cs as [|[k y] r IH]; simpl; intros H Ho; [discriminate|].
  destruct (N.eqb_spec k id) as [E|NE].
  - injection H as H. subst y. unfold is_owing at 1. simpl. rewrite Ho. lia.
  - specialize (IH H Ho). lia.
Qed.

Lemma owing_count_zero : forall (cs : list (N * cstate)),
  NoDup (map fst cs) ->
  (forall id st, aget cs id = Some st -> owes st = false) -> count is_owing cs = 0.
Proof.
  intros cs Hnd Hno.
  destruct (count is_owing cs) eqn:Ec; [reflexivity|exfalso].
  assert (Hex : exists p, In p cs /\ is_owing p = true).
  { clear Hnd Hno. revert n Ec. induction cs as [|q r IH]; simpl; intros n Ec; [discriminate|].
    destruct (is_owing q) eqn:Eq.
    - exists q. split; [left; reflexivity|exact Eq].
    - simpl in Ec. destruct (IH n Ec) as [p [Hin Hp]]. exists p. split; [right; exact Hin|exact Hp]. }
  destruct Hex as [[k y] [Hin Hp]]. unfold is_owing in Hp. simpl in Hp.
  pose proof (Hno k y (in_aget_nodup _ _ _ _ Hnd Hin)) as Hf. congruence.
Qed.

(** * The inductive invariant *)

Record inv (c m r : N) (s : rstate) : Prop := mkInv {
  i_cap : cap s = c;
  i_maxw : maxw s = m;
  i_rcap : rcap s = r;
  i_place : forall id, places s id = known (callers s) id;
  i_effect : forall id, occ id (effects s) =
     count (is_ok_result_of id) (chan s) + delivering_to (loop s) id + answered_at (callers s) id;
  i_replied : forall id, occ id (replied s) = done_at (callers s) id;
  i_own : forall id st r' o, aget (callers s) id = Some st -> answer_of st = Some (r', o) ->
          r' = id /\ o = Ok /\ (owes st = true -> (1 <= rcap s)%N);
  i_delok : forall id o, loop s = Delivering id o -> o = Ok;
  i_acct : N.to_nat (inflight s) = length (workers s) + count is_result (chan s);
  i_max : (inflight s <= maxw s)%N;
  i_backlog : length (queue s) <= count is_token (chan s) + count is_owing (callers s) + busy (loop s)
              \/ N.to_nat (maxw s) <= N.to_nat (inflight s) + busy (loop s);
  i_chan : length (chan s) <= N.to_nat (cap s);
  i_conserve : length (queue s) + length (workers s) + count is_result (chan s)
               + delivering (loop s) + count is_answered (callers s) = length (callers s);
  i_tok : count is_token (chan s) + count is_owing (callers s) <= length (callers s);
  i_nodup : NoDup (map fst (callers s))
}.

Ltac eqcase a b :=
  let E := fresh "E" in let NE := fresh "NE" in
  destruct (N.eq_dec a b) as [E|NE];
  [ subst; rewrite ?N.eqb_refl in *
  | let H1 := fresh "Hab" in let H2 := fresh "Hba" in
    assert (H1 : (a =? b)%N = false) by (apply N.eqb_neq; exact NE);
    assert (H2 : (b =? a)%N = false) by (apply N.eqb_neq; congruence);
    rewrite ?H1, ?H2 in * ].

Ltac open_inv I :=
  destruct I as [i_cap0 i_maxw0 i_rcap0 i_place0 i_effect0 i_replied0 i_own0 i_delok0 i_acct0
                 i_max0 i_backlog0 i_chan0 i_conserve0 i_tok0 i_nodup0].
Ltac open_state s :=
  destruct s as [cap maxw rcap queue inflight chan callers loop workers replied effects].

Lemma inv_init : forall c m r, inv c m r (rinit c m r).
Proof.
  intros c m r. constructor; simpl; intros; try reflexivity; try lia; try discriminate.
  constructor.
Qed.

Lemma inv_enqueue : forall c m r s id s',
  inv c m r s -> rstep s (Enqueue id) = Some s' -> inv c m r s'.
Proof.
  intros c m r s id s' I H. open_inv I. open_state s; simpl in *.
  destruct (aget callers id) eqn:Eg; [discriminate|]. injection H as <-.
  constructor; simpl;
  [> assumption | assumption | assumption
   | intros id'; specialize (i_place0 id'); unfold places, known, occ, answered_at in *; simpl in *;
     rewrite !count_snoc; eqcase id id'; [rewrite Eg in *|]; simpl in *; lia
   | intros id'; specialize (i_effect0 id'); unfold answered_at in *; simpl;
     eqcase id id'; [rewrite Eg in *|]; simpl in *; lia
   | intros id'; specialize (i_replied0 id'); unfold done_at in *; simpl;
     eqcase id id'; [rewrite Eg in *|]; simpl in *; lia
   | intros id' st r' o; eqcase id id';
     [intros Hst; injection Hst as <-; discriminate | apply i_own0]
   | assumption | assumption | assumption
   | rewrite app_length; simpl; lia
   | assumption
   | rewrite app_length; simpl; lia
   | lia
   | constructor; [apply aget_none_notin; exact Eg|assumption] ].
Qed.

(** Effect of changing one caller's state on the per-caller observations. *)
Lemma aset_obs : forall (cs : list (N * cstate)) (id : N) (x v : cstate),
  aget cs id = Some x ->
  (forall id', id <> id' -> aget (aset cs id v) id' = aget cs id') /\
  aget (aset cs id v) id = Some v /\
  count is_owing (aset cs id v) + (if owes x then 1 else 0) =
    count is_owing cs + (if owes v then 1 else 0) /\
  count is_answered (aset cs id v) + (if is_answered (id, x) then 1 else 0) =
    count is_answered cs + (if is_answered (id, v) then 1 else 0) /\
  length (aset cs id v) = length cs /\
  map fst (aset cs id v) = map fst cs.
Proof.
  intros cs id x v Eg. repeat split.
  - intros id' Hne. apply aget_aset_other. exact Hne.
  - apply aget_aset_same.
  - exact (aset_count _ is_owing cs id x v Eg).
  - exact (aset_count _ is_answered cs id x v Eg).
  - exact (aset_length _ cs id x v Eg).
  - exact (aset_keys _ cs id x v Eg).
Qed.

(** A caller changes state from [x] to [v]; everything else but the fields
    given explicitly stays.  [da]: change of "answered", [dd]: of "done". *)
Ltac caller_obs callers id Eg v :=
  let Hobs := fresh "Hobs" in
  pose proof (aset_obs callers id _ v Eg) as Hobs;
  destruct Hobs as [Hoth [Hsame [Hown [Hans [Hlen Hkeys]]]]];
  simpl in Hown, Hans.

Lemma inv_sendtoken : forall c m r s id s',
  inv c m r s -> rstep s (SendToken id) = Some s' -> inv c m r s'.
Proof.
  intros c m r s id s' I H. open_inv I. open_state s; simpl in *.
  unfold chan_full in H; simpl in H.
  destruct (aget callers id) as [[| |r0 o0|r0 o0]|] eqn:Eg; try discriminate;
  (destruct (N.leb_spec cap (N.of_nat (length chan))) as [Hfull|Hroom]; [discriminate|]);
  injection H as <-.
  - (* from Enqueued_not_signalled to Waiting *)
    caller_obs callers id Eg Waiting.
    constructor; simpl;
    [> assumption | assumption | assumption
     | intros id'; specialize (i_place0 id'); unfold places, known, occ, answered_at in *; simpl in *;
       rewrite count_snoc; simpl; eqcase id id';
       [rewrite Hsame; rewrite Eg in *|rewrite (Hoth id' NE)]; simpl in *; lia
     | intros id'; specialize (i_effect0 id'); unfold answered_at in *; simpl;
       rewrite count_snoc; simpl; eqcase id id';
       [rewrite Hsame; rewrite Eg in *|rewrite (Hoth id' NE)]; simpl in *; lia
     | intros id'; specialize (i_replied0 id'); unfold done_at in *; simpl; eqcase id id';
       [rewrite Hsame; rewrite Eg in *|rewrite (Hoth id' NE)]; simpl in *; lia
     | intros id' st r' o; eqcase id id';
       [rewrite Hsame; intros Hst; injection Hst as <-; discriminate
       |rewrite (Hoth id' NE); apply i_own0]
     | assumption
     | rewrite count_snoc; simpl; lia
     | assumption
     | rewrite count_snoc; simpl; lia
     | rewrite app_length; simpl; lia
     | rewrite count_snoc; simpl; lia
     | rewrite count_snoc; simpl; lia
     | rewrite Hkeys; assumption ].
  - (* from Replied_not_signalled to CDone: the buffered reply is received *)
    caller_obs callers id Eg (CDone r0 o0).
    constructor; simpl;
    [> assumption | assumption | assumption
     | intros id'; specialize (i_place0 id'); unfold places, known, occ, answered_at in *; simpl in *;
       rewrite count_snoc; simpl; eqcase id id';
       [rewrite Hsame; rewrite Eg in *|rewrite (Hoth id' NE)]; simpl in *; lia
     | intros id'; specialize (i_effect0 id'); unfold answered_at in *; simpl;
       rewrite count_snoc; simpl; eqcase id id';
       [rewrite Hsame; rewrite Eg in *|rewrite (Hoth id' NE)]; simpl in *; lia
     | intros id'; specialize (i_replied0 id'); unfold done_at, occ in *; simpl; eqcase id id';
       [rewrite Hsame; rewrite Eg in *|rewrite (Hoth id' NE)]; simpl in *; lia
     | intros id' st r' o; eqcase id id';
       [rewrite Hsame; intros Hst; injection Hst as <-; simpl; intros Ha;
        destruct (i_own0 id' _ r' o Eg Ha) as [Ho1 [Ho2 _]];
        split; [exact Ho1|split; [exact Ho2|discriminate]]
       |rewrite (Hoth id' NE); apply i_own0]
     | assumption
     | rewrite count_snoc; simpl; lia
     | assumption
     | rewrite count_snoc; simpl; lia
     | rewrite app_length; simpl; lia
     | rewrite count_snoc; simpl; lia
     | rewrite count_snoc; simpl; lia
     | rewrite Hkeys; assumption ].
Qed.

Lemma inv_looprecv : forall c m r s s',
  inv c m r s -> rstep s LoopRecv = Some s' -> inv c m r s'.
Proof.
  intros c m r s s' I H. open_inv I. open_state s; simpl in *.
  destruct loop; try discriminate.
  destruct chan as [|[|id o] rest]; try discriminate.
  - (* token *)
    injection H as <-. simpl in *.
    constructor; simpl;
    [> assumption | assumption | assumption
     | intros id'; specialize (i_place0 id'); unfold places in *; simpl in *; lia
     | assumption | assumption | assumption | discriminate
     | lia | lia | lia | lia | lia | lia | assumption ].
  - destruct o; injection H as <-; simpl in *; unfold dec.
    + (* final result *)
      constructor; simpl;
      [> assumption | assumption | assumption
       | intros id'; specialize (i_place0 id'); unfold places in *; simpl in *;
         eqcase id id'; simpl in *; lia
       | intros id'; specialize (i_effect0 id'); simpl in *;
         eqcase id id'; simpl in *; lia
       | assumption | assumption
       | intros id' o Heq; injection Heq as _ <-; reflexivity
       | lia | lia | lia | lia | lia | lia | assumption ].
    + (* aborted: back to the head of the queue *)
      constructor; simpl;
      [> assumption | assumption | assumption
       | intros id'; specialize (i_place0 id'); unfold places, occ in *; simpl in *;
         eqcase id id'; simpl in *; lia
       | assumption | assumption | assumption | discriminate
       | lia | lia | lia | lia | lia | lia | assumption ].
Qed.

Lemma inv_deliver : forall c m r s id s',
  inv c m r s -> rstep s (Deliver id) = Some s' -> inv c m r s'.
Proof.
  intros c m r s id s' I H. open_inv I. open_state s; simpl in *.
  destruct loop as [|id0 o|]; try discriminate.
  destruct (N.eqb_spec id0 id) as [E|NE]; [subst id0|discriminate].
  pose proof (i_delok0 id o eq_refl) as Hok. subst o.
  destruct (aget callers id) as [[| |r0 o0|r0 o0]|] eqn:Eg; try discriminate.
  - (* the caller has not sent its token yet: the reply goes into its channel *)
    destruct (N.eqb_spec rcap 0) as [Hz|Hnz]; [discriminate|]. injection H as <-.
    caller_obs callers id Eg (Replied_not_signalled id Ok).
    constructor; simpl;
    [> assumption | assumption | assumption
     | intros id'; specialize (i_place0 id'); unfold places, known, occ, answered_at in *; simpl in *;
       eqcase id id'; [rewrite Hsame; rewrite Eg in *|rewrite (Hoth id' NE)]; simpl in *; lia
     | intros id'; specialize (i_effect0 id'); unfold answered_at in *; simpl in *;
       eqcase id id'; [rewrite Hsame; rewrite Eg in *|rewrite (Hoth id' NE)]; simpl in *; lia
     | intros id'; specialize (i_replied0 id'); unfold done_at in *; simpl in *;
       eqcase id id'; [rewrite Hsame; rewrite Eg in *|rewrite (Hoth id' NE)]; simpl in *; lia
     | intros id' st r' o; eqcase id id';
       [rewrite Hsame; intros Hst; injection Hst as <-; simpl; intros Ha; injection Ha as <- <-;
        split; [reflexivity|split; [reflexivity|intros _; lia]]
       |rewrite (Hoth id' NE); apply i_own0]
     | discriminate
     | assumption | assumption
     | simpl in *; lia
     | assumption
     | simpl in *; lia
     | lia
     | rewrite Hkeys; assumption ].
  - (* the caller is waiting: it receives at once *)
    injection H as <-.
    caller_obs callers id Eg (CDone id Ok).
    constructor; simpl;
    [> assumption | assumption | assumption
     | intros id'; specialize (i_place0 id'); unfold places, known, occ, answered_at in *; simpl in *;
       eqcase id id'; [rewrite Hsame; rewrite Eg in *|rewrite (Hoth id' NE)]; simpl in *; lia
     | intros id'; specialize (i_effect0 id'); unfold answered_at in *; simpl in *;
       eqcase id id'; [rewrite Hsame; rewrite Eg in *|rewrite (Hoth id' NE)]; simpl in *; lia
     | intros id'; specialize (i_replied0 id'); unfold done_at, occ in *; simpl in *;
       eqcase id id'; [rewrite Hsame; rewrite Eg in *|rewrite (Hoth id' NE)]; simpl in *; lia
     | intros id' st r' o; eqcase id id';
       [rewrite Hsame; intros Hst; injection Hst as <-; simpl; intros Ha; injection Ha as <- <-;
        split; [reflexivity|split; [reflexivity|discriminate]]
       |rewrite (Hoth id' NE); apply i_own0]
     | discriminate
     | assumption | assumption
     | simpl in *; lia
     | assumption
     | simpl in *; lia
     | lia
     | rewrite Hkeys; assumption ].
Qed.

Lemma inv_dispatch : forall c m r s s',
  inv c m r s -> rstep s Dispatch = Some s' -> inv c m r s'.
Proof.
  intros c m r s s' I H. open_inv I. open_state s; simpl in *.
  destruct loop; try discriminate.
  destruct queue as [|h t].
  - injection H as <-. constructor; simpl in *;
    [> assumption | assumption | assumption
     | intros id'; specialize (i_place0 id'); unfold places in *; simpl in *; lia
     | assumption | assumption | assumption | discriminate
     | lia | lia | lia | lia | lia | lia | assumption ].
  - destruct (N.ltb_spec inflight maxw) as [Hlt|Hge]; injection H as <-.
    + constructor; simpl in *;
      [> assumption | assumption | assumption
       | intros id'; specialize (i_place0 id'); unfold places, occ in *; simpl in *; lia
       | assumption | assumption | assumption | discriminate
       | lia | lia | lia | lia | lia | lia | assumption ].
    + constructor; simpl in *;
      [> assumption | assumption | assumption
       | intros id'; specialize (i_place0 id'); unfold places in *; simpl in *; lia
       | assumption | assumption | assumption | discriminate
       | lia | lia | lia | lia | lia | lia | assumption ].
Qed.

Lemma inv_finish : forall c m r s id o s',
  inv c m r s -> rstep s (WorkerFinish id o) = Some s' -> inv c m r s'.
Proof.
  intros c m r s id o s' I H. open_inv I. open_state s; simpl in *.
  destruct (memN id workers) eqn:Em; [|discriminate].
  unfold chan_full in H; simpl in H.
  destruct (N.leb_spec cap (N.of_nat (length chan))) as [Hfull|Hroom]; [discriminate|].
  injection H as <-.
  pose proof (remove1_length workers id Em) as Hlen.
  constructor; simpl;
  [> assumption | assumption | assumption
   | intros id'; specialize (i_place0 id'); unfold places in *; simpl in *;
     rewrite count_snoc; simpl; rewrite (remove1_occ workers id id' Em) in i_place0; lia
   | intros id'; specialize (i_effect0 id'); rewrite count_snoc;
     destruct o; unfold occ in *; simpl in *; lia
   | assumption | assumption | assumption
   | rewrite count_snoc; simpl; lia
   | assumption
   | rewrite count_snoc; simpl; lia
   | rewrite app_length; simpl; lia
   | rewrite count_snoc; simpl; lia
   | rewrite count_snoc; simpl; lia
   | assumption ].
Qed.

Lemma inv_step : forall c m r s l s', inv c m r s -> rstep s l = Some s' -> inv c m r s'.
Proof.
  intros c m r s l s' I H. destruct l.
  - exact (inv_enqueue c m r s id s' I H).
  - exact (inv_sendtoken c m r s id s' I H).
  - exact (inv_looprecv c m r s s' I H).
  - exact (inv_deliver c m r s id s' I H).
  - exact (inv_dispatch c m r s s' I H).
  - exact (inv_finish c m r s id o s' I H).
Qed.

(** * Reachable states *)

Definition reach (c m rc : N) (s : rstate) : Prop :=
  exists ls, rrun ls (rinit c m rc) = Some s.

Lemma inv_run : forall c m rc ls s s', inv c m rc s -> rrun ls s = Some s' -> inv c m rc s'.
Proof.
  intros c m rc ls. induction ls as [|l r IH]; simpl; intros s s' I H.
  - injection H as <-. exact I.
  - destruct (rstep s l) as [s1|] eqn:E; [|discriminate].
    exact (IH s1 s' (inv_step c m rc s l s1 I E) H).
Qed.

Lemma reach_inv : forall c m rc s, reach c m rc s -> inv c m rc s.
Proof. intros c m rc s [ls H]. exact (inv_run c m rc ls _ s (inv_init c m rc) H). Qed.

Ltac use_inv R :=
  destruct (reach_inv _ _ _ _ R)
    as [Hcap Hmaxw Hrcap Hplace Heff Hrep Hown Hdelok Hacct Hmax Hback Hchan Hcons Htok Hnd].

Lemma rrun_app : forall l1 l2 s s1 s2,
  rrun l1 s = Some s1 -> rrun l2 s1 = Some s2 -> rrun (l1 ++ l2) s = Some s2.
Proof.
  induction l1 as [|l r IH]; simpl; intros l2 s s1 s2 H1 H2.
  - injection H1 as <-. exact H2.
  - destruct (rstep s l) as [s'|]; [|discriminate]. exact (IH l2 s' s1 s2 H1 H2).
Qed.

Lemma reach_run : forall c m rc s ls s',
  reach c m rc s -> rrun ls s = Some s' -> reach c m rc s'.
Proof.
  intros c m rc s ls s' [l0 H0] H. exists (l0 ++ ls). exact (rrun_app l0 ls _ s s' H0 H).
Qed.

Lemma ok_le_res : forall (c : list msg) (id : N),
  count (is_ok_result_of id) c <= count (is_result_of id) c.
Proof.
  intros c id. induction c as [|x r IH]; simpl; [lia|].
  destruct x as [|i o]; simpl; [lia|]. destruct o; destruct (i =? id)%N; lia.
Qed.

Lemma known_le_1 : forall cs id, known cs id <= 1.
Proof. intros cs id. unfold known. destruct (aget cs id); lia. Qed.

(** ** Replies *)

Lemma reply_at_most_once_l : forall c m rc s, reach c m rc s ->
  NoDup (map fst (callers s)) /\
  forall id, occ id (replied s) <= 1 /\
    (occ id (replied s) = 1 <-> exists r o, aget (callers s) id = Some (CDone r o)).
Proof.
  intros c m rc s R. use_inv R. split; [assumption|].
  intros id. rewrite (Hrep id). unfold done_at.
  destruct (aget (callers s) id) as [[| |r o|r o]|]; (split; [lia|]);
    (split; [intros H; try lia; eauto | intros [r' [o' H]]; try discriminate; reflexivity]).
Qed.

(** A caller's answer, once given, never changes: [CDone] stays, and a reply
    waiting in the channel stays until it becomes the [CDone] with the same
    content. *)
Lemma done_stable_l : forall s l s' id r o,
  rstep s l = Some s' ->
  (aget (callers s) id = Some (CDone r o) -> aget (callers s') id = Some (CDone r o)) /\
  (aget (callers s) id = Some (Replied_not_signalled r o) ->
   aget (callers s') id = Some (Replied_not_signalled r o) \/
   aget (callers s') id = Some (CDone r o)).
Proof.
  intros s l s' id r o H.
  assert (Hkeep : callers s' = callers s \/
          exists id0 v, (id0 <> id \/ (id0 = id /\
             (forall r1 o1, aget (callers s) id <> Some (CDone r1 o1)) /\
             (forall r1 o1, aget (callers s) id = Some (Replied_not_signalled r1 o1) ->
                            v = CDone r1 o1))) /\
            (callers s' = aset (callers s) id0 v \/
             (aget (callers s) id0 = None /\ callers s' = (id0, v) :: callers s))).
  { destruct s as [cap maxw rcap queue inflight chan callers loop workers replied effects];
      simpl in *. destruct l; simpl in H.
    - destruct (aget callers id0) eqn:Eg; [discriminate|]. injection H as <-. simpl.
      right. exists id0, Enqueued_not_signalled.
      destruct (N.eq_dec id0 id) as [E|NE].
      + subst id0. split; [right; split; [reflexivity|split; intros; congruence]|].
        right. split; [assumption|reflexivity].
      + split; [left; assumption|]. right. split; [assumption|reflexivity].
    - destruct (aget callers id0) as [[| |r' o'|r' o']|] eqn:Eg; try discriminate;
        (destruct (chan_full _); [discriminate|]); injection H as <-; simpl; right.
      + exists id0, Waiting. destruct (N.eq_dec id0 id) as [E|NE].
        * subst id0. split; [right; split; [reflexivity|split; intros; congruence]|left; reflexivity].
        * split; [left; assumption|left; reflexivity].
      + exists id0, (CDone r' o'). destruct (N.eq_dec id0 id) as [E|NE].
        * subst id0. split; [|left; reflexivity]. right. split; [reflexivity|].
          split; [intros; congruence|]. intros r1 o1 Heq. congruence.
        * split; [left; assumption|left; reflexivity].
    - destruct loop; try discriminate. destruct chan as [|[|i [|]] rest]; try discriminate;
        injection H as <-; left; reflexivity.
    - destruct loop as [|i o'|]; try discriminate. destruct (i =? id0)%N; [|discriminate].
      destruct (aget callers id0) as [[| |r' o''|r' o'']|] eqn:Eg; try discriminate.
      + destruct (rcap =? 0)%N; [discriminate|]. injection H as <-. simpl. right.
        exists id0, (Replied_not_signalled i o'). destruct (N.eq_dec id0 id) as [E|NE].
        * subst id0. split; [right; split; [reflexivity|split; intros; congruence]|left; reflexivity].
        * split; [left; assumption|left; reflexivity].
      + injection H as <-. simpl. right.
        exists id0, (CDone i o'). destruct (N.eq_dec id0 id) as [E|NE].
        * subst id0. split; [right; split; [reflexivity|split; intros; congruence]|left; reflexivity].
        * split; [left; assumption|left; reflexivity].
    - destruct loop; try discriminate. destruct queue; [|destruct (_ <? _)%N];
        injection H as <-; left; reflexivity.
    - destruct (memN id0 workers); [|discriminate]. destruct (chan_full _); [discriminate|].
      injection H as <-. left; reflexivity. }
  destruct Hkeep as [->|[id0 [v [Hside Hupd]]]]; [split; intros Hd; [exact Hd|left; exact Hd]|].
  destruct Hside as [Hne|[-> [Hnd Hrn]]].
  - assert (Hsame : aget (callers s') id = aget (callers s) id).
    { destruct Hupd as [->|[_ ->]]; [apply aget_aset_other; exact Hne|].
      simpl. destruct (N.eqb_spec id0 id) as [E|_]; [contradiction|reflexivity]. }
    rewrite Hsame. split; intros Hd; [exact Hd|left; exact Hd].
  - split; intros Hd; [exfalso; exact (Hnd r o Hd)|].
    right. rewrite (Hrn r o Hd) in Hupd. destruct Hupd as [->|[Hn _]]; [apply aget_aset_same|congruence].
Qed.

Lemma reply_is_own_result_l : forall c m rc s, reach c m rc s ->
  forall id r o, In (id, CDone r o) (callers s) ->
    r = id /\ o = Ok /\ occ id (effects s) = 1 /\ occ id (replied s) = 1.
Proof.
  intros c m rc s R id r o Hin. use_inv R.
  pose proof (in_aget_nodup _ _ _ _ Hnd Hin) as Hg.
  destruct (Hown id _ r o Hg eq_refl) as [-> [-> _]].
  specialize (Hplace id). specialize (Heff id). specialize (Hrep id).
  pose proof (ok_le_res (chan s) id) as Hle.
  unfold places, known, done_at, answered_at in *. rewrite Hg in *. simpl in *.
  repeat split; lia.
Qed.

(** The reply waiting in a caller's channel is its own, too; it has not been
    received yet. *)
Lemma pending_reply_is_own_result_l : forall c m rc s, reach c m rc s ->
  forall id r o, In (id, Replied_not_signalled r o) (callers s) ->
    r = id /\ o = Ok /\ occ id (effects s) = 1 /\ occ id (replied s) = 0 /\ (1 <= rc)%N.
Proof.
  intros c m rc s R id r o Hin.
  use_inv R.
  pose proof (in_aget_nodup _ _ _ _ Hnd Hin) as Hg.
  destruct (Hown id _ r o Hg eq_refl) as [-> [-> Hrc]]. specialize (Hrc eq_refl).
  specialize (Hplace id). specialize (Heff id). specialize (Hrep id).
  pose proof (ok_le_res (chan s) id) as Hle.
  unfold places, known, done_at, answered_at in *. rewrite Hg in *. simpl in *.
  repeat split; lia.
Qed.

Lemma aborted_never_delivered_l : forall c m rc s, reach c m rc s ->
  (forall id o, loop s = Delivering id o -> o = Ok) /\
  (forall id r, ~ In (id, CDone r Aborted) (callers s)) /\
  (forall id r, ~ In (id, Replied_not_signalled r Aborted) (callers s)).
Proof.
  intros c m rc s R. split; [|split].
  - use_inv R. assumption.
  - intros id r Hin. destruct (reply_is_own_result_l c m rc s R id r Aborted Hin) as [_ [H _]].
    discriminate.
  - intros id r Hin.
    destruct (pending_reply_is_own_result_l c m rc s R id r Aborted Hin) as [_ [H _]].
    discriminate.
Qed.

(** ** Effects: a statement commits at most once, and never runs again afterwards *)

Lemma effect_at_most_once_l : forall c m rc s, reach c m rc s -> forall id,
  occ id (effects s) <= 1 /\
  (occ id (effects s) = 1 -> occ id (queue s) = 0 /\ occ id (workers s) = 0).
Proof.
  intros c m rc s R id. use_inv R.
  specialize (Hplace id). specialize (Heff id).
  pose proof (ok_le_res (chan s) id) as Hle. pose proof (known_le_1 (callers s) id) as Hk.
  unfold places in *. lia.
Qed.

(** ** Accounting *)

Lemma accounting_l : forall c m rc s, reach c m rc s ->
  cap s = c /\ maxw s = m /\ rcap s = rc /\
  N.to_nat (inflight s) = length (workers s) + count is_result (chan s) /\
  (inflight s <= maxw s)%N /\ length (chan s) <= N.to_nat (cap s).
Proof. intros c m rc s R. use_inv R. repeat split; assumption. Qed.

Lemma one_place_l : forall c m rc s, reach c m rc s ->
  (forall id, places s id = known (callers s) id) /\
  length (queue s) + length (workers s) + count is_result (chan s)
    + delivering (loop s) + count is_answered (callers s) = length (callers s).
Proof. intros c m rc s R. use_inv R. split; assumption. Qed.

(** Readable consequences of [places = known]. *)
Lemma one_place_cases_l : forall c m rc s, reach c m rc s -> forall id,
  (In id (queue s) \/ In id (workers s) -> aget (callers s) id <> None) /\
  (aget (callers s) id <> None -> places s id = 1) /\
  (aget (callers s) id = None -> places s id = 0).
Proof.
  intros c m rc s R id. destruct (one_place_l c m rc s R) as [Hp _]. specialize (Hp id).
  unfold known in Hp. repeat split.
  - intros Hin Hn. rewrite Hn in Hp. unfold places in Hp.
    assert (Hgt : 0 < occ id (queue s) + occ id (workers s)); [|lia].
    assert (Hpos : forall l, In id l -> 0 < occ id l).
    { intros l. unfold occ. induction l as [|x r IH]; simpl; intros Hi; [contradiction|].
      destruct Hi as [->|Hi]; [rewrite N.eqb_refl; lia|specialize (IH Hi); lia]. }
    destruct Hin as [Hi|Hi]; apply Hpos in Hi; lia.
  - intros Hn. destruct (aget (callers s) id); [exact Hp|congruence].
  - intros Hn. rewrite Hn in Hp. exact Hp.
Qed.

(** ** Backlog / stranding *)

Lemma backlog_l : forall c m rc s, reach c m rc s ->
  length (queue s) <= count is_token (chan s) + count is_owing (callers s) + busy (loop s)
  \/ N.to_nat m <= N.to_nat (inflight s) + busy (loop s).
Proof. intros c m rc s R. use_inv R. rewrite <- Hmaxw. assumption. Qed.

Definition stranded_s (s : rstate) : Prop :=
  queue s <> [] /\ chan s = [] /\ workers s = [] /\ loop s = Idle /\
  (forall id st, aget (callers s) id = Some st -> owes st = false).

Lemma no_stranding_l : forall c m rc s, (1 <= m)%N -> reach c m rc s -> ~ stranded_s s.
Proof.
  intros c m rc s Hm R [Hq [Hc [Hw [Hl Hens]]]].
  pose proof (backlog_l c m rc s R) as Hb. use_inv R.
  rewrite (owing_count_zero (callers s) Hnd Hens) in Hb.
  rewrite Hc, Hw, Hl in *. simpl in *.
  destruct (queue s); [congruence|]. simpl in *. lia.
Qed.

Lemma pending_work_l : forall c m rc s, (1 <= m)%N -> reach c m rc s -> queue s <> [] ->
  0 < count is_token (chan s) + count is_owing (callers s) + busy (loop s)
      + length (workers s) + count is_result (chan s).
Proof.
  intros c m rc s Hm R Hq. pose proof (backlog_l c m rc s R) as Hb. use_inv R.
  destruct (queue s); [congruence|]. simpl in *. lia.
Qed.

Lemma backlog_idle_l : forall c m rc s, (2 <= m)%N -> reach c m rc s -> inflight s = 0%N ->
  length (queue s) <= count is_token (chan s) + count is_owing (callers s) + busy (loop s).
Proof.
  intros c m rc s Hm R Hi. pose proof (backlog_l c m rc s R) as Hb.
  assert (Hb1 : busy (loop s) <= 1) by (destruct (loop s); simpl; lia). lia.
Qed.

(** ** [enabled] is exactly the set of enabled non-Enqueue labels *)

Lemma ens_ids_spec : forall cs id,
  In id (ens_ids cs) <-> exists st, aget cs id = Some st /\ owes st = true.
Proof.
  intros cs id. unfold ens_ids. rewrite filter_In. split.
  - intros [_ H]. destruct (aget cs id) as [st|]; [|discriminate]. exists st. split; [reflexivity|exact H].
  - intros [st [H Ho]]. split.
    + apply aget_some_in in H. apply (in_map fst) in H. exact H.
    + rewrite H. exact Ho.
Qed.

Lemma enabled_sound : forall s l, In l (enabled s) -> exists s', rstep s l = Some s'.
Proof.
  intros s l H. unfold enabled in H.
  apply in_app_or in H. destruct H as [H|H].
  { destruct (chan_full s) eqn:Ef; [contradiction|].
    apply in_map_iff in H. destruct H as [id [<- Hin]]. apply ens_ids_spec in Hin.
    destruct Hin as [st [Hg Ho]]. simpl. rewrite Hg, Ef.
    destruct st; try discriminate; eauto. }
  apply in_app_or in H. destruct H as [H|H].
  { destruct (loop s) eqn:El; try contradiction. destruct (chan s) as [|x r] eqn:Ec; [contradiction|].
    destruct H as [<-|[]]. simpl. rewrite El, Ec. destruct x as [|i [|]]; eauto. }
  apply in_app_or in H. destruct H as [H|H].
  { destruct (loop s) as [|id o|] eqn:El; try contradiction.
    destruct (aget (callers s) id) as [[| |r o'|r o']|] eqn:Eg; try contradiction.
    - destruct (rcap s =? 0)%N eqn:Er; [contradiction|].
      destruct H as [<-|[]]. simpl. rewrite El, N.eqb_refl, Eg, Er. eauto.
    - destruct H as [<-|[]]. simpl. rewrite El, N.eqb_refl, Eg. eauto. }
  apply in_app_or in H. destruct H as [H|H].
  { destruct (loop s) eqn:El; try contradiction. destruct H as [<-|[]]. simpl. rewrite El.
    destruct (queue s); [eauto|]. destruct (_ <? _)%N; eauto. }
  destruct (chan_full s) eqn:Ef; [contradiction|].
  apply in_flat_map in H. destruct H as [id [Hin Hl]]. apply memN_in in Hin.
  destruct Hl as [<-|[<-|[]]]; simpl; rewrite Hin, Ef; eauto.
Qed.

Lemma enabled_complete : forall s l s',
  rstep s l = Some s' -> is_enqueue l = false -> In l (enabled s).
Proof.
  intros s l s' H Hne. unfold enabled. destruct l; simpl in H; try discriminate.
  - destruct (aget (callers s) id) as [st|] eqn:Eg; [|discriminate].
    assert (Ho : owes st = true /\ chan_full s = false).
    { destruct st; try discriminate; (destruct (chan_full s); [discriminate|]); split; reflexivity. }
    destruct Ho as [Ho Ef]. rewrite Ef.
    apply in_or_app. left. apply in_map. apply ens_ids_spec. exists st. split; assumption.
  - apply in_or_app. right. apply in_or_app. left.
    destruct (loop s); try discriminate. destruct (chan s); [discriminate|]. left. reflexivity.
  - apply in_or_app. right. apply in_or_app. right. apply in_or_app. left.
    destruct (loop s) as [|i o|]; try discriminate.
    destruct (N.eqb_spec i id) as [E|NE]; [subst i|discriminate].
    destruct (aget (callers s) id) as [[| |r o'|r o']|]; try discriminate.
    + destruct (rcap s =? 0)%N; [discriminate|]. left. reflexivity.
    + left. reflexivity.
  - apply in_or_app. right. apply in_or_app. right. apply in_or_app. right. apply in_or_app. left.
    destruct (loop s); try discriminate. left. reflexivity.
  - apply in_or_app. right. apply in_or_app. right. apply in_or_app. right. apply in_or_app. right.
    destruct (memN id (workers s)) eqn:Em; [|discriminate].
    destruct (chan_full s); [discriminate|].
    apply in_flat_map. exists id. split; [apply memN_in; exact Em|].
    destruct o; simpl; auto.
Qed.

(** ** Deadlock analysis *)

Definition quiescent_s (s : rstate) : Prop :=
  queue s = [] /\ workers s = [] /\ chan s = [] /\ loop s = Idle /\
  forall id st, In (id, st) (callers s) -> exists r o, st = CDone r o.

(** Only with unbuffered reply channels: the run loop is blocked handing a
    result to a caller that is itself blocked sending its wake-up token into
    the full channel. *)
Definition lcd_s (s : rstate) : Prop :=
  rcap s = 0%N /\ exists id o, loop s = Delivering id o /\
    aget (callers s) id = Some Enqueued_not_signalled /\ chan_full s = true.

Lemma app_nil_l2 : forall (A : Type) (a b : list A), a ++ b = [] -> a = [] /\ b = [].
Proof. intros A a b H. apply app_eq_nil in H. exact H. Qed.

Lemma deadlock_characterisation_l : forall c m rc s, (1 <= c)%N -> (1 <= m)%N ->
  reach c m rc s -> enabled s = [] -> quiescent_s s \/ lcd_s s.
Proof.
  intros c m rc s Hc Hm R He. use_inv R. unfold enabled in He.
  apply app_nil_l2 in He. destruct He as [He1 He].
  apply app_nil_l2 in He. destruct He as [He2 He].
  apply app_nil_l2 in He. destruct He as [He3 He].
  apply app_nil_l2 in He. destruct He as [He4 He5].
  destruct (loop s) as [|id o|] eqn:El; [| |discriminate].
  - (* the loop is at the receive: the channel must be empty *)
    left. destruct (chan s) as [|x r] eqn:Ec; [|discriminate].
    assert (Ef : chan_full s = false).
    { unfold chan_full. rewrite Ec, Hcap. simpl. apply N.leb_gt. lia. }
    rewrite Ef in *.
    assert (Hw : workers s = []).
    { destruct (workers s); [reflexivity|discriminate]. }
    assert (Hens : forall id st, aget (callers s) id = Some st -> owes st = false).
    { intros id st Hg. destruct (owes st) eqn:Eo; [|reflexivity].
      assert (Hin : In id (ens_ids (callers s))) by (apply ens_ids_spec; exists st; split; assumption).
      apply (in_map SendToken) in Hin. rewrite He1 in Hin. contradiction. }
    rewrite (owing_count_zero (callers s) Hnd Hens) in *. rewrite Hw in *. simpl in *.
    assert (Hq : queue s = []).
    { destruct (queue s); [reflexivity|]. simpl in *. lia. }
    rewrite Hq in Hcons. simpl in Hcons.
    repeat split; try assumption.
    intros id st Hin.
    assert (Hd : is_answered (id, st) = true).
    { apply (count_all _ is_answered (callers s)); [lia|exact Hin]. }
    pose proof (Hens id st (in_aget_nodup _ _ _ _ Hnd Hin)) as Hno.
    unfold is_answered in Hd. simpl in Hd. destruct st; try discriminate. eauto.
  - (* the loop is blocked on the caller's reply channel *)
    right. specialize (Hplace id). unfold places, known, answered_at in Hplace.
    rewrite El in Hplace. simpl in Hplace. rewrite N.eqb_refl in Hplace.
    destruct (aget (callers s) id) as [[| |r o'|r o']|] eqn:Eg; simpl in Hplace;
      try discriminate; try lia.
    destruct (N.eqb_spec (rcap s) 0) as [Hz|Hnz]; [|discriminate].
    split; [exact Hz|].
    exists id, o. split; [exact El|]. split; [exact Eg|].
    destruct (chan_full s) eqn:Ef; [reflexivity|].
    assert (Hin : In id (ens_ids (callers s))).
    { apply ens_ids_spec. exists Enqueued_not_signalled. split; [exact Eg|reflexivity]. }
    apply (in_map SendToken) in Hin. rewrite He1 in Hin. contradiction.
Qed.

Definition no_deadlock_s (c m rc : N) : Prop :=
  forall s, reach c m rc s -> enabled s <> [] \/ quiescent_s s.

(** With buffered reply channels there is no deadlock. *)
Lemma no_deadlock_buffered_l : forall c m rc, (1 <= c)%N -> (1 <= m)%N -> (1 <= rc)%N ->
  no_deadlock_s c m rc.
Proof.
  intros c m rc Hc Hm Hr s R. destruct (enabled s) eqn:Ee; [|left; discriminate].
  right. destruct (deadlock_characterisation_l c m rc s Hc Hm R Ee) as [Hq|[Hz _]]; [exact Hq|].
  use_inv R. lia.
Qed.

Lemma real_side_conditions :
  (1 <= req_chan_capacity)%N /\ (1 <= max_txn_thread_num)%N /\ (1 <= reply_chan_capacity)%N.
Proof. repeat split; intros H; vm_compute in H; discriminate H. Qed.

Lemma no_deadlock_real_l :
  no_deadlock_s req_chan_capacity max_txn_thread_num reply_chan_capacity.
Proof.
  destruct real_side_conditions as [Hc [Hm Hr]].
  exact (no_deadlock_buffered_l _ _ _ Hc Hm Hr).
Qed.

Lemma no_deadlock_partial_l : forall c m rc s, (1 <= c)%N -> (1 <= m)%N -> reach c m rc s ->
  enabled s <> [] \/ quiescent_s s \/ lcd_s s.
Proof.
  intros c m rc s Hc Hm R. destruct (enabled s) eqn:Ee; [|left; discriminate].
  right. exact (deadlock_characterisation_l c m rc s Hc Hm R Ee).
Qed.

Lemma no_deadlock_below_capacity_l : forall c m rc s, (1 <= c)%N -> (1 <= m)%N ->
  reach c m rc s -> chan_full s = false -> enabled s <> [] \/ quiescent_s s.
Proof.
  intros c m rc s Hc Hm R Hf. destruct (enabled s) eqn:Ee; [|left; discriminate].
  right. destruct (deadlock_characterisation_l c m rc s Hc Hm R Ee)
    as [Hq|[_ [id [o [_ [_ Hfull]]]]]]; [exact Hq|congruence].
Qed.

Lemma deadlock_needs_l : forall c m rc s, reach c m rc s -> lcd_s s ->
  rc = 0%N /\ N.to_nat c <= count is_token (chan s) + N.to_nat m /\
  count is_token (chan s) + 1 <= length (callers s).
Proof.
  intros c m rc s R [Hz [id [o [Hl [Hg Hf]]]]]. use_inv R.
  pose proof (owing_count_pos _ _ _ Hg eq_refl) as Hpos.
  pose proof (tok_res_length (chan s)) as Hlen.
  unfold chan_full in Hf. split; [congruence|]. lia.
Qed.

Lemma no_deadlock_few_callers_l : forall c m rc s, (1 <= c)%N -> (1 <= m)%N -> reach c m rc s ->
  length (callers s) + N.to_nat m <= N.to_nat c -> enabled s <> [] \/ quiescent_s s.
Proof.
  intros c m rc s Hc Hm R Hfew. destruct (enabled s) eqn:Ee; [|left; discriminate].
  right. destruct (deadlock_characterisation_l c m rc s Hc Hm R Ee) as [Hq|Hd]; [exact Hq|].
  destruct (deadlock_needs_l c m rc s R Hd) as [_ [H1 H2]]. lia.
Qed.

(** ** Bounded work *)

Lemma list_sum_snoc : forall l x, list_sum (l ++ [x]) = list_sum l + x.
Proof. intros l x. rewrite list_sum_app. simpl. lia. Qed.

Lemma sum_map_snoc : forall (A : Type) (f : A -> nat) (l : list A) (x : A),
  list_sum (map f (l ++ [x])) = list_sum (map f l) + f x.
Proof. intros A f l x. rewrite map_app. simpl. apply list_sum_snoc. Qed.

Lemma aset_sum : forall (f : N * cstate -> nat) (cs : list (N * cstate)) (k : N) (x v : cstate),
  aget cs k = Some x ->
  list_sum (map f (aset cs k v)) + f (k, x) = list_sum (map f cs) + f (k, v).
Proof.
  intros f cs k x v. induction cs as [|[k0 y] r IH]; simpl; intros H; [discriminate|].
  destruct (N.eqb_spec k0 k) as [E|NE]; simpl.
  - subst k0. injection H as ->. lia.
  - specialize (IH H). lia.
Qed.

Lemma potential_step : forall s l s', rstep s l = Some s' -> is_enqueue l = false ->
  potential s' + 1 <= potential s + 4 * (if is_abort_finish l then 1 else 0).
Proof.
  intros s l s' H Hne.
  destruct s as [cap maxw rcap queue inflight chan callers loop workers replied effects];
    unfold potential; destruct l; simpl in *; try discriminate.
  - destruct (aget callers id) as [[| |r o|r o]|] eqn:Eg; try discriminate;
      (destruct (chan_full _); [discriminate|]); injection H as <-; simpl.
    + pose proof (aset_sum (fun p => caller_weight (snd p)) callers id _ Waiting Eg) as Hs.
      rewrite sum_map_snoc. simpl in *. lia.
    + pose proof (aset_sum (fun p => caller_weight (snd p)) callers id _ (CDone r o) Eg) as Hs.
      rewrite sum_map_snoc. simpl in *. lia.
  - destruct loop; try discriminate. destruct chan as [|[|i [|]] rest]; try discriminate;
      injection H as <-; simpl; lia.
  - destruct loop as [|i o|]; try discriminate. destruct (i =? id)%N; [|discriminate].
    destruct (aget callers id) as [[| |r o'|r o']|] eqn:Eg; try discriminate.
    + destruct (rcap =? 0)%N; [discriminate|]. injection H as <-. simpl.
      pose proof (aset_sum (fun p => caller_weight (snd p)) callers id _
                    (Replied_not_signalled i o) Eg) as Hs.
      simpl in *. lia.
    + injection H as <-. simpl.
      pose proof (aset_sum (fun p => caller_weight (snd p)) callers id _ (CDone i o) Eg) as Hs.
      simpl in *. lia.
  - destruct loop; try discriminate. destruct queue; [|destruct (_ <? _)%N];
      injection H as <-; simpl; lia.
  - destruct (memN id workers) eqn:Em; [|discriminate]. destruct (chan_full _); [discriminate|].
    injection H as <-. simpl. pose proof (remove1_length workers id Em) as Hl.
    rewrite sum_map_snoc. destruct o; simpl; lia.
Qed.

Lemma potential_run : forall ls s s', rrun ls s = Some s' -> no_enqueue ls = true ->
  potential s' + length ls <= potential s + 4 * count is_abort_finish ls.
Proof.
  induction ls as [|l r IH]; simpl; intros s s' H Hne.
  - injection H as <-. lia.
  - destruct (rstep s l) as [s1|] eqn:E; [|discriminate].
    apply andb_true_iff in Hne. destruct Hne as [Hl Hr]. apply negb_true_iff in Hl.
    pose proof (potential_step s l s1 E Hl) as Hs. specialize (IH s1 s' H Hr).
    destruct (is_abort_finish l); lia.
Qed.

Lemma bounded_work_l : forall ls s s', rrun ls s = Some s' -> no_enqueue ls = true ->
  length ls <= potential s + 4 * count is_abort_finish ls.
Proof. intros ls s s' H Hne. pose proof (potential_run ls s s' H Hne). lia. Qed.

Lemma maximal_run_l : forall c m rc s ls s', (1 <= c)%N -> (1 <= m)%N -> reach c m rc s ->
  rrun ls s = Some s' -> enabled s' = [] ->
  quiescent_s s' \/ lcd_s s'.
Proof.
  intros c m rc s ls s' Hc Hm R H He.
  exact (deadlock_characterisation_l c m rc s' Hc Hm (reach_run c m rc s ls s' R H) He).
Qed.

(** Buffered reply channels: every maximal Enqueue-free run is short and ends
    with every caller answered. *)
Lemma all_answered_l : forall c m rc s ls s', (1 <= c)%N -> (1 <= m)%N -> (1 <= rc)%N ->
  reach c m rc s -> rrun ls s = Some s' -> no_enqueue ls = true ->
  length ls <= potential s + 4 * count is_abort_finish ls /\
  (enabled s' = [] ->
   forall id st, In (id, st) (callers s') -> exists r o, st = CDone r o).
Proof.
  intros c m rc s ls s' Hc Hm Hr R H Hne. split; [exact (bounded_work_l ls s s' H Hne)|].
  intros He.
  destruct (no_deadlock_buffered_l c m rc Hc Hm Hr s' (reach_run c m rc s ls s' R H))
    as [Hen|[_ [_ [_ [_ Hall]]]]]; [congruence|exact Hall].
Qed.

Lemma all_answered_real_l : forall s ls s',
  reach req_chan_capacity max_txn_thread_num reply_chan_capacity s ->
  rrun ls s = Some s' -> no_enqueue ls = true ->
  length ls <= potential s + 4 * count is_abort_finish ls /\
  (enabled s' = [] ->
   forall id st, In (id, st) (callers s') -> exists r o, st = CDone r o).
Proof.
  intros s ls s'. destruct real_side_conditions as [Hc [Hm Hr]].
  exact (all_answered_l _ _ _ s ls s' Hc Hm Hr).
Qed.

(** Any reply-channel capacity (in particular the unbuffered variant): the same
    with the side condition that the run stops with a free channel slot. *)
Lemma all_answered_partial_l : forall c m rc s ls s', (1 <= c)%N -> (1 <= m)%N ->
  reach c m rc s -> rrun ls s = Some s' -> no_enqueue ls = true ->
  length ls <= potential s + 4 * count is_abort_finish ls /\
  (enabled s' = [] -> chan_full s' = false ->
   forall id st, In (id, st) (callers s') -> exists r o, st = CDone r o).
Proof.
  intros c m rc s ls s' Hc Hm R H Hne. split; [exact (bounded_work_l ls s s' H Hne)|].
  intros He Hf.
  destruct (maximal_run_l c m rc s ls s' Hc Hm R H He)
    as [[_ [_ [_ [_ Hall]]]]|[_ [id [o [_ [_ Hfull]]]]]]; [exact Hall|congruence].
Qed.

(** ** F-REQ-DEADLOCK (unbuffered reply channels): the witnesses *)

Lemma deadlock_small_l : exists s,
  rrun (deadlock_schedule 2) (rinit 2 24 0) = Some s /\
  loop s = Delivering 1%N Ok /\ aget (callers s) 1%N = Some Enqueued_not_signalled /\
  chan s = [Token; Token] /\ chan_full s = true /\ enabled s = [] /\
  length (callers s) = 4.
Proof. eexists. split; [vm_compute; reflexivity|]. vm_compute. repeat split. Qed.

Lemma deadlock_unbuffered_l : exists s,
  rrun (deadlock_schedule 100) (rinit req_chan_capacity max_txn_thread_num 0) = Some s /\
  loop s = Delivering 1%N Ok /\ aget (callers s) 1%N = Some Enqueued_not_signalled /\
  count is_token (chan s) = 100 /\ chan_full s = true /\ enabled s = [] /\
  length (callers s) = 102.
Proof. eexists. split; [vm_compute; reflexivity|]. vm_compute. repeat split. Qed.

Lemma no_deadlock_unbuffered_refuted_l :
  ~ no_deadlock_s req_chan_capacity max_txn_thread_num 0.
Proof.
  intros H. destruct deadlock_unbuffered_l as [s [Hr [Hl [_ [_ [_ [He _]]]]]]].
  destruct (H s (ex_intro _ _ Hr)) as [Hne|[_ [_ [_ [Hidle _]]]]]; [congruence|].
  rewrite Hl in Hidle. discriminate.
Qed.

(** The same schedule on the code as it is now: the loop is not blocked, the
    reply goes into caller 1's channel and everybody is answered. *)
Lemma fixed_schedule_proceeds_l : exists s,
  rrun (deadlock_schedule 100) rinit_real = Some s /\
  loop s = Delivering 1%N Ok /\ aget (callers s) 1%N = Some Enqueued_not_signalled /\
  chan_full s = true /\ enabled s = [Deliver 1%N] /\
  exists s', rstep s (Deliver 1%N) = Some s' /\
    aget (callers s') 1%N = Some (Replied_not_signalled 1%N Ok) /\ loop s' = Dispatching.
Proof.
  eexists. split; [vm_compute; reflexivity|].
  split; [vm_compute; reflexivity|]. split; [vm_compute; reflexivity|].
  split; [vm_compute; reflexivity|]. split; [vm_compute; reflexivity|].
  eexists. split; [vm_compute; reflexivity|]. vm_compute. split; reflexivity.
Qed.

(** The side condition [2 <= m] of [backlog_idle_l] is needed. *)
Lemma backlog_idle_needs_two_l : exists s,
  reach 100 1 1 s /\ inflight s = 0%N /\ length (queue s) = 2 /\
  count is_token (chan s) + count is_owing (callers s) + busy (loop s) = 1.
Proof.
  eexists. split.
  - exists [Enqueue 1; Enqueue 2; Enqueue 3; SendToken 1; SendToken 2; SendToken 3;
            LoopRecv; Dispatch; LoopRecv; Dispatch; LoopRecv; Dispatch;
            WorkerFinish 1 Ok; LoopRecv]%N. vm_compute. reflexivity.
  - vm_compute. repeat split.
Qed.
