(** Proofs about the request-queue model (Model/ReqMgr.v) for C12. *)
From Coq Require Import List NArith Bool Arith Lia ZifyBool ZifyN ZifyNat.
From SDB Require Import Params Base.Assoc Model.ReqMgr.
Import ListNotations.
Open Scope nat_scope.

(** * Counting lemmas *)

Lemma count_app : forall (A : Type) (p : A -> bool) (l1 l2 : list A),
  count p (l1 ++ l2) = count p l1 + count p l2.
Proof.
  intros A p l1 l2. induction l1 as [|x r IH]; simpl; [reflexivity|].
  rewrite IH. lia.
Qed.

Lemma count_snoc : forall (A : Type) (p : A -> bool) (l : list A) (x : A),
  count p (l ++ [x]) = count p l + (if p x then 1 else 0).
Proof. intros A p l x. rewrite count_app. simpl. lia. Qed.

Lemma count_le_length : forall (A : Type) (p : A -> bool) (l : list A),
  count p l <= length l.
Proof.
  intros A p l. induction l as [|x r IH]; simpl; [lia|].
  destruct (p x); lia.
Qed.

Lemma count_all : forall (A : Type) (p : A -> bool) (l : list A),
  count p l = length l -> forall x, In x l -> p x = true.
Proof.
  intros A p l. induction l as [|y r IH]; simpl; intros Hc x Hin; [contradiction|].
  pose proof (count_le_length A p r) as Hle.
  destruct (p y) eqn:Ey; [|lia].
  destruct Hin as [Hxy|Hin]; [subst; exact Ey|].
  apply IH; [lia|exact Hin].
Qed.

Lemma tok_res_length : forall c : list msg,
  count is_token c + count is_result c = length c.
Proof.
  induction c as [|m r IH]; simpl; [reflexivity|].
  destruct m; simpl; lia.
Qed.

Lemma count_zero_nil_result : forall c : list msg,
  count is_token c = 0 -> count is_result c = 0 -> c = [].
Proof.
  intros c Ht Hr. pose proof (tok_res_length c) as H.
  destruct c as [|x r]; [reflexivity|]. simpl in *. destruct x; simpl in *; lia.
Qed.

Lemma occ_pos_in : forall (l : list N) (id : N), 0 < occ id l -> In id l.
Proof.
  intros l id. unfold occ. induction l as [|x r IH]; simpl; intros H; [lia|].
  destruct (N.eqb_spec x id) as [E|NE]; [left; exact E|right; apply IH; lia].
Qed.

(** * memN / remove1 *)

Lemma memN_in : forall (l : list N) (x : N), memN x l = true <-> In x l.
Proof.
  intros l x. induction l as [|y r IH]; simpl; [split; [discriminate|contradiction]|].
  rewrite orb_true_iff, IH, N.eqb_eq. tauto.
Qed.

Lemma remove1_length : forall (l : list N) (x : N),
  memN x l = true -> length l = S (length (remove1 x l)).
Proof.
  intros l x. induction l as [|y r IH]; simpl; intros H; [discriminate|].
  destruct (N.eqb_spec y x) as [E|NE]; [reflexivity|].
  simpl in H. simpl. rewrite <- IH; [reflexivity|exact H].
Qed.

Lemma remove1_occ : forall (l : list N) (x id : N),
  memN x l = true ->
  occ id l = occ id (remove1 x l) + (if (x =? id)%N then 1 else 0).
Proof.
  intros l x id. unfold occ. induction l as [|y r IH]; simpl; intros H; [discriminate|].
  destruct (N.eqb_spec y x) as [E|NE].
  - subst y. lia.
  - simpl in H. simpl. rewrite (IH H). lia.
Qed.

(** * aget / aset on the caller table *)

Lemma aget_aset_same : forall (A : Type) (m : list (N * A)) (k : N) (v : A),
  aget (aset m k v) k = Some v.
Proof.
  intros A m k v. induction m as [|[k' x] r IH]; simpl.
  - rewrite N.eqb_refl. reflexivity.
  - destruct (N.eqb_spec k' k) as [E|NE]; simpl.
    + rewrite N.eqb_refl. reflexivity.
    + destruct (N.eqb_spec k' k) as [E'|_]; [contradiction|exact IH].
Qed.

Lemma aget_aset_other : forall (A : Type) (m : list (N * A)) (k k' : N) (v : A),
  k <> k' -> aget (aset m k v) k' = aget m k'.
Proof.
  intros A m k k' v Hne. induction m as [|[k0 x] r IH]; simpl.
  - destruct (N.eqb_spec k k') as [E|_]; [contradiction|reflexivity].
  - destruct (N.eqb_spec k0 k) as [E|NE]; simpl.
    + subst k0. destruct (N.eqb_spec k k') as [E'|_]; [contradiction|reflexivity].
    + destruct (N.eqb_spec k0 k'); [reflexivity|exact IH].
Qed.

Lemma aset_keys : forall (A : Type) (m : list (N * A)) (k : N) (x v : A),
  aget m k = Some x -> map fst (aset m k v) = map fst m.
Proof.
  intros A m k x v. induction m as [|[k0 y] r IH]; simpl; intros H; [discriminate|].
  destruct (N.eqb_spec k0 k) as [E|NE]; simpl.
  - subst. reflexivity.
  - rewrite (IH H). reflexivity.
Qed.

Lemma aset_length : forall (A : Type) (m : list (N * A)) (k : N) (x v : A),
  aget m k = Some x -> length (aset m k v) = length m.
Proof.
  intros A m k x v H. rewrite <- (map_length fst), (aset_keys A m k x v H), map_length.
  reflexivity.
Qed.

Lemma aset_count : forall (A : Type) (p : N * A -> bool) (m : list (N * A)) (k : N) (x v : A),
  aget m k = Some x ->
  count p (aset m k v) + (if p (k, x) then 1 else 0) = count p m + (if p (k, v) then 1 else 0).
Proof.
  intros A p m k x v. induction m as [|[k0 y] r IH]; simpl; intros H; [discriminate|].
  destruct (N.eqb_spec k0 k) as [E|NE]; simpl.
  - subst k0. injection H as H. subst y. lia.
  - specialize (IH H). lia.
Qed.

Lemma aget_none_notin : forall (A : Type) (m : list (N * A)) (k : N),
  aget m k = None -> ~ In k (map fst m).
Proof.
  intros A m k. induction m as [|[k0 y] r IH]; simpl; intros H; [tauto|].
  destruct (N.eqb_spec k0 k) as [E|NE]; [discriminate|].
  intros [E|Hin]; [contradiction|]. exact (IH H Hin).
Qed.

Lemma aget_some_in : forall (A : Type) (m : list (N * A)) (k : N) (x : A),
  aget m k = Some x -> In (k, x) m.
Proof.
  intros A m k x. induction m as [|[k0 y] r IH]; simpl; intros H; [discriminate|].
  destruct (N.eqb_spec k0 k) as [E|NE].
  - injection H as H. subst. left. reflexivity.
  - right. exact (IH H).
Qed.

Lemma in_aget_nodup : forall (A : Type) (m : list (N * A)) (k : N) (x : A),
  NoDup (map fst m) -> In (k, x) m -> aget m k = Some x.
Proof.
  intros A m k x. induction m as [|[k0 y] r IH]; simpl; intros Hnd Hin; [contradiction|].
  inversion Hnd as [|? ? Hnotin Hnd']; subst.
  destruct Hin as [E|Hin].
  - injection E as E1 E2. subst. rewrite N.eqb_refl. reflexivity.
  - destruct (N.eqb_spec k0 k) as [E|NE].
    + subst k0. exfalso. apply Hnotin. apply (in_map fst) in Hin. exact Hin.
    + exact (IH Hnd' Hin).
Qed.

Lemma ens_count_pos : forall (cs : list (N * cstate)) (id : N),
  aget cs id = Some Enqueued_not_signalled -> 0 < count is_ens cs.
Proof.
  intros cs id. induction cs as [|[k y] r IH]; simpl; intros H; [discriminate|].
  destruct (N.eqb_spec k id) as [E|NE].
  - injection H as H. subst y. unfold is_ens. simpl. lia.
  - specialize (IH H). lia.
Qed.

Lemma ens_count_zero : forall (cs : list (N * cstate)),
  NoDup (map fst cs) ->
  (forall id, aget cs id <> Some Enqueued_not_signalled) -> count is_ens cs = 0.
Proof.
  intros cs Hnd Hno.
  destruct (count is_ens cs) eqn:Ec; [reflexivity|exfalso].
  assert (Hex : exists p, In p cs /\ is_ens p = true).
  { clear Hnd Hno. revert n Ec. induction cs as [|q r IH]; simpl; intros n Ec; [discriminate|].
    destruct (is_ens q) eqn:Eq.
    - exists q. split; [left; reflexivity|exact Eq].
    - simpl in Ec. destruct (IH n Ec) as [p [Hin Hp]]. exists p. split; [right; exact Hin|exact Hp]. }
  destruct Hex as [[k y] [Hin Hp]]. unfold is_ens in Hp. simpl in Hp.
  destruct y; try discriminate.
  apply (Hno k). apply in_aget_nodup; assumption.
Qed.

(** * The inductive invariant *)

Record inv (c m : N) (s : rstate) : Prop := mkInv {
  i_cap : cap s = c;
  i_maxw : maxw s = m;
  i_place : forall id, places s id = known (callers s) id;
  i_effect : forall id, occ id (effects s) =
     count (is_ok_result_of id) (chan s) + delivering_to (loop s) id + done_at (callers s) id;
  i_replied : forall id, occ id (replied s) = done_at (callers s) id;
  i_own : forall id r o, aget (callers s) id = Some (CDone r o) -> r = id /\ o = Ok;
  i_delok : forall id o, loop s = Delivering id o -> o = Ok;
  i_acct : N.to_nat (inflight s) = length (workers s) + count is_result (chan s);
  i_max : (inflight s <= maxw s)%N;
  i_backlog : length (queue s) <= count is_token (chan s) + count is_ens (callers s) + busy (loop s)
              \/ N.to_nat (maxw s) <= N.to_nat (inflight s) + busy (loop s);
  i_chan : length (chan s) <= N.to_nat (cap s);
  i_conserve : length (queue s) + length (workers s) + count is_result (chan s)
               + delivering (loop s) + count is_done (callers s) = length (callers s);
  i_tok : count is_token (chan s) + count is_ens (callers s) <= length (callers s);
  i_nodup : NoDup (map fst (callers s))
}.

Ltac eqcase a b :=
  let E := fresh "E" in let NE := fresh "NE" in
  destruct (N.eq_dec a b) as [E|NE];
  [ subst; rewrite ?N.eqb_refl in *
  | let H1 := fresh "Hab" in let H2 := fresh "Hba" in
    assert (H1 : (a =? b)%N = false) by (apply N.eqb_neq; exact NE);
    assert (H2 : (b =? a)%N = false) by (apply N.eqb_neq; congruence);
    rewrite ?H1, ?H2 in * ].

Lemma inv_init : forall c m, inv c m (rinit c m).
Proof.
  intros c m. constructor; simpl; intros; try reflexivity; try lia; try discriminate.
  constructor.
Qed.

Lemma inv_enqueue : forall c m s id s',
  inv c m s -> rstep s (Enqueue id) = Some s' -> inv c m s'.
Proof.
  intros c m s id s' I H. destruct I as [i_cap0 i_maxw0 i_place0 i_effect0 i_replied0 i_own0 i_delok0 i_acct0 i_max0 i_backlog0 i_chan0 i_conserve0 i_tok0 i_nodup0].
  destruct s as [cap maxw queue inflight chan callers loop workers replied effects]; simpl in *.
  destruct (aget callers id) eqn:Eg; [discriminate|]. injection H as <-.
  constructor; simpl; try assumption.
  - intros id'. specialize (i_place0 id'). unfold places, known, occ, done_at in *; simpl in *.
    rewrite !count_snoc. eqcase id id'.
    + rewrite Eg in *. lia.
    + lia.
  - intros id'. specialize (i_effect0 id'). unfold done_at in *; simpl.
    eqcase id id'; [rewrite Eg in *|]. lia. lia.
  - intros id'. specialize (i_replied0 id'). unfold done_at in *; simpl.
    eqcase id id'; [rewrite Eg in *|]; simpl in *; lia.
  - intros id' r o. eqcase id id'; [discriminate|]. apply i_own0.
  - rewrite app_length. simpl. lia.
  - rewrite app_length. simpl. lia.
  - lia.
  - constructor; [apply aget_none_notin; exact Eg|assumption].
Qed.

Lemma inv_sendtoken : forall c m s id s',
  inv c m s -> rstep s (SendToken id) = Some s' -> inv c m s'.
Proof.
  intros c m s id s' I H. destruct I as [i_cap0 i_maxw0 i_place0 i_effect0 i_replied0 i_own0 i_delok0 i_acct0 i_max0 i_backlog0 i_chan0 i_conserve0 i_tok0 i_nodup0].
  destruct s as [cap maxw queue inflight chan callers loop workers replied effects]; simpl in *.
  destruct (aget callers id) as [[| |r o]|] eqn:Eg; try discriminate.
  unfold chan_full in H; simpl in H.
  destruct (N.leb_spec cap (N.of_nat (length chan))) as [Hfull|Hroom]; [discriminate|].
  injection H as <-.
  pose proof (aset_count _ is_ens callers id _ Waiting Eg) as Hens.
  pose proof (aset_count _ is_done callers id _ Waiting Eg) as Hdone.
  pose proof (aset_length _ callers id _ Waiting Eg) as Hlen.
  pose proof (aset_keys _ callers id _ Waiting Eg) as Hkeys.
  simpl in Hens, Hdone.
  constructor; simpl; try assumption.
  - intros id'. specialize (i_place0 id'). unfold places, known, occ, done_at in *; simpl in *.
    rewrite count_snoc. simpl. eqcase id id'.
    + rewrite aget_aset_same. rewrite Eg in *. lia.
    + rewrite aget_aset_other by assumption. lia.
  - intros id'. specialize (i_effect0 id'). unfold done_at in *; simpl.
    rewrite count_snoc. simpl. eqcase id id'.
    + rewrite aget_aset_same. rewrite Eg in *. lia.
    + rewrite aget_aset_other by assumption. lia.
  - intros id'. specialize (i_replied0 id'). unfold done_at in *; simpl.
    eqcase id id'.
    + rewrite aget_aset_same. rewrite Eg in *. lia.
    + rewrite aget_aset_other by assumption. lia.
  - intros id' r o. eqcase id id'.
    + rewrite aget_aset_same. discriminate.
    + rewrite aget_aset_other by assumption. apply i_own0.
  - rewrite count_snoc. simpl. lia.
  - rewrite count_snoc. simpl. lia.
  - rewrite app_length. simpl. lia.
  - rewrite count_snoc. simpl. lia.
  - rewrite count_snoc. simpl. lia.
  - rewrite Hkeys. assumption.
Qed.

Lemma inv_looprecv : forall c m s s',
  inv c m s -> rstep s LoopRecv = Some s' -> inv c m s'.
Proof.
  intros c m s s' I H. destruct I as [i_cap0 i_maxw0 i_place0 i_effect0 i_replied0 i_own0 i_delok0 i_acct0 i_max0 i_backlog0 i_chan0 i_conserve0 i_tok0 i_nodup0].
  destruct s as [cap maxw queue inflight chan callers loop workers replied effects]; simpl in *.
  destruct loop; try discriminate.
  destruct chan as [|[|id o] rest]; try discriminate.
  - (* token *)
    injection H as <-. simpl in *.
    constructor; simpl;
    [> assumption | assumption
     | intros id'; specialize (i_place0 id'); unfold places in *; simpl in *; lia
     | assumption | assumption | assumption | discriminate
     | lia | lia | lia | lia | lia | lia | assumption ].
  - destruct o; injection H as <-; simpl in *; unfold dec.
    + (* final result *)
      constructor; simpl;
      [> assumption | assumption
       | intros id'; specialize (i_place0 id'); unfold places in *; simpl in *;
         eqcase id id'; simpl in *; lia
       | intros id'; specialize (i_effect0 id'); simpl in *;
         eqcase id id'; simpl in *; lia
       | assumption | assumption
       | intros id' o Heq; injection Heq as _ <-; reflexivity
       | lia | lia | lia | lia | lia | lia | assumption ].
    + (* aborted: back to the head of the queue *)
      constructor; simpl;
      [> assumption | assumption
       | intros id'; specialize (i_place0 id'); unfold places, occ in *; simpl in *;
         eqcase id id'; simpl in *; lia
       | assumption | assumption | assumption | discriminate
       | lia | lia | lia | lia | lia | lia | assumption ].
Qed.

Lemma inv_deliver : forall c m s id s',
  inv c m s -> rstep s (Deliver id) = Some s' -> inv c m s'.
Proof.
  intros c m s id s' I H. destruct I as [i_cap0 i_maxw0 i_place0 i_effect0 i_replied0 i_own0 i_delok0 i_acct0 i_max0 i_backlog0 i_chan0 i_conserve0 i_tok0 i_nodup0].
  destruct s as [cap maxw queue inflight chan callers loop workers replied effects]; simpl in *.
  destruct loop as [|id0 o|]; try discriminate.
  destruct (N.eqb_spec id0 id) as [E|NE]; [subst id0|discriminate].
  destruct (aget callers id) as [[| |r o']|] eqn:Eg; try discriminate.
  injection H as <-.
  pose proof (i_delok0 id o eq_refl) as Hok. subst o.
  pose proof (aset_count _ is_ens callers id _ (CDone id Ok) Eg) as Hens.
  pose proof (aset_count _ is_done callers id _ (CDone id Ok) Eg) as Hdone.
  pose proof (aset_length _ callers id _ (CDone id Ok) Eg) as Hlen.
  pose proof (aset_keys _ callers id _ (CDone id Ok) Eg) as Hkeys.
  simpl in Hens, Hdone.
  constructor; simpl; try assumption.
  - intros id'. specialize (i_place0 id'). unfold places, known, occ, done_at in *; simpl in *.
    eqcase id id'.
    + rewrite aget_aset_same. rewrite Eg in *. lia.
    + rewrite aget_aset_other by assumption. lia.
  - intros id'. specialize (i_effect0 id'). unfold done_at in *; simpl in *.
    eqcase id id'.
    + rewrite aget_aset_same. rewrite Eg in *. lia.
    + rewrite aget_aset_other by assumption. lia.
  - intros id'. specialize (i_replied0 id'). unfold done_at, occ in *; simpl in *.
    eqcase id id'.
    + rewrite aget_aset_same. rewrite Eg in *. lia.
    + rewrite aget_aset_other by assumption. lia.
  - intros id' r o'. eqcase id id'.
    + rewrite aget_aset_same. intros Heq. injection Heq as <- <-. split; reflexivity.
    + rewrite aget_aset_other by assumption. apply i_own0.
  - discriminate.
  - simpl in *. lia.
  - simpl in *. lia.
  - lia.
  - rewrite Hkeys. assumption.
Qed.

Lemma inv_dispatch : forall c m s s',
  inv c m s -> rstep s Dispatch = Some s' -> inv c m s'.
Proof.
  intros c m s s' I H. destruct I as [i_cap0 i_maxw0 i_place0 i_effect0 i_replied0 i_own0 i_delok0 i_acct0 i_max0 i_backlog0 i_chan0 i_conserve0 i_tok0 i_nodup0].
  destruct s as [cap maxw queue inflight chan callers loop workers replied effects]; simpl in *.
  destruct loop; try discriminate.
  destruct queue as [|h t].
  - injection H as <-. constructor; simpl in *;
    [> assumption | assumption
     | intros id'; specialize (i_place0 id'); unfold places in *; simpl in *; lia
     | assumption | assumption | assumption | discriminate
     | lia | lia | lia | lia | lia | lia | assumption ].
  - destruct (N.ltb_spec inflight maxw) as [Hlt|Hge]; injection H as <-.
    + constructor; simpl in *;
      [> assumption | assumption
       | intros id'; specialize (i_place0 id'); unfold places, occ in *; simpl in *; lia
       | assumption | assumption | assumption | discriminate
       | lia | lia | lia | lia | lia | lia | assumption ].
    + constructor; simpl in *;
      [> assumption | assumption
       | intros id'; specialize (i_place0 id'); unfold places in *; simpl in *; lia
       | assumption | assumption | assumption | discriminate
       | lia | lia | lia | lia | lia | lia | assumption ].
Qed.

Lemma inv_finish : forall c m s id o s',
  inv c m s -> rstep s (WorkerFinish id o) = Some s' -> inv c m s'.
Proof.
  intros c m s id o s' I H. destruct I as [i_cap0 i_maxw0 i_place0 i_effect0 i_replied0 i_own0 i_delok0 i_acct0 i_max0 i_backlog0 i_chan0 i_conserve0 i_tok0 i_nodup0].
  destruct s as [cap maxw queue inflight chan callers loop workers replied effects]; simpl in *.
  destruct (memN id workers) eqn:Em; [|discriminate].
  unfold chan_full in H; simpl in H.
  destruct (N.leb_spec cap (N.of_nat (length chan))) as [Hfull|Hroom]; [discriminate|].
  injection H as <-.
  pose proof (remove1_length workers id Em) as Hlen.
  constructor; simpl; try assumption.
  - intros id'. specialize (i_place0 id'). unfold places in *; simpl in *.
    rewrite count_snoc. simpl. rewrite (remove1_occ workers id id' Em) in i_place0. lia.
  - intros id'. specialize (i_effect0 id'). rewrite count_snoc.
    destruct o; unfold occ in *; simpl in *; lia.
  - rewrite count_snoc. simpl. lia.
  - rewrite count_snoc. simpl. lia.
  - rewrite app_length. simpl. lia.
  - rewrite count_snoc. simpl. lia.
  - rewrite count_snoc. simpl. lia.
Qed.

Lemma inv_step : forall c m s l s', inv c m s -> rstep s l = Some s' -> inv c m s'.
Proof.
  intros c m s l s' I H. destruct l.
  - exact (inv_enqueue c m s id s' I H).
  - exact (inv_sendtoken c m s id s' I H).
  - exact (inv_looprecv c m s s' I H).
  - exact (inv_deliver c m s id s' I H).
  - exact (inv_dispatch c m s s' I H).
  - exact (inv_finish c m s id o s' I H).
Qed.

(** * Reachable states *)

Definition reach (c m : N) (s : rstate) : Prop := exists ls, rrun ls (rinit c m) = Some s.

Lemma inv_run : forall c m ls s s', inv c m s -> rrun ls s = Some s' -> inv c m s'.
Proof.
  intros c m ls. induction ls as [|l r IH]; simpl; intros s s' I H.
  - injection H as <-. exact I.
  - destruct (rstep s l) as [s1|] eqn:E; [|discriminate].
    exact (IH s1 s' (inv_step c m s l s1 I E) H).
Qed.

Lemma reach_inv : forall c m s, reach c m s -> inv c m s.
Proof. intros c m s [ls H]. exact (inv_run c m ls _ s (inv_init c m) H). Qed.

Ltac use_inv R :=
  destruct (reach_inv _ _ _ R)
    as [Hcap Hmaxw Hplace Heff Hrep Hown Hdelok Hacct Hmax Hback Hchan Hcons Htok Hnd].

Lemma rrun_app : forall l1 l2 s s1 s2,
  rrun l1 s = Some s1 -> rrun l2 s1 = Some s2 -> rrun (l1 ++ l2) s = Some s2.
Proof.
  induction l1 as [|l r IH]; simpl; intros l2 s s1 s2 H1 H2.
  - injection H1 as <-. exact H2.
  - destruct (rstep s l) as [s'|]; [|discriminate]. exact (IH l2 s' s1 s2 H1 H2).
Qed.

Lemma reach_run : forall c m s ls s', reach c m s -> rrun ls s = Some s' -> reach c m s'.
Proof. intros c m s ls s' [l0 H0] H. exists (l0 ++ ls). exact (rrun_app l0 ls _ s s' H0 H). Qed.

Lemma ok_le_res : forall (c : list msg) (id : N),
  count (is_ok_result_of id) c <= count (is_result_of id) c.
Proof.
  intros c id. induction c as [|x r IH]; simpl; [lia|].
  destruct x as [|i o]; simpl; [lia|]. destruct o; destruct (i =? id)%N; lia.
Qed.

Lemma known_le_1 : forall cs id, known cs id <= 1.
Proof. intros cs id. unfold known. destruct (aget cs id); lia. Qed.

(** ** Replies *)

Lemma reply_at_most_once_l : forall c m s, reach c m s ->
  NoDup (map fst (callers s)) /\
  forall id, occ id (replied s) <= 1 /\
    (occ id (replied s) = 1 <-> exists r o, aget (callers s) id = Some (CDone r o)).
Proof.
  intros c m s R. use_inv R. split; [assumption|].
  intros id. rewrite (Hrep id). unfold done_at.
  destruct (aget (callers s) id) as [[| |r o]|]; (split; [lia|]);
    (split; [intros H; try lia; eauto | intros [r' [o' H]]; try discriminate; reflexivity]).
Qed.

Lemma done_stable_l : forall s l s' id r o,
  rstep s l = Some s' -> aget (callers s) id = Some (CDone r o) ->
  aget (callers s') id = Some (CDone r o).
Proof.
  intros s l s' id r o H Hd. destruct s as [cap maxw queue inflight chan callers loop workers replied effects]; simpl in *. destruct l; simpl in H.
  - destruct (aget callers id0) eqn:Eg; [discriminate|]. injection H as <-. simpl.
    destruct (N.eqb_spec id0 id) as [E|NE]; [subst; congruence|exact Hd].
  - destruct (aget callers id0) as [[| |r' o']|] eqn:Eg; try discriminate.
    destruct (chan_full _); [discriminate|]. injection H as <-. simpl.
    destruct (N.eq_dec id0 id) as [E|NE]; [subst; congruence|].
    rewrite aget_aset_other by assumption. exact Hd.
  - destruct loop; try discriminate. destruct chan as [|[|i [|]] rest]; try discriminate;
      injection H as <-; exact Hd.
  - destruct loop as [|i o'|]; try discriminate. destruct (i =? id0)%N; [|discriminate].
    destruct (aget callers id0) as [[| |r' o'']|] eqn:Eg; try discriminate.
    injection H as <-. simpl.
    destruct (N.eq_dec id0 id) as [E|NE]; [subst; congruence|].
    rewrite aget_aset_other by assumption. exact Hd.
  - destruct loop; try discriminate. destruct queue; [|destruct (_ <? _)%N];
      injection H as <-; exact Hd.
  - destruct (memN id0 workers); [|discriminate]. destruct (chan_full _); [discriminate|].
    injection H as <-. exact Hd.
Qed.

Lemma reply_is_own_result_l : forall c m s, reach c m s ->
  forall id r o, In (id, CDone r o) (callers s) ->
    r = id /\ o = Ok /\ occ id (effects s) = 1 /\ occ id (replied s) = 1.
Proof.
  intros c m s R id r o Hin. use_inv R.
  pose proof (in_aget_nodup _ _ _ _ Hnd Hin) as Hg.
  destruct (Hown id r o Hg) as [-> ->].
  specialize (Hplace id). specialize (Heff id). specialize (Hrep id).
  pose proof (ok_le_res (chan s) id) as Hle.
  unfold places, known, done_at in *. rewrite Hg in *.
  repeat split; lia.
Qed.

Lemma aborted_never_delivered_l : forall c m s, reach c m s ->
  (forall id o, loop s = Delivering id o -> o = Ok) /\
  (forall id r, ~ In (id, CDone r Aborted) (callers s)).
Proof.
  intros c m s R. split.
  - use_inv R. assumption.
  - intros id r Hin. destruct (reply_is_own_result_l c m s R id r Aborted Hin) as [_ [H _]].
    discriminate.
Qed.

(** ** Effects: a statement commits at most once, and never runs again afterwards *)

Lemma effect_at_most_once_l : forall c m s, reach c m s -> forall id,
  occ id (effects s) <= 1 /\
  (occ id (effects s) = 1 -> occ id (queue s) = 0 /\ occ id (workers s) = 0).
Proof.
  intros c m s R id. use_inv R.
  specialize (Hplace id). specialize (Heff id).
  pose proof (ok_le_res (chan s) id) as Hle. pose proof (known_le_1 (callers s) id) as Hk.
  unfold places in *. lia.
Qed.

(** ** Accounting *)

Lemma accounting_l : forall c m s, reach c m s ->
  cap s = c /\ maxw s = m /\
  N.to_nat (inflight s) = length (workers s) + count is_result (chan s) /\
  (inflight s <= maxw s)%N /\ length (chan s) <= N.to_nat (cap s).
Proof. intros c m s R. use_inv R. repeat split; assumption. Qed.

Lemma one_place_l : forall c m s, reach c m s ->
  (forall id, places s id = known (callers s) id) /\
  length (queue s) + length (workers s) + count is_result (chan s)
    + delivering (loop s) + count is_done (callers s) = length (callers s).
Proof. intros c m s R. use_inv R. split; assumption. Qed.

(** Readable consequences of [places = known]. *)
Lemma one_place_cases_l : forall c m s, reach c m s -> forall id,
  (In id (queue s) \/ In id (workers s) -> aget (callers s) id <> None) /\
  (aget (callers s) id <> None -> places s id = 1) /\
  (aget (callers s) id = None -> places s id = 0).
Proof.
  intros c m s R id. destruct (one_place_l c m s R) as [Hp _]. specialize (Hp id).
  unfold known in Hp. repeat split.
  - intros Hin Hn. rewrite Hn in Hp. unfold places in Hp.
    assert (Hgt : 0 < occ id (queue s) + occ id (workers s)); [|lia].
    assert (Hpos : forall l, In id l -> 0 < occ id l).
    { intros l. unfold occ. induction l as [|x r IH]; simpl; intros Hi; [contradiction|].
      destruct Hi as [->|Hi]; [rewrite N.eqb_refl; lia|specialize (IH Hi); lia]. }
    destruct Hin as [Hi|Hi]; apply Hpos in Hi; lia.
  - intros Hn. destruct (aget (callers s) id); [exact Hp|congruence].
  - intros Hn. rewrite Hn in Hp. exact Hp.
Qed.

(** ** Backlog / stranding *)

Lemma backlog_l : forall c m s, reach c m s ->
  length (queue s) <= count is_token (chan s) + count is_ens (callers s) + busy (loop s)
  \/ N.to_nat m <= N.to_nat (inflight s) + busy (loop s).
Proof. intros c m s R. use_inv R. rewrite <- Hmaxw. assumption. Qed.

Definition stranded_s (s : rstate) : Prop :=
  queue s <> [] /\ chan s = [] /\ workers s = [] /\ loop s = Idle /\
  (forall id, aget (callers s) id <> Some Enqueued_not_signalled).

Lemma no_stranding_l : forall c m s, (1 <= m)%N -> reach c m s -> ~ stranded_s s.
Proof.
  intros c m s Hm R [Hq [Hc [Hw [Hl Hens]]]].
  pose proof (backlog_l c m s R) as Hb. use_inv R.
  rewrite (ens_count_zero (callers s) Hnd Hens) in Hb.
  rewrite Hc, Hw, Hl in *. simpl in *.
  destruct (queue s); [congruence|]. simpl in *. lia.
Qed.

Lemma pending_work_l : forall c m s, (1 <= m)%N -> reach c m s -> queue s <> [] ->
  0 < count is_token (chan s) + count is_ens (callers s) + busy (loop s)
      + length (workers s) + count is_result (chan s).
Proof.
  intros c m s Hm R Hq. pose proof (backlog_l c m s R) as Hb. use_inv R.
  destruct (queue s); [congruence|]. simpl in *. lia.
Qed.

Lemma backlog_idle_l : forall c m s, (2 <= m)%N -> reach c m s -> inflight s = 0%N ->
  length (queue s) <= count is_token (chan s) + count is_ens (callers s) + busy (loop s).
Proof.
  intros c m s Hm R Hi. pose proof (backlog_l c m s R) as Hb.
  assert (Hb1 : busy (loop s) <= 1) by (destruct (loop s); simpl; lia). lia.
Qed.

(** ** [enabled] is exactly the set of enabled non-Enqueue labels *)


Lemma ens_ids_spec : forall cs id,
  In id (ens_ids cs) <-> aget cs id = Some Enqueued_not_signalled.
Proof.
  intros cs id. unfold ens_ids. rewrite filter_In. split.
  - intros [_ H]. destruct (aget cs id) as [[| |r o]|]; try discriminate. reflexivity.
  - intros H. split.
    + apply aget_some_in in H. apply (in_map fst) in H. exact H.
    + rewrite H. reflexivity.
Qed.

Lemma enabled_sound : forall s l, In l (enabled s) -> exists s', rstep s l = Some s'.
Proof.
  intros s l H. unfold enabled in H.
  apply in_app_or in H. destruct H as [H|H].
  { destruct (chan_full s) eqn:Ef; [contradiction|].
    apply in_map_iff in H. destruct H as [id [<- Hin]]. apply ens_ids_spec in Hin.
    simpl. rewrite Hin, Ef. eauto. }
  apply in_app_or in H. destruct H as [H|H].
  { destruct (loop s) eqn:El; try contradiction. destruct (chan s) as [|x r] eqn:Ec; [contradiction|].
    destruct H as [<-|[]]. simpl. rewrite El, Ec. destruct x as [|i [|]]; eauto. }
  apply in_app_or in H. destruct H as [H|H].
  { destruct (loop s) as [|id o|] eqn:El; try contradiction.
    destruct (aget (callers s) id) as [[| |r o']|] eqn:Eg; try contradiction.
    destruct H as [<-|[]]. simpl. rewrite El, N.eqb_refl, Eg. eauto. }
  apply in_app_or in H. destruct H as [H|H].
  { destruct (loop s) eqn:El; try contradiction. destruct H as [<-|[]]. simpl. rewrite El.
    destruct (queue s); [eauto|]. destruct (_ <? _)%N; eauto. }
  destruct (chan_full s) eqn:Ef; [contradiction|].
  apply in_flat_map in H. destruct H as [id [Hin Hl]]. apply memN_in in Hin.
  destruct Hl as [<-|[<-|[]]]; simpl; rewrite Hin, Ef; eauto.
Qed.

Lemma enabled_complete : forall s l s',
  rstep s l = Some s' -> is_enqueue l = false -> In l (enabled s).
Proof.
  intros s l s' H Hne. unfold enabled. destruct l; simpl in H; try discriminate.
  - destruct (aget (callers s) id) as [[| |r o]|] eqn:Eg; try discriminate.
    destruct (chan_full s); [discriminate|].
    apply in_or_app. left. apply in_map. apply ens_ids_spec. exact Eg.
  - apply in_or_app. right. apply in_or_app. left.
    destruct (loop s); try discriminate. destruct (chan s); [discriminate|]. left. reflexivity.
  - apply in_or_app. right. apply in_or_app. right. apply in_or_app. left.
    destruct (loop s) as [|i o|]; try discriminate.
    destruct (N.eqb_spec i id) as [E|NE]; [subst i|discriminate].
    destruct (aget (callers s) id) as [[| |r o']|]; try discriminate. left. reflexivity.
  - apply in_or_app. right. apply in_or_app. right. apply in_or_app. right. apply in_or_app. left.
    destruct (loop s); try discriminate. left. reflexivity.
  - apply in_or_app. right. apply in_or_app. right. apply in_or_app. right. apply in_or_app. right.
    destruct (memN id (workers s)) eqn:Em; [|discriminate].
    destruct (chan_full s); [discriminate|].
    apply in_flat_map. exists id. split; [apply memN_in; exact Em|].
    destruct o; simpl; auto.
Qed.

(** ** Deadlock analysis *)

Definition quiescent_s (s : rstate) : Prop :=
  queue s = [] /\ workers s = [] /\ chan s = [] /\ loop s = Idle /\
  forall id st, In (id, st) (callers s) -> exists r o, st = CDone r o.

(** The run loop is blocked handing a result to a caller that is itself
    blocked sending its wake-up token into the full channel. *)
Definition lcd_s (s : rstate) : Prop :=
  exists id o, loop s = Delivering id o /\
    aget (callers s) id = Some Enqueued_not_signalled /\ chan_full s = true.

Lemma app_nil_l2 : forall (A : Type) (a b : list A), a ++ b = [] -> a = [] /\ b = [].
Proof. intros A a b H. apply app_eq_nil in H. exact H. Qed.

Lemma deadlock_characterisation_l : forall c m s, (1 <= c)%N -> (1 <= m)%N -> reach c m s ->
  enabled s = [] -> quiescent_s s \/ lcd_s s.
Proof.
  intros c m s Hc Hm R He. use_inv R. unfold enabled in He.
  apply app_nil_l2 in He. destruct He as [He1 He].
  apply app_nil_l2 in He. destruct He as [He2 He].
  apply app_nil_l2 in He. destruct He as [He3 He].
  apply app_nil_l2 in He. destruct He as [He4 He5].
  destruct (loop s) as [|id o|] eqn:El; [| |discriminate].
  - (* the loop is at the receive: the channel must be empty *)
    left. destruct (chan s) as [|x r] eqn:Ec; [|discriminate].
    assert (Ef : chan_full s = false).
    { unfold chan_full. rewrite Ec, Hcap. simpl. apply N.leb_gt. lia. }
    rewrite Ef in *.
    assert (Hw : workers s = []).
    { destruct (workers s); [reflexivity|discriminate]. }
    assert (Hens : forall id, aget (callers s) id <> Some Enqueued_not_signalled).
    { intros id Hg. apply ens_ids_spec in Hg. apply (in_map SendToken) in Hg.
      rewrite He1 in Hg. contradiction. }
    rewrite (ens_count_zero (callers s) Hnd Hens) in *. rewrite Hw in *. simpl in *.
    assert (Hq : queue s = []).
    { destruct (queue s); [reflexivity|]. simpl in *. lia. }
    rewrite Hq in Hcons. simpl in Hcons.
    repeat split; try assumption.
    intros id st Hin.
    assert (Hd : is_done (id, st) = true).
    { apply (count_all _ is_done (callers s)); [lia|exact Hin]. }
    unfold is_done in Hd. simpl in Hd. destruct st; try discriminate. eauto.
  - (* the loop is blocked on the caller's reply channel *)
    right. specialize (Hplace id). unfold places, known, done_at in Hplace.
    rewrite El in Hplace. simpl in Hplace. rewrite N.eqb_refl in Hplace.
    destruct (aget (callers s) id) as [[| |r o']|] eqn:Eg; try discriminate; try lia.
    exists id, o. split; [exact El|]. split; [exact Eg|].
    destruct (chan_full s) eqn:Ef; [reflexivity|].
    assert (Hg := Eg). apply ens_ids_spec in Hg. apply (in_map SendToken) in Hg.
    rewrite He1 in Hg. contradiction.
Qed.

Lemma no_deadlock_partial_l : forall c m s, (1 <= c)%N -> (1 <= m)%N -> reach c m s ->
  enabled s <> [] \/ quiescent_s s \/ lcd_s s.
Proof.
  intros c m s Hc Hm R. destruct (enabled s) eqn:Ee; [|left; discriminate].
  right. exact (deadlock_characterisation_l c m s Hc Hm R Ee).
Qed.

Lemma no_deadlock_below_capacity_l : forall c m s, (1 <= c)%N -> (1 <= m)%N -> reach c m s ->
  chan_full s = false -> enabled s <> [] \/ quiescent_s s.
Proof.
  intros c m s Hc Hm R Hf. destruct (enabled s) eqn:Ee; [|left; discriminate].
  right. destruct (deadlock_characterisation_l c m s Hc Hm R Ee) as [Hq|[id [o [_ [_ Hfull]]]]];
    [exact Hq|congruence].
Qed.

Lemma deadlock_needs_l : forall c m s, reach c m s -> lcd_s s ->
  N.to_nat c <= count is_token (chan s) + N.to_nat m /\
  count is_token (chan s) + 1 <= length (callers s).
Proof.
  intros c m s R [id [o [Hl [Hg Hf]]]]. use_inv R.
  pose proof (ens_count_pos _ _ Hg) as Hpos. pose proof (tok_res_length (chan s)) as Hlen.
  unfold chan_full in Hf. lia.
Qed.

Lemma no_deadlock_few_callers_l : forall c m s, (1 <= c)%N -> (1 <= m)%N -> reach c m s ->
  length (callers s) + N.to_nat m <= N.to_nat c -> enabled s <> [] \/ quiescent_s s.
Proof.
  intros c m s Hc Hm R Hfew. destruct (enabled s) eqn:Ee; [|left; discriminate].
  right. destruct (deadlock_characterisation_l c m s Hc Hm R Ee) as [Hq|Hd]; [exact Hq|].
  destruct (deadlock_needs_l c m s R Hd). lia.
Qed.

(** ** Bounded work *)


Lemma list_sum_snoc : forall l x, list_sum (l ++ [x]) = list_sum l + x.
Proof. intros l x. rewrite list_sum_app. simpl. lia. Qed.

Lemma sum_map_snoc : forall (A : Type) (f : A -> nat) (l : list A) (x : A),
  list_sum (map f (l ++ [x])) = list_sum (map f l) + f x.
Proof. intros A f l x. rewrite map_app. simpl. apply list_sum_snoc. Qed.

Lemma aset_sum : forall (f : N * cstate -> nat) (cs : list (N * cstate)) (k : N) (x v : cstate),
  aget cs k = Some x ->
  list_sum (map f (aset cs k v)) + f (k, x) = list_sum (map f cs) + f (k, v).
Proof.
  intros f cs k x v. induction cs as [|[k0 y] r IH]; simpl; intros H; [discriminate|].
  destruct (N.eqb_spec k0 k) as [E|NE]; simpl.
  - subst k0. injection H as ->. lia.
  - specialize (IH H). lia.
Qed.

Lemma potential_step : forall s l s', rstep s l = Some s' -> is_enqueue l = false ->
  potential s' + 1 <= potential s + 4 * (if is_abort_finish l then 1 else 0).
Proof.
  intros s l s' H Hne. destruct s as [cap maxw queue inflight chan callers loop workers replied effects]; unfold potential; destruct l; simpl in *; try discriminate.
  - destruct (aget callers id) as [[| |r o]|] eqn:Eg; try discriminate.
    destruct (chan_full _); [discriminate|]. injection H as <-. simpl.
    pose proof (aset_sum (fun p => caller_weight (snd p)) callers id _ Waiting Eg) as Hs.
    rewrite sum_map_snoc. simpl in *. lia.
  - destruct loop; try discriminate. destruct chan as [|[|i [|]] rest]; try discriminate;
      injection H as <-; simpl; lia.
  - destruct loop as [|i o|]; try discriminate. destruct (i =? id)%N; [|discriminate].
    destruct (aget callers id) as [[| |r o']|] eqn:Eg; try discriminate.
    injection H as <-. simpl.
    pose proof (aset_sum (fun p => caller_weight (snd p)) callers id _ (CDone i o) Eg) as Hs.
    simpl in *. lia.
  - destruct loop; try discriminate. destruct queue; [|destruct (_ <? _)%N];
      injection H as <-; simpl; lia.
  - destruct (memN id workers) eqn:Em; [|discriminate]. destruct (chan_full _); [discriminate|].
    injection H as <-. simpl. pose proof (remove1_length workers id Em) as Hl.
    rewrite sum_map_snoc. destruct o; simpl; lia.
Qed.

Lemma potential_run : forall ls s s', rrun ls s = Some s' -> no_enqueue ls = true ->
  potential s' + length ls <= potential s + 4 * count is_abort_finish ls.
Proof.
  induction ls as [|l r IH]; simpl; intros s s' H Hne.
  - injection H as <-. lia.
  - destruct (rstep s l) as [s1|] eqn:E; [|discriminate].
    apply andb_true_iff in Hne. destruct Hne as [Hl Hr]. apply negb_true_iff in Hl.
    pose proof (potential_step s l s1 E Hl) as Hs. specialize (IH s1 s' H Hr).
    destruct (is_abort_finish l); lia.
Qed.


Lemma bounded_work_l : forall ls s s', rrun ls s = Some s' -> no_enqueue ls = true ->
  length ls <= potential s + 4 * count is_abort_finish ls.
Proof. intros ls s s' H Hne. pose proof (potential_run ls s s' H Hne). lia. Qed.

Lemma maximal_run_l : forall c m s ls s', (1 <= c)%N -> (1 <= m)%N -> reach c m s ->
  rrun ls s = Some s' -> enabled s' = [] ->
  quiescent_s s' \/ lcd_s s'.
Proof.
  intros c m s ls s' Hc Hm R H He.
  exact (deadlock_characterisation_l c m s' Hc Hm (reach_run c m s ls s' R H) He).
Qed.

Lemma all_answered_l : forall c m s ls s', (1 <= c)%N -> (1 <= m)%N -> reach c m s ->
  rrun ls s = Some s' -> no_enqueue ls = true ->
  length ls <= potential s + 4 * count is_abort_finish ls /\
  (enabled s' = [] -> chan_full s' = false ->
   forall id st, In (id, st) (callers s') -> exists r o, st = CDone r o).
Proof.
  intros c m s ls s' Hc Hm R H Hne. split; [exact (bounded_work_l ls s s' H Hne)|].
  intros He Hf.
  destruct (maximal_run_l c m s ls s' Hc Hm R H He) as [[_ [_ [_ [_ Hall]]]]|[id [o [_ [_ Hfull]]]]];
    [exact Hall|congruence].
Qed.

(** ** F-REQ-DEADLOCK: the witness *)

Definition no_deadlock_s (c m : N) : Prop :=
  forall s, reach c m s -> enabled s <> [] \/ quiescent_s s.

Lemma deadlock_small_l : exists s,
  rrun (deadlock_schedule 2) (rinit 2 24) = Some s /\
  loop s = Delivering 1%N Ok /\ aget (callers s) 1%N = Some Enqueued_not_signalled /\
  chan s = [Token; Token] /\ chan_full s = true /\ enabled s = [] /\
  length (callers s) = 4.
Proof. eexists. split; [vm_compute; reflexivity|]. vm_compute. repeat split. Qed.

Lemma deadlock_real_l : exists s,
  rrun (deadlock_schedule 100) rinit_real = Some s /\
  loop s = Delivering 1%N Ok /\ aget (callers s) 1%N = Some Enqueued_not_signalled /\
  count is_token (chan s) = 100 /\ chan_full s = true /\ enabled s = [] /\
  length (callers s) = 102.
Proof. eexists. split; [vm_compute; reflexivity|]. vm_compute. repeat split. Qed.

Lemma no_deadlock_refuted_l : ~ no_deadlock_s chan_capacity max_txn_thread_num.
Proof.
  intros H. destruct deadlock_real_l as [s [Hr [Hl [_ [_ [_ [He _]]]]]]].
  destruct (H s (ex_intro _ _ Hr)) as [Hne|[_ [_ [_ [Hidle _]]]]]; [congruence|].
  rewrite Hl in Hidle. discriminate.
Qed.

(** The side condition [2 <= m] of [backlog_idle_l] is needed. *)
Lemma backlog_idle_needs_two_l : exists s,
  reach 100 1 s /\ inflight s = 0%N /\ length (queue s) = 2 /\
  count is_token (chan s) + count is_ens (callers s) + busy (loop s) = 1.
Proof.
  eexists. split.
  - exists [Enqueue 1; Enqueue 2; Enqueue 3; SendToken 1; SendToken 2; SendToken 3;
            LoopRecv; Dispatch; LoopRecv; Dispatch; LoopRecv; Dispatch;
            WorkerFinish 1 Ok; LoopRecv]%N. vm_compute. reflexivity.
  - vm_compute. repeat split.
Qed.
