(** The B-link tree's stopper key versus the index wrapper's key encodings.

    The B-link-tree library reserves the 2-byte key [255; 255] as its stopper
    (the infinite fence key) and compares keys with [lex_cmp] (a proper prefix
    is smaller).  Its search invariant needs every stored key to be strictly
    below the stopper.  The wrapper's int keys are 4 order-preserving bytes
    (big-endian uint32, top bit flipped) followed by the 8-byte row-id suffix:
    for z >= 0x7FFF0000 they start with 255, 255 and, being longer than the
    stopper, compare ABOVE it.  This file gives the exact boundary. *)
From Coq Require Import List NArith ZArith Lia Bool.
From Coq Require Import ZifyBool ZifyN ZifyNat.
From SDB Require Import Base.Bytes Params Model.Codec Model.IndexWrap
  Proofs.BytesProofs Proofs.CodecProofs.
Import ListNotations.
Open Scope N_scope.

Ltac Zify.zify_post_hook ::= Z.div_mod_to_equations.

Definition bt_stopper : list N := [255; 255]%N.
Definition int32_range (z : Z) : Prop := (-2147483648 <= z < 2147483648)%Z.
Definition bt_int_limit : Z := 2147418112%Z.   (* 0x7FFF0000 *)

(** * A 4-byte big-endian word followed by anything, against the stopper *)

(** 4294901760 = 0xFFFF0000: the first word whose two leading bytes are FF FF. *)
Lemma be4_app_vs_stopper w r : w < two32 ->
  lex_cmp (be 4 w ++ r) bt_stopper = if w <? 4294901760 then Lt else Gt.
Proof.
  intros Hw. rewrite be4_unfold. unfold bt_stopper, two32 in *.
  cbn [app lex_cmp].
  destruct (N.compare_spec ((w / 256 / 256 / 256) mod 256) 255) as [E1|E1|E1];
    [ destruct (N.compare_spec ((w / 256 / 256) mod 256) 255) as [E2|E2|E2] | | ];
    destruct (w <? 4294901760) eqn:E; try reflexivity; lia.
Qed.

(** * Integers *)

Lemma int_key_vs_stopper z page slot : int32_range z ->
  lex_cmp (enc_int_key z page slot) bt_stopper =
    if (z <? bt_int_limit)%Z then Lt else Gt.
Proof.
  intros Hz. unfold enc_int_key.
  rewrite enc_int_alt by exact Hz.
  unfold int32_range, bt_int_limit in *.
  rewrite be4_app_vs_stopper by (unfold two32; lia).
  destruct (_ <? 4294901760) eqn:E1; destruct (z <? 2147418112)%Z eqn:E2;
    try reflexivity; lia.
Qed.

Lemma int_key_below_stopper : forall z page slot,
  int32_range z -> (z < bt_int_limit)%Z -> lex_cmp (enc_int_key z page slot) bt_stopper = Lt.
Proof.
  intros z page slot Hz Hlt. rewrite int_key_vs_stopper by exact Hz.
  apply Z.ltb_lt in Hlt. now rewrite Hlt.
Qed.

Lemma int_key_above_stopper : forall z page slot,
  int32_range z -> (bt_int_limit <= z)%Z -> lex_cmp (enc_int_key z page slot) bt_stopper = Gt.
Proof.
  intros z page slot Hz Hge. rewrite int_key_vs_stopper by exact Hz.
  apply Z.ltb_ge in Hge. now rewrite Hge.
Qed.

(** The precondition of the B-link tree ("every key is below the stopper") is
    false for the wrapper's keys. *)
Lemma btree_keys_below_stopper_refuted :
  exists z page slot, int32_range z /\ lex_cmp (enc_int_key z page slot) bt_stopper <> Lt.
Proof.
  exists 2147418112%Z, 0%Z, 0.
  split; [unfold int32_range; lia|].
  rewrite int_key_above_stopper; [discriminate| unfold int32_range; lia | unfold bt_int_limit; lia].
Qed.

(** ... and exactly characterised. *)
Lemma int_key_below_stopper_iff : forall z page slot,
  int32_range z -> (lex_cmp (enc_int_key z page slot) bt_stopper = Lt <-> (z < bt_int_limit)%Z).
Proof.
  intros z page slot Hz. rewrite int_key_vs_stopper by exact Hz.
  destruct (z <? bt_int_limit)%Z eqn:E.
  - apply Z.ltb_lt in E. split; auto.
  - apply Z.ltb_ge in E. split; [discriminate | lia].
Qed.

Lemma int_key_above_stopper_iff : forall z page slot,
  int32_range z -> (lex_cmp (enc_int_key z page slot) bt_stopper = Gt <-> (bt_int_limit <= z)%Z).
Proof.
  intros z page slot Hz. rewrite int_key_vs_stopper by exact Hz.
  destruct (z <? bt_int_limit)%Z eqn:E.
  - apply Z.ltb_lt in E. split; [discriminate | lia].
  - apply Z.ltb_ge in E. split; auto.
Qed.

(** * Floats (bit patterns): every non-NaN key is below the stopper *)

Lemma f32_key_below_stopper : forall u page slot,
  u < two32 -> f_is_nan u = false -> lex_cmp (enc_f32_key u page slot) bt_stopper = Lt.
Proof.
  intros u page slot Hu Hn. unfold enc_f32_key, enc_f32.
  assert (Hok : f_ok u) by (split; assumption).
  rewrite be4_app_vs_stopper by (now apply enc_f32_word_lt).
  rewrite enc_f32_word_alt by exact Hok.
  destruct (f_nan_high u Hu Hn) as [Hlo _].
  unfold two31, two32 in *.
  destruct (u <? 2147483648) eqn:E1.
  - destruct (_ <? 4294901760) eqn:E; [reflexivity | lia].
  - destruct (u =? 2147483648) eqn:E2;
      destruct (_ <? 4294901760) eqn:E; try reflexivity; lia.
Qed.

(** In the model (as in the Go code, where [f >= 0] is false for a NaN) a NaN
    bit pattern takes the "negative" branch and is encoded as [^u]; its exponent
    bits are all ones, so [^u] has a zero among its top nine bits and is below
    the stopper too.  Hence no float key at all reaches the stopper. *)
Lemma f32_key_below_stopper_any : forall u page slot,
  u < two32 -> lex_cmp (enc_f32_key u page slot) bt_stopper = Lt.
Proof.
  intros u page slot Hu.
  destruct (f_is_nan u) eqn:Hn; [|now apply f32_key_below_stopper].
  unfold enc_f32_key, enc_f32, enc_f32_word, f_ge0. rewrite Hn. cbn [negb andb].
  unfold f_is_nan, f_exp in Hn. apply andb_true_iff in Hn. destruct Hn as [He _].
  apply N.eqb_eq in He.
  unfold lnot32, two32 in *.
  rewrite be4_app_vs_stopper by (unfold two32; lia).
  destruct (_ <? 4294901760) eqn:E; [reflexivity | lia].
Qed.

(** * Strings without a 255 byte *)

Lemma str_key_below_stopper : forall s page slot,
  Forall (fun b => b < 255) s -> lex_cmp (enc_str_key s page slot) bt_stopper = Lt.
Proof.
  intros s page slot Hs. unfold enc_str_key, bt_stopper.
  destruct s as [|x s'].
  - reflexivity.
  - inversion Hs as [|? ? Hx _]; subst.
    cbn [app lex_cmp]. apply N.compare_lt_iff in Hx. now rewrite Hx.
Qed.
