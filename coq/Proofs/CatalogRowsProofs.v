(** Proofs about the catalog persistence model [Model/CatalogRows.v]. *)
From Coq Require Import List NArith ZArith Bool Lia ZifyN ZifyNat ZifyBool Permutation.
From SDB Require Import Params Model.CatalogRows.
Import ListNotations.
Open Scope N_scope.

(** * Names *)

Lemma cr_bytes_eqb_eq a : forall b, cr_bytes_eqb a b = true <-> a = b.
Proof.
  induction a as [|x a IH]; intros [|y b]; cbn [cr_bytes_eqb]; try (split; congruence).
  rewrite andb_true_iff, N.eqb_eq, IH. split; [intros [-> ->]; reflexivity|intros H; inversion H; auto].
Qed.

Lemma cr_bytes_eqb_refl a : cr_bytes_eqb a a = true.
Proof. now apply cr_bytes_eqb_eq. Qed.

Lemma cr_bytes_eqb_neq a b : cr_bytes_eqb a b = false <-> a <> b.
Proof.
  split.
  - intros H E. apply cr_bytes_eqb_eq in E. congruence.
  - intros H. destruct (cr_bytes_eqb a b) eqn:E; [apply cr_bytes_eqb_eq in E; tauto|reflexivity].
Qed.

Lemma cr_lower_byte_idem b : cr_lower_byte (cr_lower_byte b) = cr_lower_byte b.
Proof.
  unfold cr_lower_byte.
  destruct ((65 <=? b) && (b <=? 90)) eqn:E; [|rewrite E; reflexivity].
  destruct ((65 <=? b + 32) && (b + 32 <=? 90)) eqn:E2; [lia|reflexivity].
Qed.

Lemma cr_lower_idem s : cr_lower (cr_lower s) = cr_lower s.
Proof.
  unfold cr_lower. rewrite map_map. apply map_ext. intros; apply cr_lower_byte_idem.
Qed.

Lemma cr_lower_app a b : cr_lower (a ++ b) = cr_lower a ++ cr_lower b.
Proof. apply map_app. Qed.

Lemma cr_attach_lower t c :
  cr_lower (cr_attach (cr_lower t) (cr_lower c)) = cr_attach (cr_lower t) (cr_lower c).
Proof.
  unfold cr_attach. destruct (cr_has_dot (cr_lower c)); [apply cr_lower_idem|].
  rewrite cr_lower_app. cbn [cr_lower map]. fold (cr_lower (cr_lower c)).
  rewrite !cr_lower_idem. reflexivity.
Qed.

(** * Last-assignment lookup *)

Lemma cr_find_last_app {A} (f : A -> bool) l x :
  cr_find_last f (l ++ [x]) = if f x then Some x else cr_find_last f l.
Proof.
  induction l as [|y l IH]; cbn [app cr_find_last].
  - destruct (f x); reflexivity.
  - rewrite IH. destruct (f x); [reflexivity|]. reflexivity.
Qed.

Lemma cr_find_last_some {A} (f : A -> bool) l t :
  cr_find_last f l = Some t -> In t l /\ f t = true.
Proof.
  induction l as [|y l IH]; cbn [cr_find_last]; [discriminate|].
  destruct (cr_find_last f l) as [u|] eqn:E.
  - intros H; inversion H; subst. destruct (IH eq_refl). split; [now right|assumption].
  - destruct (f y) eqn:Ey; [|discriminate]. intros H; inversion H; subst. split; [now left|assumption].
Qed.

Lemma cr_find_last_none {A} (f : A -> bool) l :
  cr_find_last f l = None <-> forall u, In u l -> f u = false.
Proof.
  induction l as [|y l IH]; cbn [cr_find_last In].
  - split; [intros _ u []|reflexivity].
  - destruct (cr_find_last f l) as [u|] eqn:E.
    + split; [discriminate|]. intros H. apply cr_find_last_some in E. destruct E as [Hin Hf].
      rewrite (H u (or_intror Hin)) in Hf. discriminate.
    + destruct (f y) eqn:Ey.
      * split; [discriminate|]. intros H. rewrite (H y (or_introl eq_refl)) in Ey. discriminate.
      * split; [|reflexivity]. intros _ u [<-|Hu]; [assumption|]. now apply IH.
Qed.

(** the only entry under a key is the one found *)
Lemma cr_find_last_unique {A} (f : A -> bool) l t :
  In t l -> f t = true -> (forall u, In u l -> f u = true -> u = t) -> cr_find_last f l = Some t.
Proof.
  intros Hin Hf Hu. destruct (cr_find_last f l) as [u|] eqn:E.
  - apply cr_find_last_some in E. destruct E as [Hi Hfu]. f_equal. now apply Hu.
  - rewrite cr_find_last_none in E. rewrite (E t Hin) in Hf. discriminate.
Qed.

Lemma cr_find_last_perm {A} (f : A -> bool) l l' :
  Permutation l l' ->
  (forall u v, In u l -> In v l -> f u = true -> f v = true -> u = v) ->
  cr_find_last f l = cr_find_last f l'.
Proof.
  intros Hp Hu. destruct (cr_find_last f l) as [t|] eqn:E.
  - apply cr_find_last_some in E. destruct E as [Hin Hf]. symmetry.
    apply cr_find_last_unique; [eapply Permutation_in; eauto|assumption|].
    intros u Hi Hfu. apply Hu; try assumption. eapply Permutation_in; [apply Permutation_sym; eassumption|assumption].
  - symmetry. rewrite cr_find_last_none in *. intros u Hi. apply E.
    eapply Permutation_in; [apply Permutation_sym; eassumption|assumption].
Qed.

(** * Boolean guards *)

Lemma cr_existsb_n_in x l : existsb (N.eqb x) l = true <-> In x l.
Proof.
  rewrite existsb_exists. split.
  - intros [y [Hy E]]. apply N.eqb_eq in E. now subst.
  - intros H. exists x. split; [assumption|apply N.eqb_refl].
Qed.

Lemma cr_nodup_n_spec l : cr_nodup_n l = true <-> NoDup l.
Proof.
  induction l as [|x l IH]; cbn [cr_nodup_n].
  - split; [constructor|reflexivity].
  - rewrite andb_true_iff, negb_true_iff, IH. split.
    + intros [H1 H2]. constructor; [|assumption]. intros Hin. apply cr_existsb_n_in in Hin. congruence.
    + intros H. inversion H; subst. split; [|assumption].
      destruct (existsb (N.eqb x) l) eqn:E; [apply cr_existsb_n_in in E; tauto|reflexivity].
Qed.

Lemma cr_existsb_name_in x l : existsb (cr_bytes_eqb x) l = true <-> In x l.
Proof.
  rewrite existsb_exists. split.
  - intros [y [Hy E]]. apply cr_bytes_eqb_eq in E. now subst.
  - intros H. exists x. split; [assumption|apply cr_bytes_eqb_refl].
Qed.

Lemma cr_nodup_names_spec l : cr_nodup_names l = true <-> NoDup l.
Proof.
  induction l as [|x l IH]; cbn [cr_nodup_names].
  - split; [constructor|reflexivity].
  - rewrite andb_true_iff, negb_true_iff, IH. split.
    + intros [H1 H2]. constructor; [|assumption]. intros Hin. apply cr_existsb_name_in in Hin. congruence.
    + intros H. inversion H; subst. split; [|assumption].
      destruct (existsb (cr_bytes_eqb x) l) eqn:E; [apply cr_existsb_name_in in E; tauto|reflexivity].
Qed.

Lemma NoDup_snoc {A} (l : list A) x : NoDup l -> ~ In x l -> NoDup (l ++ [x]).
Proof.
  intros Hnd Hx. induction Hnd as [|y l Hy Hnd IH]; cbn [app].
  - constructor; [tauto|constructor].
  - constructor.
    + rewrite in_app_iff. cbn [In]. intros [H|[H|[]]]; [tauto|]. subst. apply Hx. now left.
    + apply IH. intros H. apply Hx. now right.
Qed.

(** * Row placement *)

Section Heap.
  Context {A : Type}.
  Variable sz : A -> N.

  (** rows up to and including the remembered page *)
  Definition cr_pre (h : cr_heap A) : list A := concat (ch_before h) ++ hd [] (ch_after h).

  Lemma cr_walk_pre r : forall after b a,
    cr_walk sz r after = (b, a) ->
    exists m l2,
      concat after = hd [] after ++ m ++ l2 /\
      concat b ++ concat a = hd [] after ++ m ++ r :: l2 /\
      concat b ++ hd [] a = hd [] after ++ m ++ [r].
  Proof.
    induction after as [|p rest IH]; intros b a; cbn [cr_walk].
    - intros H; inversion H; subst. exists [], []. cbn. auto.
    - destruct (cr_fits sz p r).
      + intros H; inversion H; subst. exists [], (concat rest). cbn [hd concat app].
        rewrite <- ?app_assoc. cbn [app]. auto.
      + destruct (cr_walk sz r rest) as [b' a'] eqn:E. intros H; inversion H; subst.
        destruct (IH b' a eq_refl) as [m [l2 [H1 [H2 H3]]]].
        exists (hd [] rest ++ m), l2. cbn [hd concat].
        rewrite <- ?app_assoc. rewrite H1, H2. rewrite <- ?app_assoc in *.
        repeat split; try reflexivity. rewrite H3. rewrite <- ?app_assoc. reflexivity.
  Qed.

  Lemma cr_flat_pre (h : cr_heap A) : exists l2, cr_flat h = cr_pre h ++ l2.
  Proof.
    unfold cr_flat, cr_pre, cr_pages. rewrite concat_app. destruct (ch_after h) as [|p rest]; cbn [hd concat].
    - exists []. rewrite !app_nil_r. reflexivity.
    - exists (concat rest). rewrite app_assoc. reflexivity.
  Qed.

  Lemma cr_hinsert_spec h r :
    exists m l2,
      cr_flat h = cr_pre h ++ m ++ l2 /\
      cr_flat (cr_hinsert sz h r) = cr_pre h ++ m ++ r :: l2 /\
      cr_pre (cr_hinsert sz h r) = cr_pre h ++ m ++ [r].
  Proof.
    unfold cr_hinsert. destruct (cr_walk sz r (ch_after h)) as [b a] eqn:E.
    destruct (cr_walk_pre r _ _ _ E) as [m [l2 [H1 [H2 H3]]]].
    exists m, l2. unfold cr_flat, cr_pre, cr_pages. cbn [ch_before ch_after].
    rewrite !concat_app, <- !app_assoc. rewrite H1, H2, H3. auto.
  Qed.

  (** an insert adds the row somewhere and moves nothing *)
  Lemma cr_hinsert_split h r :
    exists l1 l2, cr_flat h = l1 ++ l2 /\ cr_flat (cr_hinsert sz h r) = l1 ++ r :: l2.
  Proof.
    destruct (cr_hinsert_spec h r) as [m [l2 [H1 [H2 _]]]].
    exists (cr_pre h ++ m), l2. rewrite <- ?app_assoc. auto.
  Qed.

  Lemma cr_hinsert_perm h r : Permutation (cr_flat (cr_hinsert sz h r)) (cr_flat h ++ [r]).
  Proof.
    destruct (cr_hinsert_split h r) as [l1 [l2 [H1 H2]]]. rewrite H1, H2.
    rewrite <- app_assoc. apply Permutation_app_head. cbn [app].
    change (r :: l2) with ([r] ++ l2). apply Permutation_app_comm.
  Qed.

  Lemma cr_hinsert_many_perm ws : forall h,
    Permutation (cr_flat (fold_left (cr_hinsert sz) ws h)) (cr_flat h ++ ws).
  Proof.
    induction ws as [|w ws IH]; intros h; cbn [fold_left].
    - rewrite app_nil_r. apply Permutation_refl.
    - eapply Permutation_trans; [apply IH|].
      eapply Permutation_trans; [apply Permutation_app_tail, cr_hinsert_perm|].
      rewrite <- app_assoc. apply Permutation_refl.
  Qed.

  (** rows that a filter does not select do not disturb what it selects *)
  Lemma cr_hinsert_other (q : A -> bool) h r : q r = false ->
    filter q (cr_flat (cr_hinsert sz h r)) = filter q (cr_flat h).
  Proof.
    intros Hq. destruct (cr_hinsert_split h r) as [l1 [l2 [H1 H2]]]. rewrite H1, H2.
    rewrite !filter_app. cbn [filter]. rewrite Hq. reflexivity.
  Qed.

  Lemma cr_hinsert_many_other (q : A -> bool) ws : forall h,
    (forall w, In w ws -> q w = false) ->
    filter q (cr_flat (fold_left (cr_hinsert sz) ws h)) = filter q (cr_flat h).
  Proof.
    induction ws as [|w ws IH]; intros h Hq; cbn [fold_left]; [reflexivity|].
    rewrite IH; [|intros; apply Hq; now right]. apply cr_hinsert_other. apply Hq. now left.
  Qed.

  (** rows inserted one after the other without a restart in between keep their order:
      each goes to the end of the remembered page or of a later one *)
  Lemma cr_hinsert_many_ordered (q : A -> bool) ws : forall h done,
    (forall w, In w ws -> q w = true) ->
    filter q (cr_pre h) = done -> filter q (cr_flat h) = done ->
    filter q (cr_flat (fold_left (cr_hinsert sz) ws h)) = done ++ ws.
  Proof.
    induction ws as [|w ws IH]; intros h done Hq Hpre Hflat; cbn [fold_left].
    - rewrite app_nil_r. assumption.
    - destruct (cr_hinsert_spec h w) as [m [l2 [H1 [H2 H3]]]].
      assert (Hw : q w = true) by (apply Hq; now left).
      rewrite H1 in Hflat. rewrite !filter_app in Hflat. rewrite Hpre in Hflat.
      assert (Hml : filter q m ++ filter q l2 = []).
      { apply (app_inv_head done). rewrite app_nil_r. assumption. }
      apply app_eq_nil in Hml. destruct Hml as [Hm Hl].
      rewrite (IH (cr_hinsert sz h w) (done ++ [w])).
      + rewrite <- app_assoc. reflexivity.
      + intros; apply Hq; now right.
      + rewrite H3, !filter_app, Hpre, Hm. cbn [filter]. rewrite Hw. reflexivity.
      + rewrite H2, !filter_app, Hpre, Hm. cbn [filter]. rewrite Hw, Hl. reflexivity.
  Qed.

  Lemma cr_hinsert_many_fresh (q : A -> bool) ws h :
    (forall w, In w ws -> q w = true) -> filter q (cr_flat h) = [] ->
    filter q (cr_flat (fold_left (cr_hinsert sz) ws h)) = ws.
  Proof.
    intros Hq Hf. change ws with ([] ++ ws) at 2. apply cr_hinsert_many_ordered; try assumption.
    destruct (cr_flat_pre h) as [l2 E]. rewrite E, filter_app in Hf. now apply app_eq_nil in Hf.
  Qed.

  Lemma cr_flat_restart (h : cr_heap A) : cr_flat (cr_hrestart h) = cr_flat h.
  Proof. reflexivity. Qed.
End Heap.

(** * Reload gives back what was written *)

Lemma cr_offsets_roundtrip oid : forall cs off,
  cr_offsets_ok off cs = true ->
  (forall c, In c cs -> cr_lower (cc_name c) = cc_name c) ->
  cr_cols_of_rows off (map (cr_crow_of oid) cs) = cs.
Proof.
  induction cs as [|c cs IH]; intros off Hoff Hlow; cbn [map cr_cols_of_rows]; [reflexivity|].
  cbn [cr_offsets_ok] in Hoff. apply andb_true_iff in Hoff. destruct Hoff as [Ho Hr].
  apply N.eqb_eq in Ho. f_equal.
  - unfold cr_col_of_row, cr_crow_of. cbn [cw_name cw_type cw_fixed cw_var cw_hasidx cw_kind cw_hdr].
    rewrite (Hlow c (or_introl eq_refl)), !N2Z.id. subst off.
    destruct c as [nm ty fx vr of hi kd hd]. cbn [cc_name cc_type cc_fixed cc_var cc_off cc_hasidx cc_kind cc_hdr].
    destruct hi; reflexivity.
  - unfold cr_crow_of at 1. cbn [cw_fixed]. rewrite N2Z.id. apply IH; [assumption|].
    intros; apply Hlow; now right.
Qed.

Lemma cr_tab_wf_spec t : cr_tab_wf t = true ->
  cr_offsets_ok 0 (ct_cols t) = true /\ forall c, In c (ct_cols t) -> cr_lower (cc_name c) = cc_name c.
Proof.
  unfold cr_tab_wf. rewrite andb_true_iff, forallb_forall. intros [H1 H2]. split; [assumption|].
  intros c Hc. apply cr_bytes_eqb_eq. now apply H1.
Qed.

(** the rows the inner loop of reload selects for this table are exactly the rows written for it *)
Definition cr_rows_ok (L : list cr_tab) (crows : list cr_crow) : Prop :=
  forall t, In t L -> cr_rows_for (Z.of_N (ct_oid t)) crows = cr_crows_of t.

Lemma cr_tab_roundtrip crows t :
  cr_tab_wf t = true -> cr_rows_for (Z.of_N (ct_oid t)) crows = cr_crows_of t ->
  cr_tab_of_row crows (cr_trow_of t) = t.
Proof.
  intros Hwf Hrows. apply cr_tab_wf_spec in Hwf. destruct Hwf as [Hoff Hlow].
  unfold cr_tab_of_row, cr_trow_of. cbn [tr_oid tr_name tr_first]. rewrite Hrows, N2Z.id.
  unfold cr_crows_of. rewrite cr_offsets_roundtrip by assumption. destruct t; reflexivity.
Qed.

Lemma cr_reload_roundtrip L crows :
  (forall t, In t L -> cr_tab_wf t = true) -> cr_rows_ok L crows ->
  cr_reload (map cr_trow_of L) crows = L.
Proof.
  intros Hwf Hrows. unfold cr_reload. rewrite map_map. rewrite <- (map_id L) at 2.
  apply map_ext_in. intros t Ht. apply cr_tab_roundtrip; auto.
Qed.

Lemma cr_rows_for_same o cs : cr_rows_for (Z.of_N o) (map (cr_crow_of o) cs) = map (cr_crow_of o) cs.
Proof.
  unfold cr_rows_for. induction cs as [|c cs IH]; cbn [map filter]; [reflexivity|].
  cbn [cr_crow_of cw_oid]. rewrite Z.eqb_refl, IH. reflexivity.
Qed.

Lemma cr_rows_for_other o o' cs : o <> o' -> cr_rows_for (Z.of_N o) (map (cr_crow_of o') cs) = [].
Proof.
  intros Hne. unfold cr_rows_for. induction cs as [|c cs IH]; cbn [map filter]; [reflexivity|].
  cbn [cr_crow_of cw_oid]. destruct (Z.eqb_spec (Z.of_N o') (Z.of_N o)) as [E|_]; [apply N2Z.inj in E; congruence|assumption].
Qed.

Lemma cr_rows_for_app o a b : cr_rows_for o (a ++ b) = cr_rows_for o a ++ cr_rows_for o b.
Proof. apply filter_app. Qed.

Lemma cr_persist_rows_ok tabs : NoDup (map ct_oid tabs) -> cr_rows_ok tabs (cr_persist_c tabs).
Proof.
  unfold cr_rows_ok, cr_persist_c. induction tabs as [|u tabs IH]; intros Hnd t Ht; [destruct Ht|].
  cbn [map] in Hnd. inversion Hnd as [|x l Hnotin Hnd']; subst.
  cbn [flat_map]. rewrite cr_rows_for_app. destruct Ht as [<-|Ht].
  - unfold cr_crows_of at 1. rewrite cr_rows_for_same.
    assert (Hrest : cr_rows_for (Z.of_N (ct_oid u)) (flat_map cr_crows_of tabs) = []).
    { clear IH Hnd Hnd'. induction tabs as [|v tabs IHt]; [reflexivity|].
      cbn [flat_map]. rewrite cr_rows_for_app. unfold cr_crows_of at 1.
      rewrite cr_rows_for_other; [|intros E; apply Hnotin; left; congruence].
      apply IHt. intros H; apply Hnotin; now right. }
    rewrite Hrest, app_nil_r. reflexivity.
  - unfold cr_crows_of at 1. rewrite cr_rows_for_other.
    + cbn [app]. now apply IH.
    + intros E. apply Hnotin. rewrite <- E. now apply in_map.
Qed.

(** (a) what reload needs: pairwise distinct oids, lower-case column names, offsets that are the
    running sums of the fixed lengths.  Nothing is asked of the number of columns (none is fine),
    of the table names or of the index fields. *)
Lemma cr_reload_persist_lemma tabs :
  cr_tabs_wf tabs = true -> cr_reload (cr_persist_t tabs) (cr_persist_c tabs) = tabs.
Proof.
  unfold cr_tabs_wf. rewrite andb_true_iff, cr_nodup_n_spec, forallb_forall. intros [Hnd Hwf].
  apply cr_reload_roundtrip; [assumption|now apply cr_persist_rows_ok].
Qed.

(** every table CreateTable builds is well formed *)
Lemma cr_mk_cols_offsets tn : forall specs off, cr_offsets_ok off (cr_mk_cols tn off specs) = true.
Proof.
  induction specs as [|s specs IH]; intros off; cbn [cr_mk_cols cr_offsets_ok cc_off cc_fixed]; [reflexivity|].
  rewrite N.eqb_refl, IH. reflexivity.
Qed.

Lemma cr_mk_cols_lower tn : forall specs off c,
  In c (cr_mk_cols (cr_lower tn) off specs) -> cr_lower (cc_name c) = cc_name c.
Proof.
  induction specs as [|s specs IH]; intros off c; cbn [cr_mk_cols In]; [tauto|].
  intros [<-|H]; [cbn [cc_name]; apply cr_attach_lower|eapply IH; eassumption].
Qed.

Lemma cr_mk_tab_wf oid name specs first : cr_tab_wf (cr_mk_tab oid name specs first) = true.
Proof.
  unfold cr_tab_wf, cr_mk_tab. cbn [ct_cols]. rewrite cr_mk_cols_offsets, andb_true_r.
  apply forallb_forall. intros c Hc. apply cr_bytes_eqb_eq. eapply cr_mk_cols_lower; eassumption.
Qed.

(** * The invariant of the catalog *)

Record cr_inv (st : cr_state) : Prop := mkCrInv {
  (* the table catalog holds exactly one row per table (in some order: its heap order) *)
  ci_trows : exists L, Permutation L (cr_mem st) /\ cr_flat (cr_theap st) = map cr_trow_of L;
  (* the columns catalog holds, for every table, its column rows in column order *)
  ci_crows : cr_rows_ok (cr_mem st) (cr_flat (cr_cheap st));
  ci_nodup : NoDup (map ct_oid (cr_mem st));
  ci_below : forall t, In t (cr_mem st) -> ct_oid t < cr_next st;
  ci_owner : forall w, In w (cr_flat (cr_cheap st)) -> exists t, In t (cr_mem st) /\ cw_oid w = Z.of_N (ct_oid t);
  ci_wf : forall t, In t (cr_mem st) -> cr_tab_wf t = true;
  ci_lower : forall t, In t (cr_mem st) -> cr_lower (ct_name t) = ct_name t
}.

Lemma cr_inv_empty : cr_inv (mkCrState 0 [] cr_hnew cr_hnew).
Proof.
  constructor; cbn [cr_mem cr_next cr_theap cr_cheap].
  - exists []. split; [constructor|reflexivity].
  - intros t [].
  - constructor.
  - intros t [].
  - intros w [].
  - intros t [].
  - intros t [].
Qed.

Lemma cr_crows_of_oid t w : In w (cr_crows_of t) -> cw_oid w = Z.of_N (ct_oid t).
Proof.
  unfold cr_crows_of. rewrite in_map_iff. intros [c [<- _]]. reflexivity.
Qed.

Lemma cr_inv_create st name specs first : cr_inv st -> cr_inv (cr_create st name specs first).
Proof.
  intros [[L [HLp HLf]] Hrows Hnd Hlt Hown Hwf Hlow]. unfold cr_create.
  destruct (forallb cr_idx_legal specs).
  2:{ constructor; cbn [cr_mem cr_next cr_theap cr_cheap]; auto.
      - exists L; auto.
      - intros t Ht. specialize (Hlt t Ht). lia. }
  set (t := cr_mk_tab (cr_next st) name specs first).
  assert (Hoid : ct_oid t = cr_next st) by reflexivity.
  constructor; cbn [cr_mem cr_next cr_theap cr_cheap].
  - destruct (cr_hinsert_split cr_trow_size (cr_theap st) (cr_trow_of t)) as [l1 [l2 [H1 H2]]].
    rewrite HLf in H1. apply map_eq_app in H1. destruct H1 as [L1 [L2 [HL [E1 E2]]]].
    exists (L1 ++ t :: L2). split.
    + subst L. eapply Permutation_trans; [apply Permutation_sym, Permutation_middle|].
      eapply Permutation_trans; [apply Permutation_cons; [reflexivity|exact HLp]|].
      change (t :: cr_mem st) with ([t] ++ cr_mem st). apply Permutation_app_comm.
    + rewrite H2, map_app. cbn [map]. rewrite E1, E2. reflexivity.
  - intros u Hu. apply in_app_iff in Hu. destruct Hu as [Hu|[<-|[]]].
    + rewrite <- (Hrows u Hu). unfold cr_rows_for. apply cr_hinsert_many_other.
      intros w Hw. apply cr_crows_of_oid in Hw. rewrite Hw, Hoid.
      specialize (Hlt u Hu). apply Z.eqb_neq. lia.
    + unfold cr_rows_for. apply cr_hinsert_many_fresh.
      * intros w Hw. apply cr_crows_of_oid in Hw. rewrite Hw. apply Z.eqb_refl.
      * rewrite Hoid. clear - Hown Hlt. induction (cr_flat (cr_cheap st)) as [|w l IH]; [reflexivity|].
        cbn [filter]. destruct (Hown w (or_introl eq_refl)) as [u [Hu Ew]]. specialize (Hlt u Hu).
        destruct (Z.eqb_spec (cw_oid w) (Z.of_N (cr_next st))) as [E|_]; [lia|].
        apply IH. intros w' Hw'. apply Hown. now right.
  - rewrite map_app. cbn [map]. apply NoDup_snoc; [assumption|].
    rewrite Hoid. intros Hin. apply in_map_iff in Hin. destruct Hin as [u [Eu Hu]]. specialize (Hlt u Hu). lia.
  - intros u Hu. apply in_app_iff in Hu. destruct Hu as [Hu|[<-|[]]]; [specialize (Hlt u Hu)|rewrite Hoid]; lia.
  - intros w Hw. eapply Permutation_in in Hw; [|apply cr_hinsert_many_perm].
    apply in_app_iff in Hw. destruct Hw as [Hw|Hw].
    + destruct (Hown w Hw) as [u [Hu E]]. exists u. split; [apply in_app_iff; now left|assumption].
    + exists t. split; [apply in_app_iff; right; now left|now apply cr_crows_of_oid].
  - intros u Hu. apply in_app_iff in Hu. destruct Hu as [Hu|[<-|[]]]; [now apply Hwf|apply cr_mk_tab_wf].
  - intros u Hu. apply in_app_iff in Hu. destruct Hu as [Hu|[<-|[]]]; [now apply Hlow|].
    cbn [t cr_mk_tab ct_name]. apply cr_lower_idem.
Qed.

Lemma cr_next_of_gt L t : In t L -> ct_oid t < cr_next_of L.
Proof.
  unfold cr_next_of. induction L as [|u L IH]; cbn [In fold_right]; [tauto|].
  intros [<-|H]; [lia|]. specialize (IH H). lia.
Qed.

(** what a clean restart loads: the tables, in the heap order of the table catalog *)
Lemma cr_restart_mem st : cr_inv st ->
  exists L, Permutation L (cr_mem st) /\ cr_flat (cr_theap st) = map cr_trow_of L /\ cr_mem (cr_restart st) = L.
Proof.
  intros [[L [HLp HLf]] Hrows Hnd Hlt Hown Hwf Hlow]. exists L. split; [assumption|]. split; [assumption|].
  unfold cr_restart. cbn [cr_mem]. rewrite HLf. apply cr_reload_roundtrip.
  - intros t Ht. apply Hwf. eapply Permutation_in; eassumption.
  - intros t Ht. apply Hrows. eapply Permutation_in; eassumption.
Qed.

Lemma cr_restart_perm st : cr_inv st -> Permutation (cr_mem (cr_restart st)) (cr_mem st).
Proof. intros H. destruct (cr_restart_mem st H) as [L [Hp [_ ->]]]. assumption. Qed.

Lemma cr_inv_restart st : cr_inv st -> cr_inv (cr_restart st).
Proof.
  intros Hinv. destruct (cr_restart_mem st Hinv) as [L [HLp [HLf Hmem]]].
  destruct Hinv as [_ Hrows Hnd Hlt Hown Hwf Hlow].
  assert (Hin : forall t, In t L -> In t (cr_mem st)) by (intros; eapply Permutation_in; eassumption).
  assert (Hin' : forall t, In t (cr_mem st) -> In t L) by (intros; eapply Permutation_in; [apply Permutation_sym|]; eassumption).
  constructor; rewrite ?Hmem.
  - exists L. split; [apply Permutation_refl|]. unfold cr_restart. cbn [cr_theap]. rewrite cr_flat_restart. assumption.
  - unfold cr_restart. cbn [cr_cheap]. rewrite cr_flat_restart. intros t Ht. apply Hrows. auto.
  - eapply Permutation_NoDup; [|exact Hnd]. apply Permutation_map, Permutation_sym. assumption.
  - intros t Ht. change (cr_next (cr_restart st)) with (cr_next_of (cr_mem (cr_restart st))).
    rewrite Hmem. now apply cr_next_of_gt.
  - unfold cr_restart. cbn [cr_cheap]. rewrite cr_flat_restart. intros w Hw.
    destruct (Hown w Hw) as [t [Ht E]]. exists t. auto.
  - auto.
  - auto.
Qed.

Lemma cr_inv_step st o : cr_inv st -> cr_inv (cr_step st o).
Proof.
  intros H. destruct o as [sql name specs first|]; cbn [cr_step].
  - destruct (cr_refused st sql name); [assumption|now apply cr_inv_create].
  - now apply cr_inv_restart.
Qed.

Lemma cr_inv_run_from ops : forall st, cr_inv st -> cr_inv (cr_run_from st ops).
Proof.
  unfold cr_run_from. induction ops as [|o ops IH]; intros st H; cbn [fold_left]; [assumption|].
  apply IH. now apply cr_inv_step.
Qed.

Lemma cr_inv_boot : cr_inv cr_boot.
Proof. apply cr_inv_create, cr_inv_empty. Qed.

Lemma cr_inv_run ops : cr_inv (cr_run ops).
Proof. apply cr_inv_run_from, cr_inv_boot. Qed.

Lemma cr_run_from_app st a b : cr_run_from st (a ++ b) = cr_run_from (cr_run_from st a) b.
Proof. unfold cr_run_from. apply fold_left_app. Qed.

Lemma cr_run_app a b : cr_run (a ++ b) = cr_run_from (cr_run a) b.
Proof. apply cr_run_from_app. Qed.

(** * Tables stay *)

Lemma cr_step_grows st o : cr_inv st -> exists ext, Permutation (cr_mem (cr_step st o)) (cr_mem st ++ ext).
Proof.
  intros H. destruct o as [sql name specs first|]; cbn [cr_step].
  - destruct (cr_refused st sql name); [exists []; rewrite app_nil_r; apply Permutation_refl|].
    unfold cr_create. destruct (forallb cr_idx_legal specs); cbn [cr_mem].
    + eexists. apply Permutation_refl.
    + exists []. rewrite app_nil_r. apply Permutation_refl.
  - exists []. rewrite app_nil_r. now apply cr_restart_perm.
Qed.

Lemma cr_run_from_grows ops : forall st, cr_inv st ->
  exists ext, Permutation (cr_mem (cr_run_from st ops)) (cr_mem st ++ ext).
Proof.
  unfold cr_run_from. induction ops as [|o ops IH]; intros st H; cbn [fold_left].
  - exists []. rewrite app_nil_r. apply Permutation_refl.
  - destruct (cr_step_grows st o H) as [e1 H1].
    destruct (IH (cr_step st o) (cr_inv_step st o H)) as [e2 H2].
    exists (e1 ++ e2). eapply Permutation_trans; [exact H2|].
    rewrite app_assoc. apply Permutation_app_tail. assumption.
Qed.

Lemma cr_in_preserved ops st t : cr_inv st -> In t (cr_mem st) -> In t (cr_mem (cr_run_from st ops)).
Proof.
  intros H Ht. destruct (cr_run_from_grows ops st H) as [ext Hp].
  eapply Permutation_in; [apply Permutation_sym; exact Hp|]. apply in_app_iff. now left.
Qed.

Lemma cr_lookup_oid_in st t : cr_inv st -> In t (cr_mem st) -> cr_lookup_oid st (ct_oid t) = Some t.
Proof.
  intros H Ht. unfold cr_lookup_oid. apply cr_find_last_unique; [assumption|apply N.eqb_refl|].
  intros u Hu E. apply N.eqb_eq in E. destruct H as [_ _ Hnd _ _ _ _].
  clear - Hnd Ht Hu E. induction (cr_mem st) as [|v l IH]; [destruct Ht|].
  cbn [map] in Hnd. inversion Hnd as [|x l' Hnotin Hnd']; subst.
  destruct Ht as [->|Ht], Hu as [->|Hu]; auto.
  - exfalso. apply Hnotin. rewrite <- E. now apply in_map.
  - exfalso. apply Hnotin. rewrite E. now apply in_map.
Qed.

Lemma cr_lookup_name_in st t n : cr_inv st -> cr_names_distinct st = true ->
  In t (cr_mem st) -> cr_lower n = ct_name t -> cr_lookup_name st n = Some t.
Proof.
  intros H Hd Ht En. unfold cr_lookup_name. rewrite En.
  apply cr_find_last_unique; [assumption|apply cr_bytes_eqb_refl|].
  intros u Hu E. apply cr_bytes_eqb_eq in E. unfold cr_names_distinct in Hd. apply cr_nodup_names_spec in Hd.
  clear - Hd Ht Hu E. induction (cr_mem st) as [|v l IH]; [destruct Ht|].
  cbn [map] in Hd. inversion Hd as [|x l' Hnotin Hd']; subst.
  destruct Ht as [->|Ht], Hu as [->|Hu]; auto.
  - exfalso. apply Hnotin. rewrite <- E. now apply in_map.
  - exfalso. apply Hnotin. rewrite E. now apply in_map.
Qed.

(** (b) by oid: a table once in the catalog is found under its oid, unchanged, after any further
    creates (through SQL or the API, with any names) and restarts *)
Lemma cr_found_by_oid_lemma ops1 ops2 t :
  In t (cr_mem (cr_run ops1)) -> cr_lookup_oid (cr_run (ops1 ++ ops2)) (ct_oid t) = Some t.
Proof.
  intros Ht. rewrite cr_run_app. apply cr_lookup_oid_in.
  - apply cr_inv_run_from, cr_inv_run.
  - apply cr_in_preserved; [apply cr_inv_run|assumption].
Qed.

(** (b) by name, under the guard: no two tables under one (lower-cased) name at the end *)
Lemma cr_found_by_name_partial_lemma ops1 ops2 t n :
  In t (cr_mem (cr_run ops1)) -> cr_names_distinct (cr_run (ops1 ++ ops2)) = true ->
  cr_lower n = ct_name t -> cr_lookup_name (cr_run (ops1 ++ ops2)) n = Some t.
Proof.
  intros Ht Hd En. apply cr_lookup_name_in; try assumption.
  - apply cr_inv_run.
  - rewrite cr_run_app. apply cr_in_preserved; [apply cr_inv_run|assumption].
Qed.

(** the SQL path keeps the guard by itself *)
Lemma cr_lookup_name_none st n : cr_lookup_name st n = None -> ~ In (cr_lower n) (map ct_name (cr_mem st)).
Proof.
  unfold cr_lookup_name. rewrite cr_find_last_none. intros H Hin. apply in_map_iff in Hin.
  destruct Hin as [t [E Ht]]. specialize (H t Ht). cbn in H. rewrite E, cr_bytes_eqb_refl in H. discriminate.
Qed.

Lemma cr_names_step_sql st o : cr_inv st -> cr_op_sql o = true ->
  NoDup (map ct_name (cr_mem st)) -> NoDup (map ct_name (cr_mem (cr_step st o))).
Proof.
  intros Hinv Hsql Hnd. destruct o as [sql name specs first|]; cbn [cr_step cr_op_sql] in *.
  - subst sql. unfold cr_refused. cbn [andb]. destruct (cr_lookup_name st name) as [u|] eqn:E; cbn [cr_is_some]; [assumption|].
    unfold cr_create. destruct (forallb cr_idx_legal specs); cbn [cr_mem]; [|assumption].
    rewrite map_app. cbn [map cr_mk_tab ct_name]. apply NoDup_snoc; [assumption|now apply cr_lookup_name_none].
  - eapply Permutation_NoDup; [|exact Hnd]. apply Permutation_map, Permutation_sym, cr_restart_perm. assumption.
Qed.

Lemma cr_names_run_from_sql ops : forall st, cr_inv st -> forallb cr_op_sql ops = true ->
  NoDup (map ct_name (cr_mem st)) -> NoDup (map ct_name (cr_mem (cr_run_from st ops))).
Proof.
  unfold cr_run_from. induction ops as [|o ops IH]; intros st Hinv Hs Hnd; cbn [fold_left]; [assumption|].
  cbn [forallb] in Hs. apply andb_true_iff in Hs. destruct Hs as [Ho Hr].
  apply IH; [now apply cr_inv_step|assumption|now apply cr_names_step_sql].
Qed.

Lemma cr_sql_names_distinct_lemma ops : forallb cr_op_sql ops = true -> cr_names_distinct (cr_run ops) = true.
Proof.
  intros Hs. unfold cr_names_distinct. apply cr_nodup_names_spec.
  apply cr_names_run_from_sql; [apply cr_inv_boot|assumption|].
  apply cr_nodup_names_spec. vm_compute. reflexivity.
Qed.

(** (b) by name on the SQL path: no guard needed *)
Lemma cr_found_by_name_sql_lemma ops1 ops2 t n :
  forallb cr_op_sql (ops1 ++ ops2) = true ->
  In t (cr_mem (cr_run ops1)) -> cr_lower n = ct_name t ->
  cr_lookup_name (cr_run (ops1 ++ ops2)) n = Some t.
Proof.
  intros Hs Ht En. apply cr_found_by_name_partial_lemma; try assumption.
  now apply cr_sql_names_distinct_lemma.
Qed.

(** (c) *)
Lemma cr_oids_distinct_lemma ops :
  NoDup (map ct_oid (cr_mem (cr_run ops))) /\
  (forall t, In t (cr_mem (cr_run ops)) -> ct_oid t < cr_next (cr_run ops)) /\
  1 <= cr_next (cr_run ops).
Proof.
  destruct (cr_inv_run ops) as [_ _ Hnd Hlt _ _ _]. split; [assumption|]. split; [assumption|].
  assert (Hboot : exists t, In t (cr_mem cr_boot)) by (eexists; left; reflexivity).
  destruct Hboot as [t Ht]. apply (cr_in_preserved ops) in Ht; [|apply cr_inv_boot].
  specialize (Hlt t Ht). lia.
Qed.

(** * What a create registers *)

Lemma cr_create_registers_lemma st sql name specs first :
  cr_refused st sql name = false -> forallb cr_idx_legal specs = true ->
  let t := cr_mk_tab (cr_next st) name specs first in
  cr_mem (cr_step st (CrCreate sql name specs first)) = cr_mem st ++ [t] /\
  cr_next (cr_step st (CrCreate sql name specs first)) = cr_next st + 1.
Proof.
  intros Hr Hl. cbn [cr_step]. rewrite Hr. unfold cr_create. rewrite Hl. cbn [cr_mem cr_next]. auto.
Qed.

Lemma cr_mk_cols_fields tn : forall specs off,
  map cc_name (cr_mk_cols tn off specs) = map (fun s => cr_attach tn (cr_lower (cs_name s))) specs /\
  map cc_type (cr_mk_cols tn off specs) = map cs_type specs /\
  map cc_hasidx (cr_mk_cols tn off specs) = map cs_hasidx specs /\
  map cc_kind (cr_mk_cols tn off specs) = map cs_kind specs /\
  map cc_hdr (cr_mk_cols tn off specs) = map cr_col_hdr specs.
Proof.
  induction specs as [|s specs IH]; intros off; cbn [cr_mk_cols map]; [auto|].
  destruct (IH (off + cr_fixed_len (cs_type s))) as [H1 [H2 [H3 [H4 H5]]]].
  cbn [cc_name cc_type cc_hasidx cc_kind cc_hdr]. rewrite H1, H2, H3, H4, H5. auto.
Qed.

(** the table registered is the table asked for: name (lower case), first page, and per column,
    in order, name ("<table>." in front unless it has a '.'), type, has-index, index kind, header page *)
Lemma cr_mk_tab_schema_lemma oid name specs first :
  let t := cr_mk_tab oid name specs first in
  ct_oid t = oid /\ ct_name t = cr_lower name /\ ct_first t = first /\
  map cc_name (ct_cols t) = map (fun s => cr_attach (cr_lower name) (cr_lower (cs_name s))) specs /\
  map cc_type (ct_cols t) = map cs_type specs /\
  map cc_hasidx (ct_cols t) = map cs_hasidx specs /\
  map cc_kind (ct_cols t) = map cs_kind specs /\
  map cc_hdr (ct_cols t) = map cr_col_hdr specs.
Proof.
  cbn [cr_mk_tab ct_oid ct_name ct_first ct_cols]. repeat (split; [reflexivity|]). apply cr_mk_cols_fields.
Qed.

(** * A restart is not observable through the maps *)

Lemma cr_restart_oid_lemma ops o :
  cr_lookup_oid (cr_restart (cr_run ops)) o = cr_lookup_oid (cr_run ops) o.
Proof.
  pose proof (cr_inv_run ops) as Hinv. unfold cr_lookup_oid.
  apply cr_find_last_perm; [now apply cr_restart_perm|].
  pose proof (cr_inv_restart _ Hinv) as Hinv'.
  intros u v Hu Hv Eu Ev. apply N.eqb_eq in Eu. apply N.eqb_eq in Ev.
  pose proof (cr_lookup_oid_in _ u Hinv' Hu) as H1. pose proof (cr_lookup_oid_in _ v Hinv' Hv) as H2.
  rewrite Eu in H1. rewrite Ev in H2. congruence.
Qed.

Lemma cr_restart_name_partial_lemma ops n :
  cr_names_distinct (cr_run ops) = true ->
  cr_lookup_name (cr_restart (cr_run ops)) n = cr_lookup_name (cr_run ops) n.
Proof.
  intros Hd. pose proof (cr_inv_run ops) as Hinv. pose proof (cr_inv_restart _ Hinv) as Hinv'.
  assert (Hd' : cr_names_distinct (cr_restart (cr_run ops)) = true).
  { unfold cr_names_distinct in *. rewrite cr_nodup_names_spec in *.
    eapply Permutation_NoDup; [|exact Hd]. apply Permutation_map, Permutation_sym, cr_restart_perm. assumption. }
  unfold cr_lookup_name. apply cr_find_last_perm; [now apply cr_restart_perm|].
  intros u v Hu Hv Eu Ev. apply cr_bytes_eqb_eq in Eu. apply cr_bytes_eqb_eq in Ev.
  destruct Hinv' as [_ _ _ _ _ _ Hlow].
  assert (E1 : cr_lower (cr_lower n) = ct_name u) by (rewrite cr_lower_idem; congruence).
  assert (E2 : cr_lower (cr_lower n) = ct_name v) by (rewrite cr_lower_idem; congruence).
  pose proof (cr_lookup_name_in _ u (cr_lower n) (cr_inv_restart _ Hinv) Hd' Hu E1) as H1.
  pose proof (cr_lookup_name_in _ v (cr_lower n) (cr_inv_restart _ Hinv) Hd' Hv E2) as H2.
  congruence.
Qed.

(** * Storage *)

Lemma cr_mk_cols_pages tn : forall specs off,
  flat_map cr_col_pages (cr_mk_cols tn off specs) = flat_map cr_spec_pages specs.
Proof.
  induction specs as [|s specs IH]; intros off; cbn [cr_mk_cols flat_map]; [reflexivity|].
  rewrite IH. f_equal. unfold cr_col_pages, cr_spec_pages, cr_col_hdr. cbn [cc_hasidx cc_kind cc_hdr].
  destruct (cs_hasidx s && ((cs_kind s =? 3)%Z || (cs_kind s =? 4)%Z)); reflexivity.
Qed.

Lemma cr_state_pages_perm st st' : Permutation (cr_mem st') (cr_mem st) ->
  Permutation (cr_state_pages st') (cr_state_pages st).
Proof. intros H. unfold cr_state_pages. now apply Permutation_flat_map. Qed.

Lemma cr_pages_run_from ops : forall st, cr_inv st ->
  Permutation (cr_state_pages (cr_run_from st ops)) (cr_state_pages st ++ cr_ops_pages st ops).
Proof.
  induction ops as [|o ops IH]; intros st Hinv.
  - cbn [cr_run_from fold_left cr_ops_pages]. rewrite app_nil_r. apply Permutation_refl.
  - change (cr_run_from st (o :: ops)) with (cr_run_from (cr_step st o) ops).
    pose proof (IH _ (cr_inv_step st o Hinv)) as H. eapply Permutation_trans; [exact H|]. clear H.
    destruct o as [sql name specs first|]; cbn [cr_ops_pages].
    + cbn [cr_step]. destruct (cr_refused st sql name) eqn:Er; cbn [orb].
      * apply Permutation_refl.
      * unfold cr_create.
        destruct (forallb cr_idx_legal specs) eqn:El; cbn [negb].
        -- unfold cr_state_pages at 1. cbn [cr_mem]. rewrite flat_map_app. cbn [flat_map].
           rewrite app_nil_r. unfold cr_tab_pages at 2. cbn [cr_mk_tab ct_first ct_cols].
           rewrite cr_mk_cols_pages. fold (cr_state_pages st). rewrite <- app_assoc. apply Permutation_refl.
        -- apply Permutation_refl.
    + apply Permutation_app_tail. apply cr_state_pages_perm. now apply cr_restart_perm.
Qed.

(** two tables never share a first page or an index header page, given that the pool hands out
    page ids that are not in use (C13) *)
Lemma cr_storage_disjoint_lemma ops :
  NoDup (1%Z :: cr_ops_pages cr_boot ops) -> NoDup (cr_state_pages (cr_run ops)).
Proof.
  intros H. eapply Permutation_NoDup; [apply Permutation_sym, cr_pages_run_from, cr_inv_boot|].
  exact H.
Qed.

(** * What is false without the guards: witnesses *)

(** the catalog API registers a second table under a name that is taken: the first is no longer found by name *)
Definition cr_w_shadow1 : list cr_op := [CrCreate false [116] [] 2%Z].
Definition cr_w_shadow2 : list cr_op := [CrCreate false [84] [] 3%Z].

Lemma cr_found_by_name_refuted_lemma :
  exists ops1 ops2 t n,
    In t (cr_mem (cr_run ops1)) /\ cr_lower n = ct_name t /\
    cr_lookup_name (cr_run (ops1 ++ ops2)) n <> Some t.
Proof.
  exists cr_w_shadow1, cr_w_shadow2, (cr_mk_tab 1 [116] [] 2%Z), [116].
  split; [vm_compute; right; left; reflexivity|]. split; [reflexivity|].
  vm_compute. discriminate.
Qed.

(** a restart changes which of two tables of the same name is found: eighteen tables with
    200-byte names (the last one opens the second page of the table catalog), a table "ab" (second
    page), restart, a table "AB" through the API (it fits into what is left of the first page):
    "ab" is table 20 before the next restart and table 19 after it *)
Definition cr_w_long (k : nat) : list N := repeat 97 199 ++ [97 + N.of_nat k].
Definition cr_w_flip : list cr_op :=
  map (fun k => CrCreate false (cr_w_long k) [] (Z.of_nat k + 2)%Z) (seq 0 18)
  ++ [CrCreate false [97; 98] [] 30%Z; CrRestart; CrCreate false [65; 66] [] 31%Z].

Lemma cr_w_flip_before : cr_lookup_name (cr_run cr_w_flip) [97; 98] = Some (mkCrTab 20 [97; 98] 31%Z []).
Proof. vm_compute. reflexivity. Qed.
Lemma cr_w_flip_after : cr_lookup_name (cr_restart (cr_run cr_w_flip)) [97; 98] = Some (mkCrTab 19 [97; 98] 30%Z []).
Proof. vm_compute. reflexivity. Qed.

Lemma cr_restart_name_refuted_lemma :
  exists ops n, cr_lookup_name (cr_restart (cr_run ops)) n <> cr_lookup_name (cr_run ops) n.
Proof.
  exists cr_w_flip, [97; 98]. rewrite cr_w_flip_before, cr_w_flip_after. discriminate.
Qed.

(** the guard of (a) is needed: with two tables under one oid each gets the columns of both;
    a column name that is not lower case comes back lower case *)
Definition cr_w_col (nm : list N) : cr_col := mkCrCol nm 4%Z 5 0 0 false 0%Z (-1)%Z.

Lemma cr_reload_guard_needed_lemma :
  (exists tabs, forallb cr_tab_wf tabs = true /\ cr_reload (cr_persist_t tabs) (cr_persist_c tabs) <> tabs) /\
  (exists tabs, cr_nodup_n (map ct_oid tabs) = true /\ cr_reload (cr_persist_t tabs) (cr_persist_c tabs) <> tabs).
Proof.
  split.
  - exists [mkCrTab 1 [97] 2%Z [cr_w_col [97; 46; 120]]; mkCrTab 1 [98] 3%Z [cr_w_col [98; 46; 121]]].
    split; [reflexivity|]. vm_compute. discriminate.
  - exists [mkCrTab 1 [97] 2%Z [cr_w_col [97; 46; 88]]].
    split; [reflexivity|]. vm_compute. discriminate.
Qed.

(** * What the two catalog heaps hold after any history *)

Lemma cr_catalog_rows_lemma ops :
  let st := cr_run ops in
  Permutation (cr_flat (cr_theap st)) (map cr_trow_of (cr_mem st)) /\
  (forall t, In t (cr_mem st) -> cr_rows_for (Z.of_N (ct_oid t)) (cr_flat (cr_cheap st)) = cr_crows_of t) /\
  (forall w, In w (cr_flat (cr_cheap st)) -> exists t, In t (cr_mem st) /\ In w (cr_crows_of t)).
Proof.
  cbn zeta. destruct (cr_inv_run ops) as [[L [HLp HLf]] Hrows _ _ Hown _ _]. split; [|split].
  - rewrite HLf. now apply Permutation_map.
  - exact Hrows.
  - intros w Hw. destruct (Hown w Hw) as [t [Ht E]]. exists t. split; [assumption|].
    rewrite <- (Hrows t Ht). unfold cr_rows_for. apply filter_In. split; [assumption|]. rewrite E. apply Z.eqb_refl.
Qed.

(** a clean restart loads exactly the tables of the catalog, in the heap order of the table catalog *)
Lemma cr_restart_loads_lemma ops :
  Permutation (cr_mem (cr_restart (cr_run ops))) (cr_mem (cr_run ops)) /\
  map cr_trow_of (cr_mem (cr_restart (cr_run ops))) = cr_flat (cr_theap (cr_run ops)).
Proof.
  destruct (cr_restart_mem _ (cr_inv_run ops)) as [L [Hp [Hf Hm]]]. rewrite Hm. split; [assumption|now symmetry].
Qed.
