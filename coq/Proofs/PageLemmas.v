(** Basic lemmas for the slotted-page proofs (C15): uint32 arithmetic without
    wrap-around, the delete-mark bit, list surgery, [set_nth], and the
    specification-level ([astep]) facts. *)
From Coq Require Import List NArith ZArith Bool Lia Arith.
From Coq Require Import ZifyBool ZifyN ZifyNat.
From SDB Require Import Params Model.Page.
Import ListNotations.
Open Scope N_scope.

Ltac Zify.zify_post_hook ::= Z.div_mod_to_equations.

Ltac unf := unfold page_size, size_table_page_header, size_tuple, delete_mask, w32 in *.

(** * uint32 arithmetic without wrap-around *)

Lemma add32_small a b : a + b < w32 -> add32 a b = a + b.
Proof. unfold add32, w32. intros. lia. Qed.

Lemma sub32_small a b : b <= a -> a < w32 -> sub32 a b = a - b.
Proof. unfold sub32, w32. intros. lia. Qed.

Lemma mul32_small a b : a * b < w32 -> mul32 a b = a * b.
Proof. unfold mul32, w32. intros. apply N.mod_small. assumption. Qed.

(** * The delete mark (bit 31) *)

Lemma testbit31_small u : u < delete_mask -> N.testbit u 31 = false.
Proof.
  intros Hu. destruct (N.eq_dec u 0) as [->|Hn]; [reflexivity|].
  apply N.bits_above_log2. apply N.log2_lt_pow2; [lia|]. exact Hu.
Qed.

Lemma land_mask_small u : u < delete_mask -> N.land u delete_mask = 0.
Proof.
  intros Hu. apply N.bits_inj; intros m. rewrite N.land_spec, N.bits_0.
  change delete_mask with (2 ^ 31). rewrite N.pow2_bits_eqb.
  destruct (N.eqb_spec 31 m) as [<-|Hne].
  - now rewrite testbit31_small.
  - apply andb_false_r.
Qed.

Lemma lor_mask_small u : u < delete_mask -> N.lor u delete_mask = u + delete_mask.
Proof.
  intros Hu. rewrite <- N.lxor_lor by now apply land_mask_small.
  symmetry. apply N.add_nocarry_lxor. now apply land_mask_small.
Qed.

Lemma land_mask_big u : u < delete_mask -> N.land (u + delete_mask) delete_mask = delete_mask.
Proof.
  intros Hu. rewrite <- lor_mask_small by assumption.
  rewrite N.land_lor_distr_l, N.land_diag.
  rewrite land_mask_small by assumption. reflexivity.
Qed.

Lemma unset_deleted_mod x : unset_deleted x = x mod delete_mask.
Proof.
  unfold unset_deleted. change (w32 - 1 - delete_mask) with (N.ones 31).
  rewrite N.land_ones. reflexivity.
Qed.

Lemma unset_small x : x < delete_mask -> unset_deleted x = x.
Proof. intros. rewrite unset_deleted_mod. apply N.mod_small. assumption. Qed.

Lemma unset_big x : x < delete_mask -> unset_deleted (x + delete_mask) = x.
Proof. intros. rewrite unset_deleted_mod. unf. lia. Qed.

(** The size field of a stored row: its length, plus the mark. *)
Definition szf_of (b : list N) (m : bool) : N := blen b + (if m then delete_mask else 0).

Lemma szf_nz b m : 0 < blen b -> (szf_of b m =? 0) = false.
Proof. intros Hpos. unfold szf_of. destruct m; unf; lia. Qed.

Lemma szf_pos b m : 0 < blen b -> (0 <? szf_of b m) = true.
Proof. intros Hpos. unfold szf_of. destruct m; unf; lia. Qed.

Lemma szf_marked b m : blen b < delete_mask ->
  (N.land (szf_of b m) delete_mask =? delete_mask) = m.
Proof.
  intros Hlt. unfold szf_of. destruct m.
  - rewrite land_mask_big by assumption. apply N.eqb_refl.
  - rewrite N.add_0_r, land_mask_small by assumption. reflexivity.
Qed.

Lemma szf_is_deleted b m : 0 < blen b -> blen b < delete_mask -> is_deleted (szf_of b m) = m.
Proof.
  intros Hpos Hlt. unfold is_deleted. rewrite szf_marked, szf_nz by assumption.
  apply orb_false_r.
Qed.

Lemma szf_unset b m : blen b < delete_mask -> unset_deleted (szf_of b m) = blen b.
Proof.
  intros Hlt. unfold szf_of. destruct m.
  - apply unset_big; assumption.
  - rewrite N.add_0_r. apply unset_small; assumption.
Qed.

Lemma szf_set_deleted b : blen b < delete_mask -> set_deleted (szf_of b false) = szf_of b true.
Proof.
  intros. unfold set_deleted, szf_of. rewrite N.add_0_r. apply lor_mask_small. assumption.
Qed.

Lemma szf_inj b m m' : szf_of b m = szf_of b m' -> m = m'.
Proof. unfold szf_of. destruct m, m'; unf; intros; try reflexivity; lia. Qed.

(** * Lists *)

Lemma blen_to_nat (b : list N) : N.to_nat (blen b) = length b.
Proof. unfold blen. apply Nat2N.id. Qed.

Lemma firstn_app_exact {A} (l r : list A) : firstn (length l) (l ++ r) = l.
Proof. induction l; cbn; [destruct r; reflexivity | f_equal; assumption]. Qed.

Lemma skipn_app_exact {A} (l r : list A) : skipn (length l) (l ++ r) = r.
Proof. induction l; cbn; [reflexivity | assumption]. Qed.

Lemma nth_error_ext {A} : forall (l l' : list A),
  (forall i, nth_error l i = nth_error l' i) -> l = l'.
Proof.
  induction l as [|x l IH]; intros [|y l'] H.
  - reflexivity.
  - specialize (H O). discriminate.
  - specialize (H O). discriminate.
  - f_equal.
    + specialize (H O). cbn in H. congruence.
    + apply IH. intros i. exact (H (S i)).
Qed.

(** * [set_nth] *)

Lemma set_nth_length {A} : forall (l : list A) n x, (n < length l)%nat ->
  length (set_nth l n x) = length l.
Proof.
  induction l as [|y l IH]; intros [|n] x H; cbn in *; try lia.
  rewrite IH by lia. reflexivity.
Qed.

Lemma set_nth_length_le {A} : forall (l : list A) n x,
  (length l <= length (set_nth l n x) <= S (length l))%nat.
Proof.
  induction l as [|y l IH]; intros [|n] x; cbn; try lia.
  specialize (IH n x). lia.
Qed.

Lemma nth_error_set_nth_eq {A} : forall (l : list A) n x, (n <= length l)%nat ->
  nth_error (set_nth l n x) n = Some x.
Proof.
  induction l as [|y l IH]; intros [|n] x H; cbn in *; try reflexivity; try lia.
  apply IH. lia.
Qed.

Lemma nth_error_set_nth_neq {A} : forall (l : list A) n x j, (n <= length l)%nat -> j <> n ->
  nth_error (set_nth l n x) j = nth_error l j.
Proof.
  induction l as [|y l IH]; intros [|n] x [|j] H Hne; cbn in *; try reflexivity; try lia.
  - destruct j; reflexivity.
  - apply IH; lia.
Qed.

Lemma set_nth_set_nth {A} : forall (l : list A) n x y, (n < length l)%nat ->
  set_nth (set_nth l n x) n y = set_nth l n y.
Proof.
  induction l as [|z l IH]; intros [|n] x y H; cbn in *; try reflexivity; try lia.
  f_equal. apply IH. lia.
Qed.

Lemma set_nth_same {A} : forall (l : list A) n x, nth_error l n = Some x -> set_nth l n x = l.
Proof.
  induction l as [|z l IH]; intros [|n] x H; cbn in *; try discriminate.
  - congruence.
  - f_equal. apply IH. assumption.
Qed.

Lemma map_set_nth {A B} (f : A -> B) : forall l n x,
  map f (set_nth l n x) = set_nth (map f l) n (f x).
Proof.
  induction l as [|z l IH]; intros [|n] x; cbn; try reflexivity.
  f_equal. apply IH.
Qed.

Lemma set_nth_map_ext {A B} (f g : A -> B) : forall l n x y,
  (forall j e, j <> n -> nth_error l j = Some e -> f e = g e) -> x = y ->
  set_nth (map f l) n x = set_nth (map g l) n y.
Proof.
  induction l as [|z l IH]; intros n x y H E; subst y.
  - reflexivity.
  - destruct n as [|n]; cbn.
    + f_equal. apply map_ext_in. intros e He.
      apply In_nth_error in He. destruct He as [j Hj].
      apply (H (S j)); [lia | exact Hj].
    + f_equal.
      * apply (H O); [lia | reflexivity].
      * apply IH; [|reflexivity]. intros j e Hj He. apply (H (S j)); [lia | exact He].
Qed.

Lemma nth_error_lt {A} (l : list A) n x : nth_error l n = Some x -> (n < length l)%nat.
Proof. intros H. apply nth_error_Some. congruence. Qed.

(** * [first_free] *)

Lemma first_free_spec : forall l k, exists n : nat,
  first_free l k = k + N.of_nat n /\ (n <= length l)%nat /\
  (forall o szf, nth_error l n = Some (o, szf) -> szf = 0).
Proof.
  induction l as [|[o szf] l IH]; intros k.
  - exists O. cbn. split; [lia|]. split; [lia|]. discriminate.
  - cbn [first_free]. destruct (N.eqb_spec szf 0) as [E|E].
    + exists O. split; [lia|]. split; [cbn; lia|]. cbn. intros ? ? H. inversion H. congruence.
    + destruct (IH (k + 1)) as (n & H1 & H2 & H3).
      exists (S n). split; [lia|]. split; [cbn; lia|]. cbn. exact H3.
Qed.

Lemma a_first_free_spec : forall (a : astate) k, exists n : nat,
  a_first_free a k = k + N.of_nat n /\ (n <= length a)%nat /\
  (nth_error a n = None \/ nth_error a n = Some None).
Proof.
  induction a as [|[e|] a IH]; intros k.
  - exists O. cbn. split; [lia|]. split; [lia|]. left; reflexivity.
  - cbn [a_first_free]. destruct (IH (k + 1)) as (n & H1 & H2 & H3).
    exists (S n). split; [lia|]. split; [cbn; lia|]. cbn. exact H3.
  - exists O. cbn. split; [lia|]. split; [lia|]. right; reflexivity.
Qed.

Lemma first_free_abs s : forall l k, first_free l k = a_first_free (map (abs_entry s) l) k.
Proof.
  induction l as [|[o szf] l IH]; intros k; [reflexivity|].
  cbn [first_free map a_first_free abs_entry].
  destruct (szf =? 0); [reflexivity | apply IH].
Qed.

Lemma a_available_spec (a : astate) i : a_available a i = true ->
  (N.to_nat i <= length a)%nat /\
  (nth_error a (N.to_nat i) = None \/ nth_error a (N.to_nat i) = Some None).
Proof.
  unfold a_available. intros H. apply orb_true_iff in H. destruct H as [H|H].
  - assert (E : N.to_nat i = length a) by lia. split; [rewrite E; apply Nat.le_refl|].
    left. apply nth_error_None. rewrite E. apply Nat.le_refl.
  - destruct (nth_error a (N.to_nat i)) as [[e|]|] eqn:E; try discriminate.
    split; [|right; reflexivity].
    apply Nat.lt_le_incl. apply (nth_error_lt _ _ _ E).
Qed.

(** The slot chosen by [PInsertAt]. *)
Lemma a_insert_at_slot_spec (a : astate) i0 :
  let t := if a_available a i0 then i0 else a_first_free a 0 in
  (N.to_nat t <= length a)%nat /\
  (nth_error a (N.to_nat t) = None \/ nth_error a (N.to_nat t) = Some None).
Proof.
  cbv zeta. destruct (a_available a i0) eqn:E.
  - apply a_available_spec. exact E.
  - destruct (a_first_free_spec a 0) as (n & H1 & H2 & H3). rewrite H1.
    replace (N.to_nat (0 + N.of_nat n)) with n by lia. split; assumption.
Qed.

(** * [a_used] *)

Definition aweight (e : aentry) : N := match e with Some (b, _) => blen b | None => 0 end.

Lemma a_used_cons e a : a_used (e :: a) = aweight e + a_used a.
Proof. destruct e as [[b m]|]; reflexivity. Qed.

Lemma a_used_set_nth : forall (a : astate) n e e', nth_error a n = Some e ->
  a_used (set_nth a n e') + aweight e = a_used a + aweight e'.
Proof.
  induction a as [|z a IH]; intros [|n] e e' H; cbn [nth_error set_nth] in *; try discriminate.
  - inversion H; subst. rewrite !a_used_cons. lia.
  - rewrite !a_used_cons. specialize (IH n e e' H). lia.
Qed.

Lemma a_used_empty : forall a : astate,
  (forall i, nth_error a i = None \/ nth_error a i = Some None) -> a_used a = 0.
Proof.
  induction a as [|z a IH]; intros H; [reflexivity|].
  rewrite a_used_cons. rewrite IH.
  - destruct (H O) as [E|E]; cbn in E; [discriminate|]. inversion E. reflexivity.
  - intros i. exact (H (S i)).
Qed.

(** * Specification-level facts *)

Lemma a_frame : forall a o j,
  j <> match o with
       | PInsert _ => a_first_free a 0
       | PInsertAt i _ => if a_available a i then i else a_first_free a 0
       | PUpdate i _ _ | PMark i | PApply i | PRollback i | PGet i => i
       end ->
  a_at (fst (astep a o)) j = a_at a j
  \/ (a_at a j = None /\ a_at (fst (astep a o)) j = Some None).
Proof.
  intros a o j Hj. left.
  assert (K : forall i x, j <> i -> (N.to_nat i <= length a)%nat ->
              a_at (set_nth a (N.to_nat i) x) j = a_at a j).
  { intros i x Hne Hle. unfold a_at. apply nth_error_set_nth_neq; [assumption | lia]. }
  assert (K' : forall i x e, j <> i -> a_at a i = Some e ->
              a_at (set_nth a (N.to_nat i) x) j = a_at a j).
  { intros i x e Hne He. apply K; [assumption|]. apply nth_error_lt in He. lia. }
  destruct o as [b|i b|i b r|i|i|i|i]; cbn [astep].
  - destruct (blen b =? 0); [reflexivity|].
    destruct (a_free a <? blen b + size_tuple); [reflexivity|].
    cbn [fst]. apply K; [assumption|].
    destruct (a_first_free_spec a 0) as (n & H1 & H2 & _). rewrite H1. lia.
  - destruct (blen b =? 0); [reflexivity|].
    destruct (a_free a <? blen b + size_tuple); [reflexivity|].
    cbn [fst]. apply K; [assumption|].
    exact (proj1 (a_insert_at_slot_spec a i)).
  - destruct (blen b =? 0); [reflexivity|].
    destruct (a_at a i) as [[[old [|]]|]|] eqn:E; try reflexivity.
    destruct (a_free a + blen old <? blen b); [reflexivity|].
    destruct ((blen b <? blen old) && negb r); [reflexivity|].
    cbn [fst]. eapply K'; eassumption.
  - destruct (a_at a i) as [[[old [|]]|]|] eqn:E; try reflexivity.
    cbn [fst]. eapply K'; eassumption.
  - destruct (a_at a i) as [[e|]|] eqn:E; try reflexivity.
    cbn [fst]. eapply K'; eassumption.
  - destruct (a_at a i) as [[[old m]|]|] eqn:E; try reflexivity.
    cbn [fst]. eapply K'; eassumption.
  - destruct (a_at a i) as [[[old [|]]|]|] eqn:E; reflexivity.
Qed.

Lemma a_get_after_set a i b : (N.to_nat i <= length a)%nat ->
  snd (astep (set_nth a (N.to_nat i) (Some (b, false))) (PGet i)) = OTuple b.
Proof.
  intros H. cbn [astep]. unfold a_at. rewrite nth_error_set_nth_eq by assumption. reflexivity.
Qed.

Lemma a_read_back : forall a b,
  (forall i, snd (astep a (PInsert b)) = OInserted i ->
     snd (astep (fst (astep a (PInsert b))) (PGet i)) = OTuple b) /\
  (forall i r old, snd (astep a (PUpdate i b r)) = OUpdated old ->
     snd (astep (fst (astep a (PUpdate i b r))) (PGet i)) = OTuple b) /\
  (forall i, snd (astep a (PGet i)) = OTuple b -> a_at a i = Some (Some (b, false))).
Proof.
  intros a b. split; [|split].
  - intros i. cbn [astep].
    destruct (blen b =? 0); [discriminate|].
    destruct (a_free a <? blen b + size_tuple); [discriminate|].
    cbn [fst snd]. intros H. inversion H; subst i.
    apply a_get_after_set.
    destruct (a_first_free_spec a 0) as (n & H1 & H2 & _). rewrite H1.
    replace (N.to_nat (0 + N.of_nat n)) with n by lia. exact H2.
  - intros i r old. cbn [astep].
    destruct (blen b =? 0); [discriminate|].
    destruct (a_at a i) as [[[old' [|]]|]|] eqn:E; try discriminate.
    destruct (a_free a + blen old' <? blen b); [discriminate|].
    destruct ((blen b <? blen old') && negb r); [discriminate|].
    cbn [fst snd]. intros _.
    apply a_get_after_set. apply nth_error_lt in E. apply Nat.lt_le_incl. exact E.
  - intros i. cbn [astep].
    destruct (a_at a i) as [[[old [|]]|]|] eqn:E; try discriminate.
    cbn [snd]. intros H. inversion H. reflexivity.
Qed.

Lemma a_read_back_at : forall a b i0 i, snd (astep a (PInsertAt i0 b)) = OInserted i ->
  snd (astep (fst (astep a (PInsertAt i0 b))) (PGet i)) = OTuple b /\
  (a_at a i = None \/ a_at a i = Some None) /\
  (a_available a i0 = true -> i = i0).
Proof.
  intros a b i0 i. cbn [astep].
  destruct (blen b =? 0); [discriminate|].
  destruct (a_free a <? blen b + size_tuple); [discriminate|].
  cbn [fst snd]. intros H. inversion H as [Hi]. clear H.
  destruct (a_insert_at_slot_spec a i0) as [H1 H2]. cbv zeta in H1, H2.
  split; [|split].
  - apply a_get_after_set. exact H1.
  - exact H2.
  - intros Hav. rewrite Hav. reflexivity.
Qed.

Lemma a_slot_reuse : forall a b i, snd (astep a (PInsert b)) = OInserted i ->
  a_at a i = None \/ a_at a i = Some None.
Proof.
  intros a b i. cbn [astep].
  destruct (blen b =? 0); [discriminate|].
  destruct (a_free a <? blen b + size_tuple); [discriminate|].
  cbn [snd]. intros H. inversion H; subst i.
  destruct (a_first_free_spec a 0) as (n & H1 & H2 & H3). rewrite H1. unfold a_at.
  replace (N.to_nat (0 + N.of_nat n)) with n by lia. exact H3.
Qed.

Lemma a_rollback_fits : forall a i b old,
  snd (astep a (PUpdate i b false)) = OUpdated old -> blen old <> 0 ->
  snd (astep (fst (astep a (PUpdate i b false))) (PUpdate i old true)) = OUpdated b /\
  fst (astep (fst (astep a (PUpdate i b false))) (PUpdate i old true)) = a.
Proof.
  intros a i b old. cbn [astep].
  destruct (blen b =? 0) eqn:Eb; [discriminate|].
  destruct (a_at a i) as [[[old' [|]]|]|] eqn:E; try discriminate.
  destruct (a_free a + blen old' <? blen b) eqn:E1; [discriminate|].
  destruct ((blen b <? blen old') && negb false) eqn:E2; [discriminate|].
  cbn [fst snd]. intros H Hold. inversion H; subst old'. clear H.
  assert (Hlt : (N.to_nat i < length a)%nat) by (apply nth_error_lt in E; exact E).
  destruct (N.eqb_spec (blen old) 0) as [?|_]; [contradiction|].
  unfold a_at. rewrite nth_error_set_nth_eq by (apply Nat.lt_le_incl; exact Hlt).
  assert (G1 : (a_free (set_nth a (N.to_nat i) (Some (b, false))) + blen b <? blen old) = false) by lia.
  rewrite G1.
  assert (G2 : ((blen old <? blen b) && negb true) = false) by apply andb_false_r.
  rewrite G2. cbn [fst snd]. split; [reflexivity|].
  rewrite set_nth_set_nth by assumption. apply set_nth_same. exact E.
Qed.
