(** Proofs about the table heap model ([Model/Heap.v]): pin balance of every
    heap operation, the heap as a finite map, insert placement and the hint,
    and the sequential scan. *)
From Coq Require Import List NArith ZArith Bool Lia Arith.
From Coq Require Import ZifyBool ZifyN ZifyNat.
From SDB Require Import Params Base.Assoc Model.Page Model.Pins Model.Heap.
From SDB Require Import Proofs.PageLemmas Proofs.PinsProofs.
Import ListNotations.
Open Scope N_scope.

(** * 1. Pin accounting of an action sequence, one page at a time *)

(** [hp_lvl tr q k]: the pin count of page q after [tr], started at k; [None]
    when the sequence unpins q at count 0 (the pool panics). *)
Definition hp_lvl1 (a : hp_act) (q : N) (k : nat) : option nat :=
  match a with
  | HFetch p | HNew p => Some (if p =? q then S k else k)
  | HUnpin p _ => if p =? q then match k with O => None | S k' => Some k' end else Some k
  | _ => Some k
  end.
Fixpoint hp_lvl (tr : list hp_act) (q : N) (k : nat) : option nat :=
  match tr with
  | [] => Some k
  | a :: r => match hp_lvl1 a q k with Some k1 => hp_lvl r q k1 | None => None end
  end.

Definition hp_hold (p q : N) (k : nat) : nat := if p =? q then S k else k.
(** the sequence gives back every pin it takes, never unpinning a page it does not hold *)
Definition hp_neutral (tr : list hp_act) : Prop := forall q k, hp_lvl tr q k = Some k.
(** the same for a sequence that starts out holding one pin of page p *)
Definition hp_releases (p : N) (tr : list hp_act) : Prop :=
  forall q k, hp_lvl tr q (hp_hold p q k) = Some k.

Lemma hp_lvl_app a b q k :
  hp_lvl (a ++ b) q k = match hp_lvl a q k with Some k1 => hp_lvl b q k1 | None => None end.
Proof.
  revert k. induction a as [|x a IH]; intros k; cbn [app hp_lvl]; [reflexivity|].
  destruct (hp_lvl1 x q k); [apply IH | reflexivity].
Qed.

Lemma hp_neutral_nil : hp_neutral [].
Proof. intros q k. reflexivity. Qed.

Lemma hp_neutral_app a b : hp_neutral a -> hp_neutral b -> hp_neutral (a ++ b).
Proof. intros Ha Hb q k. rewrite hp_lvl_app, Ha. apply Hb. Qed.

Lemma hp_neutral_releases p a b : hp_neutral a -> hp_releases p b -> hp_releases p (a ++ b).
Proof. intros Ha Hb q k. rewrite hp_lvl_app, Ha. apply Hb. Qed.

Lemma hp_fetch_releases p tr : hp_releases p tr -> hp_neutral (HFetch p :: tr).
Proof. intros H q k. cbn [hp_lvl hp_lvl1]. apply H. Qed.

Lemma hp_releases_unpin p d : hp_releases p [HUnpin p d].
Proof. intros q k. unfold hp_hold. cbn [hp_lvl hp_lvl1]. destruct (p =? q); reflexivity. Qed.

Lemma hp_releases_handover p n d tr :
  hp_releases n tr -> hp_releases p (HFetch n :: HUnpin p d :: tr).
Proof.
  intros H q k. specialize (H q k). unfold hp_hold in *. cbn [hp_lvl hp_lvl1].
  destruct (p =? q), (n =? q); exact H.
Qed.

Lemma hp_releases_new p n d tr :
  hp_releases n tr -> hp_releases p (HNew n :: HLink p n :: HUnpin p d :: tr).
Proof.
  intros H q k. specialize (H q k). unfold hp_hold in *. cbn [hp_lvl hp_lvl1].
  destruct (p =? q), (n =? q); exact H.
Qed.

Lemma hp_releases_refetch p g d s tr :
  hp_releases p tr -> hp_releases p (HLock p s g :: HUnpin p d :: HFetch p :: tr).
Proof.
  intros H q k. specialize (H q k). unfold hp_hold in *. cbn [hp_lvl hp_lvl1].
  destruct (p =? q); exact H.
Qed.

(** a tactic for fixed action lists *)
Ltac hp_lvl_solve :=
  let q := fresh "q" in let k := fresh "k" in
  intros q k; unfold hp_hold; cbn [hp_lvl hp_lvl1 app];
  repeat match goal with |- context [?p =? q] => destruct (p =? q) end; reflexivity.

(** ** The pin vector *)

Lemma hp_aget_aset {A} (m : list (N * A)) k v q :
  aget (aset m k v) q = if k =? q then Some v else aget m q.
Proof.
  induction m as [|[k' v'] m IH]; cbn [aset aget].
  - reflexivity.
  - destruct (N.eqb_spec k' k) as [->|Hne]; cbn [aget].
    + destruct (k =? q); reflexivity.
    + rewrite IH. destruct (N.eqb_spec k' q) as [->|Hne'].
      * destruct (N.eqb_spec k q) as [->|_]; [congruence | reflexivity].
      * reflexivity.
Qed.

Lemma hp_pget_aset v p n q : hp_pget (aset v p n) q = if p =? q then n else hp_pget v q.
Proof. unfold hp_pget. rewrite hp_aget_aset. destruct (p =? q); reflexivity. Qed.

Lemma hp_pin_act_lvl1 v a q k1 :
  hp_lvl1 a q (hp_pget v q) = Some k1 -> hp_pget (hp_pin_act v a) q = k1.
Proof.
  destruct a as [p|p|p d|p s g|p o r|p n|p]; cbn [hp_lvl1 hp_pin_act]; intros H;
    try (inversion H; reflexivity).
  - rewrite hp_pget_aset. destruct (N.eqb_spec p q) as [->|_]; inversion H; reflexivity.
  - rewrite hp_pget_aset. destruct (N.eqb_spec p q) as [->|_]; inversion H; reflexivity.
  - rewrite hp_pget_aset. destruct (N.eqb_spec p q) as [->|_].
    + destruct (hp_pget v q); inversion H; reflexivity.
    + inversion H; reflexivity.
Qed.

Lemma hp_pin_run_lvl tr : forall v,
  (forall q, hp_lvl tr q (hp_pget v q) <> None) ->
  hp_pin_safe v tr = true /\
  forall q, hp_lvl tr q (hp_pget v q) = Some (hp_pget (hp_pin_run v tr) q).
Proof.
  induction tr as [|a r IH]; intros v H.
  - split; reflexivity.
  - assert (Hstep : forall q, exists k1, hp_lvl1 a q (hp_pget v q) = Some k1).
    { intros q. specialize (H q). cbn [hp_lvl] in H.
      destruct (hp_lvl1 a q (hp_pget v q)) as [k1|]; [eauto | congruence]. }
    assert (Hr : forall q, hp_lvl r q (hp_pget (hp_pin_act v a) q) <> None).
    { intros q. destruct (Hstep q) as [k1 Hk1]. specialize (H q). cbn [hp_lvl] in H.
      rewrite Hk1 in H. rewrite (hp_pin_act_lvl1 _ _ _ _ Hk1). exact H. }
    destruct (IH _ Hr) as [Hs Hl]. split.
    + cbn [hp_pin_safe]. rewrite Hs, andb_true_r.
      destruct a as [p|p|p d|p s g|p o r'|p n|p]; try reflexivity.
      destruct (Hstep p) as [k1 Hk1]. cbn [hp_lvl1] in Hk1. rewrite N.eqb_refl in Hk1.
      destruct (hp_pget v p); [discriminate | reflexivity].
    + intros q. cbn [hp_lvl hp_pin_run fold_left]. destruct (Hstep q) as [k1 Hk1]. rewrite Hk1.
      rewrite <- (hp_pin_act_lvl1 _ _ _ _ Hk1). apply Hl.
Qed.

Lemma hp_neutral_pins tr v : hp_neutral tr ->
  hp_pin_safe v tr = true /\ forall q, hp_pget (hp_pin_run v tr) q = hp_pget v q.
Proof.
  intros H. destruct (hp_pin_run_lvl tr v) as [Hs Hl].
  - intros q. rewrite H. discriminate.
  - split; [exact Hs|]. intros q. specialize (Hl q). rewrite H in Hl. congruence.
Qed.

(** ** The events of [Model/Pins.v] *)

Definition hp_pevs (tr : list hp_act) : list pev :=
  flat_map (fun a => match a with
                     | HFetch p | HNew p => [Pin p]
                     | HUnpin p _ => [Unpin p]
                     | _ => []
                     end) tr.

Lemma hp_lvl_net tr : forall q k k', hp_lvl tr q k = Some k' ->
  Z.of_nat k' = (Z.of_nat k + net (hp_pevs tr) q)%Z.
Proof.
  induction tr as [|a r IH]; intros q k k' H; cbn [hp_lvl] in H.
  - inversion H. cbn. lia.
  - destruct (hp_lvl1 a q k) as [k1|] eqn:E; [|discriminate].
    specialize (IH _ _ _ H).
    destruct a as [p|p|p d|p s g|p o r'|p n|p]; cbn [hp_lvl1] in E; cbn [hp_pevs flat_map app net];
      fold (hp_pevs r); try (inversion E; subst; lia).
    + rewrite (N.eqb_sym q p). destruct (p =? q); inversion E; subst; lia.
    + rewrite (N.eqb_sym q p). destruct (p =? q); inversion E; subst; lia.
    + rewrite (N.eqb_sym q p). destruct (p =? q).
      * destruct k; inversion E; subst; lia.
      * inversion E; subst; lia.
Qed.

Lemma hp_neutral_balanced tr : hp_neutral tr -> balanced (hp_pevs tr).
Proof. intros H q. pose proof (hp_lvl_net tr q O O (H q O)). lia. Qed.

(** * 2. Every heap operation is pin-neutral *)

Lemma hp_split_spec c : forall p pre x post, hp_split c p = Some (pre, x, post) ->
  c = pre ++ x :: post /\ hp_pid x = p /\ ~ In p (hp_ids pre).
Proof.
  induction c as [|pg c IH]; intros p pre x post H; cbn [hp_split] in H; [discriminate|].
  destruct (N.eqb_spec (hp_pid pg) p) as [E|E].
  - inversion H; subst. cbn. repeat split. intros [].
  - destruct (hp_split c p) as [[[pre' x'] post']|] eqn:S; [|discriminate].
    inversion H; subst. destruct (IH _ _ _ _ S) as (E1 & E2 & E3).
    subst c. repeat split; [assumption|]. cbn. intros [F|F]; [congruence | exact (E3 F)].
Qed.

Section Balance.
  Variables lk mine : N -> N -> bool.

  Lemma hp_page_insert_neutral p a row t tr :
    hp_page_insert lk p a row = (t, tr) -> hp_neutral tr.
  Proof.
    unfold hp_page_insert. destruct (astep a (PInsert row)) as [a' o].
    destruct o; try destruct (lk p slot); intros H; inversion H; subst; hp_lvl_solve.
  Qed.

  Lemma hp_ins_fresh_releases row : forall newids cur pgs r tr,
    hp_ins_fresh lk row cur newids = (pgs, r, tr) ->
    r <> HR_Panic -> r <> HR_NoNewPage -> hp_releases (hp_pid cur) tr.
  Proof.
    induction newids as [|n ids IH]; intros cur pgs r tr H Hp Hn; cbn [hp_ins_fresh] in H;
      destruct (hp_page_insert lk (hp_pid cur) (hp_rows cur) row) as [t tr0] eqn:E;
      pose proof (hp_page_insert_neutral _ _ _ _ _ E) as N0; destruct t.
    - inversion H; subst. apply hp_neutral_releases; [exact N0|]. hp_lvl_solve.
    - inversion H; subst. congruence.
    - inversion H; subst. congruence.
    - inversion H; subst. apply hp_neutral_releases; [exact N0|]. hp_lvl_solve.
    - destruct (hp_ins_fresh lk row (hp_fresh n) ids) as [[pgs' r'] tr'] eqn:F.
      inversion H; subst. apply hp_neutral_releases; [exact N0|].
      cbn [app]. apply hp_releases_new. exact (IH _ _ _ _ F Hp Hn).
    - inversion H; subst. congruence.
  Qed.

  Lemma hp_ins_walk_releases row newids : forall rest cur pgs r tr,
    hp_ins_walk lk row cur rest newids = (pgs, r, tr) ->
    r <> HR_Panic -> r <> HR_NoNewPage -> hp_releases (hp_pid cur) tr.
  Proof.
    induction rest as [|nx rest IH]; intros cur pgs r tr H Hp Hn; cbn [hp_ins_walk] in H.
    - eapply hp_ins_fresh_releases; eassumption.
    - destruct (hp_page_insert lk (hp_pid cur) (hp_rows cur) row) as [t tr0] eqn:E.
      pose proof (hp_page_insert_neutral _ _ _ _ _ E) as N0. destruct t.
      + inversion H; subst. apply hp_neutral_releases; [exact N0|]. hp_lvl_solve.
      + destruct (hp_ins_walk lk row nx rest newids) as [[pgs' r'] tr'] eqn:F.
        inversion H; subst. apply hp_neutral_releases; [exact N0|].
        cbn [app]. apply hp_releases_handover. exact (IH _ _ _ _ F Hp Hn).
      + inversion H; subst. congruence.
  Qed.

  Lemma hp_insert_neutral h row ids h' r tr :
    hp_insert lk h row ids = (h', r, tr) ->
    r <> HR_Panic -> r <> HR_NoNewPage -> hp_neutral tr.
  Proof.
    unfold hp_insert. destruct (hp_split (hp_chain h) (hp_hint h)) as [[[pre cur] rest]|] eqn:S.
    - destruct (hp_ins_walk lk row cur rest ids) as [[pgs r0] tr0] eqn:W.
      intros H Hp Hn. inversion H; subst.
      destruct (hp_split_spec _ _ _ _ _ S) as (_ & <- & _).
      apply hp_fetch_releases. eapply hp_ins_walk_releases; eassumption.
    - intros H Hp _. inversion H; subst. congruence.
  Qed.

  Lemma hp_mark_delete_neutral h p s h' r tr :
    hp_mark_delete lk h p s = (h', r, tr) -> hp_neutral tr.
  Proof.
    unfold hp_mark_delete. destruct (hp_find (hp_chain h) p) as [pg|].
    - destruct (negb (lk p s)).
      + intros H; inversion H; subst. hp_lvl_solve.
      + destruct (astep (hp_rows pg) (PMark s)) as [a' o].
        intros H; inversion H; subst. hp_lvl_solve.
    - intros H; inversion H; subst. apply hp_neutral_nil.
  Qed.

  Lemma hp_apply_delete_neutral h p s h' r tr :
    hp_apply_delete h p s = (h', r, tr) -> r <> HR_Panic -> hp_neutral tr.
  Proof.
    unfold hp_apply_delete. destruct (hp_find (hp_chain h) p) as [pg|].
    - destruct (astep (hp_rows pg) (PApply s)) as [a' o].
      destruct o; intros H Hp; inversion H; subst; try congruence. hp_lvl_solve.
    - intros H Hp; inversion H; subst. congruence.
  Qed.

  Lemma hp_rollback_delete_neutral h p s h' r tr :
    hp_rollback_delete h p s = (h', r, tr) -> r <> HR_Panic -> hp_neutral tr.
  Proof.
    unfold hp_rollback_delete. destruct (hp_find (hp_chain h) p) as [pg|].
    - destruct (astep (hp_rows pg) (PRollback s)) as [a' o].
      destruct o; intros H Hp; inversion H; subst; try congruence. hp_lvl_solve.
    - intros H Hp; inversion H; subst. congruence.
  Qed.

  Lemma hp_update_move_neutral h p s row rb ids tr0 h' r tr :
    hp_neutral tr0 -> hp_update_move lk h p s row rb ids tr0 = (h', r, tr) ->
    r <> HR_Panic -> r <> HR_NoNewPage -> hp_neutral tr.
  Proof.
    intros N0. unfold hp_update_move.
    destruct (if rb then hp_apply_delete h p s else hp_mark_delete lk h p s)
      as [[h1 r1] tr1] eqn:D.
    assert (N1 : r1 <> HR_Panic -> hp_neutral tr1).
    { destruct rb; intros Hp1.
      - eapply hp_apply_delete_neutral; eassumption.
      - eapply hp_mark_delete_neutral; eassumption. }
    assert (Hins : forall h2 r2 tr2, hp_insert lk h1 row ids = (h2, r2, tr2) ->
              (h2, match r2 with HR_Inserted p' s' => HR_Updated false p' s' | _ => r2 end,
               tr0 ++ tr1 ++ tr2) = (h', r, tr) ->
              r1 <> HR_Panic -> r <> HR_Panic -> r <> HR_NoNewPage -> hp_neutral tr).
    { intros h2 r2 tr2 I H Hp1 Hp Hn. inversion H; subst.
      apply hp_neutral_app; [exact N0|]. apply hp_neutral_app; [exact (N1 Hp1)|].
      eapply hp_insert_neutral; [exact I | |]; destruct r2; congruence. }
    destruct r1 as [| [|] | | | | | | | | | |];
      try (intros H Hp Hn; inversion H; subst; try congruence;
           apply hp_neutral_app; [exact N0 | apply N1; discriminate]).
    - destruct (hp_insert lk h1 row ids) as [[h2 r2] tr2] eqn:I.
      intros H Hp Hn. exact (Hins _ _ _ eq_refl H ltac:(discriminate) Hp Hn).
    - destruct (hp_insert lk h1 row ids) as [[h2 r2] tr2] eqn:I.
      intros H Hp Hn. exact (Hins _ _ _ eq_refl H ltac:(discriminate) Hp Hn).
    - intros H Hp Hn. inversion H; subst. exfalso. apply Hp. reflexivity.
  Qed.

  Lemma hp_update_neutral h p s row rb ids h' r tr :
    hp_update lk h p s row rb ids = (h', r, tr) ->
    r <> HR_Panic -> r <> HR_NoNewPage -> hp_neutral tr.
  Proof.
    unfold hp_update. destruct (hp_find (hp_chain h) p) as [pg|];
      [|intros H; inversion H; subst; intros; apply hp_neutral_nil].
    destruct (blen row =? 0); [intros H Hp; inversion H; subst; congruence|].
    destruct (negb (lk p s)); [intros H; inversion H; subst; intros; hp_lvl_solve|].
    destruct (astep (hp_rows pg) (PUpdate s row false)) as [a' o].
    destruct o; try (intros H Hp Hn; inversion H; subst; hp_lvl_solve);
      apply hp_update_move_neutral; hp_lvl_solve.
  Qed.

  Lemma hp_get_tuple_neutral h p s r tr :
    hp_get_tuple lk mine h p s = (r, tr) -> hp_neutral tr.
  Proof.
    unfold hp_get_tuple. destruct (negb (lk p s)); [intros H; inversion H; subst; hp_lvl_solve|].
    destruct (hp_find (hp_chain h) p) as [pg|]; [|intros H; inversion H; subst; hp_lvl_solve].
    destruct (hp_page_get mine (hp_rows pg) p s) as [r0 o].
    intros H; inversion H; subst; hp_lvl_solve.
  Qed.

  Lemma hp_gft_walk_neutral : forall c r tr, hp_gft_walk hp_go c = (r, tr) -> hp_neutral tr.
  Proof.
    induction c as [|pg c IH]; intros r tr H; cbn [hp_gft_walk] in H.
    - inversion H; subst. apply hp_neutral_nil.
    - destruct (hp_first_row (hp_rows pg) 0) as [s|].
      + inversion H; subst. hp_lvl_solve.
      + destruct (hp_gft_walk hp_go c) as [r' tr'] eqn:W. inversion H; subst.
        cbn [gft_unpins_skipped hp_go app].
        change (HFetch (hp_pid pg) :: HUnpin (hp_pid pg) false :: tr')
          with ([HFetch (hp_pid pg); HUnpin (hp_pid pg) false] ++ tr').
        apply hp_neutral_app; [hp_lvl_solve | exact (IH _ _ eq_refl)].
  Qed.

  Lemma hp_get_first_neutral h r tr : hp_get_first hp_go lk mine h = (r, tr) -> hp_neutral tr.
  Proof.
    unfold hp_get_first. destruct (hp_gft_walk hp_go (hp_chain h)) as [[[p s]|] tr0] eqn:W;
      pose proof (hp_gft_walk_neutral _ _ _ W) as N0.
    - destruct (hp_get_tuple lk mine h p s) as [r1 tr1] eqn:G. intros H; inversion H; subst.
      apply hp_neutral_app; [exact N0 | eapply hp_get_tuple_neutral; eassumption].
    - intros H; inversion H; subst. exact N0.
  Qed.

  (** unfolding equations of the nested fixpoint *)
  Lemma hp_nx_none V rest p ents i from adv :
    hp_nx V lk mine rest p (None :: ents) i from adv = hp_nx V lk mine rest p ents (i + 1) from adv.
  Proof. destruct rest; reflexivity. Qed.

  Lemma hp_nx_some V rest p b mk ents i from adv :
    hp_nx V lk mine rest p (Some (b, mk) :: ents) i from adv =
    if i <? from then hp_nx V lk mine rest p ents (i + 1) from adv
    else if negb (lk p i) then (HR_Err, [HLock p i false; HUnpin p false])
    else if mk then
      if mine p i
      then let '(r, tr) := hp_nx V lk mine rest p ents (i + 1) from false in
           (r, HLock p i true :: HUnpin p false :: HFetch p :: tr)
      else (HR_Err, [HLock p i true; HUnpin p false])
    else (HR_Row p i b, [HLock p i true; HUnpin p false]).
  Proof. destruct rest; reflexivity. Qed.

  Lemma hp_nx_nil V rest p i from adv :
    hp_nx V lk mine rest p [] i from adv =
    if adv && negb (iter_skips_all_empty V) then (HR_None, [HUnpin p false])
    else match rest with
         | [] => (HR_None, [HUnpin p false])
         | q :: rest' =>
             let '(r, tr) := hp_nx V lk mine rest' (hp_pid q) (hp_rows q) 0 0 true in
             (r, HFetch (hp_pid q) :: HUnpin p false :: tr)
         end.
  Proof. destruct rest; reflexivity. Qed.

  Lemma hp_nx_releases : forall rest p ents i from adv r tr,
    hp_nx hp_go lk mine rest p ents i from adv = (r, tr) -> hp_releases p tr.
  Proof.
    induction rest as [|pg rest IHr]; intros p ents; induction ents as [|e ents IHe];
      intros i from adv r tr H.
    - rewrite hp_nx_nil in H. cbn [iter_skips_all_empty hp_go negb] in H.
      rewrite andb_false_r in H. inversion H; subst. apply hp_releases_unpin.
    - destruct e as [[b mk]|]; [rewrite hp_nx_some in H | rewrite hp_nx_none in H; eauto].
      destruct (i <? from); [eauto|].
      destruct (negb (lk p i)); [inversion H; subst; hp_lvl_solve|].
      destruct mk; [|inversion H; subst; hp_lvl_solve].
      destruct (mine p i); [|inversion H; subst; hp_lvl_solve].
      destruct (hp_nx hp_go lk mine [] p ents (i + 1) from false) as [r' tr'] eqn:E.
      inversion H; subst. apply hp_releases_refetch. eauto.
    - rewrite hp_nx_nil in H. cbn [iter_skips_all_empty hp_go negb] in H.
      rewrite andb_false_r in H.
      destruct (hp_nx hp_go lk mine rest (hp_pid pg) (hp_rows pg) 0 0 true) as [r' tr'] eqn:E.
      inversion H; subst. apply hp_releases_handover. eauto.
    - destruct e as [[b mk]|]; [rewrite hp_nx_some in H | rewrite hp_nx_none in H; eauto].
      destruct (i <? from); [eauto|].
      destruct (negb (lk p i)); [inversion H; subst; hp_lvl_solve|].
      destruct mk; [|inversion H; subst; hp_lvl_solve].
      destruct (mine p i); [|inversion H; subst; hp_lvl_solve].
      destruct (hp_nx hp_go lk mine (pg :: rest) p ents (i + 1) from false) as [r' tr'] eqn:E.
      inversion H; subst. apply hp_releases_refetch. eauto.
  Qed.

  Lemma hp_next_neutral h p s r tr : hp_next hp_go lk mine h p s = (r, tr) -> hp_neutral tr.
  Proof.
    unfold hp_next. destruct (hp_split (hp_chain h) p) as [[[pre pg] rest]|].
    - destruct (hp_nx hp_go lk mine rest p (hp_rows pg) 0 (s + 1) false) as [r' tr'] eqn:E.
      intros H; inversion H; subst. apply hp_fetch_releases. eapply hp_nx_releases; eassumption.
    - intros H; inversion H; subst. apply hp_neutral_nil.
  Qed.

  Lemma hp_iter_new_neutral h r tr : hp_iter_new hp_go lk mine h = (r, tr) -> hp_neutral tr.
  Proof.
    unfold hp_iter_new. destruct (hp_get_first hp_go lk mine h) as [r0 tr0] eqn:G.
    pose proof (hp_get_first_neutral _ _ _ G) as N0.
    destruct r0; try (intros H; inversion H; subst; exact N0).
    destruct (hp_next hp_go lk mine h p s) as [r1 tr1] eqn:X. intros H; inversion H; subst.
    apply hp_neutral_app; [exact N0 | eapply hp_next_neutral; eassumption].
  Qed.

  Lemma hp_scan_loop_neutral h : forall fuel cur rows e tr,
    hp_scan_loop hp_go lk mine fuel h cur = (rows, e, tr) -> hp_neutral tr.
  Proof.
    induction fuel as [|f IH]; intros cur rows e tr H;
      destruct cur; cbn [hp_scan_loop] in H; try (inversion H; subst; apply hp_neutral_nil).
    destruct (hp_next hp_go lk mine h p s) as [r1 tr1] eqn:X.
    destruct (hp_scan_loop hp_go lk mine f h r1) as [[rows' e'] tr'] eqn:L.
    inversion H; subst. apply hp_neutral_app; [eapply hp_next_neutral; eassumption | eauto].
  Qed.

  Lemma hp_scan_neutral h r tr : hp_scan hp_go lk mine h = (r, tr) -> hp_neutral tr.
  Proof.
    unfold hp_scan. destruct (hp_iter_new hp_go lk mine h) as [r0 tr0] eqn:I.
    destruct (hp_scan_loop hp_go lk mine (hp_scan_fuel h) h r0) as [[rows e] tr1] eqn:L.
    intros H; inversion H; subst.
    apply hp_neutral_app; [eapply hp_iter_new_neutral | eapply hp_scan_loop_neutral]; eassumption.
  Qed.

  Lemma hp_step_neutral h o h' r tr :
    hp_step hp_go lk mine h o = (h', r, tr) ->
    r <> HR_Panic -> r <> HR_NoNewPage -> hp_neutral tr.
  Proof.
    destruct o; cbn [hp_step]; intros H Hp Hn.
    - eapply hp_insert_neutral; eassumption.
    - eapply hp_mark_delete_neutral; eassumption.
    - eapply hp_apply_delete_neutral; eassumption.
    - eapply hp_rollback_delete_neutral; eassumption.
    - eapply hp_update_neutral; eassumption.
    - destruct (hp_get_tuple lk mine h p s) as [r0 tr0] eqn:E. inversion H; subst.
      eapply hp_get_tuple_neutral; eassumption.
    - destruct (hp_get_first hp_go lk mine h) as [r0 tr0] eqn:E. inversion H; subst.
      eapply hp_get_first_neutral; eassumption.
    - destruct (hp_next hp_go lk mine h p s) as [r0 tr0] eqn:E. inversion H; subst.
      eapply hp_next_neutral; eassumption.
    - destruct (hp_scan hp_go lk mine h) as [r0 tr0] eqn:E. inversion H; subst.
      eapply hp_scan_neutral; eassumption.
  Qed.
End Balance.

(** Every operation, from every state (reachable or not), with every outcome
    the Go function returns from: the pool never sees an unpin of an unpinned
    page, every page's pin count is what it was, and the event sequence is a
    balanced statement in the sense of [Model/Pins.v]. *)
Lemma hp_ops_pin_balanced : forall lk mine st o st' r tr,
  hp_exec hp_go lk mine st o = (st', r, tr) ->
  r <> HR_Panic -> r <> HR_NoNewPage ->
  hp_pin_safe (hp_pins st) tr = true /\
  (forall q, hp_pget (hp_pins st') q = hp_pget (hp_pins st) q) /\
  balanced (hp_pevs tr).
Proof.
  intros lk mine st o st' r tr H Hp Hn. unfold hp_exec in H.
  destruct (hp_step hp_go lk mine (hp_heap_of st) o) as [[h' r0] tr0] eqn:S.
  inversion H; subst. pose proof (hp_step_neutral _ _ _ _ _ _ _ S Hp Hn) as N0.
  destruct (hp_neutral_pins tr (hp_pins st) N0) as [Hs Hq].
  split; [exact Hs|]. split; [exact Hq|]. apply hp_neutral_balanced. exact N0.
Qed.

(** * 3. Well-formed heaps *)

(** bytes used <= page capacity *)
Definition hp_page_ok (a : astate) : Prop :=
  size_table_page_header + size_tuple * N.of_nat (length a) + a_used a <= page_size.

Definition hp_wf (h : hp_heap) : Prop :=
  hp_chain h <> [] /\ NoDup (hp_ids (hp_chain h)) /\ In (hp_hint h) (hp_ids (hp_chain h)) /\
  Forall (fun pg => hp_page_ok (hp_rows pg)) (hp_chain h).

Lemma hp_page_ok_nil : hp_page_ok [].
Proof. unfold hp_page_ok. cbn. unf. lia. Qed.

Lemma hp_a_free_ok a : hp_page_ok a ->
  a_free a + (size_table_page_header + size_tuple * N.of_nat (length a) + a_used a) = page_size.
Proof. unfold hp_page_ok, a_free. lia. Qed.

Lemma set_nth_append {A} (l : list A) x : set_nth l (length l) x = l ++ [x].
Proof. induction l as [|y l IH]; cbn; [reflexivity | f_equal; exact IH]. Qed.

Lemma a_used_app (a b : astate) : a_used (a ++ b) = a_used a + a_used b.
Proof.
  induction a as [|e a IH]; [reflexivity|]. cbn [app]. rewrite !a_used_cons, IH. lia.
Qed.

(** replacing / appending one slot entry *)
Lemma hp_page_ok_set a n e' :
  hp_page_ok a ->
  (forall e, nth_error a n = Some e ->
     size_table_page_header + size_tuple * N.of_nat (length a) + a_used a + aweight e' <= page_size + aweight e) ->
  (nth_error a n = None -> n = length a /\
     size_table_page_header + size_tuple * N.of_nat (S (length a)) + a_used a + aweight e' <= page_size) ->
  hp_page_ok (set_nth a n e').
Proof.
  intros Hok Hin Hout. unfold hp_page_ok in *. destruct (nth_error a n) as [e|] eqn:E.
  - pose proof (a_used_set_nth a n e e' E) as U. specialize (Hin e eq_refl).
    rewrite set_nth_length by (eapply nth_error_lt; eassumption). lia.
  - destruct (Hout eq_refl) as [-> H]. rewrite set_nth_append, app_length, a_used_app.
    cbn [length]. replace (a_used [e']) with (aweight e') by (rewrite a_used_cons; cbn; lia).
    lia.
Qed.

Lemma hp_astep_page_ok a o : hp_page_ok a ->
  match o with PInsertAt _ _ => False | _ => True end -> hp_page_ok (fst (astep a o)).
Proof.
  intros Hok Ho. pose proof (hp_a_free_ok a Hok) as F.
  destruct o as [b|i b|i b r|i|i|i|i]; cbn [astep]; try contradiction.
  - destruct (blen b =? 0); [exact Hok|].
    destruct (N.ltb_spec (a_free a) (blen b + size_tuple)); [exact Hok|]. cbn [fst].
    destruct (a_first_free_spec a 0) as (n & H1 & H2 & H3). rewrite H1.
    replace (N.to_nat (0 + N.of_nat n)) with n by lia.
    apply hp_page_ok_set; [exact Hok | |].
    + intros e E. destruct H3 as [H3|H3]; rewrite H3 in E; inversion E; subst. cbn [aweight]. lia.
    + intros E. split.
      * apply nth_error_None in E. lia.
      * cbn [aweight]. lia.
  - destruct (blen b =? 0); [exact Hok|].
    destruct (a_at a i) as [[[old [|]]|]|] eqn:E; try exact Hok.
    destruct (N.ltb_spec (a_free a + blen old) (blen b)); [exact Hok|].
    destruct ((blen b <? blen old) && negb r); [exact Hok|]. cbn [fst].
    unfold a_at in E. apply hp_page_ok_set; [exact Hok | |].
    + intros e E'. rewrite E in E'. inversion E'; subst. cbn [aweight]. lia.
    + intros E'. congruence.
  - destruct (a_at a i) as [[[old [|]]|]|] eqn:E; try exact Hok. cbn [fst].
    unfold a_at in E. apply hp_page_ok_set; [exact Hok | |].
    + intros e E'. rewrite E in E'. inversion E'; subst. cbn [aweight]. lia.
    + intros E'. congruence.
  - destruct (a_at a i) as [[e0|]|] eqn:E; try exact Hok. cbn [fst].
    unfold a_at in E. apply hp_page_ok_set; [exact Hok | |].
    + intros e E'. cbn [aweight]. unfold hp_page_ok in Hok. lia.
    + intros E'. congruence.
  - destruct (a_at a i) as [[[old m]|]|] eqn:E; try exact Hok. cbn [fst].
    unfold a_at in E. apply hp_page_ok_set; [exact Hok | |].
    + intros e E'. rewrite E in E'. inversion E'; subst. cbn [aweight]. lia.
    + intros E'. congruence.
  - destruct (a_at a i) as [[[old [|]]|]|]; exact Hok.
Qed.

(** ** chain surgery *)

Lemma hp_ids_set_rows c p a : hp_ids (hp_set_rows c p a) = hp_ids c.
Proof.
  induction c as [|pg c IH]; [reflexivity|]. cbn [hp_set_rows].
  destruct (N.eqb_spec (hp_pid pg) p) as [E|E]; cbn; [rewrite E; reflexivity|].
  f_equal. exact IH.
Qed.

Lemma hp_ok_set_rows c p a :
  Forall (fun pg => hp_page_ok (hp_rows pg)) c -> hp_page_ok a ->
  Forall (fun pg => hp_page_ok (hp_rows pg)) (hp_set_rows c p a).
Proof.
  intros H Ha. induction H as [|pg c Hpg Hc IH]; [constructor|]. cbn [hp_set_rows].
  destruct (hp_pid pg =? p); constructor; assumption.
Qed.

Lemma hp_find_in c p pg : hp_find c p = Some pg -> In pg c /\ hp_pid pg = p.
Proof.
  induction c as [|x c IH]; cbn [hp_find]; [discriminate|].
  destruct (N.eqb_spec (hp_pid x) p) as [E|E]; intros H.
  - inversion H; subst. split; [left; reflexivity | reflexivity].
  - destruct (IH H). split; [right; assumption | assumption].
Qed.

Lemma hp_find_none c p : hp_find c p = None <-> ~ In p (hp_ids c).
Proof.
  induction c as [|x c IH]; cbn [hp_find hp_ids map In]; [tauto|].
  destruct (N.eqb_spec (hp_pid x) p) as [E|E].
  - split; [discriminate | intros H; exfalso; apply H; left; exact E].
  - rewrite IH. fold (hp_ids c). tauto.
Qed.

Lemma hp_find_split c p : In p (hp_ids c) ->
  exists pre x post, hp_split c p = Some (pre, x, post).
Proof.
  induction c as [|pg c IH]; cbn [hp_ids map In hp_split]; [contradiction|].
  destruct (N.eqb_spec (hp_pid pg) p) as [E|E]; intros H; [eauto|].
  destruct H as [H|H]; [congruence|]. destruct (IH H) as (pre & x & post & S).
  rewrite S. eauto.
Qed.

Lemma hp_wf_set_rows h p a hint :
  hp_wf h -> hp_page_ok a -> In hint (hp_ids (hp_chain h)) ->
  hp_wf (mkHp (hp_set_rows (hp_chain h) p a) hint).
Proof.
  intros (H1 & H2 & H3 & H4) Ha Hh. unfold hp_wf. cbn [hp_chain hp_hint].
  rewrite hp_ids_set_rows. repeat split; try assumption.
  - intros E. apply (f_equal hp_ids) in E. rewrite hp_ids_set_rows in E.
    destruct (hp_chain h); [congruence | discriminate].
  - apply hp_ok_set_rows; assumption.
Qed.

Lemma hp_first_in h : hp_chain h <> [] -> In (hp_first h) (hp_ids (hp_chain h)).
Proof. unfold hp_first. destruct (hp_chain h); [congruence | intros _; left; reflexivity]. Qed.

Lemma hp_wf_page_ok h p pg : hp_wf h -> hp_find (hp_chain h) p = Some pg -> hp_page_ok (hp_rows pg).
Proof.
  intros (_ & _ & _ & H4) F. destruct (hp_find_in _ _ _ F) as [Hin _].
  rewrite Forall_forall in H4. exact (H4 _ Hin).
Qed.

(** ** the insert loop, structurally *)

Section Insert.
  Variable lk : N -> N -> bool.

  Definition hp_rejects (row : list N) (pg : hp_page) : Prop := hp_accepts lk row pg = None.

  (** [cands]: the pages the loop looked at; [pgs]: what they became *)
  Definition hp_ins_post (row : list N) (cands pgs : list hp_page) (r : hp_res) : Prop :=
    (exists A pg B s a',
        cands = A ++ pg :: B /\ hp_accepts lk row pg = Some (s, a') /\
        Forall (hp_rejects row) A /\
        pgs = A ++ mkHpPage (hp_pid pg) a' :: B /\ r = HR_Inserted (hp_pid pg) s)
    \/ (Forall (hp_rejects row) cands /\ pgs = cands /\ r = HR_NoNewPage).

  Lemma hp_ins_post_cons row x cands pgs r :
    hp_rejects row x -> hp_ins_post row cands pgs r -> hp_ins_post row (x :: cands) (x :: pgs) r.
  Proof.
    intros Hx [(A & pg & B & s & a' & E1 & E2 & E3 & E4 & E5)|(E1 & E2 & E3)].
    - left. exists (x :: A), pg, B, s, a'. subst. repeat split; try assumption.
      constructor; assumption.
    - right. subst. repeat split. constructor; assumption.
  Qed.

  Lemma hp_page_insert_accepts row pg t tr : blen row <> 0 ->
    hp_page_insert lk (hp_pid pg) (hp_rows pg) row = (t, tr) ->
    match t with
    | HT_Ok s a' => hp_accepts lk row pg = Some (s, a')
    | HT_No => hp_rejects row pg
    | HT_Panic => False
    end.
  Proof.
    intros Hb. unfold hp_page_insert, hp_rejects, hp_accepts.
    destruct (astep (hp_rows pg) (PInsert row)) as [a' o] eqn:E.
    assert (Ho : o <> OPanic).
    { cbn [astep] in E. apply N.eqb_neq in Hb. rewrite Hb in E.
      destruct (a_free (hp_rows pg) <? blen row + size_tuple); inversion E; discriminate. }
    destruct o; try destruct (lk (hp_pid pg) slot); intros H; inversion H; subst;
      try reflexivity; congruence.
  Qed.

  Lemma hp_ins_fresh_spec row : blen row <> 0 -> forall ids cur pgs r tr,
    hp_ins_fresh lk row cur ids = (pgs, r, tr) ->
    exists k, hp_ins_post row (cur :: map hp_fresh (firstn k ids)) pgs r /\
              (r = HR_NoNewPage -> firstn k ids = ids).
  Proof.
    intros Hb. induction ids as [|n ids IH]; intros cur pgs r tr H; cbn [hp_ins_fresh] in H;
      destruct (hp_page_insert lk (hp_pid cur) (hp_rows cur) row) as [t tr0] eqn:E;
      pose proof (hp_page_insert_accepts _ _ _ _ Hb E) as A0; destruct t; try contradiction.
    - inversion H; subst. exists O. split; [|reflexivity]. left.
      exists [], cur, [], s, a'. repeat split; try assumption. constructor.
    - inversion H; subst. exists O. split; [|reflexivity]. right.
      repeat split. constructor; [assumption | constructor].
    - inversion H; subst. exists O. split; [|discriminate]. left.
      exists [], cur, [], s, a'. repeat split; try assumption. constructor.
    - destruct (hp_ins_fresh lk row (hp_fresh n) ids) as [[pgs' r'] tr'] eqn:F.
      inversion H; subst. destruct (IH _ _ _ _ F) as (k & P & Q).
      exists (S k). cbn [firstn map]. split.
      + apply hp_ins_post_cons; assumption.
      + intros R. rewrite (Q R). reflexivity.
  Qed.

  Lemma hp_ins_walk_spec row ids : blen row <> 0 -> forall rest cur pgs r tr,
    hp_ins_walk lk row cur rest ids = (pgs, r, tr) ->
    exists k, hp_ins_post row (cur :: rest ++ map hp_fresh (firstn k ids)) pgs r /\
              (r = HR_NoNewPage -> firstn k ids = ids).
  Proof.
    intros Hb. induction rest as [|nx rest IH]; intros cur pgs r tr H; cbn [hp_ins_walk] in H.
    - cbn [app]. eapply hp_ins_fresh_spec; eassumption.
    - destruct (hp_page_insert lk (hp_pid cur) (hp_rows cur) row) as [t tr0] eqn:E.
      pose proof (hp_page_insert_accepts _ _ _ _ Hb E) as A0. destruct t; try contradiction.
      + inversion H; subst. exists O. split; [|discriminate]. left.
        exists [], cur, (nx :: rest), s, a'. cbn [firstn map]. rewrite app_nil_r.
        repeat split; try assumption. constructor.
      + destruct (hp_ins_walk lk row nx rest ids) as [[pgs' r'] tr'] eqn:F.
        inversion H; subst. destruct (IH _ _ _ _ F) as (k & P & Q).
        exists k. split; [|exact Q]. cbn [app]. apply hp_ins_post_cons; assumption.
  Qed.

  Lemma hp_ins_post_ids row cands pgs r : hp_ins_post row cands pgs r -> hp_ids pgs = hp_ids cands.
  Proof.
    intros [(A & pg & B & s & a' & E1 & _ & _ & E4 & _)|(_ & E2 & _)]; subst; [|reflexivity].
    unfold hp_ids. rewrite !map_app. reflexivity.
  Qed.

  Lemma hp_accepts_ok row pg s a' : hp_page_ok (hp_rows pg) ->
    hp_accepts lk row pg = Some (s, a') -> hp_page_ok a'.
  Proof.
    unfold hp_accepts. intros Hok H.
    pose proof (hp_astep_page_ok (hp_rows pg) (PInsert row) Hok I) as K.
    destruct (astep (hp_rows pg) (PInsert row)) as [a1 o]. cbn [fst] in K.
    destruct o; try discriminate. destruct (lk (hp_pid pg) slot); inversion H; subst. exact K.
  Qed.

  Lemma hp_ins_post_ok row cands pgs r : hp_ins_post row cands pgs r ->
    Forall (fun pg => hp_page_ok (hp_rows pg)) cands -> Forall (fun pg => hp_page_ok (hp_rows pg)) pgs.
  Proof.
    intros [(A & pg & B & s & a' & E1 & E2 & _ & E4 & _)|(_ & E2 & _)] H; subst; [|exact H].
    apply Forall_app in H. destruct H as [HA HB]. inversion HB; subst.
    apply Forall_app. split; [exact HA|]. constructor; [|assumption].
    cbn [hp_rows]. eapply hp_accepts_ok; eassumption.
  Qed.
End Insert.

(** freshness of the new ids *)
Lemma hp_memN_In x l : memN x l = true <-> In x l.
Proof.
  induction l as [|y l IH]; cbn [memN In]; [split; [discriminate | contradiction]|].
  rewrite orb_true_iff, IH, N.eqb_eq. tauto.
Qed.

Lemma hp_nodupb_NoDup l : hp_nodupb l = true -> NoDup l.
Proof.
  induction l as [|x l IH]; cbn [hp_nodupb]; [constructor|].
  rewrite andb_true_iff, negb_true_iff. intros [H1 H2]. constructor; [|auto].
  intros Hin. apply hp_memN_In in Hin. congruence.
Qed.

Lemma hp_fresh_ok_spec c ids : hp_fresh_ok c ids = true ->
  NoDup ids /\ forall n, In n ids -> ~ In n (hp_ids c).
Proof.
  unfold hp_fresh_ok. rewrite andb_true_iff, forallb_forall. intros [H1 H2].
  split; [apply hp_nodupb_NoDup; exact H1|]. intros n Hn Hin. specialize (H2 n Hn).
  apply negb_true_iff in H2. apply hp_memN_In in Hin. congruence.
Qed.

Lemma hp_ids_fresh l : hp_ids (map hp_fresh l) = l.
Proof. unfold hp_ids. rewrite map_map. cbn. apply map_id. Qed.

Lemma hp_firstn_in {A} k (l : list A) x : In x (firstn k l) -> In x l.
Proof. rewrite <- (firstn_skipn k l) at 2. intros H. apply in_or_app. left. exact H. Qed.

Lemma hp_nodup_firstn {A} k (l : list A) : NoDup l -> NoDup (firstn k l).
Proof.
  revert k. induction l as [|x l IH]; intros [|k] H; cbn [firstn]; try constructor.
  - inversion H; subst. intros Hin. apply hp_firstn_in in Hin. contradiction.
  - inversion H; subst. auto.
Qed.

Lemma hp_nodup_extend c ids k : NoDup (hp_ids c) -> hp_fresh_ok c ids = true ->
  NoDup (hp_ids (c ++ map hp_fresh (firstn k ids))).
Proof.
  intros Hc Hf. destruct (hp_fresh_ok_spec _ _ Hf) as [Hn Hd].
  unfold hp_ids. rewrite map_app. fold (hp_ids c). fold (hp_ids (map hp_fresh (firstn k ids))).
  rewrite hp_ids_fresh. 
  assert (G : forall l1 l2 : list N, NoDup l1 -> NoDup l2 -> (forall n, In n l2 -> ~ In n l1) -> NoDup (l1 ++ l2)).
  { induction l1 as [|x l1 IH]; intros l2 H1 H2 H3; [exact H2|]. cbn [app]. inversion H1; subst.
    constructor.
    - intros Hin. apply in_app_or in Hin. destruct Hin as [Hin|Hin]; [contradiction|].
      apply (H3 _ Hin). left. reflexivity.
    - apply IH; try assumption. intros n Hn' Hin. apply (H3 _ Hn'). right. exact Hin. }
  apply G; [exact Hc | apply hp_nodup_firstn; exact Hn|].
  intros n Hin. apply Hd. eapply hp_firstn_in; eassumption.
Qed.

Lemma hp_insert_wf lk h row ids h' r tr :
  hp_wf h -> hp_fresh_ok (hp_chain h) ids = true -> blen row <> 0 ->
  hp_insert lk h row ids = (h', r, tr) -> hp_wf h'.
Proof.
  intros W Hf Hb. unfold hp_insert.
  destruct (hp_split (hp_chain h) (hp_hint h)) as [[[pre cur] rest]|] eqn:S;
    [|intros H; inversion H; subst; exact W].
  destruct (hp_ins_walk lk row cur rest ids) as [[pgs r0] tr0] eqn:Wk.
  intros H; inversion H; subst. clear H.
  destruct (hp_split_spec _ _ _ _ _ S) as (Ec & Ep & Hpre).
  destruct (hp_ins_walk_spec lk row ids Hb _ _ _ _ _ Wk) as (k & P & _).
  pose proof (hp_ins_post_ids _ _ _ _ _ P) as Hids.
  destruct W as (W1 & W2 & W3 & W4).
  assert (Eids : hp_ids (pre ++ pgs) = hp_ids (hp_chain h ++ map hp_fresh (firstn k ids))).
  { rewrite Ec. unfold hp_ids in *. rewrite !map_app. rewrite Hids. cbn [map].
    rewrite map_app. rewrite <- !app_assoc. reflexivity. }
  unfold hp_wf. cbn [hp_chain hp_hint]. rewrite Eids. repeat split.
  - intros E. apply (f_equal hp_ids) in E. rewrite Eids in E.
    destruct (hp_chain h); [congruence | discriminate].
  - apply hp_nodup_extend; assumption.
  - unfold hp_ids. rewrite map_app. apply in_or_app.
    destruct P as [(A & pg & B & s & a' & E1 & _ & _ & _ & E5)|(_ & _ & E3)]; subst r.
    + assert (Hin : In (hp_pid pg) (hp_ids (cur :: rest ++ map hp_fresh (firstn k ids)))).
      { rewrite E1. unfold hp_ids. rewrite map_app. apply in_or_app. right. left. reflexivity. }
      unfold hp_ids in Hin. cbn [map] in Hin. rewrite map_app in Hin.
      destruct Hin as [Hin|Hin].
      * left. rewrite Ec, map_app. apply in_or_app. right. left. exact Hin.
      * apply in_app_or in Hin. destruct Hin as [Hin|Hin]; [|right; exact Hin].
        left. rewrite Ec, map_app. apply in_or_app. right. right. exact Hin.
    + left. exact W3.
  - apply Forall_app. rewrite Ec in W4. apply Forall_app in W4. destruct W4 as [Wa Wb].
    split; [exact Wa|]. eapply hp_ins_post_ok; [exact P|].
    change (cur :: rest ++ map hp_fresh (firstn k ids)) with ((cur :: rest) ++ map hp_fresh (firstn k ids)).
    apply Forall_app. split; [exact Wb|]. apply Forall_forall. intros x Hx.
    apply in_map_iff in Hx. destruct Hx as (n & <- & _). apply hp_page_ok_nil.
Qed.

Lemma hp_mark_delete_wf lk h p s h' r tr :
  hp_wf h -> hp_mark_delete lk h p s = (h', r, tr) -> hp_wf h'.
Proof.
  intros W. unfold hp_mark_delete. destruct (hp_find (hp_chain h) p) as [pg|] eqn:F;
    [|intros H; inversion H; subst; exact W].
  destruct (negb (lk p s)); [intros H; inversion H; subst; exact W|].
  pose proof (hp_astep_page_ok _ (PMark s) (hp_wf_page_ok _ _ _ W F) I) as K.
  destruct (astep (hp_rows pg) (PMark s)) as [a' o]. intros H; inversion H; subst.
  apply hp_wf_set_rows; [exact W | exact K | apply W].
Qed.

Lemma hp_apply_delete_wf h p s h' r tr :
  hp_wf h -> hp_apply_delete h p s = (h', r, tr) -> hp_wf h'.
Proof.
  intros W. unfold hp_apply_delete. destruct (hp_find (hp_chain h) p) as [pg|] eqn:F;
    [|intros H; inversion H; subst; exact W].
  pose proof (hp_astep_page_ok _ (PApply s) (hp_wf_page_ok _ _ _ W F) I) as K.
  destruct (astep (hp_rows pg) (PApply s)) as [a' o].
  destruct o; intros H; inversion H; subst; try exact W.
  apply hp_wf_set_rows; [exact W | exact K | apply hp_first_in; apply W].
Qed.

Lemma hp_rollback_delete_wf h p s h' r tr :
  hp_wf h -> hp_rollback_delete h p s = (h', r, tr) -> hp_wf h'.
Proof.
  intros W. unfold hp_rollback_delete. destruct (hp_find (hp_chain h) p) as [pg|] eqn:F;
    [|intros H; inversion H; subst; exact W].
  pose proof (hp_astep_page_ok _ (PRollback s) (hp_wf_page_ok _ _ _ W F) I) as K.
  destruct (astep (hp_rows pg) (PRollback s)) as [a' o].
  destruct o; intros H; inversion H; subst; try exact W.
  apply hp_wf_set_rows; [exact W | exact K | apply W].
Qed.

Lemma hp_mark_delete_ids lk h p s h' r tr :
  hp_mark_delete lk h p s = (h', r, tr) -> hp_ids (hp_chain h') = hp_ids (hp_chain h).
Proof.
  unfold hp_mark_delete. destruct (hp_find (hp_chain h) p) as [pg|];
    [|intros H; inversion H; subst; reflexivity].
  destruct (negb (lk p s)); [intros H; inversion H; subst; reflexivity|].
  destruct (astep (hp_rows pg) (PMark s)) as [a' o]. intros H; inversion H; subst.
  apply hp_ids_set_rows.
Qed.

Lemma hp_apply_delete_ids h p s h' r tr :
  hp_apply_delete h p s = (h', r, tr) -> hp_ids (hp_chain h') = hp_ids (hp_chain h).
Proof.
  unfold hp_apply_delete. destruct (hp_find (hp_chain h) p) as [pg|];
    [|intros H; inversion H; subst; reflexivity].
  destruct (astep (hp_rows pg) (PApply s)) as [a' o].
  destruct o; intros H; inversion H; subst; try reflexivity. apply hp_ids_set_rows.
Qed.

Lemma hp_fresh_ok_ids c c' ids : hp_ids c = hp_ids c' -> hp_fresh_ok c ids = hp_fresh_ok c' ids.
Proof. intros E. unfold hp_fresh_ok. rewrite E. reflexivity. Qed.

Lemma hp_update_move_wf lk h p s row rb ids tr0 h' r tr :
  hp_wf h -> hp_fresh_ok (hp_chain h) ids = true -> blen row <> 0 ->
  hp_update_move lk h p s row rb ids tr0 = (h', r, tr) -> hp_wf h'.
Proof.
  intros W Hf Hb. unfold hp_update_move.
  destruct (if rb then hp_apply_delete h p s else hp_mark_delete lk h p s)
    as [[h1 r1] tr1] eqn:D.
  assert (W1 : hp_wf h1 /\ hp_ids (hp_chain h1) = hp_ids (hp_chain h)).
  { destruct rb; split.
    - eapply hp_apply_delete_wf; eassumption.
    - eapply hp_apply_delete_ids; eassumption.
    - eapply hp_mark_delete_wf; eassumption.
    - eapply hp_mark_delete_ids; eassumption. }
  destruct W1 as [W1 E1].
  assert (Hins : forall h2 r2 tr2, hp_insert lk h1 row ids = (h2, r2, tr2) -> hp_wf h2).
  { intros h2 r2 tr2 Hi. eapply hp_insert_wf; [exact W1 | | exact Hb | exact Hi].
    rewrite (hp_fresh_ok_ids _ _ ids E1). exact Hf. }
  destruct r1 as [| [|] | | | | | | | | | |]; try (intros H; inversion H; subst; exact W1).
  - destruct (hp_insert lk h1 row ids) as [[h2 r2] tr2] eqn:Hi. intros H; inversion H; subst.
    exact (Hins _ _ _ eq_refl).
  - destruct (hp_insert lk h1 row ids) as [[h2 r2] tr2] eqn:Hi. intros H; inversion H; subst.
    exact (Hins _ _ _ eq_refl).
Qed.

Lemma hp_update_wf lk h p s row rb ids h' r tr :
  hp_wf h -> hp_fresh_ok (hp_chain h) ids = true ->
  hp_update lk h p s row rb ids = (h', r, tr) -> hp_wf h'.
Proof.
  intros W Hf. unfold hp_update. destruct (hp_find (hp_chain h) p) as [pg|] eqn:F;
    [|intros H; inversion H; subst; exact W].
  destruct (N.eqb_spec (blen row) 0) as [Hb|Hb]; [intros H; inversion H; subst; exact W|].
  destruct (negb (lk p s)); [intros H; inversion H; subst; exact W|].
  pose proof (hp_astep_page_ok _ (PUpdate s row false) (hp_wf_page_ok _ _ _ W F) I) as K.
  destruct (astep (hp_rows pg) (PUpdate s row false)) as [a' o]. cbn [fst] in K.
  destruct o; try (intros H; inversion H; subst; exact W);
    try (apply hp_update_move_wf; assumption).
  intros H; inversion H; subst. apply hp_wf_set_rows; [exact W | exact K | apply W].
Qed.

Lemma hp_step_wf V lk mine h o h' r tr :
  hp_wf h -> hp_op_ok h o = true -> hp_step V lk mine h o = (h', r, tr) -> hp_wf h'.
Proof.
  intros W Hok. destruct o; cbn [hp_step hp_op_ok] in *.
  - apply andb_true_iff in Hok. destruct Hok as [Hb Hf]. apply negb_true_iff, N.eqb_neq in Hb.
    eapply hp_insert_wf; eassumption.
  - eapply hp_mark_delete_wf; eassumption.
  - eapply hp_apply_delete_wf; eassumption.
  - eapply hp_rollback_delete_wf; eassumption.
  - apply andb_true_iff in Hok. destruct Hok as [_ Hf]. eapply hp_update_wf; eassumption.
  - destruct (hp_get_tuple lk mine h p s). intros H; inversion H; subst; exact W.
  - destruct (hp_get_first V lk mine h). intros H; inversion H; subst; exact W.
  - destruct (hp_next V lk mine h p s). intros H; inversion H; subst; exact W.
  - destruct (hp_scan V lk mine h). intros H; inversion H; subst; exact W.
Qed.

(** States reachable from a fresh heap by any operations with legal inputs
    (whatever the lock manager answers). *)
Inductive hp_reachable : hp_state -> Prop :=
| hp_reach_init first : hp_reachable (hp_init first)
| hp_reach_step st lk mine o :
    hp_reachable st -> hp_op_ok (hp_heap_of st) o = true ->
    hp_reachable (fst (fst (hp_exec hp_go lk mine st o))).

Lemma hp_init_wf first : hp_wf (hp_new_heap first).
Proof.
  unfold hp_wf, hp_new_heap. cbn. repeat split.
  - discriminate.
  - constructor; [intros [] | constructor].
  - left; reflexivity.
  - constructor; [apply hp_page_ok_nil | constructor].
Qed.

Lemma hp_reachable_wf st : hp_reachable st -> hp_wf (hp_heap_of st).
Proof.
  induction 1 as [first|st lk mine o _ IH Hok].
  - apply hp_init_wf.
  - unfold hp_exec. destruct (hp_step hp_go lk mine (hp_heap_of st) o) as [[h' r] tr] eqn:S.
    cbn [fst hp_heap_of]. eapply hp_step_wf; eassumption.
Qed.

(** * 4. The heap is a finite map rid -> (row, delete-marked) *)

Definition hp_map := N -> N -> option (list N * bool).
Definition hp_mupd (m : hp_map) (p s : N) (v : option (list N * bool)) : hp_map :=
  fun q t => if (q =? p) && (t =? s) then v else m q t.
Definition hp_mmark (m : hp_map) (p s : N) (mk : bool) : hp_map :=
  match m p s with Some (b, _) => hp_mupd m p s (Some (b, mk)) | None => m end.

(** the map operation an operation with a given result stands for *)
Definition hp_mstep (m : hp_map) (o : hp_op) (r : hp_res) : hp_map :=
  match o, r with
  | HInsert row _, HR_Inserted p s => hp_mupd m p s (Some (row, false))
  | HMarkDelete p s, HR_Bool true => hp_mmark m p s true
  | HApplyDelete p s, HR_Done => hp_mupd m p s None
  | HRollbackDelete p s, HR_Done => hp_mmark m p s false
  | HUpdate p s row _ _, HR_Updated true _ _ => hp_mupd m p s (Some (row, false))
  | HUpdate p s row rb _, HR_Updated false p' s' =>
      hp_mupd (if rb then hp_mupd m p s None else hp_mmark m p s true) p' s' (Some (row, false))
  | _, _ => m
  end.

Definition hp_upd_res_ok (lk : N -> N -> bool) (m : hp_map) (p s : N) (row : list N) (rb : bool)
  (r : hp_res) : Prop :=
  match r with
  | HR_Updated true p' s' =>
      p' = p /\ s' = s /\ exists old, m p s = Some (old, false) /\ blen old <= blen row
  | HR_Updated false p' s' =>
      (exists old, m p s = Some (old, false)) /\
      (if rb then hp_mupd m p s None else hp_mmark m p s true) p' s' = None
  | HR_Fail => lk p s = false \/ forall old, m p s <> Some (old, false)
  | _ => True
  end.

(** the result is the one the map dictates *)
Definition hp_res_ok (lk mine : N -> N -> bool) (m : hp_map) (o : hp_op) (r : hp_res) : Prop :=
  match o with
  | HInsert _ _ => forall p s, r = HR_Inserted p s -> m p s = None
  | HMarkDelete p s =>
      r = HR_Bool (lk p s && match m p s with Some (_, false) => true | _ => false end)
  | HApplyDelete p s | HRollbackDelete p s =>
      r = match m p s with Some _ => HR_Done | None => HR_Panic end
  | HUpdate p s row rb _ => hp_upd_res_ok lk m p s row rb r
  | HGetTuple p s =>
      if lk p s then
        match m p s with
        | Some (b, false) => r = HR_Row p s b
        | Some (_, true) => r = if mine p s then HR_SelfDeleted p s else HR_Err
        | None => forall q t b, r <> HR_Row q t b
        end
      else r = HR_Err
  | _ => True
  end.

Lemma hp_find_set_rows c p a q :
  hp_find (hp_set_rows c p a) q =
  if q =? p then match hp_find c p with Some _ => Some (mkHpPage p a) | None => None end
  else hp_find c q.
Proof.
  induction c as [|pg c IH]; cbn [hp_set_rows hp_find]; [destruct (q =? p); reflexivity|].
  destruct (N.eqb_spec (hp_pid pg) p) as [E|E]; cbn [hp_find hp_pid].
  - destruct (N.eqb_spec q p) as [Hq|Hq].
    + subst q. rewrite N.eqb_refl. reflexivity.
    + destruct (N.eqb_spec p q) as [Hq'|_]; [congruence|].
      destruct (N.eqb_spec (hp_pid pg) q) as [E'|_]; [congruence | reflexivity].
  - rewrite IH. destruct (N.eqb_spec (hp_pid pg) q) as [E'|E'].
    + destruct (N.eqb_spec q p) as [Hq|_]; [congruence | reflexivity].
    + reflexivity.
Qed.

Lemma hp_lookup_find c p pg t : hp_find c p = Some pg -> hp_lookup c p t = hp_entry (hp_rows pg) t.
Proof. unfold hp_lookup. intros ->. reflexivity. Qed.

Lemma hp_lookup_set_rows c p a pg : hp_find c p = Some pg -> forall q t,
  hp_lookup (hp_set_rows c p a) q t = if q =? p then hp_entry a t else hp_lookup c q t.
Proof.
  intros F q t. unfold hp_lookup. rewrite hp_find_set_rows, F. destruct (q =? p); reflexivity.
Qed.

Lemma hp_entry_upd a s e x : a_at a s = Some e -> forall t,
  hp_entry (set_nth a (N.to_nat s) x) t = if t =? s then x else hp_entry a t.
Proof.
  intros E t. unfold a_at in E. pose proof (nth_error_lt _ _ _ E) as L. unfold hp_entry, a_at.
  destruct (N.eqb_spec t s) as [->|Hne].
  - rewrite nth_error_set_nth_eq by lia. destruct x; reflexivity.
  - rewrite nth_error_set_nth_neq by lia. reflexivity.
Qed.

(** the same when the slot is the first free one (possibly one past the end) *)
Lemma hp_entry_ins a x : forall t,
  hp_entry (set_nth a (N.to_nat (a_first_free a 0)) x) t =
  if t =? a_first_free a 0 then x else hp_entry a t.
Proof.
  intros t. destruct (a_first_free_spec a 0) as (n & H1 & H2 & _). unfold hp_entry, a_at.
  destruct (N.eqb_spec t (a_first_free a 0)) as [->|Hne].
  - rewrite nth_error_set_nth_eq by lia. destruct x; reflexivity.
  - rewrite nth_error_set_nth_neq by lia. reflexivity.
Qed.

Lemma hp_entry_first_free a : hp_entry a (a_first_free a 0) = None.
Proof.
  destruct (a_first_free_spec a 0) as (n & H1 & _ & H3). unfold hp_entry, a_at. rewrite H1.
  replace (N.to_nat (0 + N.of_nat n)) with n by lia. destruct H3 as [-> | ->]; reflexivity.
Qed.

Ltac hp_map_solve p s F :=
  let q := fresh "q" in let t := fresh "t" in
  intros q t; unfold hp_mupd;
  destruct (N.eqb_spec q p) as [->|?]; cbn [andb]; [|reflexivity];
  destruct (N.eqb_spec t s) as [->|?]; try reflexivity;
  rewrite (hp_lookup_find _ _ _ _ F); reflexivity.

Lemma hp_mark_delete_map lk h p s h' r tr : hp_mark_delete lk h p s = (h', r, tr) ->
  (forall q t, hp_lookup (hp_chain h') q t = hp_mstep (hp_lookup (hp_chain h)) (HMarkDelete p s) r q t) /\
  hp_res_ok lk lk (hp_lookup (hp_chain h)) (HMarkDelete p s) r.
Proof.
  unfold hp_mark_delete, hp_res_ok. destruct (hp_find (hp_chain h) p) as [pg|] eqn:F.
  2:{ intros H; inversion H; subst. split; [reflexivity|].
      unfold hp_lookup. rewrite F. rewrite andb_false_r. reflexivity. }
  destruct (lk p s) eqn:L; cbn [negb andb].
  2:{ intros H; inversion H; subst. split; reflexivity. }
  rewrite (hp_lookup_find _ _ _ s F). cbn [astep]. unfold hp_entry.
  destruct (a_at (hp_rows pg) s) as [[[b [|]]|]|] eqn:E; intros H; inversion H; subst;
    cbn [hp_chain hp_mstep]; (split; [|reflexivity]).
  1,3,4: intros q t; rewrite (hp_lookup_set_rows _ _ _ _ F);
         destruct (N.eqb_spec q p) as [->|?]; [rewrite (hp_lookup_find _ _ _ t F)|]; reflexivity.
  unfold hp_mmark. rewrite (hp_lookup_find _ _ _ s F). unfold hp_entry at 1. rewrite E.
  intros q t. rewrite (hp_lookup_set_rows _ _ _ _ F), (hp_entry_upd _ _ _ _ E).
  revert q t. hp_map_solve p s F.
Qed.

Lemma hp_apply_delete_map lk h p s h' r tr : hp_apply_delete h p s = (h', r, tr) ->
  (r = HR_Done ->
   forall q t, hp_lookup (hp_chain h') q t = hp_mupd (hp_lookup (hp_chain h)) p s None q t) /\
  hp_res_ok lk lk (hp_lookup (hp_chain h)) (HApplyDelete p s) r.
Proof.
  unfold hp_apply_delete, hp_res_ok. destruct (hp_find (hp_chain h) p) as [pg|] eqn:F.
  2:{ intros H; inversion H; subst. split; [discriminate|]. unfold hp_lookup. rewrite F. reflexivity. }
  rewrite (hp_lookup_find _ _ _ s F). cbn [astep]. unfold hp_entry.
  destruct (a_at (hp_rows pg) s) as [[e|]|] eqn:E; intros H; inversion H; subst;
    (split; [|reflexivity]); try discriminate.
  intros _ q t. cbn [hp_chain]. rewrite (hp_lookup_set_rows _ _ _ _ F), (hp_entry_upd _ _ _ _ E).
  revert q t. hp_map_solve p s F.
Qed.

Lemma hp_rollback_delete_map lk h p s h' r tr : hp_rollback_delete h p s = (h', r, tr) ->
  (r = HR_Done ->
   forall q t, hp_lookup (hp_chain h') q t = hp_mmark (hp_lookup (hp_chain h)) p s false q t) /\
  hp_res_ok lk lk (hp_lookup (hp_chain h)) (HRollbackDelete p s) r.
Proof.
  unfold hp_rollback_delete, hp_res_ok. destruct (hp_find (hp_chain h) p) as [pg|] eqn:F.
  2:{ intros H; inversion H; subst. split; [discriminate|]. unfold hp_lookup. rewrite F. reflexivity. }
  unfold hp_mmark. rewrite (hp_lookup_find _ _ _ s F). cbn [astep]. unfold hp_entry.
  destruct (a_at (hp_rows pg) s) as [[[b m]|]|] eqn:E; intros H; inversion H; subst;
    (split; [|reflexivity]); try discriminate.
  intros _ q t. cbn [hp_chain]. rewrite (hp_lookup_set_rows _ _ _ _ F), (hp_entry_upd _ _ _ _ E).
  revert q t. hp_map_solve p s F.
Qed.

(** insert *)

Lemma hp_set_rows_mid A pg B a' : ~ In (hp_pid pg) (hp_ids A) ->
  hp_set_rows (A ++ pg :: B) (hp_pid pg) a' = A ++ mkHpPage (hp_pid pg) a' :: B.
Proof.
  induction A as [|x A IH]; cbn [app hp_set_rows hp_ids map In]; intros H.
  - rewrite N.eqb_refl. reflexivity.
  - destruct (N.eqb_spec (hp_pid x) (hp_pid pg)) as [E|E]; [exfalso; apply H; left; exact E|].
    f_equal. apply IH. intros Hin. apply H. right. exact Hin.
Qed.

Lemma hp_find_mid A pg B : ~ In (hp_pid pg) (hp_ids A) -> hp_find (A ++ pg :: B) (hp_pid pg) = Some pg.
Proof.
  induction A as [|x A IH]; cbn [app hp_find hp_ids map In]; intros H.
  - rewrite N.eqb_refl. reflexivity.
  - destruct (N.eqb_spec (hp_pid x) (hp_pid pg)) as [E|E]; [exfalso; apply H; left; exact E|].
    apply IH. intros Hin. apply H. right. exact Hin.
Qed.

Lemma hp_lookup_fresh c l q t : hp_lookup (c ++ map hp_fresh l) q t = hp_lookup c q t.
Proof.
  unfold hp_lookup. induction c as [|x c IH]; cbn [app hp_find].
  - induction l as [|n l IHl]; cbn [map hp_find]; [reflexivity|].
    cbn [hp_fresh hp_pid]. destruct (n =? q); [|exact IHl].
    cbn [hp_rows]. unfold hp_entry, a_at. destruct (N.to_nat t); reflexivity.
  - destruct (hp_pid x =? q); [reflexivity | exact IH].
Qed.

Lemma hp_accepts_entry lk row pg s a' : hp_accepts lk row pg = Some (s, a') ->
  hp_entry (hp_rows pg) s = None /\ lk (hp_pid pg) s = true /\
  forall t, hp_entry a' t = if t =? s then Some (row, false) else hp_entry (hp_rows pg) t.
Proof.
  unfold hp_accepts. cbn [astep]. destruct (blen row =? 0); [discriminate|].
  destruct (a_free (hp_rows pg) <? blen row + size_tuple); [discriminate|].
  destruct (lk (hp_pid pg) (a_first_free (hp_rows pg) 0)) eqn:L; [|discriminate].
  intros H; inversion H; subst. split; [apply hp_entry_first_free|]. split; [exact L|].
  apply hp_entry_ins.
Qed.

Lemma hp_insert_map lk h row ids h' r tr :
  hp_wf h -> hp_fresh_ok (hp_chain h) ids = true -> blen row <> 0 ->
  hp_insert lk h row ids = (h', r, tr) -> forall p s, r = HR_Inserted p s ->
  hp_lookup (hp_chain h) p s = None /\ lk p s = true /\ hp_hint h' = p /\
  forall q t, hp_lookup (hp_chain h') q t = hp_mupd (hp_lookup (hp_chain h)) p s (Some (row, false)) q t.
Proof.
  intros W Hf Hb. unfold hp_insert.
  destruct (hp_split (hp_chain h) (hp_hint h)) as [[[pre cur] rest]|] eqn:S;
    [|intros H; inversion H; subst; discriminate].
  destruct (hp_ins_walk lk row cur rest ids) as [[pgs r0] tr0] eqn:Wk.
  intros H p s Hr; inversion H; subst. clear H.
  destruct (hp_split_spec _ _ _ _ _ S) as (Ec & _ & _).
  destruct (hp_ins_walk_spec lk row ids Hb _ _ _ _ _ Wk) as (k & P & _).
  destruct P as [(A & pg & B & s0 & a' & E1 & E2 & _ & E4 & E5)|(_ & _ & E3)]; [|discriminate].
  inversion E5; subst p s pgs. clear E5.
  destruct W as (_ & W2 & _ & _).
  pose proof (hp_nodup_extend _ ids k W2 Hf) as ND.
  assert (Ech : hp_chain h ++ map hp_fresh (firstn k ids) = (pre ++ A) ++ pg :: B).
  { rewrite Ec. rewrite <- !app_assoc. cbn [app]. f_equal.
    exact E1. }
  assert (Hni : ~ In (hp_pid pg) (hp_ids (pre ++ A))).
  { rewrite Ech in ND. unfold hp_ids in ND. rewrite map_app in ND. cbn [map] in ND.
    apply NoDup_remove_2 in ND. intros Hin. apply ND. apply in_or_app. left. exact Hin. }
  pose proof (hp_find_mid _ _ B Hni) as Fm. rewrite <- Ech in Fm.
  destruct (hp_accepts_entry _ _ _ _ _ E2) as (En & Lk & Eu).
  assert (Lold : forall t, hp_lookup (hp_chain h) (hp_pid pg) t = hp_entry (hp_rows pg) t).
  { intros t. rewrite <- (hp_lookup_fresh _ (firstn k ids)). apply hp_lookup_find. exact Fm. }
  cbn [hp_chain hp_hint]. split; [rewrite Lold; exact En|]. split; [exact Lk|]. split; [reflexivity|].
  intros q t. rewrite app_assoc. rewrite <- (hp_set_rows_mid _ _ _ _ Hni). rewrite <- Ech.
  rewrite (hp_lookup_set_rows _ _ _ _ Fm). rewrite hp_lookup_fresh, Eu. unfold hp_mupd.
  destruct (N.eqb_spec q (hp_pid pg)) as [->|?]; cbn [andb]; [|reflexivity].
  destruct (t =? s0); [reflexivity|]. symmetry. apply Lold.
Qed.

Lemma hp_mupd_ext (m m' : hp_map) p s v q t :
  (forall q t, m q t = m' q t) -> hp_mupd m p s v q t = hp_mupd m' p s v q t.
Proof. intros H. unfold hp_mupd. destruct ((q =? p) && (t =? s)); [reflexivity | apply H]. Qed.

Lemma hp_insert_res lk h row ids h' r tr : blen row <> 0 ->
  hp_insert lk h row ids = (h', r, tr) ->
  (exists p s, r = HR_Inserted p s) \/ r = HR_NoNewPage \/ r = HR_Panic.
Proof.
  intros Hb. unfold hp_insert.
  destruct (hp_split (hp_chain h) (hp_hint h)) as [[[pre cur] rest]|];
    [|intros H; inversion H; subst; right; right; reflexivity].
  destruct (hp_ins_walk lk row cur rest ids) as [[pgs r0] tr0] eqn:Wk.
  intros H; inversion H; subst.
  destruct (hp_ins_walk_spec lk row ids Hb _ _ _ _ _ Wk) as (k & P & _).
  destruct P as [(A & pg & B & s0 & a' & _ & _ & _ & _ & E5)|(_ & _ & E3)]; eauto.
Qed.

Lemma hp_insert_no_panic lk h row ids h' r tr : hp_wf h -> blen row <> 0 ->
  hp_insert lk h row ids = (h', r, tr) -> r <> HR_Panic.
Proof.
  intros W Hb. unfold hp_insert. destruct W as (_ & _ & W3 & _).
  destruct (hp_find_split _ _ W3) as (pre & cur & rest & S). rewrite S.
  destruct (hp_ins_walk lk row cur rest ids) as [[pgs r0] tr0] eqn:Wk.
  intros H; inversion H; subst.
  destruct (hp_ins_walk_spec lk row ids Hb _ _ _ _ _ Wk) as (k & P & _).
  destruct P as [(A & pg & B & s0 & a' & _ & _ & _ & _ & ->)|(_ & _ & ->)]; discriminate.
Qed.

Lemma hp_update_move_map lk h p s row rb ids tr0 old h' r tr :
  hp_wf h -> hp_fresh_ok (hp_chain h) ids = true -> blen row <> 0 ->
  lk p s = true -> hp_lookup (hp_chain h) p s = Some (old, false) ->
  hp_update_move lk h p s row rb ids tr0 = (h', r, tr) ->
  r <> HR_NoNewPage ->
  let m1 := if rb then hp_mupd (hp_lookup (hp_chain h)) p s None
            else hp_mmark (hp_lookup (hp_chain h)) p s true in
  exists p' s', r = HR_Updated false p' s' /\ m1 p' s' = None /\
    forall q t, hp_lookup (hp_chain h') q t = hp_mupd m1 p' s' (Some (row, false)) q t.
Proof.
  intros W Hf Hb L E. unfold hp_update_move.
  destruct (if rb then hp_apply_delete h p s else hp_mark_delete lk h p s)
    as [[h1 r1] tr1] eqn:D.
  assert (K : hp_wf h1 /\ hp_ids (hp_chain h1) = hp_ids (hp_chain h) /\
              (r1 = HR_Done \/ r1 = HR_Bool true) /\
              forall q t, hp_lookup (hp_chain h1) q t =
                (if rb then hp_mupd (hp_lookup (hp_chain h)) p s None
                 else hp_mmark (hp_lookup (hp_chain h)) p s true) q t).
  { destruct rb.
    - split; [eapply hp_apply_delete_wf; eassumption|].
      split; [eapply hp_apply_delete_ids; eassumption|].
      destruct (hp_apply_delete_map lk _ _ _ _ _ _ D) as [M R]. unfold hp_res_ok in R.
      rewrite E in R. split; [left; exact R | exact (M R)].
    - split; [eapply hp_mark_delete_wf; eassumption|].
      split; [eapply hp_mark_delete_ids; eassumption|].
      destruct (hp_mark_delete_map _ _ _ _ _ _ _ D) as [M R]. unfold hp_res_ok in R.
      rewrite E, L in R. cbn [andb] in R. split; [right; exact R|].
      subst r1. exact M. }
  destruct K as (W1 & E1 & R1 & M1).
  assert (Hins : forall h2 r2 tr2, hp_insert lk h1 row ids = (h2, r2, tr2) ->
    (h2, match r2 with HR_Inserted p' s' => HR_Updated false p' s' | _ => r2 end,
     tr0 ++ tr1 ++ tr2) = (h', r, tr) -> r <> HR_NoNewPage ->
    exists p' s', r = HR_Updated false p' s' /\
      (if rb then hp_mupd (hp_lookup (hp_chain h)) p s None
       else hp_mmark (hp_lookup (hp_chain h)) p s true) p' s' = None /\
      forall q t, hp_lookup (hp_chain h') q t =
        hp_mupd (if rb then hp_mupd (hp_lookup (hp_chain h)) p s None
                 else hp_mmark (hp_lookup (hp_chain h)) p s true) p' s' (Some (row, false)) q t).
  { intros h2 r2 tr2 Hi H Hn. inversion H; subst. clear H.
    assert (Hf1 : hp_fresh_ok (hp_chain h1) ids = true)
      by (rewrite (hp_fresh_ok_ids _ _ ids E1); exact Hf).
    pose proof (hp_insert_no_panic _ _ _ _ _ _ _ W1 Hb Hi) as Hnp.
    destruct (hp_insert_res _ _ _ _ _ _ _ Hb Hi) as [(p' & s' & ->)|[->| ->]]; try congruence.
    destruct (hp_insert_map _ _ _ _ _ _ _ W1 Hf1 Hb Hi p' s' eq_refl) as (N1 & _ & _ & U).
    exists p', s'. split; [reflexivity|]. split; [rewrite <- M1; exact N1|].
    intros q t. rewrite U. apply hp_mupd_ext. exact M1. }
  destruct R1 as [-> | ->].
  - destruct (hp_insert lk h1 row ids) as [[h2 r2] tr2] eqn:Hi. intros H Hn.
    exact (Hins _ _ _ eq_refl H Hn).
  - destruct (hp_insert lk h1 row ids) as [[h2 r2] tr2] eqn:Hi. intros H Hn.
    exact (Hins _ _ _ eq_refl H Hn).
Qed.

Lemma hp_update_map lk h p s row rb ids h' r tr :
  hp_wf h -> hp_fresh_ok (hp_chain h) ids = true -> blen row <> 0 ->
  hp_update lk h p s row rb ids = (h', r, tr) -> r <> HR_NoNewPage ->
  (forall q t, hp_lookup (hp_chain h') q t =
               hp_mstep (hp_lookup (hp_chain h)) (HUpdate p s row rb ids) r q t) /\
  hp_res_ok lk lk (hp_lookup (hp_chain h)) (HUpdate p s row rb ids) r /\
  r <> HR_Panic.
Proof.
  intros W Hf Hb. unfold hp_update, hp_res_ok.
  destruct (hp_find (hp_chain h) p) as [pg|] eqn:F.
  2:{ intros H _; inversion H; subst. split; [reflexivity|]. split; [|discriminate]. right. intros old.
      unfold hp_lookup. rewrite F. discriminate. }
  pose proof Hb as Hb'. apply N.eqb_neq in Hb'. rewrite Hb'.
  destruct (lk p s) eqn:L; cbn [negb].
  2:{ intros H _; inversion H; subst. split; [reflexivity|]. split; [left; exact L | discriminate]. }
  assert (Hfail : forall trx, (forall old, hp_entry (hp_rows pg) s <> Some (old, false)) ->
    (h, HR_Fail, trx) = (h', r, tr) ->
    (forall q t, hp_lookup (hp_chain h') q t =
                 hp_mstep (hp_lookup (hp_chain h)) (HUpdate p s row rb ids) r q t) /\
    hp_upd_res_ok lk (hp_lookup (hp_chain h)) p s row rb r /\ r <> HR_Panic).
  { intros trx Hne H; inversion H; subst. split; [reflexivity|]. split; [|discriminate]. right.
    intros old. rewrite (hp_lookup_find _ _ _ s F). apply Hne. }
  cbn [astep]. rewrite Hb'.
  destruct (a_at (hp_rows pg) s) as [[[old [|]]|]|] eqn:E.
  1,3,4: intros H _; eapply Hfail; [|exact H]; intros old'; unfold hp_entry; rewrite E; discriminate.
  assert (Eo : hp_lookup (hp_chain h) p s = Some (old, false)).
  { rewrite (hp_lookup_find _ _ _ s F). unfold hp_entry. rewrite E. reflexivity. }
  assert (Hmove : forall tr0, hp_update_move lk h p s row rb ids tr0 = (h', r, tr) ->
    r <> HR_NoNewPage ->
    (forall q t, hp_lookup (hp_chain h') q t =
                 hp_mstep (hp_lookup (hp_chain h)) (HUpdate p s row rb ids) r q t) /\
    hp_upd_res_ok lk (hp_lookup (hp_chain h)) p s row rb r /\ r <> HR_Panic).
  { intros tr0 H Hn.
    destruct (hp_update_move_map _ _ _ _ _ _ _ _ _ _ _ _ W Hf Hb L Eo H Hn)
      as (p' & s' & -> & N1 & U).
    split; [exact U|]. split; [|discriminate]. cbn [hp_upd_res_ok]. split; [eauto | exact N1]. }
  destruct (a_free (hp_rows pg) + blen old <? blen row); [apply Hmove|].
  destruct (N.ltb_spec (blen row) (blen old)) as [Hlt|Hge]; cbn [andb negb]; [apply Hmove|].
  intros H _; inversion H; subst. cbn [hp_chain hp_mstep]. split; [|split; [|discriminate]].
  - intros q t. rewrite (hp_lookup_set_rows _ _ _ _ F), (hp_entry_upd _ _ _ _ E).
    revert q t. hp_map_solve p s F.
  - cbn [hp_upd_res_ok]. split; [reflexivity|]. split; [reflexivity|]. exists old. split; [exact Eo | exact Hge].
Qed.

Lemma hp_get_tuple_ok lk mine h p s r tr : hp_get_tuple lk mine h p s = (r, tr) ->
  r <> HR_Panic -> hp_res_ok lk mine (hp_lookup (hp_chain h)) (HGetTuple p s) r.
Proof.
  unfold hp_get_tuple, hp_res_ok. destruct (lk p s); cbn [negb];
    [|intros H; inversion H; subst; reflexivity].
  destruct (hp_find (hp_chain h) p) as [pg|] eqn:F; [|intros H Hp; inversion H; subst; congruence].
  rewrite (hp_lookup_find _ _ _ s F). unfold hp_page_get, hp_entry. cbn [astep].
  destruct (a_at (hp_rows pg) s) as [[[b [|]]|]|]; cbn [snd]; intros H _; inversion H; subst;
    try reflexivity; intros q t b'; try discriminate; destruct (mine p s); discriminate.
Qed.

(** Each operation updates the map as the corresponding map operation, and
    returns what the map dictates. *)
Lemma hp_step_refines V lk mine h o h' r tr :
  hp_wf h -> hp_op_ok h o = true -> hp_step V lk mine h o = (h', r, tr) ->
  r <> HR_Panic -> r <> HR_NoNewPage ->
  (forall q t, hp_lookup (hp_chain h') q t = hp_mstep (hp_lookup (hp_chain h)) o r q t) /\
  hp_res_ok lk mine (hp_lookup (hp_chain h)) o r.
Proof.
  intros W Hok. destruct o; cbn [hp_step hp_op_ok] in *; intros H Hp Hn.
  - apply andb_true_iff in Hok. destruct Hok as [Hb Hf]. apply negb_true_iff, N.eqb_neq in Hb.
    destruct (hp_insert_res _ _ _ _ _ _ _ Hb H) as [(p & s & ->)|[->| ->]]; try congruence.
    destruct (hp_insert_map _ _ _ _ _ _ _ W Hf Hb H p s eq_refl) as (N1 & _ & _ & U).
    split; [exact U|]. cbn [hp_res_ok]. intros p' s' E. inversion E; subst. exact N1.
  - exact (hp_mark_delete_map _ _ _ _ _ _ _ H).
  - destruct (hp_apply_delete_map lk _ _ _ _ _ _ H) as [M R]. split; [|exact R].
    cbn [hp_res_ok] in R. destruct (hp_lookup (hp_chain h) p s); [|congruence].
    subst r. exact (M eq_refl).
  - destruct (hp_rollback_delete_map lk _ _ _ _ _ _ H) as [M R]. split; [|exact R].
    cbn [hp_res_ok] in R. destruct (hp_lookup (hp_chain h) p s); [|congruence].
    subst r. exact (M eq_refl).
  - apply andb_true_iff in Hok. destruct Hok as [Hb Hf]. apply negb_true_iff, N.eqb_neq in Hb.
    destruct (hp_update_map _ _ _ _ _ _ _ _ _ _ W Hf Hb H Hn) as (M & R & _). split; assumption.
  - destruct (hp_get_tuple lk mine h p s) as [r0 tr0] eqn:G. inversion H; subst.
    split; [reflexivity|]. eapply hp_get_tuple_ok; eassumption.
  - destruct (hp_get_first V lk mine h). inversion H; subst. split; reflexivity.
  - destruct (hp_next V lk mine h p s). inversion H; subst. split; reflexivity.
  - destruct (hp_scan V lk mine h). inversion H; subst. split; reflexivity.
Qed.

(** * 5. Where an insert goes, and the hint *)

Section Placement.
  Variable lk : N -> N -> bool.

  Lemma hp_place_app row A pg B s a' :
    Forall (hp_rejects lk row) A -> hp_accepts lk row pg = Some (s, a') ->
    hp_place lk row (A ++ pg :: B) = Some (hp_pid pg, s).
  Proof.
    intros HA Hpg. induction HA as [|x A Hx _ IH]; cbn [app hp_place].
    - rewrite Hpg. reflexivity.
    - unfold hp_rejects in Hx. rewrite Hx. exact IH.
  Qed.

  Lemma hp_place_none row C : Forall (hp_rejects lk row) C -> hp_place lk row C = None.
  Proof.
    induction 1 as [|x C Hx _ IH]; cbn [hp_place]; [reflexivity|].
    unfold hp_rejects in Hx. rewrite Hx. exact IH.
  Qed.

  Lemma hp_place_some_app row C D x : hp_place lk row C = Some x -> hp_place lk row (C ++ D) = Some x.
  Proof.
    induction C as [|pg C IH]; cbn [app hp_place]; [discriminate|].
    destruct (hp_accepts lk row pg) as [[s a']|]; [trivial | exact IH].
  Qed.

  Lemma hp_place_upto row A pg B s a' : hp_accepts lk row pg = Some (s, a') ->
    exists p2 s2, hp_place lk row (A ++ pg :: B) = Some (p2, s2) /\ In p2 (hp_ids (A ++ [pg])).
  Proof.
    intros Hpg. induction A as [|x A IH]; cbn [app hp_place].
    - rewrite Hpg. exists (hp_pid pg), s. split; [reflexivity | left; reflexivity].
    - destruct (hp_accepts lk row x) as [[s1 a1]|].
      + exists (hp_pid x), s1. split; [reflexivity | left; reflexivity].
      + destruct IH as (p2 & s2 & E & Hin). exists p2, s2. split; [exact E | right; exact Hin].
  Qed.

  (** The row goes to the first page, from the hint page on in chain order,
      that has room for it (and whose slot lock is granted); only when there
      is none, to a new last page. *)
  Lemma hp_insert_placement h row ids h' r tr pre cur rest :
    blen row <> 0 -> hp_split (hp_chain h) (hp_hint h) = Some (pre, cur, rest) ->
    hp_insert lk h row ids = (h', r, tr) ->
    r = match hp_place lk row (cur :: rest ++ map hp_fresh ids) with
        | Some (p, s) => HR_Inserted p s
        | None => HR_NoNewPage
        end.
  Proof.
    intros Hb S. unfold hp_insert. rewrite S.
    destruct (hp_ins_walk lk row cur rest ids) as [[pgs r0] tr0] eqn:Wk.
    intros H; inversion H; subst. clear H.
    destruct (hp_ins_walk_spec lk row ids Hb _ _ _ _ _ Wk) as (k & P & Q).
    assert (Ec : cur :: rest ++ map hp_fresh ids =
                 (cur :: rest ++ map hp_fresh (firstn k ids)) ++ map hp_fresh (skipn k ids)).
    { rewrite <- (firstn_skipn k ids) at 1. rewrite map_app. cbn [app]. rewrite app_assoc. reflexivity. }
    destruct P as [(A & pg & B & s0 & a' & E1 & E2 & E3 & _ & E5)|(E1 & _ & E3)].
    - rewrite Ec, E1, <- app_assoc. cbn [app]. rewrite (hp_place_app _ _ _ _ _ _ E3 E2). exact E5.
    - rewrite (Q E3) in E1. rewrite (hp_place_none _ _ E1). exact E3.
  Qed.

  Lemma hp_ins_walk_no_new row ids : blen row <> 0 -> forall rest cur x pgs r tr,
    hp_place lk row (cur :: rest) = Some x ->
    hp_ins_walk lk row cur rest ids = (pgs, r, tr) -> hp_ids pgs = hp_ids (cur :: rest).
  Proof.
    intros Hb. induction rest as [|nx rest IH]; intros cur x pgs r tr Hpl H;
      cbn [hp_ins_walk] in H; cbn [hp_place] in Hpl.
    - destruct ids as [|n ids']; cbn [hp_ins_fresh] in H;
        destruct (hp_page_insert lk (hp_pid cur) (hp_rows cur) row) as [t tr0] eqn:E;
        pose proof (hp_page_insert_accepts _ _ _ _ _ Hb E) as A0; destruct t; try contradiction;
        try (inversion H; subst; reflexivity);
        unfold hp_rejects in A0; rewrite A0 in Hpl; discriminate.
    - destruct (hp_page_insert lk (hp_pid cur) (hp_rows cur) row) as [t tr0] eqn:E.
      pose proof (hp_page_insert_accepts _ _ _ _ _ Hb E) as A0. destruct t; try contradiction.
      + inversion H; subst. reflexivity.
      + unfold hp_rejects in A0. rewrite A0 in Hpl.
        destruct (hp_ins_walk lk row nx rest ids) as [[pgs' r'] tr'] eqn:F.
        inversion H; subst. cbn [hp_ids map]. f_equal. exact (IH _ _ _ _ _ Hpl F).
  Qed.

  Lemma hp_accepts_iff row pg :
    hp_accepts lk row pg =
    if (blen row =? 0) || (a_free (hp_rows pg) <? blen row + size_tuple)
       || negb (lk (hp_pid pg) (a_first_free (hp_rows pg) 0))
    then None
    else Some (a_first_free (hp_rows pg) 0,
               set_nth (hp_rows pg) (N.to_nat (a_first_free (hp_rows pg) 0)) (Some (row, false))).
  Proof.
    unfold hp_accepts. cbn [astep]. destruct (blen row =? 0); [reflexivity|].
    destruct (a_free (hp_rows pg) <? blen row + size_tuple); [reflexivity|]. cbn [orb].
    destruct (lk (hp_pid pg) (a_first_free (hp_rows pg) 0)); reflexivity.
  Qed.

  (** ApplyDelete resets the hint to the first page, the page of the deleted
      row gains exactly the bytes of the row, and the next insert that this
      page can take lands on it or on an earlier page: no new page, no page
      behind it. *)
  Lemma hp_insert_after_apply_delete h p s b mk :
    hp_wf h -> hp_lookup (hp_chain h) p s = Some (b, mk) ->
    exists h1 tr1 pg pg1 A B,
      hp_apply_delete h p s = (h1, HR_Done, tr1) /\ hp_hint h1 = hp_first h /\ hp_wf h1 /\
      hp_find (hp_chain h) p = Some pg /\ hp_chain h1 = A ++ pg1 :: B /\ hp_pid pg1 = p /\
      a_free (hp_rows pg1) = a_free (hp_rows pg) + blen b /\
      forall row ids s' a' h2 r2 tr2,
        blen row <> 0 -> hp_accepts lk row pg1 = Some (s', a') ->
        hp_insert lk h1 row ids = (h2, r2, tr2) ->
        exists p2 s2, r2 = HR_Inserted p2 s2 /\ In p2 (hp_ids (A ++ [pg1])) /\
                      hp_ids (hp_chain h2) = hp_ids (hp_chain h1).
  Proof.
    intros W L. unfold hp_lookup in L.
    destruct (hp_find (hp_chain h) p) as [pg|] eqn:F; [|discriminate].
    unfold hp_entry in L. destruct (a_at (hp_rows pg) s) as [[e|]|] eqn:E; try discriminate.
    inversion L; subst e. clear L.
    destruct (hp_apply_delete h p s) as [[h1 r1] tr1] eqn:D.
    pose proof (hp_apply_delete_wf _ _ _ _ _ _ W D) as W1.
    unfold hp_apply_delete in D. rewrite F in D. cbn [astep] in D. rewrite E in D.
    inversion D; subst h1 r1 tr1. clear D.
    destruct (hp_find_in _ _ _ F) as [_ Epid].
    assert (Hin : In p (hp_ids (hp_chain h))).
    { destruct (hp_find_in _ _ _ F) as [Hi <-]. unfold hp_ids. apply in_map. exact Hi. }
    destruct (hp_find_split _ _ Hin) as (A & x & B & S).
    destruct (hp_split_spec _ _ _ _ _ S) as (Ec & Ex & HA).
    assert (x = pg).
    { rewrite Ec in F. rewrite <- Ex in F, HA. rewrite (hp_find_mid _ _ _ HA) in F. congruence. }
    subst x.
    set (a' := set_nth (hp_rows pg) (N.to_nat s) None).
    exists (mkHp (hp_set_rows (hp_chain h) p a') (hp_first h)), 
           [HFetch p; HPage p (PApply s) ODone; HHint (hp_first h); HUnpin p true],
           pg, (mkHpPage p a'), A, B.
    split; [reflexivity|]. split; [reflexivity|]. split; [exact W1|]. split; [reflexivity|].
    assert (Ech : hp_set_rows (hp_chain h) p a' = A ++ mkHpPage p a' :: B).
    { rewrite Ec. rewrite <- Epid in *. apply hp_set_rows_mid. exact HA. }
    cbn [hp_chain]. split; [exact Ech|]. split; [reflexivity|].
    pose proof (hp_wf_page_ok _ _ _ W F) as Ok.
    assert (Ok' : hp_page_ok a').
    { pose proof (hp_astep_page_ok _ (PApply s) Ok I) as K. cbn [astep] in K. rewrite E in K. exact K. }
    split.
    { cbn [hp_rows]. pose proof (hp_a_free_ok _ Ok) as F1. pose proof (hp_a_free_ok _ Ok') as F2.
      unfold a_at in E. pose proof (a_used_set_nth _ _ _ None E) as U. fold a' in U.
      cbn [aweight] in U. unfold a' in F2 at 2.
      rewrite set_nth_length in F2 by (eapply nth_error_lt; eassumption). fold a' in F2. lia. }
    intros row ids s' a2 h2 r2 tr2 Hb Hacc Hi.
    destruct (hp_place_upto row A (mkHpPage p a') B _ _ Hacc) as (p2 & s2 & Hpl & Hin2).
    (* the search starts at the head of the chain *)
    assert (Hsp : exists cur rest, hp_set_rows (hp_chain h) p a' = cur :: rest /\
              hp_split (hp_set_rows (hp_chain h) p a') (hp_first h) = Some ([], cur, rest)).
    { unfold hp_first. destruct W as (W0 & _). destruct (hp_chain h) as [|x c] eqn:Eh; [congruence|].
      cbn [hp_set_rows]. destruct (hp_pid x =? p) eqn:Q.
      - exists (mkHpPage p a'), c. split; [reflexivity|]. cbn [hp_split hp_pid].
        apply N.eqb_eq in Q. rewrite Q, N.eqb_refl. reflexivity.
      - exists x, (hp_set_rows c p a'). split; [reflexivity|]. cbn [hp_split].
        rewrite N.eqb_refl. reflexivity. }
    destruct Hsp as (cur & rest & Ecr & Ssp).
    pose proof (hp_insert_placement
                  (mkHp (hp_set_rows (hp_chain h) p a') (hp_first h)) row ids h2 r2 tr2 [] cur rest
                  Hb Ssp Hi) as Pl.
    rewrite Ech in Ecr. rewrite Ecr in Hpl.
    change (cur :: rest ++ map hp_fresh ids) with ((cur :: rest) ++ map hp_fresh ids) in Pl.
    rewrite (hp_place_some_app _ _ _ _ Hpl) in Pl.
    exists p2, s2. split; [exact Pl|]. split; [exact Hin2|].
    unfold hp_insert in Hi. cbn [hp_chain hp_hint] in Hi. rewrite Ssp in Hi.
    destruct (hp_ins_walk lk row cur rest ids) as [[pgs r0] tr0] eqn:Wk.
    inversion Hi; subst. cbn [hp_chain app].
    rewrite (hp_ins_walk_no_new row ids Hb _ _ _ _ _ _ Hpl Wk). rewrite Ech, Ecr. reflexivity.
  Qed.
End Placement.

(** * 6. The sequential scan *)

Lemma hp_app_split_r {A} (P Q X Y : list A) e : P ++ Q = X ++ e :: Y -> ~ In e Q ->
  exists Y1, P = X ++ e :: Y1 /\ Y = Y1 ++ Q.
Proof.
  revert X. induction P as [|a P IH]; intros X H Hn; cbn [app] in H.
  - exfalso. apply Hn. rewrite H. apply in_or_app. right. left. reflexivity.
  - destruct X as [|x X]; cbn [app] in H; inversion H; subst.
    + exists P. split; reflexivity.
    + destruct (IH _ H2 Hn) as (Y1 & E1 & E2). exists Y1. subst. split; reflexivity.
Qed.

Lemma hp_app_split_l {A} (P Q X Y : list A) e : P ++ Q = X ++ e :: Y -> ~ In e P ->
  exists X1, X = P ++ X1 /\ Q = X1 ++ e :: Y.
Proof.
  revert X. induction P as [|a P IH]; intros X H Hn; cbn [app] in H.
  - exists X. split; [reflexivity | exact H].
  - destruct X as [|x X]; cbn [app] in H; inversion H; subst.
    + exfalso. apply Hn. left. reflexivity.
    + destruct (IH _ H2) as (X1 & E1 & E2); [intros Hin; apply Hn; right; exact Hin|].
      exists X1. subst. split; reflexivity.
Qed.

Lemma hp_filter_all {A} (f : A -> bool) l : (forall x, In x l -> f x = true) -> filter f l = l.
Proof.
  induction l as [|x l IH]; intros H; cbn [filter]; [reflexivity|].
  rewrite (H x (or_introl eq_refl)). f_equal. apply IH. intros y Hy. apply H. right. exact Hy.
Qed.

Lemma hp_flat_page_in p ents : forall i x, In x (hp_flat_page p ents i) ->
  fst (fst x) = p /\ i <= snd (fst x).
Proof.
  induction ents as [|[e|] ents IH]; intros i x H; cbn [hp_flat_page] in H.
  - contradiction.
  - destruct H as [<-|H]; [cbn; split; [reflexivity | lia]|].
    destruct (IH _ _ H). split; [assumption | lia].
  - destruct (IH _ _ H). split; [assumption | lia].
Qed.

Lemma hp_flat_in c x : In x (hp_flat c) -> In (fst (fst x)) (hp_ids c).
Proof.
  induction c as [|pg c IH]; cbn [hp_flat flat_map]; [contradiction|]. intros H.
  apply in_app_or in H. destruct H as [H|H].
  - destruct (hp_flat_page_in _ _ _ _ H) as [-> _]. left. reflexivity.
  - right. apply IH. exact H.
Qed.

Lemma hp_flat_page_entry p ents : forall i s e, In (p, s, e) (hp_flat_page p ents i) <->
  i <= s /\ nth_error ents (N.to_nat (s - i)) = Some (Some e).
Proof.
  induction ents as [|[e0|] ents IH]; intros i s e; cbn [hp_flat_page In].
  - split; [contradiction|]. intros [_ H]. destruct (N.to_nat (s - i)); discriminate.
  - rewrite IH. split.
    + intros [H|[H1 H2]].
      * inversion H; subst. split; [lia|]. rewrite N.sub_diag. reflexivity.
      * split; [lia|]. replace (N.to_nat (s - i)) with (S (N.to_nat (s - (i + 1)))) by lia. exact H2.
    + intros [H1 H2]. destruct (N.eqb_spec s i) as [->|Hne].
      * left. rewrite N.sub_diag in H2. cbn in H2. congruence.
      * right. split; [lia|].
        replace (N.to_nat (s - i)) with (S (N.to_nat (s - (i + 1)))) in H2 by lia. exact H2.
  - rewrite IH. split.
    + intros [H1 H2]. split; [lia|].
      replace (N.to_nat (s - i)) with (S (N.to_nat (s - (i + 1)))) by lia. exact H2.
    + intros [H1 H2]. destruct (N.eqb_spec s i) as [->|Hne].
      * rewrite N.sub_diag in H2. cbn in H2. discriminate.
      * split; [lia|].
        replace (N.to_nat (s - i)) with (S (N.to_nat (s - (i + 1)))) in H2 by lia. exact H2.
Qed.

(** the rows listed are exactly the entries of the map *)
Lemma hp_flat_lookup c : NoDup (hp_ids c) -> forall p s e,
  In (p, s, e) (hp_flat c) <-> hp_lookup c p s = Some e.
Proof.
  induction c as [|pg c IH]; intros ND p s e; cbn [hp_flat flat_map].
  - unfold hp_lookup. cbn. split; [contradiction | discriminate].
  - inversion ND as [|? ? Hni ND']; subst. fold (hp_flat c). rewrite in_app_iff.
    unfold hp_lookup. cbn [hp_find]. destruct (N.eqb_spec (hp_pid pg) p) as [E|E].
    + subst p. rewrite hp_flat_page_entry. unfold hp_entry, a_at. rewrite N.sub_0_r. split.
      * intros [[_ H]|H]; [rewrite H; reflexivity|].
        apply hp_flat_in in H. cbn [fst] in H. contradiction.
      * intros H. left. split; [lia|].
        destruct (nth_error (hp_rows pg) (N.to_nat s)) as [[e1|]|];
          [inversion H; reflexivity | discriminate | discriminate].
    + fold (hp_lookup c p s). rewrite <- IH by assumption. split.
      * intros [H|H]; [|exact H]. destruct (hp_flat_page_in _ _ _ _ H) as [H1 _]. cbn in H1. congruence.
      * intros H. right. exact H.
Qed.

Section Scan.
  Variables lk mine : N -> N -> bool.

  (** what Next must return on the rows that remain *)
  Fixpoint hp_next_spec (l : list (N * N * (list N * bool))) : hp_res :=
    match l with
    | [] => HR_None
    | (p, s, (b, mk)) :: l' =>
        if negb (lk p s) then HR_Err
        else if mk then (if mine p s then hp_next_spec l' else HR_Err)
        else HR_Row p s b
    end.

  Definition hp_ge (from : N) (x : N * N * (list N * bool)) : bool := negb (snd (fst x) <? from).

  Lemma hp_ge_0 l : filter (hp_ge 0) l = l.
  Proof. apply hp_filter_all. intros x _. unfold hp_ge. destruct (N.ltb_spec (snd (fst x)) 0); [lia | reflexivity]. Qed.

  Lemma hp_nx_spec : forall rest p ents i from adv,
    fst (hp_nx hp_go lk mine rest p ents i from adv) =
    hp_next_spec (filter (hp_ge from) (hp_flat_page p ents i) ++ hp_flat rest).
  Proof.
    induction rest as [|pg rest IHr]; intros p ents; induction ents as [|e ents IHe]; intros i from adv.
    - rewrite hp_nx_nil. cbn [iter_skips_all_empty hp_go negb]. rewrite andb_false_r. reflexivity.
    - destruct e as [[b mk]|]; [rewrite hp_nx_some | rewrite hp_nx_none; cbn [hp_flat_page]; apply IHe].
      cbn [hp_flat_page filter]. unfold hp_ge at 1. cbn [fst snd].
      destruct (i <? from); cbn [negb]; [apply IHe|]. cbn [app hp_next_spec].
      destruct (negb (lk p i)); [reflexivity|]. destruct mk; [|reflexivity].
      destruct (mine p i); [|reflexivity]. rewrite <- IHe with (adv := false).
      destruct (hp_nx hp_go lk mine [] p ents (i + 1) from false). reflexivity.
    - rewrite hp_nx_nil. cbn [iter_skips_all_empty hp_go negb]. rewrite andb_false_r.
      cbn [hp_flat_page filter app hp_flat flat_map]. fold (hp_flat rest).
      rewrite <- (hp_ge_0 (hp_flat_page (hp_pid pg) (hp_rows pg) 0)). rewrite <- IHr with (adv := true).
      destruct (hp_nx hp_go lk mine rest (hp_pid pg) (hp_rows pg) 0 0 true). reflexivity.
    - destruct e as [[b mk]|]; [rewrite hp_nx_some | rewrite hp_nx_none; cbn [hp_flat_page]; apply IHe].
      cbn [hp_flat_page filter]. unfold hp_ge at 1. cbn [fst snd].
      destruct (i <? from); cbn [negb]; [apply IHe|]. cbn [app hp_next_spec].
      destruct (negb (lk p i)); [reflexivity|]. destruct mk; [|reflexivity].
      destruct (mine p i); [|reflexivity]. rewrite <- IHe with (adv := false).
      destruct (hp_nx hp_go lk mine (pg :: rest) p ents (i + 1) from false). reflexivity.
  Qed.

  (** the rows behind row (p,s) in chain order *)
  Definition hp_after (c : list hp_page) (p s : N) : list (N * N * (list N * bool)) :=
    match hp_split c p with
    | Some (_, pg, rest) => filter (hp_ge (s + 1)) (hp_flat_page p (hp_rows pg) 0) ++ hp_flat rest
    | None => []
    end.

  Lemma hp_next_spec_ok h p s : In p (hp_ids (hp_chain h)) ->
    fst (hp_next hp_go lk mine h p s) = hp_next_spec (hp_after (hp_chain h) p s).
  Proof.
    intros Hin. unfold hp_next, hp_after. destruct (hp_find_split _ _ Hin) as (pre & pg & rest & S).
    rewrite S. rewrite <- hp_nx_spec with (adv := false).
    destruct (hp_nx hp_go lk mine rest p (hp_rows pg) 0 (s + 1) false). reflexivity.
  Qed.

  Lemma hp_flat_page_after p e s ents : forall i X Y,
    hp_flat_page p ents i = X ++ (p, s, e) :: Y ->
    filter (hp_ge (s + 1)) (hp_flat_page p ents i) = Y.
  Proof.
    induction ents as [|[e0|] ents IH]; intros i X Y H; cbn [hp_flat_page] in *.
    - destruct X; discriminate.
    - destruct X as [|x X]; cbn [app] in H; inversion H; subst.
      + cbn [filter]. unfold hp_ge at 1. cbn [fst snd].
        destruct (N.ltb_spec s (s + 1)); [|lia]. cbn [negb].
        apply hp_filter_all. intros x Hx. destruct (hp_flat_page_in _ _ _ _ Hx) as [_ Hge].
        unfold hp_ge. destruct (N.ltb_spec (snd (fst x)) (s + 1)); [lia | reflexivity].
      + cbn [filter]. unfold hp_ge at 1. cbn [fst snd].
        assert (Hs : i + 1 <= s).
        { assert (Hin : In (p, s, e) (hp_flat_page p ents (i + 1))).
          { rewrite H2. apply in_or_app. right. left. reflexivity. }
          destruct (hp_flat_page_in _ _ _ _ Hin) as [_ Hge]. exact Hge. }
        destruct (N.ltb_spec i (s + 1)); [|lia]. cbn [negb]. eapply IH. exact H2.
    - eapply IH. exact H.
  Qed.

  Lemma hp_after_spec c : NoDup (hp_ids c) -> forall p s e X Y,
    hp_flat c = X ++ (p, s, e) :: Y -> hp_after c p s = Y.
  Proof.
    induction c as [|pg c IH]; intros ND p s e X Y H; cbn [hp_flat flat_map] in H.
    - destruct X; discriminate.
    - inversion ND as [|? ? Hni ND']; subst. fold (hp_flat c) in H.
      unfold hp_after. cbn [hp_split]. destruct (N.eqb_spec (hp_pid pg) p) as [E|E].
      + subst p. destruct (hp_app_split_r _ _ _ _ _ H) as (Y1 & E1 & E2).
        { intros Hin. apply hp_flat_in in Hin. cbn [fst] in Hin. contradiction. }
        rewrite (hp_flat_page_after _ _ _ _ _ _ _ E1). symmetry. exact E2.
      + destruct (hp_app_split_l _ _ _ _ _ H) as (X1 & E1 & E2).
        { intros Hin. destruct (hp_flat_page_in _ _ _ _ Hin) as [Hp _]. cbn in Hp. congruence. }
        specialize (IH ND' _ _ _ _ _ E2). unfold hp_after in IH.
        destruct (hp_split c p) as [[[pre x] post]|]; exact IH.
  Qed.

  Lemma hp_next_spec_cases l :
    (hp_next_spec l = HR_None /\ hp_scan_spec lk mine l = ([], HE_End)) \/
    (hp_next_spec l = HR_Err /\ hp_scan_spec lk mine l = ([], HE_Abort)) \/
    (exists p s b X Y, hp_next_spec l = HR_Row p s b /\ l = X ++ (p, s, (b, false)) :: Y /\
       hp_scan_spec lk mine l =
       (let '(rows, e) := hp_scan_spec lk mine Y in ((p, s, b) :: rows, e))).
  Proof.
    induction l as [|[[p s] [b mk]] l IH]; cbn [hp_next_spec hp_scan_spec].
    - left. split; reflexivity.
    - destruct (negb (lk p s)); [right; left; split; reflexivity|].
      destruct mk.
      + destruct (mine p s); [|right; left; split; reflexivity].
        destruct IH as [IH|[IH|(p' & s' & b' & X & Y & E1 & E2 & E3)]]; [left; exact IH | right; left; exact IH|].
        right; right. exists p', s', b', ((p, s, (b, true)) :: X), Y. subst l.
        split; [exact E1|]. split; [reflexivity | exact E3].
      + right; right. exists p, s, b, [], l. split; [reflexivity|]. split; reflexivity.
  Qed.

  Lemma hp_scan_loop_spec h : NoDup (hp_ids (hp_chain h)) -> forall fuel l Z,
    hp_flat (hp_chain h) = Z ++ l -> (length l <= fuel)%nat ->
    fst (hp_scan_loop hp_go lk mine fuel h (hp_next_spec l)) = hp_scan_spec lk mine l.
  Proof.
    intros ND. induction fuel as [|f IH]; intros l Z Hz Hlen;
      destruct (hp_next_spec_cases l) as [[E1 E2]|[[E1 E2]|(p & s & b & X & Y & E1 & E2 & E3)]].
    1,2,4,5: rewrite E1, E2; reflexivity.
    - subst l. rewrite app_length in Hlen. cbn [length] in Hlen. lia.
    - rewrite E1, E3. cbn [hp_scan_loop].
      assert (Hin : In p (hp_ids (hp_chain h))).
      { apply (hp_flat_in _ (p, s, (b, false))). rewrite Hz, E2.
        apply in_or_app. right. apply in_or_app. right. left. reflexivity. }
      pose proof (hp_next_spec_ok h p s Hin) as Hn.
      assert (Ha : hp_after (hp_chain h) p s = Y).
      { apply (hp_after_spec _ ND p s (b, false) (Z ++ X) Y). rewrite Hz, E2, app_assoc. reflexivity. }
      rewrite Ha in Hn. destruct (hp_next hp_go lk mine h p s) as [r1 tr1]. cbn [fst] in Hn. subst r1.
      specialize (IH Y ((Z ++ X) ++ [(p, s, (b, false))])).
      rewrite <- IH.
      + destruct (hp_scan_loop hp_go lk mine f h (hp_next_spec Y)) as [[rows e] tr']. reflexivity.
      + rewrite Hz, E2. rewrite <- !app_assoc. reflexivity.
      + subst l. rewrite app_length in Hlen. cbn [length] in Hlen. lia.
  Qed.

  Lemma hp_first_row_flat p ents : forall i,
    hp_first_row ents i = match hp_flat_page p ents i with [] => None | (_, s, _) :: _ => Some s end.
  Proof. induction ents as [|[e|] ents IH]; intros i; cbn [hp_first_row hp_flat_page]; auto. Qed.

  Lemma hp_gft_walk_flat c :
    fst (hp_gft_walk hp_go c) = match hp_flat c with [] => None | (p, s, _) :: _ => Some (p, s) end.
  Proof.
    induction c as [|pg c IH]; cbn [hp_gft_walk hp_flat flat_map]; [reflexivity|]. fold (hp_flat c).
    rewrite (hp_first_row_flat (hp_pid pg)).
    destruct (hp_flat_page (hp_pid pg) (hp_rows pg) 0) as [|[[p s] e] l] eqn:E.
    - cbn [app]. rewrite <- IH. destruct (hp_gft_walk hp_go c). reflexivity.
    - assert (Hin : In (p, s, e) (hp_flat_page (hp_pid pg) (hp_rows pg) 0)) by (rewrite E; left; reflexivity).
      destruct (hp_flat_page_in _ _ _ _ Hin) as [Hp _]. cbn in Hp. subst p. reflexivity.
  Qed.

  Lemma hp_iter_new_spec h : NoDup (hp_ids (hp_chain h)) ->
    fst (hp_iter_new hp_go lk mine h) = hp_next_spec (hp_flat (hp_chain h)).
  Proof.
    intros ND. unfold hp_iter_new, hp_get_first. pose proof (hp_gft_walk_flat (hp_chain h)) as G.
    destruct (hp_gft_walk hp_go (hp_chain h)) as [o tr0]. cbn [fst] in G. subst o.
    destruct (hp_flat (hp_chain h)) as [|[[p s] [b mk]] l] eqn:E; [reflexivity|].
    assert (Hin : In (p, s, (b, mk)) (hp_flat (hp_chain h))) by (rewrite E; left; reflexivity).
    pose proof (proj1 (hp_flat_lookup _ ND p s (b, mk)) Hin) as L.
    pose proof (hp_flat_in _ _ Hin) as Hp. cbn [fst] in Hp.
    unfold hp_lookup in L. destruct (hp_find (hp_chain h) p) as [pg|] eqn:F; [|discriminate].
    unfold hp_entry in L. cbn [hp_next_spec]. unfold hp_get_tuple. rewrite F.
    destruct (negb (lk p s)); [reflexivity|].
    unfold hp_page_get. cbn [astep].
    destruct (a_at (hp_rows pg) s) as [[e0|]|]; try discriminate. inversion L; subst e0.
    destruct mk; cbn [snd]; [|reflexivity].
    destruct (mine p s); [|reflexivity].
    pose proof (hp_next_spec_ok h p s Hp) as Hn.
    rewrite (hp_after_spec _ ND p s (b, true) [] l E) in Hn.
    destruct (hp_next hp_go lk mine h p s). exact Hn.
  Qed.

  Lemma hp_flat_page_length p ents : forall i, (length (hp_flat_page p ents i) <= length ents)%nat.
  Proof.
    induction ents as [|[e|] ents IH]; intros i; cbn [hp_flat_page length]; [lia| |];
      specialize (IH (i + 1)); lia.
  Qed.

  Lemma hp_flat_length h : (S (length (hp_flat (hp_chain h))) <= hp_scan_fuel h)%nat.
  Proof.
    unfold hp_scan_fuel. apply le_n_S. induction (hp_chain h) as [|pg c IH];
      cbn [hp_flat flat_map fold_right length]; [lia|].
    fold (hp_flat c). rewrite app_length. pose proof (hp_flat_page_length (hp_pid pg) (hp_rows pg) 0). lia.
  Qed.

  (** The scan returns exactly what the specification says of the rows in
      (chain position, slot) order, and the fuel is enough. *)
  Lemma hp_scan_correct h : NoDup (hp_ids (hp_chain h)) ->
    fst (hp_scan hp_go lk mine h) =
    (let '(rows, e) := hp_scan_spec lk mine (hp_flat (hp_chain h)) in HR_Scan rows e).
  Proof.
    intros ND. unfold hp_scan. pose proof (hp_iter_new_spec h ND) as I0.
    destruct (hp_iter_new hp_go lk mine h) as [r0 tr0]. cbn [fst] in I0. subst r0.
    pose proof (hp_scan_loop_spec h ND (hp_scan_fuel h) (hp_flat (hp_chain h)) [] eq_refl) as L.
    pose proof (hp_flat_length h) as Hl. specialize (L ltac:(lia)).
    destruct (hp_scan_loop hp_go lk mine (hp_scan_fuel h) h (hp_next_spec (hp_flat (hp_chain h))))
      as [[rows e] tr1]. cbn [fst] in L. rewrite <- L. reflexivity.
  Qed.

  (** with every lock granted and every delete-marked row marked by the reader
      itself, that is: all rows that are not delete-marked, and a normal end *)
  Lemma hp_scan_spec_live l :
    (forall p s b mk, In (p, s, (b, mk)) l -> lk p s = true /\ (mk = true -> mine p s = true)) ->
    hp_scan_spec lk mine l =
    (map (fun x => (fst (fst x), snd (fst x), fst (snd x))) (filter (fun x => negb (snd (snd x))) l), HE_End).
  Proof.
    induction l as [|[[p s] [b mk]] l IH]; intros H; cbn [hp_scan_spec filter map]; [reflexivity|].
    destruct (H p s b mk (or_introl eq_refl)) as [H1 H2]. rewrite H1. cbn [negb snd fst].
    assert (IH' := IH (fun p s b mk Hin => H p s b mk (or_intror Hin))).
    destruct mk; cbn [negb].
    - rewrite (H2 eq_refl). exact IH'.
    - rewrite IH'. reflexivity.
  Qed.
End Scan.

(** every rid is listed once *)
Lemma hp_flat_page_nodup p ents : forall i, NoDup (map fst (hp_flat_page p ents i)).
Proof.
  induction ents as [|[e|] ents IH]; intros i; cbn [hp_flat_page map]; [constructor| |apply IH].
  constructor; [|apply IH]. intros Hin. apply in_map_iff in Hin. destruct Hin as (x & Ex & Hx).
  destruct (hp_flat_page_in _ _ _ _ Hx) as [_ Hge]. rewrite Ex in Hge. cbn in Hge. lia.
Qed.

Lemma hp_flat_nodup c : NoDup (hp_ids c) -> NoDup (map fst (hp_flat c)).
Proof.
  induction c as [|pg c IH]; intros ND; cbn [hp_flat flat_map map]; [constructor|].
  inversion ND as [|? ? Hni ND']; subst. fold (hp_flat c). rewrite map_app.
  specialize (IH ND'). pose proof (hp_flat_page_nodup (hp_pid pg) (hp_rows pg) 0) as Np.
  revert Np. generalize (hp_flat_page_in (hp_pid pg) (hp_rows pg) 0).
  induction (hp_flat_page (hp_pid pg) (hp_rows pg) 0) as [|x l IHl]; intros Hp Np; cbn [map app]; [exact IH|].
  inversion Np; subst. constructor.
  - intros Hin. apply in_app_or in Hin. destruct Hin as [Hin|Hin]; [contradiction|].
    apply in_map_iff in Hin. destruct Hin as (y & Ey & Hy). apply hp_flat_in in Hy.
    destruct (Hp x (or_introl eq_refl)) as [Hx _]. rewrite <- Ey in Hx. rewrite Hx in Hy. contradiction.
  - apply IHl; [|assumption]. intros y Hy. apply Hp. right. exact Hy.
Qed.

(** ** when InsertTuple returns *)

Lemma hp_a_free_le a : a_free a <= page_size - size_table_page_header.
Proof. unfold a_free. lia. Qed.

Lemma hp_insert_returns lk h row n ids h' r tr :
  hp_wf h -> blen row <> 0 -> blen row + size_tuple <= page_size - size_table_page_header ->
  lk n 0 = true -> hp_insert lk h row (n :: ids) = (h', r, tr) ->
  exists p s, r = HR_Inserted p s.
Proof.
  intros W Hb Hfit Hl H. destruct W as (_ & _ & W3 & _).
  destruct (hp_find_split _ _ W3) as (pre & cur & rest & S).
  rewrite (hp_insert_placement lk _ _ _ _ _ _ _ _ _ Hb S H).
  assert (Hacc : hp_accepts lk row (hp_fresh n) = Some (0, [Some (row, false)])).
  { rewrite hp_accepts_iff. cbn [hp_fresh hp_rows hp_pid a_first_free]. rewrite Hl.
    apply N.eqb_neq in Hb. rewrite Hb. cbn [orb negb].
    replace (a_free []) with (page_size - size_table_page_header) by (unfold a_free; cbn; lia).
    destruct (N.ltb_spec (page_size - size_table_page_header) (blen row + size_tuple)); [lia|].
    reflexivity. }
  cbn [map].
  destruct (hp_place_upto lk row (cur :: rest) (hp_fresh n) (map hp_fresh ids) _ _ Hacc)
    as (p2 & s2 & E & _).
  change (cur :: rest ++ hp_fresh n :: map hp_fresh ids)
    with ((cur :: rest) ++ hp_fresh n :: map hp_fresh ids).
  rewrite E. eauto.
Qed.

(** A row that does not fit on an empty page is never placed: the loop of
    InsertTuple takes every new page it is given and asks for another. *)
Lemma hp_insert_oversize lk h row ids h' r tr :
  hp_wf h -> blen row <> 0 -> page_size - size_table_page_header < blen row + size_tuple ->
  hp_insert lk h row ids = (h', r, tr) ->
  r = HR_NoNewPage /\ length (hp_chain h') = (length (hp_chain h) + length ids)%nat.
Proof.
  intros W Hb Hbig H. destruct W as (_ & _ & W3 & _).
  destruct (hp_find_split _ _ W3) as (pre & cur & rest & S).
  assert (Hrej : forall C, Forall (hp_rejects lk row) C).
  { intros C. apply Forall_forall. intros pg _. unfold hp_rejects. rewrite hp_accepts_iff.
    pose proof (hp_a_free_le (hp_rows pg)).
    destruct (N.ltb_spec (a_free (hp_rows pg)) (blen row + size_tuple)); [|lia].
    rewrite orb_true_r. reflexivity. }
  pose proof (hp_insert_placement lk _ _ _ _ _ _ _ _ _ Hb S H) as Pl.
  rewrite (hp_place_none _ _ _ (Hrej _)) in Pl. split; [exact Pl|].
  unfold hp_insert in H. rewrite S in H.
  destruct (hp_ins_walk lk row cur rest ids) as [[pgs r0] tr0] eqn:Wk. inversion H; subst. clear H.
  destruct (hp_ins_walk_spec lk row ids Hb _ _ _ _ _ Wk) as (k & P & Q).
  destruct P as [(A & pg & B & s0 & a' & _ & _ & _ & _ & E5)|(_ & E2 & _)]; [discriminate|].
  rewrite (Q eq_refl) in E2. subst pgs. cbn [hp_chain].
  destruct (hp_split_spec _ _ _ _ _ S) as (Ec & _ & _). rewrite Ec.
  rewrite !app_length. cbn [length]. rewrite app_length, map_length. lia.
Qed.

(** ** when the model says "panic" *)

Lemma hp_gft_walk_in V c p s tr : hp_gft_walk V c = (Some (p, s), tr) -> In p (hp_ids c).
Proof.
  revert tr. induction c as [|pg c IH]; intros tr H; cbn [hp_gft_walk] in H; [discriminate|].
  destruct (hp_first_row (hp_rows pg) 0).
  - inversion H; subst. left. reflexivity.
  - destruct (hp_gft_walk V c) as [r' tr']. inversion H; subst. right. eapply IH. reflexivity.
Qed.

Lemma hp_next_no_panic lk mine h p s : In p (hp_ids (hp_chain h)) ->
  fst (hp_next hp_go lk mine h p s) <> HR_Panic.
Proof.
  intros Hin. rewrite (hp_next_spec_ok lk mine h p s Hin).
  destruct (hp_next_spec_cases lk mine (hp_after (hp_chain h) p s))
    as [[E _]|[[E _]|(p' & s' & b & X & Y & E & _)]]; rewrite E; discriminate.
Qed.

(** On a well-formed heap with legal inputs the only panics are: ApplyDelete /
    RollbackDelete of a rid that holds no row, and GetTuple / Next on a page
    that is not part of the heap. *)
Lemma hp_step_panic lk mine h o h' tr :
  hp_wf h -> hp_op_ok h o = true -> hp_step hp_go lk mine h o = (h', HR_Panic, tr) ->
  match o with
  | HApplyDelete p s | HRollbackDelete p s => hp_lookup (hp_chain h) p s = None
  | HGetTuple p s | HNext p s => ~ In p (hp_ids (hp_chain h))
  | _ => False
  end.
Proof.
  intros W Hok. destruct o; cbn [hp_step hp_op_ok] in *; intros H.
  - apply andb_true_iff in Hok. destruct Hok as [Hb _]. apply negb_true_iff, N.eqb_neq in Hb.
    exact (hp_insert_no_panic _ _ _ _ _ _ _ W Hb H eq_refl).
  - unfold hp_mark_delete in H. destruct (hp_find (hp_chain h) p) as [pg|]; [|discriminate].
    destruct (negb (lk p s)); [discriminate|].
    destruct (astep (hp_rows pg) (PMark s)). discriminate.
  - destruct (hp_apply_delete_map lk _ _ _ _ _ _ H) as [_ R]. cbn [hp_res_ok] in R.
    destruct (hp_lookup (hp_chain h) p s); [discriminate | reflexivity].
  - destruct (hp_rollback_delete_map lk _ _ _ _ _ _ H) as [_ R]. cbn [hp_res_ok] in R.
    destruct (hp_lookup (hp_chain h) p s); [discriminate | reflexivity].
  - apply andb_true_iff in Hok. destruct Hok as [Hb Hf]. apply negb_true_iff, N.eqb_neq in Hb.
    destruct (hp_update_map _ _ _ _ _ _ _ _ _ _ W Hf Hb H ltac:(discriminate)) as (_ & _ & K).
    apply K. reflexivity.
  - unfold hp_get_tuple in H. destruct (negb (lk p s)); [discriminate|].
    destruct (hp_find (hp_chain h) p) as [pg|] eqn:F.
    + unfold hp_page_get in H. cbn [astep] in H.
      destruct (a_at (hp_rows pg) s) as [[[b [|]]|]|]; cbn [snd] in H;
        try destruct (mine p s); discriminate.
    + apply hp_find_none. exact F.
  - unfold hp_get_first in H. destruct (hp_gft_walk hp_go (hp_chain h)) as [[[p s]|] tr0] eqn:G;
      [|discriminate].
    apply hp_gft_walk_in in G. unfold hp_get_tuple in H. destruct (negb (lk p s)); [discriminate|].
    destruct (hp_find (hp_chain h) p) as [pg|] eqn:F.
    + unfold hp_page_get in H. cbn [astep] in H.
      destruct (a_at (hp_rows pg) s) as [[[b [|]]|]|]; cbn [snd] in H;
        try destruct (mine p s); discriminate.
    + apply hp_find_none in F. contradiction.
  - intros Hin. pose proof (hp_next_no_panic lk mine h p s Hin) as K.
    destruct (hp_next hp_go lk mine h p s) as [r0 tr0]. inversion H; subst. apply K. reflexivity.
  - unfold hp_scan in H. destruct (hp_iter_new hp_go lk mine h) as [r0 tr0].
    destruct (hp_scan_loop hp_go lk mine (hp_scan_fuel h) h r0) as [[rows e] tr1]. discriminate.
Qed.

(** the scan ends normally or with the transaction aborted, never out of fuel *)
Lemma hp_scan_spec_end lk mine l : snd (hp_scan_spec lk mine l) = HE_End \/ snd (hp_scan_spec lk mine l) = HE_Abort.
Proof.
  induction l as [|[[p s] [b mk]] l IH]; cbn [hp_scan_spec]; [left; reflexivity|].
  destruct (negb (lk p s)); [right; reflexivity|]. destruct mk.
  - destruct (mine p s); [exact IH | right; reflexivity].
  - destruct (hp_scan_spec lk mine l). exact IH.
Qed.

(** * 7. Witnesses *)

Lemma hp_run_reachable calls : forall st,
  hp_reachable st -> hp_run_ok calls st = true -> hp_reachable (hp_run_l hp_go calls st).
Proof.
  induction calls as [|[[d m] o] calls IH]; intros st R Hok; cbn [hp_run_l hp_run_ok] in *; [exact R|].
  apply andb_true_iff in Hok. destruct Hok as [H1 H2]. apply IH; [|exact H2].
  unfold hp_exec_l. apply hp_reach_step; assumption.
Qed.

(** a row of 2000 bytes: two of them fill a page *)
Definition hp_big (x : N) : list N := repeat x 2000.
Definition hp_del (p s : N) : list hp_call :=
  [([], [], HMarkDelete p s); ([], [(p, s)], HApplyDelete p s)].

(** pages 1 and 2 emptied, one row on page 3 *)
Definition hp_w_front : list hp_call :=
  [([], [], HInsert (hp_big 1) [2]); ([], [], HInsert (hp_big 2) [2]);
   ([], [], HInsert (hp_big 3) [2]); ([], [], HInsert (hp_big 4) [3]);
   ([], [], HInsert (hp_big 5) [3])]
  ++ hp_del 1 0 ++ hp_del 1 1 ++ hp_del 2 0 ++ hp_del 2 1.

(** rows on pages 1 and 4, pages 2 and 3 emptied *)
Definition hp_w_middle : list hp_call :=
  [([], [], HInsert (hp_big 1) [2]); ([], [], HInsert (hp_big 2) [2]);
   ([], [], HInsert (hp_big 3) [2]); ([], [], HInsert (hp_big 4) [3]);
   ([], [], HInsert (hp_big 5) [3]); ([], [], HInsert (hp_big 6) [4]);
   ([], [], HInsert (hp_big 7) [4])]
  ++ hp_del 2 0 ++ hp_del 2 1 ++ hp_del 3 0 ++ hp_del 3 1.

Definition hp_rids (r : hp_res) : list (N * N) :=
  match r with HR_Scan rows _ => map (fun x => (fst (fst x), snd (fst x))) rows | _ => [] end.

(** Regression 1: GetFirstTuple does not unpin the pages it skips.  On a
    reachable heap whose first two pages are empty a scan leaves one pin on
    each of them (and the answer is still right, so only the pool notices). *)
Lemma hp_gft_leak_refuted :
  exists st, hp_reachable st /\
    let '(st', r, tr) := hp_exec_l (mkHpV false true) [] [] st HScan in
    hp_pin_vector st [1; 2; 3] = [0; 0; 0]%nat /\
    hp_pin_vector st' [1; 2; 3] = [1; 1; 0]%nat /\
    hp_rids r = [(3, 0)] /\
    ~ Model.Pins.balanced (hp_pevs tr).
Proof.
  exists (hp_run_l hp_go hp_w_front (hp_init 1)). split.
  - apply hp_run_reachable; [apply hp_reach_init | vm_compute; reflexivity].
  - vm_compute. repeat split. intros H. specialize (H 1%N). vm_compute in H. discriminate.
Qed.

(** the current code on the same heap *)
Lemma hp_gft_current_ok :
  let st := hp_run_l hp_go hp_w_front (hp_init 1) in
  let '(st', r, tr) := hp_exec_l hp_go [] [] st HScan in
  hp_pin_vector st' [1; 2; 3] = [0; 0; 0]%nat /\ hp_rids r = [(3, 0)].
Proof. vm_compute. split; reflexivity. Qed.

(** Regression 2: the iterator skips one empty page only.  On a reachable heap
    with two consecutive empty pages behind a row, the row on the page after
    them is not returned (the pins are fine, so only the answer shows it).
    Leading empty pages do not show it: GetFirstTuple skips those itself. *)
Lemma hp_iter_if_refuted :
  exists st, hp_reachable st /\
    let '(st', r, tr) := hp_exec_l (mkHpV true false) [] [] st HScan in
    hp_rids r = [(1, 0); (1, 1)] /\
    map (fun x => (fst (fst x), snd (fst x))) (fst (hp_scan_expected [] [] st)) = [(1, 0); (1, 1); (4, 0)] /\
    hp_pin_vector st' [1; 2; 3; 4] = [0; 0; 0; 0]%nat.
Proof.
  exists (hp_run_l hp_go hp_w_middle (hp_init 1)). split.
  - apply hp_run_reachable; [apply hp_reach_init | vm_compute; reflexivity].
  - vm_compute. repeat split.
Qed.

Lemma hp_iter_current_ok :
  let st := hp_run_l hp_go hp_w_middle (hp_init 1) in
  let '(st', r, tr) := hp_exec_l hp_go [] [] st HScan in
  hp_rids r = [(1, 0); (1, 1); (4, 0)] /\ hp_pin_vector st' [1; 2; 3; 4] = [0; 0; 0; 0]%nat.
Proof. vm_compute. split; reflexivity. Qed.

(** * 8. Statements for [Props/C14Heap.v] *)

(** a statement: any sequence of heap operations, each with its own lock answers *)
Definition hp_fcall := ((N -> N -> bool) * (N -> N -> bool) * hp_op)%type.
Fixpoint hp_stmt_trace (calls : list hp_fcall) (st : hp_state) : list hp_act :=
  match calls with
  | [] => []
  | (lk, mine, o) :: r =>
      let '(st', _, tr) := hp_exec hp_go lk mine st o in tr ++ hp_stmt_trace r st'
  end.
(** every call returns to its caller *)
Fixpoint hp_stmt_returns (calls : list hp_fcall) (st : hp_state) : Prop :=
  match calls with
  | [] => True
  | (lk, mine, o) :: r =>
      let '(st', res, _) := hp_exec hp_go lk mine st o in
      res <> HR_Panic /\ res <> HR_NoNewPage /\ hp_stmt_returns r st'
  end.

Lemma hp_statement_balanced calls : forall st, hp_stmt_returns calls st ->
  balanced (hp_pevs (hp_stmt_trace calls st)) /\
  forall v q, apply_trace v (hp_pevs (hp_stmt_trace calls st)) q = v q.
Proof.
  assert (K : forall st, hp_stmt_returns calls st -> hp_neutral (hp_stmt_trace calls st)).
  { induction calls as [|[[lk mine] o] calls IH]; intros st H; cbn [hp_stmt_trace hp_stmt_returns] in *.
    - apply hp_neutral_nil.
    - unfold hp_exec in *. destruct (hp_step hp_go lk mine (hp_heap_of st) o) as [[h' r] tr] eqn:S.
      destruct H as (Hp & Hn & Hr). apply hp_neutral_app; [|apply IH; exact Hr].
      eapply hp_step_neutral; eassumption. }
  intros st H. pose proof (hp_neutral_balanced _ (K st H)) as B. split; [exact B|].
  intros v q. apply balanced_preserves. exact B.
Qed.

Lemma hp_scan_exact lk mine st : hp_reachable st ->
  let c := hp_chain (hp_heap_of st) in
  fst (hp_scan hp_go lk mine (hp_heap_of st)) =
    (let '(rows, e) := hp_scan_spec lk mine (hp_flat c) in HR_Scan rows e) /\
  (snd (hp_scan_spec lk mine (hp_flat c)) = HE_End \/ snd (hp_scan_spec lk mine (hp_flat c)) = HE_Abort) /\
  (forall p s e, In (p, s, e) (hp_flat c) <-> hp_lookup c p s = Some e) /\
  NoDup (map fst (hp_flat c)) /\
  ((forall p s b mk, hp_lookup c p s = Some (b, mk) -> lk p s = true /\ (mk = true -> mine p s = true)) ->
   hp_scan_spec lk mine (hp_flat c) =
   (map (fun x => (fst (fst x), snd (fst x), fst (snd x))) (filter (fun x => negb (snd (snd x))) (hp_flat c)),
    HE_End)).
Proof.
  intros R. pose proof (hp_reachable_wf _ R) as (_ & ND & _ & _). cbn zeta.
  split; [apply hp_scan_correct; exact ND|]. split; [apply hp_scan_spec_end|].
  split; [apply hp_flat_lookup; exact ND|]. split; [apply hp_flat_nodup; exact ND|].
  intros H. apply hp_scan_spec_live. intros p s b mk Hin. apply (H p s b mk).
  apply (hp_flat_lookup _ ND). exact Hin.
Qed.

Lemma hp_refines_map_reachable V lk mine st o h' r tr :
  hp_reachable st -> hp_op_ok (hp_heap_of st) o = true ->
  hp_step V lk mine (hp_heap_of st) o = (h', r, tr) ->
  r <> HR_Panic -> r <> HR_NoNewPage ->
  (forall q t, hp_lookup (hp_chain h') q t = hp_mstep (hp_lookup (hp_chain (hp_heap_of st))) o r q t) /\
  hp_res_ok lk mine (hp_lookup (hp_chain (hp_heap_of st))) o r.
Proof. intros R. apply hp_step_refines. apply hp_reachable_wf. exact R. Qed.

Lemma hp_insert_placement_reachable lk st row ids :
  hp_reachable st -> blen row <> 0 ->
  exists pre cur rest,
    hp_split (hp_chain (hp_heap_of st)) (hp_hint (hp_heap_of st)) = Some (pre, cur, rest) /\
    snd (fst (hp_insert lk (hp_heap_of st) row ids)) =
    match hp_place lk row (cur :: rest ++ map hp_fresh ids) with
    | Some (p, s) => HR_Inserted p s
    | None => HR_NoNewPage
    end.
Proof.
  intros R Hb. pose proof (hp_reachable_wf _ R) as (_ & _ & W3 & _).
  destruct (hp_find_split _ _ W3) as (pre & cur & rest & S). exists pre, cur, rest.
  split; [exact S|].
  destruct (hp_insert lk (hp_heap_of st) row ids) as [[h' r] tr] eqn:I. cbn [fst snd].
  eapply hp_insert_placement; eassumption.
Qed.

Lemma hp_insert_after_apply_delete_reachable lk st p s b mk :
  hp_reachable st -> hp_lookup (hp_chain (hp_heap_of st)) p s = Some (b, mk) ->
  exists h1 tr1 pg pg1 A B,
    hp_apply_delete (hp_heap_of st) p s = (h1, HR_Done, tr1) /\
    hp_hint h1 = hp_first (hp_heap_of st) /\ hp_wf h1 /\
    hp_find (hp_chain (hp_heap_of st)) p = Some pg /\ hp_chain h1 = A ++ pg1 :: B /\ hp_pid pg1 = p /\
    a_free (hp_rows pg1) = a_free (hp_rows pg) + blen b /\
    forall row ids s' a' h2 r2 tr2,
      blen row <> 0 -> hp_accepts lk row pg1 = Some (s', a') ->
      hp_insert lk h1 row ids = (h2, r2, tr2) ->
      exists p2 s2, r2 = HR_Inserted p2 s2 /\ In p2 (hp_ids (A ++ [pg1])) /\
                    hp_ids (hp_chain h2) = hp_ids (hp_chain h1).
Proof. intros R. apply hp_insert_after_apply_delete. apply hp_reachable_wf. exact R. Qed.

Lemma hp_panic_reachable lk mine st o h' tr :
  hp_reachable st -> hp_op_ok (hp_heap_of st) o = true ->
  hp_step hp_go lk mine (hp_heap_of st) o = (h', HR_Panic, tr) ->
  match o with
  | HApplyDelete p s | HRollbackDelete p s => hp_lookup (hp_chain (hp_heap_of st)) p s = None
  | HGetTuple p s | HNext p s => ~ In p (hp_ids (hp_chain (hp_heap_of st)))
  | _ => False
  end.
Proof. intros R. apply hp_step_panic. apply hp_reachable_wf. exact R. Qed.

Lemma hp_insert_returns_reachable lk st row n ids :
  hp_reachable st -> blen row <> 0 -> blen row + size_tuple <= page_size - size_table_page_header ->
  lk n 0 = true -> exists p s, snd (fst (hp_insert lk (hp_heap_of st) row (n :: ids))) = HR_Inserted p s.
Proof.
  intros R Hb Hfit Hl. destruct (hp_insert lk (hp_heap_of st) row (n :: ids)) as [[h' r] tr] eqn:I.
  cbn [fst snd]. eapply hp_insert_returns; try eassumption. apply hp_reachable_wf. exact R.
Qed.

Lemma hp_insert_oversize_reachable lk st row ids :
  hp_reachable st -> blen row <> 0 -> page_size - size_table_page_header < blen row + size_tuple ->
  snd (fst (hp_insert lk (hp_heap_of st) row ids)) = HR_NoNewPage /\
  length (hp_chain (fst (fst (hp_insert lk (hp_heap_of st) row ids)))) =
  (length (hp_chain (hp_heap_of st)) + length ids)%nat.
Proof.
  intros R Hb Hbig. destruct (hp_insert lk (hp_heap_of st) row ids) as [[h' r] tr] eqn:I.
  cbn [fst snd]. eapply hp_insert_oversize; try eassumption. apply hp_reachable_wf. exact R.
Qed.
