(** Proofs about the log codec: reading back what the writer wrote, and stability of a
    parsed prefix under appending. *)
From Coq Require Import List NArith ZArith Lia Bool.
From Coq Require Import ZifyBool ZifyN ZifyNat.
From SDB Require Import Base.Bytes Params Model.Wal Model.LogCodec Proofs.BytesProofs.
Import ListNotations.
Open Scope N_scope.

Ltac Zify.zify_post_hook ::= Z.div_mod_to_equations.

(** * Lengths *)

Lemma lenN_app a b : lenN (a ++ b) = lenN a + lenN b.
Proof. unfold lenN. rewrite app_length. lia. Qed.

Lemma lenN_le4 v : lenN (le 4 v) = 4.
Proof. unfold lenN. rewrite le_length. reflexivity. Qed.

Lemma lenN_nil : lenN [] = 0.
Proof. reflexivity. Qed.

Lemma lenN_cons x l : lenN (x :: l) = lenN l + 1.
Proof. unfold lenN. cbn [length]. lia. Qed.

Lemma pow256_4 : pow256 4 = pow2_32N.
Proof. vm_compute. reflexivity. Qed.

(** * [split_at] *)

Lemma split_at_spec l : forall n acc,
  split_at l n acc =
  if lenN l <? n then None
  else Some (rev acc ++ firstn (N.to_nat n) l, skipn (N.to_nat n) l).
Proof.
  induction l as [|x l IH]; intros n acc; cbn [split_at].
  - destruct (N.eqb_spec n 0) as [->|Hn].
    + rewrite rev_append_rev. reflexivity.
    + rewrite lenN_nil. destruct (N.ltb_spec 0 n); [reflexivity|lia].
  - destruct (N.eqb_spec n 0) as [->|Hn].
    + rewrite rev_append_rev. rewrite app_nil_r. cbn. rewrite app_nil_r. reflexivity.
    + rewrite IH. rewrite lenN_cons.
      assert (E : N.to_nat n = S (N.to_nat (N.pred n))) by lia.
      rewrite E. cbn [firstn skipn rev].
      destruct (N.ltb_spec (lenN l) (N.pred n)); destruct (N.ltb_spec (lenN l + 1) n); try lia; try reflexivity.
      rewrite <- app_assoc. reflexivity.
Qed.

Lemma split_at_app_exact a b n : lenN a = n -> split_at (a ++ b) n [] = Some (a, b).
Proof.
  intros H. rewrite split_at_spec. rewrite lenN_app.
  destruct (N.ltb_spec (lenN a + lenN b) n); [lia|].
  assert (E : N.to_nat n = length a) by (unfold lenN in H; lia).
  rewrite firstn_app_exact, skipn_app_exact by exact E. reflexivity.
Qed.

Lemma split_at_inv l n a b : split_at l n [] = Some (a, b) -> l = a ++ b /\ lenN a = n.
Proof.
  rewrite split_at_spec. destruct (N.ltb_spec (lenN l) n); [discriminate|].
  intros E. inversion E; subst. cbn [rev app]. split.
  - symmetry. apply firstn_skipn.
  - unfold lenN in *. rewrite firstn_length. lia.
Qed.

Lemma split_at_app x y n a b :
  split_at x n [] = Some (a, b) -> split_at (x ++ y) n [] = Some (a, b ++ y).
Proof.
  intros H. apply split_at_inv in H. destruct H as [-> H].
  rewrite <- app_assoc. apply split_at_app_exact. exact H.
Qed.

(** * Words and tuples *)

Lemma get32_le v rest : v < pow2_32N -> get32 (le 4 v ++ rest) = Some (v, rest).
Proof.
  intros H. unfold get32. rewrite split_at_app_exact by apply lenN_le4.
  rewrite le_dec_le by (rewrite pow256_4; exact H). reflexivity.
Qed.

Lemma get32_inv l v rest : get32 l = Some (v, rest) ->
  exists w, l = w ++ rest /\ lenN w = 4 /\ v = le_dec w.
Proof.
  unfold get32. destruct (split_at l 4 []) as [[w r]|] eqn:E; [|discriminate].
  intros H. inversion H; subst. apply split_at_inv in E. destruct E as [-> E].
  exists w. auto.
Qed.

Lemma get32_app x y v rest : get32 x = Some (v, rest) -> get32 (x ++ y) = Some (v, rest ++ y).
Proof.
  unfold get32. destruct (split_at x 4 []) as [[w r]|] eqn:E; [|discriminate].
  intros H. inversion H; subst. rewrite (split_at_app _ y _ _ _ E). reflexivity.
Qed.

Lemma get_tuple_ser t rest : lenN t < pow2_32N -> get_tuple (ser_tuple t ++ rest) = Some (t, rest).
Proof.
  intros H. unfold get_tuple, ser_tuple. rewrite <- app_assoc. rewrite get32_le by exact H.
  apply split_at_app_exact. reflexivity.
Qed.

Lemma lenN_ser_tuple t : lenN (ser_tuple t) = 4 + lenN t.
Proof. unfold ser_tuple. rewrite lenN_app, lenN_le4. reflexivity. Qed.

(** * Signed words *)

Lemma s_of_u32_of_s z : s32_ok z -> s_of_u32 (u32_of_s z) = z.
Proof.
  unfold s32_ok, s_of_u32, u32_of_s, pow2_31, pow2_32. intros H.
  destruct (N.ltb_spec (Z.to_N (z mod 4294967296)) 2147483648); lia.
Qed.

Lemma u32_of_s_lt z : u32_of_s z < pow2_32N.
Proof. unfold u32_of_s, pow2_32, pow2_32N. lia. Qed.

(** * One record *)

Lemma parse_body_ser ty b pad :
  shape_matches ty b -> body_words_ok b -> lenN (ser_body b) < pow2_32N ->
  parse_body ty (ser_body b ++ pad) = Some (b, pad).
Proof.
  unfold shape_matches, parse_body. intros Hs Hw Hl.
  destruct (shape_of ty); destruct b; try contradiction; cbn [ser_body body_words_ok] in *.
  - reflexivity.
  - destruct Hw as [Hp Hsl].
    rewrite !lenN_app, !lenN_le4, lenN_ser_tuple in Hl.
    rewrite <- !app_assoc. rewrite get32_le by exact Hp. rewrite get32_le by exact Hsl.
    rewrite get_tuple_ser by (unfold pow2_32N in *; lia). reflexivity.
  - destruct Hw as [Hp Hsl].
    rewrite !lenN_app, !lenN_le4, !lenN_ser_tuple in Hl.
    rewrite <- !app_assoc. rewrite get32_le by exact Hp. rewrite get32_le by exact Hsl.
    rewrite get_tuple_ser by (unfold pow2_32N in *; lia).
    rewrite get_tuple_ser by (unfold pow2_32N in *; lia). reflexivity.
  - destruct Hw as [Hp Hsl].
    rewrite <- !app_assoc. rewrite get32_le by exact Hp. rewrite get32_le by exact Hsl. reflexivity.
  - rewrite get32_le by exact Hw. reflexivity.
Qed.

Lemma parse_rec_ser r y : wf_rec r -> parse_rec (ser_rec r ++ y) = Some (r, y).
Proof.
  intros (Hl & Ht & Hp & Hty & Hsz & Hsh & Hw & Hsize).
  unfold parse_rec, ser_rec. rewrite <- !app_assoc.
  rewrite get32_le by exact Hsz.
  rewrite get32_le by apply u32_of_s_lt.
  rewrite get32_le by apply u32_of_s_lt.
  rewrite get32_le by apply u32_of_s_lt.
  rewrite get32_le by exact Hty.
  unfold log_header_size in *.
  destruct (N.ltb_spec (f_size r) 20); [lia|].
  rewrite (app_assoc (ser_body (f_body r))).
  rewrite split_at_app_exact by (rewrite lenN_app; lia).
  rewrite parse_body_ser; [| exact Hsh | exact Hw | unfold pow2_32N in *; lia].
  rewrite !s_of_u32_of_s by assumption.
  destruct r; reflexivity.
Qed.

(** every accepted record takes at least the 20 header bytes *)
Lemma parse_rec_shrinks inp r rest : parse_rec inp = Some (r, rest) ->
  (length rest + 20 <= length inp)%nat.
Proof.
  unfold parse_rec.
  destruct (get32 inp) as [[size i1]|] eqn:E1; [|discriminate].
  destruct (get32 i1) as [[lsn i2]|] eqn:E2; [|discriminate].
  destruct (get32 i2) as [[txn i3]|] eqn:E3; [|discriminate].
  destruct (get32 i3) as [[prev i4]|] eqn:E4; [|discriminate].
  destruct (get32 i4) as [[ty i5]|] eqn:E5; [|discriminate].
  destruct (size <? log_header_size); [discriminate|].
  destruct (split_at i5 (size - log_header_size) []) as [[bodyb rest']|] eqn:E6; [|discriminate].
  destruct (parse_body ty bodyb) as [[b pad]|]; [|discriminate].
  intros H. inversion H; subst.
  apply get32_inv in E1, E2, E3, E4, E5.
  destruct E1 as (w1 & -> & L1 & _). destruct E2 as (w2 & -> & L2 & _).
  destruct E3 as (w3 & -> & L3 & _). destruct E4 as (w4 & -> & L4 & _).
  destruct E5 as (w5 & -> & L5 & _).
  apply split_at_inv in E6. destruct E6 as [-> _].
  unfold lenN in *. rewrite !app_length. lia.
Qed.

Lemma parse_rec_app x y r rest :
  parse_rec x = Some (r, rest) -> parse_rec (x ++ y) = Some (r, rest ++ y).
Proof.
  unfold parse_rec.
  destruct (get32 x) as [[size i1]|] eqn:E1; [|discriminate].
  destruct (get32 i1) as [[lsn i2]|] eqn:E2; [|discriminate].
  destruct (get32 i2) as [[txn i3]|] eqn:E3; [|discriminate].
  destruct (get32 i3) as [[prev i4]|] eqn:E4; [|discriminate].
  destruct (get32 i4) as [[ty i5]|] eqn:E5; [|discriminate].
  rewrite (get32_app _ y _ _ E1), (get32_app _ y _ _ E2), (get32_app _ y _ _ E3),
          (get32_app _ y _ _ E4), (get32_app _ y _ _ E5).
  destruct (size <? log_header_size); [discriminate|].
  destruct (split_at i5 (size - log_header_size) []) as [[bodyb rest']|] eqn:E6; [|discriminate].
  rewrite (split_at_app _ y _ _ _ E6).
  destruct (parse_body ty bodyb) as [[b pad]|]; [|discriminate].
  intros H. inversion H; subst. reflexivity.
Qed.

Lemma parse_rec_nil : parse_rec [] = None.
Proof. reflexivity. Qed.

(** * Whole logs *)

Lemma parse_fuel_enough f1 : forall f2 inp, (length inp <= f1)%nat -> (length inp <= f2)%nat ->
  parse_fuel f1 inp = parse_fuel f2 inp.
Proof.
  induction f1 as [|f1 IH]; intros f2 inp H1 H2.
  - destruct inp; [|cbn in H1; lia]. destruct f2; reflexivity.
  - destruct f2 as [|f2].
    + destruct inp; [|cbn in H2; lia]. reflexivity.
    + cbn [parse_fuel]. destruct (parse_rec inp) as [[r rest]|] eqn:E; [|reflexivity].
      apply parse_rec_shrinks in E.
      rewrite (IH f2 rest) by lia. reflexivity.
Qed.

Lemma parse_all_fuel f inp : (length inp <= f)%nat -> parse_fuel f inp = parse_all inp.
Proof. intros H. unfold parse_all. apply parse_fuel_enough; lia. Qed.

Lemma parse_all_step inp :
  parse_all inp =
  match parse_rec inp with
  | None => ([], inp)
  | Some (r, rest) => (r :: fst (parse_all rest), snd (parse_all rest))
  end.
Proof.
  unfold parse_all at 1. destruct (length inp) as [|n] eqn:L.
  - destruct inp; [|discriminate]. reflexivity.
  - cbn [parse_fuel]. destruct (parse_rec inp) as [[r rest]|] eqn:E; [|reflexivity].
    apply parse_rec_shrinks in E.
    rewrite (parse_all_fuel n rest) by lia.
    destruct (parse_all rest); reflexivity.
Qed.

Lemma parse_fuel_app f : forall x y rs, (length x <= f)%nat ->
  parse_fuel f x = (rs, []) ->
  parse_all (x ++ y) = (rs ++ fst (parse_all y), snd (parse_all y)).
Proof.
  induction f as [|f IH]; intros x y rs Hf H.
  - destruct x; [|cbn in Hf; lia]. cbn in H. inversion H; subst. change ([] ++ y) with y.
    destruct (parse_all y); reflexivity.
  - cbn [parse_fuel] in H. destruct (parse_rec x) as [[r rest]|] eqn:E.
    + destruct (parse_fuel f rest) as [rs' left] eqn:E2. inversion H; subst.
      rewrite parse_all_step. rewrite (parse_rec_app _ y _ _ E).
      pose proof (parse_rec_shrinks _ _ _ E).
      rewrite (IH rest y rs') by (try lia; exact E2). reflexivity.
    + inversion H; subst. change ([] ++ y) with y. destruct (parse_all y); reflexivity.
Qed.

(** a completely parsed log stays parsed, record for record, whatever is appended *)
Lemma parse_all_app x y rs :
  parse_all x = (rs, []) ->
  parse_all (x ++ y) = (rs ++ fst (parse_all y), snd (parse_all y)).
Proof. intros H. apply (parse_fuel_app (length x)); [lia | exact H]. Qed.

Lemma parse_all_ser_cons r y : wf_rec r ->
  parse_all (ser_rec r ++ y) = (r :: fst (parse_all y), snd (parse_all y)).
Proof. intros H. rewrite parse_all_step, parse_rec_ser by exact H. reflexivity. Qed.

Lemma roundtrip_app rs : Forall wf_rec rs -> forall y,
  parse_all (concat (map ser_rec rs) ++ y) = (rs ++ fst (parse_all y), snd (parse_all y)).
Proof.
  induction 1 as [|r rs Hr _ IH]; intros y.
  - change (concat (map ser_rec []) ++ y) with y. destruct (parse_all y); reflexivity.
  - cbn [map concat]. rewrite <- app_assoc. rewrite parse_all_ser_cons by exact Hr.
    rewrite IH. reflexivity.
Qed.

Lemma roundtrip rs : Forall wf_rec rs -> parse_all (concat (map ser_rec rs)) = (rs, []).
Proof.
  intros H. pose proof (roundtrip_app rs H []) as E. rewrite !app_nil_r in E. exact E.
Qed.

(** appending complete records to a completely parsed log *)
Lemma prefix_stable x rs more : parse_all x = (rs, []) -> Forall wf_rec more ->
  parse_all (x ++ concat (map ser_rec more)) = (rs ++ more, []).
Proof.
  intros H Hm. rewrite (parse_all_app _ _ _ H). rewrite roundtrip by exact Hm. reflexivity.
Qed.

(** * The other direction: what the reader accepts is what the writer writes *)

Lemma le4_le_dec w : lenN w = 4 -> bytes_ok w = true -> le 4 (le_dec w) = w.
Proof.
  unfold lenN. intros L B.
  destruct w as [|a [|b [|c [|d [|e w]]]]]; cbn [length] in L; try lia.
  unfold bytes_ok in B. cbn [forallb] in B. unfold is_byte in B.
  cbn [le le_dec].
  assert (Ha : a < 256) by lia. assert (Hb : b < 256) by lia.
  assert (Hc : c < 256) by lia. assert (Hd : d < 256) by lia.
  clear B L.
  replace ((a + 256 * (b + 256 * (c + 256 * (d + 256 * 0)))) mod 256) with a by lia.
  replace ((a + 256 * (b + 256 * (c + 256 * (d + 256 * 0)))) / 256) with (b + 256 * (c + 256 * d)) by lia.
  replace ((b + 256 * (c + 256 * d)) mod 256) with b by lia.
  replace ((b + 256 * (c + 256 * d)) / 256) with (c + 256 * d) by lia.
  replace ((c + 256 * d) mod 256) with c by lia.
  replace ((c + 256 * d) / 256) with d by lia.
  replace (d mod 256) with d by lia.
  reflexivity.
Qed.

Lemma le_dec_lt w : lenN w = 4 -> bytes_ok w = true -> le_dec w < pow2_32N.
Proof.
  unfold lenN. intros L B.
  destruct w as [|a [|b [|c [|d [|e w]]]]]; cbn [length] in L; try lia.
  unfold bytes_ok in B. cbn [forallb] in B. unfold is_byte in B.
  cbn [le_dec]. unfold pow2_32N. lia.
Qed.

Lemma bytes_ok_app a b : bytes_ok (a ++ b) = bytes_ok a && bytes_ok b.
Proof. unfold bytes_ok. apply forallb_app. Qed.

Lemma get32_back l v rest : get32 l = Some (v, rest) -> bytes_ok l = true ->
  l = le 4 v ++ rest /\ v < pow2_32N /\ bytes_ok rest = true.
Proof.
  intros H B. apply get32_inv in H. destruct H as (w & -> & L & ->).
  rewrite bytes_ok_app in B. apply andb_prop in B. destruct B as [B1 B2].
  rewrite le4_le_dec by assumption. repeat split; auto. apply le_dec_lt; assumption.
Qed.

Lemma get_tuple_back l t rest : get_tuple l = Some (t, rest) -> bytes_ok l = true ->
  l = ser_tuple t ++ rest /\ bytes_ok rest = true.
Proof.
  unfold get_tuple. destruct (get32 l) as [[n r]|] eqn:E; [|discriminate].
  intros H B. apply get32_back in E; [|exact B]. destruct E as (-> & Hn & Br).
  apply split_at_inv in H. destruct H as [-> L].
  rewrite bytes_ok_app in Br. apply andb_prop in Br.
  unfold ser_tuple. rewrite L. rewrite <- app_assoc. tauto.
Qed.

Lemma u32_of_s_of_u32 n : n < pow2_32N -> u32_of_s (s_of_u32 n) = n /\ s32_ok (s_of_u32 n).
Proof.
  unfold s32_ok, s_of_u32, u32_of_s, pow2_31, pow2_32, pow2_32N. intros H.
  destruct (N.ltb_spec n 2147483648); lia.
Qed.

Lemma parse_body_back ty bodyb b pad : parse_body ty bodyb = Some (b, pad) -> bytes_ok bodyb = true ->
  bodyb = ser_body b ++ pad /\ shape_matches ty b /\ body_words_ok b.
Proof.
  unfold parse_body, shape_matches. intros H B. destruct (shape_of ty).
  - inversion H; subst. cbn. auto.
  - destruct (get32 bodyb) as [[p b1]|] eqn:E1; [|discriminate].
    destruct (get32 b1) as [[s b2]|] eqn:E2; [|discriminate].
    destruct (get_tuple b2) as [[t pad']|] eqn:E3; [|discriminate].
    inversion H; subst.
    apply get32_back in E1; [|exact B]. destruct E1 as (-> & Hp & B1).
    apply get32_back in E2; [|exact B1]. destruct E2 as (-> & Hs & B2).
    apply get_tuple_back in E3; [|exact B2]. destruct E3 as (-> & B3).
    cbn [ser_body body_words_ok]. rewrite <- !app_assoc. auto.
  - destruct (get32 bodyb) as [[p b1]|] eqn:E1; [|discriminate].
    destruct (get32 b1) as [[s b2]|] eqn:E2; [|discriminate].
    destruct (get_tuple b2) as [[o b3]|] eqn:E3; [|discriminate].
    destruct (get_tuple b3) as [[n pad']|] eqn:E4; [|discriminate].
    inversion H; subst.
    apply get32_back in E1; [|exact B]. destruct E1 as (-> & Hp & B1).
    apply get32_back in E2; [|exact B1]. destruct E2 as (-> & Hs & B2).
    apply get_tuple_back in E3; [|exact B2]. destruct E3 as (-> & B3).
    apply get_tuple_back in E4; [|exact B3]. destruct E4 as (-> & B4).
    cbn [ser_body body_words_ok]. rewrite <- !app_assoc. auto.
  - destruct (get32 bodyb) as [[p b1]|] eqn:E1; [|discriminate].
    destruct (get32 b1) as [[s pad']|] eqn:E2; [|discriminate].
    inversion H; subst.
    apply get32_back in E1; [|exact B]. destruct E1 as (-> & Hp & B1).
    apply get32_back in E2; [|exact B1]. destruct E2 as (-> & Hs & B2).
    cbn [ser_body body_words_ok]. rewrite <- !app_assoc. auto.
  - destruct (get32 bodyb) as [[p pad']|] eqn:E1; [|discriminate].
    inversion H; subst.
    apply get32_back in E1; [|exact B]. destruct E1 as (-> & Hp & B1).
    cbn [ser_body body_words_ok]. auto.
Qed.

(** every record the reader accepts from a byte string is well formed, and writing it gives
    exactly the bytes it was read from *)
Lemma parse_rec_back inp r rest : parse_rec inp = Some (r, rest) -> bytes_ok inp = true ->
  inp = ser_rec r ++ rest /\ wf_rec r.
Proof.
  unfold parse_rec. intros H B.
  destruct (get32 inp) as [[size i1]|] eqn:E1; [|discriminate].
  destruct (get32 i1) as [[lsn i2]|] eqn:E2; [|discriminate].
  destruct (get32 i2) as [[txn i3]|] eqn:E3; [|discriminate].
  destruct (get32 i3) as [[prev i4]|] eqn:E4; [|discriminate].
  destruct (get32 i4) as [[ty i5]|] eqn:E5; [|discriminate].
  destruct (N.ltb_spec size log_header_size) as [|Hsz]; [discriminate|].
  destruct (split_at i5 (size - log_header_size) []) as [[bodyb rest']|] eqn:E6; [|discriminate].
  destruct (parse_body ty bodyb) as [[b pad]|] eqn:E7; [|discriminate].
  inversion H; subst; clear H.
  apply get32_back in E1; [|exact B]. destruct E1 as (-> & H1 & B1).
  apply get32_back in E2; [|exact B1]. destruct E2 as (-> & H2 & B2).
  apply get32_back in E3; [|exact B2]. destruct E3 as (-> & H3 & B3).
  apply get32_back in E4; [|exact B3]. destruct E4 as (-> & H4 & B4).
  apply get32_back in E5; [|exact B4]. destruct E5 as (-> & H5 & B5).
  apply split_at_inv in E6. destruct E6 as [-> L].
  rewrite bytes_ok_app in B5. apply andb_prop in B5. destruct B5 as [B6 B7].
  apply parse_body_back in E7; [|exact B6]. destruct E7 as (-> & Hsh & Hw).
  destruct (u32_of_s_of_u32 lsn H2) as [X2 Y2].
  destruct (u32_of_s_of_u32 txn H3) as [X3 Y3].
  destruct (u32_of_s_of_u32 prev H4) as [X4 Y4].
  split.
  - unfold ser_rec. cbn [f_size f_lsn f_txn f_prev f_type f_body f_pad].
    rewrite X2, X3, X4. rewrite <- !app_assoc. reflexivity.
  - unfold wf_rec. cbn [f_size f_lsn f_txn f_prev f_type f_body f_pad].
    rewrite lenN_app in L. unfold log_header_size in *.
    repeat split; try assumption; try (apply Y2); try (apply Y3); try (apply Y4). lia.
Qed.

Lemma parse_fuel_back f : forall inp rs left, parse_fuel f inp = (rs, left) -> bytes_ok inp = true ->
  inp = concat (map ser_rec rs) ++ left /\ Forall wf_rec rs.
Proof.
  induction f as [|f IH]; intros inp rs left H B; cbn [parse_fuel] in H.
  - inversion H; subst. cbn. auto.
  - destruct (parse_rec inp) as [[r rest]|] eqn:E.
    + destruct (parse_fuel f rest) as [rs' left'] eqn:E2. inversion H; subst.
      apply parse_rec_back in E; [|exact B]. destruct E as [-> Hr].
      rewrite bytes_ok_app in B. apply andb_prop in B. destruct B as [_ B].
      destruct (IH _ _ _ E2 B) as [-> Hrs].
      cbn [map concat]. rewrite <- app_assoc. auto.
    + inversion H; subst. cbn. auto.
Qed.

Lemma parse_all_back inp rs left : parse_all inp = (rs, left) -> bytes_ok inp = true ->
  inp = concat (map ser_rec rs) ++ left /\ Forall wf_rec rs.
Proof. apply parse_fuel_back. Qed.
