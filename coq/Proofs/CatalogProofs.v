From Coq Require Import List NArith Bool Lia.
From SDB Require Import Model.Catalog.
Import ListNotations.
Open Scope N_scope.

Definition CInv (c : cat) : Prop :=
  NoDup (map fst (tabs c)) /\ (forall o, In o (map fst (tabs c)) -> o < next_id c).

Lemma max_oid_ge l o : In o (map fst l) -> o <= max_oid l.
Proof.
  induction l as [|e l IH]; cbn [map In max_oid fold_right]; [tauto|].
  intros [<-|H]; [lia|]. specialize (IH H). unfold max_oid in IH. lia.
Qed.

Lemma NoDup_snoc {A} (l : list A) x : NoDup l -> ~ In x l -> NoDup (l ++ [x]).
Proof.
  intros Hnd Hx. induction Hnd as [|y l Hy Hnd IH]; cbn [app].
  - constructor; [tauto|constructor].
  - constructor.
    + rewrite in_app_iff. cbn [In]. intros [H|[H|[]]]; [tauto|]. subst. apply Hx. now left.
    + apply IH. intros H. apply Hx. now right.
Qed.

Lemma cinv_step c o : CInv c -> CInv (cstep1 reload c o).
Proof.
  intros [Hnd Hlt]. destruct o as [fp|]; unfold CInv, cstep1, reload; cbn [tabs next_id].
  - split.
    + rewrite map_app. cbn [map fst]. apply NoDup_snoc; [exact Hnd|].
      intros Hin. apply Hlt in Hin. lia.
    + intros o. rewrite map_app, in_app_iff. cbn [map fst In].
      intros [H|[<-|[]]]; [apply Hlt in H|]; lia.
  - split; [exact Hnd|]. intros o H. apply max_oid_ge in H. lia.
Qed.

Lemma cinv_bootstrap fp : CInv (bootstrap fp).
Proof.
  split; cbn.
  - constructor; [tauto|constructor].
  - intros o [<-|[]]. lia.
Qed.

Lemma cinv_run ops : forall c, CInv c -> CInv (crun1 reload ops c).
Proof.
  induction ops as [|o ops IH]; intros c H; cbn [crun1 fold_left]; [exact H|].
  apply IH. now apply cinv_step.
Qed.

(** no two live tables share an oid, after any sequence of CREATE TABLE / restart *)
Lemma oids_unique_lemma fp ops : NoDup (map fst (tabs (crun1 reload ops (bootstrap fp)))).
Proof. apply (cinv_run ops (bootstrap fp) (cinv_bootstrap fp)). Qed.

(** a table created after any history gets an oid no existing table has *)
Lemma create_fresh_lemma fp ops fp' :
  let c := crun1 reload ops (bootstrap fp) in
  ~ In (next_id c) (map fst (tabs c)) /\
  tabs (cstep1 reload c (Create fp')) = tabs c ++ [(next_id c, fp')].
Proof.
  cbn zeta. split; [|reflexivity].
  destruct (cinv_run ops (bootstrap fp) (cinv_bootstrap fp)) as [_ Hlt].
  intros H. apply Hlt in H. lia.
Qed.

(** existing tables are never disturbed: every step only appends *)
Lemma tabs_monotone ops : forall c, exists ext, tabs (crun1 reload ops c) = tabs c ++ ext.
Proof.
  induction ops as [|o ops IH]; intros c; cbn [crun1 fold_left].
  - exists []. now rewrite app_nil_r.
  - destruct (IH (cstep1 reload c o)) as [ext E]. fold (crun1 reload ops (cstep1 reload c o)). rewrite E.
    destruct o as [fp|]; cbn [cstep1 reload tabs].
    + rewrite <- app_assoc. eexists; reflexivity.
    + eexists; reflexivity.
Qed.

(** first pages: distinct inputs give distinct first pages *)
Lemma pages_are_inputs ops : forall c,
  map snd (tabs (crun1 reload ops c)) = map snd (tabs c) ++ pages_of_ops ops.
Proof.
  induction ops as [|o ops IH]; intros c; cbn [crun1 fold_left pages_of_ops].
  - now rewrite app_nil_r.
  - fold (crun1 reload ops (cstep1 reload c o)). rewrite IH.
    destruct o as [fp|]; cbn [cstep1 reload tabs pages_of_ops].
    + rewrite map_app. cbn [map snd]. rewrite <- app_assoc. reflexivity.
    + reflexivity.
Qed.

Lemma storage_disjoint_lemma fp ops : NoDup (fp :: pages_of_ops ops) ->
  NoDup (map snd (tabs (crun1 reload ops (bootstrap fp)))).
Proof. intros H. rewrite pages_are_inputs. exact H. Qed.

(** the pinned tree before the fix: oid 1 is handed out twice *)
Lemma reload_hardcoded_refuted_lemma :
  exists ops, ~ NoDup (map fst (tabs (crun1 reload_hardcoded ops (bootstrap 0)))).
Proof.
  exists [Create 2; Create 3; Restart; Create 4]. vm_compute.
  intros H. inversion H as [|? ? _ H1]; subst. inversion H1 as [|? ? Hn _]; subst.
  apply Hn. right. now left.
Qed.
