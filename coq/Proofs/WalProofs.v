(** Proofs about write-ahead logging and restart recovery (Model/Wal.v), used by
    Props/C01.v, Props/C02.v and Props/C20.v.  Axiom-free; standard library only. *)
From Coq Require Import List NArith Bool PeanoNat Lia ZifyBool ZifyN ZifyNat Permutation.
From SDB Require Import Params Base.Assoc Model.Page Model.Wal Proofs.PageLemmas Proofs.LockProofs.
From SDB Require Export Proofs.WalLemmas.
Import ListNotations.
Open Scope N_scope.

(* ------------------------------------------------------------------ *)
(** * Additional checkable hypotheses

    [image_wf] alone does not imply the recovery theorems (see the
    counterexamples at the end of this file); these predicates close the gaps. *)

Definition opt_eqb (a b : option N) : bool :=
  match a, b with
  | None, None => true
  | Some x, Some y => x =? y
  | _, _ => false
  end.

(** Records without a meaningful LSN ([KOther]) do not interfere with the undo
    walk: none carries an unfinished transaction's id, and if the LSN field of
    one coincides with the LSN of an unfinished transaction's record, that
    record has no page and the same prevLSN (so that finding the wrong one is
    harmless). *)
Definition others_ok (l : list lrec) : bool :=
  forallb (fun r => has_lsn (l_kind r) ||
     (negb (memN (l_txn r) (losers l)) &&
      forallb (fun r' => negb (has_lsn (l_kind r') && (l_lsn r' =? l_lsn r) && memN (l_txn r') (losers l)) ||
                         (match page_of (l_kind r') with None => true | Some _ => false end &&
                          opt_eqb (l_prev r') (l_prev r))) l)) l.

(** A ROLLBACKDELETE record of an unfinished transaction found its row delete-marked
    (it is the inverse of the transaction's own MARKDELETE). *)
Fixpoint rollbacks_marked_from (ls : list N) (l : list lrec) (ps : pages) : bool :=
  match l with
  | [] => true
  | r :: rest =>
      (match l_kind r with
       | KRollback p s =>
           negb (memN (l_txn r) ls) ||
           match a_at (pslots (get_page ps p)) s with Some (Some (_, true)) => true | _ => false end
       | _ => true
       end) && rollbacks_marked_from ls rest (do_rec ps r)
  end.
Definition loser_rollbacks_marked (l : list lrec) : bool := rollbacks_marked_from (losers l) l [].

(** Updates of unfinished transactions do not shrink rows (forward updates of the engine
    never do: ErrRollbackDifficult); then the undo of an update always fits. *)
Definition loser_updates_grow (l : list lrec) : bool :=
  forallb (fun r => negb (memN (l_txn r) (losers l)) ||
                    match l_kind r with KUpdate _ _ old new => blen old <=? blen new | _ => true end) l.

(* ------------------------------------------------------------------ *)
(** * List facts *)

Lemma filter_rev {A} (f : A -> bool) : forall l, filter f (rev l) = rev (filter f l).
Proof.
  induction l as [|x l IH]; [reflexivity|]. cbn [rev filter]. rewrite filter_app, IH. cbn [filter].
  destruct (f x); [reflexivity | apply app_nil_r].
Qed.

Lemma filter_length {A} (f : A -> bool) : forall l, (length (filter f l) <= length l)%nat.
Proof. induction l as [|x l IH]; cbn; [lia|]. destruct (f x); cbn; lia. Qed.

Lemma filter_nil {A} (f : A -> bool) : forall l, (forall x, In x l -> f x = false) -> filter f l = [].
Proof.
  induction l as [|x l IH]; intros H; [reflexivity|]. cbn [filter].
  rewrite (H x (or_introl eq_refl)). apply IH. intros y Hy. apply H. right. exact Hy.
Qed.

Lemma filter_all {A} (f : A -> bool) : forall l, (forall x, In x l -> f x = true) -> filter f l = l.
Proof.
  induction l as [|x l IH]; intros H; [reflexivity|]. cbn [filter].
  rewrite (H x (or_introl eq_refl)). f_equal. apply IH. intros y Hy. apply H. right. exact Hy.
Qed.

Lemma filter_filter_keep {A} (f g : A -> bool) : forall l,
  (forall x, In x l -> g x = true -> f x = true) -> filter g (filter f l) = filter g l.
Proof.
  induction l as [|x l IH]; intros H; [reflexivity|]. cbn [filter].
  assert (IH' : filter g (filter f l) = filter g l) by (apply IH; intros y Hy; apply H; right; exact Hy).
  destruct (f x) eqn:Ef; cbn [filter].
  - rewrite IH'. reflexivity.
  - destruct (g x) eqn:Eg; [|exact IH'].
    rewrite (H x (or_introl eq_refl) Eg) in Ef. discriminate.
Qed.

Lemma first_split {A} (f : A -> bool) : forall l, existsb f l = true ->
  exists pre x post, l = pre ++ x :: post /\ f x = true /\ forall y, In y pre -> f y = false.
Proof.
  induction l as [|a l IH]; intros H; [discriminate|]. cbn [existsb] in H.
  destruct (f a) eqn:Ea.
  - exists [], a, l. split; [reflexivity|]. split; [exact Ea|]. intros y [].
  - cbn [orb] in H. destruct (IH H) as (pre & x & post & E & Hx & Hp).
    exists (a :: pre), x, post. split; [rewrite E; reflexivity|]. split; [exact Hx|].
    intros y [<-|Hy]; [exact Ea | apply Hp; exact Hy].
Qed.

Lemma nodupN_In x : forall l, In x (nodupN l) <-> In x l.
Proof.
  induction l as [|y l IH]; cbn [nodupN]; [tauto|].
  destruct (memN y l) eqn:E.
  - rewrite IH. split; [intros H; right; exact H|]. intros [<-|H]; [apply memN_In; exact E | exact H].
  - cbn [In]. rewrite IH. tauto.
Qed.

Lemma nodupN_NoDup : forall l, NoDup (nodupN l).
Proof.
  induction l as [|y l IH]; cbn [nodupN]; [constructor|].
  destruct (memN y l) eqn:E; [exact IH|]. constructor; [|exact IH].
  rewrite nodupN_In. apply memN_false. exact E.
Qed.

Lemma losers_NoDup l : NoDup (losers l).
Proof. apply nodupN_NoDup. Qed.

Lemma losers_not_ended l t : In t (losers l) -> ended l t = false.
Proof.
  unfold losers. rewrite nodupN_In, filter_In. intros [_ H]. apply negb_true_iff in H. exact H.
Qed.

(* ------------------------------------------------------------------ *)
(** * Undo of a list of records; the walk along a prevLSN chain *)

Fixpoint undo_list_outs (rs : list lrec) (ps : pages) : list pout :=
  match rs with
  | [] => []
  | r :: rest => undo_out ps r ++ undo_list_outs rest (undo_rec ps r)
  end.

Lemma undo_list_outs_app : forall r1 r2 ps,
  undo_list_outs (r1 ++ r2) ps = undo_list_outs r1 ps ++ undo_list_outs r2 (fold_left undo_rec r1 ps).
Proof.
  induction r1 as [|r r1 IH]; intros r2 ps; [reflexivity|].
  cbn [app undo_list_outs fold_left]. rewrite IH, app_assoc. reflexivity.
Qed.

(** the LSN-carrying records of a transaction, in log order *)
Definition txn_recs (l : list lrec) (t : N) : list lrec :=
  filter (fun r => has_lsn (l_kind r) && (l_txn r =? t)) l.

Fixpoint chain_list (start : option N) (rs : list lrec) : Prop :=
  match rs with
  | [] => True
  | r :: rest => l_prev r = start /\ chain_list (Some (l_lsn r)) rest
  end.

Lemma chains_struct t : forall l lastof, chains_ok_from l lastof = true ->
  chain_list (aget lastof t) (txn_recs l t).
Proof.
  induction l as [|r l IH]; intros lastof H; [exact I|].
  cbn [chains_ok_from] in H. unfold txn_recs. cbn [filter]. fold (txn_recs l t).
  destruct (has_lsn (l_kind r)) eqn:Eh; cbn [andb].
  - apply andb_true_iff in H. destruct H as [H1 H2]. specialize (IH _ H2).
    destruct (N.eqb_spec (l_txn r) t) as [E|E].
    + subst t. rewrite aget_aset_same in IH. cbn [chain_list]. split; [|exact IH].
      destruct (l_prev r) as [a|], (aget lastof (l_txn r)) as [b|]; try discriminate; [|reflexivity].
      apply N.eqb_eq in H1. subst. reflexivity.
    + rewrite aget_aset_other in IH by exact E. exact IH.
  - apply IH. exact H.
Qed.

Definition hd_lsn (w : list lrec) : option N :=
  match w with [] => None | r :: _ => Some (l_lsn r) end.

(** a chain, read backwards *)
Fixpoint rchain (start : option N) (w : list lrec) : Prop :=
  match w with
  | [] => True
  | r :: rest => l_prev r = (match rest with [] => start | r' :: _ => Some (l_lsn r') end) /\ rchain start rest
  end.

Lemma rchain_snoc start r : forall w, rchain (Some (l_lsn r)) w -> l_prev r = start -> rchain start (w ++ [r]).
Proof.
  induction w as [|x w IH]; intros H Hp; cbn [app rchain]; [split; [exact Hp | exact I]|].
  cbn [rchain] in H. destruct H as [H1 H2]. split; [|apply IH; assumption].
  destruct w as [|y w]; cbn [app]; exact H1.
Qed.

Lemma chain_rev : forall rs start, chain_list start rs -> rchain start (rev rs).
Proof.
  induction rs as [|r rs IH]; intros start H; [exact I|].
  cbn [chain_list] in H. destruct H as [H1 H2]. cbn [rev]. apply rchain_snoc; [apply IH; exact H2 | exact H1].
Qed.

(** looking up the record's LSN finds a record with the same undo behaviour *)
Definition find_good (l : list lrec) (r : lrec) : Prop :=
  exists r', find_lsn l (l_lsn r) = Some r' /\ l_prev r' = l_prev r /\
             forall ps, undo_rec ps r' = undo_rec ps r /\ undo_out ps r' = undo_out ps r.

Lemma walk l : forall w fuel ps, rchain None w -> (forall r, In r w -> find_good l r) ->
  (length w <= fuel)%nat ->
  undo_chain fuel l ps (hd_lsn w) = fold_left undo_rec w ps /\
  undo_chain_outs fuel l ps (hd_lsn w) = undo_list_outs w ps.
Proof.
  induction w as [|r w IH]; intros fuel ps Hc Hf Hlen.
  - cbn [hd_lsn fold_left undo_list_outs]. destruct fuel; split; reflexivity.
  - destruct fuel as [|f]; [cbn in Hlen; lia|].
    cbn [rchain] in Hc. destruct Hc as [Hc1 Hc2].
    destruct (Hf r (or_introl eq_refl)) as (r' & Hfind & Hprev & Hsame).
    cbn [hd_lsn undo_chain undo_chain_outs fold_left undo_list_outs]. rewrite Hfind, Hprev.
    destruct (Hsame ps) as [-> ->].
    assert (E : l_prev r = hd_lsn w) by (rewrite Hc1; destruct w; reflexivity).
    rewrite E.
    destruct (IH f (undo_rec ps r) Hc2 (fun x Hx => Hf x (or_intror Hx)) ltac:(cbn in Hlen; lia)) as [-> ->].
    split; reflexivity.
Qed.

Lemma last_of_eq l t : (forall r, In r l -> l_txn r = t -> has_lsn (l_kind r) = true) ->
  last_of l t = hd_lsn (rev (txn_recs l t)).
Proof.
  intros H. unfold last_of. rewrite filter_rev.
  replace (filter (fun r => l_txn r =? t) l) with (txn_recs l t); [reflexivity|].
  unfold txn_recs. apply filter_ext_in. intros r Hr.
  destruct (N.eqb_spec (l_txn r) t) as [E|E]; [|apply andb_false_r].
  rewrite (H r Hr E). reflexivity.
Qed.

(** consequences of [others_ok] *)
Lemma others_ok_txn l r : others_ok l = true -> In r l -> memN (l_txn r) (losers l) = true ->
  has_lsn (l_kind r) = true.
Proof.
  intros H Hr Hm. unfold others_ok in H. rewrite forallb_forall in H. specialize (H r Hr).
  destruct (has_lsn (l_kind r)); [reflexivity|]. cbn [orb] in H. rewrite Hm in H. discriminate.
Qed.

Lemma others_ok_lsn l r r' : others_ok l = true -> In r l -> In r' l ->
  has_lsn (l_kind r) = false -> has_lsn (l_kind r') = true -> l_lsn r' = l_lsn r ->
  memN (l_txn r') (losers l) = true ->
  page_of (l_kind r') = None /\ l_prev r' = l_prev r.
Proof.
  intros H Hr Hr' Hh Hh' El Hm. unfold others_ok in H. rewrite forallb_forall in H. specialize (H r Hr).
  rewrite Hh in H. cbn [orb] in H. apply andb_true_iff in H. destruct H as [_ H].
  rewrite forallb_forall in H. specialize (H r' Hr').
  rewrite Hh', Hm, El, N.eqb_refl in H. cbn [andb negb orb] in H.
  apply andb_true_iff in H. destruct H as [H1 H2].
  split.
  - destruct (page_of (l_kind r')); [discriminate | reflexivity].
  - destruct (l_prev r') as [a|], (l_prev r) as [b|]; cbn in H2; try discriminate; [|reflexivity].
    apply N.eqb_eq in H2. subst. reflexivity.
Qed.

Lemma find_good_loser l r : log_ok l = true -> others_ok l = true -> In r l ->
  has_lsn (l_kind r) = true -> memN (l_txn r) (losers l) = true -> find_good l r.
Proof.
  intros Hl Ho Hr Hh Hm. unfold find_good, find_lsn.
  destruct (find (fun r0 => l_lsn r0 =? l_lsn r) l) as [r'|] eqn:Ef.
  - apply find_some in Ef. destruct Ef as [Hr' El]. apply N.eqb_eq in El.
    exists r'. split; [reflexivity|].
    destruct (has_lsn (l_kind r')) eqn:Eh'.
    + destruct (log_lsns _ _ _ Hl) as [_ U]. rewrite (U r' r Hr' Hr Eh' Hh El).
      split; [reflexivity|]. intros ps. split; reflexivity.
    + destruct (others_ok_lsn l r' r Ho Hr' Hr Eh' Hh (eq_sym El) Hm) as [Hp Hprev].
      split; [symmetry; exact Hprev|]. intros ps.
      assert (Hp' : page_of (l_kind r') = None) by (destruct (l_kind r'); cbn in Eh'; try discriminate; reflexivity).
      rewrite !undo_rec_nopage, !undo_out_nopage by assumption. split; reflexivity.
  - exfalso. apply (find_none _ _ Ef) in Hr. rewrite N.eqb_refl in Hr. discriminate.
Qed.

(** the undo of one unfinished transaction is the undo of its records, last first *)
Lemma undo_chain_loser l t ps : log_ok l = true -> chains_ok l = true -> others_ok l = true ->
  In t (losers l) ->
  undo_chain (length l) l ps (last_of l t) = fold_left undo_rec (rev (txn_recs l t)) ps /\
  undo_chain_outs (length l) l ps (last_of l t) = undo_list_outs (rev (txn_recs l t)) ps.
Proof.
  intros Hl Hc Ho Ht. apply memN_In in Ht.
  rewrite last_of_eq.
  - apply walk.
    + apply chain_rev. apply (chains_struct t l [] Hc).
    + intros r Hr. apply in_rev in Hr. unfold txn_recs in Hr. apply filter_In in Hr.
      destruct Hr as [Hr Hf]. apply andb_true_iff in Hf. destruct Hf as [Hh Et]. apply N.eqb_eq in Et.
      apply find_good_loser; try assumption. rewrite Et. exact Ht.
    + rewrite rev_length. apply filter_length.
  - intros r Hr Et. apply (others_ok_txn l r Ho Hr). rewrite Et. exact Ht.
Qed.

Definition undo_seq (l : list lrec) (order : list N) : list lrec :=
  flat_map (fun t => rev (txn_recs l t)) order.

Lemma undo_all_seq l : log_ok l = true -> chains_ok l = true -> others_ok l = true ->
  forall order ps, (forall t, In t order -> In t (losers l)) ->
  undo_all l order ps = fold_left undo_rec (undo_seq l order) ps /\
  undo_all_outs l order ps = undo_list_outs (undo_seq l order) ps.
Proof.
  intros Hl Hc Ho. induction order as [|t order IH]; intros ps Hin; [split; reflexivity|].
  destruct (undo_chain_loser l t ps Hl Hc Ho (Hin t (or_introl eq_refl))) as [E1 E2].
  unfold undo_all, undo_seq. cbn [fold_left flat_map undo_all_outs]. fold (undo_seq l order).
  rewrite fold_left_app, undo_list_outs_app, E1, E2.
  destruct (IH (fold_left undo_rec (rev (txn_recs l t)) ps) (fun x Hx => Hin x (or_intror Hx))) as [IH1 IH2].
  unfold undo_all in IH1. rewrite IH1, IH2. split; reflexivity.
Qed.

(* ------------------------------------------------------------------ *)
(** * The slot-level view of undo *)

Definition is_apply (r : lrec) : bool := match l_kind r with KApply _ _ _ => true | _ => false end.

Lemma slot_inv k p s : slot_of k = Some (p, s) -> exists o, inv_of k = Some o.
Proof. destruct k; cbn; intros H; try discriminate; eexists; reflexivity. Qed.

Lemma a_undo_slot a k p0 s0 o : slot_of k = Some (p0, s0) -> inv_of k = Some o ->
  (match k with KApply _ _ _ => False | _ => True end) ->
  (forall s, s <> s0 -> aval (fst (astep a o)) s = aval a s) /\
  (out_ok (snd (astep a o)) = true -> aval (fst (astep a o)) s0 = slot_step (aval a s0) (inv_kind k)).
Proof.
  destruct k as [p' s' b|p' s'|p' s' b|p' s'|p' s' old new| | | |pv p'| |]; cbn [slot_of inv_of inv_kind];
    intros Hs Ho Hk; try discriminate; try contradiction; inversion Hs; inversion Ho; subst; clear Hs Ho;
    cbn [astep].
  - destruct (a_at a s0) as [[e|]|] eqn:E; cbn [fst snd out_ok]; (split; [reflexivity || idtac | try discriminate]).
    + intros s Hne. rewrite (aval_set_at _ _ _ _ _ E). destruct (N.eqb_spec s0 s); [congruence | reflexivity].
    + intros _. rewrite (aval_set_at _ _ _ _ _ E), N.eqb_refl. reflexivity.
  - destruct (a_at a s0) as [[[b m]|]|] eqn:E; cbn [fst snd out_ok]; (split; [reflexivity || idtac | try discriminate]).
    + intros s Hne. rewrite (aval_set_at _ _ _ _ _ E). destruct (N.eqb_spec s0 s); [congruence | reflexivity].
    + intros _. rewrite (aval_set_at _ _ _ _ _ E), N.eqb_refl. unfold aval. rewrite E. reflexivity.
  - destruct (a_at a s0) as [[[b [|]]|]|] eqn:E; cbn [fst snd out_ok]; (split; [reflexivity || idtac | try discriminate]).
    + intros s Hne. rewrite (aval_set_at _ _ _ _ _ E). destruct (N.eqb_spec s0 s); [congruence | reflexivity].
    + intros _. rewrite (aval_set_at _ _ _ _ _ E), N.eqb_refl. unfold aval. rewrite E. reflexivity.
  - destruct (blen old =? 0); [cbn [fst snd out_ok]; split; [reflexivity | discriminate]|].
    destruct (a_at a s0) as [[[cur [|]]|]|] eqn:E; cbn [fst snd out_ok]; try (split; [reflexivity | discriminate]).
    destruct (a_free a + blen cur <? blen old); [cbn [fst snd out_ok]; split; [reflexivity | discriminate]|].
    rewrite andb_false_r. cbn [fst snd out_ok]. split.
    + intros s Hne. rewrite (aval_set_at _ _ _ _ _ E). destruct (N.eqb_spec s0 s); [congruence | reflexivity].
    + intros _. rewrite (aval_set_at _ _ _ _ _ E), N.eqb_refl. reflexivity.
Qed.

Lemma undo_step_slot ps r p s : is_apply r = false ->
  (on_slot p s r = false -> page_val (undo_rec ps r) p s = page_val ps p s) /\
  (on_slot p s r = true -> forallb out_ok (undo_out ps r) = true ->
   page_val (undo_rec ps r) p s = slot_step (page_val ps p s) (inv_kind (l_kind r))).
Proof.
  intros Hna. destruct (page_of (l_kind r)) as [p'|] eqn:Ep.
  - destruct (N.eq_dec p' p) as [->|Hne].
    + rewrite !page_val_aval. rewrite get_undo_same by exact Ep.
      destruct (page_slot_or_new _ _ Ep) as [(s0 & Hs & _)|(pv & Ek)].
      * destruct (slot_inv _ _ _ Hs) as [o Ho].
        assert (Hk : match l_kind r with KApply _ _ _ => False | _ => True end)
          by (unfold is_apply in Hna; destruct (l_kind r); try exact I; discriminate).
        destruct (a_undo_slot (pslots (get_page ps p)) _ _ _ _ Hs Ho Hk) as [G1 G2].
        unfold on_slot, undo_out, undo_content. rewrite Hs, Ep, Ho, N.eqb_refl. cbn [andb pslots forallb].
        split.
        -- intros E. apply G1. intros ->. rewrite N.eqb_refl in E. discriminate.
        -- intros E Hok. apply N.eqb_eq in E. subst s0. apply G2. rewrite andb_true_r in Hok. exact Hok.
      * unfold on_slot, undo_content. rewrite Ek. cbn [slot_of inv_of]. split; [reflexivity | discriminate].
    + assert (Hos : on_slot p s r = false).
      { unfold on_slot. destruct (slot_of (l_kind r)) as [[p1 s1]|] eqn:Es; [|reflexivity].
        apply slot_page in Es. rewrite Ep in Es. inversion Es; subst p1.
        destruct (N.eqb_spec p' p) as [E|_]; [contradiction | reflexivity]. }
      rewrite Hos. split; [|discriminate]. intros _.
      unfold page_val. rewrite get_undo_other by (rewrite Ep; congruence). reflexivity.
  - assert (Hos : on_slot p s r = false) by (unfold on_slot; rewrite (nopage_noslot _ Ep); reflexivity).
    rewrite Hos. split; [|discriminate]. intros _. rewrite undo_rec_nopage by exact Ep. reflexivity.
Qed.

Lemma undo_list_slot p s : forall w ps, (forall r, In r w -> is_apply r = false) ->
  forallb out_ok (undo_list_outs w ps) = true ->
  page_val (fold_left undo_rec w ps) p s =
  fold_left slot_step (map (fun r => inv_kind (l_kind r)) (filter (on_slot p s) w)) (page_val ps p s).
Proof.
  induction w as [|r w IH]; intros ps Hna Hok; [reflexivity|].
  cbn [undo_list_outs] in Hok. rewrite forallb_app in Hok. apply andb_true_iff in Hok. destruct Hok as [Hok1 Hok2].
  cbn [fold_left filter]. rewrite IH by (try exact Hok2; intros x Hx; apply Hna; right; exact Hx).
  destruct (undo_step_slot ps r p s (Hna r (or_introl eq_refl))) as [G1 G2].
  destruct (on_slot p s r) eqn:Es.
  - rewrite (G2 eq_refl Hok1). reflexivity.
  - rewrite (G1 eq_refl). reflexivity.
Qed.

(* ------------------------------------------------------------------ *)
(** * Slot algebra: undoing a transaction's records on a slot restores it *)

Definition lpre (v : aentry) (k : rkind) : Prop :=
  match k with
  | KRollback _ _ => exists b, v = Some (b, true)
  | KApply _ _ _ => False
  | _ => True
  end.

Fixpoint spre_seq (v : aentry) (ks : list rkind) : Prop :=
  match ks with
  | [] => True
  | k :: rest => spre v k /\ lpre v k /\ spre_seq (slot_step v k) rest
  end.

Lemma slot_step_inv v k : spre v k -> lpre v k -> slot_step (slot_step v k) (inv_kind k) = v.
Proof.
  destruct k; cbn [spre lpre slot_step inv_kind]; intros H1 H2; try reflexivity; try contradiction.
  - subst v. reflexivity.
  - destruct H1 as [b ->]. reflexivity.
  - destruct H2 as [b ->]. reflexivity.
  - subst v. reflexivity.
Qed.

Lemma slot_cancel : forall ks v, spre_seq v ks ->
  fold_left slot_step (map inv_kind (rev ks)) (fold_left slot_step ks v) = v.
Proof.
  induction ks as [|k ks IH]; intros v H; [reflexivity|].
  cbn [spre_seq] in H. destruct H as (H1 & H2 & H3).
  cbn [rev fold_left]. rewrite map_app, fold_left_app, IH by exact H3.
  cbn [map fold_left]. apply slot_step_inv; assumption.
Qed.

(** the statement of C02's [rollback_cancels] *)
Lemma pre_ok_spre v k : pre_ok v k = true -> spre v k /\ lpre v k.
Proof.
  destruct k; cbn [pre_ok spre lpre]; intros H; try discriminate.
  - destruct v; [discriminate|]. split; [reflexivity | exact I].
  - destruct v as [[b [|]]|]; try discriminate. split; [exists b; reflexivity | exact I].
  - destruct v as [[b [|]]|]; try discriminate. apply eqb_bytes_eq in H. subst. split; [reflexivity | exact I].
Qed.

Lemma rollback_cancel : forall v ks, pre_ok_seq v ks = true ->
  fold_left slot_step (map inv_kind (rev ks)) (fold_left slot_step ks v) = v.
Proof.
  intros v ks H. apply slot_cancel. revert v H.
  induction ks as [|k ks IH]; intros v H; [exact I|].
  cbn [pre_ok_seq] in H. apply andb_true_iff in H. destruct H as [H1 H2].
  destruct (pre_ok_spre _ _ H1) as [G1 G2]. cbn [spre_seq]. auto.
Qed.
