(** Proofs about write-ahead logging and restart recovery (Model/Wal.v), used by
    Props/C01.v, Props/C02.v and Props/C20.v.  Axiom-free; standard library only. *)
From Coq Require Import List NArith Bool PeanoNat Lia ZifyBool ZifyN ZifyNat Permutation.
From SDB Require Import Params Base.Assoc Model.Page Model.Wal Proofs.PageLemmas Proofs.LockProofs.
From SDB Require Export Proofs.WalLemmas.
Import ListNotations.
Open Scope N_scope.

(* ------------------------------------------------------------------ *)
(** * List facts *)

Lemma filter_rev {A} (f : A -> bool) : forall l, filter f (rev l) = rev (filter f l).
Proof.
  induction l as [|x l IH]; [reflexivity|]. cbn [rev filter]. rewrite filter_app, IH. cbn [filter].
  destruct (f x); [reflexivity | apply app_nil_r].
Qed.

Lemma filter_length {A} (f : A -> bool) : forall l, (length (filter f l) <= length l)%nat.
Proof. induction l as [|x l IH]; cbn; [lia|]. destruct (f x); cbn; lia. Qed.

Lemma filter_nil {A} (f : A -> bool) : forall l, (forall x, In x l -> f x = false) -> filter f l = [].
Proof.
  induction l as [|x l IH]; intros H; [reflexivity|]. cbn [filter].
  rewrite (H x (or_introl eq_refl)). apply IH. intros y Hy. apply H. right. exact Hy.
Qed.

Lemma filter_all {A} (f : A -> bool) : forall l, (forall x, In x l -> f x = true) -> filter f l = l.
Proof.
  induction l as [|x l IH]; intros H; [reflexivity|]. cbn [filter].
  rewrite (H x (or_introl eq_refl)). f_equal. apply IH. intros y Hy. apply H. right. exact Hy.
Qed.

Lemma filter_filter_keep {A} (f g : A -> bool) : forall l,
  (forall x, In x l -> g x = true -> f x = true) -> filter g (filter f l) = filter g l.
Proof.
  induction l as [|x l IH]; intros H; [reflexivity|]. cbn [filter].
  assert (IH' : filter g (filter f l) = filter g l) by (apply IH; intros y Hy; apply H; right; exact Hy).
  destruct (f x) eqn:Ef; cbn [filter].
  - rewrite IH'. reflexivity.
  - destruct (g x) eqn:Eg; [|exact IH'].
    rewrite (H x (or_introl eq_refl) Eg) in Ef. discriminate.
Qed.

Lemma first_split {A} (f : A -> bool) : forall l, existsb f l = true ->
  exists pre x post, l = pre ++ x :: post /\ f x = true /\ forall y, In y pre -> f y = false.
Proof.
  induction l as [|a l IH]; intros H; [discriminate|]. cbn [existsb] in H.
  destruct (f a) eqn:Ea.
  - exists [], a, l. split; [reflexivity|]. split; [exact Ea|]. intros y [].
  - cbn [orb] in H. destruct (IH H) as (pre & x & post & E & Hx & Hp).
    exists (a :: pre), x, post. split; [rewrite E; reflexivity|]. split; [exact Hx|].
    intros y [<-|Hy]; [exact Ea | apply Hp; exact Hy].
Qed.

Lemma nodupN_In x : forall l, In x (nodupN l) <-> In x l.
Proof.
  induction l as [|y l IH]; cbn [nodupN]; [tauto|].
  destruct (memN y l) eqn:E.
  - rewrite IH. split; [intros H; right; exact H|]. intros [<-|H]; [apply memN_In; exact E | exact H].
  - cbn [In]. rewrite IH. tauto.
Qed.

Lemma nodupN_NoDup : forall l, NoDup (nodupN l).
Proof.
  induction l as [|y l IH]; cbn [nodupN]; [constructor|].
  destruct (memN y l) eqn:E; [exact IH|]. constructor; [|exact IH].
  rewrite nodupN_In. apply memN_false. exact E.
Qed.

Lemma losers_NoDup l : NoDup (losers l).
Proof. apply nodupN_NoDup. Qed.

Lemma losers_not_ended l t : In t (losers l) -> ended l t = false.
Proof.
  unfold losers. rewrite nodupN_In, filter_In. intros [_ H]. apply negb_true_iff in H. exact H.
Qed.

(* ------------------------------------------------------------------ *)
(** * Undo of a list of records; the walk along a prevLSN chain *)

Fixpoint undo_list_outs (rs : list lrec) (ps : pages) : list pout :=
  match rs with
  | [] => []
  | r :: rest => undo_out ps r ++ undo_list_outs rest (undo_rec ps r)
  end.

Lemma undo_list_outs_app : forall r1 r2 ps,
  undo_list_outs (r1 ++ r2) ps = undo_list_outs r1 ps ++ undo_list_outs r2 (fold_left undo_rec r1 ps).
Proof.
  induction r1 as [|r r1 IH]; intros r2 ps; [reflexivity|].
  cbn [app undo_list_outs fold_left]. rewrite IH, app_assoc. reflexivity.
Qed.

(** the LSN-carrying records of a transaction, in log order *)
Definition txn_recs (l : list lrec) (t : N) : list lrec :=
  filter (fun r => has_lsn (l_kind r) && (l_txn r =? t)) l.

Fixpoint chain_list (start : option N) (rs : list lrec) : Prop :=
  match rs with
  | [] => True
  | r :: rest => l_prev r = start /\ chain_list (Some (l_lsn r)) rest
  end.

Lemma chains_struct t : forall l lastof, chains_ok_from l lastof = true ->
  chain_list (aget lastof t) (txn_recs l t).
Proof.
  induction l as [|r l IH]; intros lastof H; [exact I|].
  cbn [chains_ok_from] in H. unfold txn_recs. cbn [filter]. fold (txn_recs l t).
  destruct (has_lsn (l_kind r)) eqn:Eh; cbn [andb].
  - apply andb_true_iff in H. destruct H as [H1 H2]. specialize (IH _ H2).
    destruct (N.eqb_spec (l_txn r) t) as [E|E].
    + subst t. rewrite aget_aset_same in IH. cbn [chain_list]. split; [|exact IH].
      destruct (l_prev r) as [a|], (aget lastof (l_txn r)) as [b|]; try discriminate; [|reflexivity].
      apply N.eqb_eq in H1. subst. reflexivity.
    + rewrite aget_aset_other in IH by exact E. exact IH.
  - apply IH. exact H.
Qed.

Definition hd_lsn (w : list lrec) : option N :=
  match w with [] => None | r :: _ => Some (l_lsn r) end.

(** a chain, read backwards *)
Fixpoint rchain (start : option N) (w : list lrec) : Prop :=
  match w with
  | [] => True
  | r :: rest => l_prev r = (match rest with [] => start | r' :: _ => Some (l_lsn r') end) /\ rchain start rest
  end.

Lemma rchain_snoc start r : forall w, rchain (Some (l_lsn r)) w -> l_prev r = start -> rchain start (w ++ [r]).
Proof.
  induction w as [|x w IH]; intros H Hp; cbn [app rchain]; [split; [exact Hp | exact I]|].
  cbn [rchain] in H. destruct H as [H1 H2]. split; [|apply IH; assumption].
  destruct w as [|y w]; cbn [app]; exact H1.
Qed.

Lemma chain_rev : forall rs start, chain_list start rs -> rchain start (rev rs).
Proof.
  induction rs as [|r rs IH]; intros start H; [exact I|].
  cbn [chain_list] in H. destruct H as [H1 H2]. cbn [rev]. apply rchain_snoc; [apply IH; exact H2 | exact H1].
Qed.

(** looking up the record's LSN finds a record with the same undo behaviour *)
Definition find_good (l : list lrec) (r : lrec) : Prop :=
  exists r', find_lsn l (l_lsn r) = Some r' /\ l_prev r' = l_prev r /\
             forall ps, undo_rec ps r' = undo_rec ps r /\ undo_out ps r' = undo_out ps r.

Lemma walk l : forall w fuel ps, rchain None w -> (forall r, In r w -> find_good l r) ->
  (length w <= fuel)%nat ->
  undo_chain fuel l ps (hd_lsn w) = fold_left undo_rec w ps /\
  undo_chain_outs fuel l ps (hd_lsn w) = undo_list_outs w ps.
Proof.
  induction w as [|r w IH]; intros fuel ps Hc Hf Hlen.
  - cbn [hd_lsn fold_left undo_list_outs]. destruct fuel; split; reflexivity.
  - destruct fuel as [|f]; [cbn in Hlen; lia|].
    cbn [rchain] in Hc. destruct Hc as [Hc1 Hc2].
    destruct (Hf r (or_introl eq_refl)) as (r' & Hfind & Hprev & Hsame).
    cbn [hd_lsn undo_chain undo_chain_outs fold_left undo_list_outs]. rewrite Hfind, Hprev.
    destruct (Hsame ps) as [-> ->].
    assert (E : l_prev r = hd_lsn w) by (rewrite Hc1; destruct w; reflexivity).
    rewrite E.
    destruct (IH f (undo_rec ps r) Hc2 (fun x Hx => Hf x (or_intror Hx)) ltac:(cbn in Hlen; lia)) as [-> ->].
    split; reflexivity.
Qed.

Lemma last_of_eq l t : last_of l t = hd_lsn (rev (txn_recs l t)).
Proof.
  unfold last_of. rewrite filter_rev.
  replace (filter (fun r => (l_txn r =? t) && match l_kind r with KOther => false | _ => true end) l)
    with (txn_recs l t); [reflexivity|].
  unfold txn_recs. apply filter_ext. intros r. unfold has_lsn. apply andb_comm.
Qed.

Lemma find_good_loser l r : log_ok l = true -> In r l ->
  has_lsn (l_kind r) = true -> find_good l r.
Proof.
  intros Hl Hr Hh. unfold find_good, find_lsn.
  destruct (find (fun r0 => match l_kind r0 with KOther => false | _ => l_lsn r0 =? l_lsn r end) l) as [r'|] eqn:Ef.
  - apply find_some in Ef. destruct Ef as [Hr' El].
    assert (Eh' : has_lsn (l_kind r') = true) by (destruct (l_kind r'); try reflexivity; discriminate).
    assert (El' : l_lsn r' = l_lsn r) by (destruct (l_kind r'); try discriminate; apply N.eqb_eq; exact El).
    exists r'. split; [reflexivity|].
    destruct (log_lsns _ _ _ Hl) as [_ U]. rewrite (U r' r Hr' Hr Eh' Hh El').
    split; [reflexivity|]. intros ps. split; reflexivity.
  - exfalso. apply (find_none _ _ Ef) in Hr. rewrite N.eqb_refl in Hr.
    destruct (l_kind r); discriminate.
Qed.

(** the undo of one unfinished transaction is the undo of its records, last first *)
Lemma undo_chain_loser l t ps : log_ok l = true -> chains_ok l = true ->
  undo_chain (length l) l ps (last_of l t) = fold_left undo_rec (rev (txn_recs l t)) ps /\
  undo_chain_outs (length l) l ps (last_of l t) = undo_list_outs (rev (txn_recs l t)) ps.
Proof.
  intros Hl Hc. rewrite last_of_eq. apply walk.
  - apply chain_rev. apply (chains_struct t l [] Hc).
  - intros r Hr. apply in_rev in Hr. unfold txn_recs in Hr. apply filter_In in Hr.
    destruct Hr as [Hr Hf]. apply andb_true_iff in Hf. destruct Hf as [Hh Et].
    apply find_good_loser; assumption.
  - rewrite rev_length. apply filter_length.
Qed.

Definition undo_seq (l : list lrec) (order : list N) : list lrec :=
  flat_map (fun t => rev (txn_recs l t)) order.

Lemma undo_all_seq l : log_ok l = true -> chains_ok l = true ->
  forall order ps,
  undo_all l order ps = fold_left undo_rec (undo_seq l order) ps /\
  undo_all_outs l order ps = undo_list_outs (undo_seq l order) ps.
Proof.
  intros Hl Hc. induction order as [|t order IH]; intros ps; [split; reflexivity|].
  destruct (undo_chain_loser l t ps Hl Hc) as [E1 E2].
  unfold undo_all, undo_seq. cbn [fold_left flat_map undo_all_outs]. fold (undo_seq l order).
  rewrite fold_left_app, undo_list_outs_app, E1, E2.
  destruct (IH (fold_left undo_rec (rev (txn_recs l t)) ps)) as [IH1 IH2].
  unfold undo_all in IH1. rewrite IH1, IH2. split; reflexivity.
Qed.

(* ------------------------------------------------------------------ *)
(** * The slot-level view of undo *)

Definition is_apply (r : lrec) : bool := match l_kind r with KApply _ _ _ => true | _ => false end.

Lemma slot_inv k p s : slot_of k = Some (p, s) -> exists o, inv_of k = Some o.
Proof. destruct k; cbn; intros H; try discriminate; eexists; reflexivity. Qed.

Lemma a_undo_slot a k p0 s0 o : slot_of k = Some (p0, s0) -> inv_of k = Some o ->
  (match k with KApply _ _ _ => False | _ => True end) ->
  (forall s, s <> s0 -> aval (fst (astep a o)) s = aval a s) /\
  (out_ok (snd (astep a o)) = true -> aval (fst (astep a o)) s0 = slot_step (aval a s0) (inv_kind k)).
Proof.
  destruct k as [p' s' b|p' s'|p' s' b|p' s'|p' s' old new| | | |pv p'| |]; cbn [slot_of inv_of inv_kind];
    intros Hs Ho Hk; try discriminate; try contradiction; inversion Hs; inversion Ho; subst; clear Hs Ho;
    cbn [astep].
  - destruct (a_at a s0) as [[e|]|] eqn:E; cbn [fst snd out_ok]; (split; [reflexivity || idtac | try discriminate]).
    + intros s Hne. rewrite (aval_set_at _ _ _ _ _ E). destruct (N.eqb_spec s0 s); [congruence | reflexivity].
    + intros _. rewrite (aval_set_at _ _ _ _ _ E), N.eqb_refl. reflexivity.
  - destruct (a_at a s0) as [[[b m]|]|] eqn:E; cbn [fst snd out_ok]; (split; [reflexivity || idtac | try discriminate]).
    + intros s Hne. rewrite (aval_set_at _ _ _ _ _ E). destruct (N.eqb_spec s0 s); [congruence | reflexivity].
    + intros _. rewrite (aval_set_at _ _ _ _ _ E), N.eqb_refl. unfold aval. rewrite E. reflexivity.
  - destruct (a_at a s0) as [[[b [|]]|]|] eqn:E; cbn [fst snd out_ok]; (split; [reflexivity || idtac | try discriminate]).
    + intros s Hne. rewrite (aval_set_at _ _ _ _ _ E). destruct (N.eqb_spec s0 s); [congruence | reflexivity].
    + intros _. rewrite (aval_set_at _ _ _ _ _ E), N.eqb_refl. unfold aval. rewrite E. reflexivity.
  - destruct (blen old =? 0); [cbn [fst snd out_ok]; split; [reflexivity | discriminate]|].
    destruct (a_at a s0) as [[[cur [|]]|]|] eqn:E; cbn [fst snd out_ok]; try (split; [reflexivity | discriminate]).
    destruct (a_free a + blen cur <? blen old); [cbn [fst snd out_ok]; split; [reflexivity | discriminate]|].
    rewrite andb_false_r. cbn [fst snd out_ok]. split.
    + intros s Hne. rewrite (aval_set_at _ _ _ _ _ E). destruct (N.eqb_spec s0 s); [congruence | reflexivity].
    + intros _. rewrite (aval_set_at _ _ _ _ _ E), N.eqb_refl. reflexivity.
Qed.

Lemma undo_step_slot ps r p s : is_apply r = false ->
  (on_slot p s r = false -> page_val (undo_rec ps r) p s = page_val ps p s) /\
  (on_slot p s r = true -> forallb out_ok (undo_out ps r) = true ->
   page_val (undo_rec ps r) p s = slot_step (page_val ps p s) (inv_kind (l_kind r))).
Proof.
  intros Hna. destruct (page_of (l_kind r)) as [p'|] eqn:Ep.
  - destruct (N.eq_dec p' p) as [->|Hne].
    + rewrite !page_val_aval. rewrite get_undo_same by exact Ep.
      destruct (page_slot_or_new _ _ Ep) as [(s0 & Hs & _)|(pv & Ek)].
      * destruct (slot_inv _ _ _ Hs) as [o Ho].
        assert (Hk : match l_kind r with KApply _ _ _ => False | _ => True end)
          by (unfold is_apply in Hna; destruct (l_kind r); try exact I; discriminate).
        destruct (a_undo_slot (pslots (get_page ps p)) _ _ _ _ Hs Ho Hk) as [G1 G2].
        unfold on_slot, undo_out, undo_content. rewrite Hs, Ep, Ho, N.eqb_refl. cbn [andb pslots forallb].
        split.
        -- intros E. apply G1. intros ->. rewrite N.eqb_refl in E. discriminate.
        -- intros E Hok. apply N.eqb_eq in E. subst s0. apply G2. rewrite andb_true_r in Hok. exact Hok.
      * unfold on_slot, undo_content. rewrite Ek. cbn [slot_of inv_of]. split; [reflexivity | discriminate].
    + assert (Hos : on_slot p s r = false).
      { unfold on_slot. destruct (slot_of (l_kind r)) as [[p1 s1]|] eqn:Es; [|reflexivity].
        apply slot_page in Es. rewrite Ep in Es. inversion Es; subst p1.
        destruct (N.eqb_spec p' p) as [E|_]; [contradiction | reflexivity]. }
      rewrite Hos. split; [|discriminate]. intros _.
      unfold page_val. rewrite get_undo_other by (rewrite Ep; congruence). reflexivity.
  - assert (Hos : on_slot p s r = false) by (unfold on_slot; rewrite (nopage_noslot _ Ep); reflexivity).
    rewrite Hos. split; [|discriminate]. intros _. rewrite undo_rec_nopage by exact Ep. reflexivity.
Qed.

Lemma undo_list_slot p s : forall w ps, (forall r, In r w -> is_apply r = false) ->
  forallb out_ok (undo_list_outs w ps) = true ->
  page_val (fold_left undo_rec w ps) p s =
  fold_left slot_step (map (fun r => inv_kind (l_kind r)) (filter (on_slot p s) w)) (page_val ps p s).
Proof.
  induction w as [|r w IH]; intros ps Hna Hok; [reflexivity|].
  cbn [undo_list_outs] in Hok. rewrite forallb_app in Hok. apply andb_true_iff in Hok. destruct Hok as [Hok1 Hok2].
  cbn [fold_left filter]. rewrite IH by (try exact Hok2; intros x Hx; apply Hna; right; exact Hx).
  destruct (undo_step_slot ps r p s (Hna r (or_introl eq_refl))) as [G1 G2].
  destruct (on_slot p s r) eqn:Es.
  - rewrite (G2 eq_refl Hok1). reflexivity.
  - rewrite (G1 eq_refl). reflexivity.
Qed.

(* ------------------------------------------------------------------ *)
(** * Slot algebra: undoing a transaction's records on a slot restores it *)

Definition lpre (v : aentry) (k : rkind) : Prop :=
  match k with
  | KApply _ _ _ => False
  | _ => True
  end.

Fixpoint spre_seq (v : aentry) (ks : list rkind) : Prop :=
  match ks with
  | [] => True
  | k :: rest => spre v k /\ lpre v k /\ spre_seq (slot_step v k) rest
  end.

Lemma slot_step_inv v k : spre v k -> lpre v k -> slot_step (slot_step v k) (inv_kind k) = v.
Proof.
  destruct k; cbn [spre lpre slot_step inv_kind]; intros H1 H2; try reflexivity; try contradiction.
  - subst v. reflexivity.
  - destruct H1 as [b ->]. reflexivity.
  - destruct H1 as [b ->]. reflexivity.
  - subst v. reflexivity.
Qed.

Lemma slot_cancel : forall ks v, spre_seq v ks ->
  fold_left slot_step (map inv_kind (rev ks)) (fold_left slot_step ks v) = v.
Proof.
  induction ks as [|k ks IH]; intros v H; [reflexivity|].
  cbn [spre_seq] in H. destruct H as (H1 & H2 & H3).
  cbn [rev fold_left]. rewrite map_app, fold_left_app, IH by exact H3.
  cbn [map fold_left]. apply slot_step_inv; assumption.
Qed.

(** the statement of C02's [rollback_cancels] *)
Lemma pre_ok_spre v k : pre_ok v k = true -> spre v k /\ lpre v k.
Proof.
  destruct k; cbn [pre_ok spre lpre]; intros H; try discriminate.
  - destruct v; [discriminate|]. split; [reflexivity | exact I].
  - destruct v as [[b [|]]|]; try discriminate. split; [exists b; reflexivity | exact I].
  - destruct v as [[b [|]]|]; try discriminate. apply eqb_bytes_eq in H. subst. split; [reflexivity | exact I].
Qed.

Lemma rollback_cancel : forall v ks, pre_ok_seq v ks = true ->
  fold_left slot_step (map inv_kind (rev ks)) (fold_left slot_step ks v) = v.
Proof.
  intros v ks H. apply slot_cancel. revert v H.
  induction ks as [|k ks IH]; intros v H; [exact I|].
  cbn [pre_ok_seq] in H. apply andb_true_iff in H. destruct H as [H1 H2].
  destruct (pre_ok_spre _ _ H1) as [G1 G2]. cbn [spre_seq]. auto.
Qed.

(* ------------------------------------------------------------------ *)
(** * [slot_val] as a fold over the slot's own records *)

Definition is_newpage (p : N) (r : lrec) : bool :=
  match l_kind r with KNewPage _ p' => p' =? p | _ => false end.

Lemma sv_step_cases p s v r :
  sv_step p s v r = if is_newpage p r then None else if on_slot p s r then slot_step v (l_kind r) else v.
Proof.
  unfold sv_step, is_newpage, on_slot. destruct (l_kind r) as [ | | | | | | | |pv p'| |]; cbn [slot_of]; reflexivity.
Qed.

Lemma newpage_not_slot p s r : is_newpage p r = true -> on_slot p s r = false.
Proof. unfold is_newpage, on_slot. destruct (l_kind r); cbn; intros H; try discriminate; reflexivity. Qed.

Lemma on_slot_has_lsn p s r : on_slot p s r = true -> has_lsn (l_kind r) = true.
Proof. unfold on_slot. destruct (l_kind r); cbn; intros H; try discriminate; reflexivity. Qed.

Lemma on_slot_slot p s r : on_slot p s r = true -> slot_of (l_kind r) = Some (p, s).
Proof.
  unfold on_slot. destruct (slot_of (l_kind r)) as [[p' s']|]; [|discriminate].
  intros H. apply andb_true_iff in H. destruct H as [H1 H2].
  apply N.eqb_eq in H1. apply N.eqb_eq in H2. subst. reflexivity.
Qed.

Lemma strict_newpage_eq p r :
  (match l_kind r with KNewPage _ p' => negb (p' =? p) | _ => true end) = negb (is_newpage p r).
Proof. unfold is_newpage. destruct (l_kind r); reflexivity. Qed.

(** once a record has worked on the slot, its page is not created again *)
Fixpoint ord (p s : N) (m : list lrec) : bool :=
  match m with
  | [] => true
  | r :: rest => (if on_slot p s r then forallb (fun r' => negb (is_newpage p r')) rest else true) && ord p s rest
  end.

Lemma ord_app p s : forall m1 m2, ord p s (m1 ++ m2) = true -> ord p s m1 = true /\ ord p s m2 = true.
Proof.
  induction m1 as [|r m1 IH]; intros m2 H; [split; [reflexivity | exact H]|].
  cbn [app ord] in *. apply andb_true_iff in H. destruct H as [H1 H2].
  destruct (IH _ H2) as [G1 G2]. split; [|exact G2]. rewrite G1, andb_true_r.
  destruct (on_slot p s r); [|reflexivity].
  rewrite forallb_app in H1. apply andb_true_iff in H1. tauto.
Qed.

Lemma ord_filter p s f : forall m, ord p s m = true -> ord p s (filter f m) = true.
Proof.
  induction m as [|r m IH]; intros H; [reflexivity|].
  cbn [ord] in H. apply andb_true_iff in H. destruct H as [H1 H2]. cbn [filter].
  destruct (f r); [|apply IH; exact H2]. cbn [ord]. rewrite (IH H2), andb_true_r.
  destruct (on_slot p s r); [|reflexivity].
  rewrite forallb_forall in *. intros x Hx. apply filter_In in Hx. apply H1. tauto.
Qed.

Lemma fresh_ord p s : forall l seen, fresh_pages_ok l seen = true ->
  ord p s l = true /\ (memN p seen = true -> forall r, In r l -> is_newpage p r = false).
Proof.
  induction l as [|r l IH]; intros seen H; [split; [reflexivity | intros _ r []]|].
  cbn [fresh_pages_ok] in H. cbn [ord].
  assert (K : forall seen', fresh_pages_ok l seen' = true -> is_newpage p r = false ->
              (on_slot p s r = true -> memN p seen' = true) ->
              (memN p seen = true -> memN p seen' = true) ->
              ((if on_slot p s r then forallb (fun r' => negb (is_newpage p r')) l else true) && ord p s l = true) /\
              (memN p seen = true -> forall x, In x (r :: l) -> is_newpage p x = false)).
  { intros seen' Hf Hn Hs Hm. destruct (IH _ Hf) as [G1 G2]. split.
    - rewrite G1, andb_true_r. destruct (on_slot p s r) eqn:Es; [|reflexivity].
      apply forallb_forall. intros x Hx. rewrite (G2 (Hs eq_refl) x Hx). reflexivity.
    - intros Hin x [<-|Hx]; [exact Hn | apply G2; [apply Hm; exact Hin | exact Hx]]. }
  assert (S : forall p' s', slot_of (l_kind r) = Some (p', s') -> memN p' seen = true ->
              on_slot p s r = true -> memN p seen = true).
  { intros p' s' Hs Hm Ho. apply on_slot_slot in Ho. rewrite Hs in Ho. inversion Ho; subst. exact Hm. }
  unfold is_newpage in K.
  destruct (l_kind r) as [p' s' b|p' s'|p' s' b|p' s'|p' s' old new| | | |pv p'| |] eqn:Ek; cbn [page_of] in H;
    try (apply andb_true_iff in H; destruct H as [H1 H2]; apply (K seen H2 eq_refl); [eapply S; [reflexivity | exact H1] | tauto]);
    try (apply (K seen H eq_refl); [unfold on_slot; rewrite Ek; cbn; discriminate | tauto]).
  apply andb_true_iff in H. destruct H as [H1 H2]. apply negb_true_iff in H1.
  destruct (N.eqb_spec p' p) as [E|E].
  - subst p'. destruct (IH _ H2) as [G1 G2]. split.
    + rewrite G1. unfold on_slot. rewrite Ek. reflexivity.
    + intros Hm. rewrite Hm in H1. discriminate.
  - apply (K (p' :: seen) H2 eq_refl).
    + unfold on_slot. rewrite Ek. cbn. discriminate.
    + intros Hm. cbn [memN]. rewrite Hm. apply orb_true_r.
Qed.

Lemma sv_fold_ord p s : forall m v, ord p s m = true ->
  (v = None \/ forall r, In r m -> is_newpage p r = false) ->
  fold_left (sv_step p s) m v = fold_left slot_step (map l_kind (filter (on_slot p s) m)) v.
Proof.
  induction m as [|r m IH]; intros v Ho Hv; [reflexivity|].
  cbn [ord] in Ho. apply andb_true_iff in Ho. destruct Ho as [Ho1 Ho2].
  cbn [fold_left filter]. rewrite sv_step_cases.
  destruct (is_newpage p r) eqn:En.
  - rewrite (newpage_not_slot p s r En).
    destruct Hv as [->|Hv]; [apply IH; [exact Ho2 | left; reflexivity]|].
    rewrite (Hv r (or_introl eq_refl)) in En. discriminate.
  - destruct (on_slot p s r) eqn:Es.
    + cbn [map fold_left]. apply IH; [exact Ho2|]. right.
      rewrite forallb_forall in Ho1. intros r' Hr'. specialize (Ho1 r' Hr').
      destruct (is_newpage p r'); [discriminate | reflexivity].
    + apply IH; [exact Ho2|]. destruct Hv as [Hv|Hv]; [left; exact Hv|].
      right. intros x Hx. apply Hv. right. exact Hx.
Qed.

Lemma sv_fold_nonew p s : forall m v, (forall r, In r m -> is_newpage p r = false) ->
  fold_left (sv_step p s) m v = fold_left slot_step (map l_kind (filter (on_slot p s) m)) v.
Proof.
  induction m as [|r m IH]; intros v Hn; [reflexivity|].
  cbn [fold_left filter]. rewrite sv_step_cases, (Hn r (or_introl eq_refl)).
  assert (Hn' : forall x, In x m -> is_newpage p x = false) by (intros x Hx; apply Hn; right; exact Hx).
  destruct (on_slot p s r); [cbn [map fold_left]|]; apply IH; exact Hn'.
Qed.

(** dropping records that are not on the slot does not change the slot's value *)
Lemma slot_val_filter p s f m : ord p s m = true ->
  (forall r, In r m -> on_slot p s r = true -> f r = true) ->
  slot_val (filter f m) p s = slot_val m p s.
Proof.
  intros Ho Hf. rewrite !slot_val_eq.
  rewrite sv_fold_ord by (try (left; reflexivity); apply ord_filter; exact Ho).
  rewrite sv_fold_ord by (try (left; reflexivity); exact Ho).
  rewrite filter_filter_keep by exact Hf. reflexivity.
Qed.

Lemma sv_fold_untouched p s : forall m v,
  (forall r, In r m -> is_newpage p r = false) -> (forall r, In r m -> on_slot p s r = false) ->
  fold_left (sv_step p s) m v = v.
Proof.
  intros m v Hn Ho. apply fold_left_id. intros a r Hr.
  rewrite sv_step_cases, (Hn r Hr), (Ho r Hr). reflexivity.
Qed.

(* ------------------------------------------------------------------ *)
(** * Strictness and the unfinished transaction that owns a slot *)

Definition nonloser (l : list lrec) (r : lrec) : bool := negb (memN (l_txn r) (losers l)).

Lemma committed_val_eq l p s : committed_val l p s = slot_val (filter (nonloser l) l) p s.
Proof. reflexivity. Qed.

Lemma strict_split ls p s : forall pre r post, strict_ok_from ls (pre ++ r :: post) = true ->
  memN (l_txn r) ls = true -> on_slot p s r = true ->
  (forall r', In r' post -> on_slot p s r' = true -> l_txn r' = l_txn r) /\
  (forall r', In r' post -> is_newpage p r' = false).
Proof.
  induction pre as [|x pre IH]; intros r post H Hm Hs.
  - cbn [app strict_ok_from] in H. rewrite Hm, (on_slot_slot _ _ _ Hs) in H.
    apply andb_true_iff in H. destruct H as [H _]. apply andb_true_iff in H. destruct H as [H1 H2].
    rewrite forallb_forall in H1, H2. split.
    + intros r' Hr' Ho. specialize (H1 r' Hr'). rewrite Ho in H1. cbn in H1. apply N.eqb_eq. exact H1.
    + intros r' Hr'. specialize (H2 r' Hr'). rewrite strict_newpage_eq in H2.
      apply negb_true_iff in H2. exact H2.
  - cbn [app strict_ok_from] in H. apply andb_true_iff in H. destruct H as [_ H]. apply IH; assumption.
Qed.

Lemma no_loser_apply_spec l r : no_loser_apply l = true -> In r l ->
  memN (l_txn r) (losers l) = true -> is_apply r = false.
Proof.
  intros H Hr Hm. unfold no_loser_apply in H. rewrite forallb_forall in H. specialize (H r Hr).
  rewrite Hm in H. unfold is_apply. destruct (l_kind r); try reflexivity. discriminate.
Qed.

(** a run of records in which the page is not re-created and no record on the slot is an applied delete *)
Lemma spre_seq_of p s : forall m v,
  (forall r, In r m -> is_newpage p r = false) ->
  (forall r, In r m -> on_slot p s r = true -> is_apply r = false) ->
  spre_from p s m v ->
  spre_seq v (map l_kind (filter (on_slot p s) m)).
Proof.
  induction m as [|r m IH]; intros v Hn Hl Hs; [exact I|].
  cbn [spre_from] in Hs. destruct Hs as [Hs1 Hs2].
  rewrite sv_step_cases, (Hn r (or_introl eq_refl)) in Hs2.
  assert (Hn' : forall x, In x m -> is_newpage p x = false) by (intros x Hx; apply Hn; right; exact Hx).
  assert (Hl' : forall x, In x m -> on_slot p s x = true -> is_apply x = false)
    by (intros x Hx; apply Hl; right; exact Hx).
  cbn [filter]. destruct (on_slot p s r) eqn:Eo.
  - cbn [map spre_seq]. split; [apply Hs1; reflexivity|]. split.
    + specialize (Hl r (or_introl eq_refl) Eo). unfold is_apply in Hl.
      destruct (l_kind r); cbn [lpre]; try exact I. discriminate.
    + apply IH; assumption.
  - apply IH; assumption.
Qed.

(* ------------------------------------------------------------------ *)
(** * Recovery restores the committed state *)

Record undo_hyps (l : list lrec) : Prop := {
  uh_log : log_ok l = true;
  uh_chains : chains_ok l = true;
  uh_strict : strict_ok l = true;
  uh_fresh : fresh_pages_ok l [] = true;
  uh_noapply : no_loser_apply l = true
}.

Lemma undo_seq_noapply l order : no_loser_apply l = true ->
  (forall t, In t order -> In t (losers l)) ->
  forall r, In r (undo_seq l order) -> is_apply r = false.
Proof.
  intros Hna Hin r Hr. unfold undo_seq in Hr. apply in_flat_map in Hr. destruct Hr as (t & Ht & Hr).
  apply in_rev in Hr. unfold txn_recs in Hr. apply filter_In in Hr. destruct Hr as [Hr Hf].
  apply andb_true_iff in Hf. destruct Hf as [_ Et]. apply N.eqb_eq in Et.
  apply (no_loser_apply_spec l r Hna Hr). rewrite Et. apply memN_In. apply Hin. exact Ht.
Qed.

Lemma filter_undo_seq_none l p s : forall order,
  (forall t r, In t order -> In r l -> l_txn r = t -> on_slot p s r = false) ->
  filter (on_slot p s) (undo_seq l order) = [].
Proof.
  intros order H. apply filter_nil. intros r Hr.
  unfold undo_seq in Hr. apply in_flat_map in Hr. destruct Hr as (t & Ht & Hr).
  apply in_rev in Hr. unfold txn_recs in Hr. apply filter_In in Hr. destruct Hr as [Hr Hf].
  apply andb_true_iff in Hf. destruct Hf as [_ Et]. apply N.eqb_eq in Et.
  apply (H t r Ht Hr Et).
Qed.

Lemma undo_seq_app l o1 o2 : undo_seq l (o1 ++ o2) = undo_seq l o1 ++ undo_seq l o2.
Proof. unfold undo_seq. apply flat_map_app. Qed.

(** The unfinished transaction that has worked on a slot: its records on the slot are the
    last ones on the slot, they are what the undo pass undoes there, and before them the
    slot held the committed value. *)
Lemma slot_owner l order p s : undo_hyps l -> Permutation order (losers l) ->
  existsb (fun r => on_slot p s r && memN (l_txn r) (losers l)) l = true ->
  exists B v0,
    filter (on_slot p s) (undo_seq l order) = rev B /\
    slot_val l p s = fold_left slot_step (map l_kind B) v0 /\
    spre_seq v0 (map l_kind B) /\
    v0 = committed_val l p s.
Proof.
  intros [Hl Hc Hst Hf Hna] Hperm Eex.
  assert (Hin : forall t, In t order -> In t (losers l))
    by (intros t Ht; eapply Permutation_in; eassumption).
  assert (Hnd : NoDup order)
    by (eapply Permutation_NoDup; [apply Permutation_sym; exact Hperm | apply losers_NoDup]).
  destruct (fresh_ord p s l [] Hf) as [Hord _].
  destruct (replay_slot l [] None p s Hl) as [_ Hspre]. rewrite page_val_nil in Hspre.
  apply first_split in Eex. destruct Eex as (pre & r1 & post & El & Hr1 & Hpre).
  apply andb_true_iff in Hr1. destruct Hr1 as [Hs1 Hm1].
  set (t := l_txn r1).
  assert (Hst' := Hst). unfold strict_ok in Hst'. rewrite El in Hst' at 2.
  destruct (strict_split _ p s _ _ _ Hst' Hm1 Hs1) as [Hpost1 Hpost2].
  exists (filter (on_slot p s) (r1 :: post)), (slot_val pre p s).
  assert (Hnn : forall r, In r (r1 :: post) -> is_newpage p r = false).
  { intros r [<-|Hr]; [|apply Hpost2; exact Hr].
    destruct (is_newpage p r1) eqn:E; [|reflexivity].
    rewrite (newpage_not_slot p s r1 E) in Hs1. discriminate. }
  split; [|split; [|split]].
  - (* the records on the slot among the undone ones *)
    assert (Ht : In t order).
    { eapply Permutation_in; [apply Permutation_sym; exact Hperm|]. apply memN_In. exact Hm1. }
    apply in_split in Ht. destruct Ht as (o1 & o2 & Eo). rewrite Eo in Hnd.
    assert (Hnot : forall t', In t' (o1 ++ o2) -> t' <> t).
    { intros t' Ht' E. subst t'. apply NoDup_remove_2 in Hnd. contradiction. }
    assert (Hother : forall t' r, In t' (o1 ++ o2) -> In r l -> l_txn r = t' -> on_slot p s r = false).
    { intros t' r Ht' Hr Et. destruct (on_slot p s r) eqn:Es; [exfalso | reflexivity].
      assert (Hlos : memN (l_txn r) (losers l) = true).
      { apply memN_In. rewrite Et. apply Hin. rewrite Eo.
        apply in_app_or in Ht'. apply in_or_app. destruct Ht' as [Ht'|Ht']; [left | right; right]; exact Ht'. }
      rewrite El in Hr. apply in_app_or in Hr. destruct Hr as [Hr|[Hr|Hr]].
      - specialize (Hpre r Hr). rewrite Es, Hlos in Hpre. discriminate.
      - subst r. apply (Hnot t' Ht'). symmetry. exact Et.
      - apply (Hnot t' Ht'). rewrite <- Et. apply Hpost1; assumption. }
    rewrite Eo. replace (o1 ++ t :: o2) with (o1 ++ [t] ++ o2) by reflexivity.
    rewrite !undo_seq_app, !filter_app.
    rewrite (filter_undo_seq_none l p s o1)
      by (intros t' r Ht'; apply Hother; apply in_or_app; left; exact Ht').
    rewrite (filter_undo_seq_none l p s o2)
      by (intros t' r Ht'; apply Hother; apply in_or_app; right; exact Ht').
    rewrite app_nil_r. cbn [app]. unfold undo_seq. cbn [flat_map]. rewrite app_nil_r.
    rewrite filter_rev. f_equal. unfold txn_recs. rewrite El, !filter_app.
    rewrite (filter_nil _ (filter _ pre)).
    + cbn [app]. rewrite filter_filter_keep; [reflexivity|].
      intros x Hx Hox. rewrite (on_slot_has_lsn _ _ _ Hox). cbn [andb]. apply N.eqb_eq.
      destruct Hx as [<-|Hx]; [reflexivity | apply Hpost1; assumption].
    + intros x Hx. apply filter_In in Hx. destruct Hx as [Hx Hfx].
      apply andb_true_iff in Hfx. destruct Hfx as [_ Et]. apply N.eqb_eq in Et.
      specialize (Hpre x Hx). destruct (on_slot p s x); [|reflexivity].
      cbn [andb] in Hpre. rewrite Et in Hpre. fold t in Hm1. rewrite Hm1 in Hpre. discriminate.
  - rewrite slot_val_eq, El, fold_left_app. apply sv_fold_nonew. exact Hnn.
  - rewrite El in Hspre. apply spre_from_app in Hspre. destruct Hspre as [_ Hspre].
    rewrite <- slot_val_eq in Hspre.
    apply (spre_seq_of p s); try assumption.
    intros r Hr Hsr. apply (no_loser_apply_spec l r Hna).
    + rewrite El. apply in_or_app. right. exact Hr.
    + destruct Hr as [<-|Hr]; [exact Hm1|]. rewrite (Hpost1 r Hr Hsr). exact Hm1.
  - (* the committed value is the value before the owner's first record *)
    rewrite committed_val_eq. set (f := nonloser l).
    transitivity (slot_val (filter f pre) p s).
    + rewrite El in Hord. apply ord_app in Hord. destruct Hord as [Hord1 _].
      symmetry. apply slot_val_filter; [exact Hord1|].
      intros r Hr Hsr. specialize (Hpre r Hr). rewrite Hsr in Hpre. cbn [andb] in Hpre.
      unfold f, nonloser. rewrite Hpre. reflexivity.
    + rewrite El, filter_app. rewrite (slot_val_eq (filter f pre ++ _)), fold_left_app, <- slot_val_eq.
      symmetry. apply sv_fold_untouched.
      * intros r Hr. apply filter_In in Hr. apply Hnn. tauto.
      * intros r Hr. apply filter_In in Hr. destruct Hr as [Hr Hnl]. unfold f, nonloser in Hnl.
        destruct (on_slot p s r) eqn:Es; [exfalso | reflexivity].
        assert (l_txn r = t) by (destruct Hr as [<-|Hr]; [reflexivity | apply Hpost1; assumption]).
        rewrite H in Hnl. fold t in Hm1. rewrite Hm1 in Hnl. discriminate.
Qed.

(** The value of a slot after the undo of the unfinished transactions, given that the
    undo operations succeed: the committed value. *)
Lemma undo_slot_committed l order ps p s : undo_hyps l -> Permutation order (losers l) ->
  page_val ps p s = slot_val l p s ->
  forallb out_ok (undo_list_outs (undo_seq l order) ps) = true ->
  page_val (fold_left undo_rec (undo_seq l order) ps) p s = committed_val l p s.
Proof.
  intros Hyp Hperm Hps Hok.
  assert (Hin : forall t, In t order -> In t (losers l))
    by (intros t Ht; eapply Permutation_in; eassumption).
  rewrite (undo_list_slot p s _ ps (undo_seq_noapply l order (uh_noapply l Hyp) Hin) Hok), Hps.
  destruct (existsb (fun r => on_slot p s r && memN (l_txn r) (losers l)) l) eqn:Eex.
  - destruct (slot_owner l order p s Hyp Hperm Eex) as (B & v0 & E1 & E2 & E3 & E4).
    rewrite E1, E2, <- map_map, map_rev, slot_cancel by exact E3. exact E4.
  - (* no unfinished transaction has touched the slot *)
    destruct (fresh_ord p s l [] (uh_fresh l Hyp)) as [Hord _].
    assert (Hnone : forall r, In r l -> on_slot p s r = true -> memN (l_txn r) (losers l) = false).
    { intros r Hr Hs. destruct (memN (l_txn r) (losers l)) eqn:E; [|reflexivity].
      assert (X : existsb (fun r => on_slot p s r && memN (l_txn r) (losers l)) l = true)
        by (apply existsb_exists; exists r; split; [exact Hr | rewrite Hs, E; reflexivity]).
      rewrite X in Eex. discriminate. }
    rewrite filter_undo_seq_none.
    + cbn [map fold_left]. rewrite committed_val_eq. symmetry. apply slot_val_filter; [exact Hord|].
      intros r Hr Hs. unfold nonloser. rewrite (Hnone r Hr Hs). reflexivity.
    + intros t r Ht Hr Et. destruct (on_slot p s r) eqn:Es; [|reflexivity].
      specialize (Hnone r Hr Es). apply memN_false in Hnone. exfalso. apply Hnone. rewrite Et. apply Hin. exact Ht.
Qed.

(* ------------------------------------------------------------------ *)
(** * When the undo operations succeed *)

Definition nz (v : aentry) : Prop := match v with Some (b, _) => blen b <> 0 | None => True end.
Definition rows_nz (a : astate) : Prop := forall s, nz (aval a s).

Lemma aval_some a s x : aval a s = Some x -> a_at a s = Some (Some x).
Proof. unfold aval. destruct (a_at a s) as [e|]; [intros ->; reflexivity | discriminate]. Qed.

Lemma aval_nil s : aval [] s = None.
Proof. unfold aval, a_at. destruct (N.to_nat s); reflexivity. Qed.

Lemma astep_nz a o : rows_nz a -> rows_nz (fst (astep a o)).
Proof.
  intros H. destruct o as [b|i b|i b r|i|i|i|i]; cbn [astep].
  - destruct (N.eqb_spec (blen b) 0) as [|Hb]; [exact H|].
    destruct (a_free a <? blen b + size_tuple); [exact H|]. cbn [fst]. intros s.
    destruct (a_first_free_spec a 0) as (n & H1 & H2 & _).
    rewrite aval_set by (rewrite H1; lia).
    destruct (a_first_free a 0 =? s); [exact Hb | apply H].
  - destruct (N.eqb_spec (blen b) 0) as [|Hb]; [exact H|].
    destruct (a_free a <? blen b + size_tuple); [exact H|]. cbn [fst]. intros s.
    destruct (a_insert_at_slot_spec a i) as [G1 _]. cbv zeta in G1.
    rewrite aval_set by exact G1.
    destruct ((if a_available a i then i else a_first_free a 0) =? s); [exact Hb | apply H].
  - destruct (N.eqb_spec (blen b) 0) as [|Hb]; [exact H|].
    destruct (a_at a i) as [[[old [|]]|]|] eqn:E; try exact H.
    destruct (a_free a + blen old <? blen b); [exact H|].
    destruct ((blen b <? blen old) && negb r); [exact H|]. cbn [fst]. intros s.
    rewrite (aval_set_at _ _ _ _ _ E). destruct (i =? s); [exact Hb | apply H].
  - destruct (a_at a i) as [[[b [|]]|]|] eqn:E; try exact H. cbn [fst]. intros s.
    rewrite (aval_set_at _ _ _ _ _ E). destruct (i =? s); [|apply H].
    specialize (H i). unfold aval in H. rewrite E in H. exact H.
  - destruct (a_at a i) as [[e|]|] eqn:E; try exact H. cbn [fst]. intros s.
    rewrite (aval_set_at _ _ _ _ _ E). destruct (i =? s); [exact I | apply H].
  - destruct (a_at a i) as [[[b m]|]|] eqn:E; try exact H. cbn [fst]. intros s.
    rewrite (aval_set_at _ _ _ _ _ E). destruct (i =? s); [|apply H].
    specialize (H i). unfold aval in H. rewrite E in H. exact H.
  - destruct (a_at a i) as [[[b [|]]|]|]; exact H.
Qed.

Lemma new_content_nz r pg : rows_nz (pslots pg) -> rows_nz (pslots (new_content r pg)).
Proof.
  intros H. unfold new_content.
  destruct (l_kind r); cbn [op_of pslots]; try exact H; try (apply astep_nz; exact H).
  intros s. rewrite aval_nil. exact I.
Qed.

Lemma replay_nz : forall l ps, (forall p, rows_nz (pslots (get_page ps p))) ->
  forall p, rows_nz (pslots (get_page (replay l ps) p)).
Proof.
  induction l as [|r l IH]; intros ps H; [exact H|].
  cbn [replay fold_left]. apply IH. intros p.
  destruct (page_of (l_kind r)) as [p'|] eqn:Ep.
  - destruct (N.eq_dec p' p) as [->|Hne].
    + rewrite get_do_same by exact Ep. apply new_content_nz. apply H.
    + rewrite get_do_other by (rewrite Ep; congruence). apply H.
  - rewrite do_rec_nopage by exact Ep. apply H.
Qed.

Lemma update_old_nz l r p s old new : log_ok l = true -> In r l ->
  l_kind r = KUpdate p s old new -> blen old <> 0.
Proof.
  intros Hl Hr Ek. apply in_split in Hr. destruct Hr as (pre & post & El).
  unfold log_ok in Hl. rewrite El in Hl. apply log_ok_from_app in Hl. destruct Hl as [_ Hl].
  apply log_ok_from_cons in Hl. destruct Hl as (_ & Hrec & _).
  assert (Hnz : rows_nz (pslots (get_page (replay pre []) p))).
  { apply replay_nz. intros q s'. cbn. rewrite aval_nil. exact I. }
  unfold rec_ok in Hrec. rewrite Ek in Hrec. cbn [astep] in Hrec.
  destruct (blen new =? 0); [discriminate|].
  destruct (a_at (pslots (get_page (replay pre []) p)) s) as [[[old' [|]]|]|] eqn:E; try discriminate.
  destruct (a_free (pslots (get_page (replay pre []) p)) + blen old' <? blen new); [discriminate|].
  destruct ((blen new <? blen old') && negb true); [discriminate|].
  cbn [snd] in Hrec. apply eqb_bytes_eq in Hrec. subst old'.
  specialize (Hnz s). unfold aval in Hnz. rewrite E in Hnz. exact Hnz.
Qed.

Lemma a_undo_succeeds a k p0 s0 o v' : slot_of k = Some (p0, s0) -> inv_of k = Some o ->
  spre v' k -> lpre v' k -> aval a s0 = slot_step v' k ->
  (match k with KUpdate _ _ old new => blen old <> 0 /\ blen old <= blen new | _ => True end) ->
  out_ok (snd (astep a o)) = true.
Proof.
  destruct k as [p' s' b|p' s'|p' s' b|p' s'|p' s' old new| | | |pv p'| |]; cbn [slot_of inv_of spre lpre slot_step];
    intros Hs Ho H1 H2 Hv Hu; try discriminate; try contradiction; inversion Hs; inversion Ho; subst; clear Hs Ho;
    cbn [astep].
  - apply aval_some in Hv. rewrite Hv. reflexivity.
  - destruct H1 as [b ->]. apply aval_some in Hv. rewrite Hv. reflexivity.
  - destruct H1 as [b ->]. apply aval_some in Hv. rewrite Hv. reflexivity.
  - apply aval_some in Hv. rewrite Hv. destruct Hu as [Hu1 Hu2].
    destruct (N.eqb_spec (blen old) 0) as [|_]; [contradiction|].
    destruct (N.ltb_spec (a_free a + blen new) (blen old)) as [Hlt|_]; [lia|].
    rewrite andb_false_r. reflexivity.
Qed.

Lemma spre_seq_app : forall ks1 ks2 v,
  spre_seq v (ks1 ++ ks2) <-> spre_seq v ks1 /\ spre_seq (fold_left slot_step ks1 v) ks2.
Proof.
  induction ks1 as [|k ks1 IH]; intros ks2 v; cbn [app spre_seq fold_left]; [tauto|].
  rewrite IH. tauto.
Qed.

Lemma undo_seq_in l order r : In r (undo_seq l order) ->
  In r l /\ In (l_txn r) order /\ has_lsn (l_kind r) = true.
Proof.
  intros Hr. unfold undo_seq in Hr. apply in_flat_map in Hr. destruct Hr as (t & Ht & Hr).
  apply in_rev in Hr. unfold txn_recs in Hr. apply filter_In in Hr. destruct Hr as [Hr Hf].
  apply andb_true_iff in Hf. destruct Hf as [Hh Et]. apply N.eqb_eq in Et. subst t. tauto.
Qed.

Lemma undo_step_ok l order ps U1 r U2 : undo_hyps l -> loser_updates_grow l = true ->
  Permutation order (losers l) -> (forall p s, page_val ps p s = slot_val l p s) ->
  undo_seq l order = U1 ++ r :: U2 ->
  forallb out_ok (undo_list_outs U1 ps) = true ->
  forallb out_ok (undo_out (fold_left undo_rec U1 ps) r) = true.
Proof.
  intros Hyp Hg Hperm Hps EU Hok1.
  assert (Hin : forall t, In t order -> In t (losers l))
    by (intros t Ht; eapply Permutation_in; eassumption).
  assert (HrU : In r (undo_seq l order)) by (rewrite EU; apply in_or_app; right; left; reflexivity).
  destruct (undo_seq_in _ _ _ HrU) as (Hrl & Hrt & Hrh).
  assert (Hlos : memN (l_txn r) (losers l) = true) by (apply memN_In; apply Hin; exact Hrt).
  unfold undo_out. destruct (page_of (l_kind r)) as [p|] eqn:Ep; [|reflexivity].
  destruct (inv_of (l_kind r)) as [o|] eqn:Ei; [|reflexivity].
  cbn [forallb]. rewrite andb_true_r.
  destruct (page_slot_or_new _ _ Ep) as [(s & Hs & _)|(pv & Ek)]; [|rewrite Ek in Ei; discriminate].
  assert (Hos : on_slot p s r = true) by (unfold on_slot; rewrite Hs, !N.eqb_refl; reflexivity).
  assert (Eex : existsb (fun r => on_slot p s r && memN (l_txn r) (losers l)) l = true)
    by (apply existsb_exists; exists r; split; [exact Hrl | rewrite Hos, Hlos; reflexivity]).
  destruct (slot_owner l order p s Hyp Hperm Eex) as (B & v0 & E1 & E2 & E3 & _).
  rewrite EU, filter_app in E1. cbn [filter] in E1. rewrite Hos in E1.
  set (F1 := filter (on_slot p s) U1) in *. set (F2 := filter (on_slot p s) U2) in *.
  assert (EB : B = rev F2 ++ r :: rev F1).
  { rewrite <- (rev_involutive B), <- E1, rev_app_distr. cbn [rev]. rewrite <- app_assoc. reflexivity. }
  rewrite EB, map_app in E2, E3. cbn [map] in E2, E3.
  apply spre_seq_app in E3. destruct E3 as [_ E3]. cbn [spre_seq] in E3. destruct E3 as (P1 & P2 & P3).
  rewrite fold_left_app in E2. cbn [fold_left] in E2.
  set (v' := fold_left slot_step (map l_kind (rev F2)) v0) in *.
  assert (Hval : page_val (fold_left undo_rec U1 ps) p s = slot_step v' (l_kind r)).
  { rewrite (undo_list_slot p s U1 ps); [| |exact Hok1].
    - fold F1. rewrite Hps, E2.
      replace (map (fun r0 => inv_kind (l_kind r0)) F1) with (map inv_kind (rev (map l_kind (rev F1)))).
      + apply slot_cancel. exact P3.
      + rewrite <- map_rev, rev_involutive, map_map. reflexivity.
    - intros x Hx. apply (undo_seq_noapply l order (uh_noapply l Hyp) Hin).
      rewrite EU. apply in_or_app. left. exact Hx. }
  rewrite page_val_aval in Hval.
  apply (a_undo_succeeds _ _ _ _ _ v' Hs Ei P1 P2 Hval).
  destruct (l_kind r) eqn:Ek; try exact I.
  split.
  - eapply update_old_nz; [exact (uh_log l Hyp) | exact Hrl | exact Ek].
  - unfold loser_updates_grow in Hg. rewrite forallb_forall in Hg. specialize (Hg r Hrl).
    rewrite Hlos, Ek in Hg. cbn [negb orb] in Hg. lia.
Qed.

Lemma outs_by_prefix U ps :
  (forall U1 r U2, U = U1 ++ r :: U2 -> forallb out_ok (undo_list_outs U1 ps) = true ->
     forallb out_ok (undo_out (fold_left undo_rec U1 ps) r) = true) ->
  forallb out_ok (undo_list_outs U ps) = true.
Proof.
  intros H.
  assert (G : forall U1 U2, U = U1 ++ U2 -> forallb out_ok (undo_list_outs U1 ps) = true).
  { induction U1 as [|r U1 IH] using rev_ind; intros U2 E; [reflexivity|].
    rewrite <- app_assoc in E. cbn [app] in E.
    specialize (IH _ E). rewrite undo_list_outs_app, forallb_app, IH. cbn [undo_list_outs andb].
    rewrite app_nil_r. apply (H U1 r U2 E IH). }
  apply (G U []). symmetry. apply app_nil_r.
Qed.

Lemma undo_outs_ok_grow l order ps : undo_hyps l -> loser_updates_grow l = true ->
  Permutation order (losers l) -> (forall p s, page_val ps p s = slot_val l p s) ->
  forallb out_ok (undo_list_outs (undo_seq l order) ps) = true.
Proof.
  intros Hyp Hg Hperm Hps. apply outs_by_prefix. intros U1 r U2 EU Hok1.
  eapply undo_step_ok; eassumption.
Qed.

(* ------------------------------------------------------------------ *)
(** * The theorems *)

Lemma image_wf_parts l disk : image_wf l disk = true ->
  log_ok l = true /\ chains_ok l = true /\ strict_ok l = true /\ fresh_pages_ok l [] = true /\
  disk_ok l disk = true /\ no_loser_apply l = true /\ loser_updates_grow l = true.
Proof.
  unfold image_wf. intros H.
  repeat (apply andb_true_iff in H; let H' := fresh in destruct H as [H H']). tauto.
Qed.

(** redo repeats history when records with LSN 0 are page creations ... *)
Lemma redo_repeats_if_lsn0 : forall l disk, log_ok l = true -> lsn0_ok l = true -> disk_ok l disk = true ->
  forall p, get_page (redo l disk) p = get_page (replay l []) p.
Proof. intros l disk Hl H0 Hd. apply (redo_repeats_lsn0 l disk Hl H0 Hd). Qed.

(** C01 [redo_repeats_history] (false without [fresh_pages_ok]: see [redo_repeats_counterexample]) *)
Theorem redo_repeats : forall l disk, log_ok l = true -> fresh_pages_ok l [] = true -> disk_ok l disk = true ->
  forall p, get_page (redo l disk) p = get_page (replay l []) p.
Proof. intros l disk Hl Hf Hd. apply redo_repeats_if_lsn0; try assumption. apply fresh_lsn0_ok; assumption. Qed.

Lemma redo_outs_ok : forall l disk, log_ok l = true -> lsn0_ok l = true -> disk_ok l disk = true ->
  forallb out_ok (redo_outs l disk) = true.
Proof. intros l disk Hl H0 Hd. apply (redo_repeats_lsn0 l disk Hl H0 Hd). Qed.

Lemma image_undo_hyps l disk : image_wf l disk = true -> undo_hyps l.
Proof.
  intros H. destruct (image_wf_parts _ _ H) as (H1 & H2 & H3 & H4 & H5 & H6 & H7).
  constructor; assumption.
Qed.

Lemma redo_slot_val l disk p s : image_wf l disk = true ->
  page_val (redo l disk) p s = slot_val l p s.
Proof.
  intros H. destruct (image_wf_parts _ _ H) as (H1 & H2 & H3 & H4 & H5 & H6 & H7).
  unfold page_val. rewrite (redo_repeats l disk H1 H4 H5). apply (replay_slot_val l p s H1).
Qed.

(** every operation of the undo pass succeeds *)
Theorem undo_ok : forall l disk order, image_wf l disk = true ->
  Permutation order (losers l) ->
  forallb out_ok (undo_all_outs l order (redo l disk)) = true.
Proof.
  intros l disk order Hwf Hperm.
  assert (Hyp := image_undo_hyps l disk Hwf).
  assert (Hin : forall t, In t order -> In t (losers l))
    by (intros t Ht; eapply Permutation_in; eassumption).
  destruct (undo_all_seq l (uh_log l Hyp) (uh_chains l Hyp) order (redo l disk)) as [_ E2].
  rewrite E2. apply undo_outs_ok_grow; try assumption.
  - apply (image_wf_parts _ _ Hwf).
  - intros p s. apply redo_slot_val. exact Hwf.
Qed.

(** C01 [recovery_restores_committed_state] / C02 [atomicity] *)
Theorem recover_committed : forall l disk order, image_wf l disk = true ->
  Permutation order (losers l) ->
  forall p s, page_val (recover l order disk) p s = committed_val l p s.
Proof.
  intros l disk order Hwf Hperm p s.
  assert (Hyp := image_undo_hyps l disk Hwf).
  assert (Hin : forall t, In t order -> In t (losers l))
    by (intros t Ht; eapply Permutation_in; eassumption).
  assert (Hok := undo_ok l disk order Hwf Hperm).
  destruct (undo_all_seq l (uh_log l Hyp) (uh_chains l Hyp) order (redo l disk)) as [E1 E2].
  unfold recover. rewrite E1. rewrite E2 in Hok.
  apply undo_slot_committed; try assumption. apply redo_slot_val. exact Hwf.
Qed.

(** C01 [restart_succeeds] *)
Theorem restart_ok : forall l disk order, image_wf l disk = true ->
  Permutation order (losers l) ->
  forallb out_ok (recover_outs l order disk) = true.
Proof.
  intros l disk order Hwf Hperm. destruct (image_wf_parts _ _ Hwf) as (H1 & H2 & H3 & H4 & H5 & H6 & H7).
  unfold recover_outs. rewrite forallb_app, (undo_ok l disk order Hwf Hperm), andb_true_r.
  apply redo_outs_ok; try assumption. apply fresh_lsn0_ok; assumption.
Qed.

(** the redo pass alone always succeeds *)
Theorem redo_pass_ok : forall l disk, image_wf l disk = true -> forallb out_ok (redo_outs l disk) = true.
Proof.
  intros l disk Hwf. destruct (image_wf_parts _ _ Hwf) as (H1 & H2 & H3 & H4 & H5 & H6 & H7).
  apply redo_outs_ok; try assumption. apply fresh_lsn0_ok; assumption.
Qed.

(* ------------------------------------------------------------------ *)
(** * Readings of the committed value (C01 [committed_effects_survive], C02
      [unfinished_inserts_absent], [unfinished_changes_reverted]) *)

Lemma committed_val_suffix : forall l p s pre post, l = pre ++ post ->
  forallb (fun r => negb (on_slot p s r) || memN (l_txn r) (losers l)) post = true ->
  forallb (fun r => match l_kind r with KNewPage _ p' => negb (p' =? p) | _ => true end) post = true ->
  committed_val l p s = slot_val (filter (fun r => negb (memN (l_txn r) (losers l))) pre) p s.
Proof.
  intros l p s pre post El H1 H2. unfold committed_val.
  set (f := fun r => negb (memN (l_txn r) (losers l))).
  rewrite El, filter_app, slot_val_eq, fold_left_app, <- slot_val_eq.
  rewrite forallb_forall in H1, H2. apply sv_fold_untouched.
  - intros r Hr. apply filter_In in Hr. destruct Hr as [Hr _].
    specialize (H2 r Hr). rewrite strict_newpage_eq in H2. apply negb_true_iff in H2. exact H2.
  - intros r Hr. apply filter_In in Hr. destruct Hr as [Hr Hf]. unfold f in Hf.
    specialize (H1 r Hr). apply negb_true_iff in Hf. rewrite Hf, orb_false_r in H1.
    apply negb_true_iff in H1. exact H1.
Qed.

Lemma sv_fold_none p s : forall m, (forall r, In r m -> on_slot p s r = false) ->
  fold_left (sv_step p s) m None = None.
Proof.
  induction m as [|r m IH]; intros H; [reflexivity|]. cbn [fold_left].
  rewrite sv_step_cases, (H r (or_introl eq_refl)).
  destruct (is_newpage p r); apply IH; intros x Hx; apply H; right; exact Hx.
Qed.

Lemma committed_val_losers_only : forall l p s,
  forallb (fun r => negb (on_slot p s r) || memN (l_txn r) (losers l)) l = true ->
  committed_val l p s = None.
Proof.
  intros l p s H. unfold committed_val. rewrite slot_val_eq. apply sv_fold_none.
  rewrite forallb_forall in H. intros r Hr. apply filter_In in Hr. destruct Hr as [Hr Hf].
  specialize (H r Hr). apply negb_true_iff in Hf. rewrite Hf, orb_false_r in H.
  apply negb_true_iff in H. exact H.
Qed.

Lemma committed_not_loser l r :
  existsb (fun r' => (l_txn r' =? l_txn r) && match l_kind r' with KCommit => true | _ => false end) l = true ->
  memN (l_txn r) (losers l) = false.
Proof.
  intros H. apply memN_false. intros Hin. apply losers_not_ended in Hin.
  assert (E : ended l (l_txn r) = true).
  { unfold ended. apply existsb_exists in H. destruct H as (r' & Hr' & Hc).
    apply existsb_exists. exists r'. split; [exact Hr'|].
    apply andb_true_iff in Hc. destruct Hc as [Hc1 Hc2]. rewrite Hc1.
    destruct (l_kind r'); try discriminate; reflexivity. }
  rewrite E in Hin. discriminate.
Qed.

Lemma committed_val_survive : forall l p s pre r post,
  l = pre ++ r :: post -> on_slot p s r = true ->
  existsb (fun r' => (l_txn r' =? l_txn r) && match l_kind r' with KCommit => true | _ => false end) l = true ->
  forallb (fun r' => negb (on_slot p s r') || memN (l_txn r') (losers l)) post = true ->
  forallb (fun r' => match l_kind r' with KNewPage _ p' => negb (p' =? p) | _ => true end) post = true ->
  committed_val l p s =
    slot_step (slot_val (filter (fun r' => negb (memN (l_txn r') (losers l))) pre) p s) (l_kind r).
Proof.
  intros l p s pre r post El Hs Hc H1 H2.
  assert (Hnl := committed_not_loser l r Hc).
  assert (El' : l = (pre ++ [r]) ++ post) by (rewrite <- app_assoc; exact El).
  rewrite (committed_val_suffix l p s (pre ++ [r]) post El' H1 H2).
  rewrite filter_app. cbn [filter]. rewrite Hnl. cbn [negb].
  rewrite (slot_val_eq (_ ++ _)), fold_left_app, <- slot_val_eq. cbn [fold_left].
  rewrite sv_step_cases, Hs.
  destruct (is_newpage p r) eqn:En; [|reflexivity].
  rewrite (newpage_not_slot p s r En) in Hs. discriminate.
Qed.


Theorem committed_survive : forall l disk order p s pre r post,
  image_wf l disk = true -> Permutation order (losers l) ->
  l = pre ++ r :: post -> on_slot p s r = true ->
  existsb (fun r' => (l_txn r' =? l_txn r) && match l_kind r' with KCommit => true | _ => false end) l = true ->
  forallb (fun r' => negb (on_slot p s r') || memN (l_txn r') (losers l)) post = true ->
  forallb (fun r' => match l_kind r' with KNewPage _ p' => negb (p' =? p) | _ => true end) post = true ->
  page_val (recover l order disk) p s =
    slot_step (slot_val (filter (fun r' => negb (memN (l_txn r') (losers l))) pre) p s) (l_kind r).
Proof.
  intros l disk order p s pre r post Hwf Hperm El Hs Hc H1 H2.
  rewrite (recover_committed l disk order Hwf Hperm).
  apply committed_val_survive with (post := post); assumption.
Qed.

Theorem losers_only_none : forall l disk order p s, image_wf l disk = true ->
  Permutation order (losers l) ->
  forallb (fun r => negb (on_slot p s r) || memN (l_txn r) (losers l)) l = true ->
  page_val (recover l order disk) p s = None.
Proof.
  intros l disk order p s Hwf Hperm H.
  rewrite (recover_committed l disk order Hwf Hperm).
  apply committed_val_losers_only. exact H.
Qed.

Theorem loser_suffix_reverted : forall l disk order p s pre post, image_wf l disk = true ->
  Permutation order (losers l) ->
  l = pre ++ post ->
  forallb (fun r => negb (on_slot p s r) || memN (l_txn r) (losers l)) post = true ->
  forallb (fun r => match l_kind r with KNewPage _ p' => negb (p' =? p) | _ => true end) post = true ->
  page_val (recover l order disk) p s =
    slot_val (filter (fun r => negb (memN (l_txn r) (losers l))) pre) p s.
Proof.
  intros l disk order p s pre post Hwf Hperm El H1 H2.
  rewrite (recover_committed l disk order Hwf Hperm).
  apply committed_val_suffix with (post := post); assumption.
Qed.

(* ------------------------------------------------------------------ *)
(** * C20: interrupting and repeating recovery *)

Lemma image_wf_other_disk l disk disk' : image_wf l disk = true -> disk_ok l disk' = true ->
  image_wf l disk' = true.
Proof.
  intros H Hd. destruct (image_wf_parts _ _ H) as (H1 & H2 & H3 & H4 & H5 & H6 & H7).
  unfold image_wf. rewrite H1, H2, H3, H4, Hd, H6, H7. reflexivity.
Qed.

(** C20 [recover_interruptible_partial] *)
Theorem recover_any_image : forall l disk disk' order order',
  image_wf l disk = true -> disk_ok l disk' = true ->
  Permutation order (losers l) -> Permutation order' (losers l) ->
  forall p s, page_val (recover l order' disk') p s = page_val (recover l order disk) p s.
Proof.
  intros l disk disk' order order' Hwf Hd Hp Hp' p s.
  rewrite (recover_committed l disk order Hwf Hp).
  apply recover_committed; try assumption.
  eapply image_wf_other_disk; eassumption.
Qed.

(** with the same undo order nothing beyond [log_ok], [fresh_pages_ok] and [disk_ok] is needed:
    the two runs agree on every page, whatever the undo pass does *)
Lemma peq_undo_chain l : forall fuel ps ps' cur, peq ps ps' ->
  peq (undo_chain fuel l ps cur) (undo_chain fuel l ps' cur).
Proof.
  induction fuel as [|f IH]; intros ps ps' cur H; [exact H|].
  cbn [undo_chain]. destruct cur as [n|]; [|exact H].
  destruct (find_lsn l n) as [r|]; [|exact H]. apply IH. apply peq_undo_rec. exact H.
Qed.

Lemma peq_undo_all l : forall order ps ps', peq ps ps' -> peq (undo_all l order ps) (undo_all l order ps').
Proof.
  induction order as [|t order IH]; intros ps ps' H; [exact H|].
  unfold undo_all. cbn [fold_left]. apply IH. apply peq_undo_chain. exact H.
Qed.


Theorem recover_any_image_same_order : forall l disk disk' order,
  log_ok l = true -> fresh_pages_ok l [] = true -> disk_ok l disk = true -> disk_ok l disk' = true ->
  forall p, get_page (recover l order disk') p = get_page (recover l order disk) p.
Proof.
  intros l disk disk' order Hl Hf Hd Hd'. unfold recover. apply peq_undo_all. intros q.
  rewrite (redo_repeats l disk' Hl Hf Hd'), (redo_repeats l disk Hl Hf Hd). reflexivity.
Qed.

(** redo alone is idempotent, on any pages and for any log *)
Lemma get_redo_rec ps r q :
  get_page (redo_rec ps r) q =
  match page_of (l_kind r) with
  | Some p => if (p =? q) && (plsn (get_page ps q) <? l_lsn r) then new_content r (get_page ps q) else get_page ps q
  | None => get_page ps q
  end.
Proof.
  unfold redo_rec. destruct (page_of (l_kind r)) as [p|] eqn:Ep; [|reflexivity].
  destruct (N.eqb_spec p q) as [->|Hne]; cbn [andb].
  - destruct (plsn (get_page ps q) <? l_lsn r); [apply get_do_same; exact Ep | reflexivity].
  - destruct (plsn (get_page ps p) <? l_lsn r); [|reflexivity].
    apply get_do_other. rewrite Ep. congruence.
Qed.

Lemma redo_rec_mono ps r q : plsn (get_page ps q) <= plsn (get_page (redo_rec ps r) q).
Proof.
  rewrite get_redo_rec. destruct (page_of (l_kind r)) as [p|] eqn:Ep; [|lia].
  destruct (N.eqb_spec p q) as [->|Hne]; cbn [andb]; [|lia].
  destruct (N.ltb_spec (plsn (get_page ps q)) (l_lsn r)) as [Hlt|Hge]; [|lia].
  rewrite plsn_new_content by congruence. lia.
Qed.

Lemma redo_rec_reach ps r p : page_of (l_kind r) = Some p -> l_lsn r <= plsn (get_page (redo_rec ps r) p).
Proof.
  intros Ep. rewrite get_redo_rec, Ep, N.eqb_refl. cbn [andb].
  destruct (N.ltb_spec (plsn (get_page ps p)) (l_lsn r)) as [Hlt|Hge]; [|lia].
  rewrite plsn_new_content by congruence. lia.
Qed.

Lemma redo_mono : forall l ps q, plsn (get_page ps q) <= plsn (get_page (redo l ps) q).
Proof.
  induction l as [|r l IH]; intros ps q; [cbn; lia|]. cbn [redo fold_left].
  specialize (IH (redo_rec ps r) q). unfold redo in IH. pose proof (redo_rec_mono ps r q). lia.
Qed.

Lemma redo_reach : forall l ps r p, In r l -> page_of (l_kind r) = Some p ->
  l_lsn r <= plsn (get_page (redo l ps) p).
Proof.
  induction l as [|r0 l IH]; intros ps r p Hr Ep; [contradiction|]. cbn [redo fold_left].
  destruct Hr as [<-|Hr].
  - pose proof (redo_rec_reach ps r0 p Ep). pose proof (redo_mono l (redo_rec ps r0) p). unfold redo in *. lia.
  - apply (IH (redo_rec ps r0) r p Hr Ep).
Qed.

Lemma redo_noop : forall l ps,
  (forall r p, In r l -> page_of (l_kind r) = Some p -> l_lsn r <= plsn (get_page ps p)) -> redo l ps = ps.
Proof.
  induction l as [|r l IH]; intros ps H; [reflexivity|]. cbn [redo fold_left].
  assert (E : redo_rec ps r = ps).
  { unfold redo_rec. destruct (page_of (l_kind r)) as [p|] eqn:Ep; [|reflexivity].
    specialize (H r p (or_introl eq_refl) Ep).
    destruct (N.ltb_spec (plsn (get_page ps p)) (l_lsn r)) as [Hlt|_]; [lia | reflexivity]. }
  rewrite E. apply IH. intros x p Hx. apply H. right. exact Hx.
Qed.

Theorem redo_idem : forall l ps, redo l (redo l ps) = redo l ps.
Proof. intros l ps. apply redo_noop. intros r p Hr Ep. apply redo_reach; assumption. Qed.

(** C20 [redo_idempotent] (its hypotheses are not needed) *)

(** C20 [redo_idempotent] *)
Theorem redo_twice : forall l disk,
  forall p, get_page (redo l (redo l disk)) p = get_page (redo l disk) p.
Proof. intros l disk p. rewrite redo_idem. reflexivity. Qed.

(** C20 [completed_recovery_repeatable] *)
Theorem recover_empty_iter : forall ps n, Nat.iter n (recover [] []) ps = ps.
Proof. intros ps n. induction n as [|n IH]; [reflexivity|].
  change (recover [] [] (Nat.iter n (recover [] []) ps) = ps). rewrite IH. reflexivity.
Qed.

(** C20 [recover_twice_refuted] *)
Theorem recover_twice_fails : exists l disk order,
  image_wf l disk = true /\ Permutation order (losers l) /\
  forallb out_ok (recover_outs l order (recover l order disk)) = false.
Proof.
  exists [ mkR 0 1 None KBegin; mkR 1 1 (Some 0) (KNewPage 0 5); mkR 2 1 (Some 1) (KInsert 5 0 [1;2;3]);
           mkR 3 1 (Some 2) KCommit; mkR 4 3 None KBegin; mkR 5 3 (Some 4) (KInsert 5 1 [8;8]) ], [], [3].
  split; [vm_compute; reflexivity|]. split; [|vm_compute; reflexivity].
  match goal with |- Permutation _ ?x => assert (E : x = [3]) by (vm_compute; reflexivity); rewrite E end.
  apply Permutation_refl.
Qed.

(** towards C20 [redo_writes_keep_disk_ok]: the redo pass page by page *)
Lemma redo_page_local q : forall l ps ps', get_page ps q = get_page ps' q ->
  get_page (redo l ps) q = get_page (redo l ps') q.
Proof.
  induction l as [|r l IH]; intros ps ps' H; [exact H|]. cbn [redo fold_left]. apply IH.
  rewrite !get_redo_rec, H. reflexivity.
Qed.

Lemma redo_sync_page l disk q l21 l22 : log_ok l = true -> lsn0_ok l = true -> l = l21 ++ l22 ->
  get_page disk q = get_page (replay l21 []) q ->
  get_page (redo l disk) q = get_page (replay l []) q.
Proof.
  intros Hl H0 El Hq.
  assert (E1 : get_page [(q, get_page disk q)] q = get_page disk q)
    by (unfold get_page at 1; cbn [aget]; rewrite N.eqb_refl; reflexivity).
  rewrite (redo_page_local q l disk [(q, get_page disk q)]) by (symmetry; exact E1).
  apply (redo_sync l [] None _ Hl bounded_nil H0). intros q'.
  destruct (N.eq_dec q' q) as [->|Hne].
  - exists l21, l22. split; [exact El|]. rewrite E1. exact Hq.
  - exists [], l. split; [reflexivity|]. unfold get_page. cbn [aget replay fold_left].
    destruct (N.eqb_spec q q') as [E|_]; [congruence | reflexivity].
Qed.

Lemma replay_reach : forall l ps last r q, log_ok_from l ps last = true -> bounded ps last ->
  In r l -> page_of (l_kind r) = Some q -> l_lsn r <= plsn (get_page (replay l ps) q).
Proof.
  intros l ps last r q Hl Hb Hr Ep. apply in_split in Hr. destruct Hr as (a & b & ->).
  apply log_ok_from_app in Hl. destruct Hl as [Ha Hrb].
  assert (Bb := bounded_replay _ _ _ Ha Hb).
  apply log_ok_from_cons in Hrb. destruct Hrb as (C1 & C2 & C3).
  rewrite replay_app. change (replay (r :: b) (replay a ps)) with (replay b (do_rec (replay a ps) r)).
  pose proof (plsn_mono b (do_rec (replay a ps) r) _ q C3 (bounded_step _ _ _ Bb C1)) as M.
  rewrite get_do_same in M by exact Ep. rewrite plsn_new_content in M by congruence. exact M.
Qed.

Lemma redo_page_noop q : forall l ps,
  (forall r, In r l -> page_of (l_kind r) = Some q -> l_lsn r <= plsn (get_page ps q)) ->
  get_page (redo l ps) q = get_page ps q.
Proof.
  induction l as [|r l IH]; intros ps H; [reflexivity|]. cbn [redo fold_left].
  assert (E : get_page (redo_rec ps r) q = get_page ps q).
  { rewrite get_redo_rec. destruct (page_of (l_kind r)) as [p|] eqn:Ep; [|reflexivity].
    destruct (N.eqb_spec p q) as [->|_]; cbn [andb]; [|reflexivity].
    specialize (H r (or_introl eq_refl) Ep).
    destruct (N.ltb_spec (plsn (get_page ps q)) (l_lsn r)) as [Hlt|_]; [lia | reflexivity]. }
  fold (redo l (redo_rec ps r)). rewrite (IH (redo_rec ps r)); [exact E|].
  intros x Hx Ex. rewrite E. apply H; [right; exact Hx | exact Ex].
Qed.

Lemma In_firstn {A} : forall n (l : list A) x, In x (firstn n l) -> In x l.
Proof.
  induction n as [|n IH]; intros [|y l] x H; cbn in H; try contradiction.
  destruct H as [<-|H]; [left; reflexivity | right; apply IH; exact H].
Qed.

Lemma forallb_firstn {A} (f : A -> bool) n l : forallb f l = true -> forallb f (firstn n l) = true.
Proof.
  intros H. rewrite forallb_forall in *. intros x Hx. apply H. eapply In_firstn; exact Hx.
Qed.

Lemma astate_beq_refl : forall a, astate_beq a a = true.
Proof.
  induction a as [|[[b m]|] a IH]; cbn; [reflexivity| |exact IH].
  rewrite eqb_bytes_refl, Bool.eqb_reflx, IH. reflexivity.
Qed.

Theorem redo_writes_ok_if_lsn0 : forall l disk written, log_ok l = true -> lsn0_ok l = true ->
  disk_ok l disk = true ->
  (forall p pg, In (p, pg) written -> exists k, (k <= length l)%nat /\ pg = get_page (redo (firstn k l) disk) p) ->
  disk_ok l (written ++ disk) = true.
Proof.
  intros l disk written Hl H0 Hd Hw. unfold disk_ok. rewrite forallb_app. fold (disk_ok l disk).
  rewrite Hd, andb_true_r. apply forallb_forall. intros [p pg] Hin. cbn [fst snd].
  destruct (Hw p pg Hin) as (k & Hk & ->).
  assert (J : exists j, (j <= length l)%nat /\
              get_page (redo (firstn k l) disk) p = get_page (replay (firstn j l) []) p).
  { destruct (disk_ok_page l disk p Hd) as (l21 & l22 & El & Hq).
    assert (Hlk : log_ok (firstn k l) = true).
    { unfold log_ok in *. rewrite <- (firstn_skipn k l) in Hl. apply log_ok_from_app in Hl. tauto. }
    destruct (Nat.le_gt_cases (length l21) k) as [Hle|Hgt].
    - exists k. split; [exact Hk|].
      apply (redo_sync_page (firstn k l) disk p l21 (firstn (k - length l21) l22)); try assumption.
      + apply forallb_firstn. exact H0.
      + rewrite El at 1. rewrite firstn_app, (firstn_all2 l21) by exact Hle. reflexivity.
    - exists (length l21). split; [rewrite El, app_length; lia|].
      assert (Ef : firstn (length l21) l = l21).
      { rewrite El, firstn_app, Nat.sub_diag, firstn_all, firstn_O. apply app_nil_r. }
      rewrite Ef, <- Hq. apply redo_page_noop. intros r Hr Ep. rewrite Hq.
      assert (Hr' : In r l21).
      { rewrite El, firstn_app in Hr. replace (k - length l21)%nat with 0%nat in Hr by lia.
        rewrite firstn_O, app_nil_r in Hr. eapply In_firstn; exact Hr. }
      apply (replay_reach l21 [] None r p); try assumption; [|apply bounded_nil].
      unfold log_ok in Hl. rewrite El in Hl. apply log_ok_from_app in Hl. tauto. }
  destruct J as (j & Hj & E). unfold page_is_prefix_state. apply existsb_exists. exists j.
  split; [apply in_seq; lia|]. rewrite <- E, N.eqb_refl, astate_beq_refl. reflexivity.
Qed.


(** C20 [redo_writes_keep_disk_ok] (false without [fresh_pages_ok]: [redo_writes_counterexample]) *)
Theorem redo_writes_ok : forall l disk written, log_ok l = true -> fresh_pages_ok l [] = true ->
  disk_ok l disk = true ->
  (forall p pg, In (p, pg) written -> exists k, (k <= length l)%nat /\ pg = get_page (redo (firstn k l) disk) p) ->
  disk_ok l (written ++ disk) = true.
Proof.
  intros l disk written Hl Hf. apply redo_writes_ok_if_lsn0; [exact Hl|]. apply fresh_lsn0_ok; assumption.
Qed.

(* ------------------------------------------------------------------ *)
(** * Examples *)

(** Without [fresh_pages_ok], [redo_repeats] fails when the first record of a page has LSN 0
    and is not the page's creation: redo skips it (a never-written page has LSN 0). *)
Example redo_repeats_counterexample :
  let l := [mkR 0 1 None (KInsert 5 0 [1])] in
  log_ok l = true /\ disk_ok l [] = true /\ fresh_pages_ok l [] = false /\
  get_page (redo l []) 5 = mkAP 0 [] /\ get_page (replay l []) 5 = mkAP 0 [Some ([1], false)].
Proof. vm_compute. repeat split. Qed.

(** ... and so does [redo_writes_ok]: the page written after the whole redo pass is not a prefix state *)
Example redo_writes_counterexample :
  let l := [mkR 0 1 None (KInsert 5 0 [1]); mkR 1 1 (Some 0) (KInsert 5 1 [2])] in
  log_ok l = true /\ disk_ok l [] = true /\ fresh_pages_ok l [] = false /\
  disk_ok l ([(5, get_page (redo (firstn 2 l) []) 5)] ++ []) = false.
Proof. vm_compute. repeat split. Qed.

(** The refinements of the model that closed the gaps found while proving the theorems.
    (1) A ROLLBACKDELETE record on a row that is not delete-marked no longer replays
        (its undo would have left the committed row marked). *)
Example rollback_unmarked_not_wf :
  let l := [mkR 0 1 None KBegin; mkR 1 1 (Some 0) (KNewPage 0 5); mkR 2 1 (Some 1) (KInsert 5 0 [1;2;3]);
            mkR 3 1 (Some 2) KCommit; mkR 4 3 None KBegin; mkR 5 3 (Some 4) (KRollback 5 0)] in
  log_ok l = false.
Proof. vm_compute. reflexivity. Qed.

(** (2) An unfinished shrinking update is excluded by [loser_updates_grow] (part of [image_wf]): here a
        committed transaction used the freed space and the undo of the update does not fit. *)
Example shrinking_loser_update_not_wf :
  let big := repeat 1 2000 in
  let l := [mkR 0 1 None KBegin; mkR 1 1 (Some 0) (KNewPage 0 5); mkR 2 1 (Some 1) (KInsert 5 0 big);
            mkR 3 1 (Some 2) (KInsert 5 1 big); mkR 4 1 (Some 3) KCommit;
            mkR 5 3 None KBegin; mkR 6 3 (Some 5) (KUpdate 5 0 big [7]);
            mkR 7 2 None KBegin; mkR 8 2 (Some 7) (KInsert 5 2 big); mkR 9 2 (Some 8) KCommit] in
  loser_updates_grow l = false /\ image_wf l [] = false /\
  forallb out_ok (recover_outs l [3] []) = false.
Proof. vm_compute. repeat split. Qed.

(** (3) [find_lsn] only finds LSN-carrying records: a [KOther] record whose LSN field collides with a
        record of an unfinished transaction is harmless. *)
Example other_lsn_collision_harmless :
  let l := [mkR 5 9 None KOther; mkR 0 1 None KBegin; mkR 1 1 (Some 0) (KNewPage 0 5); mkR 2 1 (Some 1) KCommit;
            mkR 4 3 None KBegin; mkR 5 3 (Some 4) (KInsert 5 0 [8;8])] in
  image_wf l [] = true /\ losers l = [3] /\
  page_val (recover l [3] []) 5 0 = None /\ committed_val l 5 0 = None.
Proof. vm_compute. repeat split. Qed.

(** (4) [last_of] ignores [KOther] records: one that carries an unfinished transaction's id no longer
        sends the undo walk astray (three images that used to refute [recover_committed],
        [restart_ok] and [recover_any_image]). *)
Example other_txn_harmless_1 :
  let l := [mkR 0 1 None KBegin; mkR 1 1 (Some 0) (KNewPage 0 5); mkR 2 1 (Some 1) (KInsert 5 0 [1;2;3]);
            mkR 3 1 (Some 2) KCommit; mkR 4 3 None KBegin; mkR 5 3 (Some 4) (KInsert 5 1 [8;8]);
            mkR 2 3 None KOther] in
  image_wf l [] = true /\ losers l = [3] /\
  map (page_val (recover l [3] []) 5) [0; 1] = [Some ([1;2;3], false); None] /\
  map (committed_val l 5) [0; 1] = [Some ([1;2;3], false); None].
Proof. vm_compute. repeat split. Qed.

Example other_txn_harmless_2 :
  let l := [mkR 0 1 None KBegin; mkR 1 1 (Some 0) (KNewPage 0 5); mkR 2 1 (Some 1) (KInsert 5 0 [1;2;3]);
            mkR 3 1 (Some 2) KCommit;
            mkR 4 4 None KBegin; mkR 5 4 (Some 4) (KMark 5 0); mkR 6 4 (Some 5) (KApply 5 0 [1;2;3]); mkR 7 4 (Some 6) KCommit;
            mkR 8 3 None KBegin; mkR 5 3 None KOther] in
  image_wf l [] = true /\ losers l = [3] /\
  forallb out_ok (recover_outs l [3] []) = true.
Proof. vm_compute. repeat split. Qed.

Example other_txn_harmless_3 :
  let l := [mkR 0 1 None KBegin; mkR 1 1 (Some 0) (KNewPage 0 5); mkR 2 1 (Some 1) (KInsert 5 0 [1]);
            mkR 3 1 (Some 2) KCommit;
            mkR 4 2 None KBegin; mkR 5 2 (Some 4) (KUpdate 5 0 [1] [2]); mkR 6 2 (Some 5) KCommit;
            mkR 7 3 None KBegin; mkR 8 3 (Some 7) (KUpdate 5 0 [2] [3]);
            mkR 9 4 None KBegin; mkR 5 4 None KOther] in
  image_wf l [] = true /\ losers l = [3; 4] /\
  page_val (recover l [3; 4] []) 5 0 = Some ([2], false) /\
  page_val (recover l [4; 3] []) 5 0 = Some ([2], false).
Proof. vm_compute. repeat split. Qed.
